import Driver.Common
import ScionTime.Model.Timemath
import ScionTime.Model.Measurements
open Driver ScionTime.Timemath ScionTime.Measurements

/-- ops:
  tm.sgn <d>                 -> ok <-1|0|1>
  tm.inv <d>                 -> ok <v>
  tm.mid <x> <y>             -> ok <v>
  tm.median [d,...]          -> ok <v> [slice after the call]   | panic explicit:unexpected_number_of_values
  tm.ftm [d,...]             -> the same
  ms.median [o,t,e,...] post=[o,t,e,...]  -> ok <offset> <timestamp ns> <err 0|1> [post]
  ms.ftm    [o,t,e,...] post=[o,t,e,...]  -> the same
  ms.rounds n round;round;...  -> ok <ftm>:[slice after the round]:<0|1> ... (see harness/cmd/c02/rounds.go)
     (o = offset int64, t = timestamp in ns since the Unix epoch (unbounded), e = 1 iff Error != nil;
      post = the slice the implementation left behind; answered `bad-sort` if it is not an
      offset-sorted permutation of the input)
-/
def i64? (s : String) : Option Int64 :=
  match parseInt? s with
  | some v => if -9223372036854775808 ≤ v ∧ v ≤ 9223372036854775807 then some (Int64.ofInt v) else none
  | none => none

def i64List? (s : String) : Option (List Int64) :=
  match parseIntList? s with
  | some l =>
    if l.all (fun v => -9223372036854775808 ≤ v ∧ v ≤ 9223372036854775807) then some (l.map Int64.ofInt) else none
  | none => none

def fmt64List (l : List Int64) : String := fmtIntList (l.map Int64.toInt)

def mList? (s : String) : Option (List M) :=
  let rec go : List Int → List M → Option (List M)
    | [], acc => some acc.reverse
    | o :: t :: e :: rest, acc =>
      if -9223372036854775808 ≤ o ∧ o ≤ 9223372036854775807 ∧ (e = 0 ∨ e = 1) then
        go rest (⟨Int64.ofInt o, t, e = 1⟩ :: acc)
      else none
    | _, _ => none
  match parseIntList? s with
  | some l => go l []
  | none => none

def fmtMList (l : List M) : String :=
  fmtIntList (l.flatMap fun m => [m.offset.toInt, m.ts, if m.err then 1 else 0])

def panicMsg : String := "panic explicit:unexpected_number_of_values"

def fmtCall : Call → String
  | none => panicMsg
  | some (v, post) => s!"ok {v.toInt} {fmt64List post}"

def fmtRes (post : List M) : Res → String
  | .panic => panicMsg
  | .badSort => "bad-sort"
  | .ok m => s!"ok {m.offset.toInt} {m.ts} {if m.err then 1 else 0} {fmtMList post}"

/-! ### ms.rounds: `MeasureClockOffsets` + `FaultTolerantMidpoint` round after round on one slice
(the call site `core/sync.measureOffsetToRefClks`). `collectMeasurements` stores the timely
successes of a round at the front of the caller's slice, leaves the rest as the previous round's
`FaultTolerantMidpoint` sorted it, and discards whatever arrives after the deadline; the slice starts
as `n` zero measurements. Offsets only (the order in which timely results arrive does not matter
once the slice is sorted). -/
inductive ClkTok where
  | ok (v : Int64) | err | lateOk (v : Int64) | lateErr

def clkTok? (s : String) : Option ClkTok :=
  if s = "e" then some .err
  else if s = "l" then some .lateErr
  else if s.startsWith "v" then (i64? (s.drop 1).toString).map .ok
  else if s.startsWith "L" then (i64? (s.drop 1).toString).map .lateOk
  else none

def roundsParse? (n : Nat) (s : String) : Option (List (List ClkTok)) :=
  (s.splitOn ";").mapM fun rd =>
    let toks := rd.splitOn ","
    if toks.length ≠ n then none else toks.mapM clkTok?

def roundsRun (n : Nat) (rounds : List (List ClkTok)) : String :=
  let rec go (slice : List Int64) : List (List ClkTok) → List String
    | [] => []
    | rd :: rest =>
      let timely := rd.filterMap fun | .ok v => some v | _ => none
      let cur := timely ++ slice.drop timely.length
      match ftm cur with
      | some (v, post) => s!"{v.toInt}:{fmt64List post}:0" :: go post rest
      | none => ["panic"]
  "ok " ++ " ".intercalate (go (List.replicate n 0) rounds)

def step (_ : Unit) (toks : List String) : Unit × String :=
  match toks with
  | ["tm.sgn", d] =>
    match i64? d with
    | some d => ((), s!"ok {sgn d}")
    | none => ((), "bad-op")
  | ["tm.inv", d] =>
    match i64? d with
    | some d => ((), s!"ok {(inv d).toInt}")
    | none => ((), "bad-op")
  | ["tm.mid", x, y] =>
    match i64? x, i64? y with
    | some x, some y => ((), s!"ok {(midpoint x y).toInt}")
    | _, _ => ((), "bad-op")
  | ["tm.median", l] =>
    match i64List? l with
    | some l => ((), fmtCall (median l))
    | none => ((), "bad-op")
  | ["tm.ftm", l] =>
    match i64List? l with
    | some l => ((), fmtCall (ftm l))
    | none => ((), "bad-op")
  | ["ms.rounds", n, rs] =>
    match n.toNat? with
    | some n =>
      if n < 1 ∨ n > 64 then ((), "bad-op") else
      match roundsParse? n rs with
      | some rounds => ((), roundsRun n rounds)
      | none => ((), "bad-op")
    | none => ((), "bad-op")
  | [op, l, p] =>
    if ¬ p.startsWith "post=" then ((), "bad-op") else
    match mList? l, mList? (p.drop 5).toString with
    | some ms, some post =>
      if op = "ms.median" then ((), fmtRes post (ScionTime.Measurements.median ms post))
      else if op = "ms.ftm" then ((), fmtRes post (ScionTime.Measurements.ftm ms post))
      else ((), "bad-op")
    | _, _ => ((), "bad-op")
  | _ => ((), "bad-op")

def main : IO Unit := run () step
