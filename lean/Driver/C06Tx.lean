import Driver.Common
import ScionTime.Model.ListenerTx
open Driver ScionTime.Server ScionTime.Time64 ScionTime.ListenerTx

/-- ops (harness/cmd/c06tx):

  tx.hist l=<ip|scion> reg=<sw|none|late> id=<d…> sk=<d…> kb=<k.k.…> ev=<e,e,…>
      -> ok kinds=<one letter per event | *> bad=<n>
      One history on a running listener. Source sockets of the harness are numbered 0..9;
      `id` maps a source socket to a client identity, `sk` to the listener socket that receives
      its datagrams (any assignment: the theorems say the answer does not depend on it).
      Events: `n<s>:b` NTP request in basic form from source s; `n<s>:<j>` in interleaved form
      quoting the receive timestamp of the reply to event j as origin; `q<s>:<j>` the same with
      receive field = transmit field (must be answered in basic mode); `e<s>` SCMP echo request,
      `t<s>` SCMP traceroute request, `f<s>` packet to be forwarded (SCION; answered/forwarded,
      one datagram written each); `x<s>` a datagram that is dropped; `r<s>` (SCION) a valid NTP
      request in basic form over a path that cannot be reversed: handled and recorded by
      `handleRequest`, then nothing is sent (`Ev.unsent`); `w<s>` (both listeners) a valid NTP
      request in basic form arriving from UDP source port 0 of source s's address: handled and
      recorded, the write of the reply fails (the same `Ev.unsent`; no datagram, no transmit id
      used); `o<s>` no datagram: the listener's sockets stop stamping (from here on no kernel
      receive timestamps — the clock is read instead — and the kb of later events is `n`);
      `n<s>:<j>` with j such an event quotes the receive timestamp that exchange was
      recorded with.
      rec: per event `1` = its exchange is on record at the end of the history, `0` = it is not,
      `-` = the event is no NTP exchange.
      `kb`: per event what the kernel does with the transmit timestamp of the datagram written:
      `i` in time, `n` never, `l<d>` late (after d further datagrams on that socket).
      kinds: `b` basic reply, `i` interleaved reply, the event letter for e/t/f, `-` nothing written.
      bad = interleaved replies whose transmit timestamp is not the kernel transmit timestamp of
      the quoted reply's own datagram + exchanges kept on record without such a timestamp.
      reg=late: the kernel's choices are not known to the harness; kinds are not compared (`*`).

  udp.rtx <closed|empty|stamp|icmp|payload> [id=<k>]
      -> ok zero=<0|1> id=<n> err=<none|sys|notfound|unexpected>
      `udp.ReadTXTimestamp` on a socket the harness has brought into that state.

  sock.fifo n=<k> -> ok ids=[0,…,k-1] then=notfound
      k datagrams written on one socket with software timestamping, then k+1 reads.
-/
def T0 : Int := 1700000000000000000

def digitsOf (s : String) : Option (List Nat) :=
  s.toList.mapM fun c => if c.isDigit then some (c.toNat - '0'.toNat) else none

inductive EvT where
  | ntp (src : Nat) (ref : Option Nat) (eqRxTx : Bool)
  | aux (letter : Char) (src : Nat)
  | drop (src : Nat)
  | tsoff (src : Nat)  -- o: the listener's sockets stop stamping
  | unsent (src : Nat) (writeFails : Bool)  -- r: irreversible path (SCION only); w: reply write fails (both listeners)

def parseEv (s : String) : Option EvT :=
  match s.toList with
  | 'n' :: rest =>
    match (String.ofList rest).splitOn ":" with
    | [a, "b"] => a.toNat?.map fun a => .ntp a none false
    | [a, j] => match a.toNat?, j.toNat? with
      | some a, some j => some (.ntp a (some j) false)
      | _, _ => none
    | _ => none
  | 'q' :: rest =>
    match (String.ofList rest).splitOn ":" with
    | [a, j] => match a.toNat?, j.toNat? with
      | some a, some j => some (.ntp a (some j) true)
      | _, _ => none
    | _ => none
  | 'e' :: rest => (String.ofList rest).toNat?.map (.aux 'e')
  | 't' :: rest => (String.ofList rest).toNat?.map (.aux 't')
  | 'f' :: rest => (String.ofList rest).toNat?.map (.aux 'f')
  | 'x' :: rest => (String.ofList rest).toNat?.map .drop
  | 'o' :: rest => (String.ofList rest).toNat?.map .tsoff
  | 'r' :: rest => (String.ofList rest).toNat?.map (.unsent · false)
  | 'w' :: rest => (String.ofList rest).toNat?.map (.unsent · true)
  | _ => none

def parseKB (s : String) (t : Int) : Option KB :=
  match s.toList with
  | ['i'] => some (.intime t)
  | ['n'] => some .never
  | 'l' :: rest => (String.ofList rest).toNat?.map fun d => .late d t
  | _ => none

structure HSt where
  w : World
  outs : Array Out        -- per event
  letters : Array Char
  bad : Nat

def srcOf : EvT → Nat
  | .ntp s _ _ => s
  | .aux _ s => s
  | .drop s => s
  | .tsoff s => s
  | .unsent s _ => s

/-- is an exchange of client `cl` with receive timestamp `rx` on record? -/
def onRecord (w : World) (cl : Nat) (rx : T64) : Bool :=
  match w.store.items.find cl with
  | some it => it.buf.any (fun e => decide (e.rx = rx))
  | none => false

/-- run one history through the model -/
def runHist (scion : Bool) (noRx0 : Bool) (ids sks : List Nat) (evs : List (EvT × String)) : Option (String × Nat × String) := do
  let mut st : HSt := ⟨World.init, #[], #[], 0⟩
  let mut j : Nat := 0
  let mut noRx : Bool := noRx0
  for (e, kbs) in evs do
    let base : Int := T0 + (j : Int) * 1000000
    let kb ← parseKB kbs (base + 5000)
    let src := srcOf e
    let cl ← ids[src]?
    let sk ← sks[src]?
    if ¬ scion ∧ src ≥ 8 then none
    match e with
    | .ntp _ ref eq =>
      let tx : T64 := ⟨1000 + j, 1⟩
      let rx : T64 := if eq then tx else ⟨2000 + j, 2⟩
      let req : Req ← match ref with
        | none => pure (⟨⟨0, 0⟩, tx, tx⟩ : Req)
        | some r => do
          let o ← st.outs[r]?
          -- an exchange for which nothing was sent is quoted by the receive timestamp it was recorded with
          let org ← if o.unsent then some (ofTime o.rxt) else o.reply.map (·.rx)
          pure (⟨org, rx, tx⟩ : Req)
      let krx : Option Int := if noRx then none else some base
      let r := stepEv code tssCap tssItemCap st.w (.ntp sk cl req krx (base + 300) (base + 1000) kb)
      let rep ← r.2.reply
      let mut bad := st.bad
      if rep.inter then
        -- the quoted exchange must have been recorded with its own datagram's kernel timestamp
        match ref.bind (fun r => st.outs[r]?) with
        | some o =>
          match o.own with
          | some t => if rep.tx ≠ ofTime (if ¬ (o.rxt < t) then o.rxt + 1 else t) then bad := bad + 1
          | none => bad := bad + 1
        | none => bad := bad + 1
      st := ⟨r.1, st.outs.push r.2, st.letters.push (if rep.inter then 'i' else 'b'), bad⟩
    | .aux c s =>
      if ¬ scion ∨ (c = 'f' ∧ s < 8) then none
      let r := stepEv code tssCap tssItemCap st.w (.aux sk kb)
      st := ⟨r.1, st.outs.push r.2, st.letters.push c, st.bad⟩
    | .drop _ =>
      let r := stepEv code tssCap tssItemCap st.w (.drop sk)
      st := ⟨r.1, st.outs.push r.2, st.letters.push '-', st.bad⟩
    | .tsoff _ =>
      -- nothing reaches the listener; later events have no kernel receive timestamp and kb = n
      if kb != .never then none
      let r := stepEv code tssCap tssItemCap st.w (.drop sk)
      noRx := true
      st := ⟨r.1, st.outs.push r.2, st.letters.push '-', st.bad⟩
    | .unsent s wr =>
      if (¬ scion ∧ ¬ wr) ∨ s ≥ 8 then none
      let tx : T64 := ⟨1000 + j, 1⟩
      let krx : Option Int := if noRx then none else some base
      let r := stepEv code tssCap tssItemCap st.w (.unsent sk cl ⟨⟨0, 0⟩, tx, tx⟩ krx (base + 300) (base + 1000))
      st := ⟨r.1, st.outs.push r.2, st.letters.push '-', st.bad⟩
    j := j + 1
  -- which exchanges of the history are on record at its end
  let rec_ := st.outs.toList.map fun o =>
    if o.reply.isSome ∨ o.unsent then (if onRecord st.w o.cl (ofTime o.rxt) then '1' else '0') else '-'
  return (String.ofList st.letters.toList, st.bad, String.ofList rec_)

def errName : Err → String
  | .none => "none"
  | .sys _ => "sys"
  | .notFound => "notfound"
  | .unexpectedData => "unexpected"

def fmtR : RRes → String
  | .panic => "panic explicit:unexpected_timestamping_behavior"
  | .ret t id e => s!"ok zero={if t = zeroTime then 1 else 0} id={id} err={errName e}"

def step (_ : Unit) (toks : List String) : Unit × String :=
  match toks with
  | "tx.hist" :: rest =>
    match kv? rest "l", kv? rest "reg", (kv? rest "id").bind digitsOf, (kv? rest "sk").bind digitsOf,
          kv? rest "kb", kv? rest "ev" with
    | some l, some reg, some ids, some sks, some kb, some ev =>
      if ¬ (l = "ip" ∨ l = "scion") ∨ ¬ (reg = "sw" ∨ reg = "none" ∨ reg = "late") ∨ rest.length ≠ 6 then ((), "bad-op") else
      if ids.length ≠ sks.length ∨ ids.length > 10 then ((), "bad-op") else
      let es := ev.splitOn ","
      let ks := kb.splitOn "."
      if es.length ≠ ks.length then ((), "bad-op") else
      match es.mapM parseEv with
      | none => ((), "bad-op")
      | some evs =>
        match runHist (l = "scion") (reg = "none") ids sks (evs.zip ks) with
        | none => ((), "bad-op")
        | some (kinds, bad, rec_) =>
          ((), s!"ok kinds={if reg = "late" then "*" else kinds} bad={bad} rec={if reg = "late" then "*" else rec_}")
    | _, _, _, _, _, _ => ((), "bad-op")
  | ["udp.rtx", "closed"] => ((), fmtR (readTX (.connErr 22)))
  | ["udp.rtx", "empty"] => ((), fmtR (readTX emptyQueue))
  | ["udp.rtx", "stamp", idt] =>
    match (kv? [idt] "id").bind parseNat? with
    | some id => ((), fmtR (readTX (stampMsg id 1700000000000000000)))
    | none => ((), "bad-op")
  | ["udp.rtx", "icmp"] =>
    -- an ICMP error on the error queue (IP_RECVERR): offender address present, MSG_TRUNC set
    ((), fmtR (readTX (.sys (.ready 1) (.msg 0 (msgErrqueue + 0x20) true (.fields none none)))))
  | ["udp.rtx", "payload"] =>
    -- timestamp without SOF_TIMESTAMPING_OPT_TSONLY: the datagram is looped back with it (MSG_TRUNC)
    ((), fmtR (readTX (.sys (.ready 1) (.msg 0 (msgErrqueue + 0x20) false (.fields (some 1) (some 0))))))
  | ["sock.fifo", nt] =>
    match (kv? [nt] "n").bind parseNat? with
    | some n =>
      if n > 64 then ((), "bad-op") else
      let s := (List.range n).foldl (fun (s : LSock) (i : Nat) => s.send (.intime (T0 + (i : Int)))) LSock.init
      let rec go (fuel : Nat) (q : List Stamp) (acc : List Nat) : List Nat × Kernel :=
        match fuel with
        | 0 => (acc.reverse, emptyQueue)
        | f + 1 =>
          match readTX (kernelRead q).1 with
          | .ret _ id .none => go f (kernelRead q).2 (id :: acc)
          | _ => (acc.reverse, (kernelRead q).1)
      let r := go (n + 1) s.queue []
      let last := match readTX r.2 with | .ret _ _ e => errName e | .panic => "panic"
      ((), s!"ok ids={fmtNatList r.1} then={last}")
    | none => ((), "bad-op")
  | _ => ((), "bad-op")

def main : IO Unit := run () step
