import Driver.Common
import ScionTime.Model.ScionSrv
import ScionTime.Model.ClientId
open Driver ScionTime.ScionSrv

/-! ops:
  srv.handle mode= mock= sock= svc= dscp= hop= tc= sia= dia= st= dt= sa= da= pt= path= rev=
             hbh= e2e= pre= auth= l4= scmp= sp= dp= ulen= pld= mac= ntp=
      -> ok drop | ok reply <fields> | ok forward to=<addr>:<port> same=1 | panic <class>
  srv.fwd <the keys of srv.handle> zone=sw|none tso=0|1|2 post=0|1
      -> as srv.handle, a forward being
         ok forward to=<addr>:<port> same=1 chain=[hbh+][e2e+]udp hbh=<opts> e2e=<opts> amac=none|ok|bad
         | ok forward to=<addr>:<port> garbled
     (forwarding branch on packets with extension headers, listener with / without kernel rx
      timestamps; harness/cmd/c13/fwdext.go)
  auth.meta <hex>                 -> ok <spi> <alg> | panic ...
  auth.mac <hex>                  -> ok <hex> | panic ...
  auth.prepare <hex> <spi> <alg>  -> ok <hex> 2 4:2 | panic index
  id.text <sia>                   -> ok <IA text>            (addr.IA.String, model `iaText`)
  srv.ident sock= hopa= hopb= asia= ast= asa= bsia= bst= bsa= aia= ahost= bia= bhost=
      -> ok a=basic b=<basic|inter> a2=<inter|basic>
     (client-identity history, property C06: A basic exchange, B quotes A's receive timestamp,
      A quotes it; B and A are the same client iff their `clientIdScion ia host` agree)
-/

/-- canonical decimal (no sign, no leading zero) within [lo, hi]. -/
def num? (s : String) (lo hi : Nat) : Option Nat :=
  if s.isEmpty ∨ (s.length > 1 ∧ s.startsWith "0") ∨ ¬ s.all Char.isDigit then none
  else match s.toNat? with
    | some v => if lo ≤ v ∧ v ≤ hi then some v else none
    | none => none

def lowerHex? (s : String) : Option (List Nat) :=
  if s.any (fun c => 'A' ≤ c ∧ c ≤ 'F') then none else parseHex? s

def keyOrder : List String :=
  ["mode", "mock", "sock", "svc", "dscp", "hop", "tc", "sia", "dia", "st", "dt", "sa", "da",
   "pt", "path", "rev", "hbh", "e2e", "pre", "auth", "l4", "scmp", "sp", "dp", "ulen", "pld", "mac", "ntp"]

/-- tokens must be exactly `key=value` for the keys of `keyOrder`, in order. -/
def values? (toks : List String) : Option (List String) :=
  if toks.length ≠ keyOrder.length then none else
  (toks.zip keyOrder).mapM fun (t, k) =>
    if t.startsWith (k ++ "=") then some (t.drop (k.length + 1)).toString else none

def fmtL4 : L4 → String
  | .udp => "udp"
  | .scmp t c => s!"scmp:{t}:{c}"
  | .other => "other"

def fmtAuth : Option (List Nat) → String
  | none => "none"
  | some m => s!"{m.getD 3 0 + m.getD 2 0 * 256 + m.getD 1 0 * 65536 + m.getD 0 0 * 16777216}:{m.getD 4 0}"

def fmtEOpt : EOpt → String
  | .recv t d => s!"{t}:{toHex d}"
  | .ownTs => "253:ts"

def fmtOpts (present : Bool) (xs : List String) : String :=
  if !present then "none" else if xs.isEmpty then "-" else ",".intercalate xs

/-- The forwarded packet's authenticator re-verified by the end host: the option is the received
    one, the covered bytes are forwarded unchanged, so the verdict is that of the received packet
    (`mac=` oracle against the option's MAC field). -/
def fmtAmac (p : Pkt) (w : Wire) : String :=
  match w.auth, p.mac with
  | some d, some m =>
    if d.length = optDataLen ∧ m.length = macLen then (if d.drop metadataLen = m then "ok" else "bad") else "none"
  | _, _ => "none"

/-- the driver's hop-by-hop extensions hold one option as type, length, data -/
def fmtHbh (w : Wire) : String :=
  match w.hbh with
  | some (_, t :: _ :: d) => s!"{t}:{toHex d}"
  | _ => "?"

/-- answer of op srv.fwd for a forward: the re-parsed extension headers. -/
def fmtForwardExt (f : Fwd) : String :=
  let w := f.wire
  if !w.parses then s!"ok forward to={toHex f.toAddr}:{f.toPort} garbled" else
  let chain := (if w.hbh.isSome then "hbh+" else "") ++ (if w.e2e.isSome then "e2e+" else "") ++ "udp"
  s!"ok forward to={toHex f.toAddr}:{f.toPort} same=1 chain={chain} hbh={fmtOpts w.hbh.isSome [fmtHbh w]} e2e={fmtOpts w.e2e.isSome ((w.e2e.getD []).map fmtEOpt)} amac={fmtAmac f.pkt w}"

def fmtOutcome : Outcome → String
  | .drop r => s!"ok drop #b{r}"
  | .panic c => s!"panic {c}"
  | .forward f => s!"ok forward to={toHex f.toAddr}:{f.toPort} same=1"
  | .reply r =>
    let head := s!"ok reply hop={r.nextHop} tc={r.tc} sia={r.srcIA} dia={r.dstIA} st={r.srcType} dt={r.dstType} sa={toHex r.srcAddr} da={toHex r.dstAddr} pt={r.pathType} path={toHex r.path}"
    match r.l4, r.payload with
    | .udp, .ntpResponse => head ++ s!" l4=udp sp={r.srcPort} dp={r.dstPort} auth={fmtAuth r.auth} pld=ntp"
    | l4, .echo b => head ++ s!" l4={fmtL4 l4} auth={fmtAuth r.auth} pld={toHex b}"
    | l4, .ntpResponse => head ++ s!" l4={fmtL4 l4} auth={fmtAuth r.auth} pld=ntp"

def parseRev? (s : String) : Option (Option (Nat × List Nat)) :=
  if s = "err" then some none else
  match s.splitOn ":" with
  | [t, h] => match num? t 0 255, lowerHex? h with
    | some t, some h => some (some (t, h))
    | _, _ => none
  | _ => none

def valuesOf? (keys toks : List String) : Option (List String) :=
  if toks.length ≠ keys.length then none else
  (toks.zip keys).mapM fun (t, k) =>
    if t.startsWith (k ++ "=") ∧ t.length > k.length + 1 then some (t.drop (k.length + 1)).toString else none

/-- data of an option of the dispatcher's timestamp type put in by the sender (harness constant) -/
def senderTsData : List Nat := (List.range 16).map (240 + ·)

def srvHandleG (fwd : Bool) (toks : List String) : String :=
  let (toks, ext) := if fwd then (toks.take keyOrder.length, toks.drop keyOrder.length) else (toks, [])
  match values? toks with
  | some [mode, mock, sock, svc, dscp, hop, tc, sia, dia, st, dt, sa, da, pt, path, rev,
          hbh, e2e, pre, auth, l4, scmp, sp, dp, ulen, pld, mac, ntp] =>
    let r : Option String := do
      -- op srv.fwd: zone= tso= post=
      let (zone, tso, post) ← (if !fwd then some ("sw", 0, 0) else
        match valuesOf? ["zone", "tso", "post"] ext with
        | some [z, t, po] => do
          let t ← num? t 0 2
          let po ← num? po 0 1
          if z ≠ "sw" ∧ z ≠ "none" then none
          pure (z, t, po)
        | _ => none)
      let mock ← num? mock 0 1
      let svc ← num? svc 1 65535
      let dscp ← num? dscp 0 255
      let hop ← num? hop 0 1
      let tc ← num? tc 0 255
      let sia ← num? sia 0 18446744073709551615
      let dia ← num? dia 0 18446744073709551615
      let st ← num? st 0 15
      let dt ← num? dt 0 15
      let sa ← lowerHex? sa
      let da ← lowerHex? da
      let pt ← num? pt 0 255
      let path ← lowerHex? path
      let rev ← parseRev? rev
      let hbh ← num? hbh 0 (if fwd then 40 else 1)  -- srv.fwd: hop-by-hop option (201, hbh+1 bytes 09)
      let e2e ← num? e2e 0 1
      let pre ← num? pre 0 1
      let auth ← (if auth = "none" then some none else (lowerHex? auth).map some)
      let (scT, scC) ← (match scmp.splitOn ":" with
        | [a, b] => do let a ← num? a 0 255; let b ← num? b 0 255; pure (a, b)
        | _ => none)
      let l4 ← (if l4 = "udp" then some L4.udp else if l4 = "scmp" then some (L4.scmp scT scC)
                else if l4 = "other" then some L4.other else none)
      let sp ← num? sp 0 65535
      let dp ← num? dp 0 65535
      -- `tail<hex>`: the length field is that of `pld`, more bytes follow behind the window it delimits
      -- (the listener decodes `pld`; `mac=` is the MAC over the UDP header and `pld`)
      let ulenOk ← (if ulen = "ok" then some true else if ulen = "long" then some false
                    else if ulen.startsWith "tail" ∧ ulen.length > 4 then
                      (lowerHex? (ulen.drop 4).toString).bind fun t => if t.length > 0 ∧ l4 = L4.udp then some true else none
                    else none)
      let pld ← lowerHex? pld
      let mac ← (if mac = "err" then some none else (lowerHex? mac).map some)
      let ntpOk ← (if ntp = "ok" then some true else if ntp = "bad" then some false else none)
      -- the same well-formedness conditions the harness imposes
      if mode ≠ "srv" ∧ mode ≠ "srvkeys" ∧ mode ≠ "srvgrpc" ∧ mode ≠ "disp" then none
      if sock ≠ "svc" ∧ sock ≠ "eh" then none
      if sa.length ≠ 4 * (1 + st % 4) ∨ da.length ≠ 4 * (1 + dt % 4) then none
      if e2e = 0 ∧ (auth.isSome ∨ pre = 1) then none
      if mode = "disp" ∧ (sock ≠ "eh" ∨ mock ≠ 0) then none
      if (mode = "srvkeys" ∨ mode = "srvgrpc") ∧ mock ≠ 0 then none
      if (match mac with | some m => m.length != 0 && m.length != 16 | none => false) then none
      -- the child's configuration is fixed
      if svc ≠ 10123 ∨ dscp ≠ 46 then none
      let cfg : Cfg :=
        if mode = "srv" then
          serverCfg svc (if sock = "eh" then EndhostPort else svc) dscp (mock = 1) true false
        else if mode = "srvkeys" ∨ mode = "srvgrpc" then
          -- real-derivation keys from a (fake) daemon: connector present, fetch succeeds.
          -- srvgrpc: the production connector on a stand-in gRPC daemon whose keys rotate with the
          -- wall clock; the MAC oracle is the MAC under the key of the epoch the packet is sent
          -- in (the fetch chain is transparent: C13_fetcher_transparent, C13_listener_key_valid)
          serverCfg svc (if sock = "eh" then EndhostPort else svc) dscp false false true
        else dispatcherCfg
      -- srv.fwd: the same well-formedness conditions as the harness (fwdWellFormed)
      if fwd ∧ e2e = 0 ∧ (tso ≠ 0 ∨ post ≠ 0) then none
      if fwd ∧ zone = "none" ∧ ¬ (mode = "disp" ∨ (mode = "srv" ∧ mock = 1)) then none
      if fwd ∧ mode ≠ "disp" ∧ mode ≠ "srv" then none
      if fwd ∧ ulen.startsWith "tail" then none
      -- the options the harness serialises, in its order
      let opts : List (Nat × List Nat) :=
        (if tso = 1 then [(253, senderTsData)] else []) ++ (if pre = 1 then [(200, [1, 2, 3, 4])] else []) ++
        (match auth with | some d => [(2, d)] | none => []) ++ (if post = 1 then [(202, [7, 7, 7, 7, 7])] else []) ++
        (if tso = 2 then [(253, senderTsData)] else [])
      let p : Pkt :=
        { lastHop := hop, tc := tc, srcIA := sia, dstIA := dia, srcType := st, dstType := dt,
          srcAddr := sa, dstAddr := da, pathType := pt, path := path, rev := rev, l4 := l4,
          srcPort := sp, dstPort := dp, udpLenOk := ulenOk, e2e := e2e = 1, auth := auth,
          mac := mac, payload := pld, ntpOk := ntpOk,
          hbh := if hbh ≥ 1 then some ([201, hbh + 1] ++ List.replicate (hbh + 1) 9) else none,
          opts := opts, stamp := zone = "sw" }
      match fwd, handle cfg p with
      | true, .forward f => pure (fmtForwardExt f)
      | _, o => pure (fmtOutcome o)
    r.getD "bad-op"
  | _ => "bad-op"

def srvHandle (toks : List String) : String := srvHandleG false toks

def identKeys : List String :=
  ["sock", "hopa", "hopb", "asia", "ast", "asa", "bsia", "bst", "bsa", "aia", "ahost", "bia", "bhost"]

def srvIdent (toks : List String) : String :=
  match valuesOf? identKeys toks with
  | some [sock, hopa, hopb, asia, ast, asa, bsia, bst, bsa, aia, ahost, bia, bhost] =>
    let r : Option String := do
      let _ ← num? hopa 0 1
      let _ ← num? hopb 0 1
      let asia ← num? asia 0 18446744073709551615
      let bsia ← num? bsia 0 18446744073709551615
      let ast ← num? ast 0 3
      let bst ← num? bst 0 3
      let asa ← lowerHex? asa
      let bsa ← lowerHex? bsa
      if sock ≠ "svc" ∧ sock ≠ "eh" then none
      if (ast ≠ 0 ∧ ast ≠ 3) ∨ (bst ≠ 0 ∧ bst ≠ 3) then none
      if asa.length ≠ 4 * (1 + ast) ∨ bsa.length ≠ 4 * (1 + bst) then none
      -- the IA texts must be the ones the model of addr.IA.String gives
      if aia ≠ String.ofList (ScionTime.ClientId.iaText asia) ∨ bia ≠ String.ofList (ScionTime.ClientId.iaText bsia) then none
      let same := ScionTime.ClientId.clientIdScion aia ahost == ScionTime.ClientId.clientIdScion bia bhost
      pure (if same then "ok a=basic b=inter a2=basic" else "ok a=basic b=basic a2=inter")
    r.getD "bad-op"
  | _ => "bad-op"

def fmtRes {α : Type} (f : α → String) : Res α → String
  | .ok a => "ok " ++ f a
  | .panic c => "panic " ++ c

def step (_ : Unit) (toks : List String) : Unit × String :=
  match toks with
  | "srv.handle" :: rest => ((), srvHandle rest)
  | "srv.fwd" :: rest => ((), srvHandleG true rest)
  | "srv.ident" :: rest => ((), srvIdent rest)
  | ["id.text", n] =>
    match num? n 0 18446744073709551615 with
    | some n => ((), "ok " ++ String.ofList (ScionTime.ClientId.iaText n))
    | none => ((), "bad-op")
  | ["auth.meta", h] =>
    match lowerHex? h with
    | some d => ((), fmtRes (fun (x : Nat × Nat) => s!"{x.1} {x.2}") (authMeta d))
    | none => ((), "bad-op")
  | ["auth.mac", h] =>
    match lowerHex? h with
    | some d => ((), fmtRes toHex (authMAC d))
    | none => ((), "bad-op")
  | ["auth.prepare", h, spi, alg] =>
    match lowerHex? h, num? spi 0 4294967295, num? alg 0 255 with
    | some d, some spi, some alg => ((), fmtRes (fun x => s!"{toHex x} 2 4:2") (authPrepare d spi alg))
    | _, _, _ => ((), "bad-op")
  | _ => ((), "bad-op")

def main : IO Unit := run () step
