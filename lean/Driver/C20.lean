import Driver.Common
import ScionTime.Model.Ntske
open Driver ScionTime.Ntske

/-- `[aa,bb,-]` list of hex strings (`-` = empty byte string); `[]` is the empty list. -/
def parseHexList? (s : String) : Option (List (List Nat)) :=
  if ¬ (s.startsWith "[" ∧ s.endsWith "]") then none else
  let inner := ((s.drop 1).dropEnd 1).toString
  if inner = "" then some [] else
  (inner.splitOn ",").mapM parseHex?

def fmtHexList (l : List (List Nat)) : String :=
  "[" ++ ",".intercalate (l.map toHex) ++ "]"

def fmtRErr : RErr → String
  | .eof => "eof"
  | .ueof => "unexpected-eof"
  | .unrecCritical => "unrec-critical"
  | .badRequest => "bad-request"
  | .internal => "internal"
  | .unknownCode => "unknown-error"
  | .critical t => s!"critical:{t}"
  | .fuel => "fuel"

def fmtData (d : Data) : String :=
  s!"srv={toHex d.server} port={d.port} algo={d.algo} ck={fmtHexList d.cookies}"

/-- symbolic exporter outputs used by the driver (the real values are session secrets; both
    sides print only whether the client's keys are the peer's exporter values). -/
def symC2S (i : Nat) : List Nat := [1, i]
def symS2C (i : Nat) : List Nat := [2, i]

/-- `keys=ex<i>`: the keys are the exporter values of the exchange made by the i-th f.fetch
    of this history. -/
def fmtKeys (d : Data) : String :=
  match d.c2s, d.s2c with
  | [], [] => "keys=none"
  | [1, i], [2, j] => if i = j then s!"keys=ex{i}" else "keys=other"
  | _, _ => "keys=other"

def fmtExErr : ExErr → String
  | .dial => "dial"
  | .noNtske => "no-ntske"
  | .read .eof => "read-io"
  | .read .ueof => "read-io"
  | .read e => fmtRErr e
  | .export_ => "export"
  | .noCookies => "no-cookies"
  | .unknownAlgo => "unknown-algo"

/-- one record token: np:<v> al:<a,b,..> sv:<hex>:<0|1> pt:<p>:<0|1> ck:<hex> wn:<c> er:<c> end -/
def parseRec? (t : String) : Option Rec :=
  match t.splitOn ":" with
  | ["end"] => some .end_
  | ["np", v] => v.toNat?.map .nextProto
  | ["al", l] => if l = "-" then some (.algorithm []) else ((l.splitOn ",").mapM String.toNat?).map .algorithm
  | ["sv", h, c] => do let a ← parseHex? h; let c ← parseBool? c; pure (.server a c)
  | ["pt", p, c] => do let p ← p.toNat?; let c ← parseBool? c; pure (.port p c)
  | ["ck", h] => (parseHex? h).map .cookie
  | ["wn", c] => c.toNat?.map .warning
  | ["er", c] => c.toNat?.map .error
  | _ => none

def recOk : Rec → Bool
  | .nextProto v => v < 65536
  | .algorithm as => as.all (· < 65536)
  | .port p _ => p < 65536
  | .warning c => c < 65536
  | .error c => c < 65536
  | _ => true

def fmtRead (r : Data × Option RErr) : String :=
  match r with
  | (d, none) => s!"ok {fmtData d}"
  | (d, some e) => s!"err {fmtRErr e} {fmtData d}"

/-- ops:
  rd.read <chunks>                 -> ok <data> | err <class> <data>       (ReadData on fresh Data)
  rd.readold <chunks>              -> same, unrepaired cookie read (replays of F7 only)
  rec.pack <rec> ...               -> ok <hex>                              (ExchangeMsg.Pack)
  srv.msg <iphex> <port> <n> <clen> -> ok <hex> | err no-cookie             (newNTSKEMsg, cookie bodies zeroed)
  f.new [quic] [host=<addr>]       -> ok
  f.fetch dial=<b> alpn=<hex> host=<hex> stream=<chunks>
                                   -> ok exch=<b> <data> keys=.. pool=<chunks> | err <class> exch=<b> pool=<chunks>
  f.fetchold …                     -> the same with the unrepaired exchangeKeys (replays of F8 only)
  f.store <hex>                    -> ok pool=<chunks>
  f.state                          -> ok <data> keys=..
  x.fetch tr=tls|quic host=<hex> stream=<chunks> gaps=[ms,..]
                                   -> ok <data> keys=agree | err <class>
      one exchange of a fresh fetcher with the response delivered chunk by chunk, the peer
      staying silent gaps[i] ms before chunk i. The model's transport has no clock: the
      answer is that of the chunks (C14Ntske_readData_segmentation: that of their concatenation).
-/
def stepD (st : Data) (idx : Nat) (toks : List String) : Data × String :=
  match toks with
  | ["rd.read", cs] =>
    match parseHexList? cs with
    | some c => (st, fmtRead (readData c {}))
    | none => (st, "bad-op")
  | ["rd.readold", cs] =>
    match parseHexList? cs with
    | some c => (st, fmtRead (readDataOld c {}))
    | none => (st, "bad-op")
  | "rec.pack" :: rs =>
    match rs.mapM parseRec? with
    | some rs => if rs.all recOk then (st, s!"ok {toHex (packMsg rs)}") else (st, "bad-op")
    | none => (st, "bad-op")
  | ["srv.msg", ip, port, n, clen] =>
    match parseHex? ip, port.toNat?, n.toNat?, clen.toNat? with
    | some ip, some port, some n, some clen =>
      match serverMsg ip port (List.replicate n (List.replicate clen 0)) with
      | some rs => (st, s!"ok {toHex (packMsg rs)}")
      | none => (st, "err no-cookie")
    | _, _, _, _ => (st, "bad-op")
  | [op, port, clen] =>
    if op ≠ "e2e.fetch" ∧ op ≠ "e2e.fetchq" then (st, "bad-op") else
    match port.toNat?, clen.toNat? with
    | some port, some clen =>
      let ip := "127.0.0.1".toList.map Char.toNat
      match serverMsg ip port (List.replicate 8 (List.replicate clen 0)) with
      | none => (st, "err no-cookie")
      | some rs =>
        let e : Exchange := { quic := op = "e2e.fetchq", dialOk := true, host := ip, alpn := alpnProto, stream := [packMsg rs],
                              c2s := symC2S 0, s2c := symS2C 0 }
        let r := fetchData {} e
        match r.out with
        | .ok d =>
          let agree := if fmtKeys d = "keys=ex0" then "keys=agree" else "keys=differ"
          (st, s!"ok srv={toHex d.server} port={d.port} algo={d.algo} nck={d.cookies.length} {agree} pool={r.cached.cookies.length}")
        | .error err => (st, s!"err {fmtExErr err}")
    | _, _ => (st, "bad-op")
  | ["f.state"] => (st, s!"ok {fmtData st} {fmtKeys st}")
  | ["f.store", h] =>
    match parseHex? h with
    | some c => let st := storeCookie st c; (st, s!"ok pool={fmtHexList st.cookies}")
    | none => (st, "bad-op")
  | "x.fetch" :: rest =>
    match kv? rest "tr", (kv? rest "host").bind parseHex?, (kv? rest "stream").bind parseHexList?,
          (kv? rest "gaps").bind parseIntList? with
    | some tr, some host, some stream, some gaps =>
      if rest.length ≠ 4 ∨ (tr ≠ "tls" ∧ tr ≠ "quic") ∨ gaps.length ≠ stream.length ∨
         gaps.any (fun g => g < 0 ∨ g > 60000) then (st, "bad-op") else
      let e : Exchange := { quic := tr = "quic", dialOk := true, host := host, alpn := alpnProto, stream := stream,
                            c2s := symC2S 0, s2c := symS2C 0 }
      match (fetchData {} e).out with
      | .ok d =>
        let agree := if fmtKeys d = "keys=ex0" then "keys=agree" else "keys=differ"
        (st, s!"ok {fmtData d} {agree}")
      | .error err => (st, s!"err {fmtExErr err}")
    | _, _, _, _ => (st, "bad-op")
  | op :: rest =>
    if op = "f.fetch" ∨ op = "f.fetchold" then
      match (kv? rest "dial").bind parseBool?, (kv? rest "alpn").bind parseHex?,
            (kv? rest "host").bind parseHex?, (kv? rest "stream").bind parseHexList? with
      | some dial, some alpn, some host, some stream =>
        let quic := ((kv? rest "quic").bind parseBool?).getD false
        let e : Exchange := { quic := quic, dialOk := dial, host := host, alpn := String.ofList (alpn.map Char.ofNat),
                              stream := stream, c2s := symC2S idx, s2c := symS2C idx }
        let r := if op = "f.fetch" then fetchData st e else fetchDataOld st e
        match r.out with
        | .ok d => (r.cached, s!"ok exch={r.exchanged} {fmtData d} {fmtKeys d} pool={fmtHexList r.cached.cookies}")
        | .error err => (r.cached, s!"err {fmtExErr err} exch={r.exchanged} pool={fmtHexList r.cached.cookies}")
      | _, _, _, _ => (st, "bad-op")
    else (st, "bad-op")
  | _ => (st, "bad-op")

/-- state: cached data of the fetcher, number of f.fetch ops in this history -/
def step (st : Data × Nat) (toks : List String) : (Data × Nat) × String :=
  match toks with
  | "f.new" :: rest =>
    -- f.new [quic] [host=<address>]: transport and key-exchange host arrive with each f.fetch
    if rest.length ≤ 2 ∧ rest.all (fun t => t = "quic" || t.startsWith "host=") then (({}, 0), "ok")
    else (st, "bad-op")
  | op :: _ =>
    let idx := if op = "f.fetch" ∨ op = "f.fetchold" then st.2 + 1 else st.2
    let (d, o) := stepD st.1 idx toks
    ((d, idx), o)
  | [] => (st, "bad-op")

def main : IO Unit := run (({} : Data), 0) step
