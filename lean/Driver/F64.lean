import Driver.F64Ops
open Driver
def step (_ : Unit) (toks : List String) : Unit × String :=
  match f64Step toks with
  | some r => ((), r)
  | none => ((), "bad-op")
def main : IO Unit := run () step
