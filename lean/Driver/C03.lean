import Driver.Common
import ScionTime.Model.ClientNtp
import ScionTime.Model.ClientFlow
import ScionTime.Model.ClientTail
import Driver.MainCtorOps
open Driver ScionTime.Time64 ScionTime.NtpMath ScionTime.ClientNtp ScionTime.ClientFlow ScionTime.ClientTail

/-! Driver for the NTP client model (properties C03 and C05; harness command `c03`).
ops:
  ntp.off s0 n0 s1 n1 s2 n2 s3 n3     -> ok <offset> <rtd>
  ntp.ts  s0 n0 … s3 n3               -> ok | err response | panic explicit:unexpected_system_clock_behavior
  ntp.meta <lvm> <stratum>            -> ok <bool>
  cli.req  tr= il= ref= prev= now=    -> ok basic|il <lvm> <org> <rx> <tx>
  cli.exch tr=ip    il= nts= dl= filt= server= ref= prev= now= ctx1= ev=…
  cli.exch tr=scion il= nts= dl= filt= key= ria= rhost= lia= lhost= ref= prev= now= ctx1= ev=…
                                      -> ok accept il=<b> off=<n> ts=<n> [tuple=…] prev=… | err <kind> prev=… | panic …
  cli.wrap il= att=ok:<tag>:<inIL>,err:<kind>,…   -> ok <tag> | err <kind>
  cli.badlocal tr= iplen=             -> err addr
  cli.ntsdesth tr= hist=<parsed>:<port>;…  reach=   -> as cli.ntsdest, for the LAST call of a history of calls on one client
  cli.xchg tr=ip|scion il= nts= dl=<deadline ns|-> filt= (server= | key= ria= rhost= lia= lhost=) ref= prev= rd=[clock readings] tx=none|<ns>.<id> ev=…
                                      -> as cli.exch, followed by rd=<readings consumed>; clock-underrun
                                         (one exchange as a function of the clock readings the code takes: no kernel
                                          timestamps are assumed; events d:…:<kernel rx|->:… / s:…:<kernel rx|->:… / e / f)
  cli.wrapx tr=ip|scion il= att=<l|c|x>/<attempt>,… [coll=<b>]
                                      -> ok <tag> reqs=<n> | err <kind> reqs=<n>   (attempt wrappers over the context state per attempt; reqs = requests that left the host)
  cli.hexch <as cli.exch> hist=<limit µs|->
                                      -> ok accept off= ts= [tuple=] prev= | err hist [tuple=] prev= | err <kind> prev=
                                         (the whole call incl. the statements behind ValidateResponseTimestamps:
                                          prev update, Filter.Do, Histogram.RecordValue — Model/ClientTail.lean)
  cli.hist new=<lo>,<hi>,<sig> limit=<µs> rtd=<ns>   -> ok <RecordValue(rtd.Microseconds()) == nil>
  cli.hdr dscp= lia= lip=x<hex> ria= rip=x<hex> lport= rport= path=<SetPath ok> auth=<b>
                                      -> ok tc= sia= dia= src=t<type>x<hex> dst=t<type>x<hex> sp= dp= nh= kl=x<hex> kr=x<hex>
                                         | panic explicit:unexpected_address_type | panic setpath | err addr
  cli.pool retry=<b> pool=[tags] ds=<auth>:<origin>:[tags];…   -> ok pool=[tags] past=<b>
  cli.ntsdest tr=ip|scion|scion-local parsed=x<16 bytes>|- port= reach=
                                      -> ok sent=x<ip>:<port>|- res=fail   (destination of the NTS-protected request)
-/

def parseT64? (s : String) : Option T64 :=
  match s.splitOn "." with
  | [a, b] =>
    match a.toNat?, b.toNat? with
    | some a, some b => if a < 4294967296 ∧ b < 4294967296 then some ⟨a, b⟩ else none
    | _, _ => none
  | _ => none

def fmtT64 (x : T64) : String := s!"{x.sec}.{x.frac}"

def refName : String → Option String
  | "none" => some ""
  | "same" => some "S"
  | "other" => some "O"
  | _ => none

def refShow (p : Prev) : String :=
  if p.reference = "" then "none" else if p.reference = "S" then "same" else "other"

def parsePrev? (s : String) : Option Prev :=
  match s.splitOn "," with
  | [r, il, a, b, c] =>
    match refName r, parseBool? il, parseT64? a, parseT64? b, parseT64? c with
    | some r, some il, some a, some b, some c => some ⟨r, il, a, b, c⟩
    | _, _, _, _, _ => none
  | _ => none

def fmtPrev (p : Prev) : String :=
  s!"{refShow p},{p.interleaved},{fmtT64 p.cTx},{fmtT64 p.cRx},{fmtT64 p.sRx}"

def parseTr? : String → Option Transport
  | "ip" => some .ip
  | "scion" => some .scion
  | _ => none

def errName : ErrKind → String
  | .read => "read" | .flags => "flags" | .source => "source" | .layers => "layers"
  | .unexpected => "unexpected" | .auth => "auth" | .size => "size" | .ntsDecode => "ntsDecode"
  | .ntsProcess => "ntsProcess" | .response => "response" | .other => "other"

def parseErr? : String → Option ErrKind
  | "read" => some .read | "flags" => some .flags | "source" => some .source | "layers" => some .layers
  | "unexpected" => some .unexpected | "auth" => some .auth | "size" => some .size
  | "ntsDecode" => some .ntsDecode | "ntsProcess" => some .ntsProcess | "response" => some .response
  | "other" => some .other
  | _ => none

def times4? (l : List String) : Option (Int × Int × Int × Int) :=
  match l.mapM parseInt? with
  | some [s0, n0, s1, n1, s2, n2, s3, n3] =>
    if [n0, n1, n2, n3].all (fun n => 0 ≤ n ∧ n < 1000000000) then
      some (mkTime s0 n0, mkTime s1 n1, mkTime s2 n2, mkTime s3 n3)
    else none
  | _ => none

/-- payload facts `len:lvm:stratum:org:rx:tx` and the NTS verdicts `decodeOk:uidEq:openOk`
    (computed by the harness with the real libraries) -/
def parsePayload? (l : List String) : Option Payload :=
  match l with
  | [len, lvm, st, org, rx, tx, dec, uid, opn] =>
    match len.toNat?, lvm.toNat?, st.toNat?, parseT64? org, parseT64? rx, parseT64? tx,
          parseBool? dec, parseBool? uid, parseBool? opn with
    | some len, some lvm, some st, some org, some rx, some tx, some dec, some uid, some opn =>
      if lvm < 256 ∧ st < 256 then some ⟨len, ⟨lvm, st, org, rx, tx⟩, dec, uid, opn⟩ else none
    | _, _, _, _, _, _, _, _, _ => none
  | _ => none

def parseEvIP? (s : String) : Option (Event IpDgram) :=
  match s.splitOn ":" with
  | ["e", b] => (parseBool? b).map .readErr
  | ["f", b] => (parseBool? b).map .badFlags
  | ["d", src, len, lvm, st, org, rx, tx, cRx, b, dec, uid, opn] =>
    match src.toNat?, parsePayload? [len, lvm, st, org, rx, tx, dec, uid, opn], parseInt? cRx, parseBool? b with
    | some src, some p, some cRx, some b => some (.dgram ⟨src, p⟩ cRx b)
    | _, _, _, _ => none
  | _ => none

def parseLayers? (s : String) : Option (List Layer) :=
  s.toList.mapM fun c =>
    match c with
    | 's' => some Layer.scion | 'h' => some .hbh | 'e' => some .e2e | 'u' => some .udp | 'm' => some .scmp
    | _ => none

/-- `-` = absent; else the value -/
def parseOptInt? (s : String) : Option (Option Int) :=
  if s = "-" then some none else (parseInt? s).map some

/-- `-` or `wf.spi.alg.macOk` -/
def parseAuthOpt? (s : String) : Option (Option AuthOpt) :=
  if s = "-" then some none else
  match s.splitOn "." with
  | [wf, spi, alg, ok] =>
    match parseBool? wf, spi.toNat?, alg.toNat?, parseBool? ok with
    | some wf, some spi, some alg, some ok => some (some ⟨wf, spi, alg, ok⟩)
    | _, _, _, _ => none
  | _ => none

/-- 16 bytes, big endian -/
def natBytes (n : Nat) (k : Nat) : List Nat := (List.range k).map fun i => n / 256 ^ (k - 1 - i) % 256

/-- Older form of an address in the line protocol: one number per address, equal numbers iff
    the addresses are equal up to IPv4-mapping (< 2^32: that IPv4 address; else some IPv6
    address). Kept readable: mapped injectively to the bytes of such an address. -/
def legacyBytes (n : Nat) : List Nat := if n < 4294967296 then natBytes n 4 else natBytes n 16

/-- bytes of `remoteAddr.Host.IP` / `localAddr.Host.IP`: `x<hex>`, or the older number -/
def parseIPBytes? (s : String) : Option (List Nat) :=
  if s.startsWith "x" then parseHex? (s.drop 1).toString else s.toNat?.map legacyBytes

/-- host address of a received header: `t<type field>x<raw bytes hex>`, or the older number
    (then: an IP-typed address) -/
def parseHost? (s : String) : Option HostAddr :=
  if s.startsWith "t" then
    match ((s.drop 1).toString).splitOn "x" with
    | [t, h] =>
      match t.toNat?, parseHex? h with
      | some t, some b => if t < 16 ∧ b.length = 4 * (t % 4 + 1) then some ⟨t, b⟩ else none
      | _, _ => none
    | _ => none
  else s.toNat?.map fun n => ⟨if n < 4294967296 then t4Ip else t16Ip, legacyBytes n⟩

/-- s:<decodeOk>:<layers>:<bufLen>:<udpLen>:<srcIA>:<srcHost>:<dstIA>:<dstHost>:<tsOpt>:<authOpt>:<len>:<lvm>:<st>:<org>:<rx>:<tx>:<cRx>:<before> -/
def parseEvSCION? (s : String) : Option (Event ScionDgram) :=
  match s.splitOn ":" with
  | ["e", b] => (parseBool? b).map .readErr
  | ["f", b] => (parseBool? b).map .badFlags
  | ["s", ok, layers, bl, ul, sia, sh, dia, dh, ts, au, len, lvm, st, org, rx, tx, cRx, b, dec, uid, opn] =>
    match parseBool? ok, (if layers = "-" then some [] else parseLayers? layers), bl.toNat?, ul.toNat?,
          sia.toNat?, parseHost? sh, dia.toNat?, parseHost? dh with
    | some ok, some layers, some bl, some ul, some sia, some sh, some dia, some dh =>
      match parseOptInt? ts, parseAuthOpt? au, parsePayload? [len, lvm, st, org, rx, tx, dec, uid, opn], parseInt? cRx, parseBool? b with
      | some ts, some au, some p, some cRx, some b =>
        some (.dgram ⟨ok, layers, bl, ul, sia, sh, dia, dh, ts, au, p⟩ cRx b)
      | _, _, _, _, _ => none
    | _, _, _, _, _, _, _, _ => none
  | _ => none

def parseEvs? {D : Type} (f : String → Option (Event D)) (s : String) : Option (List (Event D)) :=
  if s = "-" then some [] else (s.splitOn ";").mapM f

def fmtOutcome (cfg : Cfg) (filt : Option Int) (out : Outcome) (prev' : Prev) : String :=
  match out with
  | .blocked => "blocked"
  | .panic _ => "panic explicit:unexpected_system_clock_behavior"
  | .error e _ => s!"err {errName e} prev={fmtPrev prev'}"
  | .accepted a _ =>
    let filter := filt.map fun v => (fun (_ _ _ _ : Int) => Int64.ofInt v)
    let off := returnedOffset filter a
    let tuple := if filt.isSome then s!" tuple={a.t0},{a.t1},{a.t2},{a.t3}" else ""
    let _ := cfg
    s!"ok accept il={a.il} off={off.toInt} ts={a.cRx}{tuple} prev={fmtPrev prev'}"

def parseAttempt? (s : String) : Option Attempt :=
  match s.splitOn ":" with
  | ["ok", tag, inIL] =>
    match tag.toNat?, parseBool? inIL with
    | some tag, some b => some (.ok tag (Int64.ofInt tag) b)
    | _, _ => none
  | ["err", k] => (parseErr? k).map .err
  | _ => none


/-! ### ops over Model/ClientFlow.lean -/

/-- `-` or a kernel timestamp -/
def parseKrx? (s : String) : Option (Option Int) := parseOptInt? s

def parseXEvIP? (s : String) : Option (XEvent IpDgram) :=
  match s.splitOn ":" with
  | ["e"] => some .readErr
  | ["f"] => some .badFlags
  | ["d", src, len, lvm, st, org, rx, tx, krx, dec, uid, opn] =>
    match src.toNat?, parsePayload? [len, lvm, st, org, rx, tx, dec, uid, opn], parseKrx? krx with
    | some src, some p, some krx => some (.dgram ⟨src, p⟩ krx)
    | _, _, _ => none
  | _ => none

def parseXEvSCION? (s : String) : Option (XEvent ScionDgram) :=
  match s.splitOn ":" with
  | ["e"] => some .readErr
  | ["f"] => some .badFlags
  | ["s", ok, layers, bl, ul, sia, sh, dia, dh, ts, au, len, lvm, st, org, rx, tx, krx, dec, uid, opn] =>
    match parseKrx? krx,
          parseEvSCION? (":".intercalate ["s", ok, layers, bl, ul, sia, sh, dia, dh, ts, au, len, lvm, st, org, rx, tx, "0", "true", dec, uid, opn]) with
    | some krx, some (.dgram d _ _) => some (.dgram d krx)
    | _, _ => none
  | _ => none

def parseXEvs? {D : Type} (f : String → Option (XEvent D)) (s : String) : Option (List (XEvent D)) :=
  if s = "-" then some [] else (s.splitOn ";").mapM f

/-- `none` or `<ns>.<id>` -/
def parseTxStamp? (s : String) : Option TxStamp :=
  if s = "none" then some .failed else
  match s.splitOn "." with
  | [t, id] =>
    match parseInt? t, id.toNat? with
    | some t, some id => some (.kernel t id)
    | _, _ => none
  | _ => none

def fmtXResult (cfg : Cfg) (filt : Option Int) (r : Option XResult) : String :=
  match r with
  | none => "clock-underrun"
  | some x => s!"{fmtOutcome cfg filt x.out x.prev} rd={x.used} pre={TxFallback.readingsBeforeSend .preSend}"

/-- `<l|c|x>/<attempt>` -/
def parseAttemptIn? (s : String) : Option AttemptIn :=
  match s.splitOn "/" with
  | [c, a] =>
    let ctx : Option CtxAt := match c with
      | "l" => some .live | "c" => some .cancelled | "x" => some .expired | _ => none
    match ctx, (if a = "-" then some (Attempt.err .other) else parseAttempt? a) with
    | some ctx, some a => some ⟨ctx, a⟩
    | _, _ => none
  | _ => none

def kvs (toks : List String) (keys : List String) : Option (List String) := keys.mapM (kv? toks)

/-! ### ops over Model/ClientTail.lean -/

def fmtSample (o : Option Sample) : String :=
  match o with
  | some (a, b, c, d) => s!" tuple={a},{b},{c},{d}"
  | none => ""

def fmtTail (o : TailOut) : String :=
  match o.result with
  | .blocked => "blocked"
  | .panic => "panic explicit:unexpected_system_clock_behavior"
  | .err e => s!"err {errName e} prev={fmtPrev o.prev}"
  | .errHist => s!"err hist{fmtSample o.absorbed} prev={fmtPrev o.prev}"
  | .ok ts off => s!"ok accept off={off.toInt} ts={ts}{fmtSample o.absorbed} prev={fmtPrev o.prev}"

/-- `-` or the histogram's limit -/
def parseHist? (s : String) : Option (Option Hist) :=
  if s = "-" then some none else s.toNat?.map fun n => some ⟨n⟩

def fmtHost (h : HostAddr) : String := s!"t{h.type}x{toHex h.raw}"

def parseXIP? (s : String) : Option (List Nat) :=
  if s.startsWith "x" then parseHex? (s.drop 1).toString else none

/-- `<auth>:<origin>:[tags]` -/
def parsePDgram? (s : String) : Option PDgram :=
  match s.splitOn ":" with
  | [a, o, cs] =>
    match parseBool? a, parseBool? o, parseIntList? cs with
    | some a, some o, some cs => some ⟨a, cs.map Int.toNat, o⟩
    | _, _, _ => none
  | _ => none

def tailStep (toks : List String) : Option String :=
  match toks with
  | "cli.hexch" :: rest =>
    match kvs rest ["tr", "il", "dl", "filt", "ref", "prev", "now", "ctx1", "ev", "nts", "hist"] with
    | some [tr, il, dl, filt, ref, prev, now, ctx1, ev, nts, hist] =>
      match parseTr? tr, parseBool? il, parseBool? dl, parseOptInt? filt, refName ref, parsePrev? prev,
            parseInt? now, parseInt? ctx1, parseBool? nts, parseHist? hist with
      | some tr, some il, some dl, some filt, some ref, some prev, some now, some ctx1, some nts, some hist =>
        if ref = "" then some "bad-op" else
        let cfg : Cfg := ⟨tr, il, nts, dl⟩
        let filter := filt.map fun v => (fun (_ _ _ _ : Int) => Int64.ofInt v)
        match tr with
        | .ip =>
          if rest.length ≠ 12 then some "bad-op" else
          match (kv? rest "server").bind (·.toNat?), parseEvs? parseEvIP? ev with
          | some server, some evs => some (fmtTail (exchangeIPH cfg hist filter server prev ref now ctx1 evs))
          | _, _ => some "bad-op"
        | .scion =>
          if rest.length ≠ 16 then some "bad-op" else
          match (kvs rest ["ria", "lia"]).bind (·.mapM (·.toNat?)),
                (kvs rest ["rhost", "lhost"]).bind (·.mapM parseIPBytes?),
                (kv? rest "key").bind parseBool?, parseEvs? parseEvSCION? ev with
          | some [ria, lia], some [rhost, lhost], some key, some evs =>
            some (fmtTail (exchangeSCIONH cfg hist filter ⟨ria, rhost, lia, lhost, key⟩ prev ref now ctx1 evs))
          | _, _, _, _ => some "bad-op"
      | _, _, _, _, _, _, _, _, _, _ => some "bad-op"
    | _ => some "bad-op"
  | ["cli.hist", nw, limit, rtd] =>
    match kv? [nw] "new", (kv? [limit] "limit").bind (·.toNat?), (kv? [rtd] "rtd").bind parseInt? with
    | some nw, some limit, some rtd =>
      if rtd < -9223372036854775808 ∨ rtd > 9223372036854775807 then some "bad-op"
      -- the benchmark tools' histogram: its limit is a constant of the model
      else if nw = "1,50000,5" ∧ limit ≠ benchmarkHist.limit then some "bad-op"
      else some s!"ok {(Hist.mk limit).recordOk (Int64.ofInt rtd)}"
    | _, _, _ => some "bad-op"
  | "cli.hdr" :: rest =>
    if rest.length ≠ 9 then some "bad-op" else
    match (kvs rest ["dscp", "lia", "ria", "lport", "rport"]).bind (·.mapM (·.toNat?)),
          (kvs rest ["lip", "rip"]).bind (·.mapM parseXIP?),
          (kvs rest ["path", "auth"]).bind (·.mapM parseBool?) with
    | some [dscp, lia, ria, lport, rport], some [lip, rip], some [path, auth] =>
      if dscp ≥ 256 then some "bad-op" else
      match mkScionRequestHeader dscp lia lip ria rip lport rport path auth with
      | .errAddr => some "err addr"
      | .panicAddr => some "panic explicit:unexpected_address_type"
      | .panicSetPath => some "panic setpath"
      | .panicDSCP => some "panic explicit:invalid_argument:_dscp_must_not_be_greater_than_63"
      | .hdr h =>
        let k (o : Option (List Nat)) : String := match o with | some b => "x" ++ toHex b | none => "-"
        some s!"ok tc={h.trafficClass} sia={h.srcIA} dia={h.dstIA} src={fmtHost h.src} dst={fmtHost h.dst} sp={h.srcPort} dp={h.dstPort} nh={h.nextHdr} kl={k (drkeyHostOfIP lip)} kr={k (drkeyHostOfIP (held rip))}"
    | _, _, _ => some "bad-op"
  | ["cli.pool", retry, pool, ds] =>
    match (kv? [retry] "retry").bind parseBool?, (kv? [pool] "pool").bind parseIntList?,
          (kv? [ds] "ds").bind (fun s => if s = "-" then some [] else (s.splitOn ";").mapM parsePDgram?) with
    | some retry, some pool, some ds =>
      if pool.isEmpty then some "bad-op" else
      let r := poolExchange retry (pool.map Int.toNat) ds
      some s!"ok pool={fmtNatList r.1} past={r.2}"
    | _, _, _ => some "bad-op"
  | _ => none

def step (_ : Unit) (toks : List String) : Unit × String := Id.run do
  match toks with
  | "ntp.off" :: rest =>
    if rest.length ≠ 8 then return ((), "bad-op")
    match times4? rest with
    | some (t0, t1, t2, t3) =>
      return ((), s!"ok {(clockOffset64 t0 t1 t2 t3).toInt} {(roundTripDelay64 t0 t1 t2 t3).toInt}")
    | none => return ((), "bad-op")
  | "ntp.ts" :: rest =>
    if rest.length ≠ 8 then return ((), "bad-op")
    match times4? rest with
    | some (t0, t1, t2, t3) =>
      match validateTimestamps t0 t1 t2 t3 with
      | .ok => return ((), "ok")
      | .errResponse => return ((), "err response")
      | .panic => return ((), "panic explicit:unexpected_system_clock_behavior")
    | none => return ((), "bad-op")
  | ["ntp.meta", lvm, st] =>
    match lvm.toNat?, st.toNat? with
    | some lvm, some st =>
      if lvm < 256 ∧ st < 256 then return ((), s!"ok {validMetadata lvm st}") else return ((), "bad-op")
    | _, _ => return ((), "bad-op")
  | "cli.req" :: rest =>
    if rest.length ≠ 5 then return ((), "bad-op")
    match kvs rest ["tr", "il", "ref", "prev", "now"] with
    | some [tr, il, ref, prev, now] =>
      match parseTr? tr, parseBool? il, refName ref, parsePrev? prev, parseInt? now with
      | some tr, some il, some ref, some prev, some now =>
        if ref = "" then return ((), "bad-op")
        let cfg : Cfg := ⟨tr, il, false, true⟩
        let rq := mkRequest cfg prev ref now
        let kind := if rq.interleaved then "il" else "basic"
        return ((), s!"ok {kind} {requestLVM} {fmtT64 rq.origin} {fmtT64 rq.rx} {fmtT64 rq.tx}")
      | _, _, _, _, _ => return ((), "bad-op")
    | _ => return ((), "bad-op")
  | "cli.exch" :: rest =>
    match kvs rest ["tr", "il", "dl", "filt", "ref", "prev", "now", "ctx1", "ev", "nts"] with
    | some [tr, il, dl, filt, ref, prev, now, ctx1, ev, nts] =>
      match parseTr? tr, parseBool? il, parseBool? dl, parseOptInt? filt, refName ref, parsePrev? prev,
            parseInt? now, parseInt? ctx1, parseBool? nts with
      | some tr, some il, some dl, some filt, some ref, some prev, some now, some ctx1, some nts =>
        if ref = "" then return ((), "bad-op")
        let cfg : Cfg := ⟨tr, il, nts, dl⟩
        match tr with
        | .ip =>
          if rest.length ≠ 11 then return ((), "bad-op")
          match (kv? rest "server").bind (·.toNat?), parseEvs? parseEvIP? ev with
          | some server, some evs =>
            let (out, prev') := exchangeIP cfg server prev ref now ctx1 evs
            return ((), fmtOutcome cfg filt out prev')
          | _, _ => return ((), "bad-op")
        | .scion =>
          if rest.length ≠ 15 then return ((), "bad-op")
          match (kvs rest ["ria", "lia"]).bind (·.mapM (·.toNat?)),
                (kvs rest ["rhost", "lhost"]).bind (·.mapM parseIPBytes?),
                (kv? rest "key").bind parseBool?, parseEvs? parseEvSCION? ev with
          | some [ria, lia], some [rhost, lhost], some key, some evs =>
            let (out, prev') := exchangeSCION cfg ⟨ria, rhost, lia, lhost, key⟩ prev ref now ctx1 evs
            return ((), fmtOutcome cfg filt out prev')
          | _, _, _, _ => return ((), "bad-op")
      | _, _, _, _, _, _, _, _, _ => return ((), "bad-op")
    | _ => return ((), "bad-op")
  | "cli.xchg" :: rest =>
    match kvs rest ["tr", "il", "dl", "filt", "ref", "prev", "rd", "tx", "ev", "nts"] with
    | some [tr, il, dl, filt, ref, prev, rd, tx, ev, nts] =>
      match parseTr? tr, parseBool? il, parseOptInt? dl, parseOptInt? filt, refName ref, parsePrev? prev,
            parseIntList? rd, parseTxStamp? tx, parseBool? nts with
      | some tr, some il, some dl, some filt, some ref, some prev, some rd, some tx, some nts =>
        if ref = "" then return ((), "bad-op")
        let cfg : Cfg := ⟨tr, il, nts, dl.isSome⟩
        match tr with
        | .ip =>
          if rest.length ≠ 11 then return ((), "bad-op")
          match (kv? rest "server").bind (·.toNat?), parseXEvs? parseXEvIP? ev with
          | some server, some evs =>
            return ((), fmtXResult cfg filt (xExchangeIP .preSend cfg server prev ref dl tx rd evs))
          | _, _ => return ((), "bad-op")
        | .scion =>
          if rest.length ≠ 15 then return ((), "bad-op")
          match (kvs rest ["ria", "lia"]).bind (·.mapM (·.toNat?)),
                (kvs rest ["rhost", "lhost"]).bind (·.mapM parseIPBytes?),
                (kv? rest "key").bind parseBool?, parseXEvs? parseXEvSCION? ev with
          | some [ria, lia], some [rhost, lhost], some key, some evs =>
            return ((), fmtXResult cfg filt (xExchangeSCION .preSend cfg ⟨ria, rhost, lia, lhost, key⟩ prev ref dl tx rd evs))
          | _, _, _, _ => return ((), "bad-op")
      | _, _, _, _, _, _, _, _, _ => return ((), "bad-op")
    | _ => return ((), "bad-op")
  | "cli.wrapx" :: rest =>
    match (kv? rest "tr").bind parseTr?, (kv? rest "il").bind parseBool?,
          (kv? rest "att").bind (fun s => (s.splitOn ",").mapM parseAttemptIn?) with
    | some tr, some il, some att =>
      if att.length < attempts il then return ((), "bad-op")
      let coll := ((kv? rest "coll").bind parseBool?).getD true
      if rest.length ≠ (if (kv? rest "coll").isSome then 4 else 3) then return ((), "bad-op")
      let g := (wrapCtx false il att).1
      -- requests that leave the host: exchanges started with a deadline that has not passed
      let reqs := ((att.take (wrapCtx false il att).2).filter (fun a => a.ctx != .expired)).length
      match tr with
      | .ip =>
        match g.err with
        | none => return ((), s!"ok {g.ts} reqs={reqs}")
        | some e => return ((), s!"err {errName e} reqs={reqs}")
      | .scion =>
        let s := scionWrap1 coll g
        match s.err with
        | none => return ((), s!"ok {s.ts} reqs={reqs}")
        | some _ => return ((), s!"err nomeas reqs={reqs}")
    | _, _, _ => return ((), "bad-op")
  | ["cli.wrap", il, att] =>
    match (kv? [il] "il").bind parseBool?, (kv? [att] "att").bind (fun s => (s.splitOn ",").mapM parseAttempt?) with
    | some il, some att =>
      let s := wrapIP il att
      match s.err with
      | none => return ((), s!"ok {s.ts}")
      | some e => return ((), s!"err {errName e}")
    | _, _ => return ((), "bad-op")
  | ["cli.ntsdest", tr, parsed, port, reach] =>
    -- destination of the NTS-protected request; `reach`: a datagram to the named address can be
    -- observed on loopback (else the model's claim is only that none goes anywhere else)
    match kv? [tr] "tr", kv? [parsed] "parsed", (kv? [port] "port").bind (·.toNat?), (kv? [reach] "reach").bind parseBool? with
    | some tr, some parsed, some port, some reach =>
      if tr ≠ "ip" ∧ tr ≠ "scion" ∧ tr ≠ "scion-local" then return ((), "bad-op")
      if port ≥ 65536 then return ((), "bad-op")
      let parsed? : Option (Option (List Nat)) :=
        if parsed = "-" then some none
        else if parsed.startsWith "x" then
          match parseHex? (parsed.drop 1).toString with
          | some b => if b.length = 16 then some (some b) else none
          | none => none
        else none
      match parsed? with
      | none => return ((), "bad-op")
      | some pr =>
        match ntsDestination ([], 0) pr port with
        | some (ip, p) =>
          if reach then return ((), s!"ok sent=x{toHex ip}:{p} res=fail") else return ((), "ok sent=- res=fail")
        | none => return ((), "ok sent=- res=fail")
    | _, _, _, _ => return ((), "bad-op")
  | ["cli.ntsdesth", tr, hist, reach] =>
    -- destination of the LAST of a history of calls on one client / one address object
    match kv? [tr] "tr", kv? [hist] "hist", (kv? [reach] "reach").bind parseBool? with
    | some tr, some hist, some reach =>
      if tr ≠ "ip" ∧ tr ≠ "scion" ∧ tr ≠ "scion-local" then return ((), "bad-op")
      let one (s : String) : Option KxDest :=
        match s.splitOn ":" with
        | [parsed, port] =>
          match port.toNat? with
          | some port =>
            if port ≥ 65536 then none
            else if parsed = "-" then some ⟨"", none, port⟩
            else if parsed.startsWith "x" then
              match parseHex? (parsed.drop 1).toString with
              | some b => if b.length = 16 then some ⟨"", some b, port⟩ else none
              | none => none
            else none
          | none => none
        | _ => none
      match (hist.splitOn ";").mapM one with
      | none => return ((), "bad-op")
      | some [] => return ((), "bad-op")
      | some kxs =>
        match (destHistory ([], 0) kxs).getLast? with
        | some (some (ip, p)) =>
          if reach then return ((), s!"ok sent=x{toHex ip}:{p} res=fail") else return ((), "ok sent=- res=fail")
        | _ => return ((), "ok sent=- res=fail")
    | _, _, _ => return ((), "bad-op")
  | ["cli.badlocal", tr, iplen] =>
    match (kv? [tr] "tr").bind parseTr?, (kv? [iplen] "iplen").bind (·.toNat?) with
    | some _, some n =>
      if localAddrOk n then return ((), "bad-op") else return ((), "err addr")
    | _, _ => return ((), "bad-op")
  | _ =>
    match tailStep toks with
    | some a => return ((), a)
    | none =>
    -- main.* : constructors / NTS configuration of timeservice.go (harness cmain, part ctor)
    match mainCtorStep toks with
    | some a => return ((), a)
    | none => return ((), "bad-op")

def main : IO Unit := run () step
