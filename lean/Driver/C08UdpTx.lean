import Driver.Common
import ScionTime.Model.UdpTx
open Driver ScionTime.UdpTx

/-- udptx.oob <hex> -> ok <unix seconds> <nanosecond> <id> | err unexpected-data | err not-found | panic <class> -/
def step (st : Unit) (toks : List String) : Unit × String :=
  match toks with
  | ["udptx.oob", h] =>
    match parseHex? h with
    | some b =>
      match txTimestamp b with
      | .ok s n i => (st, s!"ok {s} {n} {i}")
      | .errUnexpectedData => (st, "err unexpected-data")
      | .errNotFound => (st, "err not-found")
      | .panicSlice => (st, "panic slice")
      | .panicExplicit => (st, "panic explicit:unexpected_timestamping_behavior")
      | .fuel => (st, "err model-fuel")
    | none => (st, "bad-op")
  | _ => (st, "bad-op")

def main : IO Unit := run () step
