import Driver.NtsOps
def main : IO Unit := Driver.run NtsOps.init NtsOps.step
