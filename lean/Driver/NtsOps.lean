/-
  Driver/NtsOps.lean — op interpreter shared by drv_c10 and drv_c11 (models Nts, Cookies, NtsPool).

  ops (hex `-` = empty, lists `[a,b]`, AEAD answers as tokens
       seal=K/N/P/AD/CT   open=K/N/C/AD/PT   with AD `nil`|hex, PT `fail`|hex):
  sc.enc algo s2c c2s | sc.dec B | ec.enc id nonce ct | ec.dec B
  ck.encrypt algo s2c c2s key keyid rand=R seal=…      -> ok <encoded encrypted cookie>
  ck.decrypt B key open=…                              -> ok algo s2c c2s
  nts.enc hdr uid [cookies] [placeholders] key pt rand=R seal=… -> ok B
  nts.dec B                                            -> ok uid= cookies= nph= nonce= ct= pos=
  nts.req B key open=…                                 -> ok [cookies after authenticate]
  nts.resp B key reqid open=…                          -> ok [cookies stored]
  nts.newreq [pool] c2s rand=R                         -> ok uid= cookies= ph=
  nts.newresp [cookies] key uid                        -> ok uid= pt=
  srv.reply B hdr keys=[id:key,…] cur=id:key rand=R open=… seal=… -> ok B
  lsn.send B keys=[id:key] cur=id:key open=…           -> ok len=N | none   (real IP listener on loopback)
  cl.init [pool] c2s s2c | cl.request hdr rand=R seal=… | cl.response B open=… | cl.level
  seq.run <call>+ open=…      calls whose results are all rendered after the last call:
        d:<cookie>:<key> (Decode+Decrypt) | s:<plain> (ServerCookie.Decode) | q:<pkt>:<key> (ProcessRequest)
        | p:<pkt>:<key>:<reqid> (ProcessResponse) | x (ExportKeys on the worker's TLS connection; not
        modelled here — C20 — the answer only says: two distinct 32-byte keys)
                              -> ok <r> | <r> | …   with r = ok:<algo>:<s2c>:<c2s> / ok:[cookies] / err:<e> / x:32:32:ne
-/
import Driver.Common
import ScionTime.Model.Nts
import ScionTime.Model.NtsPool
open Driver ScionTime.Nts

namespace NtsOps

def parseHexList? (s : String) : Option (List Bytes) :=
  if ¬ (s.startsWith "[" ∧ s.endsWith "]") then none else
  let inner := ((s.drop 1).dropEnd 1).toString
  if inner = "" then some [] else (inner.splitOn ",").mapM parseHex?

def fmtHexList (l : List Bytes) : String := "[" ++ ",".intercalate (l.map toHex) ++ "]"

structure Entry where
  k : Bytes
  n : Bytes
  x : Bytes
  ad : Option Bytes
  r : Option Bytes
deriving DecidableEq

def parseEntry? (s : String) (isOpen : Bool) : Option Entry :=
  match s.splitOn "/" with
  | [k, n, x, ad, r] => do
    let k ← parseHex? k
    let n ← parseHex? n
    let x ← parseHex? x
    let ad ← if ad = "nil" then some none else (parseHex? ad).map some
    let r ← if isOpen ∧ r = "fail" then some none else (parseHex? r).map some
    pure ⟨k, n, x, ad, r⟩
  | _ => none

def entries? (toks : List String) (key : String) (isOpen : Bool) : Option (List Entry) :=
  (toks.filter (·.startsWith (key ++ "="))).mapM fun t =>
    parseEntry? (t.drop (key.length + 1)).toString isOpen

/-- the AEAD whose answers are those the harness computed with the real library; a query that is
    not in the table fails to open / seals to zeros of the right length (which the byte-exact
    comparison exposes). -/
def tableAEAD (seals opens : List Entry) : AEAD where
  sealF k n p ad :=
    match seals.find? (fun e => e.k = k ∧ e.n = n ∧ e.x = p ∧ e.ad = ad) with
    | some e => e.r.getD []
    | none => zeros (p.length + 16)
  openF k n c ad :=
    match opens.find? (fun e => e.k = k ∧ e.n = n ∧ e.x = c ∧ e.ad = ad) with
    | some e => e.r
    | none => none

def aead? (toks : List String) : Option AEAD := do
  let s ← entries? toks "seal" false
  let o ← entries? toks "open" true
  pure (tableAEAD s o)

def rand? (toks : List String) : Option Bytes :=
  match kv? toks "rand" with
  | some h => parseHex? h
  | none => some []

def showRes {α : Type} (f : α → String) : Res α → String
  | .ok a => "ok " ++ f a
  | .err e => "err " ++ e.name
  | .panic p => "panic " ++ p.name
  | .hang => "hang"

def showTriple (t : Triple) : String := s!"{t.num} {toHex t.x} {toHex t.y}"
def showDecoded (d : Decoded) : String :=
  s!"uid={toHex d.uid} cookies={fmtHexList d.cookies} nph={d.nph} nonce={toHex d.nonce} ct={toHex d.ct} pos={d.pos}"
def showPacket (p : Packet) : String :=
  s!"uid={toHex p.uid} cookies={fmtHexList p.cookies} ph={fmtHexList p.placeholders}"

/-- tokens that are not key=value -/
def positional (toks : List String) : List String :=
  toks.filter fun t => ¬ (t.startsWith "seal=" ∨ t.startsWith "open=" ∨ t.startsWith "rand=" ∨
    t.startsWith "keys=" ∨ t.startsWith "cur=")

def parseIdKey? (s : String) : Option (Nat × Bytes) :=
  match s.splitOn ":" with
  | [i, k] => do
    let i ← i.toNat?
    let k ← parseHex? k
    pure (i, k)
  | _ => none

def parseKeys? (s : String) : Option (List (Nat × Bytes)) :=
  if ¬ (s.startsWith "[" ∧ s.endsWith "]") then none else
  let inner := ((s.drop 1).dropEnd 1).toString
  if inner = "" then some [] else (inner.splitOn ",").mapM parseIdKey?

def parseCall? (s : String) : Option (Option Call) :=
  match s.splitOn ":" with
  | ["d", b, key] => do let b ← parseHex? b; let key ← parseHex? key; pure (some (.decrypt b key))
  | ["s", b] => do let b ← parseHex? b; pure (some (.plain b))
  | ["q", b, key] => do let b ← parseHex? b; let key ← parseHex? key; pure (some (.request b key))
  | ["p", b, key, rid] => do
    let b ← parseHex? b; let key ← parseHex? key; let rid ← parseHex? rid
    pure (some (.response b key rid))
  | ["x"] => some none
  | _ => none

def showResC {α : Type} (f : α → String) : Res α → String
  | .ok a => "ok:" ++ f a
  | .err e => "err:" ++ e.name
  | .panic p => "panic:" ++ p.name
  | .hang => "hang"

def showCallRes : CallRes → String
  | .cookie r => showResC (fun t => s!"{t.num}:{toHex t.x}:{toHex t.y}") r
  | .cookies r => showResC fmtHexList r

def callPanic? : CallRes → Option Pan
  | .cookie (.panic p) => some p
  | .cookies (.panic p) => some p
  | _ => none

/-- `seq.run`: the first panicking call takes the whole op down (as in the harness process). -/
def seqRun (A : AEAD) (calls : List (Option Call)) : String :=
  let rs := calls.map (fun c => c.map (Call.run A))
  match rs.findSome? (fun r => r.bind callPanic?) with
  | some p => "panic " ++ p.name
  | none => "ok " ++ " | ".intercalate (rs.map fun
      | some r => showCallRes r
      | none => "x:32:32:ne")

abbrev St := ScionTime.NtsPool.Client

def init : St := {}

def stepPure (toks : List String) : Option String :=
  match aead? toks, rand? toks with
  | some A, some rnd =>
    match positional toks with
    | ["sc.enc", a, x, y] => do
      let a ← a.toNat?; let x ← parseHex? x; let y ← parseHex? y
      if a < 65536 then some ("ok " ++ toHex (scEncode ⟨a, x, y⟩)) else none
    | ["sc.dec", b] => do
      let b ← parseHex? b
      some (showRes showTriple (scDecode b))
    | ["ec.enc", a, x, y] => do
      let a ← a.toNat?; let x ← parseHex? x; let y ← parseHex? y
      if a < 65536 then some ("ok " ++ toHex (ecEncode ⟨a, x, y⟩)) else none
    | ["ec.dec", b] => do
      let b ← parseHex? b
      some (showRes showTriple (ecDecode b))
    | ["ck.encrypt", a, x, y, key, keyid] => do
      let a ← a.toNat?; let x ← parseHex? x; let y ← parseHex? y
      let key ← parseHex? key; let keyid ← keyid.toNat?
      if a < 65536 then
        some (showRes (fun ec => toHex (ecEncode ec)) (encryptCookie A ⟨a, x, y⟩ key keyid (draw16 rnd).1))
      else none
    | ["ck.decrypt", b, key] => do
      let b ← parseHex? b; let key ← parseHex? key
      some (showRes showTriple (ecDecode b >>= fun ec => decryptCookie A ec key))
    | ["nts.enc", hdr, uid, cs, phs, key, pt] => do
      let hdr ← parseHex? hdr; let uid ← parseHex? uid
      let cs ← parseHexList? cs; let phs ← parseHexList? phs
      let key ← parseHex? key; let pt ← parseHex? pt
      some (showRes toHex (encodePacket A hdr ⟨uid, cs, phs, key, pt⟩ (draw16 rnd).1))
    | ["nts.dec", b] => do
      let b ← parseHex? b
      some (showRes showDecoded (decodePacket b))
    | ["nts.req", b, key] => do
      let b ← parseHex? b; let key ← parseHex? key
      some (showRes fmtHexList (decodePacket b >>= fun d => processRequest A b key d))
    | ["nts.resp", b, key, rid] => do
      let b ← parseHex? b; let key ← parseHex? key; let rid ← parseHex? rid
      some (showRes fmtHexList (decodePacket b >>= fun d => processResponse A b key d rid))
    | ["nts.newreq", pool, c2s] => do
      let pool ← parseHexList? pool; let c2s ← parseHex? c2s
      some (showRes showPacket (newRequestPacket pool c2s (copyN 32 rnd)))
    | ["nts.newresp", cs, key, uid] => do
      let cs ← parseHexList? cs; let key ← parseHex? key; let uid ← parseHex? uid
      some (showRes (fun p => s!"uid={toHex p.uid} pt={toHex p.pt}") (newResponsePacket cs key uid))
    | ["srv.reply", b, hdr] => do
      let b ← parseHex? b; let hdr ← parseHex? hdr
      let keys ← (kv? toks "keys") >>= parseKeys?
      let cur ← (kv? toks "cur") >>= parseIdKey?
      let lookup := fun (i : Nat) => (keys.find? (·.1 = i)).map (·.2)
      some (showRes toHex (serverReply A lookup cur.1 cur.2 b hdr rnd))
    | "seq.run" :: calls => do
      if calls = [] then none else
      let calls ← calls.mapM parseCall?
      some (seqRun A calls)
    | ["lsn.send", b] => do
      let b ← parseHex? b
      let keys ← (kv? toks "keys") >>= parseKeys?
      let cur ← (kv? toks "cur") >>= parseIdKey?
      let lookup := fun (i : Nat) => (keys.find? (·.1 = i)).map (·.2)
      match serverReply A lookup cur.1 cur.2 b (zeros 48) [] with
      | .ok r => some s!"ok len={r.length}"
      | .err _ => some "none"
      | .panic p => some ("panic " ++ p.name)
      | .hang => some "hang"
    | _ => none
  | _, _ => none

open ScionTime.NtsPool in
def step (st : St) (toks : List String) : St × String :=
  match toks with
  | "cl.init" :: _ =>
    match positional toks with
    | [_, pool, c2s, s2c] =>
      match parseHexList? pool, parseHex? c2s, parseHex? s2c with
      | some pool, some c2s, some s2c =>
        let st' : St := { pool := pool, c2s := c2s, s2c := s2c, reqId := [] }
        (st', s!"ok level={st'.pool.length}")
      | _, _, _ => (st, "bad-op")
    | _ => (st, "bad-op")
  | ["cl.level"] => (st, s!"ok level={st.pool.length}")
  | "cl.request" :: _ =>
    match positional toks, aead? toks, rand? toks with
    | [_, hdr], some A, some rnd =>
      match parseHex? hdr with
      | some hdr =>
        match request A st hdr rnd with
        | (st', .ok b) => (st', s!"ok {toHex b} level={st'.pool.length}")
        | (st', r) => (st', showRes toHex r)
      | none => (st, "bad-op")
    | _, _, _ => (st, "bad-op")
  | "cl.response" :: _ =>
    match positional toks, aead? toks with
    | [_, b], some A =>
      match parseHex? b with
      | some b =>
        match response A st b with
        | (st', .ok _) => (st', s!"ok level={st'.pool.length}")
        | (st', r) => (st', showRes (fun (_ : Unit) => "") r)
      | none => (st, "bad-op")
    | _, _ => (st, "bad-op")
  | _ =>
    match stepPure toks with
    | some s => (st, s)
    | none => (st, "bad-op")

end NtsOps
