import Driver.Common
import ScionTime.Model.NtpPacket
import ScionTime.Model.CsptpCodec
open Driver ScionTime.Wire

/-- ops (integers decimal, byte strings hex, `-` = empty):
  ntp.enc <lvm stratum poll precision rdelayS rdelayF rdispS rdispF refid refS refF orgS orgF rxS rxF txS txF> -> ok <hex48>
  ntp.dec <hex>                    -> ok <the 17 fields> | err size
  ntp.get <lvm>                    -> ok <li> <vn> <mode>
  ntp.setli|ntp.setvn|ntp.setmode <lvm> <arg> -> ok <lvm'> | panic explicit:…
  ntp.vresp <lvm> <stratum>        -> ok <bool>                  (ValidateResponseMetadata)
  msg.enc <buf> <15 fields>        -> ok <buf'> | panic index     (EncodeMessage into buf)
  msg.dec <hex>                    -> ok <15 fields> | err size
  req.len|resp.len <flagField>     -> ok <n>
  req.enc <buf> <type length orgid subtype flags>  -> ok <buf'> | panic index
  req.dec <hex>                    -> ok <5 fields> | err size
  resp.enc <buf> <type length orgid subtype flags error tsS tsNs corr utc p1 class acc var p2 clockid steps src rsvd> -> ok <buf'> | panic index
  resp.dec <hex>                   -> ok <19 fields> | err size
-/
def parseInts (ts : List String) : Option (List Int) := ts.mapM parseInt?

def allNonneg (xs : List Int) : Bool := xs.all (· ≥ 0)

def fmtInts (xs : List Int) : String := " ".intercalate (xs.map toString)

def outBytes : Outcome (List Nat) → String
  | .ok b => s!"ok {toHex b}"
  | .err e => s!"err {e}"
  | .panic c => s!"panic {c}"

def outNat : Outcome Nat → String
  | .ok b => s!"ok {b}"
  | .err e => s!"err {e}"
  | .panic c => s!"panic {c}"

namespace N
open ScionTime.NtpPacket

def ofInts : List Int → Option Packet
  | [a, b, c, d, e, f, g, h, i, j, k, l, m, n, o, p, q] =>
    if allNonneg [a, b, e, f, g, h, i, j, k, l, m, n, o, p, q] then
      let pk : Packet := ⟨a.toNat, b.toNat, c, d, ⟨e.toNat, f.toNat⟩, ⟨g.toNat, h.toNat⟩, i.toNat,
        ⟨j.toNat, k.toNat⟩, ⟨l.toNat, m.toNat⟩, ⟨n.toNat, o.toNat⟩, ⟨p.toNat, q.toNat⟩⟩
      if pk.Valid then some pk else none
    else none
  | _ => none

def toInts (p : Packet) : List Int :=
  [p.lvm, p.stratum, p.poll, p.precision, p.rootDelay.seconds, p.rootDelay.fraction,
   p.rootDispersion.seconds, p.rootDispersion.fraction, p.referenceID,
   p.referenceTime.seconds, p.referenceTime.fraction, p.originTime.seconds, p.originTime.fraction,
   p.receiveTime.seconds, p.receiveTime.fraction, p.transmitTime.seconds, p.transmitTime.fraction]

def step (toks : List String) : String :=
  match toks with
  | "ntp.enc" :: rest =>
    match (parseInts rest).bind ofInts with
    | some p => s!"ok {toHex (encodePacket p)}"
    | none => "bad-op"
  | ["ntp.dec", h] =>
    match parseHex? h with
    | some b =>
      match decodePacket b with
      | .ok p => s!"ok {fmtInts (toInts p)}"
      | .err e => s!"err {e}"
      | .panic c => s!"panic {c}"
    | none => "bad-op"
  | ["ntp.get", x] =>
    match parseNat? x with
    | some x => if x < 256 then s!"ok {leapIndicator x} {version x} {mode x}" else "bad-op"
    | none => "bad-op"
  | [op, x, a] =>
    match parseNat? x, parseNat? a with
    | some x, some a =>
      if x < 256 ∧ a < 256 then
        if op = "ntp.setli" then outNat (setLeapIndicator x a)
        else if op = "ntp.setvn" then outNat (setVersion x a)
        else if op = "ntp.setmode" then outNat (setMode x a)
        else if op = "ntp.vresp" then s!"ok {validateResponseMetadata x a}"
        else "bad-op"
      else "bad-op"
    | _, _ => "bad-op"
  | _ => "bad-op"
end N

namespace C
open ScionTime.Csptp

def msgOfInts : List Int → Option Message
  | [a, b, c, d, e, f, g, h, i, j, k, l, m, n, o] =>
    if allNonneg [a, b, c, d, e, f, h, i, j, k, l, n, o] then
      let x : Message := ⟨a.toNat, b.toNat, c.toNat, d.toNat, e.toNat, f.toNat, g, h.toNat, i.toNat,
        j.toNat, k.toNat, l.toNat, m, ⟨n.toNat, o.toNat⟩⟩
      if x.Valid then some x else none
    else none
  | _ => none

def msgToInts (m : Message) : List Int :=
  [m.sdoIDMessageType, m.ptpVersion, m.messageLength, m.domainNumber, m.minorSdoID, m.flagField,
   m.correctionField, m.messageTypeSpecific, m.clockID, m.port, m.sequenceID, m.controlField,
   m.logMessageInterval, m.timestamp.seconds, m.timestamp.nanoseconds]

def reqOfInts : List Int → Option RequestTLV
  | [a, b, c, d, e] =>
    if allNonneg [a, b, c, d, e] then
      let x : RequestTLV := ⟨a.toNat, b.toNat, c.toNat, d.toNat, e.toNat⟩
      if x.Valid then some x else none
    else none
  | _ => none

def reqToInts (t : RequestTLV) : List Int :=
  [t.type, t.length, t.organizationID, t.organizationSubType, t.flagField]

def respOfInts : List Int → Option ResponseTLV
  | [a, b, c, d, e, f, g, h, i, j, k, l, m, n, o, p, q, r, s] =>
    if allNonneg [a, b, c, d, e, f, g, h, k, l, m, n, o, p, q, r, s] then
      let x : ResponseTLV := ⟨a.toNat, b.toNat, c.toNat, d.toNat, e.toNat, f.toNat, ⟨g.toNat, h.toNat⟩, i, j,
        ⟨k.toNat, l.toNat, m.toNat, n.toNat, o.toNat, p.toNat, q.toNat, r.toNat, s.toNat⟩⟩
      if x.Valid then some x else none
    else none
  | _ => none

def respToInts (t : ResponseTLV) : List Int :=
  let d := t.serverStateDS
  [t.type, t.length, t.organizationID, t.organizationSubType, t.flagField, t.error,
   t.requestIngressTimestamp.seconds, t.requestIngressTimestamp.nanoseconds,
   t.requestCorrectionField, t.utcOffset,
   d.gmPriority1, d.gmClockClass, d.gmClockAccuracy, d.gmClockVariance, d.gmPriority2, d.gmClockID,
   d.stepsRemoved, d.timeSource, d.reserved]

def outVals {α : Type} (f : α → List Int) : Outcome α → String
  | .ok v => s!"ok {fmtInts (f v)}"
  | .err e => s!"err {e}"
  | .panic c => s!"panic {c}"

def step (toks : List String) : String :=
  match toks with
  | "msg.enc" :: buf :: rest =>
    match parseHex? buf, (parseInts rest).bind msgOfInts with
    | some b, some m => outBytes (encodeMessage b m)
    | _, _ => "bad-op"
  | ["msg.dec", h] =>
    match parseHex? h with
    | some b => outVals msgToInts (decodeMessage b)
    | none => "bad-op"
  | [op, f] =>
    if op = "req.len" ∨ op = "resp.len" then
      match parseNat? f with
      | some f => if f < 4294967296 then s!"ok {encodedTLVLength f}" else "bad-op"
      | none => "bad-op"
    else if op = "req.dec" then
      match parseHex? f with
      | some b => outVals reqToInts (decodeRequestTLV b)
      | none => "bad-op"
    else if op = "resp.dec" then
      match parseHex? f with
      | some b => outVals respToInts (decodeResponseTLV b)
      | none => "bad-op"
    else "bad-op"
  | "req.enc" :: buf :: rest =>
    match parseHex? buf, (parseInts rest).bind reqOfInts with
    | some b, some t => outBytes (encodeRequestTLV b t)
    | _, _ => "bad-op"
  | "resp.enc" :: buf :: rest =>
    match parseHex? buf, (parseInts rest).bind respOfInts with
    | some b, some t => outBytes (encodeResponseTLV b t)
    | _, _ => "bad-op"
  | _ => "bad-op"
end C

def step (_ : Unit) (toks : List String) : Unit × String :=
  match toks with
  | op :: _ =>
    if op.startsWith "ntp." then ((), N.step toks) else ((), C.step toks)
  | [] => ((), "bad-op")

def main : IO Unit := run () step
