import Driver.Common
import ScionTime.Model.NtskeSrv
import ScionTime.Model.AcceptLoop
open Driver ScionTime.Ntske ScionTime.NtskeSrv

/-- `[aa,bb,-]` list of hex strings (`-` = empty byte string); `[]` is the empty list. -/
def parseHexList? (s : String) : Option (List (List Nat)) :=
  if ¬ (s.startsWith "[" ∧ s.endsWith "]") then none else
  let inner := ((s.drop 1).dropEnd 1).toString
  if inner = "" then some [] else
  (inner.splitOn ",").mapM parseHex?

/-- the connection of one `ks.*` op: the exporter works, all eight cookies can be sealed
    (bodies shown zeroed, `clen` bytes each — the real ones are random; the harness opens them). -/
def mkConn (quic : Bool) (ip : List Nat) (port clen : Nat) (segs : List (List Nat)) : Conn :=
  { quic := quic, request := segs, c2s := [1], s2c := [2], localIP := ip, localPort := port,
    cookies := List.replicate numCookies (some (List.replicate clen 0)) }

/-- a response message, record by record as packed; a cookie record is shown as `(ck<len>)`
    (the real bodies are random) -/
def fmtMsg (msg : List Rec) : String :=
  String.join (msg.map fun r => match r with
    | .cookie b => s!"(ck{b.length})"
    | r => toHex r.pack)

def fmtOut (c : Conn) : String :=
  match verdict c, handle c with
  | _, .silent => "silent"
  | .respond msg, .wrote _ => s!"resp={fmtMsg msg} keys=agree"
  | _, .wrote b => s!"error={toHex b}"

/-- what a storm connection contributes to the sequence of results of `Accept`: over TLS every
    kind is a TCP connection the loop accepts (`none`: its handshake never completes, the handler
    ends with a read error and nothing of it is observable); over QUIC no kind reaches `Accept`. -/
def stormAcc (quic : Bool) (kind : String) : Option (List (ScionTime.AcceptLoop.Acc (Option Conn))) :=
  if quic then
    if kind = "udpgarbage" ∨ kind = "badalpn" ∨ kind = "hsabort" then some [] else none
  else
    if kind = "rst" ∨ kind = "silent" ∨ kind = "garbage" ∨ kind = "badalpn" ∨ kind = "tls12" ∨ kind = "hsabort"
    then some [.conn none] else none

/-- ks.storm tr= ip= port= clen= segs= storm=<kind.kind…|-> hold=<h>: the accept loop
    (Model/AcceptLoop.lean) over the storm's connections followed by the genuine one; the answer is
    the last handler's. -/
def stormStep (rest : List String) : String :=
  match kv? rest "tr", (kv? rest "ip").bind parseHex?, (kv? rest "port").bind String.toNat?,
        (kv? rest "clen").bind String.toNat?, (kv? rest "segs").bind parseHexList?,
        kv? rest "storm", (kv? rest "hold").bind String.toNat? with
  | some tr, some ip, some port, some clen, some segs, some storm, some hold =>
    if (tr ≠ "tls" ∧ tr ≠ "quic") ∨ port ≥ 65536 ∨ clen ≥ 65536 ∨ rest.length ≠ 7 then "bad-op" else
    let quic := tr = "quic"
    let kinds := if storm = "-" then [] else storm.splitOn "."
    if kinds.length > 5000 ∨ hold > kinds.length then "bad-op" else
    match kinds.mapM (stormAcc quic) with
    | none => "bad-op"
    | some accs =>
      let results := accs.flatten ++ [.conn (some (mkConn quic ip port clen segs))]
      match (ScionTime.AcceptLoop.answers (fun c => c.map fmtOut) results).getLast? with
      | some (some a) => s!"ok storm={kinds.length} {a}"
      | _ => "err no-answer"
  | _, _, _, _, _, _, _ => "bad-op"

/-- ops (server side of the NTS key exchange; answered by the real accept loops + handlers):
  ks.req  tr=tls|quic ip=<hex of the address text> port=<ntp port> clen=<cookie length> segs=<chunks> gap=<ms>
      one connection; the request is written segment by segment (one TLS record / one QUIC
      stream write each, `gap` ms apart), then the sending side is closed; answer: what the
      server wrote — `ok resp=<message, cookie bodies zeroed> keys=agree` | `ok error=<hex>` | `ok silent`.
      The model's transport has no clock: `gap` is ignored.
  ks.held tr=.. ip=.. port=.. clen=.. segs=<chunks> other=<chunks>
      connection A receives `segs` and is left open and silent; meanwhile connection B delivers
      `other` and is closed; then A is closed. Answer `ok other=<..> held=<..>` (two independent
      handler runs: the accept loop is not held up by A).
-/
def step (st : Unit) (toks : List String) : Unit × String :=
  match toks with
  | "ks.storm" :: rest => (st, stormStep rest)
  | op :: rest =>
    if op ≠ "ks.req" ∧ op ≠ "ks.held" then (st, "bad-op") else
    match kv? rest "tr", (kv? rest "ip").bind parseHex?, (kv? rest "port").bind String.toNat?,
          (kv? rest "clen").bind String.toNat?, (kv? rest "segs").bind parseHexList? with
    | some tr, some ip, some port, some clen, some segs =>
      if tr ≠ "tls" ∧ tr ≠ "quic" then (st, "bad-op") else
      if port ≥ 65536 ∨ clen ≥ 65536 then (st, "bad-op") else
      let quic := tr = "quic"
      if op = "ks.req" then
        match (kv? rest "gap").bind String.toNat? with
        | some gap =>
          if rest.length ≠ 6 ∨ gap > 60000 then (st, "bad-op")
          else (st, "ok " ++ fmtOut (mkConn quic ip port clen segs))
        | none => (st, "bad-op")
      else
        match (kv? rest "other").bind parseHexList? with
        | some other =>
          if rest.length ≠ 6 then (st, "bad-op")
          else (st, s!"ok other={fmtOut (mkConn quic ip port clen other)} held={fmtOut (mkConn quic ip port clen segs)}")
        | none => (st, "bad-op")
    | _, _, _, _, _ => (st, "bad-op")
  | [] => (st, "bad-op")

def main : IO Unit := run () step
