import Driver.Common
import ScionTime.Model.DrkeyFetch
open Driver ScionTime.Drkey

/-- host strings travel as hex of their bytes -/
def hexToString? (s : String) : Option String :=
  (parseHex? s).map fun bs => String.ofList (bs.map Char.ofNat)

def stringToHex (s : String) : String := toHex (s.toList.map Char.toNat)

def fmtId (id : KeyId) : String := s!"{id.proto}:{id.srcIA}:{id.dstIA}:{stringToHex id.srcHost}"

/-- `err` | `k:<proto>:<srcIA>:<dstIA>:<hosthex>:<nb>:<na>:<keyhex>` — what the connector answers
    should it be asked -/
def parseAns? (s : String) : Option (Option HostASKey) :=
  if s = "err" then some none else
  match s.splitOn ":" with
  | ["k", p, sIA, dIA, h, nb, na, key] => do
    let p ← p.toNat?; let sIA ← sIA.toNat?; let dIA ← dIA.toNat?; let h ← hexToString? h
    let nb ← nb.toInt?; let na ← na.toInt?; let key ← parseHex? key
    pure (some ⟨⟨p, sIA, dIA, h⟩, ⟨nb, na⟩, key⟩)
  | _ => none

def parseAnsHH? (id : HHId) (s : String) : Option (Option HostHostKey) :=
  if s = "err" then some none else
  match s.splitOn ":" with
  | ["k", nb, na, key] => do
    let nb ← nb.toInt?; let na ← na.toInt?; let key ← parseHex? key
    pure (some ⟨id, ⟨nb, na⟩, key⟩)
  | _ => none

structure St where
  cfg : Cfg := {}
  f : Fetcher := {}
  /-- mock regime: instants are relative to the process clock (`now = 0` in the model) -/
  rel : Bool := false

def fmtEpoch (st : St) (e : Epoch) : String :=
  if st.cfg.mock then
    (if e.na - e.nb = 2 * mockHalfValidityNs then "mock" else s!"{e.nb}:{e.na}")
  else s!"{e.nb}:{e.na}"

/-- ops (one history = one `scion.Fetcher`):
  fk.new conn=direct|grpc|nil mock=0|1
      a new Fetcher on: a scripted in-process connector / the value of scion.NewDaemonConnector
      connected to a scripted stand-in gRPC daemon / NewDaemonConnector("") (nil).   -> ok
  fk.hak p=<proto> s=<srcIA> d=<dstIA> h=<hosthex> t=<validity ns> ans=<answer>
      Fetcher.FetchHostASKey                                                           ->
      ok key=<hex> id=<p>:<s>:<d>:<h> ep=<nb>:<na> asked=<0|1> saw=<p:s:d:h:t|-> cnt=<ins>,<exp>,<rep>
      | err asked=<0|1> saw=.. cnt=0,0,0
      (`saw` = the request as the daemon received it; `cnt` = increments of the three cache metrics)
  fk.hh p= s= d= h= dh=<hosthex> t= ans=err|k:<nb>:<na>:<keyhex>
      Fetcher.FetchHostHostKey (the client's call)  -> ok key= ep= asked= | err asked=
  fk.derive k=<level-2 key as in ans> dh=<hosthex> derived=<hex|err>
      scion.DeriveHostHostKey; `derived` = scionproto's derivation, computed by the harness
      -> ok key=<hex> id=<..>:<dh> ep=<..> | err
-/
def step (st : St) (toks : List String) : St × String :=
  match toks with
  | "fk.new" :: rest =>
    match kv? rest "conn", (kv? rest "mock").bind parseBool? with
    | some conn, some mock =>
      if rest.length ≠ 2 then (st, "bad-op") else
      if conn = "direct" ∨ conn = "grpc" then ({ cfg := { mock := mock, dc := .daemon }, rel := mock }, "ok")
      else if conn = "nil" then ({ cfg := { mock := mock, dc := .nil }, rel := mock }, "ok")
      else (st, "bad-op")
    | _, _ => (st, "bad-op")
  | "fk.hak" :: rest =>
    match (kv? rest "p").bind String.toNat?, (kv? rest "s").bind String.toNat?, (kv? rest "d").bind String.toNat?,
          (kv? rest "h").bind hexToString?, (kv? rest "t").bind String.toInt?, (kv? rest "ans").bind parseAns? with
    | some p, some s, some d, some h, some t, some ans =>
      if rest.length ≠ 6 then (st, "bad-op") else
      let m : HostASMeta := ⟨⟨p, s, d, h⟩, t⟩
      let r := st.f.fetchHostAS st.cfg m 0 ans
      let saw := if r.asked then s!"{fmtId m.id}:{t}" else "-"
      let asked := if r.asked then "1" else "0"
      let cnt := s!"{r.counts.inserted},{r.counts.expired},{r.counts.replaced}"
      match r.out with
      | some k => ({ st with f := r.fetcher },
          s!"ok key={toHex k.key} id={fmtId k.id} ep={fmtEpoch st k.epoch} asked={asked} saw={saw} cnt={cnt}")
      | none => ({ st with f := r.fetcher }, s!"err asked={asked} saw={saw} cnt={cnt}")
    | _, _, _, _, _, _ => (st, "bad-op")
  | "fk.hh" :: rest =>
    match (kv? rest "p").bind String.toNat?, (kv? rest "s").bind String.toNat?, (kv? rest "d").bind String.toNat?,
          (kv? rest "h").bind hexToString?, (kv? rest "dh").bind hexToString?, (kv? rest "t").bind String.toInt? with
    | some p, some s, some d, some h, some dh, some _t =>
      let id : HHId := ⟨⟨p, s, d, h⟩, dh⟩
      match (kv? rest "ans").bind (parseAnsHH? id) with
      | some ans =>
        if rest.length ≠ 7 then (st, "bad-op") else
        let (out, asked) := fetchHostHost st.cfg id 0 ans
        let a := if asked then "1" else "0"
        match out with
        | some k => (st, s!"ok key={toHex k.key} ep={fmtEpoch st k.epoch} asked={a}")
        | none => (st, s!"err asked={a}")
      | none => (st, "bad-op")
    | _, _, _, _, _, _ => (st, "bad-op")
  | "fk.derive" :: rest =>
    match (kv? rest "k").bind parseAns?, (kv? rest "dh").bind hexToString?, kv? rest "derived" with
    | some (some k), some dh, some dv =>
      if rest.length ≠ 3 then (st, "bad-op") else
      let derive : HostASKey → String → Option Bytes := fun _ _ => if dv = "err" then none else parseHex? dv
      if dv ≠ "err" ∧ (parseHex? dv).isNone then (st, "bad-op") else
      match deriveHostHost derive k dh with
      | some hh => (st, s!"ok key={toHex hh.key} id={fmtId hh.id.l2}:{stringToHex hh.id.dstHost} ep={hh.epoch.nb}:{hh.epoch.na}")
      | none => (st, "err")
    | _, _, _ => (st, "bad-op")
  | _ => (st, "bad-op")

def main : IO Unit := run ({} : St) step
