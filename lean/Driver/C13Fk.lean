import Driver.Common
open Driver

def main : IO Unit := run () (fun st _ => (st, "bad-op"))
