import Driver.Common
import ScionTime.Model.ClientId
import ScionTime.Model.ServerReply
open Driver ScionTime.Wire ScionTime.NtpPacket ScionTime.ServerReply

/-- ops:
  vreq <lvm> <srcport>            -> ok <bool>                     ntp.ValidateRequest on a packet with that LVM
  vreqpkt <hex> <srcport>         -> ok <bool> | err size           DecodePacket, then ValidateRequest
  reply.hdr <hex request>         -> ok <lvm> <stratum> <poll> <precision> <rdelayS> <rdelayF> <rdispS> <rdispF> <refid>
  ip.dgram <hex payload> nts=<0|1> -> ok none | ok reply n=1 len=48 lvm=<..> stratum=<..> src=server
                                     (one datagram to the running IP listener; nts = outcome of the NTS branch;
                                      the implementation side answers `ok sentinel-unanswered n=<k>` when the
                                      well-formed request that follows on the same socket gets no reply)
  ip.ident a=<127.x.y.z> b=<127.x.y.z> -> ok a=basic b=<basic|inter> a2=<inter|basic>
                                     (client-identity history of property C06 against the IP listener)
  ip.seq <hex>,<hex>,… nts=<0|1>  -> ok answered=<0/1 per datagram> extra=0 sentinel=answered shape=ok
                                     (datagrams sent from one client socket to one listener socket, in order)
  ip.hist <hex>,<hex>,… nv=<view>,<view>,… ak=…
                                  -> ok answered=<0/1 per datagram> kinds=<n|p|a per datagram> extra=0 sentinel=answered shape=ok
                                     (a history on one listener socket that may contain authentic NTS requests of
                                      several associations; <view> = <decodes 0|1>:<cookie ids a.b.c>:<cookie ids the rest of
                                      the NTS branch succeeds under> — what the NTS branch sees of the datagram, computed by
                                      the harness with the real nts/ntske functions on fresh structs; kinds: n no reply,
                                      p plain 48-byte reply, a reply with NTS extension fields (the implementation side
                                      says `a` only if the reply authenticates under the association's own S2C key, token ak=))
-/
def parseIds? (s : String) : Option (List Nat) :=
  if s = "" then some [] else (s.splitOn ".").mapM parseNat?

def parseView? (s : String) : Option NtsView :=
  match s.splitOn ":" with
  | [d, cs, oks] =>
    match boolOfNat01? d, parseIds? cs, parseIds? oks with
    | some d, some cs, some oks => some ⟨cs, d, fun c => oks.contains c⟩
    | _, _, _ => none
  | _ => none
where boolOfNat01? (s : String) : Option Bool :=
  if s = "0" then some false else if s = "1" then some true else none

def boolOfNat? (s : String) : Option Bool :=
  if s = "0" then some false else if s = "1" then some true else none

/-- canonical dotted quad in 127.0.0.0/8 (what the harness accepts for `ip.ident`) -/
def loopbackQuad? (s : String) : Option String :=
  let octet? (t : String) : Option Nat :=
    if t.isEmpty ∨ (t.length > 1 ∧ t.startsWith "0") ∨ ¬ t.all Char.isDigit then none
    else match t.toNat? with
      | some v => if v ≤ 255 then some v else none
      | none => none
  match (s.splitOn ".").mapM octet? with
  | some [127, _, _, _] => some s
  | _ => none

def step (_ : Unit) (toks : List String) : Unit × String :=
  match toks with
  | ["ip.ident", a, b] =>
    -- client-identity history (property C06): A basic exchange, B quotes A's receive
    -- timestamp, A quotes it; same client iff clientIdIp a = clientIdIp b
    if ¬ (a.startsWith "a=" ∧ b.startsWith "b=") then ((), "bad-op") else
    match loopbackQuad? (a.drop 2).toString, loopbackQuad? (b.drop 2).toString with
    | some a, some b =>
      if ScionTime.ClientId.clientIdIp a == ScionTime.ClientId.clientIdIp b
      then ((), "ok a=basic b=inter a2=basic") else ((), "ok a=basic b=basic a2=inter")
    | _, _ => ((), "bad-op")
  | ["vreq", x, port] =>
    match parseNat? x, parseNat? port with
    | some x, some port =>
      if x < 256 ∧ port < 65536 then ((), s!"ok {validateRequest x}") else ((), "bad-op")
    | _, _ => ((), "bad-op")
  | ["vreqpkt", h, port] =>
    match parseHex? h, parseNat? port with
    | some b, some port =>
      if port < 65536 then
        match decodePacket b with
        | .ok p => ((), s!"ok {validateRequest p.lvm}")
        | .err e => ((), s!"err {e}")
        | .panic c => ((), s!"panic {c}")
      else ((), "bad-op")
    | _, _ => ((), "bad-op")
  | ["reply.hdr", h] =>
    match parseHex? h with
    | some b =>
      match decodePacket b, replyLvm with
      | .ok req, .ok lvm =>
        let r := replyHeader req lvm ⟨0, 0⟩ ⟨0, 0⟩ ⟨0, 0⟩ ⟨0, 0⟩
        ((), s!"ok {r.lvm} {r.stratum} {r.poll} {r.precision} {r.rootDelay.seconds} {r.rootDelay.fraction} {r.rootDispersion.seconds} {r.rootDispersion.fraction} {r.referenceID}")
      | .err e, _ => ((), s!"err {e}")
      | .panic c, _ => ((), s!"panic {c}")
      | _, .panic c => ((), s!"panic {c}")
      | _, .err e => ((), s!"err {e}")
    | none => ((), "bad-op")
  | ["ip.dgram", h, nts] =>
    match parseHex? h, (kv? [nts] "nts").bind boolOfNat? with
    | some b, some ntsOk =>
      match serve b ntsOk, replyLvm with
      | .reply, .ok lvm =>
        if b.length > packetLen then ((), "bad-op")  -- NTS-authenticated replies are out of this driver's scope
        else ((), s!"ok reply n=1 len={packetLen} lvm={lvm} stratum={replyStratum} src=server")
      | .crash c, _ => ((), s!"panic {c}")
      | .reply, _ => ((), "bad-op")
      | _, _ => ((), "ok none")
    | _, _ => ((), "bad-op")
  | ["ip.seq", hs, nts] =>
    -- several datagrams from ONE client socket, then a well-formed sentinel from the same socket
    match (hs.splitOn ",").mapM parseHex?, (kv? [nts] "nts").bind boolOfNat? with
    | some bs, some ntsOk =>
      let ds := runLoop true ipServerBufLen (bs.map fun b => (b, ntsOk))
      if (bs.zip ds).any (fun (b, d) => d = .reply && b.length > packetLen) then ((), "bad-op")
      else if ds.any (fun d => match d with | .crash _ => true | _ => false) then ((), "panic crash")
      else
        let pat := String.ofList (ds.map fun d => if d = .reply then '1' else '0')
        ((), s!"ok answered={pat} extra=0 sentinel=answered shape=ok")
    | _, _ => ((), "bad-op")
  | ["ip.hist", hs, nv, _ak] =>
    match (hs.splitOn ",").mapM parseHex?, (kv? [nv] "nv").bind (fun v => (v.splitOn ",").mapM parseView?) with
    | some bs, some vs =>
      if bs.length ≠ vs.length then ((), "bad-op") else
      let ds := runLoopN true true (ipServerBufLen, []) (bs.zip vs)
      if ds.any (fun d => match d with | .crash _ => true | _ => false) then ((), "panic crash")
      else
        let pat := String.ofList (ds.map fun d => if d = .reply then '1' else '0')
        let kinds := String.ofList ((bs.zip ds).map fun (b, d) =>
          if d = .reply then (if b.length > packetLen then 'a' else 'p') else 'n')
        ((), s!"ok answered={pat} kinds={kinds} extra=0 sentinel=answered shape=ok")
    | _, _ => ((), "bad-op")
  | _ => ((), "bad-op")

def main : IO Unit := run () step
