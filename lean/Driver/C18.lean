import Driver.Common
import ScionTime.Model.Unixutil
import ScionTime.Model.CsptpConv
import ScionTime.Model.FreqDrift
import ScionTime.Model.CsptpClient
import Driver.F64Ops
open Driver ScionTime.Unixutil ScionTime.CsptpConv ScionTime.FreqDrift

/-- ops:
  ux.timeval <nsec>                          -> ok <sec> <usec>
  cs.enc <unixsec> <ns>                      -> ok <12 hex digits> <ns> | panic explicit:…
  cs.dec <12 hex digits> <ns uint32>         -> ok <unixsec> <ns>
  cs.ival <int64>                            -> ok <duration>
  cs.offset|cs.delay t0s t0n t1s t1n t2s t2n t3s t3n c1 c3 -> ok <duration>
  cs.c2s|cs.s2c ts tn us un corr utc         -> ok <duration>
  ux.ppm2freq <int64>                        -> ok <double as 16 hex digits>
  ux.freq2ppm <double>                       -> ok <int64>
  tm.duration <double>                       -> ok <int64>
  clk.drift <drift ns> <duration ns>         -> ok <int64>   (NewSystemClock(_, drift).Drift(duration))
  the CSPTP client's evaluation of a complete exchange (Model/CsptpClient.lean; harness/cmd/c08net, part c18):
  csptpcli.eval t0=<unix ns> t3=<unix ns> seq=<n> sync=<hex> fu=<hex>
      -> ok ts=<unix ns> off=<ns> c2s=<ns> s2c=<ns> mpd=<ns> | err <verdict>
      (a recorded live exchange: t0/t3 are the client's kernel timestamps, sync/fu the two response
       datagrams the scripted responder sent; the answer is what the real client returned and logged)
  csptpcli.run <responder parameters…>       -> ok doff=0 dmpd=0 ds2c=0 dlog=0
      (a live exchange whose result the harness compares with the exact formulas evaluated on the
       values the responder chose: the model's claim for EVERY exchange is zero deviation —
       Props/C18Client.lean, C18_client_offset_exact)
-/
def i64? (s : String) : Option Int64 :=
  match parseInt? s with
  | some v => if -9223372036854775808 ≤ v ∧ v ≤ 9223372036854775807 then some (Int64.ofInt v) else none
  | none => none

/-- `time.Unix(sec, ns)` with `0 ≤ ns < 10^9` -/
def time? (s n : String) : Option Int :=
  match parseInt? s, parseInt? n with
  | some s, some n => if 0 ≤ n ∧ n < 1000000000 then some (s * 1000000000 + n) else none
  | _, _ => none

def msgBefore : String := "panic explicit:invalid_argument:_t_must_not_be_before_1970-01-01T00:00:00Z"
def msgAfter : String := "panic explicit:invalid_argument:_t_must_not_be_after_8921556-12-07T10:44:15"

def csptpEval (toks : List String) : String :=
  match (kv? toks "t0").bind parseInt?, (kv? toks "t3").bind parseInt?, (kv? toks "seq").bind parseNat?,
        (kv? toks "sync").bind parseHex?, (kv? toks "fu").bind parseHex? with
  | some t0, some t3, some seq, some sync, some fu =>
    if seq < 65536 ∧ sync.length ≤ 98 ∧ fu.length ≤ 98 then
      match ScionTime.CsptpClient.evaluateDatagrams t0 t3 sync fu seq with
      | .ok e => s!"ok ts={e.timestamp} off={e.clockOffset.toInt} c2s={e.c2sDelay.toInt} s2c={e.s2cDelay.toInt} mpd={e.meanPathDelay.toInt}"
      | .error _ => "err incomplete"
    else "bad-op"
  | _, _, _, _, _ => "bad-op"

def step (_ : Unit) (toks : List String) : Unit × String :=
  match toks with
  | "csptpcli.eval" :: rest => if rest.length = 5 then ((), csptpEval rest) else ((), "bad-op")
  | "csptpcli.run" :: _ :: _ => ((), "ok doff=0 dmpd=0 ds2c=0 dlog=0")
  | ["ux.timeval", n] =>
    match i64? n with
    | some n => let tv := timevalFromNsec n; ((), s!"ok {tv.sec.toInt} {tv.usec.toInt}")
    | none => ((), "bad-op")
  | ["cs.enc", s, n] =>
    match time? s n with
    | some t =>
      match timestampFromTime t with
      | .panicBefore1970 => ((), msgBefore)
      | .panicAfter48bit => ((), msgAfter)
      | .ok ts => ((), s!"ok {toHex ts.seconds} {ts.ns}")
    | none => ((), "bad-op")
  | ["cs.dec", h, n] =>
    match parseHex? h, parseNat? n with
    | some bs, some n =>
      if bs.length = 6 ∧ n < 4294967296 then
        let t := timeFromTimestamp { seconds := bs, ns := n }
        ((), s!"ok {t / 1000000000} {t % 1000000000}")
      else ((), "bad-op")
    | _, _ => ((), "bad-op")
  | ["ux.ppm2freq", x] =>
    match i64? x with
    | some x => ((), s!"ok {fmtF (freqFromScaledPPM x.toInt)}")
    | none => ((), "bad-op")
  | ["ux.freq2ppm", f] =>
    match parseF? f with
    | some f => ((), s!"ok {scaledPPMFromFreq f}")
    | none => ((), "bad-op")
  | ["tm.duration", f] =>
    match parseF? f with
    | some f => ((), s!"ok {duration f}")
    | none => ((), "bad-op")
  | ["clk.drift", dr, d] =>
    match i64? dr, i64? d with
    | some dr, some d => ((), s!"ok {drift (clockDrift dr.toInt) d.toInt}")
    | _, _ => ((), "bad-op")
  | ["cs.ival", i] =>
    match i64? i with
    | some i => ((), s!"ok {(durationFromTimeInterval i).toInt}")
    | none => ((), "bad-op")
  | [op, t0s, t0n, t1s, t1n, t2s, t2n, t3s, t3n, c1, c3] =>
    match time? t0s t0n, time? t1s t1n, time? t2s t2n, time? t3s t3n, i64? c1, i64? c3 with
    | some t0, some t1, some t2, some t3, some c1, some c3 =>
      if op = "cs.offset" then ((), s!"ok {(clockOffset t0 t1 t2 t3 c1 c3).toInt}")
      else if op = "cs.delay" then ((), s!"ok {(meanPathDelay t0 t1 t2 t3 c1 c3).toInt}")
      else ((), "bad-op")
    | _, _, _, _, _, _ => ((), "bad-op")
  | [op, ts, tn, us, un, c, utc] =>
    match time? ts tn, time? us un, i64? c, i64? utc with
    | some t, some u, some c, some utc =>
      if op = "cs.c2s" then ((), s!"ok {(c2sDelay t u c utc).toInt}")
      else if op = "cs.s2c" then ((), s!"ok {(s2cDelay t u c utc).toInt}")
      else ((), "bad-op")
    | _, _, _, _ => ((), "bad-op")
  | _ => ((), "bad-op")

def main : IO Unit := run () step
