import Driver.Common
import ScionTime.Model.Udp
open Driver

/-- ops:
  udp.oob <hex>   -> ok <sec> <nsec> | err unexpected-data | err not-found | panic …
  net.* / cli.* … -> ok alive   (socket-level liveness, see harness/cmd/c08net)
-/
def step (_ : Unit) (toks : List String) : Unit × String :=
  match toks with
  | ["udp.oob", h] =>
    match parseHex? h with
    | some b =>
      match ScionTime.Udp.timestampFromOOBData b with
      | .ok s n => ((), s!"ok {s} {n}")
      | .errUnexpectedData => ((), "err unexpected-data")
      | .errNotFound => ((), "err not-found")
      | .panicSlice => ((), "panic slice")
      | .panicExplicit => ((), "panic explicit:unexpected_timestamping_behavior")
      | .fuel => ((), "model-out-of-fuel")
    | none => ((), "bad-op")
  | op :: _ :: _ =>
    -- socket-level ops (harness/cmd/c08net): the model's claim for EVERY input is that the
    -- process that received it is still alive and serving afterwards
    if op.startsWith "net." || op.startsWith "cli." then ((), "ok alive") else ((), "bad-op")
  | _ => ((), "bad-op")

def main : IO Unit := run () step
