import Driver.Common
import ScionTime.Model.Udp
import ScionTime.Model.ScionQuic
open Driver
open ScionTime.ScionQuic in
/-- `su`, `sheu`, … -/
def parseQLayers? (s : String) : Option (List ScionTime.ScionQuic.Layer) :=
  if s = "-" then some [] else
  s.toList.mapM fun c =>
    match c with
    | 's' => some Layer.scion | 'h' => some .hbh | 'e' => some .e2e | 'u' => some .udp
    | _ => none

/-- `<type>:<hex>` | `err` | `-` -/
def parseRev? (s : String) : Option (Option (Nat × List Nat)) :=
  if s = "err" ∨ s = "-" then some none else
  match s.splitOn ":" with
  | [t, h] =>
    match t.toNat?, parseHex? h with
    | some t, some b => if t < 256 then some (some (t, b)) else none
    | _, _ => none
  | _ => none

open ScionTime.ScionQuic in
def fmtPkt (p : Pkt) : String :=
  s!"pld={toHex p.payload} ia={p.ia} host={toHex p.host} port={p.port}"

open ScionTime.ScionQuic in
/-- quic.read side=srv|cli wire=<hex> dec= layers= sia= st= sa= sp= pt= path= pld= rev= buf= [xia= xhost= xport=] -/
def quicRead (toks : List String) : String :=
  match (["side", "wire", "dec", "layers", "sia", "st", "sa", "sp", "pt", "path", "pld", "rev", "buf"].mapM (kv? toks)) with
  | some [side, wire, dec, layers, sia, st, sa, sp, pt, path, pld, rev, buf] =>
    match parseHex? wire, parseBool? dec, parseQLayers? layers, sia.toNat?, st.toNat?, parseHex? sa, sp.toNat?,
          pt.toNat?, parseHex? path with
    | some _, some dec, some layers, some sia, some st, some sa, some sp, some pt, some path =>
      match parseHex? pld, parseRev? rev, buf.toNat? with
      | some pld, some rev, some buf =>
        if st ≥ 16 ∨ sp ≥ 65536 ∨ pt ≥ 256 then "bad-op" else
        let d : Dgram := ⟨dec, layers, sia, ⟨st, sa⟩, sp, pt, path, pld, rev⟩
        if side = "srv" then
          if toks.length ≠ 14 then "bad-op" else
          match serverRead buf d with
          | .ignore => "ok ignore"
          | .deliver p t r => s!"ok deliver {fmtPkt p} path={t}:{toHex r}"
          | .errPathReversal => "err path-reversal"
          | .panic => "panic explicit:IP_called_on_non-IP_address"
        else if side = "cli" then
          if toks.length ≠ 17 then "bad-op" else
          match (kv? toks "xia").bind (·.toNat?), (kv? toks "xhost").bind parseHex?, (kv? toks "xport").bind (·.toNat?) with
          | some xia, some xhost, some xport =>
            match clientRead ⟨xia, xhost, xport⟩ buf d with
            | .ignore => "ok ignore"
            | .deliver p => s!"ok deliver {fmtPkt p}"
            | .panic => "panic explicit:IP_called_on_non-IP_address"
          | _, _, _ => "bad-op"
        else "bad-op"
      | _, _, _ => "bad-op"
    | _, _, _, _, _, _, _, _, _ => "bad-op"
  | _ => "bad-op"

/-- ops:
  udp.oob <hex>   -> ok <sec> <nsec> | err unexpected-data | err not-found | panic …
  net.* / cli.* … -> ok alive   (socket-level liveness, see harness/cmd/c08net)
  quic.read side=srv|cli wire= dec= layers= sia= st= sa= sp= pt= path= pld= rev= buf= [xia= xhost= xport=]
                  -> ok ignore | ok deliver pld= ia= host= port= [path=<t>:<hex>]   (net/scion/quic.go ReadFrom, harness/cmd/c08quic)
  quic.live …     -> ok alive   (the real NTS-KE-over-QUIC server still completes a key exchange)
-/
def step (_ : Unit) (toks : List String) : Unit × String :=
  match toks with
  | ["udp.oob", h] =>
    match parseHex? h with
    | some b =>
      match ScionTime.Udp.timestampFromOOBData b with
      | .ok s n => ((), s!"ok {s} {n}")
      | .errUnexpectedData => ((), "err unexpected-data")
      | .errNotFound => ((), "err not-found")
      | .panicSlice => ((), "panic slice")
      | .panicExplicit => ((), "panic explicit:unexpected_timestamping_behavior")
      | .fuel => ((), "model-out-of-fuel")
    | none => ((), "bad-op")
  | "quic.read" :: rest => ((), quicRead ("quic.read" :: rest))
  | op :: _ :: _ =>
    -- socket-level ops (harness/cmd/c08net): the model's claim for EVERY input is that the
    -- process that received it is still alive and serving afterwards
    if op.startsWith "net." || op.startsWith "cli." || op = "quic.live" then ((), "ok alive") else ((), "bad-op")
  | _ => ((), "bad-op")

def main : IO Unit := run () step
