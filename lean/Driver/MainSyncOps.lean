import Driver.F64Ops
import ScionTime.Model.MainCfg
/-! Ops of harness/cmd/cmain, part `sync`: `syncConfig`, `clockDrift`, `dscp` of
    /repo/timeservice.go (implementation side: hook verif_main.go inside the real binary).
    Used by the driver of C01.

  main.synccfg.bits ref= peer= cutoff= timeout= interval=     (float64 bit patterns, 16 hex digits)
        -> ok ref=<hex64> peer=<hex64> cutoff=<ns> timeout=<ns> interval=<ns>
  main.drift.bits drift=<hex64>        -> ok <ns> | err fatal:…
  main.dscp.val dscp=<0..255>          -> ok <n>  | err fatal:…
  main.synccfg / main.drift / main.dscp  <key>=<toml text>:<hex64> … [dscp=<n>]
        the same three functions applied to `loadConfig` of a TOML file with exactly these keys
        (the harness writes the file from the text parts; the model reads the bit patterns):
        an unknown or repeated key, or dscp > 255, is `err fatal:failed_to_decode_configuration`. -/
namespace Driver
open ScionTime.F64 ScionTime.MainCfg

def msFatal (msg : String) : String := "err fatal:" ++ msg.replace " " "_"

def fmtSyncCfg (c : SyncConfig) : String :=
  s!"ok ref={fmtF c.referenceClockImpact} peer={fmtF c.peerClockImpact} cutoff={c.peerClockCutoff} timeout={c.syncTimeout} interval={c.syncInterval}"

def fmtResInt (r : Res Int) : String :=
  match r with
  | .ok v => s!"ok {v}"
  | .fatal m => msFatal m
  | .panic m => "panic explicit:" ++ m.replace " " "_"

def fmtResNat (r : Res Nat) : String :=
  match r with
  | .ok v => s!"ok {v}"
  | .fatal m => msFatal m
  | .panic m => "panic explicit:" ++ m.replace " " "_"

/-- the configuration file as the model sees it -/
structure CfgFile where
  sync : SvcSync := {}
  drift : F64 := .zero false
  dscp : Nat := 0
  seen : List String := []

def floatKeys : List String :=
  [keyReferenceClockImpact, keyPeerClockImpact, keyPeerClockCutoff, keySyncTimeout, keySyncInterval, keyClockDrift]

/-- `none` = the op line is malformed; `some none` = loadConfig fails to decode -/
def parseCfgFile (toks : List String) : Option (Option CfgFile) :=
  go toks {} 
where
  go : List String → CfgFile → Option (Option CfgFile)
    | [], f => some (some f)
    | t :: rest, f =>
      match t.splitOn "=" with
      | [k, v] =>
        if k = "" ∨ v = "" then none
        else if f.seen.contains k then
          -- a repeated key: the rest of the line must still be well formed
          (go rest f).map fun _ => none
        else if k = keyDSCP then
          match v.toNat? with
          | none => none
          | some n =>
            if n > 255 then (go rest f).map fun _ => none
            else go rest { f with dscp := n, seen := k :: f.seen }
        else
          match (v.splitOn ":").getLast? with
          | none => none
          | some b =>
            match parseF? b with
            | none => none
            | some x =>
              if (v.splitOn ":").length ≠ 2 then none
              else if k = keyReferenceClockImpact then go rest { f with sync := { f.sync with referenceClockImpact := x }, seen := k :: f.seen }
              else if k = keyPeerClockImpact then go rest { f with sync := { f.sync with peerClockImpact := x }, seen := k :: f.seen }
              else if k = keyPeerClockCutoff then go rest { f with sync := { f.sync with peerClockCutoff := x }, seen := k :: f.seen }
              else if k = keySyncTimeout then go rest { f with sync := { f.sync with syncTimeout := x }, seen := k :: f.seen }
              else if k = keySyncInterval then go rest { f with sync := { f.sync with syncInterval := x }, seen := k :: f.seen }
              else if k = keyClockDrift then go rest { f with drift := x, seen := k :: f.seen }
              else (go rest f).map fun _ => none      -- unknown key
      | _ => none

def decodeFatal : String := msFatal "failed to decode configuration"

def mainSyncStep (toks : List String) : Option String :=
  match toks with
  | "main.synccfg.bits" :: rest =>
    if rest.length ≠ 5 then some "bad-op" else
    match (kv? rest "ref").bind parseF?, (kv? rest "peer").bind parseF?, (kv? rest "cutoff").bind parseF?,
          (kv? rest "timeout").bind parseF?, (kv? rest "interval").bind parseF? with
    | some r, some p, some c, some t, some i => some (fmtSyncCfg (syncConfig ⟨r, p, c, t, i⟩))
    | _, _, _, _, _ => some "bad-op"
  | ["main.drift.bits", d] =>
    match (kv? [d] "drift").bind parseF? with
    | some x => some (fmtResInt (clockDrift x))
    | none => some "bad-op"
  | ["main.dscp.val", d] =>
    match (kv? [d] "dscp").bind (·.toNat?) with
    | some n => if n ≤ 255 then some (fmtResNat (dscp n)) else some "bad-op"
    | none => some "bad-op"
  | "main.synccfg" :: rest =>
    match parseCfgFile rest with
    | none => some "bad-op"
    | some none => some decodeFatal
    | some (some f) => some (fmtSyncCfg (syncConfig f.sync))
  | "main.drift" :: rest =>
    match parseCfgFile rest with
    | none => some "bad-op"
    | some none => some decodeFatal
    | some (some f) => some (fmtResInt (clockDrift f.drift))
  | "main.dscp" :: rest =>
    match parseCfgFile rest with
    | none => some "bad-op"
    | some none => some decodeFatal
    | some (some f) => some (fmtResNat (dscp f.dscp))
  | _ => none

end Driver
