import Driver.Common
import ScionTime.Model.Provider
open Driver ScionTime.Provider

/-- ops (times are ns since the start of the history's virtual clock, non-decreasing):
  prov.new <t>                     -> ok                      NewProvider() at t
  prov.cur <t>                     -> ok <id> <nb> <na>       Current() at t
  prov.get <id> <t>                -> ok <id> <nb> <na> | ok none
  prov.par <t> (c | g:<id>)+       -> ok <ans> | <ans> | …    calls at the same instant t
-/
structure St where
  s : Option State
  last : Int

def fmtKey (k : Key) : String := s!"{k.id} {k.nb} {k.na}"

def fmtAns : Option Key → String
  | none => "none"
  | some k => fmtKey k

def parseItem (t : Int) (tok : String) : Option Op :=
  if tok = "c" then some (.current t t)
  else if tok.startsWith "g:" then (parseInt? (tok.drop 2).toString).map (fun id => .get id t)
  else none

def runOps (s : State) : List Op → State × List String
  | [] => (s, [])
  | op :: rest =>
    let r := step std s op
    let q := runOps r.1 rest
    (q.1, fmtAns r.2 :: q.2)

def stepD (st : St) (toks : List String) : St × String :=
  match toks with
  | ["prov.new", t] =>
    match parseInt? t with
    | some t => if 0 ≤ t then ({ s := some (init std t), last := t }, "ok") else (st, "bad-op")
    | none => (st, "bad-op")
  | ["prov.cur", t] =>
    match st.s, parseInt? t with
    | some s, some t =>
      if st.last ≤ t then
        let r := current std s t t
        ({ s := some r.1, last := t }, "ok " ++ fmtKey r.2)
      else (st, "bad-op")
    | _, _ => (st, "bad-op")
  | ["prov.get", id, t] =>
    match st.s, parseInt? id, parseInt? t with
    | some s, some id, some t =>
      if st.last ≤ t then ({ st with last := t }, "ok " ++ fmtAns (get s id t))
      else (st, "bad-op")
    | _, _, _ => (st, "bad-op")
  | "prov.par" :: t :: items =>
    match st.s, parseInt? t, items.mapM (fun x => (parseInt? t).bind (fun t => parseItem t x)) with
    | some s, some t, some ops =>
      if st.last ≤ t ∧ ops ≠ [] then
        let r := runOps s ops
        ({ s := some r.1, last := t }, "ok " ++ " | ".intercalate r.2)
      else (st, "bad-op")
    | _, _, _ => (st, "bad-op")
  | _ => (st, "bad-op")

def main : IO Unit := run ({ s := none, last := 0 } : St) stepD
