import Driver.Common
import ScionTime.Model.Provider
open Driver ScionTime.Provider

/-- ops (times are ns since the start of the history's virtual clock, non-decreasing):
  prov.new <t>                     -> ok                      NewProvider() at t
  prov.cur <t>                     -> ok <id> <nb> <na>       Current() at t
  prov.get <id> <t>                -> ok <id> <nb> <na> | ok none
  prov.curs <n> <step> <t>         -> ok <changes> <minIdStep> <first key> | <last key>
        n calls of Current() at t, t+step, …: how many calls returned another key than the call
        before, and the smallest id difference over those (0 if none)
  prov.par <t> (c | g:<id>)+       -> ok <ans> | <ans> | …    calls at the same instant t
 users of the provider (Model/Provider.lean `Use`; the harness runs the real newNTSKEMsg and the
 real IP listeners of core/server under the virtual clock):
  use.new <t>                      -> ok                      NewProvider() at t (+ listeners)
  use.ke <t>                       -> ok key=<id> <nb> <na> n=8          newNTSKEMsg at t
  use.ntp <lsn> <i>.<j> <ph> <t1> <t2>                        an NTS request carrying cookie j of
        issue i (issues = successful use.ke / use.ntp in order, from 0) and ph placeholders, received by
        listener lsn at t1 (Get) and answered at t2 (Current)
                                   -> ok open=<id> <nb> <na> key=<id> <nb> <na> n=<ph+1>
                                    | ok open=<id> none drop no-key
-/
structure St where
  s : Option State
  last : Int
  issues : List (Int × Nat) := []   -- key id and number of cookies of every issue so far

/-- cookies in a key exchange answer (`for range 8` in newNTSKEMsg). -/
def keCookies : Nat := 8

def parseRef (tok : String) : Option (Nat × Nat) :=
  match tok.splitOn "." with
  | [a, b] => match a.toNat?, b.toNat? with
    | some a, some b => some (a, b)
    | _, _ => none
  | _ => none

def fmtKey (k : Key) : String := s!"{k.id} {k.nb} {k.na}"

def fmtAns : Option Key → String
  | none => "none"
  | some k => fmtKey k

def parseItem (t : Int) (tok : String) : Option Op :=
  if tok = "c" then some (.current t t)
  else if tok.startsWith "g:" then (parseInt? (tok.drop 2).toString).map (fun id => .get id t)
  else none

def runOps (s : State) : List Op → State × List String
  | [] => (s, [])
  | op :: rest =>
    let r := step std s op
    let q := runOps r.1 rest
    (q.1, fmtAns r.2 :: q.2)

/-- the remaining calls of a `prov.curs` run (accumulators: previous key, changes, minimal id step). -/
def cursLoop : Nat → State → Int → Int → Key → Nat → Int → State × Key × Nat × Int
  | 0, s, _, _, prev, ch, ms => (s, prev, ch, ms)
  | n + 1, s, t, stp, prev, ch, ms =>
    let r := current std s t t
    if r.2.id ≠ prev.id ∨ r.2.nb ≠ prev.nb then
      let d := r.2.id - prev.id
      cursLoop n r.1 (t + stp) stp r.2 (ch + 1) (if ch = 0 ∨ d < ms then d else ms)
    else cursLoop n r.1 (t + stp) stp r.2 ch ms

def stepD (st : St) (toks : List String) : St × String :=
  match toks with
  | ["prov.new", t] =>
    match parseInt? t with
    | some t => if 0 ≤ t then ({ s := some (init std t), last := t }, "ok") else (st, "bad-op")
    | none => (st, "bad-op")
  | ["prov.cur", t] =>
    match st.s, parseInt? t with
    | some s, some t =>
      if st.last ≤ t then
        let r := current std s t t
        ({ st with s := some r.1, last := t }, "ok " ++ fmtKey r.2)
      else (st, "bad-op")
    | _, _ => (st, "bad-op")
  | ["prov.curs", n, stp, t] =>
    match st.s, n.toNat?, parseInt? stp, parseInt? t with
    | some s, some n, some stp, some t =>
      if 1 ≤ n ∧ n ≤ 1048576 ∧ 0 ≤ stp ∧ st.last ≤ t ∧ t + (n - 1 : Nat) * stp ≤ 9223372036854775807 then
        let r0 := current std s t t
        let r := cursLoop (n - 1) r0.1 (t + stp) stp r0.2 0 0
        ({ st with s := some r.1, last := t + (n - 1 : Nat) * stp },
          s!"ok {r.2.2.1} {r.2.2.2} {fmtKey r0.2} | {fmtKey r.2.1}")
      else (st, "bad-op")
    | _, _, _, _ => (st, "bad-op")
  | ["prov.get", id, t] =>
    match st.s, parseInt? id, parseInt? t with
    | some s, some id, some t =>
      if st.last ≤ t then ({ st with last := t }, "ok " ++ fmtAns (get s id t))
      else (st, "bad-op")
    | _, _, _ => (st, "bad-op")
  | "prov.par" :: t :: items =>
    match st.s, parseInt? t, items.mapM (fun x => (parseInt? t).bind (fun t => parseItem t x)) with
    | some s, some t, some ops =>
      if st.last ≤ t ∧ ops ≠ [] then
        let r := runOps s ops
        ({ st with s := some r.1, last := t }, "ok " ++ " | ".intercalate r.2)
      else (st, "bad-op")
    | _, _, _ => (st, "bad-op")
  | ["use.new", t] =>
    match parseInt? t with
    | some t => if 0 ≤ t then ({ s := some (init std t), last := t }, "ok") else (st, "bad-op")
    | none => (st, "bad-op")
  | ["use.ke", t] =>
    match st.s, parseInt? t with
    | some s, some t =>
      if st.last ≤ t then
        let r := useStep std s (.ke t t)
        match r.2.sealedWith with
        | some k =>
          ({ s := some r.1, last := t, issues := st.issues ++ [(k.id, keCookies)] },
            s!"ok key={fmtKey k} n={keCookies}")
        | none => (st, "bad-op")
      else (st, "bad-op")
    | _, _ => (st, "bad-op")
  | ["use.ntp", lsn, ref, ph, t1, t2] =>
    match st.s, lsn.toNat?, parseRef ref, ph.toNat?, parseInt? t1, parseInt? t2 with
    | some s, some _, some (i, j), some ph, some t1, some t2 =>
      match st.issues[i]? with
      | some (id, n) =>
        if j < n ∧ ph ≤ 6 ∧ st.last ≤ t1 ∧ t1 ≤ t2 then
          let r := useStep std s (.ntp id t1 true t2 t2)
          match r.2.opened, r.2.sealedWith with
          | some ko, some k =>
            ({ s := some r.1, last := t2, issues := st.issues ++ [(k.id, ph + 1)] },
              s!"ok open={fmtKey ko} key={fmtKey k} n={ph + 1}")
          | _, _ => ({ st with s := some r.1, last := t1 }, s!"ok open={id} none drop no-key")
        else (st, "bad-op")
      | none => (st, "bad-op")
    | _, _, _, _, _, _ => (st, "bad-op")
  | _ => (st, "bad-op")

def main : IO Unit := run ({ s := none, last := 0, issues := [] } : St) stepD
