/-
  C15 — "the reported offset is the fault-tolerant midpoint over one value per participating
  client": which participants contribute is decided by the per-path goroutine's attempt loop in
  MeasureClockOffsetSCION (up to three exchanges per round for a client configured for
  interleaved mode). Model: `Multipath.attemptLoop` (the loop's `err` / `nerr` bookkeeping,
  statement by statement). Proved for every outcome sequence: the goroutine reports a
  measurement (nil error) iff at least one attempt succeeded, and the value it reports is that
  of the LAST successful attempt — whatever fails afterwards. The driver feeds the model from
  outcome patterns (`succ=[<off>:<pattern>]`), the harness's path servers refuse exactly the
  attempts the pattern says, and the round's result is compared (seeded change C15-12: "report
  the most recent error" — refuted below).
-/
import ScionTime.Model.Multipath
namespace ScionTime.Props.C15Attempts
open ScionTime.Multipath

theorem attemptLoopGo_errNil (outs : List Bool) :
    ∀ (err val : Option Nat) (nerr j : Nat), nerr ≤ j → (err.isNone = true ↔ (nerr < j ∨ j = 0)) →
      (attemptLoopGo outs err val nerr j).1 =
        (outs.any id || decide (nerr < j) || (outs.isEmpty && err.isNone)) := by
  induction outs with
  | nil =>
    intro err val nerr j _ hinv
    simp only [attemptLoopGo, List.any_nil, List.isEmpty_nil, Bool.true_and, Bool.false_or]
    by_cases h : nerr < j
    · have := hinv.mpr (Or.inl h); simp [h, this]
    · simp [h]
  | cons o rest ih =>
    intro err val nerr j hle hinv
    cases o with
    | true =>
      simp only [attemptLoopGo, List.any_cons, id, Bool.true_or]
      rw [ih none (some j) nerr (j + 1) (by omega) (by simp; omega)]
      have : nerr < j + 1 := by omega
      simp [this]
    | false =>
      simp only [attemptLoopGo, List.any_cons, id, Bool.false_or, List.isEmpty_cons, Bool.false_and, Bool.or_false]
      by_cases hj : nerr = j
      · subst hj
        simp only [beq_self_eq_true, if_true]
        rw [ih (some nerr) val (nerr + 1) (nerr + 1) (by omega) (by simp)]
        simp
      · have hlt : nerr < j := by omega
        have hb : (nerr == j) = false := by simp [hj]
        simp only [hb, Bool.false_eq_true, if_false]
        have hnone : err.isNone = true := hinv.mpr (Or.inl hlt)
        rw [ih err val (nerr + 1) (j + 1) (by omega) (by constructor <;> intro _ <;> first | (left; omega) | exact hnone)]
        have : nerr + 1 < j + 1 := by omega
        simp [this, hlt]

/-- The goroutine reports a measurement iff at least one of its attempts succeeded (an empty
    attempt list cannot occur: n is 1 or 3). -/
theorem C15_attempt_loop_reports_iff_any_success (outs : List Bool) (hne : outs ≠ []) :
    (attemptLoop outs).1 = outs.any id := by
  unfold attemptLoop
  rw [attemptLoopGo_errNil outs none none 0 0 (by omega) (by simp)]
  cases outs with
  | nil => exact absurd rfl hne
  | cons a l => simp

/-- Every pattern of three attempts, decided outright: the reported value is the last
    successful attempt's, and a success is never lost to a later failure. -/
theorem C15_attempt_loop_three_complete :
    ∀ a b c : Bool, attemptLoop [a, b, c] =
      ((a || b || c), if c then some 2 else if b then some 1 else if a then some 0 else none) := by
  decide

/-- The seeded variant (`err = e` on every failure) loses an earlier success: first attempt
    answered, second refused — HEAD reports the measurement, the variant reports the error. -/
theorem C15_attempt_loop_last_error_refuted :
    attemptLoop [true, false] = (true, some 0) ∧ attemptLoopLastErr [true, false] = (false, some 0) := by
  decide

end ScionTime.Props.C15Attempts
