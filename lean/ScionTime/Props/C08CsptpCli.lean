/-
  C08 — the CSPTP client's receive loop (core/client/client_csptp_ip.go, MeasureClockOffset) as a
  state machine over response histories; model: Model/CsptpCliLoop.lean (on top of
  Model/CsptpClient.lean); lemmas: Proofs/CsptpCliLoop.lean.

  For every history of datagrams and read errors, every source, every sequence id, every state
  of the retry counter:
  * no iteration panics; an iteration either fails the measurement with an error, goes on, or
    completes the pair;
  * **soundness**: when the loop completes, the Sync it kept IS a datagram of the history that
    came from the queried server's port 319, was 44 bytes long and carried the outstanding
    sequence id, and the Follow_Up + TLV it kept IS a datagram of the history from the server's
    port 320 with the outstanding sequence id, a response TLV of the right kind and exactly the
    length its flag field declares; the reported offset is `CsptpClient.evaluate` of exactly
    these and of that Sync's receive timestamp.  Nothing else can contribute: datagrams with
    another sequence id (older exchanges), from other hosts or ports, request-typed TLVs,
    partially decoded TLVs;
  * **progress**: in any loop state a genuine pair (either order) completes the measurement, and
    the Sync kept is the genuine one;
  * **retry rule**: a failure is survived only with a deadline, before the deadline, and not in
    the fourth iteration; every surviving iteration adds one to the counter.
  `PortIdentity` (clock id, port number) of a response is NOT checked by the client; the pair is
  matched by sequence id and UDP source only — recorded as an observation in notes/C08.md.
-/
import ScionTime.Proofs.CsptpCliLoop
import ScionTime.Model.CsptpSkeleton
import ScionTime.Props.C08Csptp
import ScionTime.Props.C18Client
import ScionTime.Gen.Client
namespace ScionTime.C08CsptpCli
open ScionTime.Wire ScionTime.Csptp ScionTime.CsptpClient ScionTime.CsptpCliLoop

set_option maxRecDepth 20000

/-! ### code shape, re-read from /repo on every run -/

/-- the receive loop is, condition for condition, what `iter` transcribes -/
theorem C08_pin_csptpcli_loop : Gen.Client.csptpcli_loop = CsptpSkeleton.clientLoop := rfl

theorem C08_pin_csptpcli_constants :
    Gen.Client.csptpcli_maxNumRetries = "3" ∧ maxNumRetries = 3 ∧
    Gen.Client.csptpcli_bufLen = "csptp.MaxMessageLength" ∧ Gen.Csptp.MaxMessageLength = maxMessageLength :=
  ⟨rfl, rfl, rfl, by decide⟩

/-! ### what counts as a genuine half of the response -/

/-- a datagram from the queried server's event port that is a Sync answering request `seq` -/
def GoodSync (seq : Nat) (e : Ev) (m : Message) : Prop :=
  ∃ wire rxt before, e = .dgram wire 0 .event rxt before ∧ wire.length = minMessageLength ∧
    decodeMessage wire = .ok m ∧ m.sequenceID = seq ∧ m.sdoIDMessageType = messageTypeSync ∧
    m.messageLength = minMessageLength

/-- a datagram from the queried server's general port that is a Follow_Up answering request `seq`
    with a response TLV at its declared length -/
def GoodFollowUp (seq : Nat) (e : Ev) (m : Message) (t : ResponseTLV) : Prop :=
  ∃ wire rxt before, e = .dgram wire 0 .general rxt before ∧ wire.length ≤ maxMessageLength ∧
    decodeMessage (wire.take minMessageLength) = .ok m ∧ m.sequenceID = seq ∧
    m.sdoIDMessageType = messageTypeFollowUp ∧ m.messageLength = wire.length ∧
    decodeResponseTLV (wire.drop minMessageLength) = .ok t ∧ isResponseKind t = true ∧
    wire.length = minMessageLength + encodedTLVLength t.flagField

/-! ### the classification of one datagram -/

theorem C08_csptpcli_classify_sync {seq : Nat} {tlv0 : ResponseTLV} {wire : List Nat} {f : Nat} {src : Src} {m : Message}
    (h : classify seq tlv0 wire f src = .sync m) (rxt : Int) (before : Bool) :
    GoodSync seq (.dgram wire f src rxt before) m := by
  unfold classify at h
  split at h
  · cases h
  · rename_i hf
    have hf0 := CsptpSrv.recvFlags_zero (by omega : CsptpSrv.recvFlags wire.length f = 0)
    split at h
    · cases h
    · split at h
      · cases h
      · cases h
      · rename_i msg hm
        split at h
        · cases h
        · split at h
          · cases h
          · split at h
            · split at h
              · cases h
              · split at h
                · cases h
                · rename_i hl hs hty hsrc hz
                  injection h with h
                  subst h
                  have hw : wire.length = minMessageLength := by omega
                  rw [List.take_of_length_le (by omega)] at hm
                  have hsrc' : src = .event := by
                    cases src <;> simp_all
                  refine ⟨wire, rxt, before, ?_, hw, hm, by omega, hty, by omega⟩
                  rw [hf0.2, hsrc']
            · split at h
              · split at h
                · cases h
                · split at h
                  · cases h
                  · split at h
                    · cases h
                    · split at h <;> cases h
              · cases h

theorem C08_csptpcli_classify_followUp {seq : Nat} {tlv0 : ResponseTLV} {wire : List Nat} {f : Nat} {src : Src} {m : Message}
    {t : ResponseTLV} (h : classify seq tlv0 wire f src = .followUp m t) (rxt : Int) (before : Bool) :
    GoodFollowUp seq (.dgram wire f src rxt before) m t := by
  unfold classify at h
  split at h
  · cases h
  · rename_i hf
    have hf0 := CsptpSrv.recvFlags_zero (by omega : CsptpSrv.recvFlags wire.length f = 0)
    split at h
    · cases h
    · split at h
      · cases h
      · cases h
      · rename_i msg hm
        split at h
        · cases h
        · split at h
          · cases h
          · split at h
            · split at h
              · cases h
              · split at h <;> cases h
            · split at h
              · split at h
                · cases h
                · split at h
                  · cases h
                  · split at h
                    · cases h
                    · split at h
                      · cases h
                      · rename_i hmin hl hs hnty hty hsrc hok hk hlen
                        injection h with h1 h2
                        subst h1; subst h2
                        have hsrc' : src = .general := by
                          cases src <;> simp_all
                        have hok' : (decodeInto tlv0 (wire.drop minMessageLength)).2 = true := by simpa using hok
                        refine ⟨wire, rxt, before, ?_, hf0.1, hm, by omega, hty, by omega, decodeInto_ok hok', by simpa using hk, by omega⟩
                        rw [hf0.2, hsrc']
              · cases h

/-- the TLV variable is only written on the Follow_Up path, after `respmsg1Ok` was cleared -/
theorem C08_csptpcli_classify_failed_tlv {seq : Nat} {tlv0 : ResponseTLV} {wire : List Nat} {f : Nat} {src : Src}
    {err log : String} {r0 r1 : Bool} {t : ResponseTLV}
    (h : classify seq tlv0 wire f src = .failed err log r0 r1 (some t)) : r1 = true := by
  unfold classify at h
  repeat' split at h
  all_goals first
    | (injection h with _ _ _ h1 h2; cases h2; done)
    | (injection h with _ _ _ h1 h2; exact h1.symm)
    | cases h

/-- a genuine Sync is classified as such, whatever came before -/
theorem C08_csptpcli_classify_of_goodSync {seq : Nat} {e : Ev} {m : Message} (h : GoodSync seq e m) (tlv0 : ResponseTLV) :
    ∃ wire rxt before, e = .dgram wire 0 .event rxt before ∧ classify seq tlv0 wire 0 .event = .sync m := by
  obtain ⟨wire, rxt, before, he, hl, hd, hs, hty, hml⟩ := h
  refine ⟨wire, rxt, before, he, ?_⟩
  unfold classify
  have hfl : CsptpSrv.recvFlags wire.length 0 = 0 := (CsptpSrv.recvFlags_zero_iff _ _).mpr ⟨by rw [hl]; decide, rfl⟩
  rw [if_neg (by omega), if_neg (by omega), List.take_of_length_le (by omega), hd]
  simp only
  rw [if_neg (by omega), if_neg (by omega), if_pos hty, if_neg (by simp), if_neg (by omega)]

/-- a genuine Follow_Up is classified as such, whatever `resptlv` held -/
theorem C08_csptpcli_classify_of_goodFollowUp {seq : Nat} {e : Ev} {m : Message} {t : ResponseTLV} (h : GoodFollowUp seq e m t)
    (tlv0 : ResponseTLV) :
    ∃ wire rxt before, e = .dgram wire 0 .general rxt before ∧ classify seq tlv0 wire 0 .general = .followUp m t := by
  obtain ⟨wire, rxt, before, he, hl, hd, hs, hty, hml, hdt, hk, hlen⟩ := h
  refine ⟨wire, rxt, before, he, ?_⟩
  unfold classify
  have hfl : CsptpSrv.recvFlags wire.length 0 = 0 := (CsptpSrv.recvFlags_zero_iff _ _).mpr ⟨hl, rfl⟩
  have hne : ¬ m.sdoIDMessageType = messageTypeSync := by rw [hty]; decide
  rw [if_neg (by omega), if_neg (by omega), hd]
  simp only
  rw [if_neg (by omega), if_neg (by omega), if_neg hne, if_pos hty, if_neg (by simp), decodeInto_of_ok hdt]
  simp only [Bool.not_true, Bool.false_eq_true, ↓reduceIte, hk]
  rw [if_neg (by omega)]

/-! ### one iteration -/

/-- **C08, one iteration.**  In every loop state (98-byte buffer), for every event: no panic;
    the buffer stays 98 bytes; an iteration that goes on without completing the pair adds exactly
    one to the retry counter. -/
theorem C08_csptpcli_iter_total (dl : Bool) (seq : Nat) (st : Loop) (e : Ev) (hb : st.backing.length = maxMessageLength) :
    (iter dl seq st e).isPanic = false ∧
    ∀ st', (iter dl seq st e).state? = some st' → st'.backing.length = maxMessageLength ∧
      ((iter dl seq st e).isDone = false → st'.numRetries = st.numRetries + 1) := by
  have hb' : st.backing.length = CsptpSrv.maxMessageLength := hb
  cases e with
  | readErr before =>
    rw [iter_readErr]
    rcases failPath_cases dl st before "read" logRead with ⟨h, _⟩ | ⟨h, _⟩ <;> rw [h]
    · refine ⟨rfl, ?_⟩
      intro st' hs; cases hs; exact ⟨hb, fun _ => rfl⟩
    · refine ⟨rfl, ?_⟩
      intro st' hs; cases hs
  | dgram wire f src rxt before =>
    rw [iter_dgram dl seq st wire f src rxt before hb]
    have hlen : (CsptpSrv.recvInto st.backing wire).length = maxMessageLength := CsptpSrv.recvInto_length _ _ hb'
    cases hc : classify seq st.tlv wire f src with
    | failed err log r0 r1 tlv =>
      simp only [applyCls]
      rcases failPath_cases dl ((st.recv wire).clear r0 r1 tlv) before err log with ⟨h, _⟩ | ⟨h, _⟩ <;> rw [h]
      · refine ⟨rfl, ?_⟩
        intro st' hs; cases hs; exact ⟨hlen, fun _ => rfl⟩
      · refine ⟨rfl, ?_⟩
        intro st' hs; cases hs
    | sync msg =>
      simp only [applyCls]
      rcases endOfBody_cases ((st.recv wire).keepSync rxt msg) with ⟨h, _⟩ | ⟨h, _⟩ <;> rw [h]
      · refine ⟨rfl, ?_⟩
        intro st' hs; cases hs; exact ⟨hlen, fun hd => by cases hd⟩
      · refine ⟨rfl, ?_⟩
        intro st' hs; cases hs; exact ⟨hlen, fun _ => rfl⟩
    | followUp msg tlv =>
      simp only [applyCls]
      rcases endOfBody_cases ((st.recv wire).keepFollowUp tlv rxt msg) with ⟨h, _⟩ | ⟨h, _⟩ <;> rw [h]
      · refine ⟨rfl, ?_⟩
        intro st' hs; cases hs; exact ⟨hlen, fun hd => by cases hd⟩
      · refine ⟨rfl, ?_⟩
        intro st' hs; cases hs; exact ⟨hlen, fun _ => rfl⟩

/-- **Retry rule.**  A failing iteration is survived only if a deadline is set, the clock still
    reads before it, and this is not the fourth iteration (`numRetries = 3`); equivalently:
    without a deadline, after it, or in the fourth iteration every malformed, foreign or
    out-of-sequence datagram and every read error ends the measurement with an error. -/
theorem C08_csptpcli_retry_rule (dl : Bool) (seq : Nat) (st st' : Loop) (e : Ev) (log : String)
    (hb : st.backing.length = maxMessageLength) (h : iter dl seq st e = .retry st' log) :
    dl = true ∧ st.numRetries ≠ maxNumRetries ∧
    (match e with | .readErr b => b | .dgram _ _ _ _ b => b) = true := by
  cases e with
  | readErr before =>
    rw [iter_readErr] at h
    rcases failPath_cases dl st before "read" logRead with ⟨_, h1, h2, h3⟩ | ⟨h', _⟩
    · exact ⟨h1, h3, h2⟩
    · rw [h'] at h; cases h
  | dgram wire f src rxt before =>
    rw [iter_dgram dl seq st wire f src rxt before hb] at h
    cases hc : classify seq st.tlv wire f src with
    | failed err lg r0 r1 tlv =>
      rw [hc] at h
      simp only [applyCls] at h
      rcases failPath_cases dl ((st.recv wire).clear r0 r1 tlv) before err lg with ⟨_, h1, h2, h3⟩ | ⟨h', _⟩
      · exact ⟨h1, h3, h2⟩
      · rw [h'] at h; cases h
    | sync msg =>
      rw [hc] at h
      simp only [applyCls] at h
      rcases endOfBody_cases ((st.recv wire).keepSync rxt msg) with ⟨h', _⟩ | ⟨h', _⟩ <;> rw [h'] at h <;> cases h
    | followUp msg tlv =>
      rw [hc] at h
      simp only [applyCls] at h
      rcases endOfBody_cases ((st.recv wire).keepFollowUp tlv rxt msg) with ⟨h', _⟩ | ⟨h', _⟩ <;> rw [h'] at h <;> cases h

/-! ### soundness over histories -/

/-- what the loop variables mean: each kept half is a genuine datagram of the history so far -/
structure Inv (seq : Nat) (seen : List Ev) (st : Loop) : Prop where
  len : st.backing.length = maxMessageLength
  s0 : st.ok0 = true → ∃ e ∈ seen, GoodSync seq e st.m0 ∧ st.rx0 = e.rxt
  s1 : st.ok1 = true → ∃ e ∈ seen, GoodFollowUp seq e st.m1 st.tlv

theorem Inv.mono {seq : Nat} {seen : List Ev} {st : Loop} (h : Inv seq seen st) (e : Ev) : Inv seq (seen ++ [e]) st :=
  ⟨h.len, fun h0 => let ⟨x, hx, hg⟩ := h.s0 h0; ⟨x, List.mem_append_left _ hx, hg⟩,
    fun h1 => let ⟨x, hx, hg⟩ := h.s1 h1; ⟨x, List.mem_append_left _ hx, hg⟩⟩

theorem Inv.bump {seq : Nat} {seen : List Ev} {st : Loop} (h : Inv seq seen st) : Inv seq seen st.bump :=
  ⟨h.len, h.s0, h.s1⟩

theorem C08_csptpcli_iter_invariant (dl : Bool) (seq : Nat) (st : Loop) (e : Ev) (seen : List Ev) (hI : Inv seq seen st) :
    ∀ st', (iter dl seq st e).state? = some st' → Inv seq (seen ++ [e]) st' := by
  have hb := hI.len
  have hb' : st.backing.length = CsptpSrv.maxMessageLength := hb
  cases e with
  | readErr before =>
    rw [iter_readErr]
    rcases failPath_cases dl st before "read" logRead with ⟨h, _⟩ | ⟨h, _⟩ <;> rw [h]
    · intro st' hs; cases hs
      exact (hI.mono _).bump
    · intro _ hs; cases hs
  | dgram wire f src rxt before =>
    rw [iter_dgram dl seq st wire f src rxt before hb]
    have hlen : (CsptpSrv.recvInto st.backing wire).length = maxMessageLength := CsptpSrv.recvInto_length _ _ hb'
    have hmem : Ev.dgram wire f src rxt before ∈ seen ++ [Ev.dgram wire f src rxt before] :=
      List.mem_append_right _ (List.mem_singleton.mpr rfl)
    cases hc : classify seq st.tlv wire f src with
    | failed err log r0 r1 tlv =>
      simp only [applyCls]
      have hI' : Inv seq (seen ++ [Ev.dgram wire f src rxt before]) ((st.recv wire).clear r0 r1 tlv) := by
        refine ⟨hlen, ?_, ?_⟩
        · intro h0
          have : st.ok0 = true := by
            cases r0 <;> simp [Loop.clear, Loop.recv] at h0
            exact h0
          exact (hI.mono _).s0 this
        · intro h1
          cases r1 with
          | true => simp [Loop.clear, Loop.recv] at h1
          | false =>
            have ht : tlv = none := by
              cases tlv with
              | none => rfl
              | some t => exact absurd (C08_csptpcli_classify_failed_tlv hc) (by decide)
            subst ht
            have : st.ok1 = true := by simpa [Loop.clear, Loop.recv] using h1
            exact (hI.mono _).s1 this
      rcases failPath_cases dl ((st.recv wire).clear r0 r1 tlv) before err log with ⟨h, _⟩ | ⟨h, _⟩ <;> rw [h]
      · intro st' hs; cases hs; exact hI'.bump
      · intro _ hs; cases hs
    | sync msg =>
      simp only [applyCls]
      have hg := C08_csptpcli_classify_sync hc rxt before
      have hI' : Inv seq (seen ++ [Ev.dgram wire f src rxt before]) ((st.recv wire).keepSync rxt msg) :=
        ⟨hlen, fun _ => ⟨_, hmem, hg, rfl⟩, (hI.mono _).s1⟩
      rcases endOfBody_cases ((st.recv wire).keepSync rxt msg) with ⟨h, _⟩ | ⟨h, _⟩ <;> rw [h]
      · intro st' hs; cases hs; exact hI'
      · intro st' hs; cases hs; exact hI'.bump
    | followUp msg tlv =>
      simp only [applyCls]
      have hg := C08_csptpcli_classify_followUp hc rxt before
      have hI' : Inv seq (seen ++ [Ev.dgram wire f src rxt before]) ((st.recv wire).keepFollowUp tlv rxt msg) :=
        ⟨hlen, (hI.mono _).s0, fun _ => ⟨_, hmem, hg⟩⟩
      rcases endOfBody_cases ((st.recv wire).keepFollowUp tlv rxt msg) with ⟨h, _⟩ | ⟨h, _⟩ <;> rw [h]
      · intro st' hs; cases hs; exact hI'
      · intro st' hs; cases hs; exact hI'.bump

theorem C08_csptpcli_done_has_both (dl : Bool) (seq : Nat) (st st' : Loop) (e : Ev) (hb : st.backing.length = maxMessageLength)
    (h : iter dl seq st e = .done st') : st'.ok0 = true ∧ st'.ok1 = true := by
  cases e with
  | readErr before =>
    rw [iter_readErr] at h
    rcases failPath_cases dl st before "read" logRead with ⟨h', _⟩ | ⟨h', _⟩ <;> rw [h'] at h <;> cases h
  | dgram wire f src rxt before =>
    rw [iter_dgram dl seq st wire f src rxt before hb] at h
    cases hc : classify seq st.tlv wire f src with
    | failed err lg r0 r1 tlv =>
      rw [hc] at h
      simp only [applyCls] at h
      rcases failPath_cases dl ((st.recv wire).clear r0 r1 tlv) before err lg with ⟨h', _⟩ | ⟨h', _⟩ <;>
        rw [h'] at h <;> cases h
    | sync msg =>
      rw [hc] at h
      simp only [applyCls] at h
      rcases endOfBody_cases ((st.recv wire).keepSync rxt msg) with ⟨h', h0, h1⟩ | ⟨h', _⟩ <;> rw [h'] at h
      · cases h; exact ⟨h0, h1⟩
      · cases h
    | followUp msg tlv =>
      rw [hc] at h
      simp only [applyCls] at h
      rcases endOfBody_cases ((st.recv wire).keepFollowUp tlv rxt msg) with ⟨h', h0, h1⟩ | ⟨h', _⟩ <;> rw [h'] at h
      · cases h; exact ⟨h0, h1⟩
      · cases h

/-- the loop over a history keeps the invariant; it never panics -/
theorem C08_csptpcli_run_invariant (dl : Bool) (seq : Nat) : ∀ (evs : List Ev) (st : Loop) (tr : List String) (seen : List Ev),
    Inv seq seen st →
    (∀ c, run dl seq st tr evs ≠ .panic c) ∧
    (∀ st' tr', run dl seq st tr evs = .ok st' tr' → Inv seq (seen ++ evs) st' ∧ st'.ok0 = true ∧ st'.ok1 = true) := by
  intro evs
  induction evs with
  | nil => intro st tr seen hI; exact ⟨(by intro c h; cases h), (by intro _ _ h; cases h)⟩
  | cons e rest ih =>
    intro st tr seen hI
    have hinv := C08_csptpcli_iter_invariant dl seq st e seen hI
    have htot := C08_csptpcli_iter_total dl seq st e hI.len
    have happ : seen ++ e :: rest = (seen ++ [e]) ++ rest := by simp
    unfold run
    cases hi : iter dl seq st e with
    | retry st1 log =>
      simp only
      have := ih st1 (tr ++ [log]) (seen ++ [e]) (hinv st1 (by rw [hi]; rfl))
      rw [happ]; exact this
    | next st1 =>
      simp only
      have := ih st1 tr (seen ++ [e]) (hinv st1 (by rw [hi]; rfl))
      rw [happ]; exact this
    | done st1 =>
      simp only
      refine ⟨(by intro c h; cases h), ?_⟩
      intro st' tr' h
      injection h with h1 h2
      subst h1
      have hI1 := hinv st1 (by rw [hi]; rfl)
      have hfl := C08_csptpcli_done_has_both dl seq st st1 e hI.len hi
      refine ⟨⟨hI1.len, ?_, ?_⟩, hfl.1, hfl.2⟩
      · intro h0; obtain ⟨x, hx, hg⟩ := hI1.s0 h0; exact ⟨x, by rw [happ]; exact List.mem_append_left _ hx, hg⟩
      · intro h1; obtain ⟨x, hx, hg⟩ := hI1.s1 h1; exact ⟨x, by rw [happ]; exact List.mem_append_left _ hx, hg⟩
    | fail err =>
      simp only
      exact ⟨(by intro c h; cases h), (by intro _ _ h; cases h)⟩
    | panic c =>
      have := htot.1
      rw [hi] at this
      cases this

theorem C08_csptpcli_start_length (seq : Nat) : (Loop.start seq).backing.length = maxMessageLength := by
  unfold Loop.start CsptpSrv.clientFollowUpBytes
  simp only
  rw [List.length_append, C14.msg_bytes_length, C14.req_bytes_length]
  rfl

/-- **C08 for the client, all histories.**  Whatever the network delivers — any byte strings of
    any length from any source in any order, read errors, truncation flags — the receive loop
    never panics: it ends with a complete pair, with an error, or is still waiting. -/
theorem C08_csptpcli_never_panics (dl : Bool) (seq : Nat) (evs : List Ev) :
    ∀ c, run dl seq (Loop.start seq) [] evs ≠ .panic c :=
  (C08_csptpcli_run_invariant dl seq evs (Loop.start seq) [] []
    ⟨C08_csptpcli_start_length seq, (by intro h; cases h), (by intro h; cases h)⟩).1

/-- **The client reports an offset only from a response pair matching its outstanding request.**
    If the loop completes on a history, then the history contains a datagram `e0` from the queried
    server's port 319 that is a 44-byte Sync with the outstanding sequence id and a datagram `e1`
    from its port 320 that is a Follow_Up with the outstanding sequence id and a response TLV of
    the right kind at its declared length, and what `MeasureClockOffset` returns is the evaluation
    (Model/CsptpClient.lean; exactness: Props/C18Client.lean) of exactly `e0`'s header, `e1`'s
    header and TLV, the client's own transmit timestamp and `e0`'s receive timestamp. -/
theorem C08_csptpcli_offset_only_from_matching_pair (dl : Bool) (seq : Nat) (evs : List Ev) (st : Loop) (tr : List String)
    (h : run dl seq (Loop.start seq) [] evs = .ok st tr) :
    ∃ e0 ∈ evs, ∃ e1 ∈ evs, GoodSync seq e0 st.m0 ∧ GoodFollowUp seq e1 st.m1 st.tlv ∧
      ∀ cTxTime0, report cTxTime0 st = evaluate cTxTime0 e0.rxt st.m0 st.m1 st.tlv ∧
        (report cTxTime0 st).timestamp = e0.rxt := by
  have := (C08_csptpcli_run_invariant dl seq evs (Loop.start seq) [] []
    ⟨C08_csptpcli_start_length seq, (by intro h; cases h), (by intro h; cases h)⟩).2 st tr h
  obtain ⟨hI, h0, h1⟩ := this
  obtain ⟨e0, hm0, hg0, hrx⟩ := hI.s0 h0
  obtain ⟨e1, hm1, hg1⟩ := hI.s1 h1
  rw [List.nil_append] at hm0 hm1
  refine ⟨e0, hm0, e1, hm1, hg0, hg1, ?_⟩
  intro t
  unfold report
  rw [hrx]
  exact ⟨rfl, rfl⟩

/-! ### progress -/

/-- **Progress.**  In ANY loop state — after any history that has not ended the loop, with any
    retry count, deadline or not — a genuine Sync followed by a genuine Follow_Up completes the
    pair without a failure record, and the Sync evaluated is the genuine one (with its receive
    timestamp); the Follow_Up evaluated is the genuine one unless an earlier genuine Follow_Up
    was already kept. -/
theorem C08_csptpcli_genuine_pair_completes (dl : Bool) (seq : Nat) (st : Loop) (tr : List String) (e0 e1 : Ev)
    (m0 m1 : Message) (t : ResponseTLV) (hb : st.backing.length = maxMessageLength)
    (h0 : GoodSync seq e0 m0) (h1 : GoodFollowUp seq e1 m1 t) :
    ∃ st', run dl seq st tr [e0, e1] = .ok st' tr ∧ st'.m0 = m0 ∧ st'.rx0 = e0.rxt ∧
      (st.ok1 = false → st'.m1 = m1 ∧ st'.tlv = t ∧ st'.rx1 = e1.rxt) := by
  obtain ⟨w0, rx0, b0, he0, hc0⟩ := C08_csptpcli_classify_of_goodSync h0 st.tlv
  subst he0
  have hb' : st.backing.length = CsptpSrv.maxMessageLength := hb
  unfold run
  rw [iter_dgram dl seq st w0 0 .event rx0 b0 hb, hc0]
  simp only [applyCls]
  rcases endOfBody_cases ((st.recv w0).keepSync rx0 m0) with ⟨h, _, hk1⟩ | ⟨h, hk⟩ <;> rw [h] <;> simp only
  · refine ⟨_, rfl, rfl, rfl, ?_⟩
    intro hf
    have : st.ok1 = true := hk1
    rw [hf] at this; cases this
  · obtain ⟨w1, rx1, b1, he1, hc1⟩ := C08_csptpcli_classify_of_goodFollowUp h1 st.tlv
    subst he1
    unfold run
    have hc1' : classify seq ((st.recv w0).keepSync rx0 m0).bump.tlv w1 0 .general = .followUp m1 t := hc1
    rw [iter_dgram dl seq _ w1 0 .general rx1 b1 (CsptpSrv.recvInto_length _ _ hb'), hc1']
    simp only [applyCls]
    exact ⟨_, rfl, rfl, rfl, fun _ => ⟨rfl, rfl, rfl⟩⟩

/-- …and in the other order (Follow_Up first), as a server whose two sockets race may deliver. -/
theorem C08_csptpcli_genuine_pair_completes_swapped (dl : Bool) (seq : Nat) (st : Loop) (tr : List String) (e0 e1 : Ev)
    (m0 m1 : Message) (t : ResponseTLV) (hb : st.backing.length = maxMessageLength)
    (h0 : GoodSync seq e0 m0) (h1 : GoodFollowUp seq e1 m1 t) :
    ∃ st', run dl seq st tr [e1, e0] = .ok st' tr ∧ st'.m1 = m1 ∧ st'.tlv = t ∧
      (st.ok0 = false → st'.m0 = m0 ∧ st'.rx0 = e0.rxt) := by
  obtain ⟨w1, rx1, b1, he1, hc1⟩ := C08_csptpcli_classify_of_goodFollowUp h1 st.tlv
  subst he1
  have hb' : st.backing.length = CsptpSrv.maxMessageLength := hb
  unfold run
  rw [iter_dgram dl seq st w1 0 .general rx1 b1 hb, hc1]
  simp only [applyCls]
  rcases endOfBody_cases ((st.recv w1).keepFollowUp t rx1 m1) with ⟨h, hk0, _⟩ | ⟨h, hk⟩ <;> rw [h] <;> simp only
  · refine ⟨_, rfl, rfl, rfl, ?_⟩
    intro hf
    have : st.ok0 = true := hk0
    rw [hf] at this; cases this
  · obtain ⟨w0, rx0, b0, he0, hc0⟩ := C08_csptpcli_classify_of_goodSync h0 t
    subst he0
    unfold run
    have hc0' : classify seq ((st.recv w1).keepFollowUp t rx1 m1).bump.tlv w0 0 .event = .sync m0 := hc0
    rw [iter_dgram dl seq _ w0 0 .event rx0 b0 (CsptpSrv.recvInto_length _ _ hb'), hc0']
    simp only [applyCls]
    exact ⟨_, rfl, rfl, rfl, fun _ => ⟨rfl, rfl⟩⟩

/-! ### agreement with the one-datagram model of Model/CsptpClient.lean -/

/-- 0 = failure path, 1 = Sync accepted, 2 = Follow_Up accepted, 3 = panic -/
def verdictKind : Verdict → Nat
  | .retry _ => 0
  | .acceptSync => 1
  | .acceptFollowUp => 2
  | .panicSlice => 3
def clsKind : Cls → Nat
  | .failed _ _ _ _ _ => 0
  | .sync _ => 1
  | .followUp _ _ => 2

/-- The loop's classification of a datagram and the verdict of `CsptpClient.onDatagram` (the model
    behind `C08_csptp_client_no_panic` and C18's `evaluateDatagrams`) agree on what is accepted,
    for every untruncated datagram read into any 98-byte buffer. -/
theorem C08_csptpcli_agrees_with_onDatagram (seq : Nat) (tlv0 : ResponseTLV) (backing wire : List Nat) (src : Src)
    (hb : backing.length = maxMessageLength) (hw : wire.length ≤ maxMessageLength) :
    verdictKind (onDatagram true (CsptpSrv.recvInto backing wire) wire.length (src == .event) (src == .general) seq) =
      clsKind (classify seq tlv0 wire 0 src) := by
  have hfl : CsptpSrv.recvFlags wire.length 0 = 0 := (CsptpSrv.recvFlags_zero_iff _ _).mpr ⟨hw, rfl⟩
  have hw' : wire.length ≤ 98 := hw
  have hmin : wire.length ≤ min wire.length CsptpSrv.maxMessageLength := by
    unfold CsptpSrv.maxMessageLength; omega
  unfold classify
  rw [if_neg (show ¬ CsptpSrv.recvFlags wire.length 0 ≠ 0 by omega)]
  unfold onDatagram
  by_cases hs : wire.length < minMessageLength
  · simp [hs, verdictKind, clsKind]
  · have h44 : minMessageLength ≤ wire.length := by omega
    simp only [Bool.true_and, decide_eq_true_eq, hs, ↓reduceIte]
    rw [CsptpSrv.recvInto_take _ _ _ (by omega), CsptpSrv.recvInto_take _ _ _ hmin, List.take_of_length_le (Nat.le_refl _)]
    rcases C14.msg_decode_total (wire.take minMessageLength) with ⟨_, hm⟩ | ⟨_, hm⟩
    · rw [hm]; rfl
    · rw [hm]
      simp only
      split
      · rfl
      · split
        · rfl
        · split
          · by_cases hz : wire.length - minMessageLength = 0 <;> cases src <;> simp [verdictKind, clsKind, hz]
          · split
            · cases src
              · simp [verdictKind, clsKind]
              · simp only [beq_self_eq_true, Bool.not_true, Bool.false_eq_true, ↓reduceIte, ne_eq, not_true_eq_false]
                rcases CsptpSrv.resp_decode_cases (wire.drop minMessageLength) with hd | ⟨t, hd⟩
                · have hdi : (decodeInto tlv0 (wire.drop minMessageLength)).2 = false := by
                    unfold decodeInto; rw [hd]; simp only; split <;> rfl
                  rw [hd, hdi]; rfl
                · rw [hd, decodeInto_of_ok hd]
                  simp only [Bool.not_true, Bool.false_eq_true, ↓reduceIte]
                  by_cases hk : isResponseKind t = true
                  · have hk' : ¬ (t.type ≠ tlvTypeOrganizationExtension ∨ t.organizationID ≠ orgIDMeinberg ∨
                        t.organizationSubType ≠ orgSubTypeResponse) := by
                      unfold isResponseKind at hk
                      simp only [Bool.and_eq_true, beq_iff_eq] at hk
                      rintro (h | h | h) <;> simp_all
                    have hk'' : ¬ (¬t.type = tlvTypeOrganizationExtension ∨ ¬t.organizationID = orgIDMeinberg ∨
                        ¬t.organizationSubType = orgSubTypeResponse) := hk'
                    rw [if_neg hk'']
                    simp only [hk, Bool.not_true, Bool.false_eq_true, ↓reduceIte]
                    split <;> rfl
                  · have hk' : (t.type ≠ tlvTypeOrganizationExtension ∨ t.organizationID ≠ orgIDMeinberg ∨
                        t.organizationSubType ≠ orgSubTypeResponse) := by
                      unfold isResponseKind at hk
                      simp only [Bool.and_eq_true, beq_iff_eq, not_and] at hk
                      by_cases h1 : t.type = tlvTypeOrganizationExtension
                      · by_cases h2 : t.organizationID = orgIDMeinberg
                        · exact .inr (.inr (hk ⟨h1, h2⟩))
                        · exact .inr (.inl h2)
                      · exact .inl h1
                    have hk'' : (¬t.type = tlvTypeOrganizationExtension ∨ ¬t.organizationID = orgIDMeinberg ∨
                        ¬t.organizationSubType = orgSubTypeResponse) := hk'
                    rw [if_pos hk'']
                    simp only [hk, Bool.not_false, ↓reduceIte]
                    rfl
              · simp [verdictKind, clsKind]
            · rfl

/-! ### the client against the listener of this commit -/

/-- a history in which nothing arrives: read errors only -/
def Silent (evs : List Ev) : Prop := ∀ e ∈ evs, ∃ b, e = .readErr b

/-- with nothing arriving the loop never completes -/
theorem C08_csptpcli_silence_never_completes (dl : Bool) (seq : Nat) : ∀ (evs : List Ev) (st : Loop) (tr : List String),
    Silent evs → st.ok0 = false → ∀ st' tr', run dl seq st tr evs ≠ .ok st' tr' := by
  intro evs
  induction evs with
  | nil => intro st tr _ _ st' tr' h; cases h
  | cons e rest ih =>
    intro st tr hs h0 st' tr' h
    obtain ⟨b, he⟩ := hs e (List.mem_cons_self)
    subst he
    unfold run at h
    rw [iter_readErr] at h
    rcases failPath_cases dl st b "read" logRead with ⟨h', _⟩ | ⟨h', _⟩ <;> rw [h'] at h <;> simp only at h
    · exact ih st.bump _ (fun e he => hs e (List.mem_cons_of_mem _ he)) h0 st' tr' h
    · cases h

/-- **End to end at this commit.**  The request pair the client sends is taken up by the listener
    (`C08CsptpSrv.C08_csptpsrv_client_request_taken_up`), the listener sends nothing
    (`C08_csptpsrv_never_panics_never_sends`), so the client's history is silent and
    `MeasureClockOffset` never reports an offset from this listener: it returns the read error
    once the deadline has passed.  (C18's formula clause through the real message flow therefore
    has no instance with the real listener; with a responder that fills in the timestamps it is
    `C18_client_offset_exact` composed with `C08_csptpcli_offset_only_from_matching_pair`.) -/
theorem C08_csptp_e2e_no_measurement_from_this_listener (dl : Bool) (seq : Nat) (evs : List Ev) (hs : Silent evs) :
    (∀ st tr, run dl seq (Loop.start seq) [] evs ≠ .ok st tr) ∧
    run dl seq (Loop.start seq) [] [.readErr false] = .err "read" [] :=
  ⟨C08_csptpcli_silence_never_completes dl seq evs _ _ hs rfl, by
    unfold run; rw [iter_readErr]; unfold failPath; simp⟩

/-! ### end to end with a responder that fills in the timestamps (C18's formula clause through the message flow) -/

/-- a Sync / Follow_Up pair as a correct server produces it for a client whose Sync left at `t0`:
    the server's clock is ahead by `θ`, the one-way delay is `d` both ways, the TLV reports the
    request's ingress `t0 + d + θ` plus its residence correction, and the Sync is received at
    `origin + d − θ` plus the corrections of both response messages -/
structure Physical (t0 d θ : Int) (e0 : Ev) (m0 m1 : Message) (tlv : ResponseTLV) : Prop where
  c0 : C18.InI64 m0.correctionField
  c1 : C18.InI64 m1.correctionField
  ct : C18.InI64 tlv.requestCorrectionField
  s1 : tlv.requestIngressTimestamp.seconds < 2^48
  s2 : m1.timestamp.seconds < 2^48
  fd : C18.Fits60 d
  fθ : C18.Fits60 θ
  ingress : C18.tsTime tlv.requestIngressTimestamp = t0 + d + θ + tlv.requestCorrectionField / 65536
  arrival : e0.rxt = C18.tsTime m1.timestamp + d - θ + (m0.correctionField / 65536 + m1.correctionField / 65536)

/-- **End to end.**  Whatever else the network delivers (older exchanges, foreign hosts, malformed
    and truncated datagrams, duplicates), if every genuine Sync / genuine Follow_Up combination of
    the history is physically consistent with a server ahead by `θ` behind a symmetric delay `d`,
    then a measurement that completes reports exactly `θ` (and evaluates the mean path delay as
    exactly `d`): the receive loop's matching (this file) composed with the evaluation's
    exactness (`C18_client_offset_exact`). -/
theorem C08_csptp_e2e_offset_exact (dl : Bool) (seq : Nat) (evs : List Ev) (st : Loop) (tr : List String)
    (t0 d θ : Int) (h : run dl seq (Loop.start seq) [] evs = .ok st tr)
    (hphys : ∀ e0 ∈ evs, ∀ e1 ∈ evs, ∀ m0 m1 tlv, GoodSync seq e0 m0 → GoodFollowUp seq e1 m1 tlv →
      Physical t0 d θ e0 m0 m1 tlv) :
    (report t0 st).clockOffset.toInt = θ ∧ (report t0 st).meanPathDelay.toInt = d := by
  obtain ⟨e0, h0, e1, h1, g0, g1, hr⟩ := C08_csptpcli_offset_only_from_matching_pair dl seq evs st tr h
  have p := hphys e0 h0 e1 h1 _ _ _ g0 g1
  rw [(hr t0).1]
  have := C18.C18_client_offset_exact t0 e0.rxt st.m0 st.m1 st.tlv d θ p.c0 p.c1 p.ct p.s1 p.s2 p.fd p.fθ p.ingress p.arrival
  exact ⟨this.1, this.2.1⟩

/-- non-vacuity of `Physical`: client transmit time 2023-11-14T22:13:20Z, θ = −3 ms, d = 250 µs, Sync
    correction 1 ns; the pair completes the loop and is measured exactly -/
def physSync : Message := { CsptpSrv.respSync 5 with correctionField := 65536 }
def physTLV : ResponseTLV :=
  { CsptpSrv.respTLV0 with length := 36, flagField := 0, requestIngressTimestamp := ⟨1699999999, 997250000⟩ }
def physFollowUp : Message := { CsptpSrv.respFollowUp 5 with messageLength := 80, timestamp := ⟨1699999999, 997260000⟩ }
def physHistory : List Ev :=
  [.dgram (messageBytes physSync) 0 .event 1700000000000510001 true,
   .dgram (messageBytes physFollowUp ++ responseTLVBytes physTLV) 0 .general 1700000000000600000 true]
example : Physical 1700000000000000000 250000 (-3000000) (.dgram (messageBytes physSync) 0 .event 1700000000000510001 true)
    physSync physFollowUp physTLV :=
  ⟨by unfold C18.InI64; decide, by unfold C18.InI64; decide, by unfold C18.InI64; decide, by decide, by decide,
    by unfold C18.Fits60; decide, by unfold C18.Fits60; decide, by decide, by decide⟩
example : (run true 5 (Loop.start 5) [] physHistory).kind = "ok" ∧
    (run true 5 (Loop.start 5) [] physHistory).state?.map (fun st => (report 1700000000000000000 st).clockOffset.toInt) = some (-3000000) ∧
    (run true 5 (Loop.start 5) [] physHistory).state?.map (fun st => (report 1700000000000000000 st).meanPathDelay.toInt) = some 250000 := by
  decide

/-! ### instances (non-vacuity) and the shapes the live run exercises -/

/-- a genuine pair for sequence id 5: Sync from 319, Follow_Up + 36-byte response TLV from 320 -/
def demoSync : List Nat := messageBytes { CsptpSrv.respSync 5 with correctionField := 65536 }
def demoTLV : ResponseTLV :=
  { CsptpSrv.respTLV0 with length := 36, flagField := 0, requestIngressTimestamp := ⟨1700000000, 250000⟩, utcOffset := 37 }
def demoFollowUp : List Nat :=
  messageBytes { CsptpSrv.respFollowUp 5 with messageLength := 80, timestamp := ⟨1700000000, 260000⟩ } ++ responseTLVBytes demoTLV

example : GoodSync 5 (.dgram demoSync 0 .event 1700000000000700000 true) { CsptpSrv.respSync 5 with correctionField := 65536 } :=
  ⟨demoSync, _, _, rfl, by decide, by decide, rfl, rfl, rfl⟩
example : GoodFollowUp 5 (.dgram demoFollowUp 0 .general 1700000000000800000 true)
    { CsptpSrv.respFollowUp 5 with messageLength := 80, timestamp := ⟨1700000000, 260000⟩ } demoTLV :=
  ⟨demoFollowUp, _, _, rfl, by decide, by decide, rfl, rfl, by decide, by decide, by decide, by decide⟩

/-- the pair completes the loop … -/
example : (run true 5 (Loop.start 5) [] [.dgram demoSync 0 .event 1700000000000700000 true,
    .dgram demoFollowUp 0 .general 1700000000000800000 true]).kind = "ok" := by decide

/-- responses to an OLDER sequence id (4), a Sync from the general port, a Follow_Up from a
    foreign host, a request-typed TLV and a short datagram are skipped (five records — the
    fourth iteration happens to be an accepted Sync), the genuine pair is then still accepted -/
def demoHistory : List Ev :=
    [.dgram (messageBytes (CsptpSrv.respSync 4)) 0 .event 1 true,
     .dgram demoSync 0 .general 2 true,
     .dgram demoFollowUp 0 .other 3 true,
     .dgram demoSync 0 .event 4 true,
     .dgram (CsptpSrv.clientFollowUpBytes 5) 0 .general 5 true,
     .dgram [8, 0, 0, 10, 0, 0, 0, 0, 0, 0] 0 .general 6 true,
     .dgram demoFollowUp 0 .general 7 true]
example : (run true 5 (Loop.start 5) [] demoHistory).kind = "ok" ∧
    (run true 5 (Loop.start 5) [] demoHistory).trace = [logUnexpected, logSource, logSource, logUnexpected, logStructure] ∧
    (run true 5 (Loop.start 5) [] demoHistory).state?.map (·.rx0) = some 4 := by decide

/-- a foreign copy of the Sync CLEARS the kept Sync (`respmsg0Ok = false` comes before the source
    check): the exchange then stays incomplete although both genuine halves arrived -/
def demoReset : List Ev :=
    [.dgram demoSync 0 .event 1 true, .dgram demoSync 0 .other 2 true, .dgram demoFollowUp 0 .general 3 true]
example : (run true 5 (Loop.start 5) [] demoReset).kind = "pending" ∧ (run true 5 (Loop.start 5) [] demoReset).trace = [logSource] ∧
    (run true 5 (Loop.start 5) [] demoReset).state?.map (fun st => (st.ok0, st.ok1)) = some (false, true) := by decide

/-- the fourth iteration is fatal; without a deadline the first failure is -/
example : run true 5 (Loop.start 5) [] (List.replicate 4 (.dgram [1, 2, 3] 0 .event 0 true)) =
    .err "packet" [logStructure, logStructure, logStructure] := by decide
example : run false 5 (Loop.start 5) [] [.dgram [1, 2, 3] 0 .event 0 true] = .err "packet" [] := by decide

/-- silence until the deadline has passed: the read error is returned -/
example : run true 5 (Loop.start 5) [] [.readErr false] = .err "read" [] := by decide

end ScionTime.C08CsptpCli
