/-
  Props/C19GenClock.lean — the regenerated `(*Pll).Do` (Gen/Leaf.lean) driving the clock object.

  The PLL side is the code as it is in /repo now (`adjustments_Pll_Do`). The clock side is the
  hand-written model `Model/SysClock.lean` in the first part and — since the eighth generation of
  the leaf translator reads `Epoch/Step/Adjust`, the `clock_adjtime` wrappers and the expiry
  goroutine (Gen/LeafClocks.lean, Props/LeafC19Clock.lean) — THE REGENERATED CLOCK in the last part
  (`C19_gen_clock_call`, `C19_gen_clock_epoch`, `C19_gen_product_clock`): every `Step`/`Adjust` the
  regenerated `Do` records, executed by the regenerated method on the regenerated clock, is the
  product model's `PllClock.call`, with the system calls (the `Timex` values) it stands for.

  `C19_gen_product`: running the generated `Do` with `l.clk.Epoch()` = the clock object's epoch and
  executing its recorded `Step`/`Adjust` calls on the clock model IS `PllClock.update` of the
  product model; the two restart theorems of Props/C19Clock.lean follow for the generated code.
-/
import ScionTime.Props.C19Gen
import ScionTime.Props.C19Clock
import ScionTime.Props.LeafC19Clock
namespace ScionTime.Props.C19Gen
open ScionTime ScionTime.F64 ScionTime.Pll ScionTime.Gen.Leaf ScionTime.LeafTieC19 ScionTime.Props.C19

/-- what `l.clk.Epoch()` returns on the clock object `c` -/
def clkEpoch (c : SysClock.State) : UInt64 := UInt64.ofNat (SysClock.epoch c)

theorem clkEpoch_toNat {c : SysClock.State} (h : c.epoch ≤ SysClock.maxU64) :
    (clkEpoch c).toNat = SysClock.epoch c := by
  unfold clkEpoch SysClock.epoch
  unfold SysClock.maxU64 at h
  rw [UInt64.toNat_ofNat']
  omega

/-- The generated `Do` on the clock object: its result determines `PllClock.update` of the product
    model — a panic of the generated code is a PLL panic of the product; otherwise the product
    executes exactly the recorded calls, in order, on the clock. -/
theorem C19_gen_product (l : S_Pll) (c : SysClock.State) (hc : c.epoch ≤ SysClock.maxU64)
    (now : Int) (off : Int64) (w pw : F64) :
    match genDo l off w (clkEpoch c) now pw with
    | none => ∃ k, PllClock.update { pll := pl l, clk := c } now off.toInt w pw = .pllPanic k
    | some (l', acts) =>
      PllClock.update { pll := pl l, clk := c } now off.toInt w pw =
        PllClock.calls (pl l) (pl l') c [] (acts.map act) := by
  cases hd : genDo l off w (clkEpoch c) now pw with
  | none =>
    obtain ⟨k, hk⟩ := doCall_none (x := ⟨clkEpoch c, now, off, w, pw⟩) hd
    simp only [stepIn, Call.toIn, clkEpoch_toNat hc] at hk
    exact ⟨k, by simp only [PllClock.update, hk]⟩
  | some r =>
    obtain ⟨l', acts⟩ := r
    have hs := doCall_some (x := ⟨clkEpoch c, now, off, w, pw⟩) hd
    simp only [stepIn, Call.toIn, clkEpoch_toNat hc] at hs
    simp only [PllClock.update, hs]

/-- The code's own `Step` on the clock object: it returns, the clock's epoch is the PLL's epoch + 1,
    and the NEXT call of the generated `Do` — whatever its inputs — restarts: mode 1, `t0 = now`,
    no call on the clock. -/
theorem C19_gen_product_own_step_restarts (l l' : S_Pll) (c : SysClock.State)
    (hov : c.epoch < SysClock.maxU64) (now : Int) (off : Int64) (w pw : F64)
    (acts : List Go.ClkAction) (x : Int64)
    (h : genDo l off w (clkEpoch c) now pw = some (l', acts))
    (hx : Go.ClkAction.step x ∈ acts) :
    ∃ c', PllClock.calls (pl l) (pl l') c [] (acts.map act) =
        .ok { pll := pl l', clk := c' } (SysClock.cancelActs c ++ [.setOffset x.toInt]) ∧
      SysClock.epoch c' = SysClock.epoch c + 1 ∧ c'.adjustment = none ∧
      ∀ (now' : Int) (off' : Int64) (w' pw' : F64),
        genDo l' off' w' (clkEpoch c') now' pw' =
          some ({ l' with epoch := clkEpoch c', mode := 1, t0 := now', t := now' }, []) := by
  have hc : c.epoch ≤ SysClock.maxU64 := by omega
  have hs := doCall_some (x := ⟨clkEpoch c, now, off, w, pw⟩) h
  simp only [stepIn, Call.toIn, clkEpoch_toNat hc] at hs
  obtain ⟨c', hup, hep, hadj, hpe, _⟩ :=
    C19_product_own_step_restarts { pll := pl l, clk := c } now off.toInt w pw (pl l') (acts.map act) x.toInt
      (off_range off) hov hs (mem_step hx)
  have hprod := C19_gen_product l c hc now off w pw
  rw [h] at hprod
  simp only at hprod
  rw [hprod] at hup
  refine ⟨c', hup, hep, hadj, ?_⟩
  intro now' off' w' pw'
  apply C19_gen_epoch_restarts
  intro heq
  have hc' : c'.epoch ≤ SysClock.maxU64 := by
    have : c'.epoch = c.epoch + 1 := hep
    omega
  have h1 : (clkEpoch c').toNat = SysClock.epoch c + 1 := by rw [clkEpoch_toNat hc', hep]
  have h2 : l'.epoch.toNat = SysClock.epoch c := hpe
  rw [heq, h2] at h1
  omega

/-- A `Step` by ANY user of the shared clock object between two calls (any history of clock calls
    and goroutine expiries containing a `Step` that returned) makes the next call of the generated
    `Do` restart. -/
theorem C19_gen_product_external_step_restarts (l : S_Pll) (c : SysClock.State) (ops : List SysClock.Op)
    (hsync : l.epoch = clkEpoch c) (hc : c.epoch ≤ SysClock.maxU64)
    (hfin : (SysClock.final c ops).epoch ≤ SysClock.maxU64)
    (hstep : 1 ≤ SysClock.okSteps c ops) (now : Int) (off : Int64) (w pw : F64) :
    genDo l off w (clkEpoch (SysClock.final c ops)) now pw =
      some ({ l with epoch := clkEpoch (SysClock.final c ops), mode := 1, t0 := now, t := now }, []) := by
  apply C19_gen_epoch_restarts
  intro heq
  have h1 : (clkEpoch (SysClock.final c ops)).toNat = SysClock.epoch (SysClock.final c ops) :=
    clkEpoch_toNat hfin
  rw [heq, hsync, clkEpoch_toNat hc, C19_clock_epoch_counts_steps] at h1
  omega

/-- non-vacuity: start-up of the generated code on the clock object — the third call steps by 5 ms,
    the clock's epoch becomes 1, and the fourth call (epoch 1 ≠ the PLL's 0) restarts. -/
example :
    let w := ofInt 10
    let l1 := next gInit (genDo gInit 5000000 w (clkEpoch SysClock.init) 100000000000 fzero)
    let r2 := genDo l1 5000000 w (clkEpoch SysClock.init) 102000000001 fzero
    let l2 := next l1 r2
    let c2 : SysClock.State := { SysClock.init with epoch := 1 }
    r2.map (·.2) = some [.step 5000000] ∧
    PllClock.calls (pl l1) (pl l2) SysClock.init [] [.step 5000000] = .ok { pll := pl l2, clk := c2 } [.setOffset 5000000] ∧
    (genDo l2 5000000 w (clkEpoch c2) 108000000002 fzero).map (fun r => (r.1.mode, r.1.epoch, r.2)) =
      some (1, 1, []) := by decide +kernel

/-! ## the regenerated PLL on the regenerated clock -/

open ScionTime.LeafTieC19Clock in
/-- one recorded clock call of `Do`, executed by the regenerated method (both `clock_adjtime` calls
    succeed) -/
def genCall (c : S_SystemClock) (w : Go.World) : Go.ClkAction → Go.Out (S_SystemClock × Go.World)
  | .step o => clocks_SystemClock_Step c o w false false
  | .adjust o d f => clocks_SystemClock_Adjust c o d f w false

open ScionTime.LeafTieC19Clock in
/-- what `l.clk.Epoch()` returns on the regenerated clock is what the product model reads -/
theorem C19_gen_clock_epoch (c : S_SystemClock) (w : Go.World) (p : List SysClock.Adj) :
    clkEpoch (sc c w p) = clocks_SystemClock_Epoch c := by
  unfold clkEpoch SysClock.epoch sc clocks_SystemClock_Epoch
  simp

open ScionTime.LeafTieC19Clock in
/-- **Every clock call the regenerated `Do` records, executed by the regenerated clock method, is the
    product model's call**: same clock state afterwards (for the list of started goroutines the model
    keeps), the same system actions — as the `clock_adjtime` arguments `enc` spells out — appended to
    the world, and a panic exactly when the model's call panics. -/
theorem C19_gen_clock_call (c : S_SystemClock) (w : Go.World) (p : List SysClock.Adj) (a : Go.ClkAction) :
    match PllClock.call (sc c w p) (act a) with
    | .ok s acts => ∃ c' w', genCall c w a = .ok (c', w') ∧ sc c' w' s.pending = s ∧
        w'.acts = w.acts ++ acts.flatMap enc
    | .panic _ _ _ => ∃ m, genCall c w a = .panic m := by
  cases a with
  | step o =>
    have h := C19_leaf_clock_Step c o w p
    simp only [PllClock.call, act, genCall]
    cases hm : SysClock.step (sc c w p) o.toInt with
    | ok s acts =>
      rw [hm] at h
      obtain ⟨c', w', h1, h2, h3⟩ := h
      have hp : s.pending = p := by rw [← h2]; rfl
      exact ⟨c', w', h1, by rw [hp]; exact h2, h3⟩
    | panic k s acts => rw [hm] at h; exact ⟨_, h⟩
  | adjust o d f =>
    have h := C19_leaf_clock_Adjust c o d f w p
    simp only [PllClock.call, act, genCall]
    cases hm : SysClock.adjust (sc c w p) o.toInt d.toInt f with
    | ok s acts =>
      rw [hm] at h
      obtain ⟨c', w', a, h1, h2, h3, h4⟩ := h
      exact ⟨c', w', h1, by rw [h2]; exact h3, h4⟩
    | panic k s acts => rw [hm] at h; exact ⟨_, h⟩

open ScionTime.LeafTieC19Clock in
/-- `C19_gen_product` with the regenerated clock on the clock side: the regenerated `Do`, reading the
    regenerated `Epoch()`, determines the product model's update on the view `sc c w p` of that
    clock. -/
theorem C19_gen_product_clock (l : S_Pll) (c : S_SystemClock) (wd : Go.World) (p : List SysClock.Adj)
    (now : Int) (off : Int64) (w pw : F64) :
    match genDo l off w (clocks_SystemClock_Epoch c) now pw with
    | none => ∃ k, PllClock.update { pll := pl l, clk := sc c wd p } now off.toInt w pw = .pllPanic k
    | some (l', acts) =>
      PllClock.update { pll := pl l, clk := sc c wd p } now off.toInt w pw =
        PllClock.calls (pl l) (pl l') (sc c wd p) [] (acts.map act) := by
  have hc : (sc c wd p).epoch ≤ SysClock.maxU64 := by
    have := UInt64.toNat_lt c.epoch
    simp only [sc, SysClock.maxU64]; omega
  rw [← C19_gen_clock_epoch c wd p]
  exact C19_gen_product l (sc c wd p) hc now off w pw

/-- all clock calls one `Do` records, executed in order by the regenerated methods -/
def genCalls (c : S_SystemClock) (w : Go.World) : List Go.ClkAction → Go.Out (S_SystemClock × Go.World)
  | [] => .ok (c, w)
  | a :: rest => (genCall c w a).bind fun r => genCalls r.1 r.2 rest

open ScionTime.LeafTieC19Clock in
/-- **The regenerated PLL driving the regenerated clock**: executing the calls a `Do` recorded, in
    order, on the regenerated clock IS `PllClock.calls` of the product model — the same clock state,
    and the world has received exactly the system actions (`clock_adjtime` arguments, goroutine starts)
    the model's actions stand for, in the same order; a panic of a clock method exactly when the
    product panics there. -/
theorem C19_gen_clock_calls (before after : Pll.State) :
    ∀ (acts : List Go.ClkAction) (c : S_SystemClock) (w : Go.World) (p : List SysClock.Adj)
      (done : List SysClock.Action),
      match PllClock.calls before after (sc c w p) done (acts.map act) with
      | .ok s out => ∃ c' w' more, genCalls c w acts = .ok (c', w') ∧ sc c' w' s.clk.pending = s.clk ∧
          s.pll = after ∧ out = done ++ more ∧ w'.acts = w.acts ++ more.flatMap enc
      | .clockPanic _ _ _ => ∃ m, genCalls c w acts = .panic m
      | .pllPanic _ => False := by
  intro acts
  induction acts with
  | nil =>
    intro c w p done
    show ∃ c' w' more, genCalls c w [] = .ok (c', w') ∧ sc c' w' (sc c w p).pending = sc c w p ∧
      after = after ∧ done = done ++ more ∧ w'.acts = w.acts ++ more.flatMap enc
    exact ⟨c, w, [], rfl, rfl, rfl, by simp, by simp⟩
  | cons x rest ih =>
    intro c w p done
    have h := C19_gen_clock_call c w p x
    simp only [List.map_cons, PllClock.calls, genCalls]
    cases hc : PllClock.call (sc c w p) (act x) with
    | ok s1 acts1 =>
      rw [hc] at h
      obtain ⟨c1, w1, hg, hs1, hw1⟩ := h
      simp only [hg, Go.Out.bind]
      have ih' := ih c1 w1 s1.pending (done ++ acts1)
      rw [hs1] at ih'
      cases hr : PllClock.calls before after s1 (done ++ acts1) (rest.map act) with
      | ok s out =>
        rw [hr] at ih'
        obtain ⟨c', w', more, h1, h2, h3, h4, h5⟩ := ih'
        refine ⟨c', w', acts1 ++ more, h1, h2, h3, ?_, ?_⟩
        · rw [h4, List.append_assoc]
        · rw [h5, hw1, List.flatMap_append, List.append_assoc]
      | clockPanic k s out => rw [hr] at ih'; exact ih'
      | pllPanic k => rw [hr] at ih'; exact ih'
    | panic k s1 acts1 =>
      rw [hc] at h
      obtain ⟨m, hm⟩ := h
      exact ⟨m, by simp only [hm, Go.Out.bind]⟩

/-- non-vacuity: the 5 ms step the regenerated PLL records, executed by the regenerated `Step` on a
    fresh regenerated clock: one `clock_adjtime` in nanosecond mode with `{0 s, 5000000 ns}`, epoch 1 -/
example : (match genCall LeafTieC19Clock.c0 LeafTieC19Clock.w0 (.step 5000000) with
    | .ok (c, w) => some (c.epoch, w.acts)
    | _ => none) = some (1, [.clockAdjtime 0 { Modes := 0x2100, Time := (0, 5000000) }]) := by
  decide +kernel

end ScionTime.Props.C19Gen
