import ScionTime.Model.Nts
namespace ScionTime.C14Nts
end ScionTime.C14Nts
