/-
  C14 (fragment) — NTS extension fields and server cookies: encoding then decoding returns the
  same value, each extension field decodes as the kind that was encoded, everything is 4-byte
  aligned. Models: ScionTime/Model/Nts.lean, Cookies.lean (net/nts/nts.go, net/ntske/cookies.go).
-/
import ScionTime.Proofs.NtsEnc
import ScionTime.Proofs.CookieCodec
import ScionTime.Gen.Nts
import ScionTime.Gen.Ntske
namespace ScionTime.C14Nts
open ScionTime.Nts

/-! Pins: the model's constants are those of the repository's current source. -/
theorem C14Nts_pin_extUniqueIdentifier : Gen.Nts.extUniqueIdentifier = (extUniqueIdentifier : Int) := by decide
theorem C14Nts_pin_extCookie : Gen.Nts.extCookie = (extCookie : Int) := by decide
theorem C14Nts_pin_extCookiePlaceholder : Gen.Nts.extCookiePlaceholder = (extCookiePlaceholder : Int) := by decide
theorem C14Nts_pin_extAuthenticator : Gen.Nts.extAuthenticator = (extAuthenticator : Int) := by decide
theorem C14Nts_pin_ntpPacketLen : Gen.Nts.ntpPacketLen = (ntpPacketLen : Int) := by decide
theorem C14Nts_pin_MaxPacketLen : Gen.Nts.MaxPacketLen = (maxPacketLen : Int) := by decide
theorem C14Nts_pin_cookieTypes :
    Gen.Ntske.cookieTypeAlgorithm = (cookieTypeAlgorithm : Int) ∧ Gen.Ntske.cookieTypeKeyS2C = (cookieTypeKeyS2C : Int) ∧
    Gen.Ntske.cookieTypeKeyC2S = (cookieTypeKeyC2S : Int) ∧ Gen.Ntske.cookieTypeKeyID = (cookieTypeKeyID : Int) ∧
    Gen.Ntske.cookieTypeNonce = (cookieTypeNonce : Int) ∧ Gen.Ntske.cookieTypeCiphertext = (cookieTypeCiphertext : Int) := by
  decide

/-- `ServerCookie`: Decode (Encode c) = c for every algorithm value and keys below 64 KiB
    (the length fields are 16 bit). -/
theorem C14Nts_serverCookie_roundtrip (c : Triple)
    (hn : c.num < 65536) (hx : c.x.length < 65536) (hy : c.y.length < 65536) :
    scDecode (scEncode c) = .ok c :=
  decodeTLV_encodeTLV true _ _ _ c (by decide) (by decide) (by decide) (by decide) (by decide) (by decide) hn hx hy

/-- `EncryptedServerCookie`: Decode (Encode c) = c. -/
theorem C14Nts_encryptedCookie_roundtrip (c : Triple)
    (hn : c.num < 65536) (hx : c.x.length < 65536) (hy : c.y.length < 65536) :
    ecDecode (ecEncode c) = .ok c :=
  decodeTLV_encodeTLV true _ _ _ c (by decide) (by decide) (by decide) (by decide) (by decide) (by decide) hn hx hy

/-- Beyond 16-bit lengths the encoder truncates the length field (`uint16(len(..))`): the
    hypothesis of the round trip is needed — a 65536-byte key encodes with length 0. -/
theorem C14Nts_cookie_length_field_wraps (c : Triple) (h : c.x.length = 65536) :
    (scEncode c).drop 8 = be16 0 ++ (c.x ++ (be16 cookieTypeKeyC2S ++ (be16 (c.y.length % 65536) ++ c.y))) := by
  simp [scEncode, encodeTLV, be16, h]

/-- Kind preservation and exact inverse for whole packets: for every AEAD with SIV's size law,
    every 48-byte header, every well-formed packet (identifier ≥ 32 bytes, lengths multiples of 4)
    that fits `MaxPacketLen`, `EncodePacket` succeeds and `DecodePacket` of its output returns the
    same identifier, the same cookies *as cookies*, the placeholders *as placeholders* (count; their
    content is dropped by `unpack`), the nonce and ciphertext written, and the authenticator's
    position = everything encoded before it. -/
theorem C14Nts_ext_kind_preserved (A : AEAD) (hs : A.Sized) (hdr : Bytes) (p : Packet) (nonce : Bytes)
    (hh : hdr.length = ntpPacketLen) (wf : WellFormed p) (fit : packetLen p ≤ maxPacketLen)
    (hn : nonce.length = 16) :
    ∃ b, encodePacket A hdr p nonce = .ok b ∧
      decodePacket b = .ok
        { uid := p.uid, cookies := p.cookies, nph := p.placeholders.length, nonce := nonce,
          ct := A.sealF p.key nonce p.pt (some (adOf true hdr p)), pos := (adOf true hdr p).length } := by
  obtain ⟨b, he, _, hd⟩ := encode_decode A hs hdr p nonce hh wf fit hn
  exact ⟨b, he, hd⟩

/-- Alignment: every extension field starts at a multiple of 4 and the packet length is a
    multiple of 4 — for *all* value lengths (padding), whenever the packet fits. Stated on the
    field sizes the encoder writes (`4 + pad4 len`). -/
theorem C14Nts_alignment (uidLen : Nat) (fieldLens : List Nat) (ctLen : Nat) :
    encodedLen uidLen fieldLens ctLen % 4 = 0 := by
  have hsum : ∀ l : List Nat, (l.map fun c => 4 + pad4 c).sum % 4 = 0 := by
    intro l
    induction l with
    | nil => rfl
    | cons c cs ih => have := pad4_mod c; simp only [List.map_cons, List.sum_cons]; omega
  have h1 := pad4_mod uidLen
  have h2 := pad4_mod ctLen
  have h3 := hsum fieldLens
  unfold encodedLen ntpPacketLen
  omega

/-- …and the encoder's output has exactly that length (well-formed packets, no padding needed). -/
theorem C14Nts_encoded_length (A : AEAD) (hs : A.Sized) (hdr : Bytes) (p : Packet) (nonce b : Bytes)
    (hh : hdr.length = ntpPacketLen) (wf : WellFormed p) (fit : packetLen p ≤ maxPacketLen)
    (hn : nonce.length = 16) (he : encodePacket A hdr p nonce = .ok b) :
    b.length = packetLen p ∧ b.length % 4 = 0 := by
  have e := encode_eq true A hs hdr p nonce hh wf fit hn
  have hct := hs p.key nonce p.pt (some (adOf true hdr p))
  have hal := adOf_length true hdr p
  unfold encodePacket at he
  rw [e] at he
  injection he with he
  subst he
  have hl : (adOf true hdr p ++ authField nonce (A.sealF p.key nonce p.pt (some (adOf true hdr p)))).length = packetLen p := by
    simp [hct, hn, hal, packetLen, hh]; omega
  refine ⟨hl, ?_⟩
  rw [hl]
  have hsum : ∀ l : List Bytes, Aligned l → fieldsLen l % 4 = 0 := by
    intro l
    induction l with
    | nil => intro _; rfl
    | cons c cs ih =>
      intro ha
      have h1 := ha c (by simp)
      have h2 := ih (fun w hw => ha w (by simp [hw]))
      simp only [fieldsLen]; omega
  have a1 := hsum _ wf.cA
  have a2 := hsum _ wf.pA
  have a3 := wf.uidA
  have a4 := wf.ptA
  unfold packetLen ntpPacketLen
  omega

/-! A concrete instance meeting all hypotheses (so the theorems are not vacuous), and the
    behaviour of the pinned commit (F5): placeholders were written with the cookie type. -/

/-- a toy AEAD with the size law: tag = 16 zero bytes -/
def toyAEAD : AEAD where
  sealF _ _ p _ := p ++ zeros 16
  openF _ _ c _ := some (c.take (c.length - 16))

example : toyAEAD.Sized ∧ toyAEAD.Lawful :=
  ⟨by intro k n p ad; simp [toyAEAD], by intro k n p ad; simp [toyAEAD]⟩

def samplePacket : Packet :=
  { uid := zeros 32, cookies := [List.replicate 24 7], placeholders := [zeros 24], key := zeros 32, pt := [] }

example : WellFormed samplePacket ∧ packetLen samplePacket ≤ maxPacketLen := by
  refine ⟨⟨by decide, by decide, ?_, ?_, by decide, by decide⟩, by decide⟩ <;>
    (intro v hv; simp [samplePacket] at hv; subst hv; decide)

set_option maxRecDepth 20000 in
/-- F5 at the pinned commit: the packet with one cookie and one placeholder decodes as two
    cookies and no placeholder… -/
theorem C14Nts_placeholder_kind_old :
    (encodePacketOld toyAEAD (zeros 48) samplePacket (zeros 16) >>= decodePacket).bind
      (fun d => .ok (d.cookies.length, d.nph)) = .ok (2, 0) := by decide

set_option maxRecDepth 20000 in
/-- …and after the fix as one cookie and one placeholder. -/
theorem C14Nts_placeholder_kind_sample :
    (encodePacket toyAEAD (zeros 48) samplePacket (zeros 16) >>= decodePacket).bind
      (fun d => .ok (d.cookies.length, d.nph)) = .ok (1, 1) := by decide

end ScionTime.C14Nts
