/-
  C02 — fault-tolerant midpoint and median stay within the correct values.
  Models: ScionTime/Model/Timemath.lean, ScionTime/Model/Measurements.lean;
  helper lemmas: ScionTime/Proofs/Sort.lean.
-/
import ScionTime.Model.Timemath
import ScionTime.Model.Measurements
import ScionTime.Proofs.Sort
import ScionTime.Proofs.MeasSort
import ScionTime.Gen.Timemath
import ScionTime.Gen.Measurements
namespace ScionTime.C02
open ScionTime.Timemath

/-- `|v| < 2^62` (about 146 years in nanoseconds). -/
def Small (v : Int64) : Prop := -4611686018427387904 < v.toInt ∧ v.toInt < 4611686018427387904

/-! ### Pins: the literals inside the Go function bodies (regenerated from /repo on every
run by harness/extract/x_c02c18.go) are the ones the model computes with. -/

/-- `f := (n - 1) / 3` in `timemath.FaultTolerantMidpoint` is the model's index. -/
theorem C02_pin_ftm_index (s : List Int64) :
    ftmSorted s =
      midpoint (s.getD ((s.length - Gen.Timemath.ftmIndexSub.toNat) / Gen.Timemath.ftmIndexDiv.toNat) 0)
        (s.getD (s.length - 1 - (s.length - Gen.Timemath.ftmIndexSub.toNat) / Gen.Timemath.ftmIndexDiv.toNat) 0) := rfl

/-- the same line in `measurements.FaultTolerantMidpoint` -/
theorem C02_pin_meas_ftm_index (s : List Measurements.M) :
    Measurements.ftmSel s =
      Measurements.midpointM
        (s.getD ((s.length - Gen.Measurements.ftmIndexSub.toNat) / Gen.Measurements.ftmIndexDiv.toNat) Measurements.zeroM)
        (s.getD (s.length - 1 - (s.length - Gen.Measurements.ftmIndexSub.toNat) / Gen.Measurements.ftmIndexDiv.toNat)
          Measurements.zeroM) := rfl

/-- `(y-x)/2` in `Midpoint` / `midpoint`, `n / 2` and `n % 2` in `Median`. -/
theorem C02_pin_divisors :
    Gen.Timemath.midpointDiv = 2 ∧ Gen.Measurements.midpointDiv = 2 ∧
    Gen.Timemath.medianIndexDiv = 2 ∧ Gen.Timemath.medianParityMod = 2 := by decide

/-! ### Sgn, Inv, Midpoint -/

theorem C02_sgn_spec (d : Int64) : sgn d = Int.sign d.toInt := by
  unfold sgn
  have h0 : (0 : Int64).toInt = 0 := by decide
  split
  · rename_i h; rw [Int64.lt_iff_toInt_lt, h0] at h
    exact (Int.sign_eq_neg_one_of_neg h).symm
  · split
    · rename_i _ h; rw [gt_iff_lt, Int64.lt_iff_toInt_lt, h0] at h
      exact (Int.sign_eq_one_of_pos h).symm
    · rename_i h1 h2
      rw [Int64.lt_iff_toInt_lt, h0] at h1
      rw [gt_iff_lt, Int64.lt_iff_toInt_lt, h0] at h2
      have : d.toInt = 0 := by omega
      rw [this]; rfl

/-- `Inv` negates exactly, except that `MinInt64` (whose negation does not exist) maps to
    `MaxInt64`; it never returns `MinInt64`'s wrap-around. -/
theorem C02_inv_spec (d : Int64) :
    (d ≠ Int64.minValue → (inv d).toInt = - d.toInt) ∧ inv Int64.minValue = Int64.maxValue := by
  refine ⟨?_, by decide⟩
  intro h
  unfold inv
  rw [if_neg h, Int64.toInt_neg]
  have h1 := Int64.le_toInt d
  have h2 := Int64.toInt_lt d
  have h3 : d.toInt ≠ -2 ^ 63 := by
    intro he; apply h; apply Int64.toInt_inj.mp; rw [he, Int64.toInt_minValue]
  apply Int.bmod_eq_of_le <;> omega

/-- no_overflow (midpoint): for `|x|, |y| < 2^62` the int64 computation `x + (y-x)/2` equals
    the unbounded one. -/
theorem C02_midpoint_exact (x y : Int64) (hx : Small x) (hy : Small y) :
    (midpoint x y).toInt = midZ x.toInt y.toInt :=
  midpoint_toInt x y hx.1 hx.2 hy.1 hy.2

/-- The bound is needed: at `MinInt64, MaxInt64` the int64 midpoint is `MinInt64`, the
    true one is `-1`; and it is tight: at `∓2^62` the int64 midpoint `-2^63` lies outside
    `[x, y]`. -/
theorem C02_midpoint_overflow_witness :
    (midpoint Int64.minValue Int64.maxValue).toInt = -9223372036854775808 ∧
    midZ Int64.minValue.toInt Int64.maxValue.toInt = -1 ∧
    (midpoint (-4611686018427387904) 4611686018427387904).toInt = -9223372036854775808 ∧
    midZ (-4611686018427387904) 4611686018427387904 = 0 := by decide

/-! ### The slice after the call -/

/-- sort_perm: after `FaultTolerantMidpoint(ds)` / `Median(ds)` the caller's slice is a sorted
    permutation of what it was (elements are only reordered). -/
theorem C02_ftm_post_sorted_perm (ds post : List Int64) (v : Int64) (h : ftm ds = some (v, post)) :
    post.Perm ds ∧ SortedBy Int64.toInt post := by
  unfold ftm at h
  split at h
  · cases h
  · simp only [Option.some.injEq, Prod.mk.injEq] at h
    rw [← h.2]
    exact ⟨sortBy_perm _ _, sortBy_sorted _ _⟩

theorem C02_median_post_sorted_perm (ds post : List Int64) (v : Int64) (h : median ds = some (v, post)) :
    post.Perm ds ∧ SortedBy Int64.toInt post := by
  unfold median at h
  split at h
  · cases h
  · simp only [Option.some.injEq, Prod.mk.injEq] at h
    rw [← h.2]
    exact ⟨sortBy_perm _ _, sortBy_sorted _ _⟩

/-- The sorted permutation is unique: whatever correct sorting algorithm `slices.Sort` is, it
    leaves exactly the slice the model's insertion sort computes. -/
theorem C02_sort_unique (ds post : List Int64) (hp : post.Perm ds) (hs : SortedBy Int64.toInt post) :
    post = sort64 ds := sort64_unique hp hs

/-- The calls panic exactly on the empty slice. -/
theorem C02_panic_iff_empty (ds : List Int64) :
    (ftm ds = none ↔ ds = []) ∧ (median ds = none ↔ ds = []) := by
  unfold ftm median
  cases ds <;> simp

/-! ### Permutation invariance -/

/-- ftm_perm: result and post-call slice do not depend on the order of the inputs. -/
theorem C02_ftm_perm (ds₁ ds₂ : List Int64) (hp : ds₁.Perm ds₂) : ftm ds₁ = ftm ds₂ := by
  unfold ftm
  rw [sort64_perm_eq hp]
  have : ds₁.isEmpty = ds₂.isEmpty := by
    cases ds₁ <;> cases ds₂ <;> simp_all
  rw [this]

/-- median_perm -/
theorem C02_median_perm (ds₁ ds₂ : List Int64) (hp : ds₁.Perm ds₂) : median ds₁ = median ds₂ := by
  unfold median
  rw [sort64_perm_eq hp]
  have : ds₁.isEmpty = ds₂.isEmpty := by
    cases ds₁ <;> cases ds₂ <;> simp_all
  rw [this]

end ScionTime.C02

namespace ScionTime.C02
open ScionTime.Timemath

/-! ### Containment -/

/-- Tagged offsets: `(value, faulty?)`.  Tagging positions rather than values means a value
    that occurs both as a correct and as a faulty offset causes no ambiguity. -/
abbrev Tagged := Int64 × Bool

/-- ftm_between_good.  For every non-empty list of tagged int64 offsets in which at most
    `(n-1)/3` carry the faulty tag, and whose *correct* offsets have magnitude below 2^62 (the
    faulty ones may be any int64, `MinInt64` included), `FaultTolerantMidpoint` of the values
    — in whatever order they are passed — lies between any lower and upper bound of the
    correct offsets, and equals the overflow-free midpoint of the two selected values. -/
theorem C02_ftm_between_good (l : List Tagged) (ds : List Int64) (hperm : ds.Perm (l.map Prod.fst))
    (hn : l ≠ [])
    (hbad : l.countP (fun e => e.2) ≤ (l.length - 1) / 3)
    (hsmall : ∀ e ∈ l, e.2 = false → Small e.1)
    (lo hi : Int)
    (hlo : ∀ e ∈ l, e.2 = false → lo ≤ e.1.toInt) (hhi : ∀ e ∈ l, e.2 = false → e.1.toInt ≤ hi) :
    ∃ v post, ftm ds = some (v, post) ∧ lo ≤ v.toInt ∧ v.toInt ≤ hi ∧ Small v := by
  rw [C02_ftm_perm ds _ hperm]
  have hne : (l.map Prod.fst).isEmpty = false := by cases l <;> simp_all
  unfold ftm
  rw [hne]
  refine ⟨_, _, rfl, ?_⟩
  -- the tagged list, sorted by value
  let tl := sortBy (fun e : Tagged => e.1.toInt) l
  have htl : tl.map Prod.fst = sort64 (l.map Prod.fst) := sortBy_map Prod.fst Int64.toInt l
  have hpl : tl.Perm l := sortBy_perm _ _
  have hlen : tl.length = l.length := hpl.length_eq
  have hpos : 0 < tl.length := by rw [hlen]; exact List.length_pos_iff.mpr hn
  have hs : SortedBy (fun e : Tagged => e.1.toInt) tl := sortBy_sorted _ _
  have hbad' : tl.countP (fun e => e.2) ≤ (tl.length - 1) / 3 := by
    rw [hpl.countP_eq, hlen]; exact hbad
  -- bounds clipped to the open interval (-2^62, 2^62)
  have hsel := sel_between (fun e : Tagged => e.1.toInt) (fun e => e.2) tl hs hpos
    ((tl.length - 1) / 3) rfl hbad'
    (max lo (-4611686018427387903)) (min hi 4611686018427387903)
    (fun e he hg => by
      have hm := hpl.mem_iff.mp he
      have := hlo e hm hg; have := (hsmall e hm hg).1; omega)
    (fun e he hg => by
      have hm := hpl.mem_iff.mp he
      have := hhi e hm hg; have := (hsmall e hm hg).2; omega)
  simp only at hsel
  -- rewrite the selected elements of the untagged sorted slice
  have hlen' : (sort64 (l.map Prod.fst)).length = tl.length := by rw [← htl, List.length_map]
  have hx : (sort64 (l.map Prod.fst)).getD ((tl.length - 1) / 3) 0 = (tl[(tl.length - 1) / 3]'(by omega)).1 := by
    rw [getD_of_lt _ _ _ (by omega)]
    simp only [← htl, List.getElem_map]
  have hy : (sort64 (l.map Prod.fst)).getD (tl.length - 1 - (tl.length - 1) / 3) 0
      = (tl[tl.length - 1 - (tl.length - 1) / 3]'(by omega)).1 := by
    rw [getD_of_lt _ _ _ (by omega)]
    simp only [← htl, List.getElem_map]
  unfold ftmSorted
  simp only [hlen', hx, hy]
  obtain ⟨h1, h2, h3⟩ := hsel
  have hm := midpoint_between _ _ (max lo (-4611686018427387903)) (min hi 4611686018427387903)
    h1 h2 h3 (by omega) (by omega)
  unfold Small
  omega

/-- The hypotheses of `C02_ftm_between_good` are met by a concrete non-trivial instance:
    four offsets, one faulty at `MinInt64`, result inside the correct ones. -/
example : ∃ v post, ftm [30, Int64.minValue, 10, 20] = some (v, post) ∧ (10:Int) ≤ v.toInt ∧ v.toInt ≤ 30 :=
  ⟨15, [Int64.minValue, 10, 20, 30], by decide⟩

/-- median_between.  For every non-empty list of offsets of magnitude below 2^62 the median
    lies between two elements of the list — hence between its minimum and maximum. -/
theorem C02_median_between (ds : List Int64) (hn : ds ≠ []) (hsmall : ∀ v ∈ ds, Small v) :
    ∃ v post, median ds = some (v, post) ∧
      ∃ a ∈ ds, ∃ b ∈ ds, a.toInt ≤ v.toInt ∧ v.toInt ≤ b.toInt := by
  have hne : ds.isEmpty = false := by cases ds <;> simp_all
  unfold median
  rw [hne]
  refine ⟨_, _, rfl, ?_⟩
  have hp : (sort64 ds).Perm ds := sortBy_perm _ _
  have hlen : (sort64 ds).length = ds.length := hp.length_eq
  have hpos : 0 < (sort64 ds).length := by rw [hlen]; exact List.length_pos_iff.mpr hn
  have hs : SortedBy Int64.toInt (sort64 ds) := sortBy_sorted _ _
  unfold medianSorted
  simp only
  generalize sort64 ds = s at *
  split
  · -- odd: the element itself
    have hi : s.length / 2 < s.length := by omega
    rw [getD_of_lt _ _ _ hi]
    have hm : s[s.length / 2] ∈ ds := hp.mem_iff.mp (List.getElem_mem hi)
    exact ⟨_, hm, _, hm, Int.le_refl _, Int.le_refl _⟩
  · -- even: midpoint of two neighbours
    have hi : s.length / 2 < s.length := by omega
    have hi' : s.length / 2 - 1 < s.length := by omega
    rw [getD_of_lt _ _ _ hi, getD_of_lt _ _ _ hi']
    have hm : s[s.length / 2] ∈ ds := hp.mem_iff.mp (List.getElem_mem hi)
    have hm' : s[s.length / 2 - 1] ∈ ds := hp.mem_iff.mp (List.getElem_mem hi')
    have hle := sorted_le Int64.toInt hs (i := s.length / 2 - 1) (j := s.length / 2) (by omega) hi
    have hb := midpoint_between _ _ _ _ (Int.le_refl _) hle (Int.le_refl _) (hsmall _ hm').1 (hsmall _ hm).2
    exact ⟨_, hm', _, hm, hb.2.1, hb.2.2⟩

/-- Corollary in the `min ≤ median ≤ max` form. -/
theorem C02_median_between_bounds (ds : List Int64) (hn : ds ≠ []) (hsmall : ∀ v ∈ ds, Small v)
    (lo hi : Int) (hlo : ∀ v ∈ ds, lo ≤ v.toInt) (hhi : ∀ v ∈ ds, v.toInt ≤ hi) :
    ∃ v post, median ds = some (v, post) ∧ lo ≤ v.toInt ∧ v.toInt ≤ hi := by
  obtain ⟨v, post, h, a, ha, b, hb, h1, h2⟩ := C02_median_between ds hn hsmall
  exact ⟨v, post, h, Int.le_trans (hlo a ha) h1, Int.le_trans h2 (hhi b hb)⟩

example : median [5, -3, 9, 1] = some (3, [-3, 1, 5, 9]) := by decide

/-! ### No overflow: the int64 computation is the integer computation -/

/-- no_overflow.  If all offsets have magnitude below 2^62, `FaultTolerantMidpoint` and
    `Median` computed with wrapping int64 arithmetic equal the same algorithms over unbounded
    integers. -/
theorem C02_ftm_no_overflow (ds : List Int64) (hsmall : ∀ v ∈ ds, Small v) :
    (ftm ds).map (fun r => r.1.toInt) = ftmZ (ds.map Int64.toInt) := by
  unfold ftm ftmZ
  cases hds : ds with
  | nil => rfl
  | cons a t =>
    rw [← hds]
    have hne : ds.isEmpty = false := by rw [hds]; rfl
    have hne' : (ds.map Int64.toInt).isEmpty = false := by rw [hds]; rfl
    rw [hne, hne']
    simp only [Bool.false_eq_true, if_false, Option.map_some, Option.some.injEq]
    rw [← sort64_map_toInt]
    have hp : (sort64 ds).Perm ds := sortBy_perm _ _
    have hpos : 0 < (sort64 ds).length := by rw [hp.length_eq, hds]; simp
    have hsm : ∀ v ∈ sort64 ds, Small v := fun v hv => hsmall v (hp.mem_iff.mp hv)
    generalize sort64 ds = s at *
    unfold ftmSorted ftmSortedZ
    simp only [List.length_map, getD_map_toInt]
    have h1 : (s.length - 1) / 3 < s.length := by omega
    have h2 : s.length - 1 - (s.length - 1) / 3 < s.length := by omega
    apply C02_midpoint_exact
    · rw [getD_of_lt _ _ _ h1]; exact hsm _ (List.getElem_mem h1)
    · rw [getD_of_lt _ _ _ h2]; exact hsm _ (List.getElem_mem h2)

theorem C02_median_no_overflow (ds : List Int64) (hsmall : ∀ v ∈ ds, Small v) :
    (median ds).map (fun r => r.1.toInt) = medianZ (ds.map Int64.toInt) := by
  unfold median medianZ
  cases hds : ds with
  | nil => rfl
  | cons a t =>
    rw [← hds]
    have hne : ds.isEmpty = false := by rw [hds]; rfl
    have hne' : (ds.map Int64.toInt).isEmpty = false := by rw [hds]; rfl
    rw [hne, hne']
    simp only [Bool.false_eq_true, if_false, Option.map_some, Option.some.injEq]
    rw [← sort64_map_toInt]
    have hp : (sort64 ds).Perm ds := sortBy_perm _ _
    have hpos : 0 < (sort64 ds).length := by rw [hp.length_eq, hds]; simp
    have hsm : ∀ v ∈ sort64 ds, Small v := fun v hv => hsmall v (hp.mem_iff.mp hv)
    generalize sort64 ds = s at *
    unfold medianSorted medianSortedZ
    simp only [List.length_map, getD_map_toInt]
    split
    · rfl
    · have h1 : s.length / 2 < s.length := by omega
      have h2 : s.length / 2 - 1 < s.length := by omega
      apply C02_midpoint_exact
      · rw [getD_of_lt _ _ _ h2]; exact hsm _ (List.getElem_mem h2)
      · rw [getD_of_lt _ _ _ h1]; exact hsm _ (List.getElem_mem h1)

/-- Witness that the bound matters for the list functions too: `{MinInt64, MaxInt64}`. -/
theorem C02_ftm_overflow_witness :
    (ftm [Int64.maxValue, Int64.minValue]).map (fun r => r.1.toInt) = some (-9223372036854775808) ∧
    ftmZ ([Int64.maxValue, Int64.minValue].map Int64.toInt) = some (-1) ∧
    (median [Int64.maxValue, Int64.minValue]).map (fun r => r.1.toInt) = some (-9223372036854775808) ∧
    medianZ ([Int64.maxValue, Int64.minValue].map Int64.toInt) = some (-1) := by decide

end ScionTime.C02

namespace ScionTime.C02
open ScionTime.Timemath ScionTime.Measurements

/-! ### Timestamped measurements (core/measurements)

Go sorts with an unstable sort; the theorems hold for **every** permutation `post` of the input
that is sorted by offset (`SortedPerm ms post`), hence for the one Go's pdqsort leaves. -/

/-- The combined timestamp lies between the two timestamps it is computed from (for all
    timestamps: `Sub` saturates, so there is no overflow case). -/
theorem C02_meas_midTs_between (tx ty : Int) :
    min tx ty ≤ midTs tx ty ∧ midTs tx ty ≤ max tx ty := by
  have key : ∀ a b : Int, a ≤ b →
      0 ≤ (timeSub b a / 2).toInt ∧ (timeSub b a / 2).toInt ≤ b - a := by
    intro a b hab
    have h2 : (2 : Int64).toInt = 2 := by decide
    have hd : 0 ≤ (timeSub b a).toInt ∧ (timeSub b a).toInt ≤ b - a := by
      unfold timeSub
      split
      · rw [Int64.toInt_maxValue]; omega
      · split
        · omega
        · rw [Int64.toInt_ofInt_of_le (by omega) (by omega)]; omega
    have hlt := Int64.toInt_lt (timeSub b a)
    rw [Int64.toInt_div, h2, Int.tdiv_eq_ediv_of_nonneg hd.1]
    have : ((timeSub b a).toInt / 2).bmod (2 ^ 64) = (timeSub b a).toInt / 2 := by
      apply Int.bmod_eq_of_le <;> omega
    rw [this]; omega
  unfold midTs timeAdd
  split
  · have := key tx ty (by omega); omega
  · have := key ty tx (by omega); omega

/-- Measurement variant of the fault-tolerant midpoint.  For every non-empty `ms` and every
    offset-sorted permutation `post` of it (whatever the sort did with equal offsets):
    the call succeeds; `Error` is nil; the offset is exactly `timemath.FaultTolerantMidpoint`
    of the offsets (so containment, permutation invariance and the overflow statement carry
    over); the timestamp lies between the timestamps of the two selected measurements
    `post[f]`, `post[n-1-f]`. -/
theorem C02_meas_ftm (ms post : List M) (hn : ms ≠ []) (h : SortedPerm ms post) :
    ∃ m, Measurements.ftm ms post = .ok m ∧ m.err = false ∧
      Timemath.ftm (ms.map M.offset) = some (m.offset, post.map M.offset) ∧
      let f := (post.length - 1) / 3
      min (post.getD f zeroM).ts (post.getD (post.length - 1 - f) zeroM).ts ≤ m.ts ∧
      m.ts ≤ max (post.getD f zeroM).ts (post.getD (post.length - 1 - f) zeroM).ts := by
  have hne : ms.isEmpty = false := by cases ms <;> simp_all
  have hne' : (ms.map M.offset).isEmpty = false := by cases ms <;> simp_all
  refine ⟨ftmSel post, ?_, rfl, ?_, ?_⟩
  · unfold Measurements.ftm
    rw [hne, (isSortedPerm_iff ms post).mpr h]; rfl
  · unfold Timemath.ftm
    rw [hne', ← offsets_sorted_perm h]
    simp only [Bool.false_eq_true, if_false, Option.some.injEq, Prod.mk.injEq, and_true]
    unfold ftmSorted ftmSel midpointM
    simp only [List.length_map, getD_map_offset]
  · exact C02_meas_midTs_between _ _

/-- Measurement variant of the median: offset is `timemath.Median` of the offsets, `Error`
    is nil; for odd `n` the timestamp is that of the middle measurement, for even `n` it lies
    between the timestamps of the two middle measurements. -/
theorem C02_meas_median (ms post : List M) (hn : ms ≠ []) (h : SortedPerm ms post) :
    ∃ m, Measurements.median ms post = .ok m ∧ m.err = false ∧
      Timemath.median (ms.map M.offset) = some (m.offset, post.map M.offset) ∧
      let i := post.length / 2
      (post.length % 2 ≠ 0 → m.ts = (post.getD i zeroM).ts) ∧
      (post.length % 2 = 0 →
        min (post.getD (i - 1) zeroM).ts (post.getD i zeroM).ts ≤ m.ts ∧
        m.ts ≤ max (post.getD (i - 1) zeroM).ts (post.getD i zeroM).ts) := by
  have hne : ms.isEmpty = false := by cases ms <;> simp_all
  have hne' : (ms.map M.offset).isEmpty = false := by cases ms <;> simp_all
  refine ⟨medianSel post, ?_, ?_, ?_, ?_, ?_⟩
  · unfold Measurements.median
    rw [hne, (isSortedPerm_iff ms post).mpr h]; rfl
  · unfold medianSel midpointM; simp only; split <;> rfl
  · unfold Timemath.median
    rw [hne', ← offsets_sorted_perm h]
    simp only [Bool.false_eq_true, if_false, Option.some.injEq, Prod.mk.injEq, and_true]
    unfold medianSorted medianSel midpointM
    simp only [List.length_map, getD_map_offset]
    split <;> rfl
  · intro hodd
    unfold medianSel; simp only []; rw [if_pos hodd]
  · intro hev
    unfold medianSel
    have : ¬ (post.length % 2 ≠ 0) := by omega
    simp only [this, if_false]
    exact C02_meas_midTs_between _ _

/-- Permutation invariance for measurements: the combined offset does not depend on the order
    of the inputs nor on how the sort breaks ties (the timestamp may — see the example at the
    end of this file). -/
theorem C02_meas_offset_perm (ms₁ ms₂ post₁ post₂ : List M) (hn : ms₁ ≠ []) (hp : ms₁.Perm ms₂)
    (h₁ : SortedPerm ms₁ post₁) (h₂ : SortedPerm ms₂ post₂) :
    ∃ m₁ m₂, Measurements.ftm ms₁ post₁ = .ok m₁ ∧ Measurements.ftm ms₂ post₂ = .ok m₂ ∧
      m₁.offset = m₂.offset ∧
    ∃ k₁ k₂, Measurements.median ms₁ post₁ = .ok k₁ ∧ Measurements.median ms₂ post₂ = .ok k₂ ∧
      k₁.offset = k₂.offset := by
  have hn₂ : ms₂ ≠ [] := by
    intro h; rw [h] at hp; exact hn (List.length_eq_zero_iff.mp hp.length_eq)
  obtain ⟨m₁, e₁, _, o₁, _⟩ := C02_meas_ftm ms₁ post₁ hn h₁
  obtain ⟨m₂, e₂, _, o₂, _⟩ := C02_meas_ftm ms₂ post₂ hn₂ h₂
  obtain ⟨k₁, f₁, _, p₁, _⟩ := C02_meas_median ms₁ post₁ hn h₁
  obtain ⟨k₂, f₂, _, p₂, _⟩ := C02_meas_median ms₂ post₂ hn₂ h₂
  have hpo : (ms₁.map M.offset).Perm (ms₂.map M.offset) := hp.map _
  rw [C02_ftm_perm _ _ hpo, o₂] at o₁
  rw [C02_median_perm _ _ hpo, p₂] at p₁
  simp only [Option.some.injEq, Prod.mk.injEq] at o₁ p₁
  exact ⟨m₁, m₂, e₁, e₂, o₁.1.symm, k₁, k₂, f₁, f₂, p₁.1.symm⟩

/-- The model accepts exactly the sorted permutations (anything else the harness hands in as
    the post-call slice is answered `badSort`, which the implementation never prints). -/
theorem C02_meas_badSort_iff (ms post : List M) (hn : ms ≠ []) :
    (Measurements.ftm ms post = .badSort ↔ ¬ SortedPerm ms post) ∧
    (Measurements.median ms post = .badSort ↔ ¬ SortedPerm ms post) := by
  have hne : ms.isEmpty = false := by cases ms <;> simp_all
  unfold Measurements.ftm Measurements.median
  rw [hne, ← isSortedPerm_iff]
  cases isSortedPerm ms post <;> simp

/-- Containment for measurements: tagged measurements `(m, faulty?)`, at most `(n-1)/3`
    faulty, correct offsets of magnitude below 2^62 ⇒ the combined offset lies between the
    correct offsets, for every offset-sorted permutation the sort may have produced. -/
theorem C02_meas_ftm_between_good (l : List (M × Bool)) (post : List M) (hn : l ≠ [])
    (hsp : SortedPerm (l.map Prod.fst) post)
    (hbad : l.countP (fun e => e.2) ≤ (l.length - 1) / 3)
    (hsmall : ∀ e ∈ l, e.2 = false → Small e.1.offset)
    (lo hi : Int)
    (hlo : ∀ e ∈ l, e.2 = false → lo ≤ e.1.offset.toInt)
    (hhi : ∀ e ∈ l, e.2 = false → e.1.offset.toInt ≤ hi) :
    ∃ m, Measurements.ftm (l.map Prod.fst) post = .ok m ∧ m.err = false ∧
      lo ≤ m.offset.toInt ∧ m.offset.toInt ≤ hi := by
  have hn' : l.map Prod.fst ≠ [] := by cases l <;> simp_all
  obtain ⟨m, hm, he, hoff, _⟩ := C02_meas_ftm (l.map Prod.fst) post hn' hsp
  refine ⟨m, hm, he, ?_⟩
  -- the tagged offsets
  let tl : List Tagged := l.map (fun e => (e.1.offset, e.2))
  have hmap : tl.map Prod.fst = (l.map Prod.fst).map M.offset := by
    simp only [tl, List.map_map]; rfl
  have := C02_ftm_between_good tl ((l.map Prod.fst).map M.offset) (by rw [hmap])
    (by simp only [tl]; cases l <;> simp_all)
    (by simp only [tl, List.countP_map, List.length_map]; exact hbad)
    (by
      intro e he hg
      obtain ⟨e', he', rfl⟩ := List.mem_map.mp he
      exact hsmall e' he' hg)
    lo hi
    (by
      intro e he hg
      obtain ⟨e', he', rfl⟩ := List.mem_map.mp he
      exact hlo e' he' hg)
    (by
      intro e he hg
      obtain ⟨e', he', rfl⟩ := List.mem_map.mp he
      exact hhi e' he' hg)
  obtain ⟨v, p, hv, h1, h2, _⟩ := this
  rw [hoff] at hv
  simp only [Option.some.injEq, Prod.mk.injEq] at hv
  rw [hv.1]; exact ⟨h1, h2⟩

/-- Non-trivial instance: two measurements with equal offsets and different timestamps; both
    orders are offset-sorted permutations and both are accepted (with different timestamps —
    the timestamp, unlike the offset, may depend on the sort's tie-breaking). -/
example :
    Measurements.ftm [⟨5, 100, false⟩, ⟨5, 200, true⟩, ⟨7, 0, false⟩, ⟨9, 50, false⟩]
      [⟨5, 200, true⟩, ⟨5, 100, false⟩, ⟨7, 0, false⟩, ⟨9, 50, false⟩] = .ok ⟨6, 50, false⟩ ∧
    Measurements.ftm [⟨5, 100, false⟩, ⟨5, 200, true⟩, ⟨7, 0, false⟩, ⟨9, 50, false⟩]
      [⟨5, 100, false⟩, ⟨5, 200, true⟩, ⟨7, 0, false⟩, ⟨9, 50, false⟩] = .ok ⟨6, 100, false⟩ := by
  decide

end ScionTime.C02
