/-
  Kernel-checked tie (C05): ntp.ValidateResponseMetadata as regenerated from /repo's Go
  source (Gen/Leaf.lean) is the negation of the client model's `validMetadata`, for every
  packet (complete table over the first byte and the stratum byte).
-/
import ScionTime.Gen.Leaf
import ScionTime.Model.NtpMath
import ScionTime.Proofs.LeafUtil
namespace ScionTime.LeafTieC05
open ScionTime.Gen.Leaf ScionTime.LeafUtil

/-- the generated validator as a function of the two bytes it reads -/
def vmeta (x s : UInt8) : Bool :=
  if (((x >>> (6 : UInt8)) &&& (3 : UInt8)) == (3 : UInt8)) then true
  else
    if ((((x >>> (3 : UInt8)) &&& (7 : UInt8)) != (3 : UInt8)) && (((x >>> (3 : UInt8)) &&& (7 : UInt8)) != (4 : UInt8))) then true
    else
      if ((x &&& (7 : UInt8)) != (4 : UInt8)) then true
      else
        if ((s == (0 : UInt8)) || (decide (s > (15 : UInt8)))) then true
        else false

theorem C05_leaf_ValidateResponseMetadata (p : S_Packet) :
    ntp_ValidateResponseMetadata p = !NtpMath.validMetadata p.LVM.toNat p.Stratum.toNat := by
  have shape : ntp_ValidateResponseMetadata p = vmeta p.LVM p.Stratum := rfl
  rw [shape]
  exact forall_uint8 (fun x => ∀ s, vmeta x s = !NtpMath.validMetadata x.toNat s.toNat)
    (fun n => forall_uint8 _ (by revert n; decide +kernel)) p.LVM p.Stratum

end ScionTime.LeafTieC05
