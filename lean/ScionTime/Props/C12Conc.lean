/-
  C12, concurrency clause — linearizability of the key provider under its mutex.

  The extracted fact (x_c12.go, pinned in Props/C12.lean) says every Provider method locks `mu`
  first and unlocks by defer. Over the interleaving semantics of Model/Mutex.lean (any number of
  goroutines — listeners and NTS-KE handlers —, any schedule, critical sections split into any
  micro-steps): whenever the mutex is free the provider's state is what the sequential model
  `Provider.exec` yields for the calls in lock-acquisition order, which keeps every goroutine's
  own call order. The clock readings of the model's operations are taken inside the critical
  sections, so along the lock-acquisition order they are non-decreasing for a monotonic clock
  (hypothesis `Timed` of the sequential theorems, stated on that order); under it every theorem
  of Props/C12.lean (`Reach`) applies to every concurrent execution.
-/
import ScionTime.Proofs.Mutex
import ScionTime.Props.C12
namespace ScionTime.Props.C12Conc
open ScionTime ScionTime.Provider ScionTime.Mutex

theorem seqResult_eq_exec (P : Params) (sem : Provider.Op → Body State)
    (hsem : ∀ op st, runOp (sem op) st = (step P st op).1) (st : State) (log : List (Nat × Provider.Op)) :
    seqResult sem st log = exec P st (log.map (·.2)) := by
  unfold seqResult
  induction log generalizing st with
  | nil => rfl
  | cons e l ih =>
    simp only [List.foldl_cons, List.map_cons, exec]
    rw [hsem]; exact ih _

/-- Linearizability of the provider: at every quiescent point the state is the sequential
    model's for the calls in lock order, and that order respects each goroutine's program. -/
theorem C12_linearizable (P : Params) (sem : Provider.Op → Body State)
    (hsem : ∀ op st, runOp (sem op) st = (step P st op).1)
    (s0 : State) (progs : List (List Provider.Op)) (sched : List Nat) :
    let s := Mutex.run sem (start s0 progs) sched
    ProgOrder progs s ∧ (s.holder = none → s.shared = exec P s0 (s.log.map (·.2))) := by
  intro s
  refine ⟨run_progOrder sem progs sched _ (start_progOrder s0 progs), ?_⟩
  intro hfree
  have hinv := run_inv sem s0 sched _ (start_inv sem s0 progs)
  unfold Mutex.Inv at hinv
  have hs : s = Mutex.run sem (start s0 progs) sched := rfl
  rw [← hs] at hinv
  rw [hfree] at hinv
  rw [hinv.2, seqResult_eq_exec P sem hsem]

/-- A call in its critical section works on the sequential state of the calls logged before it
    (plus its own completed micro-steps): the key it returns is the one the sequential model
    returns at that point of the lock order. -/
theorem C12_critical_section_isolated (P : Params) (sem : Provider.Op → Body State)
    (hsem : ∀ op st, runOp (sem op) st = (step P st op).1)
    (s0 : State) (progs : List (List Provider.Op)) (sched : List Nat) (i : Nat) :
    let s := Mutex.run sem (start s0 progs) sched
    s.holder = some i →
    ∃ prev op done rem, s.log = prev ++ [(i, op)] ∧ sem op = done ++ rem ∧
      s.shared = runOp done (exec P s0 (prev.map (·.2))) := by
  intro s hh
  have hinv := run_inv sem s0 sched _ (start_inv sem s0 progs)
  unfold Mutex.Inv at hinv
  have hs : s = Mutex.run sem (start s0 progs) sched := rfl
  rw [← hs] at hinv
  rw [hh] at hinv
  obtain ⟨_, prev, op, done, rem, _, _, _, hlog, hop, hsh⟩ := hinv
  exact ⟨prev, op, done, rem, hlog, hop, by rw [hsh, seqResult_eq_exec P sem hsem]⟩

/-- Hence the provider invariant and every `Reach` theorem of Props/C12.lean (current key valid
    and at most one renewal interval old, Get only within validity, identifiers never repeat …)
    hold at every quiescent point of every concurrent execution whose clock readings, in lock
    order, do not go backwards. -/
theorem C12_concurrent_reach (P : Params) (sem : Provider.Op → Body State)
    (hsem : ∀ op st, runOp (sem op) st = (step P st op).1)
    (t0 now : Int) (s0 : State) (hr : Reach P t0 now s0)
    (progs : List (List Provider.Op)) (sched : List Nat) :
    let s := Mutex.run sem (start s0 progs) sched
    s.holder = none → Timed now (s.log.map (·.2)) →
    Reach P t0 (endTime now (s.log.map (·.2))) s.shared := by
  intro s hfree ht
  rw [(C12_linearizable P sem hsem s0 progs sched).2 hfree]
  exact reach_exec hr ht

/-- the whole method body as one micro-step -/
def atomicBody (P : Params) (op : Provider.Op) : Body State := [fun st => (step P st op).1]

/-- non-vacuity: two goroutines calling Current / Get on the standard provider, interleaved;
    both calls are logged and the mutex is free at the end -/
example :
    let progs : List (List Provider.Op) := [[.current 100 101], [.get 1 50]]
    let s := Mutex.run (atomicBody std) (start (init std 0) progs) [1, 0, 1, 0, 1, 0, 0, 0]
    s.holder = none ∧ s.log.map (·.1) = [1, 0] := by
  decide

end ScionTime.Props.C12Conc
