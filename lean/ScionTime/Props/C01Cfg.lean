/-
  Props/C01Cfg.lean — C01, configuration side: `sync.Run`'s configuration is what
  timeservice.go's `syncConfig(cfg)` makes of the TOML values, and the drift behind the caps is
  `clockDrift(cfg)`.

  Model: Model/MainCfg.lean (`syncConfig`, `clockDrift`, `dscp`), start-up conditions of `Run`:
  Model/Sync.lean (`startup`, `admissible`). Tied to the real functions on every run by
  harness/cmd/cmain (part sync): the repository's binary built with -tags verif answers the ops.
-/
import ScionTime.Model.MainCfg
import ScionTime.Proofs.C01
import ScionTime.Props.C01
import ScionTime.Gen.Sync

namespace ScionTime.Props.C01Cfg
open ScionTime.MainCfg ScionTime.Sync ScionTime.F64

/-! ### pins: constants and source shapes of timeservice.go regenerated on every run
    (harness/extract/x_cmain.go) -/

/-- the five defaults inside `syncConfig` -/
theorem C01Cfg_pin_defaults :
    ofConst Gen.Sync.main_defaultReferenceClockImpact_num Gen.Sync.main_defaultReferenceClockImpact_den.toNat
      = defaultReferenceClockImpact ∧
    ofConst Gen.Sync.main_defaultPeerClockImpact_num Gen.Sync.main_defaultPeerClockImpact_den.toNat
      = defaultPeerClockImpact ∧
    Gen.Sync.main_defaultPeerClockCutoff = defaultPeerClockCutoff ∧
    Gen.Sync.main_defaultSyncTimeout = defaultSyncTimeout ∧
    Gen.Sync.main_defaultSyncInterval = defaultSyncInterval := by decide +kernel

/-- which `svcConfig` field reaches which `sync.Config` field, and through which conversion -/
theorem C01Cfg_pin_wiring : Gen.Sync.main_syncConfig_literal =
    "ReferenceClockImpact:cfg.ReferenceClockImpact | PeerClockImpact:cfg.PeerClockImpact | PeerClockCutoff:timemath.Duration(cfg.PeerClockCutoff) | SyncTimeout:timemath.Duration(cfg.SyncTimeout) | SyncInterval:timemath.Duration(cfg.SyncInterval)" := by
  rfl

/-- a field that is zero after the conversion gets its own default -/
theorem C01Cfg_pin_default_rules : Gen.Sync.main_syncConfig_defaults =
    "syncCfg.ReferenceClockImpact == 0 -> syncCfg.ReferenceClockImpact = defaultReferenceClockImpact | syncCfg.PeerClockImpact == 0 -> syncCfg.PeerClockImpact = defaultPeerClockImpact | syncCfg.PeerClockCutoff == 0 -> syncCfg.PeerClockCutoff = defaultPeerClockCutoff | syncCfg.SyncTimeout == 0 -> syncCfg.SyncTimeout = defaultSyncTimeout | syncCfg.SyncInterval == 0 -> syncCfg.SyncInterval = defaultSyncInterval" := by
  rfl

/-- the TOML keys of the fields involved are the model's keys -/
theorem C01Cfg_pin_keys : Gen.Sync.main_svcConfig_keys =
    "DSCP:uint8:dscp ClockDrift:float64:clock_drift ReferenceClockImpact:float64:reference_clock_impact PeerClockImpact:float64:peer_clock_impact PeerClockCutoff:float64:peer_clock_cutoff SyncTimeout:float64:sync_timeout SyncInterval:float64:sync_interval" ∧
    keyDSCP = "dscp" ∧ keyClockDrift = "clock_drift" ∧ keyReferenceClockImpact = "reference_clock_impact" ∧
    keyPeerClockImpact = "peer_clock_impact" ∧ keyPeerClockCutoff = "peer_clock_cutoff" ∧
    keySyncTimeout = "sync_timeout" ∧ keySyncInterval = "sync_interval" :=
  ⟨rfl, rfl, rfl, rfl, rfl, rfl, rfl, rfl⟩

/-- guards and results of `clockDrift` and `dscp` -/
theorem C01Cfg_pin_drift_dscp :
    Gen.Sync.main_clockDrift_body = "if cfg.ClockDrift < 0 fatal ;; return timemath.Duration(cfg.ClockDrift)" ∧
    Gen.Sync.main_dscp_body = "if cfg.DSCP > 63 fatal ;; return cfg.DSCP" := by decide

/-! ### syncConfig -/

/-- an empty configuration file gives exactly the five defaults -/
theorem C01Cfg_absent_is_default :
    let c := syncConfig {}
    c.referenceClockImpact = defaultReferenceClockImpact ∧ c.peerClockImpact = defaultPeerClockImpact ∧
    c.peerClockCutoff = 50000 ∧ c.syncTimeout = 500000000 ∧ c.syncInterval = 1000000000 := by
  decide +kernel

/-- the defaults as doubles: 1.25 and 2.5 exactly -/
theorem C01Cfg_default_factors :
    defaultReferenceClockImpact = .fin (5 / 4) ∧ defaultPeerClockImpact = .fin (5 / 2) := by
  decide +kernel

/-- every field of the result depends on the value of ITS key only: two configurations that
    agree on a key agree on the field it is wired to, whatever the other keys say -/
theorem C01Cfg_fields_independent (s t : SvcSync) :
    (s.referenceClockImpact = t.referenceClockImpact →
      (syncConfig s).referenceClockImpact = (syncConfig t).referenceClockImpact) ∧
    (s.peerClockImpact = t.peerClockImpact →
      (syncConfig s).peerClockImpact = (syncConfig t).peerClockImpact) ∧
    (s.peerClockCutoff = t.peerClockCutoff → (syncConfig s).peerClockCutoff = (syncConfig t).peerClockCutoff) ∧
    (s.syncTimeout = t.syncTimeout → (syncConfig s).syncTimeout = (syncConfig t).syncTimeout) ∧
    (s.syncInterval = t.syncInterval → (syncConfig s).syncInterval = (syncConfig t).syncInterval) := by
  refine ⟨?_, ?_, ?_, ?_, ?_⟩ <;> intro h <;> simp only [syncConfig, h]

/-- a configured factor that is not zero is handed to `Run` unchanged (NaN included: `NaN == 0`
    is false); a configured duration is `timemath.Duration(seconds)` unless that is 0 ns -/
theorem C01Cfg_configured_value (s : SvcSync) :
    (isZeroF s.referenceClockImpact = false → (syncConfig s).referenceClockImpact = s.referenceClockImpact) ∧
    (isZeroF s.peerClockImpact = false → (syncConfig s).peerClockImpact = s.peerClockImpact) ∧
    (toDuration s.peerClockCutoff ≠ 0 → (syncConfig s).peerClockCutoff = toDuration s.peerClockCutoff) ∧
    (toDuration s.syncTimeout ≠ 0 → (syncConfig s).syncTimeout = toDuration s.syncTimeout) ∧
    (toDuration s.syncInterval ≠ 0 → (syncConfig s).syncInterval = toDuration s.syncInterval) := by
  refine ⟨?_, ?_, ?_, ?_, ?_⟩ <;> intro h <;> simp [syncConfig, h]

/-- … and a value that is zero (absent key, `0.0`, `-0.0`) or converts to 0 ns (less than a
    nanosecond) is replaced by the default -/
theorem C01Cfg_zero_is_default (s : SvcSync) :
    (isZeroF s.referenceClockImpact = true → (syncConfig s).referenceClockImpact = defaultReferenceClockImpact) ∧
    (isZeroF s.peerClockImpact = true → (syncConfig s).peerClockImpact = defaultPeerClockImpact) ∧
    (toDuration s.peerClockCutoff = 0 → (syncConfig s).peerClockCutoff = defaultPeerClockCutoff) ∧
    (toDuration s.syncTimeout = 0 → (syncConfig s).syncTimeout = defaultSyncTimeout) ∧
    (toDuration s.syncInterval = 0 → (syncConfig s).syncInterval = defaultSyncInterval) := by
  refine ⟨?_, ?_, ?_, ?_, ?_⟩ <;> intro h <;> simp [syncConfig, h]

/-- instances: −0.0 and 0.1 ns are "absent"; 0.29 s is 290 000 000 ns, 8.03 s is 8 029 999 999 ns
    (the product with 1e9 is rounded, then truncated) -/
example : isZeroF (.zero true) = true ∧ toDuration (ofConst 1 10000000000) = 0 ∧
    toDuration (ofConst 29 100) = 290000000 ∧ toDuration (ofConst 803 100) = 8029999999 := by
  decide +kernel

/-! ### the defaults pass `Run`'s start-up conditions -/

/-- a cap `factor × float64(drift)` with a factor in [1, 4] and a positive int64 drift is a
    positive finite double -/
theorem C01Cfg_cap_positive_finite {f : Rat} (hf1 : 1 ≤ f) (hf2 : f ≤ 4)
    (d : Int64) (hd : 0 < d.toInt) :
    F64.gt (F64.mul (.fin f) (f64OfDur d)) fzero = true ∧ F64.mul (.fin f) (f64OfDur d) ≠ .inf false := by
  have hr := ScionTime.Sync.toInt_range d
  have hfin : f64OfDur d = .fin (rnd (d.toInt : Rat)) := by
    unfold f64OfDur; exact ofInt_fin (by omega) (by omega)
  have h1 : 1 ≤ rnd (d.toInt : Rat) := ScionTime.Sync.drift_d_ge_one hfin hd
  have h2 : rnd (d.toInt : Rat) ≤ pow2 63 := by
    apply rnd_le_of_le_rep (rep_pow2 (by decide))
    have : (d.toInt : Rat) ≤ ((2 ^ 63 : Int) : Rat) := by exact_mod_cast (by omega : d.toInt ≤ 2 ^ 63)
    have e : pow2 63 = ((2 ^ 63 : Int) : Rat) := by decide +kernel
    rw [e]; exact this
  rw [hfin]
  simp only [F64.mul]
  generalize rnd (d.toInt : Rat) = x at h1 h2
  have hf0 : (0 : Rat) ≤ f := by grind
  have hx0 : (0 : Rat) ≤ x := by grind
  have hq1 : 1 ≤ f * x := by
    have a := Rat.mul_le_mul_of_nonneg_left h1 hf0      -- f * 1 ≤ f * x
    grind
  have hq2 : f * x ≤ 4 * pow2 63 := by
    have a := Rat.mul_le_mul_of_nonneg_left h2 hf0      -- f * x ≤ f * 2^63
    have b := Rat.mul_le_mul_of_nonneg_right hf2 (show (0 : Rat) ≤ pow2 63 by decide +kernel)
    grind
  have hqa : (f * x).abs = f * x := Rat.abs_of_nonneg (by grind)
  have hfinq : roundNE (f * x) = .fin (rnd (f * x)) := by
    apply roundNE_fin
    · rw [hqa]; have : pow2 (-1074) ≤ 1 := by decide +kernel
      grind
    · rw [hqa]; have : 4 * pow2 63 ≤ maxFin := by decide +kernel
      grind
  rw [hfinq]
  refine ⟨?_, by simp⟩
  have : 1 ≤ rnd (f * x) := by
    have := rnd_mono hq1
    rwa [show rnd 1 = 1 by decide +kernel] at this
  exact (ScionTime.Sync.gt_zero_iff _).mpr (Or.inr ⟨_, rfl, by grind⟩)

/-- **The default configuration is admissible**: with no key of the five in the file,
    `sync.Run` starts for every system clock whose drift bound over the interval is positive
    (whatever `clock_drift` says, `UnknownDrift` = `MaxInt64` included) and every number of
    reference clocks and peers: factor 1.25 > 1, peer factor 2.5 > 1, 2.5 − 1 > 1.25, interval
    1 s > 0, timeout 0.5 s within [0, interval/2], caps positive and finite. -/
theorem C01Cfg_defaults_admissible (drift : Int64) (hd : 0 < drift.toInt) (nRef nPeer : Nat) :
    admissible (toRunCfg (syncConfig {}) drift nRef nPeer) = true := by
  rw [ScionTime.Sync.admissible_iff_literal]
  have hc : syncConfig {} = ⟨.fin (5 / 4), .fin (5 / 2), 50000, 500000000, 1000000000⟩ := by
    decide +kernel
  rw [hc]
  simp only [toRunCfg, refCap, peerCap]
  refine ⟨by decide +kernel, by decide +kernel, by decide +kernel, by decide, by decide, ?_, ?_, ?_, ?_⟩
  · exact (C01Cfg_cap_positive_finite (f := 5 / 4) (by decide +kernel) (by decide +kernel) drift hd).1
  · exact (C01Cfg_cap_positive_finite (f := 5 / 4) (by decide +kernel) (by decide +kernel) drift hd).2
  · exact (C01Cfg_cap_positive_finite (f := 5 / 2) (by decide +kernel) (by decide +kernel) drift hd).1
  · exact (C01Cfg_cap_positive_finite (f := 5 / 2) (by decide +kernel) (by decide +kernel) drift hd).2

/-- non-vacuity / the case of an absent `clock_drift`: drift 0 is `clocks.UnknownDrift`,
    `Drift(interval)` is then `math.MaxInt64` -/
example : admissible (toRunCfg (syncConfig {}) Int64.maxValue 1 0) = true :=
  C01Cfg_defaults_admissible _ (by decide) 1 0

/-- The defaults are NOT independent of each other: a file that sets only `sync_interval`
    below 1 s keeps the default timeout of 0.5 s, which then exceeds interval/2 — `Run` refuses
    to start ("invalid sync timeout"). Decided instance: `sync_interval = 0.5`. -/
theorem C01Cfg_interval_only_needs_timeout :
    startup (toRunCfg (syncConfig { syncInterval := ofConst 1 2 }) 10000 1 0) = some .timeout ∧
    admissible (toRunCfg (syncConfig { syncInterval := ofConst 1 2, syncTimeout := ofConst 1 4 }) 10000 1 0) = true := by
  decide +kernel

/-- a NaN factor in the file is not replaced by the default (`NaN == 0` is false) and is then
    refused by `Run` (F14 as repaired) -/
theorem C01Cfg_nan_reaches_run_and_is_refused (s : SvcSync) (drift : Int64) (nRef nPeer : Nat)
    (h : s.referenceClockImpact = .nan ∨ s.peerClockImpact = .nan) :
    admissible (toRunCfg (syncConfig s) drift nRef nPeer) = false := by
  apply ScionTime.Props.C01.C01_nan_refused
  rcases h with h | h
  · left; simp [toRunCfg, syncConfig, h, isZeroF, F64.beq]
  · right; simp [toRunCfg, syncConfig, h, isZeroF, F64.beq]

/-! ### clockDrift, dscp -/

/-- `clockDrift`: refused iff the configured value is below zero; otherwise seconds → ns.
    Absent (0) gives 0 = `clocks.UnknownDrift`. -/
theorem C01Cfg_clockDrift (v : F64) :
    (F64.lt v (.zero false) = true → clockDrift v = .fatal "invalid clock drift value specified in config") ∧
    (F64.lt v (.zero false) = false → clockDrift v = .ok (toDuration v)) ∧
    clockDrift (.zero false) = .ok 0 := by
  refine ⟨?_, ?_, by decide +kernel⟩ <;> intro h <;> simp [clockDrift, h]

/-- `dscp`: exactly the values 0..63 are accepted, unchanged -/
theorem C01Cfg_dscp (v : Nat) : (v ≤ 63 → dscp v = .ok v) ∧ (63 < v → ∃ m, dscp v = .fatal m) := by
  constructor
  · intro h; simp [dscp]; omega
  · intro h; exact ⟨"invalid differentiated services codepoint value specified in config", by simp [dscp, h]⟩

end ScionTime.Props.C01Cfg
