/-
  Props/C01Cfg.lean — C01, configuration side: `sync.Run`'s configuration is what
  timeservice.go's `syncConfig(cfg)` makes of the TOML values, and the drift behind the caps is
  `clockDrift(cfg)`.

  Model: Model/MainCfg.lean (`syncConfig`, `clockDrift`, `dscp`), start-up conditions of `Run`:
  Model/Sync.lean (`startup`, `admissible`). Tied to the real functions on every run by
  harness/cmd/cmain (part sync): the repository's binary built with -tags verif answers the ops.
-/
import ScionTime.Model.MainCfg
import ScionTime.Proofs.C01
import ScionTime.Props.C01
import ScionTime.Gen.Sync
import ScionTime.Props.F64P_C18Float
import ScionTime.Props.LeafC18

namespace ScionTime.Props.C01Cfg
open ScionTime.MainCfg ScionTime.Sync ScionTime.F64

/-! ### pins: constants and source shapes of timeservice.go regenerated on every run
    (harness/extract/x_cmain.go) -/

/-- the five defaults inside `syncConfig` -/
theorem C01Cfg_pin_defaults :
    ofConst Gen.Sync.main_defaultReferenceClockImpact_num Gen.Sync.main_defaultReferenceClockImpact_den.toNat
      = defaultReferenceClockImpact ∧
    ofConst Gen.Sync.main_defaultPeerClockImpact_num Gen.Sync.main_defaultPeerClockImpact_den.toNat
      = defaultPeerClockImpact ∧
    Gen.Sync.main_defaultPeerClockCutoff = defaultPeerClockCutoff ∧
    Gen.Sync.main_defaultSyncTimeout = defaultSyncTimeout ∧
    Gen.Sync.main_defaultSyncInterval = defaultSyncInterval := by decide +kernel

/-- which `svcConfig` field reaches which `sync.Config` field, and through which conversion -/
theorem C01Cfg_pin_wiring : Gen.Sync.main_syncConfig_literal =
    "ReferenceClockImpact:cfg.ReferenceClockImpact | PeerClockImpact:cfg.PeerClockImpact | PeerClockCutoff:timemath.Duration(cfg.PeerClockCutoff) | SyncTimeout:timemath.Duration(cfg.SyncTimeout) | SyncInterval:timemath.Duration(cfg.SyncInterval)" := by
  rfl

/-- a field that is zero after the conversion gets its own default -/
theorem C01Cfg_pin_default_rules : Gen.Sync.main_syncConfig_defaults =
    "syncCfg.ReferenceClockImpact == 0 -> syncCfg.ReferenceClockImpact = defaultReferenceClockImpact | syncCfg.PeerClockImpact == 0 -> syncCfg.PeerClockImpact = defaultPeerClockImpact | syncCfg.PeerClockCutoff == 0 -> syncCfg.PeerClockCutoff = defaultPeerClockCutoff | syncCfg.SyncTimeout == 0 -> syncCfg.SyncTimeout = defaultSyncTimeout | syncCfg.SyncInterval == 0 -> syncCfg.SyncInterval = defaultSyncInterval" := by
  rfl

/-- the TOML keys of the fields involved are the model's keys -/
theorem C01Cfg_pin_keys : Gen.Sync.main_svcConfig_keys =
    "DSCP:uint8:dscp ClockDrift:float64:clock_drift ReferenceClockImpact:float64:reference_clock_impact PeerClockImpact:float64:peer_clock_impact PeerClockCutoff:float64:peer_clock_cutoff SyncTimeout:float64:sync_timeout SyncInterval:float64:sync_interval" ∧
    keyDSCP = "dscp" ∧ keyClockDrift = "clock_drift" ∧ keyReferenceClockImpact = "reference_clock_impact" ∧
    keyPeerClockImpact = "peer_clock_impact" ∧ keyPeerClockCutoff = "peer_clock_cutoff" ∧
    keySyncTimeout = "sync_timeout" ∧ keySyncInterval = "sync_interval" :=
  ⟨rfl, rfl, rfl, rfl, rfl, rfl, rfl, rfl⟩

/-- guards and results of `clockDrift` and `dscp` -/
theorem C01Cfg_pin_drift_dscp :
    Gen.Sync.main_clockDrift_body = "if cfg.ClockDrift < 0 fatal ;; return timemath.Duration(cfg.ClockDrift)" ∧
    Gen.Sync.main_dscp_body = "if cfg.DSCP > 63 fatal ;; return cfg.DSCP" := by decide

/-! ### syncConfig -/

/-- an empty configuration file gives exactly the five defaults -/
theorem C01Cfg_absent_is_default :
    let c := syncConfig {}
    c.referenceClockImpact = defaultReferenceClockImpact ∧ c.peerClockImpact = defaultPeerClockImpact ∧
    c.peerClockCutoff = 50000 ∧ c.syncTimeout = 500000000 ∧ c.syncInterval = 1000000000 := by
  decide +kernel

/-- the defaults as doubles: 1.25 and 2.5 exactly -/
theorem C01Cfg_default_factors :
    defaultReferenceClockImpact = .fin (5 / 4) ∧ defaultPeerClockImpact = .fin (5 / 2) := by
  decide +kernel

/-- every field of the result depends on the value of ITS key only: two configurations that
    agree on a key agree on the field it is wired to, whatever the other keys say -/
theorem C01Cfg_fields_independent (s t : SvcSync) :
    (s.referenceClockImpact = t.referenceClockImpact →
      (syncConfig s).referenceClockImpact = (syncConfig t).referenceClockImpact) ∧
    (s.peerClockImpact = t.peerClockImpact →
      (syncConfig s).peerClockImpact = (syncConfig t).peerClockImpact) ∧
    (s.peerClockCutoff = t.peerClockCutoff → (syncConfig s).peerClockCutoff = (syncConfig t).peerClockCutoff) ∧
    (s.syncTimeout = t.syncTimeout → (syncConfig s).syncTimeout = (syncConfig t).syncTimeout) ∧
    (s.syncInterval = t.syncInterval → (syncConfig s).syncInterval = (syncConfig t).syncInterval) := by
  refine ⟨?_, ?_, ?_, ?_, ?_⟩ <;> intro h <;> simp only [syncConfig, h]

/-- a configured factor that is not zero is handed to `Run` unchanged (NaN included: `NaN == 0`
    is false); a configured duration is `timemath.Duration(seconds)` unless that is 0 ns -/
theorem C01Cfg_configured_value (s : SvcSync) :
    (isZeroF s.referenceClockImpact = false → (syncConfig s).referenceClockImpact = s.referenceClockImpact) ∧
    (isZeroF s.peerClockImpact = false → (syncConfig s).peerClockImpact = s.peerClockImpact) ∧
    (toDuration s.peerClockCutoff ≠ 0 → (syncConfig s).peerClockCutoff = toDuration s.peerClockCutoff) ∧
    (toDuration s.syncTimeout ≠ 0 → (syncConfig s).syncTimeout = toDuration s.syncTimeout) ∧
    (toDuration s.syncInterval ≠ 0 → (syncConfig s).syncInterval = toDuration s.syncInterval) := by
  refine ⟨?_, ?_, ?_, ?_, ?_⟩ <;> intro h <;> simp [syncConfig, h]

/-- … and a value that is zero (absent key, `0.0`, `-0.0`) or converts to 0 ns (less than a
    nanosecond) is replaced by the default -/
theorem C01Cfg_zero_is_default (s : SvcSync) :
    (isZeroF s.referenceClockImpact = true → (syncConfig s).referenceClockImpact = defaultReferenceClockImpact) ∧
    (isZeroF s.peerClockImpact = true → (syncConfig s).peerClockImpact = defaultPeerClockImpact) ∧
    (toDuration s.peerClockCutoff = 0 → (syncConfig s).peerClockCutoff = defaultPeerClockCutoff) ∧
    (toDuration s.syncTimeout = 0 → (syncConfig s).syncTimeout = defaultSyncTimeout) ∧
    (toDuration s.syncInterval = 0 → (syncConfig s).syncInterval = defaultSyncInterval) := by
  refine ⟨?_, ?_, ?_, ?_, ?_⟩ <;> intro h <;> simp [syncConfig, h]

/-- instances: −0.0 and 0.1 ns are "absent"; 0.29 s is 290 000 000 ns, 8.03 s is 8 029 999 999 ns
    (the product with 1e9 is rounded, then truncated) -/
example : isZeroF (.zero true) = true ∧ toDuration (ofConst 1 10000000000) = 0 ∧
    toDuration (ofConst 29 100) = 290000000 ∧ toDuration (ofConst 803 100) = 8029999999 := by
  decide +kernel

/-! ### the defaults pass `Run`'s start-up conditions -/

/-- a cap `factor × float64(drift)` with a factor in [1, 4] and a positive int64 drift is a
    positive finite double -/
theorem C01Cfg_cap_positive_finite {f : Rat} (hf1 : 1 ≤ f) (hf2 : f ≤ 4)
    (d : Int64) (hd : 0 < d.toInt) :
    F64.gt (F64.mul (.fin f) (f64OfDur d)) fzero = true ∧ F64.mul (.fin f) (f64OfDur d) ≠ .inf false := by
  have hr := ScionTime.Sync.toInt_range d
  have hfin : f64OfDur d = .fin (rnd (d.toInt : Rat)) := by
    unfold f64OfDur; exact ofInt_fin (by omega) (by omega)
  have h1 : 1 ≤ rnd (d.toInt : Rat) := ScionTime.Sync.drift_d_ge_one hfin hd
  have h2 : rnd (d.toInt : Rat) ≤ pow2 63 := by
    apply rnd_le_of_le_rep (rep_pow2 (by decide))
    have : (d.toInt : Rat) ≤ ((2 ^ 63 : Int) : Rat) := by exact_mod_cast (by omega : d.toInt ≤ 2 ^ 63)
    have e : pow2 63 = ((2 ^ 63 : Int) : Rat) := by decide +kernel
    rw [e]; exact this
  rw [hfin]
  simp only [F64.mul]
  generalize rnd (d.toInt : Rat) = x at h1 h2
  have hf0 : (0 : Rat) ≤ f := by grind
  have hx0 : (0 : Rat) ≤ x := by grind
  have hq1 : 1 ≤ f * x := by
    have a := Rat.mul_le_mul_of_nonneg_left h1 hf0      -- f * 1 ≤ f * x
    grind
  have hq2 : f * x ≤ 4 * pow2 63 := by
    have a := Rat.mul_le_mul_of_nonneg_left h2 hf0      -- f * x ≤ f * 2^63
    have b := Rat.mul_le_mul_of_nonneg_right hf2 (show (0 : Rat) ≤ pow2 63 by decide +kernel)
    grind
  have hqa : (f * x).abs = f * x := Rat.abs_of_nonneg (by grind)
  have hfinq : roundNE (f * x) = .fin (rnd (f * x)) := by
    apply roundNE_fin
    · rw [hqa]; have : pow2 (-1074) ≤ 1 := by decide +kernel
      grind
    · rw [hqa]; have : 4 * pow2 63 ≤ maxFin := by decide +kernel
      grind
  rw [hfinq]
  refine ⟨?_, by simp⟩
  have : 1 ≤ rnd (f * x) := by
    have := rnd_mono hq1
    rwa [show rnd 1 = 1 by decide +kernel] at this
  exact (ScionTime.Sync.gt_zero_iff _).mpr (Or.inr ⟨_, rfl, by grind⟩)

/-- **The default configuration is admissible**: with no key of the five in the file,
    `sync.Run` starts for every system clock whose drift bound over the interval is positive
    (whatever `clock_drift` says, `UnknownDrift` = `MaxInt64` included) and every number of
    reference clocks and peers: factor 1.25 > 1, peer factor 2.5 > 1, 2.5 − 1 > 1.25, interval
    1 s > 0, timeout 0.5 s within [0, interval/2], caps positive and finite. -/
theorem C01Cfg_defaults_admissible (drift : Int64) (hd : 0 < drift.toInt) (nRef nPeer : Nat) :
    admissible (toRunCfg (syncConfig {}) drift nRef nPeer) = true := by
  rw [ScionTime.Sync.admissible_iff_literal]
  have hc : syncConfig {} = ⟨.fin (5 / 4), .fin (5 / 2), 50000, 500000000, 1000000000⟩ := by
    decide +kernel
  rw [hc]
  simp only [toRunCfg, refCap, peerCap]
  refine ⟨by decide +kernel, by decide +kernel, by decide +kernel, by decide, by decide, ?_, ?_, ?_, ?_⟩
  · exact (C01Cfg_cap_positive_finite (f := 5 / 4) (by decide +kernel) (by decide +kernel) drift hd).1
  · exact (C01Cfg_cap_positive_finite (f := 5 / 4) (by decide +kernel) (by decide +kernel) drift hd).2
  · exact (C01Cfg_cap_positive_finite (f := 5 / 2) (by decide +kernel) (by decide +kernel) drift hd).1
  · exact (C01Cfg_cap_positive_finite (f := 5 / 2) (by decide +kernel) (by decide +kernel) drift hd).2

/-- non-vacuity / the case of an absent `clock_drift`: drift 0 is `clocks.UnknownDrift`,
    `Drift(interval)` is then `math.MaxInt64` -/
example : admissible (toRunCfg (syncConfig {}) Int64.maxValue 1 0) = true :=
  C01Cfg_defaults_admissible _ (by decide) 1 0

/-- The defaults are NOT independent of each other: a file that sets only `sync_interval`
    below 1 s keeps the default timeout of 0.5 s, which then exceeds interval/2 — `Run` refuses
    to start ("invalid sync timeout"). Decided instance: `sync_interval = 0.5`. -/
theorem C01Cfg_interval_only_needs_timeout :
    startup (toRunCfg (syncConfig { syncInterval := ofConst 1 2 }) 10000 1 0) = some .timeout ∧
    admissible (toRunCfg (syncConfig { syncInterval := ofConst 1 2, syncTimeout := ofConst 1 4 }) 10000 1 0) = true := by
  decide +kernel

/-- a NaN factor in the file is not replaced by the default (`NaN == 0` is false) and is then
    refused by `Run` (F14 as repaired) -/
theorem C01Cfg_nan_reaches_run_and_is_refused (s : SvcSync) (drift : Int64) (nRef nPeer : Nat)
    (h : s.referenceClockImpact = .nan ∨ s.peerClockImpact = .nan) :
    admissible (toRunCfg (syncConfig s) drift nRef nPeer) = false := by
  apply ScionTime.Props.C01.C01_nan_refused
  rcases h with h | h
  · left; simp [toRunCfg, syncConfig, h, isZeroF, F64.beq]
  · right; simp [toRunCfg, syncConfig, h, isZeroF, F64.beq]

/-! ### The whole chain from the configuration file to `Run`

What reaches `sync.Run` from timeservice.go (`runServer`, `runClient`): `syncCfg` (five fields,
above), the clock `lclk`, of which `Run` uses `Drift(cfg.SyncInterval)` and `Sleep(cfg.SyncInterval)`
only, the discipline `adj` (C19), and the two lists of clocks (only their lengths matter for the
bound). The clock's drift comes from the sixth configuration value, `clock_drift`. -/

/-- both call sites: `sync.Run(log, syncConfig(cfg), clocks.NewSystemClock(log, clockDrift(cfg)),
    adj, refClocks, peerClocks)`, each argument assigned exactly once -/
theorem C01Cfg_pin_run_sites : Gen.Sync.main_syncRun_sites =
    ["runServer: sync.Run(log, syncCfg, lclk, adj, refClocks, peerClocks) | log := slog.Default() | syncCfg := syncConfig(cfg) | lclk := clocks.NewSystemClock(log, clockDrift(cfg)) | adj := &adjustments.PIController{ KP: adjustments.PIControllerDefaultPRatio, KI: adjustments.PIControllerDefaultIRatio, StepThreshold: adjustments.PIControllerDefaultStepThreshold, } | refClocks, peerClocks := createClocks(cfg, localAddr, log) | refClocks, peerClocks := createClocks(cfg, localAddr, log)",
     "runClient: sync.Run(log, syncCfg, lclk, adj, refClocks, peerClocks) | log := slog.Default() | syncCfg := syncConfig(cfg) | lclk := clocks.NewSystemClock(log, clockDrift(cfg)) | adj := &adjustments.PIController{ KP: adjustments.PIControllerDefaultPRatio, KI: adjustments.PIControllerDefaultIRatio, StepThreshold: adjustments.PIControllerDefaultStepThreshold, } | refClocks, peerClocks := createClocks(cfg, localAddr, log) | refClocks, peerClocks := createClocks(cfg, localAddr, log)"] := by
  rfl

/-- the clock: `drift: drift.Seconds()`; and `Run` touches it through `Drift(cfg.SyncInterval)` and
    `Sleep(cfg.SyncInterval)` only (never passes it on) -/
theorem C01Cfg_pin_run_clock :
    Gen.Sync.clocks_NewSystemClock_body = ["return &SystemClock{ log: log, drift: drift.Seconds(), }"] ∧
    Gen.Sync.sync_Run_clkCalls = ["clk.Drift(cfg.SyncInterval)", "clk.Sleep(cfg.SyncInterval)"] :=
  ⟨rfl, rfl⟩

/-- `runDrift` IS the regenerated `(*SystemClock).Drift` (leaf translator) on the clock that
    `NewSystemClock` builds, for every configured drift and every interval -/
theorem C01Cfg_runDrift_leaf (d iv : Int64) (e : UInt64) :
    (Gen.Leaf.clocks_SystemClock_Drift { drift := F64.durationSeconds d.toInt, epoch := e, adjustment := none } iv).toInt =
      runDrift d.toInt iv.toInt :=
  LeafTieC18.C18_leaf_Drift _ _

theorem runDrift_eq (d iv : Int) : runDrift d iv = F64P_UnixutilFloat.driftOfDuration d iv := rfl

/-- an absent `clock_drift` (0 = `clocks.UnknownDrift`): the allowance is `MaxInt64`, whatever the
    interval -/
theorem C01Cfg_runDrift_unknown (iv : Int) : runDrift 0 iv = 9223372036854775807 := by
  have h0 : FreqDrift.clockDrift 0 = .zero false := by decide +kernel
  unfold runDrift FreqDrift.drift
  rw [h0]; rfl

/-- a configured drift of 1 ns/s … 0.4 s/s whose exact allowance over the interval,
    `d·iv/10⁹` ns, is at least 2 ns: `Drift(interval)` is positive — `Run`'s caps are then positive
    and finite — and within `1 + 2⁻⁵⁰·exact` of the exact allowance (it never inflates the cap). -/
theorem C01Cfg_runDrift_positive (d iv : Int) (hd1 : 1 ≤ d) (hd2 : d ≤ 400000000) (hiv : 0 < iv)
    (hiv2 : iv ≤ 9223372036854775807) (h2 : 2000000000 ≤ d * iv) :
    0 < runDrift d iv ∧
    ((runDrift d iv : Int) : Rat) ≤ (d : Rat) * (iv : Rat) / 1000000000 * (1 + 1 / 100000000000000) + 1 := by
  obtain ⟨hf, _, hv⟩ := durationSeconds_val (d := d) (by omega)
  have herr := secondsVal_err d
  have heta : pow2 (-1075) ≤ 1 / 1606938044258990275541962092341162602522202993782792835301376 := by
    have e : pow2 (-200) = 1 / 1606938044258990275541962092341162602522202993782792835301376 := by rw [pow2_neg]; congr 1
    rw [← e]; exact pow2_mono (by decide)
  have hη0 := Rat.le_of_lt (pow2_pos (-1075))
  have hD1 : (1 : Rat) ≤ (d : Rat) := by simpa using Rat.intCast_le_intCast.mpr hd1
  have hD2 : (d : Rat) ≤ 400000000 := by simpa using Rat.intCast_le_intCast.mpr hd2
  have hI0 : (0 : Rat) < (iv : Rat) := by simpa using Rat.intCast_lt_intCast.mpr hiv
  have hP : (2000000000 : Rat) ≤ (d : Rat) * (iv : Rat) := by
    have := Rat.intCast_le_intCast.mpr h2
    simpa [Rat.intCast_mul] using this
  have hp900 : pow2 (-900) ≤ 1 / 2000000000 := by decide +kernel
  have hq0 : 0 ≤ (d : Rat) / 1000000000 := by grind
  rw [Rat.abs_of_nonneg hq0, abs_le_iff] at herr
  generalize secondsVal d = s at hv herr
  obtain ⟨e2, e1⟩ := herr
  have s0 : 0 < s := by grind
  have habs : s.abs = s := Rat.abs_of_nonneg (Rat.le_of_lt s0)
  have hb := F64P_C18Float.C18_drift_bound (durationSeconds d) iv hf
    (by rw [hv, habs]; grind) (by rw [hv, habs]; grind) (by omega)
  rw [hv] at hb
  have hT0 : 0 ≤ s * (iv : Rat) := Rat.mul_nonneg (Rat.le_of_lt s0) (Rat.le_of_lt hI0)
  rw [Rat.abs_of_nonneg hT0, abs_le_iff, F64P_C18Float.pow2_50_lit] at hb
  have m1 := Rat.mul_le_mul_of_nonneg_right e1 (Rat.le_of_lt hI0)
  have m2 := Rat.mul_le_mul_of_nonneg_right e2 (Rat.le_of_lt hI0)
  have m3 := Rat.mul_le_mul_of_nonneg_right heta (Rat.le_of_lt hI0)
  have hI2 : (iv : Rat) ≤ 9223372036854775807 := by simpa using Rat.intCast_le_intCast.mpr hiv2
  have hdr : runDrift d iv = F64P_UnixutilFloat.drift (durationSeconds d) iv := rfl
  rw [hdr]
  generalize F64P_UnixutilFloat.drift (durationSeconds d) iv = r at hb ⊢
  generalize pow2 (-1075) = η at *
  obtain ⟨hb1, hb2⟩ := hb
  constructor
  · have : (0 : Rat) < (r : Rat) := by grind
    exact_mod_cast this
  · grind

/-- … and the smallest configurable drift, 1 ns/s, over the default interval: 1 ns -/
example : runDrift 1 1000000000 = 1 ∧ runDrift 10000 1000000000 = 10000 ∧ runDrift 15 1000000000 = 14 ∧
    runDrift 1 500000000 = 0 := by decide +kernel

/-- `startCfg`: the file is refused iff `clock_drift < 0` (NaN passes the guard and converts to
    `MinInt64`); otherwise `Run` starts on `syncConfig`'s five values and `Drift(SyncInterval)` of
    the configured clock. -/
theorem C01Cfg_start_cases (s : SvcSync) (v : F64) (nRef nPeer : Nat) :
    (F64.lt v (.zero false) = true →
      startCfg s v nRef nPeer = .fatal "invalid clock drift value specified in config") ∧
    (F64.lt v (.zero false) = false →
      startCfg s v nRef nPeer = .ok (toRunCfg (syncConfig s)
        (Int64.ofInt (runDrift (toDuration v) (syncConfig s).syncInterval)) nRef nPeer)) := by
  constructor <;> intro h <;> simp [startCfg, clockDrift, h]

/-- **Start-up from the configuration file with the five sync keys absent**: for every value of
    `clock_drift` that is absent / zero / below 1 ns/s (→ unknown drift) or between 2 ns/s and
    0.4 s/s, and any numbers of reference clocks and peers, the binary hands `Run` a configuration
    `Run` accepts. -/
theorem C01Cfg_start_defaults (v : F64) (hv : F64.lt v (.zero false) = false) (nRef nPeer : Nat)
    (hd : toDuration v = 0 ∨ (2 ≤ toDuration v ∧ toDuration v ≤ 400000000)) :
    ∃ c, startCfg {} v nRef nPeer = .ok c ∧ admissible c = true := by
  refine ⟨_, (C01Cfg_start_cases {} v nRef nPeer).2 hv, ?_⟩
  have hi : (syncConfig {}).syncInterval = 1000000000 := by decide +kernel
  rw [hi]
  apply C01Cfg_defaults_admissible
  rcases hd with h0 | ⟨h2, h4⟩
  · rw [h0, C01Cfg_runDrift_unknown]; decide
  · have hp := (C01Cfg_runDrift_positive (toDuration v) 1000000000 (by omega) h4 (by decide) (by decide) (by omega)).1
    have hr : runDrift (toDuration v) 1000000000 ≤ 9223372036854775807 := by
      unfold runDrift FreqDrift.drift FreqDrift.duration toDuration
      split
      · decide
      · exact (ScionTime.GoLemmas.toInt64_range _).2
    rw [ScionTime.GoLemmas.toInt_ofInt_of_fits _ (by omega) hr]
    exact hp

/-- `r` is `.ok c` with `p c` -/
def _root_.ScionTime.MainCfg.Res.okAnd {α : Type} (r : Res α) (p : α → Bool) : Bool :=
  match r with
  | .ok c => p c
  | _ => false

/-- instances: `clock_drift = 0.00001` (10 µs/s, a typical value), absent, and 1e-10 (< 1 ns/s:
    treated as unknown) start; a negative one is refused by `clockDrift` before `Run` is reached -/
example :
    (startCfg {} (ofConst 1 100000) 2 1).okAnd (fun c => c.drift == 10000 && admissible c) = true ∧
    (startCfg {} (.zero false) 2 1).okAnd (fun c => c.drift == Int64.maxValue && admissible c) = true ∧
    (startCfg {} (ofConst 1 10000000000) 2 1).okAnd (fun c => c.drift == Int64.maxValue) = true ∧
    (startCfg {} (ofConst (-1) 100000) 2 1).okAnd (fun _ => true) = false := by
  decide +kernel

/-! ### clockDrift, dscp -/

/-- `clockDrift`: refused iff the configured value is below zero; otherwise seconds → ns.
    Absent (0) gives 0 = `clocks.UnknownDrift`. -/
theorem C01Cfg_clockDrift (v : F64) :
    (F64.lt v (.zero false) = true → clockDrift v = .fatal "invalid clock drift value specified in config") ∧
    (F64.lt v (.zero false) = false → clockDrift v = .ok (toDuration v)) ∧
    clockDrift (.zero false) = .ok 0 := by
  refine ⟨?_, ?_, by decide +kernel⟩ <;> intro h <;> simp [clockDrift, h]

/-- `dscp`: exactly the values 0..63 are accepted, unchanged -/
theorem C01Cfg_dscp (v : Nat) : (v ≤ 63 → dscp v = .ok v) ∧ (63 < v → ∃ m, dscp v = .fatal m) := by
  constructor
  · intro h; simp [dscp]; omega
  · intro h; exact ⟨"invalid differentiated services codepoint value specified in config", by simp [dscp, h]⟩

end ScionTime.Props.C01Cfg
