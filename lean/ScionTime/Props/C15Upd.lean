/-
  C15 — what the path table of net/scion/pather.go offers to the rounds of a SCION reference
  clock (`ntpReferenceClockSCION.MeasureClockOffset` passes `pather.Paths(remoteIA)` to
  `MeasureClockOffsetSCION`), refresh after refresh. Model: Model/Pather.lean (`update`, `fill`,
  `run`); the rows of `update` / `StartPather` are pinned in Props/SkelC15; harness c15 ops
  `pd.start` / `pd.refresh` / `pd.round` run the real `StartPather` / `update` / `Paths` behind a
  stand-in for the SCION daemon's gRPC service.

  Finding (repaired, `fix:` in /repo): a destination IA that occurs more than once in the
  configured list (two reference clocks, or a reference clock and a peer, in one AS) had the
  daemon's answer appended once per occurrence, so `Paths` offered every path twice and two clients
  of one round probed the same path. `updateOld` = the code as found.
-/
import ScionTime.Model.Pather
import ScionTime.Props.C15
import ScionTime.Gen.Scion
namespace ScionTime.C15Upd
open ScionTime.Pather ScionTime.Multipath List

/-! ### regenerated facts -/

/-- Lock discipline of `Pather.mu` (harness/extract/x_c15pather.go): in package net/scion every
    access to the guarded fields `paths` / `localIA` through a Pather sits between `mu.Lock()` and
    `mu.Unlock()` (`@held`), or initialises a Pather that is not shared yet (`@new`, the verif
    hook); no access is `@FREE`. The writer (`update`) builds the new map in a local and touches
    the fields only to install it. -/
theorem C15Upd_pin_lock_discipline :
    Gen.Scion.Pather_lock_discipline =
      "Pather.LocalIA:localIA@held Pather.Paths:paths@held VerifC15Held:paths@held VerifC15NewPather:localIA@new VerifC15NewPather:paths@new update:localIA@held update:paths@held" := by
  rfl

/-- the refresh period of the goroutine started by `StartPather`: 15 s -/
theorem C15Upd_pin_refresh_period : Gen.Scion.pathRefreshPeriod = 15 * 1000000000 := by decide

/-! ### the map primitives -/

theorem get?_appendAt_same (m : PathMap) (ia : IA) (ps : List Path) :
    (m.appendAt ia ps).get? ia = some ((m.get? ia).getD [] ++ ps) := by
  induction m with
  | nil => simp [PathMap.appendAt, PathMap.get?]
  | cons kv rest ih =>
    obtain ⟨k, v⟩ := kv
    by_cases h : k = ia
    · simp [PathMap.appendAt, PathMap.get?, h]
    · simp [PathMap.appendAt, PathMap.get?, h, ih]

theorem get?_appendAt_other (m : PathMap) (ia ia' : IA) (ps : List Path) (h : ia' ≠ ia) :
    (m.appendAt ia ps).get? ia' = m.get? ia' := by
  induction m with
  | nil => simp [PathMap.appendAt, PathMap.get?, Ne.symm h]
  | cons kv rest ih =>
    obtain ⟨k, v⟩ := kv
    by_cases hk : k = ia
    · subst hk
      simp [PathMap.appendAt, PathMap.get?, Ne.symm h]
    · by_cases hk' : k = ia'
      · subst hk'
        simp [PathMap.appendAt, PathMap.get?, h]
      · simp [PathMap.appendAt, PathMap.get?, hk, hk', ih]

/-- the daemon's answer for `ia` as the loop uses it: a failed lookup counts as no paths -/
def answer (d : Daemon) (ia : IA) : List Path := (d.paths ia).getD []

/-- the loop of the REPAIRED `update`: an entry, once made, is final; a configured destination
    without an entry gets the daemon's answer; nothing else appears. -/
theorem fill_new (d : Daemon) (dsts : List IA) (m : PathMap)
    (hw : ∀ ia ∈ dsts, isWildcard ia = false) :
    ∃ m', Pather.fill true d m dsts = some m' ∧
      ∀ dst, m'.get? dst =
        if (m.get? dst).isSome then m.get? dst
        else if dst ∈ dsts then some (answer d dst) else none := by
  induction dsts generalizing m with
  | nil => exact ⟨m, rfl, fun dst => by cases m.get? dst <;> simp⟩
  | cons ia rest ih =>
    have hia : isWildcard ia = false := hw ia (by simp)
    have hrest : ∀ x ∈ rest, isWildcard x = false := fun x hx => hw x (by simp [hx])
    unfold Pather.fill
    simp only [hia, Bool.false_eq_true, if_false, Bool.true_and]
    by_cases hp : (m.get? ia).isSome
    · simp only [hp, if_true]
      obtain ⟨m', hm', hget⟩ := ih m hrest
      refine ⟨m', hm', fun dst => ?_⟩
      rw [hget dst]
      by_cases hd : (m.get? dst).isSome
      · simp [hd]
      · by_cases hdi : dst = ia
        · subst hdi; exact absurd hp hd
        · simp [hd, hdi]
    · simp only [hp, Bool.false_eq_true, if_false]
      obtain ⟨m', hm', hget⟩ := ih (m.appendAt ia ((d.paths ia).getD [])) hrest
      refine ⟨m', hm', fun dst => ?_⟩
      rw [hget dst]
      have hnone : m.get? ia = none := by
        cases h : m.get? ia with
        | none => rfl
        | some _ => rw [h] at hp; simp at hp
      by_cases hdi : dst = ia
      · subst hdi
        rw [get?_appendAt_same, hnone]
        simp [answer]
      · rw [get?_appendAt_other _ _ _ _ hdi]
        by_cases hd : (m.get? dst).isSome
        · simp [hd]
        · simp [hd, hdi]

/-- the loop of `update` AS FOUND: the daemon's answer is appended once per occurrence of the
    destination in the configured list. -/
theorem fill_old (d : Daemon) (dsts : List IA) (m : PathMap)
    (hw : ∀ ia ∈ dsts, isWildcard ia = false) :
    ∃ m', Pather.fill false d m dsts = some m' ∧
      ∀ dst, m'.get? dst =
        if (m.get? dst).isSome ∨ dst ∈ dsts then
          some ((m.get? dst).getD [] ++ (List.replicate (dsts.count dst) (answer d dst)).flatten)
        else none := by
  induction dsts generalizing m with
  | nil =>
    refine ⟨m, rfl, fun dst => ?_⟩
    cases h : m.get? dst <;> simp
  | cons ia rest ih =>
    have hia : isWildcard ia = false := hw ia (by simp)
    have hrest : ∀ x ∈ rest, isWildcard x = false := fun x hx => hw x (by simp [hx])
    unfold Pather.fill
    simp only [hia, Bool.false_eq_true, if_false, Bool.false_and]
    obtain ⟨m', hm', hget⟩ := ih (m.appendAt ia ((d.paths ia).getD [])) hrest
    refine ⟨m', hm', fun dst => ?_⟩
    rw [hget dst]
    by_cases hdi : dst = ia
    · subst hdi
      rw [get?_appendAt_same]
      simp [answer, List.count_cons_self, List.replicate_succ, List.append_assoc]
    · rw [get?_appendAt_other _ _ _ _ hdi]
      have : (ia == dst) = false := by simp [Ne.symm hdi]
      simp [hdi, List.count_cons, this]

/-! ### one refresh -/

/-- A refresh whose local-IA lookup fails changes nothing: the table and the local IA stay as they
    were, whatever the destination list (it is not even looked at — no wildcard panic either). -/
theorem C15Upd_lookup_error_keeps_table (b : Bool) (t : Table) (d : Daemon) (dsts : List IA)
    (h : d.localIA = none) : update b t d dsts = .done t := by
  simp [update, h]

/-- A refresh whose local-IA lookup succeeds installs a table that is a function of THIS refresh's
    answers and the configured list only — nothing of the previous table survives. -/
theorem C15Upd_refresh_forgets (b : Bool) (t t0 : Table) (d : Daemon) (dsts : List IA)
    (h : d.localIA.isSome) : update b t d dsts = update b t0 d dsts := by
  unfold update
  cases hl : d.localIA with
  | none => rw [hl] at h; simp at h
  | some l => rfl

/-- What `Paths(dst)` returns after a refresh of the REPAIRED code (local-IA lookup succeeded, no
    wildcard configured): for a configured destination exactly the daemon's answer of that refresh
    (the empty list if that lookup failed), however often the destination is configured; nil for a
    destination that is not configured. -/
theorem C15Upd_offer_after_refresh (t : Table) (d : Daemon) (dsts : List IA) (l : IA)
    (hl : d.localIA = some l) (hw : ∀ ia ∈ dsts, isWildcard ia = false) :
    ∃ t', update true t d dsts = .done t' ∧ t'.localIA = l ∧
      ∀ dst, t'.pathsOf dst = if dst ∈ dsts then some (answer d dst) else none := by
  obtain ⟨m', hm', hget⟩ := fill_new d dsts [] hw
  refine ⟨{ localIA := l, paths := some m' }, by simp [update, hl, hm'], rfl, fun dst => ?_⟩
  simp only [Table.pathsOf, hget dst]
  simp [PathMap.get?]

/-- … and AS FOUND: the answer repeated once per occurrence of the destination in the list. -/
theorem C15Upd_old_offer_after_refresh (t : Table) (d : Daemon) (dsts : List IA) (l : IA)
    (hl : d.localIA = some l) (hw : ∀ ia ∈ dsts, isWildcard ia = false) :
    ∃ t', updateOld t d dsts = .done t' ∧ t'.localIA = l ∧
      ∀ dst, t'.pathsOf dst =
        if dst ∈ dsts then some (List.replicate (dsts.count dst) (answer d dst)).flatten else none := by
  obtain ⟨m', hm', hget⟩ := fill_old d dsts [] hw
  refine ⟨{ localIA := l, paths := some m' }, by simp [updateOld, update, hl, hm'], rfl, fun dst => ?_⟩
  simp only [Table.pathsOf, hget dst]
  simp [PathMap.get?]

/-- Repaired: the offer for a destination is as duplicate-free as the daemon's answer. -/
theorem C15Upd_offer_nodup (t t' : Table) (d : Daemon) (dsts : List IA) (l : IA) (dst : IA) (ps : List Path)
    (hl : d.localIA = some l) (hw : ∀ ia ∈ dsts, isWildcard ia = false)
    (hu : update true t d dsts = .done t') (hp : t'.pathsOf dst = some ps)
    (hnd : (answer d dst).Nodup) : ps.Nodup := by
  obtain ⟨t'', hu', _, hget⟩ := C15Upd_offer_after_refresh t d dsts l hl hw
  rw [hu] at hu'
  cases hu'
  rw [hget dst] at hp
  by_cases hd : dst ∈ dsts
  · simp only [hd, if_true, Option.some.injEq] at hp
    rw [← hp]; exact hnd
  · simp [hd] at hp

/-- A transient lookup error for one destination empties its offer until the next refresh (15 s;
    the paths of the previous table are dropped, not kept): every round of a reference clock in
    that AS during that period reports `errNoPath` and resets ALL its clients (with their filters),
    whatever their state. (Observation: by C15's text this is the prescribed reaction to "no path
    is available"; that the daemon still had paths a refresh earlier is not considered.) -/
theorem C15Upd_lookup_error_empties_offer (b : Bool) (t : Table) (d : Daemon) (dsts : List IA) (l : IA) (dst : IA)
    (hl : d.localIA = some l) (hw : ∀ ia ∈ dsts, isWildcard ia = false)
    (hd : dst ∈ dsts) (herr : d.paths dst = none)
    (ftm : List Int → Int) (f11 f12 : Bool) (cs : List Client) (c : Bool) (s : Sample.Stream) (succ : List (Option Int)) :
    ∃ t', update b t d dsts = .done t' ∧ t'.pathsOf dst = some [] ∧
      (round ftm f11 f12 cs (([] : List Path).map (·.2)) c s succ).res = .errNoPath ∧
      (round ftm f11 f12 cs (([] : List Path).map (·.2)) c s succ).reset = cs.map fun _ => true := by
  have hans : answer d dst = [] := by simp [answer, herr]
  cases b with
  | true =>
    obtain ⟨t', hu, _, hget⟩ := C15Upd_offer_after_refresh t d dsts l hl hw
    refine ⟨t', hu, by simp [hget dst, hd, hans], ?_⟩
    exact C15.C15_no_path_error ftm f11 f12 cs c s succ
  | false =>
    obtain ⟨t', hu, _, hget⟩ := C15Upd_old_offer_after_refresh t d dsts l hl hw
    refine ⟨t', hu, by simp [hget dst, hd, hans], ?_⟩
    exact C15.C15_no_path_error ftm f11 f12 cs c s succ

theorem fill_wildcard (b : Bool) (d : Daemon) (dsts : List IA) (m : PathMap)
    (hw : ∃ ia ∈ dsts, isWildcard ia = true) : Pather.fill b d m dsts = none := by
  induction dsts generalizing m with
  | nil => simp at hw
  | cons ia rest ih =>
    unfold Pather.fill
    by_cases hia : isWildcard ia = true
    · simp [hia]
    · have hr : ∃ x ∈ rest, isWildcard x = true := by
        obtain ⟨x, hx, hxw⟩ := hw
        simp only [mem_cons] at hx
        rcases hx with rfl | hx
        · exact absurd hxw hia
        · exact ⟨x, hx, hxw⟩
      simp only [hia, Bool.false_eq_true, if_false]
      split
      · exact ih m hr
      · exact ih _ hr

/-- A wildcard IA (ISD 0 or AS 0) among the configured destinations makes `update` panic — but only
    in a refresh whose local-IA lookup succeeds. -/
theorem C15Upd_wildcard_panics (b : Bool) (t : Table) (d : Daemon) (dsts : List IA) (l : IA)
    (hl : d.localIA = some l) (hw : ∃ ia ∈ dsts, isWildcard ia = true) :
    (match update b t d dsts with | .panicWildcard => true | .done _ => false) = true := by
  simp [update, hl, fill_wildcard b d dsts [] hw]

/-! ### histories of refreshes (StartPather + refresh goroutine) -/

/-- the answers of the most recent refresh whose local-IA lookup succeeded -/
def lastInstalled (ds : List Daemon) : Option Daemon := (ds.filter (·.localIA.isSome)).getLast?

/-- After ANY history of refreshes (no wildcard configured) the table is the one installed by the
    most recent refresh whose local-IA lookup succeeded — as if that refresh had run on a new
    Pather — and the initial table if there was none: no accumulation, no memory of earlier
    answers, no panic. So `Paths(dst)` after the history is given by `C15Upd_offer_after_refresh`
    for that refresh alone. -/
theorem C15Upd_history_last_installed (b : Bool) (dsts : List IA) (hw : ∀ ia ∈ dsts, isWildcard ia = false)
    (ds : List Daemon) (t : Table) (k : Nat) :
    ∃ t', run b dsts t k ds = .inl t' ∧
      match lastInstalled ds with
      | none => t' = t
      | some d => update b {} d dsts = .done t' := by
  induction ds generalizing t k with
  | nil => exact ⟨t, rfl, by simp [lastInstalled]⟩
  | cons d rest ih =>
    cases hl : d.localIA with
    | none =>
      have hu : update b t d dsts = .done t := C15Upd_lookup_error_keeps_table b t d dsts hl
      obtain ⟨t', hr, hm⟩ := ih t (k + 1)
      refine ⟨t', by simp [run, hu, hr], ?_⟩
      have : lastInstalled (d :: rest) = lastInstalled rest := by simp [lastInstalled, hl]
      rw [this]; exact hm
    | some l =>
      obtain ⟨t1, hu1⟩ : ∃ t1, update b t d dsts = .done t1 := by
        cases b with
        | true => obtain ⟨t1, h, _⟩ := C15Upd_offer_after_refresh t d dsts l hl hw; exact ⟨t1, h⟩
        | false => obtain ⟨t1, h, _⟩ := C15Upd_old_offer_after_refresh t d dsts l hl hw; exact ⟨t1, h⟩
      obtain ⟨t', hr, hm⟩ := ih t1 (k + 1)
      refine ⟨t', by simp [run, hu1, hr], ?_⟩
      have hsome : d.localIA.isSome := by simp [hl]
      cases hli : lastInstalled rest with
      | some d' =>
        have : lastInstalled (d :: rest) = some d' := by
          simp only [lastInstalled, List.filter_cons, hsome, if_true] at hli ⊢
          cases hf : rest.filter (·.localIA.isSome) with
          | nil => rw [hf] at hli; simp at hli
          | cons x xs => rw [hf] at hli; simp [List.getLast?_cons_cons] at hli ⊢; exact hli
        rw [this]; rw [hli] at hm; exact hm
      | none =>
        have hnil : rest.filter (·.localIA.isSome) = [] := by
          simp only [lastInstalled] at hli
          cases hf : rest.filter (·.localIA.isSome) with
          | nil => rfl
          | cons x xs => rw [hf] at hli; simp at hli
        have : lastInstalled (d :: rest) = some d := by
          simp [lastInstalled, hsome, hnil]
        rw [this]; rw [hli] at hm
        simp only at hm ⊢
        rw [hm, C15Upd_refresh_forgets b {} t d dsts hsome]; exact hu1

/-! ### instances (non-vacuity; the finding) -/

def iaA : IA := 281474976710656 + 0xff0000000112
def iaW : IA := 281474976710656           -- 1-0: AS 0
def p0 : Path := (0, "q0")
def p1 : Path := (1, "q1")

/-- a daemon that answers: a ↦ [p0, p1] -/
def dOk : Daemon := { localIA := some 7, paths := fun ia => if ia = iaA then some [p0, p1] else none }
/-- a daemon that cannot be reached -/
def dDown : Daemon := { localIA := none, paths := fun _ => none }
/-- the lookup for a fails -/
def dErrA : Daemon := { localIA := some 7, paths := fun _ => none }

def offer (r : UpdRes) (dst : IA) : Option (List Path) :=
  match r with
  | .done t => t.pathsOf dst
  | .panicWildcard => none

example : isWildcard iaA = false ∧ isWildcard iaW = true ∧ isWildcard 0 = true := by decide
example : offer (updateNew {} dOk [iaA, iaA]) iaA = some [p0, p1] := by decide
example : offer (updateNew {} dErrA [iaA]) iaA = some [] ∧ offer (updateNew {} dOk [iaA]) 5 = none := by decide

/-- FINDING (as found): the destination configured twice ⇒ `Paths` offers [p0, p1, p0, p1]; three
    clients of one round then probe paths 0, 1 and 0 again — whatever the random generator says
    (with fewer candidates than clients no draw is made): two clients probe the same path and the
    midpoint is taken over two values of one path. Repaired: [p0, p1], two participants. -/
theorem C15Upd_old_repeated_destination_same_path_twice :
    offer (updateOld {} dOk [iaA, iaA]) iaA = some [p0, p1, p0, p1] ∧
    (roundP (fun _ => 0) true true [⟨true, false, false, ""⟩, ⟨true, false, false, ""⟩, ⟨true, false, false, ""⟩]
        [p0, p1, p0] false [] [some 1, some 2, some 3]).assigned = [some 0, some 1, some 0] ∧
    offer (updateNew {} dOk [iaA, iaA]) iaA = some [p0, p1] ∧
    (roundP (fun _ => 0) true true [⟨true, false, false, ""⟩, ⟨true, false, false, ""⟩, ⟨true, false, false, ""⟩]
        [p0, p1] false [] [some 1, some 2, some 3]).assigned = [some 0, some 1, none] := by
  decide

/-- The wildcard panic can fire for the first time inside the refresh goroutine: with the daemon
    unreachable when the service starts, the first two updates return early (the destination list is
    not looked at), and the third — a tick of the refresh goroutine, 30 s later — panics: the process
    dies long after start-up because of a configuration mistake. (Observation; configuration input.) -/
theorem C15Upd_wildcard_panic_can_be_late :
    (match run true [iaA, iaW] {} 0 [dDown, dDown, dOk, dOk] with | .inr k => some k | .inl _ => none) = some 2 ∧
    (match run true [iaA, iaW] {} 0 [dOk] with | .inr k => some k | .inl _ => none) = some 0 := by
  decide

/-- a history: down, answer, lookup error for a, down ⇒ the offer for a is empty (the error's
    refresh was the last one installed); the earlier answer is gone -/
example :
    (match run true [iaA] {} 0 [dDown, dOk, dErrA, dDown] with
     | .inl t => t.pathsOf iaA | .inr _ => none) = some [] ∧
    (match run true [iaA] {} 0 [dDown, dOk, dDown] with
     | .inl t => t.pathsOf iaA | .inr _ => none) = some [p0, p1] ∧
    (match run true [iaA] {} 0 [dDown, dDown] with
     | .inl t => t.pathsOf iaA | .inr _ => none) = none := by
  decide

end ScionTime.C15Upd
