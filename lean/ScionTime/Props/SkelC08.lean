import ScionTime.Gen.SkelC08
import ScionTime.Model.Skel.Udp
import ScionTime.Model.Skel.Quic

/-!
  Control-skeleton pins, group C08 (notes/SKEL.md): the control structure and the text of every
  condition, call and assignment of the functions below, re-read from /repo on every run
  (`Gen.Skel.*`, harness/extract/skeleton.go), are exactly the ones the hand-written models were
  written against (`Model.Skel.*`, annotated row by row with the model definition that mirrors
  each statement).  A broken pin means the code was edited inside a modelled function: the model
  has to be re-read against the rows named by the `SKEL-DIFF` diagnostic.
-/
namespace ScionTime

/-! diagnostics (not obligations): name the rows that differ when a pin below breaks -/
#eval Model.Skel.check "Udp.TimestampFromOOBData" Gen.Skel.Udp.TimestampFromOOBData Model.Skel.Udp.TimestampFromOOBData
#eval Model.Skel.check "Udp.timestampFromOOBData" Gen.Skel.Udp.timestampFromOOBData Model.Skel.Udp.timestampFromOOBData
#eval Model.Skel.check "Udp.ReadTXTimestamp" Gen.Skel.Udp.ReadTXTimestamp Model.Skel.Udp.ReadTXTimestamp
#eval Model.Skel.check "Quic.baseConn_readPkt" Gen.Skel.Quic.baseConn_readPkt Model.Skel.Quic.baseConn_readPkt
#eval Model.Skel.check "Quic.serverConn_ReadFrom" Gen.Skel.Quic.serverConn_ReadFrom Model.Skel.Quic.serverConn_ReadFrom
#eval Model.Skel.check "Quic.clientConn_ReadFrom" Gen.Skel.Quic.clientConn_ReadFrom Model.Skel.Quic.clientConn_ReadFrom

/-! the pins -/
theorem C08_skel_Udp_TimestampFromOOBData : Gen.Skel.Udp.TimestampFromOOBData = Model.Skel.Udp.TimestampFromOOBData := rfl
theorem C08_skel_Udp_timestampFromOOBData : Gen.Skel.Udp.timestampFromOOBData = Model.Skel.Udp.timestampFromOOBData := rfl
theorem C08_skel_Udp_ReadTXTimestamp : Gen.Skel.Udp.ReadTXTimestamp = Model.Skel.Udp.ReadTXTimestamp := rfl
theorem C08_skel_Quic_baseConn_readPkt : Gen.Skel.Quic.baseConn_readPkt = Model.Skel.Quic.baseConn_readPkt := rfl
theorem C08_skel_Quic_serverConn_ReadFrom : Gen.Skel.Quic.serverConn_ReadFrom = Model.Skel.Quic.serverConn_ReadFrom := rfl
theorem C08_skel_Quic_clientConn_ReadFrom : Gen.Skel.Quic.clientConn_ReadFrom = Model.Skel.Quic.clientConn_ReadFrom := rfl

end ScionTime
