/-
  C08 — the CSPTP listener (core/server/server_csptp_ip.go: StartCSPTPServerIP, runCSPTPServerIP)
  as a state machine; model: Model/CsptpSrv.lean; lemmas: Proofs/CsptpSrv.lean.

  What holds for the code at this commit, for every history of datagrams on all sixteen sockets:
  * no iteration panics; every iteration ends (the model is a total function without fuel);
  * the package-level client table is never written: the pending state is empty for ever
    (bounded, trivially) — and the listener never sends a datagram: the pairing of Sync and
    Follow_Up is not implemented (`sequenceComplete` is never set), the response block is dead;
  * what an iteration decides depends on the datagram alone — not on earlier datagrams, stale
    buffer content or the table: after ANY history a well-formed request pair is still taken up
    (verdict `requestSync` / `requestFollowUp` with exactly the header and TLV sent).  This is the
    form "the next well-formed request on the same socket is still answered" takes for a listener
    that answers nothing: it is processed exactly as a fresh listener processes it;
  * acceptance is characterised byte for byte; the TLV's `Length` field is not looked at;
  * a Follow_Up that carries a response TLV is never accepted as a request (no reflection at the
    validation level, independent of the missing pairing), a response Sync however is
    indistinguishable from a request Sync;
  * the dead response block, were it reached, would dereference the nil `eConn`; with connections
    it would send a pair whose timestamps are all zero (decided: not a measurement).
-/
import ScionTime.Proofs.CsptpSrv
import ScionTime.Model.CsptpSkeleton
import ScionTime.Model.CsptpClient
import ScionTime.Gen.Server
import ScionTime.Gen.Csptp
namespace ScionTime.C08CsptpSrv
open ScionTime.Wire ScionTime.Csptp ScionTime.CsptpSrv

set_option maxRecDepth 20000

/-! ### constants and code shape, re-read from /repo on every run -/

theorem C08_pin_csptpsrv_constants :
    Gen.Csptp.EventPortIP = eventPortIP ∧ Gen.Csptp.GeneralPortIP = generalPortIP ∧
    Gen.Csptp.MaxMessageLength = maxMessageLength ∧ Gen.Csptp.MinMessageLength = minMessageLength ∧
    Gen.Csptp.MessageTypeSync = messageTypeSync ∧ Gen.Csptp.MessageTypeFollowUp = messageTypeFollowUp ∧
    Gen.Csptp.PTPVersion = ptpVersion ∧ Gen.Csptp.FlagTwoStep = flagTwoStep ∧ Gen.Csptp.FlagUnicast = flagUnicast ∧
    Gen.Csptp.ControlSync = controlSync ∧ Gen.Csptp.ControlFollowUp = controlFollowUp ∧
    Gen.Csptp.LogMessageInterval = logMessageInterval ∧ Gen.Csptp.DomainNumber = 0 ∧ Gen.Csptp.MinorSdoID = 0 ∧
    Gen.Csptp.TLVTypeOrganizationExtension = tlvTypeOrganizationExtension ∧
    Gen.Csptp.TLVFlagServerStateDS = tlvFlagServerStateDS ∧
    Gen.Csptp.OrganizationIDMeinberg0 * 65536 + Gen.Csptp.OrganizationIDMeinberg1 * 256 + Gen.Csptp.OrganizationIDMeinberg2 = orgIDMeinberg ∧
    Gen.Csptp.OrganizationSubTypeRequest0 * 65536 + Gen.Csptp.OrganizationSubTypeRequest1 * 256 + Gen.Csptp.OrganizationSubTypeRequest2 = orgSubTypeRequest ∧
    Gen.Csptp.OrganizationSubTypeResponse0 * 65536 + Gen.Csptp.OrganizationSubTypeResponse1 * 256 + Gen.Csptp.OrganizationSubTypeResponse2 = orgSubTypeResponse ∧
    Gen.Server.csptpContextCap = csptpContextCap ∧ Gen.Server.csptpClientCap = csptpClientCap ∧
    Gen.Server.ipServerNumGoroutine = ipServerNumGoroutine := by decide

/-- the validation part of one loop iteration is, condition for condition and record for record,
    what `validate` transcribes -/
theorem C08_pin_csptpsrv_validation : Gen.Server.csptpsrv_skeleton = CsptpSkeleton.serverValidation := rfl

/-- the pairing is not implemented: the locked section only reads two lengths, none of
    `sequenceComplete`, `sequenceID`, `syncSrcPort`, `followUpSrcPort`, `eConn`, `gConn` is ever
    assigned, and no statement of the package writes `csptpClients` / `csptpClientsQ` -/
theorem C08_pin_csptpsrv_pairing_unimplemented :
    Gen.Server.csptpsrv_pairing = CsptpSkeleton.serverPairing ∧ Gen.Server.csptpsrv_neverAssigned = 0 ∧
    Gen.Server.csptpsrv_tableWrites = 0 := ⟨rfl, by decide, by decide⟩

/-- buffer size, ports, and the refusal of a configured port -/
theorem C08_pin_csptpsrv_sockets :
    Gen.Server.csptpsrv_bufLen = "csptp.MaxMessageLength" ∧
    Gen.Server.csptpsrv_ports = ["csptp.EventPortIP", "csptp.GeneralPortIP"] ∧
    Gen.Server.csptpsrv_portMustBeZero = 1 := ⟨rfl, rfl, by decide⟩

/-! ### one iteration -/

/-- C08 for one iteration on any socket in any state: it does not panic, sends nothing, leaves
    the client table and the socket's identity alone, and keeps the buffer at 98 bytes. -/
theorem C08_csptpsrv_step_total (k : Sock) (s : State) (e : Event) (hk : k.backing.length = maxMessageLength) :
    (step k s e).2.2.1.isPanic = false ∧ (step k s e).2.2.2 = ⟨[], none⟩ ∧ (step k s e).2.1 = s ∧
    (step k s e).1.backing.length = maxMessageLength ∧ (step k s e).1.port = k.port ∧
    (step k s e).1.eConn = k.eConn ∧ (step k s e).1.gConn = k.gConn := by
  cases e with
  | readErr => exact ⟨rfl, rfl, rfl, hk, rfl, rfl, rfl⟩
  | dgram wire f src rxt =>
    rw [step_dgram k s wire f src rxt hk]
    exact ⟨verdictOf_no_panic _ _ _, rfl, rfl, recvInto_length _ _ hk, rfl, rfl, rfl⟩

/-- The verdict on a datagram is a function of the port and the datagram: stale buffer content
    (earlier datagrams, shorter or longer) and the table play no part. -/
theorem C08_csptpsrv_verdict_is_function_of_datagram (k : Sock) (s : State) (wire : List Nat) (f : Nat)
    (src : AddrPort) (rxt : Int) (hk : k.backing.length = maxMessageLength) :
    (step k s (.dgram wire f src rxt)).2.2.1 = verdictOf k.port wire f := by
  rw [step_dgram k s wire f src rxt hk]

/-! ### all histories on all sockets -/

/-- reachable shape of the listener: sixteen sockets, 98-byte buffers, ports 319 ×8 then 320 ×8 -/
def SysWF (y : Sys) : Prop :=
  y.socks.length = 2 * ipServerNumGoroutine ∧
  ∀ i k, y.socks[i]? = some k → k.backing.length = maxMessageLength ∧
    k.port = (if i < ipServerNumGoroutine then eventPortIP else generalPortIP)

theorem C08_csptpsrv_start_wellformed : SysWF Sys.start := by
  refine ⟨by decide, ?_⟩
  intro i k h
  have hi : i < 16 := by
    have := (List.getElem?_eq_some_iff.mp h).1
    simpa [Sys.start, startSocks, ipServerNumGoroutine] using this
  have : ∀ j, j < 16 → ∀ k, Sys.start.socks[j]? = some k → k.backing.length = maxMessageLength ∧
      k.port = (if j < ipServerNumGoroutine then eventPortIP else generalPortIP) := by decide
  exact this i hi k h

theorem C08_csptpsrv_sysStep_spec (y : Sys) (i : Nat) (e : Event) (hy : SysWF y) :
    SysWF (sysStep y i e).1 ∧ (sysStep y i e).1.state = y.state ∧ (sysStep y i e).2.2 = ⟨[], none⟩ ∧
    (sysStep y i e).2.1.isPanic = false := by
  unfold sysStep
  cases hk : y.socks[i]? with
  | none => exact ⟨hy, rfl, rfl, rfl⟩
  | some k =>
    obtain ⟨hb, hp⟩ := hy.2 i k hk
    obtain ⟨h1, h2, h3, h4, h5, _, _⟩ := C08_csptpsrv_step_total k y.state e hb
    simp only
    refine ⟨⟨by simpa using hy.1, ?_⟩, h3, h2, h1⟩
    intro j k' hj
    by_cases hij : i = j
    · subst hij
      have hi : i < y.socks.length := (List.getElem?_eq_some_iff.mp hk).1
      rw [List.getElem?_set_self hi] at hj
      cases hj
      exact ⟨h4, by rw [h5, hp]⟩
    · rw [List.getElem?_set_ne hij] at hj
      exact hy.2 j k' hj

theorem C08_csptpsrv_sysRun_spec (h : List (Nat × Event)) : ∀ (y : Sys), SysWF y →
    SysWF (sysRun y h).1 ∧ (sysRun y h).1.state = y.state ∧ ∀ eff ∈ (sysRun y h).2, eff = ⟨[], none⟩ := by
  induction h with
  | nil => intro y hy; exact ⟨hy, rfl, by simp [sysRun]⟩
  | cons ie rest ih =>
    intro y hy
    obtain ⟨i, e⟩ := ie
    obtain ⟨w1, s1, e1, _⟩ := C08_csptpsrv_sysStep_spec y i e hy
    obtain ⟨w2, s2, e2⟩ := ih (sysStep y i e).1 w1
    simp only [sysRun]
    refine ⟨w2, by rw [s2, s1], ?_⟩
    intro eff hm
    rcases List.mem_cons.mp hm with h | h
    · rw [h]; exact e1
    · exact e2 eff h

/-- **C08, all histories.**  Whatever datagrams arrive on whichever of the sixteen sockets in
    whatever order: no iteration panics, and the listener never sends a datagram. -/
theorem C08_csptpsrv_never_panics_never_sends (h : List (Nat × Event)) :
    ∀ eff ∈ (sysRun Sys.start h).2, eff.panic = none ∧ eff.outs = [] := by
  intro eff hm
  rw [(C08_csptpsrv_sysRun_spec h Sys.start C08_csptpsrv_start_wellformed).2.2 eff hm]
  exact ⟨rfl, rfl⟩

/-- **Pending state.**  After any history the client table is what it was at start: empty.  The
    code does not bound the table by evicting — it never inserts.  (`csptpClientCap` = 2^20
    queue slots are allocated once at package initialisation; no input makes memory grow.) -/
theorem C08_csptpsrv_pending_state_constant (h : List (Nat × Event)) :
    (sysRun Sys.start h).1.state = init ∧ (sysRun Sys.start h).1.state.clients.length ≤ csptpClientCap ∧
    (sysRun Sys.start h).1.state.queue.length ≤ csptpClientCap := by
  have := (C08_csptpsrv_sysRun_spec h Sys.start C08_csptpsrv_start_wellformed).2.1
  rw [this]
  exact ⟨rfl, by decide, by decide⟩

/-- **Progress / history independence.**  After any history, the iteration socket `i` performs on
    a datagram gives the verdict a fresh listener gives: a function of the socket's port and the
    datagram. -/
theorem C08_csptpsrv_verdict_after_any_history (h : List (Nat × Event)) (i : Nat) (hi : i < 2 * ipServerNumGoroutine)
    (wire : List Nat) (f : Nat) (src : AddrPort) (rxt : Int) :
    (sysStep (sysRun Sys.start h).1 i (.dgram wire f src rxt)).2.1 =
      verdictOf (if i < ipServerNumGoroutine then eventPortIP else generalPortIP) wire f := by
  obtain ⟨⟨hl, hw⟩, _, _⟩ := C08_csptpsrv_sysRun_spec h Sys.start C08_csptpsrv_start_wellformed
  unfold sysStep
  have hlt : i < (sysRun Sys.start h).1.socks.length := by rw [hl]; exact hi
  rw [List.getElem?_eq_getElem hlt]
  obtain ⟨hb, hp⟩ := hw i _ (List.getElem?_eq_getElem hlt)
  simp only
  rw [step_dgram _ _ wire f src rxt hb, hp]

/-! ### which datagrams are taken up as requests -/

/-- A datagram is taken up as a Sync request exactly when it arrives on port 319 untruncated, is
    44 bytes long, says so in its length field, and its first byte is 0. -/
theorem C08_csptpsrv_sync_accept_iff (port : Nat) (wire : List Nat) (f : Nat) (m : Message) :
    verdictOf port wire f = .requestSync m ↔
      f = 0 ∧ port = eventPortIP ∧ wire.length = minMessageLength ∧ decodeMessage wire = .ok m ∧
      m.sdoIDMessageType = messageTypeSync ∧ m.messageLength = minMessageLength := by
  unfold verdictOf
  constructor
  · intro h
    by_cases hf : recvFlags wire.length f ≠ 0
    · rw [if_pos hf] at h; cases h
    · rw [if_neg hf] at h
      have hf0 : recvFlags wire.length f = 0 := by omega
      rw [take_max_of_flags hf0] at h
      unfold validateData at h
      split at h
      · cases h
      · rename_i hlen
        rcases C14.msg_decode_total (wire.take minMessageLength) with ⟨_, hm⟩ | ⟨_, hm⟩
        · rw [hm] at h; cases h
        · rw [hm] at h
          simp only at h
          split at h
          · cases h
          · rename_i hml
            split at h
            · rename_i hty
              split at h
              · cases h
              · rename_i hz
                have hw : wire.length = minMessageLength := by omega
                have htk : wire.take minMessageLength = wire := List.take_of_length_le (by omega)
                rw [htk] at hm
                injection h with h
                subst h
                exact ⟨(recvFlags_zero hf0).2, hty.2, hw, by rw [htk]; exact hm, hty.1, by omega⟩
            · split at h
              · rcases req_decode_cases (wire.drop minMessageLength) with ht | ⟨t, ht⟩
                · rw [ht] at h; cases h
                · rw [ht] at h
                  simp only at h
                  split at h
                  · cases h
                  · split at h <;> cases h
              · cases h
  · rintro ⟨hf, hp, hl, hd, hty, hml⟩
    have hfl : recvFlags wire.length f = 0 := (recvFlags_zero_iff _ _).mpr ⟨by rw [hl]; decide, hf⟩
    rw [if_neg (by omega), take_max_of_flags hfl]
    unfold validateData
    rw [if_neg (by omega), List.take_of_length_le (by omega), hd]
    simp only
    rw [if_neg (by omega), if_pos ⟨hty, hp⟩, if_neg (by omega)]

/-- A datagram is taken up as a Follow_Up request exactly when it arrives on port 320 untruncated,
    its length field equals its length, its first byte is 8, the bytes after the header decode
    as a TLV of type 3 with Meinberg's organisation id and the request sub-type, and the
    datagram is exactly as long as that TLV's flag field says (36 or 54 bytes after the header).
    The TLV's own `Length` field does not occur. -/
theorem C08_csptpsrv_followup_accept_iff (port : Nat) (wire : List Nat) (f : Nat) (m : Message) (t : RequestTLV) :
    verdictOf port wire f = .requestFollowUp m t ↔
      f = 0 ∧ port = generalPortIP ∧ wire.length ≤ maxMessageLength ∧
      decodeMessage (wire.take minMessageLength) = .ok m ∧ m.sdoIDMessageType = messageTypeFollowUp ∧
      m.messageLength = wire.length ∧ decodeRequestTLV (wire.drop minMessageLength) = .ok t ∧
      isRequestKind t = true ∧ wire.length = minMessageLength + encodedTLVLength t.flagField := by
  unfold verdictOf
  constructor
  · intro h
    by_cases hf : recvFlags wire.length f ≠ 0
    · rw [if_pos hf] at h; cases h
    · rw [if_neg hf] at h
      have hf0 : recvFlags wire.length f = 0 := by omega
      rw [take_max_of_flags hf0] at h
      unfold validateData at h
      split at h
      · cases h
      · rename_i hlen
        rcases C14.msg_decode_total (wire.take minMessageLength) with ⟨_, hm⟩ | ⟨_, hm⟩
        · rw [hm] at h; cases h
        · rw [hm] at h
          simp only at h
          split at h
          · cases h
          · rename_i hml
            split at h
            · split at h <;> cases h
            · split at h
              · rename_i hty
                rcases req_decode_cases (wire.drop minMessageLength) with ht | ⟨t', ht⟩
                · rw [ht] at h; cases h
                · rw [ht] at h
                  simp only at h
                  split at h
                  · cases h
                  · rename_i hk
                    split at h
                    · cases h
                    · rename_i hl
                      injection h with h1 h2
                      subst h1; subst h2
                      refine ⟨(recvFlags_zero hf0).2, hty.2, (recvFlags_zero hf0).1, hm, hty.1, by omega, ht, ?_, by omega⟩
                      simpa using hk
              · cases h
  · rintro ⟨hf, hp, hl, hd, hty, hml, ht, hk, hlen⟩
    have hfl : recvFlags wire.length f = 0 := (recvFlags_zero_iff _ _).mpr ⟨hl, hf⟩
    rw [if_neg (by omega), take_max_of_flags hfl]
    unfold validateData
    rw [if_neg (by omega), hd]
    simp only
    have hne : ¬ (m.sdoIDMessageType = messageTypeSync ∧ port = eventPortIP) := by
      rintro ⟨h1, _⟩; rw [hty] at h1; exact absurd h1 (by decide)
    rw [if_neg (by omega), if_neg hne, if_pos ⟨hty, hp⟩, ht]
    simp only [hk, Bool.not_true, Bool.false_eq_true, ↓reduceIte]
    rw [if_neg (by omega)]

/-- **The request pair of the real client is taken up** — for every sequence id, on every
    socket of the right port, after every history (combine with
    `C08_csptpsrv_verdict_after_any_history`): the listener's record carries exactly the header
    and the TLV the client sent. -/
theorem C08_csptpsrv_client_request_taken_up (seq : Nat) (h : seq < 65536) :
    verdictOf eventPortIP (clientSyncBytes seq) 0 = .requestSync (clientSync seq) ∧
    verdictOf generalPortIP (clientFollowUpBytes seq) 0 = .requestFollowUp (clientFollowUp seq) clientTLV := by
  have hs := C14.msg_decode_bytes (clientSync seq) [] (clientSync_valid seq h)
  have hfu := C14.msg_decode_bytes (clientFollowUp seq) [] (clientFollowUp_valid seq h)
  have hls := C14.msg_bytes_length (clientSync seq)
  have hlf := C14.msg_bytes_length (clientFollowUp seq)
  have htv : clientTLV.Valid := by decide
  have ht := C14.req_decode_bytes clientTLV [] htv
  have htl : (requestTLVBytes clientTLV).length = 54 := by decide
  rw [List.append_nil] at hs hfu ht
  constructor
  · rw [C08_csptpsrv_sync_accept_iff]
    exact ⟨rfl, rfl, hls, hs, rfl, rfl⟩
  · rw [C08_csptpsrv_followup_accept_iff]
    have hlen : (clientFollowUpBytes seq).length = 98 := by
      unfold clientFollowUpBytes; rw [List.length_append, hlf, htl]
    have htake : (clientFollowUpBytes seq).take minMessageLength = messageBytes (clientFollowUp seq) := by
      unfold clientFollowUpBytes
      rw [List.take_append_of_le_length (by rw [hlf]; decide), List.take_of_length_le (by rw [hlf]; decide)]
    have hdrop : (clientFollowUpBytes seq).drop minMessageLength = requestTLVBytes clientTLV := by
      unfold clientFollowUpBytes
      rw [List.drop_append_of_le_length (by rw [hlf]; decide), List.drop_of_length_le (by rw [hlf]; decide), List.nil_append]
    refine ⟨rfl, rfl, by rw [hlen]; decide, by rw [htake]; exact hfu, rfl, ?_, by rw [hdrop]; exact ht, by decide, ?_⟩
    · rw [hlen]; rfl
    · rw [hlen]; rfl

/-- non-vacuity: sequence id 7 -/
example : verdictOf eventPortIP (clientSyncBytes 7) 0 = .requestSync (clientSync 7) := by decide

/-- **Declared lengths (C14's "at their declared lengths", on the listener's side).**  Any
    well-typed Follow_Up header followed by any well-typed request TLV of the right kind is taken
    up exactly when the header's length field is 44 plus the length the TLV's FLAG field
    declares; the TLV's `Length` field is free. -/
theorem C08_csptpsrv_encoded_followup_accept (m : Message) (t : RequestTLV) (hm : m.Valid) (ht : t.Valid)
    (hty : m.sdoIDMessageType = messageTypeFollowUp) (hk : isRequestKind t = true) :
    verdictOf generalPortIP (messageBytes m ++ requestTLVBytes t) 0 = .requestFollowUp m t ↔
      m.messageLength = minMessageLength + encodedTLVLength t.flagField := by
  have hlm := C14.msg_bytes_length m
  have hlt := C14.req_bytes_length t
  have hd := C14.msg_decode_bytes m [] hm
  have hdt := C14.req_decode_bytes t [] ht
  rw [List.append_nil] at hd hdt
  have hlen : (messageBytes m ++ requestTLVBytes t).length = minMessageLength + encodedTLVLength t.flagField := by
    rw [List.length_append, hlm, hlt]; rfl
  have hle : encodedTLVLength t.flagField ≤ 54 := by
    rcases C14.encodedTLVLength_cases t.flagField with ⟨_, h⟩ | ⟨_, h⟩ <;> omega
  have htake : (messageBytes m ++ requestTLVBytes t).take minMessageLength = messageBytes m := by
    rw [List.take_append_of_le_length (by rw [hlm]; decide), List.take_of_length_le (by rw [hlm]; decide)]
  have hdrop : (messageBytes m ++ requestTLVBytes t).drop minMessageLength = requestTLVBytes t := by
    rw [List.drop_append_of_le_length (by rw [hlm]; decide), List.drop_of_length_le (by rw [hlm]; decide), List.nil_append]
  rw [C08_csptpsrv_followup_accept_iff]
  constructor
  · rintro ⟨_, _, _, _, _, h, _⟩; rw [h, hlen]
  · intro h
    refine ⟨rfl, rfl, ?_, by rw [htake]; exact hd, hty, by rw [h, hlen], by rw [hdrop]; exact hdt, hk, hlen⟩
    rw [hlen]; unfold maxMessageLength minMessageLength; omega

/-- the `Length` field really is free: the client's TLV with `Length` 0 or 65535 is taken up like
    the one with the declared 54 -/
example : verdictOf generalPortIP (messageBytes (clientFollowUp 3) ++ requestTLVBytes { clientTLV with length := 0 }) 0 =
    .requestFollowUp (clientFollowUp 3) { clientTLV with length := 0 } := by decide
example : verdictOf generalPortIP (messageBytes (clientFollowUp 3) ++ requestTLVBytes { clientTLV with length := 65535 }) 0 =
    .requestFollowUp (clientFollowUp 3) { clientTLV with length := 65535 } := by decide

/-- what the code itself declares: the client's request TLV and the dead block's response TLV
    carry their encoded length in `Length`, the Follow_Up headers carry 44 + that, and the
    response fits the 98-byte buffer exactly -/
theorem C08_csptpsrv_declared_lengths (seq : Nat) :
    clientTLV.length = (requestTLVBytes clientTLV).length ∧
    (clientFollowUp seq).messageLength = minMessageLength + clientTLV.length ∧
    respTLV.length = (responseTLVBytes respTLV).length ∧
    (respFollowUp seq).messageLength = minMessageLength + respTLV.length ∧
    (respFollowUp seq).messageLength = maxMessageLength := by
  exact ⟨by decide, rfl, by decide, rfl, rfl⟩

/-! ### responses fed to the listener -/

/-- **No reflection at the validation level.**  A message whose TLV is a response TLV (sub-type
    "Res") is never taken up as a request — on either port, with any header, whatever the length
    fields say.  (Two listeners cannot bounce Follow_Ups; that the listener sends nothing at all
    at this commit is `C08_csptpsrv_never_panics_never_sends`.) -/
theorem C08_csptpsrv_response_followup_not_a_request (port f : Nat) (m : Message) (t : ResponseTLV)
    (hm : m.Valid) (ht : t.Valid) (hs : t.organizationSubType = orgSubTypeResponse) :
    (verdictOf port (messageBytes m ++ responseTLVBytes t) f).isRequest = false := by
  have hlm := C14.msg_bytes_length m
  have hlt := C14.resp_bytes_length t
  have hd := C14.msg_decode_bytes m [] hm
  rw [List.append_nil] at hd
  have hle : 36 ≤ encodedTLVLength t.flagField := by
    rcases C14.encodedTLVLength_cases t.flagField with ⟨_, h⟩ | ⟨_, h⟩ <;> omega
  cases hv : verdictOf port (messageBytes m ++ responseTLVBytes t) f with
  | requestSync m' =>
    have := (C08_csptpsrv_sync_accept_iff _ _ _ _).mp hv
    have hl := this.2.2.1
    rw [List.length_append, hlm, hlt] at hl
    unfold minMessageLength at hl
    omega
  | requestFollowUp m' t' =>
    have := (C08_csptpsrv_followup_accept_iff _ _ _ _ _).mp hv
    obtain ⟨_, _, _, _, _, _, hdt, hk, _⟩ := this
    rw [List.drop_append_of_le_length (by rw [hlm]; decide), List.drop_of_length_le (by rw [hlm]; decide),
      List.nil_append, req_decode_of_resp_bytes t ht] at hdt
    injection hdt with hdt
    subst hdt
    unfold isRequestKind at hk
    simp only [hs] at hk
    have hne : (orgSubTypeResponse == orgSubTypeRequest) = false := by decide
    rw [hne, Bool.and_false] at hk
    cases hk
  | _ => rfl

/-- the dead block's own Follow_Up, fed back to either port -/
example : verdictOf generalPortIP (messageBytes (respFollowUp 5) ++ responseTLVBytes respTLV) 0 = .tlvKind := by decide
example : verdictOf eventPortIP (messageBytes (respFollowUp 5) ++ responseTLVBytes respTLV) 0 = .unexpectedMessage := by decide

/-- Observation (not a defect at this commit): the Sync half of a response is, for the
    validation, a Sync request — only type, length and port are looked at; `SourcePortIdentity`,
    flags, control field, version and domain are not. -/
theorem C08_csptpsrv_response_sync_taken_as_request (seq : Nat) (h : seq < 65536) :
    verdictOf eventPortIP (messageBytes (respSync seq)) 0 = .requestSync (respSync seq) := by
  have hv : (respSync seq).Valid := by
    simp only [Message.Valid, respSync]; refine ⟨?_, ?_, ?_, ?_, ?_, ?_, ?_, ?_, ?_, ?_, h, ?_, ?_, ?_, ?_⟩ <;> decide
  have hd := C14.msg_decode_bytes (respSync seq) [] hv
  rw [List.append_nil] at hd
  rw [C08_csptpsrv_sync_accept_iff]
  exact ⟨rfl, rfl, C14.msg_bytes_length _, hd, rfl, rfl⟩

/-! ### the unimplemented pairing and the dead response block -/

/-- the locked section assigns nothing: the table is unchanged and `sequenceComplete` is false,
    so `respond` does nothing — for every table, verdict, sender and time -/
theorem C08_csptpsrv_response_block_unreachable (k : Sock) (s : State) (v : Verdict) (src : AddrPort) (rxt : Int) :
    (maintain s v src rxt).1 = s ∧ (maintain s v src rxt).2.sequenceComplete = false ∧
    respond k (maintain s v src rxt).2 src = (k, ⟨[], none⟩) := ⟨rfl, rfl, rfl⟩

/-- Observation: were the block reached as the code stands (`eConn` is nil), the loop would
    panic with a nil dereference at `eConn.mu.Lock()` — after having overwritten the receive
    buffer with the response Sync. -/
theorem C08_csptpsrv_response_block_would_panic :
    (respond (Sock.start eventPortIP) ⟨7, true, 4000, 4001⟩ ⟨1, 4000⟩).2 = ⟨[], some "nil"⟩ := by decide

/-- With connections it would send the Sync from port 319 to the Sync's source port and the
    Follow_Up + TLV (98 bytes) from port 320 to the Follow_Up's source port, both to the sender's
    address. -/
theorem C08_csptpsrv_response_block_outputs :
    (respond { Sock.start eventPortIP with eConn := some (), gConn := some () } ⟨7, true, 4000, 4001⟩ ⟨1, 4000⟩).2 =
      ⟨[⟨eventPortIP, ⟨1, 4000⟩, messageBytes (respSync 7)⟩,
        ⟨generalPortIP, ⟨1, 4001⟩, messageBytes (respFollowUp 7) ++ responseTLVBytes respTLV⟩], none⟩ := by decide

/-- …and that pair is not a measurement: request-ingress and origin timestamps are the zero
    "TODO" values, so the client model evaluates a server whose clock reads 1970 — for a client at
    2023-11-14T22:13:20Z with a 1 ms round trip, an "offset" of minus its own time. -/
theorem C08_csptpsrv_dead_reply_not_a_measurement :
    (CsptpClient.evaluate 1700000000000000000 1700000000001000000 (respSync 7) (respFollowUp 7) respTLV).clockOffset.toInt
      = -1700000000000500000 := by decide

end ScionTime.C08CsptpSrv
