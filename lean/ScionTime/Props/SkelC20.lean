import ScionTime.Gen.SkelC20
import ScionTime.Model.Skel.Ntske
import ScionTime.Model.Skel.NtskeSrv

/-!
  Control-skeleton pins, group C20 (notes/SKEL.md): the control structure and the text of every
  condition, call and assignment of the functions below, re-read from /repo on every run
  (`Gen.Skel.*`, harness/extract/skeleton.go), are exactly the ones the hand-written models were
  written against (`Model.Skel.*`, annotated row by row with the model definition that mirrors
  each statement).  A broken pin means the code was edited inside a modelled function: the model
  has to be re-read against the rows named by the `SKEL-DIFF` diagnostic.
-/
namespace ScionTime

/-! diagnostics (not obligations): name the rows that differ when a pin below breaks -/
#eval Model.Skel.check "Ntske.Fetcher_exchangeKeys" Gen.Skel.Ntske.Fetcher_exchangeKeys Model.Skel.Ntske.Fetcher_exchangeKeys
#eval Model.Skel.check "Ntske.Fetcher_FetchData" Gen.Skel.Ntske.Fetcher_FetchData Model.Skel.Ntske.Fetcher_FetchData
#eval Model.Skel.check "Ntske.Fetcher_StoreCookie" Gen.Skel.Ntske.Fetcher_StoreCookie Model.Skel.Ntske.Fetcher_StoreCookie
#eval Model.Skel.check "Ntske.ReadData" Gen.Skel.Ntske.ReadData Model.Skel.Ntske.ReadData
#eval Model.Skel.check "Ntske.ExportKeys" Gen.Skel.Ntske.ExportKeys Model.Skel.Ntske.ExportKeys
#eval Model.Skel.check "Ntske.dialTLS" Gen.Skel.Ntske.dialTLS Model.Skel.Ntske.dialTLS
#eval Model.Skel.check "Ntske.exchangeDataTLS" Gen.Skel.Ntske.exchangeDataTLS Model.Skel.Ntske.exchangeDataTLS
#eval Model.Skel.check "Ntske.dialQUIC" Gen.Skel.Ntske.dialQUIC Model.Skel.Ntske.dialQUIC
#eval Model.Skel.check "Ntske.exchangeDataQUIC" Gen.Skel.Ntske.exchangeDataQUIC Model.Skel.Ntske.exchangeDataQUIC
#eval Model.Skel.check "NtskeSrv.newNTSKEMsg" Gen.Skel.NtskeSrv.newNTSKEMsg Model.Skel.NtskeSrv.newNTSKEMsg
#eval Model.Skel.check "NtskeSrv.writeNTSKEErrorMsgTLS" Gen.Skel.NtskeSrv.writeNTSKEErrorMsgTLS Model.Skel.NtskeSrv.writeNTSKEErrorMsgTLS
#eval Model.Skel.check "NtskeSrv.handleKeyExchangeTLS" Gen.Skel.NtskeSrv.handleKeyExchangeTLS Model.Skel.NtskeSrv.handleKeyExchangeTLS
#eval Model.Skel.check "NtskeSrv.runNTSKEServerTLS" Gen.Skel.NtskeSrv.runNTSKEServerTLS Model.Skel.NtskeSrv.runNTSKEServerTLS
#eval Model.Skel.check "NtskeSrv.writeNTSKEErrorMsgQUIC" Gen.Skel.NtskeSrv.writeNTSKEErrorMsgQUIC Model.Skel.NtskeSrv.writeNTSKEErrorMsgQUIC
#eval Model.Skel.check "NtskeSrv.handleKeyExchangeQUIC" Gen.Skel.NtskeSrv.handleKeyExchangeQUIC Model.Skel.NtskeSrv.handleKeyExchangeQUIC
#eval Model.Skel.check "NtskeSrv.runNTSKEServerQUIC" Gen.Skel.NtskeSrv.runNTSKEServerQUIC Model.Skel.NtskeSrv.runNTSKEServerQUIC

/-! the pins -/
theorem C20_skel_Ntske_Fetcher_exchangeKeys : Gen.Skel.Ntske.Fetcher_exchangeKeys = Model.Skel.Ntske.Fetcher_exchangeKeys := rfl
theorem C20_skel_Ntske_Fetcher_FetchData : Gen.Skel.Ntske.Fetcher_FetchData = Model.Skel.Ntske.Fetcher_FetchData := rfl
theorem C20_skel_Ntske_Fetcher_StoreCookie : Gen.Skel.Ntske.Fetcher_StoreCookie = Model.Skel.Ntske.Fetcher_StoreCookie := rfl
theorem C20_skel_Ntske_ReadData : Gen.Skel.Ntske.ReadData = Model.Skel.Ntske.ReadData := rfl
theorem C20_skel_Ntske_ExportKeys : Gen.Skel.Ntske.ExportKeys = Model.Skel.Ntske.ExportKeys := rfl
theorem C20_skel_Ntske_dialTLS : Gen.Skel.Ntske.dialTLS = Model.Skel.Ntske.dialTLS := rfl
theorem C20_skel_Ntske_exchangeDataTLS : Gen.Skel.Ntske.exchangeDataTLS = Model.Skel.Ntske.exchangeDataTLS := rfl
theorem C20_skel_Ntske_dialQUIC : Gen.Skel.Ntske.dialQUIC = Model.Skel.Ntske.dialQUIC := rfl
theorem C20_skel_Ntske_exchangeDataQUIC : Gen.Skel.Ntske.exchangeDataQUIC = Model.Skel.Ntske.exchangeDataQUIC := rfl
theorem C20_skel_NtskeSrv_newNTSKEMsg : Gen.Skel.NtskeSrv.newNTSKEMsg = Model.Skel.NtskeSrv.newNTSKEMsg := rfl
theorem C20_skel_NtskeSrv_writeNTSKEErrorMsgTLS : Gen.Skel.NtskeSrv.writeNTSKEErrorMsgTLS = Model.Skel.NtskeSrv.writeNTSKEErrorMsgTLS := rfl
theorem C20_skel_NtskeSrv_handleKeyExchangeTLS : Gen.Skel.NtskeSrv.handleKeyExchangeTLS = Model.Skel.NtskeSrv.handleKeyExchangeTLS := rfl
theorem C20_skel_NtskeSrv_runNTSKEServerTLS : Gen.Skel.NtskeSrv.runNTSKEServerTLS = Model.Skel.NtskeSrv.runNTSKEServerTLS := rfl
theorem C20_skel_NtskeSrv_writeNTSKEErrorMsgQUIC : Gen.Skel.NtskeSrv.writeNTSKEErrorMsgQUIC = Model.Skel.NtskeSrv.writeNTSKEErrorMsgQUIC := rfl
theorem C20_skel_NtskeSrv_handleKeyExchangeQUIC : Gen.Skel.NtskeSrv.handleKeyExchangeQUIC = Model.Skel.NtskeSrv.handleKeyExchangeQUIC := rfl
theorem C20_skel_NtskeSrv_runNTSKEServerQUIC : Gen.Skel.NtskeSrv.runNTSKEServerQUIC = Model.Skel.NtskeSrv.runNTSKEServerQUIC := rfl

end ScionTime
