import ScionTime.Gen.SkelC20
import ScionTime.Model.Skel.Ntske
import ScionTime.Model.Skel.NtskeSrv
import ScionTime.Model.Skel.NtskeRec
import ScionTime.Model.Skel.NtskeSrvStart

/-!
  Control-skeleton pins, group C20 (notes/SKEL.md): the control structure and the text of every
  condition, call and assignment of the functions below, re-read from /repo on every run
  (`Gen.Skel.*`, harness/extract/skeleton.go), are exactly the ones the hand-written models were
  written against (`Model.Skel.*`, annotated row by row with the model definition that mirrors
  each statement).  A broken pin means the code was edited inside a modelled function: the model
  has to be re-read against the rows named by the `SKEL-DIFF` diagnostic.
-/
namespace ScionTime

/-! diagnostics (not obligations): name the rows that differ when a pin below breaks -/
#eval Model.Skel.check "Ntske.Fetcher_exchangeKeys" Gen.Skel.Ntske.Fetcher_exchangeKeys Model.Skel.Ntske.Fetcher_exchangeKeys
#eval Model.Skel.check "Ntske.Fetcher_FetchData" Gen.Skel.Ntske.Fetcher_FetchData Model.Skel.Ntske.Fetcher_FetchData
#eval Model.Skel.check "Ntske.Fetcher_StoreCookie" Gen.Skel.Ntske.Fetcher_StoreCookie Model.Skel.Ntske.Fetcher_StoreCookie
#eval Model.Skel.check "Ntske.ReadData" Gen.Skel.Ntske.ReadData Model.Skel.Ntske.ReadData
#eval Model.Skel.check "Ntske.ExportKeys" Gen.Skel.Ntske.ExportKeys Model.Skel.Ntske.ExportKeys
#eval Model.Skel.check "Ntske.dialTLS" Gen.Skel.Ntske.dialTLS Model.Skel.Ntske.dialTLS
#eval Model.Skel.check "Ntske.exchangeDataTLS" Gen.Skel.Ntske.exchangeDataTLS Model.Skel.Ntske.exchangeDataTLS
#eval Model.Skel.check "Ntske.dialQUIC" Gen.Skel.Ntske.dialQUIC Model.Skel.Ntske.dialQUIC
#eval Model.Skel.check "Ntske.exchangeDataQUIC" Gen.Skel.Ntske.exchangeDataQUIC Model.Skel.Ntske.exchangeDataQUIC
#eval Model.Skel.check "NtskeSrv.newNTSKEMsg" Gen.Skel.NtskeSrv.newNTSKEMsg Model.Skel.NtskeSrv.newNTSKEMsg
#eval Model.Skel.check "NtskeSrv.writeNTSKEErrorMsgTLS" Gen.Skel.NtskeSrv.writeNTSKEErrorMsgTLS Model.Skel.NtskeSrv.writeNTSKEErrorMsgTLS
#eval Model.Skel.check "NtskeSrv.handleKeyExchangeTLS" Gen.Skel.NtskeSrv.handleKeyExchangeTLS Model.Skel.NtskeSrv.handleKeyExchangeTLS
#eval Model.Skel.check "NtskeSrv.runNTSKEServerTLS" Gen.Skel.NtskeSrv.runNTSKEServerTLS Model.Skel.NtskeSrv.runNTSKEServerTLS
#eval Model.Skel.check "NtskeSrv.writeNTSKEErrorMsgQUIC" Gen.Skel.NtskeSrv.writeNTSKEErrorMsgQUIC Model.Skel.NtskeSrv.writeNTSKEErrorMsgQUIC
#eval Model.Skel.check "NtskeSrv.handleKeyExchangeQUIC" Gen.Skel.NtskeSrv.handleKeyExchangeQUIC Model.Skel.NtskeSrv.handleKeyExchangeQUIC
#eval Model.Skel.check "NtskeSrv.runNTSKEServerQUIC" Gen.Skel.NtskeSrv.runNTSKEServerQUIC Model.Skel.NtskeSrv.runNTSKEServerQUIC
#eval Model.Skel.check "NtskeRec.RecordHdr_pack" Gen.Skel.NtskeRec.RecordHdr_pack Model.Skel.NtskeRec.RecordHdr_pack
#eval Model.Skel.check "NtskeRec.packsimple" Gen.Skel.NtskeRec.packsimple Model.Skel.NtskeRec.packsimple
#eval Model.Skel.check "NtskeRec.packheader" Gen.Skel.NtskeRec.packheader Model.Skel.NtskeRec.packheader
#eval Model.Skel.check "NtskeRec.ExchangeMsg_Pack" Gen.Skel.NtskeRec.ExchangeMsg_Pack Model.Skel.NtskeRec.ExchangeMsg_Pack
#eval Model.Skel.check "NtskeRec.ExchangeMsg_AddRecord" Gen.Skel.NtskeRec.ExchangeMsg_AddRecord Model.Skel.NtskeRec.ExchangeMsg_AddRecord
#eval Model.Skel.check "NtskeRec.NextProto_pack" Gen.Skel.NtskeRec.NextProto_pack Model.Skel.NtskeRec.NextProto_pack
#eval Model.Skel.check "NtskeRec.End_pack" Gen.Skel.NtskeRec.End_pack Model.Skel.NtskeRec.End_pack
#eval Model.Skel.check "NtskeRec.Server_pack" Gen.Skel.NtskeRec.Server_pack Model.Skel.NtskeRec.Server_pack
#eval Model.Skel.check "NtskeRec.Port_pack" Gen.Skel.NtskeRec.Port_pack Model.Skel.NtskeRec.Port_pack
#eval Model.Skel.check "NtskeRec.Cookie_pack" Gen.Skel.NtskeRec.Cookie_pack Model.Skel.NtskeRec.Cookie_pack
#eval Model.Skel.check "NtskeRec.Warning_pack" Gen.Skel.NtskeRec.Warning_pack Model.Skel.NtskeRec.Warning_pack
#eval Model.Skel.check "NtskeRec.Error_pack" Gen.Skel.NtskeRec.Error_pack Model.Skel.NtskeRec.Error_pack
#eval Model.Skel.check "NtskeRec.Algorithm_pack" Gen.Skel.NtskeRec.Algorithm_pack Model.Skel.NtskeRec.Algorithm_pack
#eval Model.Skel.check "NtskeRec.AcceptTLSConn" Gen.Skel.NtskeRec.AcceptTLSConn Model.Skel.NtskeRec.AcceptTLSConn
#eval Model.Skel.check "NtskeRec.setBit" Gen.Skel.NtskeRec.setBit Model.Skel.NtskeRec.setBit
#eval Model.Skel.check "NtskeRec.hasBit" Gen.Skel.NtskeRec.hasBit Model.Skel.NtskeRec.hasBit
#eval Model.Skel.check "NtskeSrvStart.StartNTSKEServerIP" Gen.Skel.NtskeSrvStart.StartNTSKEServerIP Model.Skel.NtskeSrvStart.StartNTSKEServerIP
#eval Model.Skel.check "NtskeSrvStart.StartNTSKEServerSCION" Gen.Skel.NtskeSrvStart.StartNTSKEServerSCION Model.Skel.NtskeSrvStart.StartNTSKEServerSCION

/-! the pins -/
theorem C20_skel_Ntske_Fetcher_exchangeKeys : Gen.Skel.Ntske.Fetcher_exchangeKeys = Model.Skel.Ntske.Fetcher_exchangeKeys := rfl
theorem C20_skel_Ntske_Fetcher_FetchData : Gen.Skel.Ntske.Fetcher_FetchData = Model.Skel.Ntske.Fetcher_FetchData := rfl
theorem C20_skel_Ntske_Fetcher_StoreCookie : Gen.Skel.Ntske.Fetcher_StoreCookie = Model.Skel.Ntske.Fetcher_StoreCookie := rfl
theorem C20_skel_Ntske_ReadData : Gen.Skel.Ntske.ReadData = Model.Skel.Ntske.ReadData := rfl
theorem C20_skel_Ntske_ExportKeys : Gen.Skel.Ntske.ExportKeys = Model.Skel.Ntske.ExportKeys := rfl
theorem C20_skel_Ntske_dialTLS : Gen.Skel.Ntske.dialTLS = Model.Skel.Ntske.dialTLS := rfl
theorem C20_skel_Ntske_exchangeDataTLS : Gen.Skel.Ntske.exchangeDataTLS = Model.Skel.Ntske.exchangeDataTLS := rfl
theorem C20_skel_Ntske_dialQUIC : Gen.Skel.Ntske.dialQUIC = Model.Skel.Ntske.dialQUIC := rfl
theorem C20_skel_Ntske_exchangeDataQUIC : Gen.Skel.Ntske.exchangeDataQUIC = Model.Skel.Ntske.exchangeDataQUIC := rfl
theorem C20_skel_NtskeSrv_newNTSKEMsg : Gen.Skel.NtskeSrv.newNTSKEMsg = Model.Skel.NtskeSrv.newNTSKEMsg := rfl
theorem C20_skel_NtskeSrv_writeNTSKEErrorMsgTLS : Gen.Skel.NtskeSrv.writeNTSKEErrorMsgTLS = Model.Skel.NtskeSrv.writeNTSKEErrorMsgTLS := rfl
theorem C20_skel_NtskeSrv_handleKeyExchangeTLS : Gen.Skel.NtskeSrv.handleKeyExchangeTLS = Model.Skel.NtskeSrv.handleKeyExchangeTLS := rfl
theorem C20_skel_NtskeSrv_runNTSKEServerTLS : Gen.Skel.NtskeSrv.runNTSKEServerTLS = Model.Skel.NtskeSrv.runNTSKEServerTLS := rfl
theorem C20_skel_NtskeSrv_writeNTSKEErrorMsgQUIC : Gen.Skel.NtskeSrv.writeNTSKEErrorMsgQUIC = Model.Skel.NtskeSrv.writeNTSKEErrorMsgQUIC := rfl
theorem C20_skel_NtskeSrv_handleKeyExchangeQUIC : Gen.Skel.NtskeSrv.handleKeyExchangeQUIC = Model.Skel.NtskeSrv.handleKeyExchangeQUIC := rfl
theorem C20_skel_NtskeSrv_runNTSKEServerQUIC : Gen.Skel.NtskeSrv.runNTSKEServerQUIC = Model.Skel.NtskeSrv.runNTSKEServerQUIC := rfl
theorem C20_skel_NtskeRec_RecordHdr_pack : Gen.Skel.NtskeRec.RecordHdr_pack = Model.Skel.NtskeRec.RecordHdr_pack := rfl
theorem C20_skel_NtskeRec_packsimple : Gen.Skel.NtskeRec.packsimple = Model.Skel.NtskeRec.packsimple := rfl
theorem C20_skel_NtskeRec_packheader : Gen.Skel.NtskeRec.packheader = Model.Skel.NtskeRec.packheader := rfl
theorem C20_skel_NtskeRec_ExchangeMsg_Pack : Gen.Skel.NtskeRec.ExchangeMsg_Pack = Model.Skel.NtskeRec.ExchangeMsg_Pack := rfl
theorem C20_skel_NtskeRec_ExchangeMsg_AddRecord : Gen.Skel.NtskeRec.ExchangeMsg_AddRecord = Model.Skel.NtskeRec.ExchangeMsg_AddRecord := rfl
theorem C20_skel_NtskeRec_NextProto_pack : Gen.Skel.NtskeRec.NextProto_pack = Model.Skel.NtskeRec.NextProto_pack := rfl
theorem C20_skel_NtskeRec_End_pack : Gen.Skel.NtskeRec.End_pack = Model.Skel.NtskeRec.End_pack := rfl
theorem C20_skel_NtskeRec_Server_pack : Gen.Skel.NtskeRec.Server_pack = Model.Skel.NtskeRec.Server_pack := rfl
theorem C20_skel_NtskeRec_Port_pack : Gen.Skel.NtskeRec.Port_pack = Model.Skel.NtskeRec.Port_pack := rfl
theorem C20_skel_NtskeRec_Cookie_pack : Gen.Skel.NtskeRec.Cookie_pack = Model.Skel.NtskeRec.Cookie_pack := rfl
theorem C20_skel_NtskeRec_Warning_pack : Gen.Skel.NtskeRec.Warning_pack = Model.Skel.NtskeRec.Warning_pack := rfl
theorem C20_skel_NtskeRec_Error_pack : Gen.Skel.NtskeRec.Error_pack = Model.Skel.NtskeRec.Error_pack := rfl
theorem C20_skel_NtskeRec_Algorithm_pack : Gen.Skel.NtskeRec.Algorithm_pack = Model.Skel.NtskeRec.Algorithm_pack := rfl
theorem C20_skel_NtskeRec_AcceptTLSConn : Gen.Skel.NtskeRec.AcceptTLSConn = Model.Skel.NtskeRec.AcceptTLSConn := rfl
theorem C20_skel_NtskeRec_setBit : Gen.Skel.NtskeRec.setBit = Model.Skel.NtskeRec.setBit := rfl
theorem C20_skel_NtskeRec_hasBit : Gen.Skel.NtskeRec.hasBit = Model.Skel.NtskeRec.hasBit := rfl
theorem C20_skel_NtskeSrvStart_StartNTSKEServerIP : Gen.Skel.NtskeSrvStart.StartNTSKEServerIP = Model.Skel.NtskeSrvStart.StartNTSKEServerIP := rfl
theorem C20_skel_NtskeSrvStart_StartNTSKEServerSCION : Gen.Skel.NtskeSrvStart.StartNTSKEServerSCION = Model.Skel.NtskeSrvStart.StartNTSKEServerSCION := rfl

end ScionTime
