/-
  Kernel-checked ties (C14 / C10 / C08): the extension-field decoders of net/nts/nts.go —
  `(*Authenticator).unpack`, `(*UniqueIdentifier).unpack`, `(*Cookie).unpack` — as regenerated from
  /repo's Go source on every run (Gen/LeafNts.lean; eighth generation of the leaf translator:
  embedded structs, `make([]byte, n)` with an unsigned run-time length, `n := copy(dst, buf[pos:])`
  into a buffer made in the function, `binary.BigEndian.Uint16(buf[pos:])`) against the suffix-based
  models of Model/Nts.lean (`unpackAuth body`, `copyN (valueLen l) body` with `body = buf[pos:]`).

  PROVED for every buffer shorter than 2^62 bytes and every position inside it:
    * `C10_leaf_Authenticator_unpack`: the regenerated decoder copies exactly the model's nonce and
      ciphertext (zero-padded when the buffer ends early, the nonce padding not skipped — as the
      code does), and panics exactly when the model does: fewer than 4 bytes after `pos`;
    * `C10_leaf_UniqueIdentifier_unpack`, `C10_leaf_Cookie_unpack`: the value is the model's
      `copyN (valueLen Length) body` — `Length - 4` in uint16 arithmetic — and they never panic;
    * a field of another type is refused with `errUnexpectedExtHdrType`, nothing written.
  A zero-copy rewrite (sub-slices of the packet buffer instead of copies, seeded C08-16) changes the
  regenerated definitions and these ties no longer check.
-/
import ScionTime.Gen.LeafNts
import ScionTime.Model.Nts
import ScionTime.Proofs.GoPrelude
import ScionTime.Proofs.LeafBytes
import ScionTime.Props.LeafC14CookiesDec
namespace ScionTime.LeafTieC14Nts
open ScionTime ScionTime.Gen.Leaf ScionTime.GoLemmas ScionTime.Nts ScionTime.LeafBytes
open ScionTime.LeafTieC14CookiesDec (bytesN beU16At_spec ofNat_toInt k2 k4 int64_ext)

theorem bytesN_length (b : List UInt8) : (bytesN b).length = b.length := by simp [bytesN]

theorem make_spec (v : UInt16) : Go.makeBytesN? v.toUInt64.toInt64 = some (List.replicate v.toNat 0) := by
  unfold Go.makeBytesN?
  have hw := widen16 v
  rw [if_pos (by omega), hw]; rfl

/-- `make([]byte, m)` followed by `copy(dst, buf[q:])` is the model's `copyN m (buf[q:])` -/
theorem copyTail_spec (m : Nat) (buf : List UInt8) (off : Int64) (q : Nat) (hoff : off.toInt = q)
    (hq : q ≤ buf.length) :
    ∃ X, Go.copyTail? (List.replicate m 0) buf off = some (X, Int64.ofNat (min m (buf.length - q))) ∧
      bytesN X = copyN m ((bytesN buf).drop q) := by
  unfold Go.copyTail?
  have hk : off.toInt.toNat = q := by omega
  rw [if_pos ⟨by omega, by omega⟩, hk]
  simp only [List.length_replicate, List.length_drop]
  refine ⟨_, rfl, ?_⟩
  unfold copyN zeros bytesN
  simp only [List.map_append, List.map_take, List.map_drop, List.drop_replicate, List.map_replicate,
    List.length_drop, List.length_map]
  have h0 : (0 : UInt8).toNat = 0 := rfl
  rw [h0]
  by_cases hm : m ≤ buf.length - q
  · rw [Nat.min_eq_left hm]
    have : m - (buf.length - q) = 0 := by omega
    rw [this, Nat.sub_self]
  · have hm' : buf.length - q ≤ m := by omega
    rw [Nat.min_eq_right hm']
    congr 1
    rw [List.take_of_length_le (by simp), List.take_of_length_le (by simp; omega)]

theorem k1028 : (1028 : UInt16).toNat = extAuthenticator := rfl
theorem k260 : (260 : UInt16).toNat = extUniqueIdentifier := rfl
theorem k516 : (516 : UInt16).toNat = extCookie := rfl

/-- **`(*Authenticator).unpack(buf, pos)`** for a field of the authenticator type: the model's
    `unpackAuth` on `buf[pos:]`, byte for byte; a panic (`none`) exactly when the model panics. -/
theorem C10_leaf_Authenticator_unpack (a : S_Authenticator) (buf : List UInt8) (p : Nat)
    (hL : buf.length < 4611686018427387904) (hp : p ≤ buf.length) (ht : a.extHdr.Type' = 1028) :
    match unpackAuth ((bytesN buf).drop p) with
    | .ok (n, c) => ∃ N C, nts_Authenticator_unpack a buf (Int64.ofNat p) = some ({ a with Nonce := N, CipherText := C }, false) ∧
        bytesN N = n ∧ bytesN C = c
    | .panic _ => nts_Authenticator_unpack a buf (Int64.ofNat p) = none
    | _ => False := by
  have hpos := ofNat_toInt p (by omega)
  have hBl := bytesN_length buf
  have hB : ∀ k, (bytesN buf).getD k 0 = (buf.getD k 0).toNat := fun k => getD_bytes buf k
  unfold nts_Authenticator_unpack
  simp only [ht, bne_self_eq_false, Bool.false_eq_true, if_false]
  by_cases h4 : p + 4 ≤ buf.length
  · rw [LeafTieC14CookiesDec.drop_cons4 _ p (by omega)]
    simp only [unpackAuth, u16]
    obtain ⟨nl, hnl, hnln⟩ := beU16At_spec buf p (Int64.ofNat p) hpos (by omega)
    have hp2 : (Int64.ofNat p + 2).toInt = ((p + 2 : Nat) : Int) := by
      rw [toInt_add_of_fits _ _ (by rw [hpos, k2]; omega) (by rw [hpos, k2]; omega), hpos, k2]; omega
    have hp4 : (Int64.ofNat p + 4).toInt = ((p + 4 : Nat) : Int) := by
      rw [toInt_add_of_fits _ _ (by rw [hpos, k4]; omega) (by rw [hpos, k4]; omega), hpos, k4]; omega
    obtain ⟨cl, hcl, hcln⟩ := beU16At_spec buf (p + 2) (Int64.ofNat p + 2) hp2 (by omega)
    have e3 : p + 2 + 1 = p + 3 := rfl
    rw [e3] at hcln
    simp only [hnl, hcl, Option.bind_some, make_spec]
    obtain ⟨N, hN, hNb⟩ := copyTail_spec nl.toNat buf (Int64.ofNat p + 4) (p + 4) hp4 (by omega)
    simp only [hN, Option.bind_some]
    have hn62 : min nl.toNat (buf.length - (p + 4)) < 4611686018427387904 := by omega
    have hnn := ofNat_toInt (min nl.toNat (buf.length - (p + 4))) hn62
    have hp5 : (Int64.ofNat p + 4 + Int64.ofNat (min nl.toNat (buf.length - (p + 4)))).toInt =
        ((p + 4 + min nl.toNat (buf.length - (p + 4)) : Nat) : Int) := by
      rw [toInt_add_of_fits _ _ (by rw [hp4, hnn]; omega) (by rw [hp4, hnn]; omega), hp4, hnn]; omega
    obtain ⟨C, hC, hCb⟩ := copyTail_spec cl.toNat buf _ (p + 4 + min nl.toNat (buf.length - (p + 4))) hp5 (by omega)
    simp only [hC, Option.bind_some]
    refine ⟨N, C, rfl, ?_, ?_⟩
    · rw [hNb, hnln, hB, hB]
    · rw [hCb, hcln, hnln, hB, hB, hB, hB, List.drop_drop, List.length_drop, hBl]
  · -- fewer than four bytes after pos: the model panics (index), the code panics (slice / index)
    have hlen : ((bytesN buf).drop p).length < 4 := by simp [hBl]; omega
    have hm : unpackAuth ((bytesN buf).drop p) = .panic .index := by
      unfold unpackAuth
      rcases hd : (bytesN buf).drop p with _ | ⟨x1, _ | ⟨x2, _ | ⟨x3, _ | ⟨x4, r⟩⟩⟩⟩ <;> try rfl
      rw [hd] at hlen; simp at hlen; omega
    rw [hm]
    simp only
    by_cases h2 : p + 2 ≤ buf.length
    · obtain ⟨nl, hnl, _⟩ := beU16At_spec buf p (Int64.ofNat p) hpos (by omega)
      have hp2 : (Int64.ofNat p + 2).toInt = ((p + 2 : Nat) : Int) := by
        rw [toInt_add_of_fits _ _ (by rw [hpos, k2]; omega) (by rw [hpos, k2]; omega), hpos, k2]; omega
      have hnone : Go.beU16At? buf (Int64.ofNat p + 2) = none := by
        unfold Go.beU16At?; rw [if_neg]; rw [hp2]; omega
      simp only [hnl, hnone, Option.bind_some, Option.bind_none]
    · have hnone : Go.beU16At? buf (Int64.ofNat p) = none := by
        unfold Go.beU16At?; rw [if_neg]; rw [hpos]; omega
      simp only [hnone, Option.bind_none]

theorem C10_leaf_Authenticator_unpack_type (a : S_Authenticator) (buf : List UInt8) (pos : Int64)
    (ht : a.extHdr.Type' ≠ 1028) : nts_Authenticator_unpack a buf pos = some (a, true) := by
  unfold nts_Authenticator_unpack
  have : (a.extHdr.Type' != 1028) = true := by simpa using ht
  rw [if_pos this]

theorem sub4 (l : UInt16) : (l - 4).toNat = valueLen l.toNat := by
  unfold valueLen
  have := l.toNat_lt
  rw [UInt16.toNat_sub]
  have h4 : (4 : UInt16).toNat = 4 := rfl
  rw [h4]; omega

/-- **`(*UniqueIdentifier).unpack`**: `make([]byte, Length-4)` (uint16 arithmetic) filled from
    `buf[pos:]` — the model's `copyN (valueLen Length) body`; never panics for `pos ≤ len(buf)`. -/
theorem C10_leaf_UniqueIdentifier_unpack (u : S_UniqueIdentifier) (buf : List UInt8) (p : Nat)
    (hL : buf.length < 4611686018427387904) (hp : p ≤ buf.length) (ht : u.extHdr.Type' = 260) :
    ∃ X, nts_UniqueIdentifier_unpack u buf (Int64.ofNat p) = some ({ u with ID := X }, false) ∧
      bytesN X = copyN (valueLen u.extHdr.Length.toNat) ((bytesN buf).drop p) := by
  have hpos := ofNat_toInt p (by omega)
  unfold nts_UniqueIdentifier_unpack
  simp only [ht, bne_self_eq_false, Bool.false_eq_true, if_false, make_spec, Option.bind_some]
  obtain ⟨X, hX, hXb⟩ := copyTail_spec (u.extHdr.Length - 4).toNat buf (Int64.ofNat p) p hpos hp
  simp only [hX, Option.bind_some]
  exact ⟨X, rfl, by rw [hXb, sub4]⟩

theorem C10_leaf_Cookie_unpack (c : S_Cookie) (buf : List UInt8) (p : Nat)
    (hL : buf.length < 4611686018427387904) (hp : p ≤ buf.length) (ht : c.extHdr.Type' = 516) :
    ∃ X, nts_Cookie_unpack c buf (Int64.ofNat p) = some ({ c with Cookie := X }, false) ∧
      bytesN X = copyN (valueLen c.extHdr.Length.toNat) ((bytesN buf).drop p) := by
  have hpos := ofNat_toInt p (by omega)
  unfold nts_Cookie_unpack
  simp only [ht, bne_self_eq_false, Bool.false_eq_true, if_false, make_spec, Option.bind_some]
  obtain ⟨X, hX, hXb⟩ := copyTail_spec (c.extHdr.Length - 4).toNat buf (Int64.ofNat p) p hpos hp
  simp only [hX, Option.bind_some]
  exact ⟨X, rfl, by rw [hXb, sub4]⟩

/-- non-vacuity: nonce length 2, ciphertext length 3 with only two bytes left: the ciphertext is
    zero-padded, the nonce padding is not skipped -/
example : (nts_Authenticator_unpack
      { extHdr := { Type' := 1028, Length := 12 }, Nonce := [], CipherText := [], Key := [], PlainText := [], pos := 0 }
      [0, 2, 0, 3, 7, 8, 9, 10] 0).map (fun r => (r.1.Nonce, r.1.CipherText, r.2)) =
    some ([7, 8], [9, 10, 0], false) := by decide +kernel
example : (nts_Authenticator_unpack
      { extHdr := { Type' := 1028, Length := 12 }, Nonce := [], CipherText := [], Key := [], PlainText := [], pos := 0 }
      [0, 2, 0] 0).isNone = true := by decide +kernel

end ScionTime.LeafTieC14Nts
