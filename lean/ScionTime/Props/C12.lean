/-
  C12 — NTS server keys: the current key is always valid and fresh, lookups return valid keys
  only, key ids never repeat; hence a cookie is usable for at least `validity − renewal` (48 h)
  after it was issued and never later than `validity` (3 d) after its key was generated.

  Model: ScionTime/Model/Provider.lean (net/ntske/provider.go); invariants:
  ScionTime/Proofs/Provider.lean. All statements are over every state `s` reachable from
  `NewProvider()` by any history of `Current`/`Get` calls with non-decreasing clock readings
  (`Reach P t0 now s`; the mutex makes lock order = clock order), for every parameter pair `P`;
  the values of /repo are pinned at the top and instantiated at the bottom.
  `Current` reads the clock twice (`t1` itself, `t2 ≥ t1` inside `generateNext`); under the
  virtual clock of the harness `t1 = t2`.
-/
import ScionTime.Proofs.Provider
import ScionTime.Gen.Ntske
import ScionTime.Gen.Server
namespace ScionTime.C12
open ScionTime.Provider

/-- Pins: the model's parameters are /repo's constants (Gen is regenerated on every run). -/
theorem C12_pin_keyValidity : Gen.Ntske.keyValidity = std.validity := by decide
theorem C12_pin_keyRenewalInterval : Gen.Ntske.keyRenewalInterval = std.renewal := by decide

/-- Side condition and the length of the guaranteed window with /repo's constants:
    renewal ≤ validity, and validity − renewal = 48 h, validity = 72 h, renewal = 24 h (in ns). -/
theorem C12_window_48h :
    0 ≤ Gen.Ntske.keyRenewalInterval ∧ Gen.Ntske.keyRenewalInterval ≤ Gen.Ntske.keyValidity ∧
    Gen.Ntske.keyValidity - Gen.Ntske.keyRenewalInterval = 48 * 3600 * 1000000000 ∧
    Gen.Ntske.keyValidity = 72 * 3600 * 1000000000 ∧
    Gen.Ntske.keyRenewalInterval = 24 * 3600 * 1000000000 := by decide

/-- Reachable states exist and are not trivial: after NewProvider at 5, Current at 7, a gap of
    more than a day and another Current, the provider holds keys 2 and 1. -/
example : Reach std 5 (7 + std.renewal + 1)
    (exec std (init std 5) [.current 7 7, .get 1 8, .current (7 + std.renewal + 1) (7 + std.renewal + 1)]) :=
  ⟨_, by simp [Timed, Op.tIn, Op.tOut, std], rfl, rfl⟩
example : ((exec std (init std 5) [.current 7 7, .get 1 8,
    .current (7 + std.renewal + 1) (7 + std.renewal + 1)]).keys.map (·.id)) = [2, 1] := by decide

/-- `Current` hands out a key of the map — the one with id `currentID` — never the zero `Key{}`. -/
theorem C12_current_is_key {P t0 now s} (hr : Reach P t0 now s) {t1 t2 : Int}
    (h1 : now ≤ t1) (h2 : t1 ≤ t2) :
    (current P s t1 t2).2 ∈ (current P s t1 t2).1.keys ∧
    (current P s t1 t2).2.id = (current P s t1 t2).1.currentId :=
  ⟨(current_key (reach_inv hr) h1 h2).1, (current_key (reach_inv hr) h1 h2).2.1⟩

/-- current_valid_fresh: the key handed out by `Current` (clock readings `t1 ≤ t2`) has
    `notAfter = notBefore + validity`, was generated no later than the call's last clock reading,
    is not expired at `t1`, and was generated at most `renewal` before `t1`. -/
theorem C12_current_valid_fresh {P t0 now s} (hv : 0 ≤ P.validity) (hn : 0 ≤ P.renewal)
    (hr : Reach P t0 now s) {t1 t2 : Int} (h1 : now ≤ t1) (h2 : t1 ≤ t2) :
    let k := (current P s t1 t2).2
    k.na = k.nb + P.validity ∧ k.nb ≤ t2 ∧ t1 ≤ k.na ∧ t1 ≤ k.nb + P.renewal := by
  have hi := reach_inv hr
  have hk := current_key hi h1 h2
  have hi' := inv_step (.current t1 t2) hi h1 h2
  have hwf := hi'.wf _ hk.1
  simp only [step, Op.tOut] at hi' hwf
  intro k
  refine ⟨hwf.1, hwf.2, ?_⟩
  -- which branch did Current take?
  by_cases hren : needsRenewal P s t1 = true
  · have hnb : k.nb = t2 := by
      have e1 : k.nb = (current P s t1 t2).1.generatedAt := hk.2.2
      have e2 : (current P s t1 t2).1.generatedAt = t2 := by
        simp only [current, hren, if_true, generateNext]
      omega
    have := hwf.1
    change k.na = k.nb + P.validity at this
    omega
  · have hs : (current P s t1 t2).1 = s := by simp only [current, hren]; rfl
    have hmem : k ∈ s.keys := by have := hk.1; rw [hs] at this; exact this
    have hid : k.id = s.currentId := by have := hk.2.1; rw [hs] at this; exact this
    have hgen : k.nb = s.generatedAt := by have := hk.2.2; rw [hs] at this; exact this
    have hf := find_of_mem hi.sorted hmem
    rw [hid] at hf
    simp only [needsRenewal, hf, Bool.or_eq_true, Bool.not_eq_true', decide_eq_true_eq, not_or,
      Bool.not_eq_false, Int.not_lt] at hren
    have := (validAt_iff k t1).mp hren.1
    omega

/-- The same at a single instant (`t1 = t2 = t`, the harness's virtual clock): the key is within
    its validity period at `t` and no older than the renewal interval. -/
theorem C12_current_valid_fresh_instant {P t0 now s} (hv : 0 ≤ P.validity) (hn : 0 ≤ P.renewal)
    (hr : Reach P t0 now s) {t : Int} (h1 : now ≤ t) :
    ((current P s t t).2.validAt t = true) ∧ t - (current P s t t).2.nb ≤ P.renewal := by
  have h := C12_current_valid_fresh hv hn hr h1 (Int.le_refl t)
  simp only at h
  refine ⟨(validAt_iff _ _).mpr ⟨h.2.1, h.2.2.1⟩, by omega⟩

/-- get_valid_only: a key returned by `Get(id)` at `t` has that id, is within its validity
    period at `t`, and that period has length `validity`. -/
theorem C12_get_valid_only {P t0 now s} (hr : Reach P t0 now s) {id t : Int} {k : Key}
    (hg : Provider.get s id t = some k) :
    k.id = id ∧ k.nb ≤ t ∧ t ≤ k.na ∧ k.na = k.nb + P.validity := by
  unfold Provider.get at hg
  split at hg
  · cases hg
  · rename_i k' hf
    split at hg
    · rename_i hv
      cases hg
      have hm := find_some hf
      have := (validAt_iff k t).mp hv
      exact ⟨hm.2, this.1, this.2, ((reach_inv hr).wf k hm.1).1⟩
    · cases hg

/-- ids_unique: in any history, two answers (of `Current` or `Get`, the second any number of
    calls after the first) that carry the same id are the same key — an id is bound to one
    validity period forever; and the ids handed out by `Current` never decrease. -/
theorem C12_ids_unique {P t0 now s} (hr : Reach P t0 now s) (op1 op2 : Op) (mid : List Op)
    (ht : Timed now (op1 :: mid ++ [op2])) {k k' : Key}
    (ha : (step P s op1).2 = some k)
    (hb : (step P (exec P s (op1 :: mid)) op2).2 = some k') :
    (k.id = k'.id → k = k') ∧
    (∀ a b c d, op1 = .current a b → op2 = .current c d → k.id ≤ k'.id) := by
  have hi := reach_inv hr
  obtain ⟨h1, h2, h3⟩ := ht
  have hi1 := inv_step op1 hi h1 h2
  have hk : k ∈ (step P s op1).1.keys := ans_mem hi op1 h1 h2 ha
  obtain ⟨hm, hl⟩ := timed_append.mp h3
  have hi2 := inv_exec mid hi1 hm
  simp only [Timed, and_true] at hl
  have hk' : k' ∈ (step P (exec P s (op1 :: mid)) op2).1.keys := ans_mem hi2 op2 hl.1 hl.2 hb
  have hsub := keys_sub_exec (P := P) (s := (step P s op1).1) (mid ++ [op2])
  have hex : exec P (step P s op1).1 (mid ++ [op2]) = (step P (exec P s (op1 :: mid)) op2).1 := by
    rw [exec_append]; rfl
  rw [hex] at hsub
  constructor
  · intro hid
    rcases hsub.2 k' hk' with hm' | hlt
    · exact sorted_inj hi1.sorted hk hm' hid
    · have := inv_ids_le hi1 k hk; omega
  · rintro a b c d rfl rfl
    simp only [Op.tIn, Op.tOut] at h1 h2 hl
    have e1 := (current_key hi h1 h2).2.1
    have e2 := (current_key hi2 hl.1 hl.2).2.1
    simp only [step, Option.some.injEq] at ha hb
    subst ha hb
    simp only [exec, step] at hsub e2 ⊢
    omega

/-- Ids are handed out consecutively: a generation increases `currentID` by exactly one
    (so ids are strictly increasing in generation order). -/
theorem C12_ids_consecutive (P : Params) (s : State) (t : Int) :
    (generateNext P s t).currentId = s.currentId + 1 := rfl

/-- id_bound: generations are more than `renewal` apart, so after a history from `t0` to `now`
    `currentID ≤ 1 + (now − t0) / renewal`; with /repo's 24 h and a clock in int64 nanoseconds
    that is below 106 752, far from `math.MaxInt` — the `ID overflow` panic is unreachable. -/
theorem C12_id_bound {P t0 now s} (hw : 0 ≤ P.renewal ∧ P.renewal ≤ P.validity)
    (hr : Reach P t0 now s) :
    1 ≤ s.currentId ∧ (s.currentId - 1) * P.renewal ≤ s.generatedAt - t0 ∧ s.generatedAt ≤ now := by
  obtain ⟨ops, ht, rfl, rfl⟩ := hr
  suffices H : ∀ (ops : List Op) (now : Int) (s : State), Inv P now s →
      (1 ≤ s.currentId ∧ (s.currentId - 1) * P.renewal ≤ s.generatedAt - t0 ∧ s.generatedAt ≤ now) →
      Timed now ops →
      1 ≤ (exec P s ops).currentId ∧
      ((exec P s ops).currentId - 1) * P.renewal ≤ (exec P s ops).generatedAt - t0 ∧
      (exec P s ops).generatedAt ≤ endTime now ops by
    exact H ops t0 (init P t0) (inv_init P t0) (by simp [init, generateNext]) ht
  intro ops
  induction ops with
  | nil => intro now s _ h _; exact h
  | cons op rest ih =>
    intro now s hi hb ht
    obtain ⟨h1, h2, h3⟩ := ht
    refine ih op.tOut (step P s op).1 (inv_step op hi h1 h2) ?_ h3
    cases op with
    | get id t =>
      simp only [Op.tIn, Op.tOut] at h1 h2 ⊢
      simp only [step]; omega
    | current t1 t2 =>
      simp only [Op.tIn, Op.tOut] at h1 h2 ⊢
      simp only [step, current]
      split
      · rename_i hren
        obtain ⟨k0, rest0, hk, hid, hnb⟩ := hi.head
        have hf := find_of_mem hi.sorted (k := k0) (by rw [hk]; exact List.mem_cons_self)
        have hwf := hi.wf k0 (by rw [hk]; exact List.mem_cons_self)
        rw [hid] at hf
        have hlt : s.generatedAt + P.renewal < t1 := by
          simp only [needsRenewal, hf, Bool.or_eq_true, Bool.not_eq_true', decide_eq_true_eq] at hren
          rcases hren with hinv | hlt
          · have : ¬ (k0.nb ≤ t1 ∧ t1 ≤ k0.na) := by
              rw [← validAt_iff]; simp [hinv]
            omega
          · exact hlt
        simp only [generateNext]
        have hmul : (s.currentId + 1 - 1) * P.renewal = (s.currentId - 1) * P.renewal + P.renewal := by
          rw [show s.currentId + 1 - 1 = (s.currentId - 1) + 1 by omega, Int.add_mul, Int.one_mul]
        rw [hmul]
        omega
      · omega

/-- cookie_window (exact form): let `k` be the key `Current` handed out at readings `t1 ≤ t2`.
    After any further history `mid`, `Get(k.id)` at any later instant `t` returns exactly `k`
    if `t ≤ k.notAfter`, and nothing otherwise. -/
theorem C12_cookie_window {P t0 now s} (hr : Reach P t0 now s) {t1 t2 : Int}
    (h1 : now ≤ t1) (h2 : t1 ≤ t2) (mid : List Op) (hm : Timed t2 mid) {t : Int}
    (he : endTime t2 mid ≤ t) :
    let k := (current P s t1 t2).2
    Provider.get (exec P (current P s t1 t2).1 mid) k.id t = if t ≤ k.na then some k else none := by
  intro k
  have hi := reach_inv hr
  have hi1 : Inv P t2 (current P s t1 t2).1 := inv_step (.current t1 t2) hi h1 h2
  have hk : k ∈ (current P s t1 t2).1.keys := (current_key hi h1 h2).1
  have hnb : k.nb ≤ t2 := (hi1.wf k hk).2
  have hi2 := inv_exec mid hi1 hm
  have hle := timed_le_end hm
  split
  · rename_i hna
    have hk2 := keys_retained_exec (P := P) mid hk hm hnb (by omega)
    have hf := find_of_mem hi2.sorted hk2
    have hv : k.validAt t = true := (validAt_iff k t).mpr ⟨by omega, hna⟩
    simp only [Provider.get, hf, hv, if_true]
  · rename_i hna
    unfold Provider.get
    split
    · rfl
    · rename_i k'' hf
      have hm'' := find_some hf
      have hkk : k'' = k := by
        rcases (keys_sub_exec (P := P) (s := (current P s t1 t2).1) mid).2 k'' hm''.1 with hin | hlt
        · exact sorted_inj hi1.sorted hin hk hm''.2
        · have := inv_ids_le hi1 k hk; omega
      rw [hkk]
      have : k.validAt t = false := by
        rw [Bool.eq_false_iff]; intro hv
        have := (validAt_iff k t).mp hv; omega
      simp [this]

/-- A cookie sealed with the current key stays usable for `validity − renewal` after the clock
    reading `t1` of the `Current` call that issued its key, whatever calls intervene. -/
theorem C12_cookie_usable {P t0 now s} (hv : 0 ≤ P.validity) (hn : 0 ≤ P.renewal)
    (hr : Reach P t0 now s) {t1 t2 : Int}
    (h1 : now ≤ t1) (h2 : t1 ≤ t2) (mid : List Op) (hm : Timed t2 mid) {t : Int}
    (he : endTime t2 mid ≤ t) (hw : t ≤ t1 + (P.validity - P.renewal)) :
    Provider.get (exec P (current P s t1 t2).1 mid) (current P s t1 t2).2.id t = some (current P s t1 t2).2 := by
  have h := C12_cookie_window hr h1 h2 mid hm he
  have hf := C12_current_valid_fresh hv hn hr h1 h2
  simp only at h hf
  rw [h, if_pos (by omega)]

/-- …and never beyond `validity` after the key was generated. -/
theorem C12_cookie_expires {P t0 now s} (hv : 0 ≤ P.validity) (hn : 0 ≤ P.renewal)
    (hr : Reach P t0 now s) {t1 t2 : Int}
    (h1 : now ≤ t1) (h2 : t1 ≤ t2) (mid : List Op) (hm : Timed t2 mid) {t : Int}
    (he : endTime t2 mid ≤ t) (hx : (current P s t1 t2).2.nb + P.validity < t) :
    Provider.get (exec P (current P s t1 t2).1 mid) (current P s t1 t2).2.id t = none := by
  have h := C12_cookie_window hr h1 h2 mid hm he
  have hf := C12_current_valid_fresh hv hn hr h1 h2
  simp only at h hf
  rw [h, if_neg (by omega)]

/-- The statement with /repo's constants: at least 48 h from issue, at most 72 h from generation. -/
theorem C12_cookie_two_to_three_days {t0 now s} (hr : Reach std t0 now s) {t1 t2 : Int}
    (h1 : now ≤ t1) (h2 : t1 ≤ t2) (mid : List Op) (hm : Timed t2 mid) {t : Int}
    (he : endTime t2 mid ≤ t) :
    let k := (current std s t1 t2).2
    let g := Provider.get (exec std (current std s t1 t2).1 mid) k.id t
    (t ≤ t1 + 48 * 3600 * 1000000000 → g = some k) ∧
    (k.nb + 72 * 3600 * 1000000000 < t → g = none) := by
  refine ⟨fun hw => ?_, fun hx => ?_⟩
  · exact C12_cookie_usable (P := std) (by decide) (by decide) hr h1 h2 mid hm he
      (by have e1 : std.validity = 259200000000000 := rfl
          have e2 : std.renewal = 86400000000000 := rfl
          omega)
  · exact C12_cookie_expires (P := std) (by decide) (by decide) hr h1 h2 mid hm he
      (by have e1 : std.validity = 259200000000000 := rfl
          omega)

/-- Non-vacuity of the window statement on a concrete history: key 1 issued at 7, other calls
    and a renewal in between, looked up exactly 48 h later (found) and 1 ns after 72 h (gone). -/
example :
    let s := init std 0
    let r := current std s 7 7
    let mid := [Op.get 1 8, .current (std.renewal + 1) (std.renewal + 1), .get 2 (std.renewal + 2)]
    Provider.get (exec std r.1 mid) r.2.id (7 + 172800000000000) = some r.2 ∧
    Provider.get (exec std r.1 (mid ++ [.current (std.validity + 1) (std.validity + 1)])) r.2.id (std.validity + 1) = none ∧
    r.2.id = 1 := by decide

/-- Why `renewal ≤ validity − 48 h` matters (8b: "renewal constant > validity"): with a
    renewal interval of 4 days a key issued at day 2.5 is dead half a day later. -/
example :
    let bad : Params := { validity := 259200000000000, renewal := 345600000000000 }
    let r := current bad (init bad 0) 216000000000000 216000000000000
    Provider.get r.1 r.2.id (216000000000000 + 172800000000000) = none := by decide

/-! ## The users of the provider (core/server): how keys reach cookies

  The theorems above are about the provider alone. Whether a *cookie* is sealed under a fresh
  key also depends on how `newNTSKEMsg`, `runIPServer` and `runSCIONServer` obtain the key
  (`Model/Provider.lean`, `Use`): seeded C12-7 (a listener keeps its sealing key in a variable
  outside the receive loop) and C12-8 (the key exchange takes `Newest()` instead of `Current()`)
  leave the provider untouched. The usage facts are regenerated from /repo on every run by
  `harness/extract/x_c12.go` and pinned here; under them the three users are `useStep`. -/

/-- Pin: in `runIPServer` the only `Decrypt` opens with `key.Value` where `key` has the single
    definition `key, ok := provider.Get(int(<that cookie>.ID))` inside the receive loop, directly
    followed by `if !ok { …; continue }`; the only `EncryptWithNonce(key.Value, key.ID)` seals with a
    `key` whose single definition is `key := provider.Current()` inside the receive loop (same
    iteration: no variable holding a key is declared outside the loop). -/
theorem C12_pin_keyUse_runIPServer :
    Gen.Server.c12KeyUse_runIPServer =
      "open@loop:key<-provider.Get(int(<cookie>.ID))#0@loop,ok-checked;seal@loop:key<-provider.Current()@loop" := by
  decide

/-- Pin: `runSCIONServer` uses keys exactly as `runIPServer` does. -/
theorem C12_pin_keyUse_runSCIONServer :
    Gen.Server.c12KeyUse_runSCIONServer = Gen.Server.c12KeyUse_runIPServer := by decide

/-- Pin: `newNTSKEMsg` seals with a `key` whose single definition is `key := provider.Current()`
    in the same call. -/
theorem C12_pin_keyUse_newNTSKEMsg :
    Gen.Server.c12KeyUse_newNTSKEMsg = "seal@func:key<-provider.Current()@func" := by decide

/-- Pin: every use of a `*ntske.Provider` in core/server — it is only passed on from the start-up
    functions to the three users, which call `Current` and `Get` and nothing else; no package
    variable holds a key or a provider. -/
theorem C12_pin_providerUses :
    Gen.Server.c12ProviderUses =
      "StartIPServer:pass:runIPServer;StartNTSKEServerIP:pass:runNTSKEServerTLS;StartNTSKEServerSCION:pass:runNTSKEServerQUIC;StartSCIONServer:pass:runSCIONServer;handleKeyExchangeQUIC:pass:newNTSKEMsg;handleKeyExchangeTLS:pass:newNTSKEMsg;newNTSKEMsg:Current;runIPServer:Current;runIPServer:Get;runNTSKEServerQUIC:pass:handleKeyExchangeQUIC;runNTSKEServerTLS:pass:handleKeyExchangeTLS;runSCIONServer:Current;runSCIONServer:Get" := by
  rfl

/-- A use is a short history of provider calls. -/
theorem C12_use_step_is_calls (P : Params) (s : State) (u : Use) :
    (useStep P s u).1 = exec P s (u.toOps s) := by
  cases u with
  | ke t1 t2 => rfl
  | ntp id t auth c1 c2 =>
    simp only [useStep, Use.toOps]
    cases hg : Provider.get s id t with
    | none => simp [exec, step, hg]
    | some k => cases auth <;> simp [exec, step, hg]

theorem C12_use_exec_is_calls (P : Params) (s : State) (us : List Use) :
    useExec P s us = exec P s (flat P s us) := by
  induction us generalizing s with
  | nil => rfl
  | cons u rest ih =>
    simp only [useExec, flat, exec_append, ← C12_use_step_is_calls, ih]

/-- use_reach: any history of uses whose provider calls have non-decreasing clock readings leaves
    the provider in a reachable state — so every theorem above applies between uses. -/
theorem C12_use_reach {P t0 now s} (hr : Reach P t0 now s) (us : List Use)
    (ht : Timed now (flat P s us)) :
    Reach P t0 (endTime now (flat P s us)) (useExec P s us) := by
  rw [C12_use_exec_is_calls]; exact reach_exec hr ht

/-- use_sealed_fresh: whatever one of the three users seals cookies with is the key `Current`
    returned at clock readings `c1 ≤ c2` of that same call / iteration: it has
    `notAfter = notBefore + validity`, was generated no later than `c2`, is unexpired at `c1` and
    was generated at most `renewal` before `c1`. -/
theorem C12_use_sealed_fresh {P t0 now s} (hv : 0 ≤ P.validity) (hn : 0 ≤ P.renewal)
    (hr : Reach P t0 now s) (u : Use) (ht : Timed now (u.toOps s)) {k : Key}
    (hk : (useStep P s u).2.sealedWith = some k) :
    ∃ c1 c2, (u = .ke c1 c2 ∨ ∃ id t, u = .ntp id t true c1 c2 ∧ now ≤ t ∧ t ≤ c1) ∧ c1 ≤ c2 ∧
      k.na = k.nb + P.validity ∧ k.nb ≤ c2 ∧ c1 ≤ k.na ∧ c1 - k.nb ≤ P.renewal := by
  cases u with
  | ke t1 t2 =>
    simp only [Use.toOps, Timed, Op.tIn, Op.tOut, and_true] at ht
    simp only [useStep, Option.some.injEq] at hk
    subst hk
    have h := C12_current_valid_fresh hv hn hr ht.1 ht.2
    simp only at h
    exact ⟨t1, t2, Or.inl rfl, ht.2, h.1, h.2.1, h.2.2.1, by omega⟩
  | ntp id t auth c1 c2 =>
    simp only [useStep] at hk
    cases hg : Provider.get s id t with
    | none => simp [hg] at hk
    | some k0 =>
      cases auth with
      | false => simp [hg] at hk
      | true =>
        simp only [hg, if_true, Option.some.injEq] at hk
        subst hk
        simp only [Use.toOps, hg, Option.isSome_some, Bool.and_self, if_true, Timed, Op.tIn,
          Op.tOut, and_true] at ht
        obtain ⟨h0, -, h1, h2⟩ := ht
        have hr' : Reach P t0 t s := by
          have := reach_exec (P := P) hr (ops := [.get id t])
            (by simp only [Timed, Op.tIn, Op.tOut, and_true]; exact ⟨h0, Int.le_refl _⟩)
          simpa [exec, step, endTime, Op.tOut] using this
        have h := C12_current_valid_fresh hv hn hr' h1 h2
        simp only at h
        exact ⟨c1, c2, Or.inr ⟨id, t, rfl, h0, h1⟩, h2, h.1, h.2.1, h.2.2.1, by omega⟩

/-- use_opened_valid: a listener opens a request's cookie only with the key the cookie names,
    and only while that key is within its validity period (at the listener's clock reading). -/
theorem C12_use_opened_valid {P t0 now s} (hr : Reach P t0 now s) {id t c1 c2 : Int} {auth : Bool}
    {k : Key} (hk : (useStep P s (.ntp id t auth c1 c2)).2.opened = some k) :
    k.id = id ∧ k.nb ≤ t ∧ t ≤ k.na ∧ k.na = k.nb + P.validity := by
  simp only [useStep] at hk
  cases hg : Provider.get s id t with
  | none => simp [hg] at hk
  | some k0 =>
    have : k0 = k := by cases auth <;> simpa [hg] using hk
    subst this
    exact C12_get_valid_only hr hg

/-- A request is served (fresh cookies are sealed) only if its cookie's key was found. -/
theorem C12_use_served_only_if_opened (P : Params) (s : State) (id t c1 c2 : Int) (auth : Bool)
    (h : (useStep P s (.ntp id t auth c1 c2)).2.opened = none) :
    (useStep P s (.ntp id t auth c1 c2)).2.sealedWith = none ∧ (useStep P s (.ntp id t auth c1 c2)).1 = s := by
  simp only [useStep] at h ⊢
  cases hg : Provider.get s id t with
  | none => simp
  | some k0 => cases auth <;> simp [hg] at h

/-- The `Current` call of a sealing use, as a call on a reachable state. -/
theorem C12_use_sealed_is_current {P t0 now s} (hr : Reach P t0 now s) (u : Use)
    (ht : Timed now (u.toOps s)) {k : Key} (hk : (useStep P s u).2.sealedWith = some k) :
    ∃ now' c1 c2, Reach P t0 now' s ∧ now' ≤ c1 ∧ c1 ≤ c2 ∧
      (useStep P s u).1 = (current P s c1 c2).1 ∧ k = (current P s c1 c2).2 ∧
      endTime now (u.toOps s) = c2 := by
  cases u with
  | ke t1 t2 =>
    simp only [Use.toOps, Timed, Op.tIn, Op.tOut, and_true] at ht
    simp only [useStep, Option.some.injEq] at hk
    exact ⟨now, t1, t2, hr, ht.1, ht.2, rfl, hk.symm, rfl⟩
  | ntp id t auth c1 c2 =>
    simp only [useStep] at hk ⊢
    cases hg : Provider.get s id t with
    | none => simp [hg] at hk
    | some k0 =>
      cases auth with
      | false => simp [hg] at hk
      | true =>
        simp only [hg, if_true, Option.some.injEq] at hk
        simp only [Use.toOps, hg, Option.isSome_some, Bool.and_self, if_true, Timed, Op.tIn,
          Op.tOut, and_true] at ht
        obtain ⟨h0, -, h1, h2⟩ := ht
        have hr' : Reach P t0 t s := by
          have := reach_exec (P := P) hr (ops := [.get id t])
            (by simp only [Timed, Op.tIn, Op.tOut, and_true]; exact ⟨h0, Int.le_refl _⟩)
          simpa [exec, step, endTime, Op.tOut] using this
        refine ⟨t, c1, c2, hr', h1, h2, ?_, hk.symm, ?_⟩
        · simp
        · simp [Use.toOps, hg, endTime, Op.tOut]

/-- use_cookie_window: a cookie handed out by any of the three users (sealed under `k`), presented
    to a listener at clock reading `t` after any further history of uses, is opened — with exactly
    `k` — iff `t ≤ k.notAfter`. -/
theorem C12_use_cookie_window {P t0 now s} (hr : Reach P t0 now s) (u : Use)
    (ht : Timed now (u.toOps s)) {k : Key} (hk : (useStep P s u).2.sealedWith = some k)
    (mid : List Use) (hm : Timed (endTime now (u.toOps s)) (flat P (useStep P s u).1 mid))
    {t : Int} (he : endTime (endTime now (u.toOps s)) (flat P (useStep P s u).1 mid) ≤ t)
    (auth : Bool) (c1 c2 : Int) :
    (useStep P (useExec P (useStep P s u).1 mid) (.ntp k.id t auth c1 c2)).2.opened =
      if t ≤ k.na then some k else none := by
  obtain ⟨now', a, b, hr', h1, h2, hs, hkk, hend⟩ := C12_use_sealed_is_current hr u ht hk
  rw [hend] at hm he
  rw [hs] at hm he ⊢
  rw [C12_use_exec_is_calls]
  have hw := C12_cookie_window hr' h1 h2 _ hm he
  simp only at hw
  rw [← hkk] at hw
  by_cases hle : t ≤ k.na
  · rw [if_pos hle] at hw; rw [if_pos hle]; simp only [useStep, hw]; cases auth <;> simp
  · rw [if_neg hle] at hw; rw [if_neg hle]; simp only [useStep, hw]

/-- use_cookie_two_to_three_days: with /repo's constants, a cookie handed out by a key exchange or
    in an NTP reply is accepted by every listener for at least 48 h after the clock reading of the
    `Current` call it was sealed with (`c1` of `C12_use_sealed_fresh`), and by none later than 72 h
    after its key was generated — whatever uses happen in between (idle gaps included). -/
theorem C12_use_cookie_two_to_three_days {t0 now s} (hr : Reach std t0 now s) (u : Use)
    (ht : Timed now (u.toOps s)) {k : Key} (hk : (useStep std s u).2.sealedWith = some k)
    (mid : List Use) (hm : Timed (endTime now (u.toOps s)) (flat std (useStep std s u).1 mid))
    {t : Int} (he : endTime (endTime now (u.toOps s)) (flat std (useStep std s u).1 mid) ≤ t)
    (auth : Bool) (c1 c2 : Int) :
    let o := (useStep std (useExec std (useStep std s u).1 mid) (.ntp k.id t auth c1 c2)).2.opened
    (∀ a b, (u = .ke a b ∨ ∃ id t', u = .ntp id t' true a b) → t ≤ a + 48 * 3600 * 1000000000 → o = some k) ∧
    (k.nb + 72 * 3600 * 1000000000 < t → o = none) := by
  intro o
  have hw := C12_use_cookie_window hr u ht hk mid hm he auth c1 c2
  obtain ⟨a, b, hu, hab, hna, hnb, hva, hfr⟩ :=
    C12_use_sealed_fresh (P := std) (by decide) (by decide) hr u ht hk
  have e1 : std.validity = 259200000000000 := rfl
  have e2 : std.renewal = 86400000000000 := rfl
  refine ⟨fun a' b' hu' hle => ?_, fun hgt => ?_⟩
  · have : a' = a := by
      rcases hu with rfl | ⟨_, _, rfl, _⟩ <;> rcases hu' with h | ⟨_, _, h⟩ <;> cases h <;> rfl
    subst this
    change (useStep std _ _).2.opened = some k
    rw [hw, if_pos (by omega)]
  · change (useStep std _ _).2.opened = none
    rw [hw, if_neg (by omega)]

/-- Non-vacuity: key exchange at 5 (key 1), a request with that cookie 25 h later is served and
    its reply is sealed under the renewed key 2; the first cookie is still opened exactly 48 h
    after it was handed out and no longer 1 ns after 72 h. -/
example :
    let s := init std 0
    let r := useStep std s (.ke 5 5)
    let r2 := useStep std r.1 (.ntp 1 (5 + 90000000000000) true (5 + 90000000000000) (5 + 90000000000000))
    r.2.sealedWith = some ⟨1, 0, 259200000000000⟩ ∧
    r2.2.opened = some ⟨1, 0, 259200000000000⟩ ∧
    r2.2.sealedWith = some ⟨2, 5 + 90000000000000, 5 + 90000000000000 + 259200000000000⟩ ∧
    (useStep std r2.1 (.ntp 1 (5 + 172800000000000) true 0 0)).2.opened = some ⟨1, 0, 259200000000000⟩ ∧
    (useStep std r2.1 (.ntp 1 259200000000001 true 0 0)).2.opened = none := by decide

/-- Why the usage facts matter (seeded C12-7): a listener that keeps its sealing key across
    iterations and refreshes it only when it is invalid seals, 25 h after its first request, under a
    key generated 25 h before — although the provider itself would renew (`current` answers key 2). -/
theorem C12_use_cached_key_stale :
    let s := init std 0
    let r1 := sealCachedOld std s zeroKey 5
    let r2 := sealCachedOld std r1.1 r1.2.1 (5 + 90000000000000)
    r2.2.2 = ⟨1, 0, 259200000000000⟩ ∧ (5 + 90000000000000) - r2.2.2.nb > std.renewal ∧
    (current std r1.1 (5 + 90000000000000) (5 + 90000000000000)).2.id = 2 := by decide

/-- …and seeded C12-8: a key exchange that takes the newest key as long as it is valid hands out,
    after an idle gap of 30 h, cookies under the 30 h old key 1 (dead 42 h later, not 48). -/
theorem C12_use_newest_key_stale :
    let s := (current std (init std 0) 5 5).1
    let r := sealNewestOld std s (108000000000000)
    r.2 = ⟨1, 0, 259200000000000⟩ ∧ 108000000000000 - r.2.nb > std.renewal ∧
    Provider.get r.1 1 (108000000000000 + 172800000000000) = none ∧
    (current std s 108000000000000 108000000000000).2.id = 2 := by decide

end ScionTime.C12
