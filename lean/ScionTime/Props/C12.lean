import ScionTime.Model.Provider
import ScionTime.Gen.Ntske
namespace ScionTime.C12
open ScionTime.Provider

theorem C12_pin_keyValidity : Gen.Ntske.keyValidity = std.validity := by decide
theorem C12_pin_keyRenewalInterval : Gen.Ntske.keyRenewalInterval = std.renewal := by decide

end ScionTime.C12
