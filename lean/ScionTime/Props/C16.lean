/-
  C16 — a measurement round ends by its deadline, counts each result once, leaks nothing.

  Model: ScionTime/Model/Collect.lean — `collectMeasurements` as called by
  `(*ReferenceClockClient).MeasureClockOffsets` (core/client/client.go) as a transition system
  over the sender goroutines, the collector, the drain goroutine, the context's deadline timer
  and the virtual clock. Every theorem is for EVERY schedule (`List Choice`), every number of
  clocks, every completion time / outcome / ctx-awareness of each clock, every deadline and every
  prior content `ms0` of the result slice: `run (init t0 d senders ms0) sched = some s`.
  Invariants: ScionTime/Proofs/Collect.lean.
-/
import ScionTime.Proofs.Collect
namespace ScionTime.C16
open ScionTime.Collect

/-- A schedule that exercises most steps (3 clocks: one in time, one failing, one late and
    drained; deadline 10): the hypotheses of the theorems below are met by real runs. -/
def demoSenders : List Sender :=
  [{ id := 0, due := 3, ok := true, aware := false }, { id := 1, due := 5, ok := false, aware := false },
   { id := 2, due := 20, ok := true, aware := false }]
def demoMs0 : List Msg := [{ id := 90, ok := false }, { id := 91, ok := true }, { id := 92, ok := false }]
def demoSched : List Choice :=
  [.tick 3, .finish 0, .recv 0, .tick 5, .finish 1, .recv 1, .tick 10, .cancel, .observeCancel,
   .tick 20, .finish 2, .drain 2]

example : (run (init 0 10 demoSenders demoMs0) demoSched).map
    (fun s => (s.retAt, s.j, s.ms.map (·.id), s.phase, s.drained.map (·.id), s.sending.length)) =
    some (10, 1, [0, 91, 92], .done 0, [2], 0) := by decide

/-- front_once: at every point of every schedule (in particular on return) the first `j`
    entries of the result slice are exactly the successful results the collector has received,
    each once, in arrival order; `j` is their number and `i` the number of all results received;
    the entries from `j` on are what the caller left there (`ms0`) — untouched, stale. -/
theorem C16_front_once {t0 d : Int} {senders : List Sender} {ms0 : List Msg}
    (hlen : ms0.length = senders.length) {sched : List Choice} {s : St}
    (hr : run (init t0 d senders ms0) sched = some s) :
    s.ms.take s.j = s.received.filter (·.ok) ∧
    s.ms.drop s.j = ms0.drop s.j ∧
    s.ms.length = senders.length ∧
    s.j = (s.received.filter (·.ok)).length ∧ s.i = s.received.length ∧ s.j ≤ s.i ∧ s.i ≤ senders.length := by
  have h := inv_reach (inv_init t0 d senders ms0 hlen) (run_reach hr)
  have hn : s.n = senders.length := by have := h.nIds; simp at this; omega
  exact ⟨h.slice.front, h.slice.tail, by rw [h.slice.len, hn], h.slice.jEq, h.slice.iEq, h.slice.jLe,
    by rw [← hn]; exact h.slice.iLe⟩

/-- …each once: the received, drained, still-sending and still-measuring senders are together a
    permutation of the senders; with distinct sender ids no id occurs twice among the received
    results (so none twice in the front of the slice). -/
theorem C16_each_once {t0 d : Int} {senders : List Sender} {ms0 : List Msg}
    (hlen : ms0.length = senders.length) {sched : List Choice} {s : St}
    (hr : run (init t0 d senders ms0) sched = some s) :
    (s.received.map (·.id) ++ s.drained.map (·.id) ++ s.sending.map (·.id) ++ s.measuring.map (·.id)).Perm
      (senders.map (·.id)) ∧
    ((senders.map (·.id)).Nodup → (s.received.map (·.id)).Nodup ∧ ((s.ms.take s.j).map (·.id)).Nodup) := by
  have h := inv_reach (inv_init t0 d senders ms0 hlen) (run_reach hr)
  refine ⟨h.cons, fun hnd => ?_⟩
  have hall : (allIds s).Nodup := h.cons.nodup_iff.mpr hnd
  have hrec : (s.received.map (·.id)).Nodup := by
    unfold allIds at hall
    exact (List.nodup_append.mp (List.nodup_append.mp (List.nodup_append.mp hall).1).1).1
  refine ⟨hrec, ?_⟩
  rw [h.slice.front]
  exact List.Nodup.sublist (List.Sublist.map _ List.filter_sublist) hrec

/-- The inner guard `if j != len(ms)` of the receive case never fails (`j ≤ i < n = len(ms)`
    whenever a receive is possible): removing it changes nothing (8b "drop the guard" is an
    equivalent mutant, not a missed one). -/
theorem C16_guard_never_blocks {t0 d : Int} {senders : List Sender} {ms0 : List Msg}
    (hlen : ms0.length = senders.length) {sched : List Choice} {s : St}
    (hr : run (init t0 d senders ms0) sched = some s) (hi : s.i ≠ s.n) : s.j ≠ s.ms.length := by
  have h := inv_reach (inv_init t0 d senders ms0 hlen) (run_reach hr)
  have := h.slice.jLe; have := h.slice.iLe; have := h.slice.len
  omega

/-- by_deadline (1): once the context is cancelled the collector never waits — while it is in
    its loop one of its two exits is enabled, and the clock cannot advance. -/
theorem C16_no_wait_after_cancel (s : St) (hp : s.phase = .loop) (hc : s.ctxDone = true) :
    ((step s .observeCancel).isSome ∨ (step s .retFull).isSome) ∧ ∀ t, step s (.tick t) = none := by
  constructor
  · by_cases hi : s.i = s.n
    · right; simp [step, hp, hi]
    · left; simp [step, hp, hi, hc]
  · intro t
    simp [step, busy, hp, hc]

/-- by_deadline (2): in every schedule `collectMeasurements` returns no later than the deadline
    (or at its entry instant, if the deadline had already passed), and while it is still in
    its loop the clock has not passed the deadline. -/
theorem C16_by_deadline {t0 d : Int} {senders : List Sender} {ms0 : List Msg}
    (hlen : ms0.length = senders.length) {sched : List Choice} {s : St}
    (hr : run (init t0 d senders ms0) sched = some s) :
    (s.phase = .loop → s.now ≤ max d t0) ∧ (∀ left, s.phase = .done left → s.retAt ≤ max d t0) := by
  have h := inv_reach (inv_init t0 d senders ms0 hlen) (run_reach hr)
  exact ⟨h.time.inLoop, h.time.ret⟩

/-- by_deadline (3): at most `n` receives happen in the whole round, whatever the schedule. -/
theorem C16_receives_bounded {t0 d : Int} {senders : List Sender} {ms0 : List Msg}
    (hlen : ms0.length = senders.length) {sched : List Choice} {s : St}
    (hr : run (init t0 d senders ms0) sched = some s) :
    s.received.length + s.drained.length ≤ senders.length := by
  have h := inv_reach (inv_init t0 d senders ms0 hlen) (run_reach hr)
  have := inv_count h
  have hn : s.n = senders.length := by have := h.nIds; simp at this; omega
  omega

/-- no_leak (1): the drain goroutine is started with exactly the number of results still to
    come: after the return, `left = #sending + #measuring`. It neither exits early (leaving a
    sender blocked) nor waits for a result that will never be sent. -/
theorem C16_drain_exact {t0 d : Int} {senders : List Sender} {ms0 : List Msg}
    (hlen : ms0.length = senders.length) {sched : List Choice} {s : St}
    (hr : run (init t0 d senders ms0) sched = some s) {left : Nat} (hp : s.phase = .done left) :
    left = s.sending.length + s.measuring.length := by
  have h := inv_reach (inv_init t0 d senders ms0 hlen) (run_reach hr)
  have := inv_count h
  have := h.drain.cnt left hp
  omega

/-- no_leak (2): a sender blocked on the channel always has a receiver — in every reachable
    state with a blocked sender, the collector or the drain goroutine can take a step
    (receive it, or return and start the drain goroutine). -/
theorem C16_no_leak_progress {t0 d : Int} {senders : List Sender} {ms0 : List Msg}
    (hlen : ms0.length = senders.length) {sched : List Choice} {s : St}
    (hr : run (init t0 d senders ms0) sched = some s) (hs : s.sending ≠ []) :
    ∃ c, (step s c).isSome ∧
      ((∃ id, c = .recv id) ∨ c = .retFull ∨ (∃ id, c = .drain id)) := by
  have h := inv_reach (inv_init t0 d senders ms0 hlen) (run_reach hr)
  obtain ⟨m, rest, hm⟩ := List.exists_cons_of_ne_nil hs
  have hf : findMsg s.sending m.id = some m := by simp [findMsg, hm]
  cases hp : s.phase with
  | loop =>
    by_cases hi : s.i = s.n
    · exact ⟨.retFull, by simp [step, hp, hi], Or.inr (Or.inl rfl)⟩
    · exact ⟨.recv m.id, by simp [step, hp, hf, hi], Or.inl ⟨_, rfl⟩⟩
  | done left =>
    have hl := C16_drain_exact hlen hr hp
    have : left ≠ 0 := by rw [hl, hm]; simp
    exact ⟨.drain m.id, by simp [step, hp, hf, this], Or.inr (Or.inr ⟨_, rfl⟩)⟩

/-- no_leak (3): once every measurement call has produced its result and no sender is blocked
    any more, every one of the `n` results was received exactly once — by the collector or by
    the drain goroutine — and, if the collector has returned, the drain goroutine has exited. -/
theorem C16_no_leak {t0 d : Int} {senders : List Sender} {ms0 : List Msg}
    (hlen : ms0.length = senders.length) {sched : List Choice} {s : St}
    (hr : run (init t0 d senders ms0) sched = some s)
    (hm : s.measuring = []) (hs : s.sending = []) :
    s.received.length + s.drained.length = senders.length ∧
    (∀ left, s.phase = .done left → left = 0) ∧
    (s.phase = .loop → (step s .retFull).isSome) := by
  have h := inv_reach (inv_init t0 d senders ms0 hlen) (run_reach hr)
  have hc := inv_count h
  have hn : s.n = senders.length := by have := h.nIds; simp at this; omega
  rw [hm, hs] at hc
  simp only [List.length_nil, Nat.add_zero] at hc
  refine ⟨by omega, fun left hp => ?_, fun hp => ?_⟩
  · have := C16_drain_exact hlen hr hp
    rw [hm, hs] at this; simpa using this
  · have := h.drain.loopDr hp
    have hi := h.slice.iEq
    rw [this] at hc
    simp only [List.length_nil, Nat.add_zero] at hc
    simp [step, hp, show s.i = s.n by omega]

/-- second_collection_refused: for every sequence of callers reaching / leaving the
    compare-and-swap guard of `MeasureClockOffsets`, the number of accepted callers that have
    not left is the guard word and never exceeds one. -/
theorem C16_second_collection_refused (g : Nat) (hg : g ≤ 1) (evs : List GuardEv) :
    (guardRun g evs).1 ≤ 1 ∧
    ((guardRun g evs).2.count .accepted) + g = ((guardRun g evs).2.count .left) + (guardRun g evs).1 := by
  induction evs generalizing g with
  | nil => simp [guardRun]; exact hg
  | cons e rest ih =>
    cases e with
    | enter =>
      by_cases h0 : g = 0
      · have := ih 1 (Nat.le_refl 1)
        simp only [guardRun, guardStep, h0, if_true, List.count_cons]
        simp at this ⊢
        omega
      · have h1 : g = 1 := by omega
        have := ih 1 (Nat.le_refl 1)
        subst h1
        simp only [guardRun, guardStep, List.count_cons]
        simp at this ⊢
        omega
    | leave =>
      by_cases h1 : g = 1
      · have := ih 0 (Nat.zero_le 1)
        subst h1
        simp only [guardRun, guardStep, List.count_cons]
        simp at this ⊢
        omega
      · have h0 : g = 0 := by omega
        have := ih 0 (Nat.zero_le 1)
        subst h0
        simp only [guardRun, guardStep, List.count_cons]
        simp at this ⊢
        omega

/-- …and concretely: while a collection is in progress (guard word 1 after any history) the
    next caller is refused (`panic("too many … in progress")`) and changes nothing; when none is
    in progress it is accepted. -/
theorem C16_enter_refused_iff_busy (evs : List GuardEv) :
    ((guardRun 0 evs).1 = 1 → guardStep (guardRun 0 evs).1 .enter = (1, .refused)) ∧
    ((guardRun 0 evs).1 = 0 → guardStep (guardRun 0 evs).1 .enter = (1, .accepted)) := by
  constructor <;> intro h <;> rw [h] <;> rfl

/-- Entry of `MeasureClockOffsets`: a length mismatch panics before the guard is touched; with
    equal lengths a busy client refuses and an idle one accepts (the only way into a round, so
    the hypothesis `len(ms0) = len(senders)` of the theorems above is enforced by the code). -/
theorem C16_entry (a b g : Nat) :
    (a ≠ b → entry a b g = (g, .lenPanic)) ∧
    (a = b → g = 1 → entry a b g = (1, .refused)) ∧
    (a = b → g = 0 → entry a b g = (1, .accepted)) := by
  refine ⟨fun h => by simp [entry, h], fun h hg => ?_, fun h hg => ?_⟩ <;>
    subst h <;> subst hg <;> simp [entry, guardStep]

example : (guardRun 0 [.enter, .enter, .leave, .enter]).2 = [.accepted, .refused, .left, .accepted] := by decide

end ScionTime.C16
