import ScionTime.Model.Collect
namespace ScionTime.C16
open ScionTime.Collect

end ScionTime.C16
