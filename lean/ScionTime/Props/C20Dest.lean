/-
  C20 (client clause) — "NTP requests go to the server and port named in the exchange", over
  HISTORIES of key exchanges on one client object (Model/ClientFlow.lean `destStep`, `destHistory`).

  The clients write the named server and port into the caller's long-lived address object on every
  call and keep nothing else from one call to the next. So the k-th request of any history goes to
  exactly (`net.ParseIP(Server_k)` in its 4-byte form when it has one, `Port_k`) — or nowhere when
  `Server_k` is no IP literal — independent of what earlier exchanges named and of what the address
  object held. The variant that caches the parsed address in the client keyed by the server name only
  is refuted: after a re-key that names the same server with another port its request goes to the
  old port.
-/
import ScionTime.Model.ClientFlow
namespace ScionTime.Props.C20Dest
open ScionTime.ClientNtp ScionTime.ClientFlow

/-- the destination named by one key exchange alone -/
def named (kx : KxDest) : Option (List Nat × Nat) := ntsDestination ([], 0) kx.parsed kx.port

/-- **Every request of a history goes where ITS exchange says.** -/
theorem C20Dest_history (kxs : List KxDest) : ∀ held : List Nat × Nat, destHistory held kxs = kxs.map named := by
  induction kxs with
  | nil => intro held; rfl
  | cons kx rest ih =>
    intro held
    simp only [destHistory, List.map_cons, ih]
    rfl

/-- the k-th destination depends on the k-th exchange only: not on the address object's content
    before the first call, not on any other exchange of the history -/
theorem C20Dest_kth (kxs kxs' : List KxDest) (held held' : List Nat × Nat) (k : Nat) (kx : KxDest)
    (h : kxs[k]? = some kx) (h' : kxs'[k]? = some kx) :
    (destHistory held kxs)[k]? = some (named kx) ∧ (destHistory held' kxs')[k]? = some (named kx) := by
  rw [C20Dest_history, C20Dest_history]
  simp [h, h']

/-- what `named` is: the parsed literal (unmapped) and the port of that exchange; nothing when the
    server is no IP literal -/
theorem C20Dest_named (kx : KxDest) :
    (∀ ip p, named kx = some (ip, p) → p = kx.port ∧ ∃ lit, kx.parsed = some lit ∧ unmapIP lit = some ip) ∧
    (kx.parsed = none → named kx = none) := by
  unfold named ntsDestination
  constructor
  · intro ip p h
    cases hp : kx.parsed with
    | none => rw [hp] at h; simp at h
    | some lit =>
      rw [hp] at h
      simp only [Option.map_eq_some_iff] at h
      obtain ⟨a, ha, hq⟩ := h
      cases hq
      exact ⟨rfl, lit, rfl, ha⟩
  · intro h; rw [h]

def ipA : List Nat := [0, 0, 0, 0, 0, 0, 0, 0, 0, 0, 255, 255, 127, 0, 0, 1]
def ipB : List Nat := [0, 0, 0, 0, 0, 0, 0, 0, 0, 0, 255, 255, 127, 0, 0, 2]

/-- non-vacuity: same server with another port, another server with the same port, a host name in
    between — each request goes to what its own exchange named -/
example : destHistory ([9, 9, 9, 9], 9)
    [⟨"127.0.0.1", some ipA, 4001⟩, ⟨"127.0.0.1", some ipA, 4002⟩, ⟨"127.0.0.2", some ipB, 4002⟩,
     ⟨"localhost", none, 4003⟩, ⟨"127.0.0.1", some ipA, 4003⟩] =
    [some ([127, 0, 0, 1], 4001), some ([127, 0, 0, 1], 4002), some ([127, 0, 0, 2], 4002), none,
     some ([127, 0, 0, 1], 4003)] := by decide

/-- **The name-keyed cache is refuted**: the second exchange names the same server with port 4002,
    the variant's request still goes to port 4001 (and keeps doing so until another NAME appears). -/
theorem C20Dest_name_cache_refuted :
    destHistoryNameCache none
      [⟨"127.0.0.1", some ipA, 4001⟩, ⟨"127.0.0.1", some ipA, 4002⟩, ⟨"127.0.0.2", some ipB, 4002⟩, ⟨"127.0.0.1", some ipA, 4003⟩] =
      [some ([127, 0, 0, 1], 4001), some ([127, 0, 0, 1], 4001), some ([127, 0, 0, 2], 4002), some ([127, 0, 0, 1], 4003)] ∧
    destHistory ([], 0)
      [⟨"127.0.0.1", some ipA, 4001⟩, ⟨"127.0.0.1", some ipA, 4002⟩, ⟨"127.0.0.2", some ipB, 4002⟩, ⟨"127.0.0.1", some ipA, 4003⟩] =
      [some ([127, 0, 0, 1], 4001), some ([127, 0, 0, 1], 4002), some ([127, 0, 0, 2], 4002), some ([127, 0, 0, 1], 4003)] := by
  decide

end ScionTime.Props.C20Dest
