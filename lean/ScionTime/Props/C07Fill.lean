/-
  C07, capacity regime: the closed form of the fill.

  The harness op `srv.bulk n idbase base step d` performs `n` real `handleRequest` calls of
  `n` fresh clients with receive times `base + i*step`; the model driver takes the closed form
  `fillState` instead of replaying a million requests through the association-list model.
  This module proves the closed form equal to the replay (`C07_fill_closed_form`), up to the
  order of the association list (`fillStateRev` is the literal result), and
  `C07_order_unobservable*` (below) proves that no operation of the model observes that order.
-/
import ScionTime.Proofs.ServerFill
import ScionTime.Proofs.ServerExt
namespace ScionTime.Props.C07Fill
open ScionTime.Time64 ScionTime.Server

/-- Iterating the single-request step for `n ≤ cap` fresh clients whose receive timestamps
    do not decrease (in the order of `Time64.Before`) gives exactly the closed form: every
    client has its one exchange, `qval` = its rx, `qidx` = its arrival index, the heap array
    is the arrival order (no swap ever happens), nobody is evicted. -/
theorem C07_fill_closed_form (cap icap n idbase : Nat) (base step d : Int) (hn : n ≤ cap)
    (hmono : ∀ i j, i < j → j < n →
      before (ofTime (fillRxt base step j)) (ofTime (fillRxt base step i)) = false) :
    fillReplay cap icap n idbase base step d = fillStateRev n idbase base step d := by
  induction n with
  | zero => rfl
  | succ n ih =>
    have ih' := ih (by omega) (fun i j hij hj => hmono i j hij (by omega))
    unfold fillReplay at ih' ⊢
    rw [List.range_succ, List.foldl_append, ih']
    simp only [List.foldl_cons, List.foldl_nil]
    exact fill_step cap icap n idbase base step d (by omega) (fun i hi => hmono i n hi (by omega))

/-- The hypothesis holds for non-negative steps within one NTP era (1900-01-01 … 2036-02-07). -/
theorem C07_fill_closed_form_era (cap icap n idbase : Nat) (base step d : Int) (hn : n ≤ cap)
    (hstep : 0 ≤ step) (hlo : -2208988800 * 1000000000 ≤ base)
    (hhi : base + (n : Int) * step < (-2208988800 + 4294967296) * 1000000000) :
    fillReplay cap icap n idbase base step d = fillStateRev n idbase base step d := by
  apply C07_fill_closed_form cap icap n idbase base step d hn
  intro i j hij hj
  have h1 : (i : Int) * step ≤ (j : Int) * step := Int.mul_le_mul_of_nonneg_right (by omega) hstep
  have h2 : (j : Int) * step ≤ (n : Int) * step := Int.mul_le_mul_of_nonneg_right (by omega) hstep
  have h3 : 0 ≤ (i : Int) * step := Int.mul_nonneg (by omega) hstep
  apply ofTime_mono_in_era <;> unfold fillRxt <;> omega

/-- non-vacuity: the fill the harness performs at the real capacity (2^20 clients, 1 µs apart,
    in 2023) meets the hypotheses -/
example : (1048576 : Nat) ≤ tssCap ∧ (0 : Int) ≤ 1000 ∧
    -2208988800 * 1000000000 ≤ (1700000007000000000 : Int) ∧
    (1700000007000000000 : Int) + ((1048576 : Nat) : Int) * 1000 < (-2208988800 + 4294967296) * 1000000000 := by
  decide

/-- a small instance evaluated on the model: the replay of three requests is the closed form -/
example : (fillReplay 4 8 3 10 1700000000000000000 1000 50).items =
      (fillStateRev 3 10 1700000000000000000 1000 50).items ∧
    (fillReplay 4 8 3 10 1700000000000000000 1000 50).heap = #[10, 11, 12] := by
  decide

/-- The state the driver uses (`fillState`, entries oldest first) and the literal result of
    the replay differ only in the order of the association list: same heap, same number of
    entries, and every lookup gives the same item. -/
theorem C07_fill_state_same_lookups (n idbase : Nat) (base step d : Int) :
    (fillState n idbase base step d).heap = (fillStateRev n idbase base step d).heap ∧
    (fillState n idbase base step d).items.length = (fillStateRev n idbase base step d).items.length ∧
    ∀ k, (fillState n idbase base step d).items.find k = (fillStateRev n idbase base step d).items.find k := by
  refine ⟨rfl, by simp [fillState, fillStateRev], fun k => ?_⟩
  exact (find_reverse_of_nodup _ (fill_keys_nodup n idbase base step d) k).symm

/-! ### the order of the association list is not observable

  `SExt st st'` (Proofs/ServerExt): same heap array, both maps with pairwise distinct keys,
  the same number of entries and the same item under every key. -/

/-- `handleRequest` (repaired and original) maps `SExt`-related states to `SExt`-related
    states and returns the same reply, out-parameters and evicted client. -/
theorem C07_order_unobservable_hr (strict : Bool) (cap icap : Nat) (st st' : State) (h : SExt st st')
    (id : Nat) (req : Req) (rxt now : Int) :
    SExt (handleRequestG strict cap icap st id req rxt now).st (handleRequestG strict cap icap st' id req rxt now).st ∧
    (handleRequestG strict cap icap st id req rxt now).reply = (handleRequestG strict cap icap st' id req rxt now).reply ∧
    (handleRequestG strict cap icap st id req rxt now).rxt = (handleRequestG strict cap icap st' id req rxt now).rxt ∧
    (handleRequestG strict cap icap st id req rxt now).txt = (handleRequestG strict cap icap st' id req rxt now).txt ∧
    (handleRequestG strict cap icap st id req rxt now).evicted = (handleRequestG strict cap icap st' id req rxt now).evicted :=
  ⟨handleRequestG_ext_st strict cap icap h id req rxt now, handleRequestG_ext_out strict cap icap h id req rxt now⟩

theorem C07_order_unobservable_utx (st st' : State) (h : SExt st st') (id : Nat) (rxt txt1 : Int) :
    SExt (updateTX st id rxt txt1).1 (updateTX st' id rxt txt1).1 ∧
    (updateTX st id rxt txt1).2 = (updateTX st' id rxt txt1).2 :=
  updateTX_ext h id rxt txt1

theorem C07_order_unobservable_run (cap icap : Nat) (st st' : State) (h : SExt st st') (ops : List Op) :
    SExt (run cap icap st ops) (run cap icap st' ops) :=
  run_ext cap icap ops h

/-- the driver's closed form and the literal result of the replay are related -/
theorem C07_fill_state_ext (n idbase : Nat) (base step d : Int) :
    SExt (fillState n idbase base step d) (fillStateRev n idbase base step d) where
  heap := rfl
  items :=
    { find := (C07_fill_state_same_lookups n idbase base step d).2.2
      len := (C07_fill_state_same_lookups n idbase base step d).2.1
      nd := fill_keys_nodup n idbase base step d
      nd' := by
        have : Map.keys (fillStateRev n idbase base step d).items =
            (Map.keys ((List.range n).map (fillItem idbase base step d))).reverse := by
          unfold fillStateRev Map.keys; simp
        rw [this]
        unfold List.Nodup
        rw [List.pairwise_reverse]
        exact (fill_keys_nodup n idbase base step d).imp Ne.symm }

/-- What the correspondence at the real capacity rests on: any history that starts from the
    driver's closed form proceeds exactly as from the state the `n` real requests produce —
    related states after every further operation, and the same answer to the next request. -/
theorem C07_fill_then_history (cap icap n idbase : Nat) (base step d : Int) (hn : n ≤ cap)
    (hmono : ∀ i j, i < j → j < n →
      before (ofTime (fillRxt base step j)) (ofTime (fillRxt base step i)) = false)
    (ops : List Op) (id : Nat) (req : Req) (rxt now : Int) :
    let a := run cap icap (fillState n idbase base step d) ops
    let b := run cap icap (fillReplay cap icap n idbase base step d) ops
    SExt a b ∧
    (handleRequest cap icap a id req rxt now).reply = (handleRequest cap icap b id req rxt now).reply ∧
    (handleRequest cap icap a id req rxt now).evicted = (handleRequest cap icap b id req rxt now).evicted ∧
    (handleRequest cap icap a id req rxt now).st.heap = (handleRequest cap icap b id req rxt now).st.heap := by
  intro a b
  have hab : SExt a b := by
    show SExt (run cap icap (fillState n idbase base step d) ops) (run cap icap (fillReplay cap icap n idbase base step d) ops)
    rw [C07_fill_closed_form cap icap n idbase base step d hn hmono]
    exact run_ext cap icap ops (C07_fill_state_ext n idbase base step d)
  have ho := handleRequestG_ext_out true cap icap hab id req rxt now
  have hs := handleRequestG_ext_st true cap icap hab id req rxt now
  exact ⟨hab, ho.1, ho.2.2.2, hs.heap⟩

/-- non-vacuity on the model: a full table of 3, closed form vs replay, then a newcomer older
    than the least recently active client (stateless) and one at least as recent (evicts) -/
example :
    (handleRequest 3 8 (fillState 3 10 1700000000000000000 1000 50) 99 zeroReq 1699999999999999999 1700000000000005000).evicted = none ∧
    (handleRequest 3 8 (fillReplay 3 8 3 10 1700000000000000000 1000 50) 99 zeroReq 1699999999999999999 1700000000000005000).evicted = none ∧
    (handleRequest 3 8 (fillState 3 10 1700000000000000000 1000 50) 99 zeroReq 1700000000000000000 1700000000000005000).evicted = some 10 ∧
    (handleRequest 3 8 (fillReplay 3 8 3 10 1700000000000000000 1000 50) 99 zeroReq 1700000000000000000 1700000000000005000).evicted = some 10 := by
  decide

end ScionTime.Props.C07Fill
