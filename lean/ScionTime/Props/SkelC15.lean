import ScionTime.Gen.SkelC15
import ScionTime.Model.Skel.Crypto
import ScionTime.Model.Skel.Pather

/-!
  Control-skeleton pins, group C15 (notes/SKEL.md): the control structure and the text of every
  condition, call and assignment of the functions below, re-read from /repo on every run
  (`Gen.Skel.*`, harness/extract/skeleton.go), are exactly the ones the hand-written models were
  written against (`Model.Skel.*`, annotated row by row with the model definition that mirrors
  each statement).  A broken pin means the code was edited inside a modelled function: the model
  has to be re-read against the rows named by the `SKEL-DIFF` diagnostic.
-/
namespace ScionTime

/-! diagnostics (not obligations): name the rows that differ when a pin below breaks -/
#eval Model.Skel.check "Crypto.randInt31" Gen.Skel.Crypto.randInt31 Model.Skel.Crypto.randInt31
#eval Model.Skel.check "Crypto.randInt63" Gen.Skel.Crypto.randInt63 Model.Skel.Crypto.randInt63
#eval Model.Skel.check "Crypto.RandIntn" Gen.Skel.Crypto.RandIntn Model.Skel.Crypto.RandIntn
#eval Model.Skel.check "Crypto.Sample" Gen.Skel.Crypto.Sample Model.Skel.Crypto.Sample
#eval Model.Skel.check "Pather.Pather_LocalIA" Gen.Skel.Pather.Pather_LocalIA Model.Skel.Pather.Pather_LocalIA
#eval Model.Skel.check "Pather.Pather_Paths" Gen.Skel.Pather.Pather_Paths Model.Skel.Pather.Pather_Paths
#eval Model.Skel.check "Pather.update" Gen.Skel.Pather.update Model.Skel.Pather.update
#eval Model.Skel.check "Pather.StartPather" Gen.Skel.Pather.StartPather Model.Skel.Pather.StartPather

/-! the pins -/
theorem C15_skel_Crypto_randInt31 : Gen.Skel.Crypto.randInt31 = Model.Skel.Crypto.randInt31 := rfl
theorem C15_skel_Crypto_randInt63 : Gen.Skel.Crypto.randInt63 = Model.Skel.Crypto.randInt63 := rfl
theorem C15_skel_Crypto_RandIntn : Gen.Skel.Crypto.RandIntn = Model.Skel.Crypto.RandIntn := rfl
theorem C15_skel_Crypto_Sample : Gen.Skel.Crypto.Sample = Model.Skel.Crypto.Sample := rfl
theorem C15_skel_Pather_Pather_LocalIA : Gen.Skel.Pather.Pather_LocalIA = Model.Skel.Pather.Pather_LocalIA := rfl
theorem C15_skel_Pather_Pather_Paths : Gen.Skel.Pather.Pather_Paths = Model.Skel.Pather.Pather_Paths := rfl
theorem C15_skel_Pather_update : Gen.Skel.Pather.update = Model.Skel.Pather.update := rfl
theorem C15_skel_Pather_StartPather : Gen.Skel.Pather.StartPather = Model.Skel.Pather.StartPather := rfl

end ScionTime
