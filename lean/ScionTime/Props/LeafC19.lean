/-
  Kernel-checked tie (C19): `(*Pll).Do` of core/sync/adjustments/pll.go as regenerated from
  /repo's Go source on every run (Gen/Leaf.lean, leaf translator: tagged switch, `l.mode++`,
  `l.clk.Epoch()` (twice) / `l.clk.Now()` as parameters — one per CALL SITE —, `math.Pow` as a
  function-typed parameter applied to the translated arguments of each call site (eighth generation),
  `l.clk.Step` / `l.clk.Adjust` as recorded actions, the four panics as `none`, log statements
  skipped) agrees with the hand-written model `Pll.step` that every C19 theorem is about: same new
  state, same calls on the clock in the same order, panic exactly when the model panics.

  PROVED (`C19_leaf_Do`), for ALL inputs (both epoch readings, every function `pf` for math.Pow):
      ∀ l off w e1 e2 now pf, let (l', e') := readEpoch l e1 e2
        Agree (adjustments_Pll_Do l off w e1 e2 now pf)
              (Pll.step (pl l') e'.toNat now off.toInt w (pf stiffenRate (dtOf l now)))
  `C19_leaf_Do_stable` is the case e1 = e2 (then l' = l up to the model's own epoch test),
  `C19_leaf_Do_pow_args` says the code uses `pf` only at `(stiffenRate, dt)`,
  `C19_leaf_Do_two_readings` reduces two different readings to one.
  — every mode (start-up, awaiting step, awaiting PLL, tracking, unexpected), the epoch test, all
  three gain regimes of the tracking mode (weight < 50, < 150, the stiffening with `math.Pow`), the
  integrator, the clamp to ±500 ppm × ⌈dt⌉, `timemath.Duration`, the `d > 0` guard of `Adjust`, the
  three clock panics and the default panic.

  How: the generated definition is cut, by `rfl` (`do_pieces`), into the pieces the model is made
  of (`gSync`, `gMode0..3`, `gGains`, `gTrack`, `gFinish`), the model likewise (`step_pieces`), and
  each piece is proved equal to its counterpart by a case split of at most four conditions. A change
  of `Pll.Do` in /repo changes Gen/Leaf.lean; then `do_pieces` (shape) or a piece lemma (content) no
  longer checks. The whole file elaborates in a few seconds (it replaced a monolithic `simp` proof
  that took 2.5 minutes and covered only weight < 50).
-/
import ScionTime.Gen.Leaf
import ScionTime.Model.Pll
import ScionTime.Proofs.GoPrelude
namespace ScionTime.LeafTieC19
open ScionTime ScionTime.Gen.Leaf ScionTime.GoLemmas ScionTime.Pll

def pl (l : S_Pll) : State :=
  { epoch := l.epoch.toNat, mode := l.mode.toNat, t0 := l.t0, t := l.t, a := l.a, b := l.b, i := l.i }

def act : Go.ClkAction → Action
  | .step o => .step o.toInt
  | .adjust o d f => .adjust o.toInt d.toInt f

theorem inv_eq (d : Int64) : (timemath_Inv d).toInt = inv d.toInt := by
  unfold timemath_Inv inv minI64 maxI64
  by_cases h : d = Int64.minValue
  · subst h; decide
  · have h' : (d == (-9223372036854775808 : Int64)) = false := by
      rw [beq_eq_false_iff_ne]; exact h
    have hne : d.toInt ≠ -9223372036854775808 := by
      intro hh; apply h; apply Int64.toInt_inj.mp; rw [hh]; decide
    simp only [h', Bool.false_eq_true, if_false, hne]
    rw [Int64.toInt_neg]
    have hl := Int64.le_toInt d
    have hu := Int64.toInt_lt d
    apply Int.bmod_eq_of_le <;> omega

theorem abs_eq (d : Int64) : (Go.Duration.abs d).toInt = durAbs d.toInt := by
  unfold Go.Duration.abs durAbs minI64 maxI64
  by_cases h0 : d.toInt ≥ 0
  · simp [h0]
  · simp only [h0, if_false]
    by_cases h : d = Int64.minValue
    · subst h; decide
    · have h' : (d == Int64.minValue) = false := by rw [beq_eq_false_iff_ne]; exact h
      have hne : d.toInt ≠ -9223372036854775808 := by
        intro hh; apply h; apply Int64.toInt_inj.mp; rw [hh]; decide
      simp only [h', Bool.false_eq_true, if_false, hne]
      rw [Int64.toInt_neg]
      have hl := Int64.le_toInt d
      have hu := Int64.toInt_lt d
      apply Int.bmod_eq_of_le <;> omega

theorem sub_eq (t u : Int) : (Go.Time.sub t u).toInt = timeSub t u := by
  unfold Go.Time.sub timeSub minI64 maxI64
  simp only
  by_cases h1 : t - u < -9223372036854775808
  · simp only [h1, if_true]; decide
  · by_cases h2 : t - u > 9223372036854775807
    · simp only [h1, h2, if_true, if_false]; decide
    · simp only [h1, h2, if_false]
      apply toInt_ofInt_of_fits <;> omega

theorem dur_eq (x : F64.F64) : (timemath_Duration x).toInt = F64.toDuration x := by
  unfold timemath_Duration F64.toDuration
  exact ofInt_toInt64 _

theorem k0 : F64.ofInt 0 = fzero := by decide +kernel
theorem k3 : F64.ofInt 3 = wStep := by decide +kernel
theorem k50 : F64.ofInt 50 = wLow := by decide +kernel
theorem k150 : F64.ofInt 150 = wHigh := by decide +kernel
theorem k60 : F64.ofInt 60 = iInit := by decide +kernel
theorem c2s : ((2 : Int64) * (1000000000 : Int64)).toInt = stepWait := by decide
theorem c6s : ((6 : Int64) * (1000000000 : Int64)).toInt = pllWait := by decide
theorem c1ms : ((1 : Int64) * (1000000 : Int64)).toInt = stepThreshold := by decide
theorem c300 : (300000000000 : Int64).toInt = captureTime := by decide
theorem c0i : (0 : Int64).toInt = 0 := by decide

theorem rbLow : bLow = F64.ofConst 1 2000 := by decide +kernel
theorem rslewPos : slewPos = F64.ofConst 1 2000 := by decide +kernel
theorem kbLow : F64.ofConst 1 2000 = bLow := by decide +kernel
theorem kaMid : F64.ofConst 3 50 = aMid := by decide +kernel
theorem kNeg : F64.ofConst (-1) 2000 = slewNeg := by decide +kernel
theorem kPInit : F64.ofConst 33 100 = pInit := rfl
theorem kaLow : F64.ofConst 3 100 = aLow := rfl
theorem kbMid : F64.ofConst 1 1000 = bMid := rfl

theorem mode_eq (m : UInt64) (k : Nat) (hk : k < 4) : (m == UInt64.ofNat k) = decide (m.toNat = k) := by
  rw [Bool.eq_iff_iff]; simp only [beq_iff_eq, decide_eq_true_eq]
  constructor
  · intro h; subst h; simp [UInt64.toNat_ofNat']; omega
  · intro h; apply UInt64.toNat_inj.mp; rw [h]; simp [UInt64.toNat_ofNat']; omega

/-- the generated result and the model's outcome say the same -/
def Agree : Option (S_Pll × List Go.ClkAction) → Outcome → Prop
  | none, .panic _ => True
  | some (l', acts), .ok s a => s = pl l' ∧ a = acts.map act
  | _, _ => False

theorem gz : F64.gt fzero fzero = false := by decide +kernel

theorem uint64_ne (a b : UInt64) (h : (a != b) = true) : a.toNat ≠ b.toNat := by
  rw [bne_iff_ne] at h; exact fun hh => h (UInt64.toNat_inj.mp hh)


/-! ### the generated definition, cut into the pieces the model is made of (by `rfl`) -/

/-- the epoch test at the top of `Do`: `if l.epoch != l.clk.Epoch() { l.epoch = l.clk.Epoch(); l.mode = 0 }`
    — TWO readings of the clock's epoch (`e1` compared, `e2` stored), each a parameter of its own since
    the eighth generation of the translator -/
def gSync (l : S_Pll) (e1 e2 : UInt64) : S_Pll :=
  if (l.epoch != e1) then
    let l : S_Pll := { l with epoch := e2 }
    let l : S_Pll := { l with mode := (0 : UInt64) }
    l
  else
    l

/-- `stiffenRate = 0.999`, the first argument of both `math.Pow` calls -/
def stiffenRate : F64.F64 := F64.ofConst 999 1000

/-- `dt = now.Sub(l.t).Seconds()`, the second argument of both `math.Pow` calls -/
def dtOf (l : S_Pll) (now : Int) : F64.F64 := F64.durationSeconds (timeSub now l.t)

/-- the tail after the switch: `l.t = now`, `if d > 0.0 { l.clk.Adjust(…) }` -/
def gFinish (l : S_Pll) (now : Int) (p d : F64.F64) (acts : List Go.ClkAction) :
    Option (S_Pll × List Go.ClkAction) :=
  let l : S_Pll := { l with t := now }
  let acts :=
    if (F64.gt d (F64.ofInt 0)) then
      let acts : List Go.ClkAction := acts ++ [(Go.ClkAction.adjust (timemath_Duration p) (timemath_Duration d) l.i)]
      acts
    else
      acts
  some ((l, acts))

/-- the gain selection of `case 3` -/
def gGains (l : S_Pll) (mdt : Int64) (weight : F64.F64) (ext_Pow : F64.F64 → F64.F64 → F64.F64) (dt : F64.F64) :
    F64.F64 × F64.F64 × S_Pll :=
  if (F64.lt weight (F64.ofInt 50)) then
    let a : F64.F64 := (F64.ofConst (3) 100)
    let b : F64.F64 := (F64.ofConst (1) 2000)
    (a, b, l)
  else
    let (a, b, l) :=
      if (F64.lt weight (F64.ofInt 150)) then
        let a : F64.F64 := (F64.ofConst (3) 50)
        let b : F64.F64 := (F64.ofConst (1) 1000)
        (a, b, l)
      else
        let l :=
          if ((decide (mdt > (300000000000 : Int64))) && (F64.gt l.a (F64.ofConst (3) 100))) then
            let l : S_Pll := { l with a := (F64.mul l.a (ext_Pow (F64.ofConst (999) 1000) dt)) }
            let l : S_Pll := { l with b := (F64.mul l.b (ext_Pow (F64.ofConst (999) 1000) dt)) }
            l
          else
            l
        let a : F64.F64 := l.a
        let b : F64.F64 := l.b
        (a, b, l)
    (a, b, l)

/-- `case 3` after the gain selection: p, d, the integrator, the clamp, the tail -/
def gTrack (l : S_Pll) (a b dt : F64.F64) (offset : Int64) (now : Int) : Option (S_Pll × List Go.ClkAction) :=
  let p : F64.F64 := (F64.mul (F64.durationSeconds ((timemath_Inv offset)).toInt) a)
  let d : F64.F64 := (F64.ceil dt)
  let l : S_Pll := { l with i := (F64.add l.i (F64.mul p b)) }
  let p :=
    if (F64.gt p (F64.mul d (F64.ofConst (1) 2000))) then
      let p : F64.F64 := (F64.mul d (F64.ofConst (1) 2000))
      p
    else
      p
  let p :=
    if (F64.lt p (F64.mul d (F64.ofConst (-1) 2000))) then
      let p : F64.F64 := (F64.mul d (F64.ofConst (-1) 2000))
      p
    else
      p
  gFinish l now p d []

def gMode0 (l : S_Pll) (now : Int) : Option (S_Pll × List Go.ClkAction) :=
  let l : S_Pll := { l with t0 := now }
  let l : S_Pll := { l with mode := l.mode + (1 : UInt64) }
  gFinish l now (F64.ofInt 0) (F64.ofInt 0) []

def gMode1 (l : S_Pll) (offset : Int64) (weight : F64.F64) (now : Int) : Option (S_Pll × List Go.ClkAction) :=
  let mdt : Int64 := (Go.Time.sub now l.t0)
  if (decide (mdt < (0 : Int64))) then
    none
  else
    let (acts, l) :=
      if ((decide (mdt > ((2 : Int64) * (1000000000 : Int64)))) && (F64.gt weight (F64.ofInt 3))) then
        let acts :=
          if (decide ((Go.Duration.abs offset) > ((1 : Int64) * (1000000 : Int64)))) then
            let acts : List Go.ClkAction := [] ++ [(Go.ClkAction.step (timemath_Inv offset))]
            acts
          else
            []
        let l : S_Pll := { l with t0 := now }
        let l : S_Pll := { l with mode := l.mode + (1 : UInt64) }
        (acts, l)
      else
        ([], l)
    gFinish l now (F64.ofInt 0) (F64.ofInt 0) acts

def gMode2 (l : S_Pll) (now : Int) : Option (S_Pll × List Go.ClkAction) :=
  let mdt : Int64 := (Go.Time.sub now l.t0)
  if (decide (mdt < (0 : Int64))) then
    none
  else
    let l :=
      if (decide (mdt > ((6 : Int64) * (1000000000 : Int64)))) then
        let l : S_Pll := { l with a := (F64.ofConst (33) 100) }
        let l : S_Pll := { l with b := (F64.div l.a (F64.ofInt 60)) }
        let l : S_Pll := { l with t0 := now }
        let l : S_Pll := { l with mode := l.mode + (1 : UInt64) }
        l
      else
        l
    gFinish l now (F64.ofInt 0) (F64.ofInt 0) []

def gMode3 (l : S_Pll) (offset : Int64) (weight : F64.F64) (now : Int) (pw : F64.F64 → F64.F64 → F64.F64) :
    Option (S_Pll × List Go.ClkAction) :=
  let mdt : Int64 := (Go.Time.sub now l.t0)
  if (decide (mdt < (0 : Int64))) then
    none
  else
    let dt : F64.F64 := (F64.durationSeconds ((Go.Time.sub now l.t)).toInt)
    if (F64.lt dt (F64.ofInt 0)) then
      none
    else
      let (a, b, l) := gGains l mdt weight pw dt
      gTrack l a b dt offset now

/-- The generated `(*Pll).Do` IS the composition of the pieces above — definitional equality,
    re-checked against the regenerated definition on every run. -/
theorem do_pieces (l : S_Pll) (off : Int64) (w : F64.F64) (e1 e2 : UInt64) (now : Int)
    (pw : F64.F64 → F64.F64 → F64.F64) :
    adjustments_Pll_Do l off w e1 e2 now pw =
      (let offset := timemath_Inv off
       let l := gSync l e1 e2
       if (l.mode == (0 : UInt64)) then gMode0 l now
       else if (l.mode == (1 : UInt64)) then gMode1 l offset w now
       else if (l.mode == (2 : UInt64)) then gMode2 l now
       else if (l.mode == (3 : UInt64)) then gMode3 l offset w now pw
       else none) := rfl

/-! ### each piece agrees with its counterpart in Model/Pll.lean -/

theorem pl_sync (l : S_Pll) (e : UInt64) : pl (gSync l e e) = syncEpoch (pl l) e.toNat := by
  unfold gSync syncEpoch
  by_cases he : (l.epoch != e) = true
  · have he' : (pl l).epoch ≠ e.toNat := uint64_ne _ _ he
    rw [if_pos he, if_pos he']; rfl
  · have heq : l.epoch = e := by simpa using he
    have he' : ¬ (pl l).epoch ≠ e.toNat := by simp [pl, heq]
    rw [if_neg he, if_neg he']

theorem finish_agree (l : S_Pll) (now : Int) (p d : F64.F64) (acts : List Go.ClkAction) :
    Agree (gFinish l now p d acts) (finish (pl l) now p d (acts.map act)) := by
  unfold gFinish finish
  rw [k0]
  by_cases hd : F64.gt d fzero = true
  · simp only [hd, if_true, Agree, pl, act, dur_eq, List.map_append, List.map_cons, List.map_nil, and_self]
  · simp only [hd, if_false, Agree, pl, Bool.false_eq_true, and_self]

theorem mode_succ (l : S_Pll) (k : Nat) (hk : k < 3) (h : l.mode = UInt64.ofNat k) :
    (l.mode + 1).toNat = l.mode.toNat + 1 := by
  rw [h]
  have : k = 0 ∨ k = 1 ∨ k = 2 := by omega
  rcases this with rfl | rfl | rfl <;> rfl

theorem gains_agree (l : S_Pll) (mdt : Int64) (w : F64.F64) (pf : F64.F64 → F64.F64 → F64.F64) (dt : F64.F64) :
    (gGains l mdt w pf dt).1 = (gains (pl l) mdt.toInt w (pf stiffenRate dt)).2.1 ∧
    (gGains l mdt w pf dt).2.1 = (gains (pl l) mdt.toInt w (pf stiffenRate dt)).2.2 ∧
    pl (gGains l mdt w pf dt).2.2 = (gains (pl l) mdt.toInt w (pf stiffenRate dt)).1 := by
  unfold gGains gains stiffenRate
  generalize pf (F64.ofConst 999 1000) dt = pw
  rw [k50, k150, kbLow, kaMid, kaLow, kbMid]
  by_cases h50 : F64.lt w wLow = true
  · simp only [h50, if_true, rbLow, and_self]
  · by_cases h150 : F64.lt w wHigh = true
    · simp only [h50, h150, if_true, if_false, Bool.false_eq_true, and_self]
    · have hc : (decide (mdt > (300000000000 : Int64)) && F64.gt l.a aLow) =
          decide (mdt.toInt > captureTime ∧ F64.gt l.a pLimit = true) := by
        rw [Bool.eq_iff_iff]
        simp only [Bool.and_eq_true, decide_eq_true_eq, gt_iff_lt, Int64.lt_iff_toInt_lt, c300]
        exact Iff.rfl
      by_cases hs : (mdt.toInt > captureTime ∧ F64.gt l.a pLimit = true)
      · have hc' := hc; rw [decide_eq_true hs] at hc'
        simp only [h50, h150, if_false, Bool.false_eq_true, hc', if_true, pl, hs, and_self]
      · have hc' := hc; rw [decide_eq_false hs] at hc'
        simp only [h50, h150, if_false, Bool.false_eq_true, hc', pl, hs, and_self]

theorem track_agree (l : S_Pll) (a b dt : F64.F64) (offset : Int64) (now : Int) :
    Agree (gTrack l a b dt offset now)
      (finish { pl l with i := F64.add (pl l).i (F64.mul (F64.mul (F64.durationSeconds (inv offset.toInt)) a) b) }
        now (clamp (F64.mul (F64.durationSeconds (inv offset.toInt)) a) (F64.ceil dt)) (F64.ceil dt) []) := by
  have h := finish_agree
    { l with i := F64.add l.i (F64.mul (F64.mul (F64.durationSeconds (inv offset.toInt)) a) b) } now
    (clamp (F64.mul (F64.durationSeconds (inv offset.toInt)) a) (F64.ceil dt)) (F64.ceil dt) []
  unfold gTrack
  rw [inv_eq, ← rslewPos, kNeg]
  exact h

/-- `case 3` of the model, as a function of the state after the epoch test -/
def mMode3 (s : State) (now : Int) (offset : Int) (w pw : F64.F64) : Outcome :=
  let mdt := timeSub now s.t0
  if mdt < 0 then .panic .clock
  else
    let dt := F64.durationSeconds (timeSub now s.t)
    if F64.lt dt fzero then .panic .clock
    else track s now mdt dt offset w pw

theorem mode3_agree (l : S_Pll) (offset : Int64) (w : F64.F64) (now : Int) (pf : F64.F64 → F64.F64 → F64.F64) :
    Agree (gMode3 l offset w now pf) (mMode3 (pl l) now offset.toInt w (pf stiffenRate (dtOf l now))) := by
  unfold gMode3 mMode3 dtOf
  simp only [Int64.lt_iff_toInt_lt, sub_eq, c0i, k0, decide_eq_true_eq]
  have ht0 : (pl l).t0 = l.t0 := rfl
  have ht : (pl l).t = l.t := rfl
  rw [ht0, ht]
  by_cases h1 : timeSub now l.t0 < 0
  · rw [if_pos h1, if_pos h1]; trivial
  · rw [if_neg h1, if_neg h1]
    by_cases h2 : F64.lt (F64.durationSeconds (timeSub now l.t)) fzero = true
    · simp only [h2, if_true]; trivial
    · simp only [h2, if_false, Bool.false_eq_true]
      generalize hdt : F64.durationSeconds (timeSub now l.t) = dt
      obtain ⟨ga, gb, gl⟩ := gains_agree l (Go.Time.sub now l.t0) w pf dt
      rw [sub_eq] at ga gb gl
      have h := track_agree (gGains l (Go.Time.sub now l.t0) w pf dt).2.2 (gGains l (Go.Time.sub now l.t0) w pf dt).1
        (gGains l (Go.Time.sub now l.t0) w pf dt).2.1 dt offset now
      unfold track
      rcases hg : gains (pl l) (timeSub now l.t0) w (pf stiffenRate dt) with ⟨s, a, b⟩
      rw [hg] at ga gb gl
      simp only at ga gb gl ⊢
      rw [gl, ga, gb] at h
      rw [ga, gb]
      exact h

def mMode0 (s : State) (now : Int) : Outcome :=
  finish { s with t0 := now, mode := s.mode + 1 } now fzero fzero []

def mMode1 (s : State) (now : Int) (offset : Int) (w : F64.F64) : Outcome :=
  let mdt := timeSub now s.t0
  if mdt < 0 then .panic .clock
  else if mdt > stepWait ∧ F64.gt w wStep = true then
    let acts := if durAbs offset > stepThreshold then [Action.step (inv offset)] else []
    finish { s with t0 := now, mode := s.mode + 1 } now fzero fzero acts
  else finish s now fzero fzero []

def mMode2 (s : State) (now : Int) : Outcome :=
  let mdt := timeSub now s.t0
  if mdt < 0 then .panic .clock
  else if mdt > pllWait then
    finish { s with a := pInit, b := F64.div pInit iInit, t0 := now, mode := s.mode + 1 } now fzero fzero []
  else finish s now fzero fzero []

/-- the model's `step` is the same composition (definitional) -/
theorem step_pieces (s : State) (e : Nat) (now off : Int) (w pw : F64.F64) :
    step s e now off w pw =
      (let offset := inv off
       let s := syncEpoch s e
       if s.mode = 0 then mMode0 s now
       else if s.mode = 1 then mMode1 s now offset w
       else if s.mode = 2 then mMode2 s now
       else if s.mode = 3 then mMode3 s now offset w pw
       else .panic .mode) := rfl

theorem mode0_agree (l : S_Pll) (now : Int) (hm : l.mode = 0) :
    Agree (gMode0 l now) (mMode0 (pl l) now) := by
  have h := finish_agree { l with t0 := now, mode := l.mode + 1 } now (F64.ofInt 0) (F64.ofInt 0) []
  have hp : pl { l with t0 := now, mode := l.mode + 1 } = { pl l with t0 := now, mode := (pl l).mode + 1 } := by
    simp only [pl, mode_succ l 0 (by omega) hm]
  rw [hp, k0] at h
  exact h

theorem mode1_agree (l : S_Pll) (offset : Int64) (w : F64.F64) (now : Int) (hm : l.mode = 1) :
    Agree (gMode1 l offset w now) (mMode1 (pl l) now offset.toInt w) := by
  unfold gMode1 mMode1
  simp only [Int64.lt_iff_toInt_lt, sub_eq, c0i, c2s, c1ms, k3, gt_iff_lt, decide_eq_true_eq, abs_eq,
    Bool.and_eq_true, List.nil_append]
  have ht0 : (pl l).t0 = l.t0 := rfl
  rw [ht0]
  by_cases h1 : timeSub now l.t0 < 0
  · rw [if_pos h1, if_pos h1]; trivial
  · rw [if_neg h1, if_neg h1]
    by_cases h2 : stepWait < timeSub now l.t0 ∧ F64.gt w wStep = true
    · rw [if_pos h2, if_pos h2]
      have hp : pl { l with t0 := now, mode := l.mode + 1 } = { pl l with t0 := now, mode := (pl l).mode + 1 } := by
        simp only [pl, mode_succ l 1 (by omega) hm]
      by_cases h3 : stepThreshold < durAbs offset.toInt
      · have h := finish_agree { l with t0 := now, mode := l.mode + 1 } now (F64.ofInt 0) (F64.ofInt 0)
          [Go.ClkAction.step (timemath_Inv offset)]
        rw [hp, k0] at h
        simp only [h3, if_true, List.map_cons, List.map_nil, act, inv_eq] at h ⊢
        exact h
      · have h := finish_agree { l with t0 := now, mode := l.mode + 1 } now (F64.ofInt 0) (F64.ofInt 0) []
        rw [hp, k0] at h
        simp only [h3, if_false, List.map_nil] at h ⊢
        exact h
    · rw [if_neg h2, if_neg h2]
      have h := finish_agree l now (F64.ofInt 0) (F64.ofInt 0) []
      rw [k0] at h
      exact h

theorem mode2_agree (l : S_Pll) (now : Int) (hm : l.mode = 2) :
    Agree (gMode2 l now) (mMode2 (pl l) now) := by
  unfold gMode2 mMode2
  simp only [Int64.lt_iff_toInt_lt, sub_eq, c0i, c6s, gt_iff_lt, decide_eq_true_eq]
  have ht0 : (pl l).t0 = l.t0 := rfl
  rw [ht0]
  by_cases h1 : timeSub now l.t0 < 0
  · rw [if_pos h1, if_pos h1]; trivial
  · rw [if_neg h1, if_neg h1]
    by_cases h2 : pllWait < timeSub now l.t0
    · rw [if_pos h2, if_pos h2]
      have h := finish_agree
        { l with
          a := F64.ofConst 33 100, b := F64.div (F64.ofConst 33 100) (F64.ofInt 60), t0 := now, mode := l.mode + 1 }
        now (F64.ofInt 0) (F64.ofInt 0) []
      have hp : pl
          { l with
            a := F64.ofConst 33 100, b := F64.div (F64.ofConst 33 100) (F64.ofInt 60), t0 := now, mode := l.mode + 1 } =
          { pl l with a := pInit, b := F64.div pInit iInit, t0 := now, mode := (pl l).mode + 1 } := by
        simp only [pl, mode_succ l 2 (by omega) hm, kPInit, k60]
      rw [hp, k0] at h
      exact h
    · rw [if_neg h2, if_neg h2]
      have h := finish_agree l now (F64.ofInt 0) (F64.ofInt 0) []
      rw [k0] at h
      exact h

theorem gSync_t (l : S_Pll) (e1 e2 : UInt64) : (gSync l e1 e2).t = l.t := by
  unfold gSync; split <;> rfl

/-- **The tie when both epoch readings agree**: the regenerated `(*Pll).Do` and the model `Pll.step`
    agree on every state, offset, weight, clock epoch, clock reading and EVERY function standing for
    `math.Pow`; the model's `pow` input is that function **at the arguments the code passes**:
    `stiffenRate` and `dt = now.Sub(l.t).Seconds()`, at both call sites. -/
theorem C19_leaf_Do_stable (l : S_Pll) (off : Int64) (w : F64.F64) (e : UInt64) (now : Int)
    (pf : F64.F64 → F64.F64 → F64.F64) :
    Agree (adjustments_Pll_Do l off w e e now pf)
      (step (pl l) e.toNat now off.toInt w (pf stiffenRate (dtOf l now))) := by
  rw [do_pieces, step_pieces]
  simp only
  rw [← pl_sync, ← inv_eq]
  have hdt : dtOf l now = dtOf (gSync l e e) now := by unfold dtOf; rw [gSync_t]
  rw [hdt]
  generalize gSync l e e = l'
  have hmode : (pl l').mode = l'.mode.toNat := rfl
  rw [hmode]
  by_cases hm0 : l'.mode = 0
  · have t : l'.mode.toNat = 0 := by rw [hm0]; rfl
    simp only [hm0, beq_self_eq_true, if_true]
    exact mode0_agree l' now hm0
  · have n0 : ¬ l'.mode.toNat = 0 := fun h => hm0 (UInt64.toNat_inj.mp (by rw [h]; rfl))
    have b0 : (l'.mode == 0) = false := by simpa using hm0
    rw [b0, if_neg n0]
    simp only [Bool.false_eq_true, if_false]
    by_cases hm1 : l'.mode = 1
    · have t : l'.mode.toNat = 1 := by rw [hm1]; rfl
      have b1 : (l'.mode == 1) = true := by simp [hm1]
      rw [b1, if_pos t]
      exact mode1_agree l' _ w now hm1
    · have n1 : ¬ l'.mode.toNat = 1 := fun h => hm1 (UInt64.toNat_inj.mp (by rw [h]; rfl))
      have b1 : (l'.mode == 1) = false := by simpa using hm1
      rw [b1, if_neg n1]
      simp only [Bool.false_eq_true, if_false]
      by_cases hm2 : l'.mode = 2
      · have t : l'.mode.toNat = 2 := by rw [hm2]; rfl
        have b2 : (l'.mode == 2) = true := by simp [hm2]
        rw [b2, if_pos t]
        exact mode2_agree l' now hm2
      · have n2 : ¬ l'.mode.toNat = 2 := fun h => hm2 (UInt64.toNat_inj.mp (by rw [h]; rfl))
        have b2 : (l'.mode == 2) = false := by simpa using hm2
        rw [b2, if_neg n2]
        simp only [Bool.false_eq_true, if_false]
        by_cases hm3 : l'.mode = 3
        · have t : l'.mode.toNat = 3 := by rw [hm3]; rfl
          have b3 : (l'.mode == 3) = true := by simp [hm3]
          rw [b3, if_pos t]
          exact mode3_agree l' _ w now pf
        · have n3 : ¬ l'.mode.toNat = 3 := fun h => hm3 (UInt64.toNat_inj.mp (by rw [h]; rfl))
          have b3 : (l'.mode == 3) = false := by simpa using hm3
          rw [b3, if_neg n3]
          trivial


/-- What the two readings of `l.clk.Epoch()` amount to: the receiver after the epoch test and the
    epoch the rest of `Do` runs under. -/
def readEpoch (l : S_Pll) (e1 e2 : UInt64) : S_Pll × UInt64 :=
  if (l.epoch != e1) then ({ l with epoch := e2, mode := 0 }, e2) else (l, e1)

theorem gSync_read (l : S_Pll) (e1 e2 : UInt64) :
    gSync l e1 e2 = gSync (readEpoch l e1 e2).1 (readEpoch l e1 e2).2 (readEpoch l e1 e2).2 := by
  unfold gSync readEpoch
  by_cases he : (l.epoch != e1) = true
  · simp [he]
  · have heb : (l.epoch != e1) = false := by simpa using he
    simp [heb]

theorem readEpoch_t (l : S_Pll) (e1 e2 : UInt64) : (readEpoch l e1 e2).1.t = l.t := by
  unfold readEpoch; split <;> rfl

/-- `Do` with two different epoch readings is `Do` on the re-synchronised receiver under one. -/
theorem C19_leaf_Do_two_readings (l : S_Pll) (off : Int64) (w : F64.F64) (e1 e2 : UInt64) (now : Int)
    (pf : F64.F64 → F64.F64 → F64.F64) :
    adjustments_Pll_Do l off w e1 e2 now pf =
      adjustments_Pll_Do (readEpoch l e1 e2).1 off w (readEpoch l e1 e2).2 (readEpoch l e1 e2).2 now pf := by
  rw [do_pieces, do_pieces, ← gSync_read]

/-- **The tie, for all inputs** (no hypothesis): every state, offset, weight, every pair of epoch
    readings, every clock reading, every function standing for `math.Pow`. -/
theorem C19_leaf_Do (l : S_Pll) (off : Int64) (w : F64.F64) (e1 e2 : UInt64) (now : Int)
    (pf : F64.F64 → F64.F64 → F64.F64) :
    Agree (adjustments_Pll_Do l off w e1 e2 now pf)
      (step (pl (readEpoch l e1 e2).1) (readEpoch l e1 e2).2.toNat now off.toInt w (pf stiffenRate (dtOf l now))) := by
  rw [C19_leaf_Do_two_readings]
  have h := C19_leaf_Do_stable (readEpoch l e1 e2).1 off w (readEpoch l e1 e2).2 now pf
  have hdt : dtOf (readEpoch l e1 e2).1 now = dtOf l now := by unfold dtOf; rw [readEpoch_t]
  rw [hdt] at h
  exact h

/-- The old shape of the tie (one epoch value, one `math.Pow` value): the special case of a stable
    epoch and a constant function. Props/C19Gen.lean works with this instance; by
    `C19_leaf_Do_pow_args` and `C19_leaf_Do_two_readings` every call is such an instance. -/
theorem C19_leaf_Do_const (l : S_Pll) (off : Int64) (w : F64.F64) (e : UInt64) (now : Int) (pw : F64.F64) :
    Agree (adjustments_Pll_Do l off w e e now (fun _ _ => pw)) (step (pl l) e.toNat now off.toInt w pw) :=
  C19_leaf_Do_stable l off w e now (fun _ _ => pw)

/-- **The arguments of `math.Pow` are pinned**: the generated `Do` depends on the function standing
    for `math.Pow` only through its value at `(stiffenRate, dt)`. A call site with other arguments
    (`Pow(stiffenRate, dt/2)`, `Pow(dt, stiffenRate)`, …) makes this false for the regenerated
    definition. -/
theorem C19_leaf_Do_pow_args (l : S_Pll) (off : Int64) (w : F64.F64) (e1 e2 : UInt64) (now : Int)
    (pf : F64.F64 → F64.F64 → F64.F64) :
    adjustments_Pll_Do l off w e1 e2 now pf =
      adjustments_Pll_Do l off w e1 e2 now (fun _ _ => pf stiffenRate (dtOf l now)) := by
  rw [do_pieces, do_pieces]
  have ht := gSync_t l e1 e2
  simp only
  generalize gSync l e1 e2 = l' at ht ⊢
  have h3 : gMode3 l' (timemath_Inv off) w now pf =
      gMode3 l' (timemath_Inv off) w now (fun _ _ => pf stiffenRate (dtOf l now)) := by
    simp only [gMode3, gGains, dtOf, stiffenRate, sub_eq, ht]
  rw [h3]

/-- non-vacuity: the generated definition steps the clock in the awaiting-step mode (a 5 ms offset,
    weight 1000, 3 s after the start of the epoch) … -/
example :
    (adjustments_Pll_Do { epoch := 7, mode := 1, t0 := 0, t := 0, a := fzero, b := fzero, i := fzero }
        5000000 (F64.ofInt 1000) 7 7 3000000000 (fun _ _ => F64.ofInt 1)).map (·.2) =
      some [Go.ClkAction.step 5000000] := by
  decide +kernel

/-- … and in the tracking mode with weight 1000 (the stiffening regime, 301 s after the start of
    tracking, `math.Pow` = 1/2) it halves both gains, and slews by the clamp: 1 s offset after 16 s
    gives `Adjust(8 ms, 16 s, ·)`. -/
def demoTrack : Option (S_Pll × List Go.ClkAction) :=
  adjustments_Pll_Do { epoch := 7, mode := 3, t0 := 0, t := 285000000000, a := pInit, b := bMid, i := fzero }
    1000000000 (F64.ofInt 1000) 7 7 301000000000 (fun _ _ => F64.ofConst 1 2)

/-- non-vacuity of the argument pin: a function that is 1/2 at `(0.999, 16 s)` and 1 elsewhere halves
    the gains exactly as the constant function does; one that is 1/2 only at `(0.999, 8 s)` does not. -/
def powAt (x y : F64.F64) : F64.F64 → F64.F64 → F64.F64 :=
  fun a b => if a = x ∧ b = y then F64.ofConst 1 2 else F64.ofInt 1

example : (adjustments_Pll_Do { epoch := 7, mode := 3, t0 := 0, t := 285000000000, a := pInit, b := bMid, i := fzero }
    1000000000 (F64.ofInt 1000) 7 7 301000000000 (powAt stiffenRate (F64.ofInt 16))).map (fun r => r.1.a)
      = some (F64.mul pInit (F64.ofConst 1 2)) := by decide +kernel
example : (adjustments_Pll_Do { epoch := 7, mode := 3, t0 := 0, t := 285000000000, a := pInit, b := bMid, i := fzero }
    1000000000 (F64.ofInt 1000) 7 7 301000000000 (powAt stiffenRate (F64.ofInt 8))).map (fun r => r.1.a)
      = some (F64.mul pInit (F64.ofInt 1)) := by decide +kernel

/-- a second, different epoch reading is stored (and restarts the PLL) although the first matched
    nothing: epoch 7, readings 8 then 9 -/
example : (adjustments_Pll_Do { epoch := 7, mode := 3, t0 := 0, t := 0, a := pInit, b := bMid, i := fzero }
    0 (F64.ofInt 1) 8 9 5 (fun _ _ => F64.ofInt 1)).map (fun r => (r.1.epoch, r.1.mode)) = some (9, 1) := by
  decide +kernel

example : demoTrack.map (fun r => r.2.map (fun a => match a with
    | .step o => [o] | .adjust o d _ => [o, d])) = some [[8000000, 16000000000]] := by decide +kernel
example : demoTrack.map (fun r => r.1.a) = some (F64.mul pInit (F64.ofConst 1 2)) := by decide +kernel
example : demoTrack.map (fun r => r.1.b) = some (F64.mul bMid (F64.ofConst 1 2)) := by decide +kernel

end ScionTime.LeafTieC19
