/-
  Kernel-checked tie (C19): `(*Pll).Do` of core/sync/adjustments/pll.go as regenerated from
  /repo's Go source on every run (Gen/Leaf.lean, sixth generation of the leaf translator: tagged
  switch, `l.mode++`, `l.clk.Epoch()` / `l.clk.Now()` / `math.Pow(…)` as parameters — one value per
  call —, `l.clk.Step` / `l.clk.Adjust` as recorded actions, the four panics as `none`, log
  statements skipped) agrees with the hand-written model `Pll.step` that every C19 theorem is
  about: same new state, same calls on the clock in the same order, panic exactly when the model
  panics.

  FULL STATEMENT (wanted):  ∀ l off w e now pw,
      Agree (adjustments_Pll_Do l off w e now pw) (Pll.step (pl l) e.toNat now off.toInt w pw)

  PROVED (`C19_leaf_Do_partial`): the same under the hypothesis
      `F64.lt w wLow = true  ∨  l.mode ≠ 3  ∨  (l.epoch != e) = true`,
  i.e. for every update that restarts the start-up sequence (epoch change), every update in the
  modes start-up / awaiting step / awaiting PLL / an unexpected mode (the step decision, the 2 s
  and 6 s waits, the |offset| > 1 ms test, the three clock panics of those modes, the default
  panic), and every TRACKING update with weight < 50 (integrator, clamp to ±500 ppm x ceil(dt),
  the Adjust guard d > 0, both clock panics of the tracking mode).
  MISSING: tracking updates with weight ≥ 50 (the two other gain regimes, incl. the stiffening
  with math.Pow): the case analysis did not finish within the elaborator's budget in the time
  available. For those the tie remains the bit-exact differential run of harness c19 and the
  extractor pins of Props/C19.lean.
-/
import ScionTime.Gen.Leaf
import ScionTime.Model.Pll
import ScionTime.Proofs.GoPrelude
namespace ScionTime.LeafTieC19
open ScionTime ScionTime.Gen.Leaf ScionTime.GoLemmas ScionTime.Pll

def pl (l : S_Pll) : State :=
  { epoch := l.epoch.toNat, mode := l.mode.toNat, t0 := l.t0, t := l.t, a := l.a, b := l.b, i := l.i }

def act : Go.ClkAction → Action
  | .step o => .step o.toInt
  | .adjust o d f => .adjust o.toInt d.toInt f

theorem inv_eq (d : Int64) : (timemath_Inv d).toInt = inv d.toInt := by
  unfold timemath_Inv inv minI64 maxI64
  by_cases h : d = Int64.minValue
  · subst h; decide
  · have h' : (d == (-9223372036854775808 : Int64)) = false := by
      rw [beq_eq_false_iff_ne]; exact h
    have hne : d.toInt ≠ -9223372036854775808 := by
      intro hh; apply h; apply Int64.toInt_inj.mp; rw [hh]; decide
    simp only [h', Bool.false_eq_true, if_false, hne]
    rw [Int64.toInt_neg]
    have hl := Int64.le_toInt d
    have hu := Int64.toInt_lt d
    apply Int.bmod_eq_of_le <;> omega

theorem abs_eq (d : Int64) : (Go.Duration.abs d).toInt = durAbs d.toInt := by
  unfold Go.Duration.abs durAbs minI64 maxI64
  by_cases h0 : d.toInt ≥ 0
  · simp [h0]
  · simp only [h0, if_false]
    by_cases h : d = Int64.minValue
    · subst h; decide
    · have h' : (d == Int64.minValue) = false := by rw [beq_eq_false_iff_ne]; exact h
      have hne : d.toInt ≠ -9223372036854775808 := by
        intro hh; apply h; apply Int64.toInt_inj.mp; rw [hh]; decide
      simp only [h', Bool.false_eq_true, if_false, hne]
      rw [Int64.toInt_neg]
      have hl := Int64.le_toInt d
      have hu := Int64.toInt_lt d
      apply Int.bmod_eq_of_le <;> omega

theorem sub_eq (t u : Int) : (Go.Time.sub t u).toInt = timeSub t u := by
  unfold Go.Time.sub timeSub minI64 maxI64
  simp only
  by_cases h1 : t - u < -9223372036854775808
  · simp only [h1, if_true]; decide
  · by_cases h2 : t - u > 9223372036854775807
    · simp only [h1, h2, if_true, if_false]; decide
    · simp only [h1, h2, if_false]
      apply toInt_ofInt_of_fits <;> omega

theorem dur_eq (x : F64.F64) : (timemath_Duration x).toInt = F64.toDuration x := by
  unfold timemath_Duration F64.toDuration
  exact ofInt_toInt64 _

theorem k0 : F64.ofInt 0 = fzero := by decide +kernel
theorem k3 : F64.ofInt 3 = wStep := by decide +kernel
theorem k50 : F64.ofInt 50 = wLow := by decide +kernel
theorem k150 : F64.ofInt 150 = wHigh := by decide +kernel
theorem k60 : F64.ofInt 60 = iInit := by decide +kernel
theorem c2s : ((2 : Int64) * (1000000000 : Int64)).toInt = stepWait := by decide
theorem c6s : ((6 : Int64) * (1000000000 : Int64)).toInt = pllWait := by decide
theorem c1ms : ((1 : Int64) * (1000000 : Int64)).toInt = stepThreshold := by decide
theorem c300 : (300000000000 : Int64).toInt = captureTime := by decide
theorem c0i : (0 : Int64).toInt = 0 := by decide

theorem rbLow : bLow = F64.ofConst 1 2000 := by decide +kernel
theorem rslewPos : slewPos = F64.ofConst 1 2000 := by decide +kernel
theorem kbLow : F64.ofConst 1 2000 = bLow := by decide +kernel
theorem kaMid : F64.ofConst 3 50 = aMid := by decide +kernel
theorem kNeg : F64.ofConst (-1) 2000 = slewNeg := by decide +kernel
theorem kPInit : F64.ofConst 33 100 = pInit := rfl
theorem kaLow : F64.ofConst 3 100 = aLow := rfl
theorem kbMid : F64.ofConst 1 1000 = bMid := rfl

theorem mode_eq (m : UInt64) (k : Nat) (hk : k < 4) : (m == UInt64.ofNat k) = decide (m.toNat = k) := by
  rw [Bool.eq_iff_iff]; simp only [beq_iff_eq, decide_eq_true_eq]
  constructor
  · intro h; subst h; simp [UInt64.toNat_ofNat']; omega
  · intro h; apply UInt64.toNat_inj.mp; rw [h]; simp [UInt64.toNat_ofNat']; omega

/-- the generated result and the model's outcome say the same -/
def Agree : Option (S_Pll × List Go.ClkAction) → Outcome → Prop
  | none, .panic _ => True
  | some (l', acts), .ok s a => s = pl l' ∧ a = acts.map act
  | _, _ => False

theorem gz : F64.gt fzero fzero = false := by decide +kernel

theorem uint64_ne (a b : UInt64) (h : (a != b) = true) : a.toNat ≠ b.toNat := by
  rw [bne_iff_ne] at h; exact fun hh => h (UInt64.toNat_inj.mp hh)

attribute [local irreducible] F64.ofConst F64.ofInt F64.roundNE F64.mul F64.add F64.div F64.lt F64.gt F64.ceil F64.durationSeconds F64.toDuration F64.toInt64 in
set_option maxHeartbeats 2000000 in
theorem C19_leaf_Do_partial (l : S_Pll) (off : Int64) (w : F64.F64) (e : UInt64) (now : Int) (pw : F64.F64)
    (hw : F64.lt w wLow = true ∨ l.mode ≠ 3 ∨ (l.epoch != e) = true) :
    Agree (adjustments_Pll_Do l off w e now pw) (step (pl l) e.toNat now off.toInt w pw) := by
  by_cases he : (l.epoch != e) = true
  · -- the clock's epoch moved: restart
    have he' : ¬ l.epoch.toNat = e.toNat := uint64_ne _ _ he
    simp only [adjustments_Pll_Do, step, syncEpoch, finish, pl, he, he', if_true, ne_eq, not_false_eq_true,
      beq_self_eq_true, k0, gz, Bool.false_eq_true, if_false, Agree, act, List.map_nil]
    simp [Agree, pl, act]
  · have heq : l.epoch = e := by
      have : (l.epoch != e) = false := by simpa using he
      simpa using this
    have he' : l.epoch.toNat = e.toNat := by rw [heq]
    have heb : (l.epoch != e) = false := by simp [heq]
    by_cases hm0 : l.mode = 0
    · simp only [adjustments_Pll_Do, step, syncEpoch, finish, pl, heb, he', hm0, ne_eq, not_true_eq_false,
        if_false, beq_self_eq_true, if_true, k0, gz, Bool.false_eq_true, Agree]
      simp [Agree, pl, act, hm0, he']
    · by_cases hm1 : l.mode = 1
      · have b0 : (l.mode == 0) = false := by simp [hm1]
        have t1 : l.mode.toNat = 1 := by rw [hm1]; rfl
        simp only [adjustments_Pll_Do, step, syncEpoch, finish, pl, heb, he', hm1, t1, ne_eq, not_true_eq_false,
          if_false, beq_self_eq_true, if_true, k0, k3, gz, Bool.false_eq_true, b0,
          Int64.lt_iff_toInt_lt, sub_eq, c0i, c2s, c1ms, abs_eq, inv_eq, gt_iff_lt,
          Bool.and_eq_true, decide_eq_true_eq]
        repeat' split
        all_goals simp_all [Agree, pl, act, inv_eq]
      · by_cases hm2 : l.mode = 2
        · have b0 : (l.mode == 0) = false := by simp [hm2]
          have b1 : (l.mode == 1) = false := by simp [hm2]
          have t2 : l.mode.toNat = 2 := by rw [hm2]; rfl
          simp only [adjustments_Pll_Do, step, syncEpoch, finish, pl, heb, he', hm2, t2, ne_eq, not_true_eq_false,
            if_false, beq_self_eq_true, if_true, k0, k60, kPInit, gz, Bool.false_eq_true, b0, b1,
            Int64.lt_iff_toInt_lt, sub_eq, c0i, c6s, gt_iff_lt, Bool.and_eq_true, decide_eq_true_eq]
          repeat' split
          all_goals simp_all [Agree, pl, act]
        · by_cases hm3 : l.mode = 3
          · have b0 : (l.mode == 0) = false := by simp [hm3]
            have b1 : (l.mode == 1) = false := by simp [hm3]
            have b2 : (l.mode == 2) = false := by simp [hm3]
            have t3 : l.mode.toNat = 3 := by rw [hm3]; rfl
            by_cases q50 : F64.lt w wLow = true
            · simp only [adjustments_Pll_Do, step, syncEpoch, finish, track, gains, clamp, pl, heb, he', hm3, t3, ne_eq,
                not_true_eq_false, if_false, beq_self_eq_true, if_true, k0, k50, k150, rbLow, rslewPos, kaMid, kNeg, kaLow, kbMid, gz,
                Bool.false_eq_true, b0, b1, b2, Int64.lt_iff_toInt_lt, sub_eq, c0i, c300, gt_iff_lt, Bool.and_eq_true,
                decide_eq_true_eq, inv_eq, dur_eq, q50]
              repeat' split
              all_goals simp_all [Agree, pl, act, inv_eq, dur_eq, rbLow, rslewPos]
            · rcases hw with hw | hw | hw
              · exact absurd hw q50
              · exact absurd hm3 hw
              · exact absurd hw he
          · -- default: panic("unexpected PLL mode")
            have n0 : ¬ l.mode.toNat = 0 := fun h => hm0 (UInt64.toNat_inj.mp (by rw [h]; rfl))
            have n1 : ¬ l.mode.toNat = 1 := fun h => hm1 (UInt64.toNat_inj.mp (by rw [h]; rfl))
            have n2 : ¬ l.mode.toNat = 2 := fun h => hm2 (UInt64.toNat_inj.mp (by rw [h]; rfl))
            have n3 : ¬ l.mode.toNat = 3 := fun h => hm3 (UInt64.toNat_inj.mp (by rw [h]; rfl))
            have b0 : (l.mode == 0) = false := by simpa using hm0
            have b1 : (l.mode == 1) = false := by simpa using hm1
            have b2 : (l.mode == 2) = false := by simpa using hm2
            have b3 : (l.mode == 3) = false := by simpa using hm3
            simp only [adjustments_Pll_Do, step, syncEpoch, pl, heb, he', ne_eq, not_true_eq_false, if_false,
              Bool.false_eq_true, b0, b1, b2, b3, n0, n1, n2, n3, Agree]

/-- the hypothesis is satisfiable in each of its three forms, and the generated definition steps
    the clock in the awaiting-step mode (non-vacuity; a 5 ms offset, weight 1000, 3 s after the
    start of the epoch) -/
example :
    (adjustments_Pll_Do { epoch := 7, mode := 1, t0 := 0, t := 0, a := fzero, b := fzero, i := fzero }
        5000000 (F64.ofInt 1000) 7 3000000000 (F64.ofInt 1)).map (·.2) =
      some [Go.ClkAction.step 5000000] := by
  decide +kernel

end ScionTime.LeafTieC19
