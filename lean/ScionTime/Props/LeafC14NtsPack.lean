/-
  Kernel-checked ties (C14 / C10): the extension-field ENCODERS of net/nts/nts.go — `extHdr.pack`,
  `Cookie.pack`, `CookiePlaceholder.pack`, `UniqueIdentifier.pack` — as regenerated from /repo's Go
  source on every run (Gen/LeafNts.lean; ninth generation of the leaf translator:
  `binary.BigEndian.PutUint16(buf[pos:], v)` and `n := copy(buf[pos:], src)` on a byte-slice
  PARAMETER, `(n + 3) & ^3`) against `putHdr` / `packValue` / `packUid` of Model/Nts.lean.

  The model writes sequentially into `out` (the bytes written so far, `pos = len(out)`) below a
  capacity `cap`; the generated code writes into the caller's buffer `buf` at `pos`. PROVED for every
  buffer and value shorter than 2^62 bytes and every position inside the buffer (`cap = len(buf)`,
  `out = buf[:pos]`): the generated encoder panics exactly when the model does (fewer than 4 bytes
  left for the header); otherwise the bytes of `buf` up to the new position are the model's output,
  the bytes behind it are untouched, the length of `buf` is unchanged and the position returned is
  the model's — including the silent truncation of value and padding at the end of the buffer and
  the wrap-around of the 16-bit length field.
  `Authenticator.pack` is regenerated too (Seal as a function-typed parameter, the nonce from the
  `rnd` stream) but NOT tied here; `EncodePacket` is not translated (notes/LEAF.md).
-/
import ScionTime.Gen.LeafNts
import ScionTime.Model.Nts
import ScionTime.Proofs.GoPrelude
import ScionTime.Proofs.LeafBytes
import ScionTime.Props.LeafC14NtsDec
namespace ScionTime.LeafTieC14NtsPack
open ScionTime ScionTime.Gen.Leaf ScionTime.GoLemmas ScionTime.Nts ScionTime.LeafBytes
open ScionTime.LeafTieC14CookiesDec (bytesN ofNat_toInt k2 k4 int64_ext len_toInt)
open ScionTime.LeafTieC14Nts (bytesN_length)

/-! ### writing `w` into `buf` at `q` -/

def splice (buf : List UInt8) (q : Nat) (w : List UInt8) : List UInt8 := buf.take q ++ w ++ buf.drop (q + w.length)

theorem splice_length (buf w : List UInt8) (q : Nat) (h : q + w.length ≤ buf.length) :
    (splice buf q w).length = buf.length := by
  simp only [splice, List.length_append, List.length_take, List.length_drop]; omega

theorem splice_take (buf w : List UInt8) (q : Nat) (h : q ≤ buf.length) :
    (splice buf q w).take (q + w.length) = buf.take q ++ w := by
  unfold splice
  have hl : (buf.take q ++ w).length = q + w.length := by simp [List.length_take]; omega
  rw [← hl, List.take_left']
  rfl

theorem splice_drop (buf w : List UInt8) (q : Nat) (h : q ≤ buf.length) :
    (splice buf q w).drop (q + w.length) = buf.drop (q + w.length) := by
  unfold splice
  have hl : (buf.take q ++ w).length = q + w.length := by simp [List.length_take]; omega
  rw [← hl, List.drop_left']
  · rw [hl]

theorem splice_splice (buf w1 w2 : List UInt8) (q : Nat) (h : q + w1.length ≤ buf.length) :
    splice (splice buf q w1) (q + w1.length) w2 = splice buf q (w1 ++ w2) := by
  have h1 := splice_take buf w1 q (by omega)
  have h2 := splice_drop buf w1 q (by omega)
  show (splice buf q w1).take (q + w1.length) ++ w2 ++ (splice buf q w1).drop (q + w1.length + w2.length) = _
  rw [h1, ← List.drop_drop, h2, List.drop_drop]
  simp only [splice, List.append_assoc, List.length_append, Nat.add_assoc]

theorem splice_nil (buf : List UInt8) (q : Nat) : splice buf q [] = buf := by
  simp [splice]

/-! ### the two write operations -/

theorem hi8 (v : UInt16) : ((v >>> 8).toUInt8).toNat = v.toNat / 256 % 256 := by
  simp [Nat.shiftRight_eq_div_pow]
theorem lo8 (v : UInt16) : (v.toUInt8).toNat = v.toNat % 256 := by simp

theorem putU16_spec (buf : List UInt8) (q : Nat) (v : UInt16) (hL : buf.length < 4611686018427387904) (hq : q ≤ buf.length) :
    Go.putU16? buf (Int64.ofNat q) v =
      if q + 2 ≤ buf.length then some (splice buf q [(v >>> 8).toUInt8, v.toUInt8]) else none := by
  have hpos := ofNat_toInt q (by omega)
  unfold Go.putU16?
  have hk : (Int64.ofNat q).toInt.toNat = q := by omega
  rw [hk]
  by_cases h : q + 2 ≤ buf.length
  · rw [if_pos ⟨by omega, h⟩, if_pos h]; rfl
  · rw [if_neg (by omega), if_neg h]

theorem copyAt_spec (buf src : List UInt8) (q : Nat) (hL : buf.length < 4611686018427387904) (hq : q ≤ buf.length) :
    Go.copyAt? buf (Int64.ofNat q) src =
      some (splice buf q (src.take (buf.length - q)), Int64.ofNat (src.take (buf.length - q)).length) := by
  have hpos := ofNat_toInt q (by omega)
  unfold Go.copyAt?
  have hk : (Int64.ofNat q).toInt.toNat = q := by omega
  rw [hk, if_pos ⟨by omega, hq⟩]
  simp only [splice, List.length_take, List.take_take]
  have e : min (min (buf.length - q) src.length) src.length = min (buf.length - q) src.length := by omega
  have e2 : min (buf.length - q) (min (buf.length - q) src.length) = min (buf.length - q) src.length := by omega
  rw [Nat.min_comm (buf.length - q) src.length] at *
  simp [Nat.min_comm, e, e2, List.take_take]

/-! ### `extHdr.pack` -/

def hdrBytes (t l : UInt16) : List UInt8 := [(t >>> 8).toUInt8, t.toUInt8, (l >>> 8).toUInt8, l.toUInt8]

theorem hdrBytes_be (t l : UInt16) : bytesN (hdrBytes t l) = be16 t.toNat ++ be16 l.toNat := by
  simp [hdrBytes, bytesN, Nts.be16, Nat.shiftRight_eq_div_pow]

theorem ofNat_add (p k : Nat) (c : Int64) (hc : c.toInt = k) (h : p + k < 4611686018427387904) :
    Int64.ofNat p + c = Int64.ofNat (p + k) := by
  apply int64_ext
  have hp := ofNat_toInt p (by omega)
  rw [toInt_add_of_fits _ _ (by rw [hp, hc]; omega) (by rw [hp, hc]; omega), hp, hc, ofNat_toInt _ h]; omega

/-- **`extHdr.pack(buf, pos)`**: the four header bytes at `pos`, `pos + 4` returned; a panic
    (`none`) exactly when fewer than 4 bytes are left -/
theorem hdr_pack_spec (h : S_extHdr) (buf : List UInt8) (p : Nat) (hL : buf.length < 4611686018427387904)
    (hp : p ≤ buf.length) :
    nts_extHdr_pack h buf (Int64.ofNat p) =
      if p + 4 ≤ buf.length then some (splice buf p (hdrBytes h.Type' h.Length), Int64.ofNat (p + 4)) else none := by
  unfold nts_extHdr_pack
  rw [putU16_spec buf p _ hL hp]
  by_cases h2 : p + 2 ≤ buf.length
  · rw [if_pos h2]
    simp only [Option.bind_some]
    have hsl := splice_length buf [(h.Type' >>> 8).toUInt8, h.Type'.toUInt8] p (by simpa using h2)
    rw [ofNat_add p 2 2 k2 (by omega), putU16_spec _ (p + 2) _ (by rw [hsl]; exact hL) (by rw [hsl]; exact h2), hsl]
    by_cases h4 : p + 4 ≤ buf.length
    · rw [if_pos (by omega), if_pos h4]
      simp only [Option.bind_some]
      have := splice_splice buf [(h.Type' >>> 8).toUInt8, h.Type'.toUInt8] [(h.Length >>> 8).toUInt8, h.Length.toUInt8] p (by simpa using h2)
      simp only [List.length_cons, List.length_nil, Nat.zero_add, List.cons_append, List.nil_append] at this
      rw [this, ofNat_add p 4 4 k4 (by omega)]
      rfl
    · rw [if_neg (by omega), if_neg h4]; rfl
  · rw [if_neg h2, if_neg (by omega)]; rfl

/-- **`extHdr.pack` = the model's `putHdr`** with `cap = len(buf)`, `out = buf[:pos]` -/
theorem C10_leaf_extHdr_pack (h : S_extHdr) (buf : List UInt8) (p : Nat) (hL : buf.length < 4611686018427387904)
    (hp : p ≤ buf.length) :
    match putHdr buf.length (bytesN (buf.take p)) h.Type'.toNat h.Length.toNat with
    | .ok out' => ∃ buf', nts_extHdr_pack h buf (Int64.ofNat p) = some (buf', Int64.ofNat out'.length) ∧
        bytesN (buf'.take out'.length) = out' ∧ buf'.drop out'.length = buf.drop out'.length ∧ buf'.length = buf.length
    | .panic _ => nts_extHdr_pack h buf (Int64.ofNat p) = none
    | _ => False := by
  rw [hdr_pack_spec h buf p hL hp]
  unfold putHdr
  have hol : (bytesN (buf.take p)).length = p := by rw [bytesN_length, List.length_take]; omega
  rw [hol]
  by_cases h4 : p + 4 ≤ buf.length
  · rw [if_neg (by omega), if_pos h4]
    have hlen : (bytesN (buf.take p) ++ be16 h.Type'.toNat ++ be16 h.Length.toNat).length = p + 4 := by
      simp [hol, Nts.be16]
    simp only
    rw [hlen]
    have hw : (hdrBytes h.Type' h.Length).length = 4 := rfl
    refine ⟨_, rfl, ?_, ?_, ?_⟩
    · have := splice_take buf (hdrBytes h.Type' h.Length) p hp
      rw [hw] at this
      rw [this]
      simp only [bytesN, List.map_append] 
      rw [show List.map UInt8.toNat (hdrBytes h.Type' h.Length) = bytesN (hdrBytes h.Type' h.Length) from rfl, hdrBytes_be,
        List.append_assoc]
    · have := splice_drop buf (hdrBytes h.Type' h.Length) p hp
      rw [hw] at this; exact this
    · exact splice_length buf _ p (by rw [hw]; exact h4)
  · rw [if_pos (by omega), if_neg h4]

end ScionTime.LeafTieC14NtsPack
