/-
  Kernel-checked ties (C14 / C10): the extension-field ENCODERS of net/nts/nts.go — `extHdr.pack`,
  `Cookie.pack`, `CookiePlaceholder.pack`, `UniqueIdentifier.pack`, `Authenticator.pack` — as regenerated from /repo's Go
  source on every run (Gen/LeafNts.lean; ninth generation of the leaf translator:
  `binary.BigEndian.PutUint16(buf[pos:], v)` and `n := copy(buf[pos:], src)` on a byte-slice
  PARAMETER, `(n + 3) & ^3`) against `putHdr` / `packValue` / `packUid` of Model/Nts.lean.

  The model writes sequentially into `out` (the bytes written so far, `pos = len(out)`) below a
  capacity `cap`; the generated code writes into the caller's buffer `buf` at `pos`. PROVED for every
  buffer and value shorter than 2^62 bytes and every position inside the buffer (`cap = len(buf)`,
  `out = buf[:pos]`): the generated encoder panics exactly when the model does (fewer than 4 bytes
  left for the header); otherwise the bytes of `buf` up to the new position are the model's output,
  the bytes behind it are untouched, the length of `buf` is unchanged and the position returned is
  the model's — including the silent truncation of value and padding at the end of the buffer and
  the wrap-around of the 16-bit length field.
  `Authenticator.pack` (`C10_leaf_Authenticator_pack`): `NewAEAD` error and `Seal` are function-typed
  parameters, the nonce is the next 16 bytes of the `rnd` stream; equal to the model's `packAuth` for
  every library that agrees with the model's AEAD on sealing (`AgreeSeal`): the associated data is
  `buf[:pos]`, the 16-bit length fields wrap as the model says, padding by `(-len) % 4` on `uint16`.
  `EncodePacket` is not translated (notes/LEAF.md).
-/
import ScionTime.Gen.LeafNts
import ScionTime.Model.Nts
import ScionTime.Proofs.GoPrelude
import ScionTime.Proofs.LeafBytes
import ScionTime.Props.LeafC14NtsDec
namespace ScionTime.LeafTieC14NtsPack
open ScionTime ScionTime.Gen.Leaf ScionTime.GoLemmas ScionTime.Nts ScionTime.LeafBytes
open ScionTime.LeafTieC14CookiesDec (bytesN ofNat_toInt k2 k4 int64_ext len_toInt)
open ScionTime.LeafTieC14Nts (bytesN_length)

/-! ### writing `w` into `buf` at `q` -/

def splice (buf : List UInt8) (q : Nat) (w : List UInt8) : List UInt8 := buf.take q ++ w ++ buf.drop (q + w.length)

theorem splice_length (buf w : List UInt8) (q : Nat) (h : q + w.length ≤ buf.length) :
    (splice buf q w).length = buf.length := by
  simp only [splice, List.length_append, List.length_take, List.length_drop]; omega

theorem splice_take (buf w : List UInt8) (q : Nat) (h : q ≤ buf.length) :
    (splice buf q w).take (q + w.length) = buf.take q ++ w := by
  unfold splice
  have hl : (buf.take q ++ w).length = q + w.length := by simp [List.length_take]; omega
  rw [← hl, List.take_left']
  rfl

theorem splice_drop (buf w : List UInt8) (q : Nat) (h : q ≤ buf.length) :
    (splice buf q w).drop (q + w.length) = buf.drop (q + w.length) := by
  unfold splice
  have hl : (buf.take q ++ w).length = q + w.length := by simp [List.length_take]; omega
  rw [← hl, List.drop_left']
  · rw [hl]

theorem splice_splice (buf w1 w2 : List UInt8) (q : Nat) (h : q + w1.length ≤ buf.length) :
    splice (splice buf q w1) (q + w1.length) w2 = splice buf q (w1 ++ w2) := by
  have h1 := splice_take buf w1 q (by omega)
  have h2 := splice_drop buf w1 q (by omega)
  show (splice buf q w1).take (q + w1.length) ++ w2 ++ (splice buf q w1).drop (q + w1.length + w2.length) = _
  rw [h1, ← List.drop_drop, h2, List.drop_drop]
  simp only [splice, List.append_assoc, List.length_append, Nat.add_assoc]

theorem splice_nil (buf : List UInt8) (q : Nat) : splice buf q [] = buf := by
  simp [splice]

/-! ### the two write operations -/

theorem hi8 (v : UInt16) : ((v >>> 8).toUInt8).toNat = v.toNat / 256 % 256 := by
  simp [Nat.shiftRight_eq_div_pow]
theorem lo8 (v : UInt16) : (v.toUInt8).toNat = v.toNat % 256 := by simp

theorem putU16_spec (buf : List UInt8) (q : Nat) (v : UInt16) (hL : buf.length < 4611686018427387904) (hq : q ≤ buf.length) :
    Go.putU16? buf (Int64.ofNat q) v =
      if q + 2 ≤ buf.length then some (splice buf q [(v >>> 8).toUInt8, v.toUInt8]) else none := by
  have hpos := ofNat_toInt q (by omega)
  unfold Go.putU16?
  have hk : (Int64.ofNat q).toInt.toNat = q := by omega
  rw [hk]
  by_cases h : q + 2 ≤ buf.length
  · rw [if_pos ⟨by omega, h⟩, if_pos h]; rfl
  · rw [if_neg (by omega), if_neg h]

theorem copyAt_spec (buf src : List UInt8) (q : Nat) (hL : buf.length < 4611686018427387904) (hq : q ≤ buf.length) :
    Go.copyAt? buf (Int64.ofNat q) src =
      some (splice buf q (src.take (buf.length - q)), Int64.ofNat (src.take (buf.length - q)).length) := by
  have hpos := ofNat_toInt q (by omega)
  unfold Go.copyAt?
  have hk : (Int64.ofNat q).toInt.toNat = q := by omega
  rw [hk, if_pos ⟨by omega, hq⟩]
  simp only [splice, List.length_take, List.take_take]
  have e : min (min (buf.length - q) src.length) src.length = min (buf.length - q) src.length := by omega
  have e2 : min (buf.length - q) (min (buf.length - q) src.length) = min (buf.length - q) src.length := by omega
  rw [Nat.min_comm (buf.length - q) src.length] at *
  simp [Nat.min_comm, e, e2, List.take_take]

/-! ### `extHdr.pack` -/

def hdrBytes (t l : UInt16) : List UInt8 := [(t >>> 8).toUInt8, t.toUInt8, (l >>> 8).toUInt8, l.toUInt8]

theorem hdrBytes_be (t l : UInt16) : bytesN (hdrBytes t l) = be16 t.toNat ++ be16 l.toNat := by
  simp [hdrBytes, bytesN, Nts.be16, Nat.shiftRight_eq_div_pow]

theorem ofNat_add (p k : Nat) (c : Int64) (hc : c.toInt = k) (h : p + k < 4611686018427387904) :
    Int64.ofNat p + c = Int64.ofNat (p + k) := by
  apply int64_ext
  have hp := ofNat_toInt p (by omega)
  rw [toInt_add_of_fits _ _ (by rw [hp, hc]; omega) (by rw [hp, hc]; omega), hp, hc, ofNat_toInt _ h]; omega

/-- **`extHdr.pack(buf, pos)`**: the four header bytes at `pos`, `pos + 4` returned; a panic
    (`none`) exactly when fewer than 4 bytes are left -/
theorem hdr_pack_spec (h : S_extHdr) (buf : List UInt8) (p : Nat) (hL : buf.length < 4611686018427387904)
    (hp : p ≤ buf.length) :
    nts_extHdr_pack h buf (Int64.ofNat p) =
      if p + 4 ≤ buf.length then some (splice buf p (hdrBytes h.Type' h.Length), Int64.ofNat (p + 4)) else none := by
  unfold nts_extHdr_pack
  rw [putU16_spec buf p _ hL hp]
  by_cases h2 : p + 2 ≤ buf.length
  · rw [if_pos h2]
    simp only [Option.bind_some]
    have hsl := splice_length buf [(h.Type' >>> 8).toUInt8, h.Type'.toUInt8] p (by simpa using h2)
    rw [ofNat_add p 2 2 k2 (by omega), putU16_spec _ (p + 2) _ (by rw [hsl]; exact hL) (by rw [hsl]; exact h2), hsl]
    by_cases h4 : p + 4 ≤ buf.length
    · rw [if_pos (by omega), if_pos h4]
      simp only [Option.bind_some]
      have := splice_splice buf [(h.Type' >>> 8).toUInt8, h.Type'.toUInt8] [(h.Length >>> 8).toUInt8, h.Length.toUInt8] p (by simpa using h2)
      simp only [List.length_cons, List.length_nil, Nat.zero_add, List.cons_append, List.nil_append] at this
      rw [this, ofNat_add p 4 4 k4 (by omega)]
      rfl
    · rw [if_neg (by omega), if_neg h4]; rfl
  · rw [if_neg h2, if_neg (by omega)]; rfl

/-- **`extHdr.pack` = the model's `putHdr`** with `cap = len(buf)`, `out = buf[:pos]` -/
theorem C10_leaf_extHdr_pack (h : S_extHdr) (buf : List UInt8) (p : Nat) (hL : buf.length < 4611686018427387904)
    (hp : p ≤ buf.length) :
    match putHdr buf.length (bytesN (buf.take p)) h.Type'.toNat h.Length.toNat with
    | .ok out' => ∃ buf', nts_extHdr_pack h buf (Int64.ofNat p) = some (buf', Int64.ofNat out'.length) ∧
        bytesN (buf'.take out'.length) = out' ∧ buf'.drop out'.length = buf.drop out'.length ∧ buf'.length = buf.length
    | .panic _ => nts_extHdr_pack h buf (Int64.ofNat p) = none
    | _ => False := by
  rw [hdr_pack_spec h buf p hL hp]
  unfold putHdr
  have hol : (bytesN (buf.take p)).length = p := by rw [bytesN_length, List.length_take]; omega
  rw [hol]
  by_cases h4 : p + 4 ≤ buf.length
  · rw [if_neg (by omega), if_pos h4]
    have hlen : (bytesN (buf.take p) ++ be16 h.Type'.toNat ++ be16 h.Length.toNat).length = p + 4 := by
      simp [hol, Nts.be16]
    simp only
    rw [hlen]
    have hw : (hdrBytes h.Type' h.Length).length = 4 := rfl
    refine ⟨_, rfl, ?_, ?_, ?_⟩
    · have := splice_take buf (hdrBytes h.Type' h.Length) p hp
      rw [hw] at this
      rw [this]
      simp only [bytesN, List.map_append] 
      rw [show List.map UInt8.toNat (hdrBytes h.Type' h.Length) = bytesN (hdrBytes h.Type' h.Length) from rfl, hdrBytes_be,
        List.append_assoc]
    · have := splice_drop buf (hdrBytes h.Type' h.Length) p hp
      rw [hw] at this; exact this
    · exact splice_length buf _ p (by rw [hw]; exact h4)
  · rw [if_pos (by omega), if_neg h4]

/-! ### `Cookie.pack`, `CookiePlaceholder.pack`, `UniqueIdentifier.pack`: one shape -/

/-- the common body of the three generated value encoders: type `t`, value `v` -/
def packCore (t : UInt16) (v buf : List UInt8) (pos : Int64) : Option (List UInt8 × (Int64 × Bool)) :=
  let newlen : Int64 := (((Go.len v) + (3 : Int64)) &&& (-4 : Int64))
  (Go.makeBytesN? (newlen - (Go.len v))).bind fun padding =>
  (nts_extHdr_pack { Type' := t, Length := ((4 : UInt16) + ((newlen).toUInt64.toUInt16)) } buf pos).bind fun (buf, pos) =>
  (Go.copyAt? buf pos v).bind fun (buf, n) =>
  let pos : Int64 := (pos + n)
  (Go.copyAt? buf pos padding).bind fun (buf, n) =>
  some ((buf, ((pos + n), false)))

/-- definitional: re-checked against the regenerated definitions on every run -/
theorem cookie_pack_core (c : S_Cookie) (buf : List UInt8) (pos : Int64) :
    nts_Cookie_pack c buf pos = packCore 516 c.Cookie buf pos := rfl
theorem placeholder_pack_core (c : S_CookiePlaceholder) (buf : List UInt8) (pos : Int64) :
    nts_CookiePlaceholder_pack c buf pos = packCore 772 c.Cookie buf pos := rfl
theorem uid_pack_core (u : S_UniqueIdentifier) (buf : List UInt8) (pos : Int64) :
    nts_UniqueIdentifier_pack u buf pos =
      if (decide ((Go.len u.ID) < (32 : Int64))) then some ((buf, ((0 : Int64), true))) else packCore 260 u.ID buf pos := rfl

theorem and_mask (m : Nat) (h : m < 2 ^ 64) : m &&& (2 ^ 64 - 4) = m / 4 * 4 := by
  apply Nat.eq_of_testBit_eq
  intro i
  have hM : (2 ^ 64 - 4 : Nat) = 2 ^ 2 * (2 ^ 62 - 1) := by decide
  have h4 : m / 4 * 4 = 2 ^ 2 * (m / 2 ^ 2) := by omega
  rw [Nat.testBit_and, hM, h4, Nat.testBit_two_pow_mul, Nat.testBit_two_pow_mul, Nat.testBit_two_pow_sub_one, Nat.testBit_div_two_pow]
  by_cases h2 : 2 ≤ i
  · simp only [h2, decide_true, Bool.true_and]
    have e : i - 2 + 2 = i := by omega
    rw [e]
    by_cases h62 : i - 2 < 62
    · simp [h62]
    · simp only [h62, decide_false, Bool.and_false]
      have : m < 2 ^ i := Nat.lt_of_lt_of_le h (Nat.pow_le_pow_right (by decide) (by omega))
      rw [Nat.testBit_lt_two_pow this]
  · simp [h2]

theorem k3 : (3 : Int64).toInt = 3 := by decide

/-- `(n + 3) & ^3` on `int`: the next multiple of 4 (the model's `pad4`) -/
theorem and_neg4 (n : Nat) (h : n < 4611686018427387904) :
    ((Int64.ofNat n + 3) &&& (-4 : Int64)).toBitVec.toNat = pad4 n ∧
    ((Int64.ofNat n + 3) &&& (-4 : Int64)).toInt = (pad4 n : Nat) := by
  have hn := ofNat_toInt n h
  have hy : (Int64.ofNat n + 3).toInt = ((n + 3 : Nat) : Int) := by
    rw [toInt_add_of_fits _ _ (by rw [hn, k3]; omega) (by rw [hn, k3]; omega), hn, k3]; omega
  have hyn : (Int64.ofNat n + 3).toBitVec.toNat = n + 3 := by
    have h1 : (Int64.ofNat n + 3).toBitVec.toInt = ((n + 3 : Nat) : Int) := hy
    rw [BitVec.toInt_eq_toNat_cond] at h1
    have hlt := (Int64.ofNat n + 3).toBitVec.isLt
    split at h1 <;> omega
  have hm4 : (-4 : Int64).toBitVec.toNat = 2 ^ 64 - 4 := by decide
  have hb : ((Int64.ofNat n + 3) &&& (-4 : Int64)).toBitVec.toNat = (n + 3) / 4 * 4 := by
    rw [Int64.toBitVec_and, BitVec.toNat_and, hyn, hm4, and_mask _ (by omega)]
  refine ⟨hb, ?_⟩
  have h2 : ((Int64.ofNat n + 3) &&& (-4 : Int64)).toInt = ((Int64.ofNat n + 3) &&& (-4 : Int64)).toBitVec.toInt := rfl
  rw [h2, BitVec.toInt_eq_toNat_cond, hb, if_pos (by omega)]
  rfl

theorem bytesN_append (x y : List UInt8) : bytesN (x ++ y) = bytesN x ++ bytesN y := by simp [bytesN]
theorem bytesN_takeN (x : List UInt8) (k : Nat) : bytesN (x.take k) = (bytesN x).take k := by simp [bytesN, List.map_take]
theorem bytesN_zeros (m : Nat) : bytesN (List.replicate m 0) = zeros m := by simp [bytesN, zeros]

/-- what the three splice facts give for a write of `W` at `p` -/
theorem splice_result (buf W : List UInt8) (p : Nat) (h : p + W.length ≤ buf.length) :
    bytesN ((splice buf p W).take (p + W.length)) = bytesN (buf.take p) ++ bytesN W ∧
    (splice buf p W).drop (p + W.length) = buf.drop (p + W.length) ∧ (splice buf p W).length = buf.length := by
  refine ⟨?_, splice_drop buf W p (by omega), splice_length buf W p h⟩
  rw [splice_take buf W p (by omega), bytesN_append]

/-- **the common body = the model's `packValue`** with `cap = len(buf)`, `out = buf[:pos]` -/
theorem packCore_spec (t : UInt16) (v buf : List UInt8) (p : Nat) (hL : buf.length < 4611686018427387904)
    (hv : v.length < 4611686018427387904) (hp : p ≤ buf.length) :
    match packValue buf.length t.toNat (bytesN (buf.take p)) (bytesN v) with
    | .ok out' => ∃ buf', packCore t v buf (Int64.ofNat p) = some (buf', Int64.ofNat out'.length, false) ∧
        bytesN (buf'.take out'.length) = out' ∧ buf'.drop out'.length = buf.drop out'.length ∧ buf'.length = buf.length
    | .panic _ => packCore t v buf (Int64.ofNat p) = none
    | _ => False := by
  obtain ⟨hnb, hni⟩ := and_neg4 v.length hv
  have hlv : Go.len v = Int64.ofNat v.length := rfl
  have hlvi := ofNat_toInt v.length hv
  have hpad : pad4 v.length = (v.length + 3) / 4 * 4 := rfl
  unfold packCore
  simp only [hlv]
  generalize hNL : ((Int64.ofNat v.length + 3) &&& (-4 : Int64)) = NL at hnb hni
  -- the padding
  have hsub : (NL - Int64.ofNat v.length).toInt = ((pad4 v.length - v.length : Nat) : Int) := by
    rw [toInt_sub_of_fits _ _ (by rw [hni, hlvi, hpad]; omega) (by rw [hni, hlvi, hpad]; omega), hni, hlvi, hpad]; omega
  have hmk : Go.makeBytesN? (NL - Int64.ofNat v.length) = some (List.replicate (pad4 v.length - v.length) 0) := by
    unfold Go.makeBytesN?
    rw [if_pos (by rw [hsub]; omega), hsub]; rfl
  -- the length field
  have hL16 : ((4 : UInt16) + NL.toUInt64.toUInt16).toNat = (4 + pad4 v.length % 65536) % 65536 := by
    have h4u : (4 : UInt16).toNat = 4 := rfl
    have : NL.toUInt64.toUInt16.toNat = pad4 v.length % 65536 := by
      rw [UInt64.toNat_toUInt16]
      have : NL.toUInt64.toNat = NL.toBitVec.toNat := rfl
      rw [this, hnb]
    rw [UInt16.toNat_add, h4u, this]
  simp only [hmk, Option.bind_some]
  rw [hdr_pack_spec _ buf p hL hp]
  unfold packValue putHdr
  have hol : (bytesN (buf.take p)).length = p := by rw [bytesN_length, List.length_take]; omega
  simp only [bytesN_length, hol]
  by_cases h4 : p + 4 ≤ buf.length
  · rw [if_pos h4, if_neg (by omega)]
    simp only [Option.bind_some]
    generalize hH : hdrBytes t ((4 : UInt16) + NL.toUInt64.toUInt16) = H
    have hHl : H.length = 4 := by rw [← hH]; rfl
    have hHb : bytesN H = Nts.be16 t.toNat ++ Nts.be16 ((4 + pad4 v.length % 65536) % 65536) := by
      rw [← hH, hdrBytes_be, hL16]
    have hs1 := splice_length buf H p (by omega)
    rw [copyAt_spec _ v (p + 4) (by rw [hs1]; exact hL) (by rw [hs1]; exact h4)]
    simp only [Option.bind_some, hs1]
    generalize hW1 : v.take (buf.length - (p + 4)) = W1
    have hW1l : W1.length ≤ buf.length - (p + 4) := by rw [← hW1, List.length_take]; omega
    have hss := splice_splice buf H W1 p (by omega)
    rw [hHl] at hss
    rw [hss]
    have hs2 := splice_length buf (H ++ W1) p (by rw [List.length_append]; omega)
    have hpos2 : Int64.ofNat (p + 4) + Int64.ofNat W1.length = Int64.ofNat (p + 4 + W1.length) :=
      ofNat_add (p + 4) W1.length _ (ofNat_toInt _ (by omega)) (by omega)
    rw [hpos2, copyAt_spec _ _ (p + 4 + W1.length) (by rw [hs2]; exact hL) (by rw [hs2]; omega)]
    simp only [Option.bind_some, hs2]
    generalize hW2 : (List.replicate (pad4 v.length - v.length) (0 : UInt8)).take (buf.length - (p + 4 + W1.length)) = W2
    have hW2l : W2.length ≤ buf.length - (p + 4 + W1.length) := by rw [← hW2, List.length_take]; omega
    have hss2 := splice_splice buf (H ++ W1) W2 p (by rw [List.length_append]; omega)
    rw [List.length_append, hHl, ← Nat.add_assoc] at hss2
    rw [hss2]
    have hpos3 : Int64.ofNat (p + 4 + W1.length) + Int64.ofNat W2.length = Int64.ofNat (p + 4 + W1.length + W2.length) :=
      ofNat_add _ W2.length _ (ofNat_toInt _ (by omega)) (by omega)
    rw [hpos3]
    -- the model's output
    have hout : (pure (copyTrunc buf.length (copyTrunc buf.length
          (bytesN (buf.take p) ++ Nts.be16 t.toNat ++ Nts.be16 ((4 + pad4 v.length % 65536) % 65536)) (bytesN v))
          (zeros (pad4 v.length - v.length))) : Res Bytes) = .ok (bytesN (buf.take p) ++ bytesN (H ++ W1 ++ W2)) := by
      show Res.ok _ = _
      congr 1
      unfold copyTrunc
      simp only [List.length_append, hol, bytesN_append, hHb, ← hW1, ← hW2, bytesN_takeN, bytesN_zeros, bytesN_length,
        List.length_take, Nts.be16, List.length_cons, List.length_nil, List.append_assoc]
      congr 4
      all_goals (try congr 1)
      all_goals omega
    rw [show ∀ (X : Bytes) (f : Bytes → Res Bytes), ((Res.ok X : Res Bytes) >>= f) = f X from fun _ _ => rfl, hout]
    have hWl : (H ++ W1 ++ W2).length = 4 + W1.length + W2.length := by
      simp only [List.length_append, hHl]
    have hlen : (bytesN (buf.take p) ++ bytesN (H ++ W1 ++ W2)).length = p + (H ++ W1 ++ W2).length := by
      rw [List.length_append, hol, bytesN_length]
    obtain ⟨r1, r2, r3⟩ := splice_result buf (H ++ W1 ++ W2) p (by rw [hWl]; omega)
    refine ⟨splice buf p (H ++ W1 ++ W2), ?_, ?_, ?_, r3⟩
    · have e : p + (4 + W1.length + W2.length) = p + 4 + W1.length + W2.length := by omega
      rw [hlen, hWl, e]
    · rw [hlen]; exact r1
    · rw [hlen]; exact r2
  · rw [if_neg h4, if_pos (by omega)]
    rfl

/-- **`Cookie.pack(buf, pos)` = `packValue cap extCookie out cookie`** (`cap = len(buf)`, `out = buf[:pos]`) -/
theorem C10_leaf_Cookie_pack (c : S_Cookie) (buf : List UInt8) (p : Nat) (hL : buf.length < 4611686018427387904)
    (hv : c.Cookie.length < 4611686018427387904) (hp : p ≤ buf.length) :
    match packValue buf.length extCookie (bytesN (buf.take p)) (bytesN c.Cookie) with
    | .ok out' => ∃ buf', nts_Cookie_pack c buf (Int64.ofNat p) = some (buf', Int64.ofNat out'.length, false) ∧
        bytesN (buf'.take out'.length) = out' ∧ buf'.drop out'.length = buf.drop out'.length ∧ buf'.length = buf.length
    | .panic _ => nts_Cookie_pack c buf (Int64.ofNat p) = none
    | _ => False := by
  rw [cookie_pack_core]
  exact packCore_spec 516 c.Cookie buf p hL hv hp

/-- **`CookiePlaceholder.pack`** writes the placeholder type (the F5 fix: `phType true`) -/
theorem C10_leaf_CookiePlaceholder_pack (c : S_CookiePlaceholder) (buf : List UInt8) (p : Nat)
    (hL : buf.length < 4611686018427387904) (hv : c.Cookie.length < 4611686018427387904) (hp : p ≤ buf.length) :
    match packValue buf.length (phType true) (bytesN (buf.take p)) (bytesN c.Cookie) with
    | .ok out' => ∃ buf', nts_CookiePlaceholder_pack c buf (Int64.ofNat p) = some (buf', Int64.ofNat out'.length, false) ∧
        bytesN (buf'.take out'.length) = out' ∧ buf'.drop out'.length = buf.drop out'.length ∧ buf'.length = buf.length
    | .panic _ => nts_CookiePlaceholder_pack c buf (Int64.ofNat p) = none
    | _ => False := by
  rw [placeholder_pack_core]
  exact packCore_spec 772 c.Cookie buf p hL hv hp

theorem k32 : (32 : Int64).toInt = 32 := by decide

/-- **`UniqueIdentifier.pack` = `packUid`**: an identifier shorter than 32 bytes is refused with
    `errShortUniqueID`, nothing written -/
theorem C10_leaf_UniqueIdentifier_pack (u : S_UniqueIdentifier) (buf : List UInt8) (p : Nat)
    (hL : buf.length < 4611686018427387904) (hv : u.ID.length < 4611686018427387904) (hp : p ≤ buf.length) :
    match packUid buf.length (bytesN (buf.take p)) (bytesN u.ID) with
    | .ok out' => ∃ buf', nts_UniqueIdentifier_pack u buf (Int64.ofNat p) = some (buf', Int64.ofNat out'.length, false) ∧
        bytesN (buf'.take out'.length) = out' ∧ buf'.drop out'.length = buf.drop out'.length ∧ buf'.length = buf.length
    | .err _ => nts_UniqueIdentifier_pack u buf (Int64.ofNat p) = some (buf, 0, true)
    | .panic _ => nts_UniqueIdentifier_pack u buf (Int64.ofNat p) = none
    | .hang => False := by
  rw [uid_pack_core]
  unfold packUid
  rw [bytesN_length]
  have hlt : (Go.len u.ID < (32 : Int64)) ↔ u.ID.length < 32 := by
    rw [Int64.lt_iff_toInt_lt, len_toInt _ hv, k32]; omega
  by_cases h : u.ID.length < 32
  · rw [if_pos h, if_pos (by simpa using hlt.mpr h)]
  · rw [if_neg h, if_neg (by simpa using fun x => h (hlt.mp x))]
    have := packCore_spec 260 u.ID buf p hL hv hp
    have e : (260 : UInt16).toNat = extUniqueIdentifier := rfl
    rw [e] at this
    cases hm : packValue buf.length extUniqueIdentifier (bytesN (buf.take p)) (bytesN u.ID) with
    | ok o => rw [hm] at this; exact this
    | panic m => rw [hm] at this; exact this
    | err x => rw [hm] at this; exact this.elim
    | hang => rw [hm] at this; exact this.elim

/-! ### `Authenticator.pack` -/

theorem copyTrunc_bytes (C : Nat) (Q : Bytes) (src : List UInt8) (q : Nat) (hq : Q.length = q) :
    copyTrunc C Q (bytesN src) = Q ++ bytesN (src.take (C - q)) := by
  unfold copyTrunc; rw [hq, bytesN_takeN]

theorem copyTrunc_nil (C : Nat) (Q : Bytes) : copyTrunc C Q [] = Q := by
  unfold copyTrunc; simp

theorem copy_step (buf W src : List UInt8) (p : Nat) (hL : buf.length < 4611686018427387904)
    (h : p + W.length ≤ buf.length) :
    Go.copyAt? (splice buf p W) (Int64.ofNat (p + W.length)) src =
      some (splice buf p (W ++ src.take (buf.length - (p + W.length))),
        Int64.ofNat (src.take (buf.length - (p + W.length))).length) := by
  have hs := splice_length buf W p h
  rw [copyAt_spec _ src (p + W.length) (by rw [hs]; exact hL) (by rw [hs]; exact h), hs, splice_splice buf W _ p h]

theorem put_step (buf W : List UInt8) (v : UInt16) (p : Nat) (hL : buf.length < 4611686018427387904)
    (h : p + W.length ≤ buf.length) :
    Go.putU16? (splice buf p W) (Int64.ofNat (p + W.length)) v =
      if p + W.length + 2 ≤ buf.length then some (splice buf p (W ++ [(v >>> 8).toUInt8, v.toUInt8])) else none := by
  have hs := splice_length buf W p h
  rw [putU16_spec _ (p + W.length) v (by rw [hs]; exact hL) (by rw [hs]; exact h), hs]
  by_cases h2 : p + W.length + 2 ≤ buf.length
  · rw [if_pos h2, if_pos h2, splice_splice buf W _ p h]
  · rw [if_neg h2, if_neg h2]

abbrev Obj := String × List UInt8 × Int64
abbrev NewErr := String → List UInt8 → Int64 → Bool
abbrev SealF := Obj → List UInt8 → List UInt8 → List UInt8 → List UInt8 → Option (List UInt8)

/-- the functions standing for the library agree with the model's AEAD on sealing -/
structure AgreeSeal (ne : NewErr) (sl : SealF) (A : AEAD) : Prop where
  newErr : ∀ key, ne "AES-CMAC-SIV" key 16 = !keyOk (bytesN key)
  seals : ∀ key n pt ad, n.length = 16 → ∃ ct, sl ("AES-CMAC-SIV", key, 16) [] n pt ad = some ct ∧
    bytesN ct = A.sealF (bytesN key) (bytesN n) (bytesN pt) (some (bytesN ad)) ∧ ct.length < 4611686018427387904

theorem len16 (N : List UInt8) (h : N.length = 16) : (Go.len N).toUInt64.toUInt16 = 16 := by
  unfold Go.len; rw [h]; decide

theorem len_u16 (x : List UInt8) (h : x.length < 4611686018427387904) :
    ((Go.len x).toUInt64.toUInt16).toNat = x.length % 65536 := by
  have hl := len_toInt x h
  have h1 : (Go.len x).toBitVec.toInt = (x.length : Int) := hl
  rw [BitVec.toInt_eq_toNat_cond] at h1
  have hlt := (Go.len x).toBitVec.isLt
  have h2 : (Go.len x).toBitVec.toNat = x.length := by split at h1 <;> omega
  rw [UInt64.toNat_toUInt16]
  have : (Go.len x).toUInt64.toNat = (Go.len x).toBitVec.toNat := rfl
  rw [this, h2]

/-- **`Authenticator.pack(buf, pos)` = the model's `packAuth`** (`cap = len(buf)`, `out = buf[:pos]`,
    the nonce = the next 16 bytes of the `crypto/rand` stream), for every library agreeing with the
    model's AEAD on sealing: key-size error, panic for lack of room, or the authenticator field —
    header, lengths, nonce, ciphertext and padding — written at `pos`, the rest of `buf` untouched. -/
theorem C10_leaf_Authenticator_pack (ne : NewErr) (sl : SealF) (A : AEAD) (hA : AgreeSeal ne sl A)
    (a : S_Authenticator) (buf rnd : List UInt8) (p : Nat) (hL : buf.length < 4611686018427387904)
    (hp : p ≤ buf.length) (hr : 16 ≤ rnd.length) :
    match packAuth A buf.length (bytesN (buf.take p)) (bytesN a.Key) (bytesN a.PlainText) (bytesN (rnd.take 16)) with
    | .ok out' => ∃ buf', nts_Authenticator_pack a buf (Int64.ofNat p) rnd ne sl =
          some (buf', rnd.drop 16, Int64.ofNat out'.length, false) ∧
        bytesN (buf'.take out'.length) = out' ∧ buf'.drop out'.length = buf.drop out'.length ∧ buf'.length = buf.length
    | .err _ => nts_Authenticator_pack a buf (Int64.ofNat p) rnd ne sl = some (buf, rnd, 0, true)
    | .panic _ => nts_Authenticator_pack a buf (Int64.ofNat p) rnd ne sl = none
    | .hang => False := by
  unfold nts_Authenticator_pack packAuth
  simp only [hA.newErr]
  cases hk : keyOk (bytesN a.Key) with
  | false => simp
  | true =>
    have hNl : (rnd.take 16).length = 16 := by rw [List.length_take]; omega
    have hrr : Go.randRead rnd (Go.makeBytes 16) = (rnd.take 16, rnd.drop 16, Go.len (Go.makeBytes 16), false) := by
      unfold Go.randRead Go.makeBytes
      rw [List.length_replicate, if_pos hr]
    have h0 : (0 : Int64).toInt = ((0 : Nat) : Int) := by decide
    have hpos := ofNat_toInt p (by omega)
    have hss := ScionTime.LeafTieC14CookiesDec.subslice_spec buf 0 p 0 (Int64.ofNat p) h0 (by rw [hpos]; omega) (by omega)
    rw [List.drop_zero] at hss
    obtain ⟨ct, hseal, hctb, hctl⟩ := hA.seals a.Key (rnd.take 16) a.PlainText (buf.take p) hNl
    have hcl := len_u16 ct hctl
    simp only [Bool.not_true, bne_self_eq_false, Bool.false_eq_true, if_false, hrr, len16 _ hNl, hss, hseal, Option.bind_some]
    have e16 : (-16 : UInt16) % 4 = 0 := by decide
    have emk0 : Go.makeBytesN? ((0 : UInt16).toUInt64.toInt64) = some [] := by decide
    simp only [e16, emk0, Option.bind_some]
    generalize hcl16 : (Go.len ct).toUInt64.toUInt16 = cl16 at hcl
    have hcp : ((-cl16) % 4).toNat = (65536 - cl16.toNat) % 65536 % 4 := by
      rw [UInt16.toNat_mod, UInt16.toNat_neg]; rfl
    have hL16 : ((4 : UInt16) + 2 + 2 + 16 + 0 + cl16 + (-cl16) % 4).toNat =
        (8 + 16 + 0 + cl16.toNat + (65536 - cl16.toNat) % 65536 % 4) % 65536 := by
      simp only [UInt16.toNat_add, hcp]
      have h4 : (4 : UInt16).toNat = 4 := rfl
      have h2 : (2 : UInt16).toNat = 2 := rfl
      have h16 : (16 : UInt16).toNat = 16 := rfl
      have h00 : (0 : UInt16).toNat = 0 := rfl
      rw [h4, h2, h16, h00]
      have := cl16.toNat_lt
      omega
    generalize hLg : ((4 : UInt16) + 2 + 2 + 16 + 0 + cl16 + (-cl16) % 4) = L16 at hL16
    rw [ScionTime.LeafTieC14Nts.make_spec]
    generalize hPad : List.replicate ((-cl16) % 4).toNat (0 : UInt8) = Pad
    simp only [Option.bind_some]
    rw [hdr_pack_spec _ buf p hL hp]
    have hbind : ∀ (X : Bytes) (f : Bytes → Res Bytes), ((Res.ok X : Res Bytes) >>= f) = f X := fun _ _ => rfl
    have hbindp : ∀ (e : Pan) (f : Bytes → Res Bytes), ((Res.panic e : Res Bytes) >>= f) = Res.panic e := fun _ _ => rfl
    have hbl : (bytesN (rnd.take 16)).length = 16 := by rw [bytesN_length, hNl]
    have hol : (bytesN (buf.take p)).length = p := by rw [bytesN_length, List.length_take]; omega
    have hctl' : (bytesN ct).length = ct.length := bytesN_length ct
    simp only [sealC, hbl, ne_eq, not_true_eq_false, if_false, ← hctb, hbind, hctl']
    generalize hH1 : hdrBytes (1028 : UInt16) L16 = H1
    have hH1l : H1.length = 4 := by rw [← hH1]; rfl
    have hH1b : bytesN H1 = Nts.be16 extAuthenticator ++ Nts.be16 ((8 + 16 + 0 + cl16.toNat + (65536 - cl16.toNat) % 65536 % 4) % 65536) := by
      rw [← hH1, hdrBytes_be, hL16]; rfl
    unfold putHdr
    simp only [hol]
    by_cases h4 : p + 4 ≤ buf.length
    · rw [if_pos h4, if_neg (by omega)]
      simp only [Option.bind_some, hbind, List.length_append, hol, Nts.be16, List.length_cons, List.length_nil]
      by_cases h8 : p + 8 ≤ buf.length
      · rw [if_neg (by omega)]
        simp only [hbind]
        generalize hB16 : ([((16 : UInt16) >>> 8).toUInt8, (16 : UInt16).toUInt8] : List UInt8) = B16
        generalize hBcl : ([(cl16 >>> 8).toUInt8, cl16.toUInt8] : List UInt8) = Bcl
        have hB16l : B16.length = 2 := by rw [← hB16]; rfl
        have hBcll : Bcl.length = 2 := by rw [← hBcl]; rfl
        have hp1 : Go.putU16? (splice buf p H1) (Int64.ofNat (p + 4)) 16 = some (splice buf p (H1 ++ B16)) := by
          have := put_step buf H1 16 p hL (by rw [hH1l]; exact h4)
          rw [hH1l, if_pos (by omega), hB16] at this; exact this
        have hWb : (H1 ++ B16).length = 6 := by rw [List.length_append, hH1l, hB16l]
        have hp2 : Go.putU16? (splice buf p (H1 ++ B16)) (Int64.ofNat (p + 4) + 2) cl16 = some (splice buf p (H1 ++ B16 ++ Bcl)) := by
          have := put_step buf (H1 ++ B16) cl16 p hL (by rw [hWb]; omega)
          rw [hWb, if_pos (by omega), hBcl] at this
          rw [ofNat_add (p + 4) 2 2 k2 (by omega)]; exact this
        have hWc : (H1 ++ B16 ++ Bcl).length = 8 := by rw [List.length_append, hWb, hBcll]
        generalize hW1 : (rnd.take 16).take (buf.length - (p + 8)) = W1
        have hW1l : W1.length ≤ buf.length - (p + 8) := by rw [← hW1, List.length_take]; omega
        have hc1 : Go.copyAt? (splice buf p (H1 ++ B16 ++ Bcl)) (Int64.ofNat (p + 4) + 4) (rnd.take 16) =
            some (splice buf p (H1 ++ B16 ++ Bcl ++ W1), Int64.ofNat W1.length) := by
          have := copy_step buf (H1 ++ B16 ++ Bcl) (rnd.take 16) p hL (by rw [hWc]; omega)
          rw [hWc, hW1] at this
          rw [ofNat_add (p + 4) 4 4 k4 (by omega)]; exact this
        have hWd : (H1 ++ B16 ++ Bcl ++ W1).length = 8 + W1.length := by rw [List.length_append, hWc]
        have hc2 : Go.copyAt? (splice buf p (H1 ++ B16 ++ Bcl ++ W1)) (Int64.ofNat (p + 4) + 4 + Int64.ofNat W1.length) [] =
            some (splice buf p (H1 ++ B16 ++ Bcl ++ W1), Int64.ofNat 0) := by
          have := copy_step buf (H1 ++ B16 ++ Bcl ++ W1) [] p hL (by rw [hWd]; omega)
          rw [hWd, List.take_nil, List.append_nil] at this
          rw [ofNat_add (p + 4) 4 4 k4 (by omega), ofNat_add (p + 4 + 4) W1.length _ (ofNat_toInt _ (by omega)) (by omega)]
          have e : p + 4 + 4 + W1.length = p + (8 + W1.length) := by omega
          rw [e]; exact this
        generalize hW3 : ct.take (buf.length - (p + 8 + W1.length)) = W3
        have hW3l : W3.length ≤ buf.length - (p + 8 + W1.length) := by rw [← hW3, List.length_take]; omega
        have hpos3 : Int64.ofNat (p + 4) + 4 + Int64.ofNat W1.length + Int64.ofNat 0 = Int64.ofNat (p + (8 + W1.length)) := by
          rw [ofNat_add (p + 4) 4 4 k4 (by omega), ofNat_add (p + 4 + 4) W1.length _ (ofNat_toInt _ (by omega)) (by omega),
            ofNat_add _ 0 _ (ofNat_toInt _ (by omega)) (by omega)]
          congr 1; omega
        have hc3 : Go.copyAt? (splice buf p (H1 ++ B16 ++ Bcl ++ W1)) (Int64.ofNat (p + 4) + 4 + Int64.ofNat W1.length + Int64.ofNat 0) ct =
            some (splice buf p (H1 ++ B16 ++ Bcl ++ W1 ++ W3), Int64.ofNat W3.length) := by
          have := copy_step buf (H1 ++ B16 ++ Bcl ++ W1) ct p hL (by rw [hWd]; omega)
          rw [hWd, ← Nat.add_assoc, hW3] at this
          rw [hpos3, ← Nat.add_assoc]; exact this
        have hWe : (H1 ++ B16 ++ Bcl ++ W1 ++ W3).length = 8 + W1.length + W3.length := by rw [List.length_append, hWd]
        generalize hW4 : Pad.take (buf.length - (p + 8 + W1.length + W3.length)) = W4
        have hW4l : W4.length ≤ buf.length - (p + 8 + W1.length + W3.length) := by rw [← hW4, List.length_take]; omega
        have hpos4 : Int64.ofNat (p + 4) + 4 + Int64.ofNat W1.length + Int64.ofNat 0 + Int64.ofNat W3.length =
            Int64.ofNat (p + 8 + W1.length + W3.length) := by
          rw [hpos3, ofNat_add _ W3.length _ (ofNat_toInt _ (by omega)) (by omega)]; congr 1; omega
        have hc4 : Go.copyAt? (splice buf p (H1 ++ B16 ++ Bcl ++ W1 ++ W3))
            (Int64.ofNat (p + 4) + 4 + Int64.ofNat W1.length + Int64.ofNat 0 + Int64.ofNat W3.length) Pad =
            some (splice buf p (H1 ++ B16 ++ Bcl ++ W1 ++ W3 ++ W4), Int64.ofNat W4.length) := by
          have := copy_step buf (H1 ++ B16 ++ Bcl ++ W1 ++ W3) Pad p hL (by rw [hWe]; omega)
          rw [hWe] at this
          rw [hpos4]
          have e : p + (8 + W1.length + W3.length) = p + 8 + W1.length + W3.length := by omega
          rw [e, hW4] at this; exact this
        have hpos5 : Int64.ofNat (p + 4) + 4 + Int64.ofNat W1.length + Int64.ofNat 0 + Int64.ofNat W3.length + Int64.ofNat W4.length =
            Int64.ofNat (p + 8 + W1.length + W3.length + W4.length) := by
          rw [hpos4, ofNat_add _ W4.length _ (ofNat_toInt _ (by omega)) (by omega)]
        simp only [hp1, hp2, hc1, hc2, hc3, hc4, hpos5, Option.bind_some]
        generalize hX : (pure _ : Res Bytes) = R
        have hR : R = .ok (bytesN (buf.take p) ++ bytesN (H1 ++ B16 ++ Bcl ++ W1 ++ W3 ++ W4)) := by
          rw [← hX]
          show Res.ok _ = Res.ok _
          congr 1
          have hz0 : zeros ((65536 - 16 % 65536) % 65536 % 4) = [] := by decide
          have hHH : bytesN (B16 ++ Bcl) = [16 % 65536 / 256 % 256, 16 % 65536 % 256] ++ [ct.length % 65536 / 256 % 256, ct.length % 65536 % 256] := by
            rw [← hB16, ← hBcl, ← hcl]; exact hdrBytes_be 16 cl16
          have hPadb : bytesN Pad = zeros ((65536 - ct.length % 65536) % 65536 % 4) := by rw [← hPad, bytesN_zeros, hcp, hcl]
          have hLeq : (8 + 16 % 65536 + (65536 - 16 % 65536) % 65536 % 4 + ct.length % 65536 + (65536 - ct.length % 65536) % 65536 % 4) % 65536 =
              (8 + 16 + 0 + cl16.toNat + (65536 - cl16.toNat) % 65536 % 4) % 65536 := by rw [hcl]
          rw [hLeq, hz0]
          have hpre : bytesN (buf.take p) ++ [extAuthenticator / 256 % 256, extAuthenticator % 256] ++
                [(8 + 16 + 0 + cl16.toNat + (65536 - cl16.toNat) % 65536 % 4) % 65536 / 256 % 256,
                  (8 + 16 + 0 + cl16.toNat + (65536 - cl16.toNat) % 65536 % 4) % 65536 % 256] ++
                [16 % 65536 / 256 % 256, 16 % 65536 % 256] ++ [ct.length % 65536 / 256 % 256, ct.length % 65536 % 256] =
              bytesN (buf.take p) ++ bytesN (H1 ++ B16 ++ Bcl) := by
            rw [List.append_assoc H1, bytesN_append H1, hH1b, hHH]
            simp only [Nts.be16, List.append_assoc]
          rw [hpre]
          have hl1 : (bytesN (buf.take p) ++ bytesN (H1 ++ B16 ++ Bcl)).length = p + 8 := by
            rw [List.length_append, hol, bytesN_length, hWc]
          rw [copyTrunc_bytes _ _ (rnd.take 16) (p + 8) hl1, hW1, copyTrunc_nil]
          have hl2 : (bytesN (buf.take p) ++ bytesN (H1 ++ B16 ++ Bcl) ++ bytesN W1).length = p + 8 + W1.length := by
            rw [List.length_append, hl1, bytesN_length]
          rw [copyTrunc_bytes _ _ ct (p + 8 + W1.length) hl2, hW3, ← hPadb]
          have hl3 : (bytesN (buf.take p) ++ bytesN (H1 ++ B16 ++ Bcl) ++ bytesN W1 ++ bytesN W3).length = p + 8 + W1.length + W3.length := by
            rw [List.length_append, hl2, bytesN_length]
          rw [copyTrunc_bytes _ _ Pad (p + 8 + W1.length + W3.length) hl3, hW4]
          simp only [bytesN_append, List.append_assoc]
        rw [hR]
        have hWl : (H1 ++ B16 ++ Bcl ++ W1 ++ W3 ++ W4).length = 8 + W1.length + W3.length + W4.length := by
          rw [List.length_append, hWe]
        have hlen : (bytesN (buf.take p) ++ bytesN (H1 ++ B16 ++ Bcl ++ W1 ++ W3 ++ W4)).length =
            p + (H1 ++ B16 ++ Bcl ++ W1 ++ W3 ++ W4).length := by
          rw [List.length_append, hol, bytesN_length]
        obtain ⟨r1, r2, r3⟩ := splice_result buf (H1 ++ B16 ++ Bcl ++ W1 ++ W3 ++ W4) p (by rw [hWl]; omega)
        refine ⟨splice buf p (H1 ++ B16 ++ Bcl ++ W1 ++ W3 ++ W4), ?_, ?_, ?_, r3⟩
        · have e : p + (8 + W1.length + W3.length + W4.length) = p + 8 + W1.length + W3.length + W4.length := by omega
          rw [hlen, hWl, e]
        · rw [hlen]; exact r1
        · rw [hlen]; exact r2
      · rw [if_pos (by omega)]
        simp only [hbindp]
        have hp1 := put_step buf H1 16 p hL (by rw [hH1l]; exact h4)
        rw [hH1l] at hp1
        rw [hp1]
        by_cases h6 : p + 4 + 2 ≤ buf.length
        · rw [if_pos h6]
          simp only [Option.bind_some]
          have hp2 := put_step buf (H1 ++ [((16 : UInt16) >>> 8).toUInt8, (16 : UInt16).toUInt8]) cl16 p hL
            (by rw [List.length_append, hH1l]; exact h6)
          rw [List.length_append, hH1l] at hp2
          rw [ofNat_add (p + 4) 2 2 k2 (by omega)]
          rw [show p + (4 + [((16 : UInt16) >>> 8).toUInt8, (16 : UInt16).toUInt8].length) = p + 4 + 2 from rfl] at hp2
          rw [hp2, if_neg (by omega)]
          rfl
        · rw [if_neg h6]; rfl
    · rw [if_neg h4, if_pos (by omega)]
      simp only [hbindp]
      rfl

/-- non-vacuity of `AgreeSeal`: a toy library (identity "encryption" plus a 16-byte tag) -/
def toyNe : NewErr := fun _ k _ => !(k.length == 32 || k.length == 64)
def toySl : SealF := fun _ _ _ pt _ => if pt.length < 100 then some (pt ++ List.replicate 16 7) else some []
def toyA : AEAD := { sealF := fun _ _ p _ => if p.length < 100 then p ++ List.replicate 16 7 else [],
                     openF := fun _ _ c _ => some c }

example : AgreeSeal toyNe toySl toyA where
  newErr := by intro key; simp [toyNe, keyOk, bytesN]
  seals := by
    intro key n pt ad _
    by_cases h : pt.length < 100
    · refine ⟨pt ++ List.replicate 16 7, by simp [toySl, h], ?_, by simp; omega⟩
      simp [toyA, bytesN, h]
    · exact ⟨[], by simp [toySl, h], by simp [toyA, bytesN, h], by simp⟩

/-- an authenticator with an empty plaintext at position 0 of a 48-byte buffer: 40 bytes written -/
example : (nts_Authenticator_pack
      { extHdr := { Type' := 0, Length := 0 }, Nonce := [], CipherText := [], Key := List.replicate 32 1, PlainText := [], pos := 0 }
      (List.replicate 48 9) 0 (List.replicate 20 3) toyNe toySl).map (fun r => (r.1.take 10, r.2.1.length, r.2.2)) =
    some ([4, 4, 0, 40, 0, 16, 0, 16, 3, 3], 4, 40, false) := by decide +kernel

/-- non-vacuity: a 5-byte cookie at position 2 of a 20-byte buffer — header, value, three padding
    bytes; and the truncation at the end of a 12-byte buffer -/
example : nts_Cookie_pack { extHdr := { Type' := 0, Length := 0 }, Cookie := [1, 2, 3, 4, 5] } (List.replicate 20 9) 2 =
    some ([9, 9, 2, 4, 0, 12, 1, 2, 3, 4, 5, 0, 0, 0, 9, 9, 9, 9, 9, 9], 14, false) := by decide +kernel
example : nts_Cookie_pack { extHdr := { Type' := 0, Length := 0 }, Cookie := [1, 2, 3, 4, 5] } (List.replicate 9 9) 2 =
    some ([9, 9, 2, 4, 0, 12, 1, 2, 3], 9, false) := by decide +kernel
example : nts_Cookie_pack { extHdr := { Type' := 0, Length := 0 }, Cookie := [1] } (List.replicate 5 9) 2 = none := by
  decide +kernel

end ScionTime.LeafTieC14NtsPack
