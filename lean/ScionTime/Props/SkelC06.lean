import ScionTime.Gen.SkelC06
import ScionTime.Model.Skel.Server
import ScionTime.Model.Skel.ServerStart

/-!
  Control-skeleton pins, group C06 (notes/SKEL.md): the control structure and the text of every
  condition, call and assignment of the functions below, re-read from /repo on every run
  (`Gen.Skel.*`, harness/extract/skeleton.go), are exactly the ones the hand-written models were
  written against (`Model.Skel.*`, annotated row by row with the model definition that mirrors
  each statement).  A broken pin means the code was edited inside a modelled function: the model
  has to be re-read against the rows named by the `SKEL-DIFF` diagnostic.
-/
namespace ScionTime

/-! diagnostics (not obligations): name the rows that differ when a pin below breaks -/
#eval Model.Skel.check "Server.handleRequest" Gen.Skel.Server.handleRequest Model.Skel.Server.handleRequest
#eval Model.Skel.check "Server.updateTXTimestamp" Gen.Skel.Server.updateTXTimestamp Model.Skel.Server.updateTXTimestamp
#eval Model.Skel.check "Server.runIPServer" Gen.Skel.Server.runIPServer Model.Skel.Server.runIPServer
#eval Model.Skel.check "Server.runSCIONServer" Gen.Skel.Server.runSCIONServer Model.Skel.Server.runSCIONServer
#eval Model.Skel.check "ServerStart.StartIPServer" Gen.Skel.ServerStart.StartIPServer Model.Skel.ServerStart.StartIPServer
#eval Model.Skel.check "ServerStart.StartSCIONServer" Gen.Skel.ServerStart.StartSCIONServer Model.Skel.ServerStart.StartSCIONServer
#eval Model.Skel.check "ServerStart.StartSCIONDispatcher" Gen.Skel.ServerStart.StartSCIONDispatcher Model.Skel.ServerStart.StartSCIONDispatcher

/-! the pins -/
theorem C06_skel_Server_handleRequest : Gen.Skel.Server.handleRequest = Model.Skel.Server.handleRequest := rfl
theorem C06_skel_Server_updateTXTimestamp : Gen.Skel.Server.updateTXTimestamp = Model.Skel.Server.updateTXTimestamp := rfl
theorem C06_skel_Server_runIPServer : Gen.Skel.Server.runIPServer = Model.Skel.Server.runIPServer := rfl
theorem C06_skel_Server_runSCIONServer : Gen.Skel.Server.runSCIONServer = Model.Skel.Server.runSCIONServer := rfl
theorem C06_skel_ServerStart_StartIPServer : Gen.Skel.ServerStart.StartIPServer = Model.Skel.ServerStart.StartIPServer := rfl
theorem C06_skel_ServerStart_StartSCIONServer : Gen.Skel.ServerStart.StartSCIONServer = Model.Skel.ServerStart.StartSCIONServer := rfl
theorem C06_skel_ServerStart_StartSCIONDispatcher : Gen.Skel.ServerStart.StartSCIONDispatcher = Model.Skel.ServerStart.StartSCIONDispatcher := rfl

end ScionTime
