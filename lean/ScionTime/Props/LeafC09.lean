/-
  Kernel-checked ties (C09, C05): the first-byte accessors, ValidateRequest and
  ValidateResponseMetadata as regenerated from /repo's Go source (Gen/Leaf.lean) equal the
  hand-written models of Model/NtpPacket.lean — for every packet (complete 256-value tables of
  the first byte, lifted to all packets).
-/
import ScionTime.Gen.Leaf
import ScionTime.Model.NtpPacket
import ScionTime.Proofs.LeafUtil
namespace ScionTime.LeafTieC09
open ScionTime.Gen.Leaf ScionTime.LeafUtil

theorem C09_leaf_LeapIndicator (p : S_Packet) :
    (ntp_Packet_LeapIndicator p).toNat = NtpPacket.leapIndicator p.LVM.toNat := by
  unfold ntp_Packet_LeapIndicator
  exact forall_uint8 (fun x => ((x >>> (6 : UInt8)) &&& (3 : UInt8)).toNat = NtpPacket.leapIndicator x.toNat)
    (by decide +kernel) p.LVM

theorem C09_leaf_Version (p : S_Packet) :
    (ntp_Packet_Version p).toNat = NtpPacket.version p.LVM.toNat := by
  unfold ntp_Packet_Version
  exact forall_uint8 (fun x => ((x >>> (3 : UInt8)) &&& (7 : UInt8)).toNat = NtpPacket.version x.toNat)
    (by decide +kernel) p.LVM

theorem C09_leaf_Mode (p : S_Packet) :
    (ntp_Packet_Mode p).toNat = NtpPacket.mode p.LVM.toNat := by
  unfold ntp_Packet_Mode
  exact forall_uint8 (fun x => (x &&& (7 : UInt8)).toNat = NtpPacket.mode x.toNat)
    (by decide +kernel) p.LVM

/-- the generated validator, as a function of the first byte only -/
def vreq (x : UInt8) : Bool :=
  let li : UInt8 := ((x >>> (6 : UInt8)) &&& (3 : UInt8))
  if ((li != (0 : UInt8)) && (li != (3 : UInt8))) then true
  else
    let vn : UInt8 := ((x >>> (3 : UInt8)) &&& (7 : UInt8))
    if ((decide (vn < (1 : UInt8))) || (decide ((4 : UInt8) < vn))) then true
    else
      let mode : UInt8 := (x &&& (7 : UInt8))
      if (((vn == (1 : UInt8)) && (mode != (0 : UInt8))) || ((vn != (1 : UInt8)) && (mode != (3 : UInt8)))) then true
      else false

/-- `ValidateRequest` (error = true) is the negation of the model's acceptance predicate, for
    every packet and source port. If the Go function changes, either `rfl` below (shape) or
    the 256-row table breaks. -/
theorem C09_leaf_ValidateRequest (p : S_Packet) (port : UInt16) :
    ntp_ValidateRequest p port = !NtpPacket.validateRequest p.LVM.toNat := by
  have shape : ntp_ValidateRequest p port = vreq p.LVM := rfl
  rw [shape]
  exact forall_uint8 (fun x => vreq x = !NtpPacket.validateRequest x.toNat) (by decide +kernel) p.LVM

end ScionTime.LeafTieC09
