/-
  C03 — hypothesis A4 of the pairing theorems ("every datagram from the server that the socket of
  exchange k delivers answers request k") is DISCHARGED by how the clients open their sockets, not
  assumed (Model/ClientFlow.lean `requestedPort`, `socketPort`, `socketDelivers`).

  The code asks the kernel for port 0 of the local address for every exchange
  (`C03Port_pin_bind`: regenerated fact, the port argument of the ListenPacket call is the literal 0),
  whatever port the configured local address carries. What is assumed, exactly:
    (K) kernel: the ports it picks for the sockets of the exchanges of a history are pairwise
        distinct (no ephemeral port is handed out again while datagrams addressed to an earlier socket
        of this client may still arrive) — `Function.Injective kernel` on the history;
    (N) server / network: a datagram the server sends in answer to request k is addressed to the port
        request k came from, and is conformant for request k (C06's reply contract).
  Then the socket of exchange k delivers only answers to request k: A4 holds for every exchange —
  responses delayed beyond the deadline of their exchange never reach a later, bit-identical
  interleaved request. The variant that binds the configured port makes all exchanges share one port:
  refuted (`C03Port_bind_configured_refuted`).
-/
import ScionTime.Model.ClientFlow
import ScionTime.Gen.Client
import ScionTime.Props.C03
namespace ScionTime.Props.C03Port
open ScionTime.Time64 ScionTime.NtpMath ScionTime.ClientNtp ScionTime.ClientFlow ScionTime.C03

/-- **Pin**: both clients open the socket of an exchange on port 0 of the local address. -/
theorem C03Port_pin_bind :
    Gen.Client.clientSocketBindIP = "\"udp\",netip.AddrPortFrom(laddr, 0).String()" ∧
    Gen.Client.clientSocketBindSCION = "\"udp\",netip.AddrPortFrom(laddr, 0).String()" := by decide

/-- the code never requests the configured port: the socket's port is the kernel's choice -/
theorem C03Port_kernel_chosen (cfgPort : Nat) (kernel : Nat → Nat) (j : Nat) (hk : kernel j ≠ 0) :
    requestedPort false cfgPort = 0 ∧ socketPort false cfgPort kernel j = kernel j := by
  simp [requestedPort, socketPort, boundPort]

/-- **A4 discharged.** Under (K) and (N), for every configured port, the events the socket of
    exchange `k` delivers satisfy hypothesis A4 of `C03_pairing_ip` / `C03_pairing_history_ip`. -/
theorem C03Port_A4_discharged {D : Type} (srcOk : D → Prop) (payload : D → Payload)
    (G : Nat → ExStamps) (Srv : List Nat) (req : Nat → Req)
    (cfgPort : Nat) (kernel : Nat → Nat)
    (hK : ∀ i j, kernel i = kernel j → i = j) (hK0 : ∀ j, kernel j ≠ 0)
    (arriving : List (Wire D × Int × Bool))
    (hN : ∀ w ∈ arriving, srcOk w.1.d →
      w.1.dstPort = socketPort false cfgPort kernel w.1.answers ∧
      Conformant G Srv w.1.answers (req w.1.answers) (payload w.1.d).pkt)
    (k : Nat) :
    A4 srcOk payload G Srv k (req k) (socketDelivers (socketPort false cfgPort kernel k) arriving) := by
  intro d cRx b hmem hsrc
  unfold socketDelivers at hmem
  obtain ⟨w, hw, he⟩ := List.mem_map.mp hmem
  obtain ⟨hwa, hport⟩ := List.mem_filter.mp hw
  cases he
  obtain ⟨hp, hconf⟩ := hN w hwa hsrc
  have hk1 := (C03Port_kernel_chosen cfgPort kernel k (hK0 k)).2
  have hk2 := (C03Port_kernel_chosen cfgPort kernel w.1.answers (hK0 _)).2
  have : w.1.answers = k := by
    apply hK
    have := beq_iff_eq.mp hport
    rw [hp, hk1, hk2] at this
    exact this
  rw [this] at hconf
  exact hconf

/-- non-vacuity and the scenario of the live stream: the response to request 3 (held back beyond
    the deadline) arrives while exchange 4 is open; with kernel-chosen ports 40003 / 40004 the socket
    of exchange 4 delivers only the answer to request 4. -/
example :
    (socketDelivers (socketPort false 28429 (fun j => 40000 + j) 4)
      [(⟨"late answer to 3", 40003, 3⟩, 10, true), (⟨"answer to 4", 40004, 4⟩, 20, true)]).length = 1 ∧
    socketPort false 28429 (fun j => 40000 + j) 4 = 40004 := by decide

/-- **The variant that binds the configured port is refuted**: with a non-zero configured port every
    exchange's socket has that port, whatever the kernel would have chosen, and the late answer to
    request 3 — addressed to the port request 3 came from — is delivered to the socket of exchange 4
    in front of the answer to request 4. -/
theorem C03Port_bind_configured_refuted :
    socketPort true 28429 (fun j => 40000 + j) 3 = 28429 ∧ socketPort true 28429 (fun j => 40000 + j) 4 = 28429 ∧
    (socketDelivers (socketPort true 28429 (fun j => 40000 + j) 4)
      [(⟨"late answer to 3", 28429, 3⟩, 10, true), (⟨"answer to 4", 28429, 4⟩, 20, true)]).length = 2 := by decide

/-- with port 0 configured (what the daemons pass) the variant is the code: why it looks harmless -/
theorem C03Port_variant_same_for_port_zero (kernel : Nat → Nat) (j : Nat) :
    socketPort true 0 kernel j = socketPort false 0 kernel j := by
  simp [socketPort, requestedPort]

end ScionTime.Props.C03Port
