/-
  Kernel-checked tie (C01): the clamp / cutoff / combine arithmetic of the loop body of
  `core/sync.Run` — the statements from `refClkCorr, peerClkCorr := refClkOff, peerClkOff` up to the
  `switch` that sets `corr`, i.e. everything between the two measured offsets and the argument of
  `adj.Do(corr)` — as lifted from /repo's Go source on every run into a function of its free
  variables (Gen/LeafSync.lean; the translator's statement-range mode also checks that the range
  is followed by `adj.Do(corr)`) is the model's `clamp` / `peerPart` / `combine`, hence
  `Sync.correction`, for every pair of offsets, every pair of caps (all doubles incl. NaN / ±Inf),
  every cutoff and every number of reference clocks and peers (below 2^62).
-/
import ScionTime.Gen.LeafSync
import ScionTime.Model.Sync
import ScionTime.Proofs.GoPrelude
namespace ScionTime.LeafTieC01
open ScionTime ScionTime.Gen.Leaf ScionTime.GoLemmas ScionTime.Sync

theorem abs_eq (d : Int64) : Go.Duration.abs d = absDur d := by
  unfold Go.Duration.abs absDur
  have h0 : (0 : Int64).toInt = 0 := by decide
  by_cases h : d.toInt ≥ 0
  · have : d ≥ 0 := Int64.le_iff_toInt_le.mpr (by omega)
    rw [if_pos h, if_pos this]
  · have : ¬ d ≥ 0 := fun hh => h (by have := Int64.le_iff_toInt_le.mp hh; omega)
    rw [if_neg h, if_neg this]
    by_cases hm : d = Int64.minValue
    · simp [hm]
    · simp [hm]

theorem sgn_eq (d : Int64) : (timemath_Sgn d).toInt = sgn d := by
  unfold timemath_Sgn sgn
  by_cases h1 : d < 0
  · simp only [h1, decide_true, if_true]; decide
  · simp only [h1, decide_false, Bool.false_eq_true, if_false]
    by_cases h2 : d > 0
    · simp only [h2, decide_true, if_true]; decide
    · simp only [h2, decide_false, Bool.false_eq_true, if_false]; decide

theorem clamp_eq (M : F64.F64) (x : Int64) :
    (if (F64.gt (F64.ofInt ((Go.Duration.abs x)).toInt) M) then
      (Int64.ofInt (F64.toInt64 (F64.mul (F64.ofInt ((timemath_Sgn x)).toInt) M))) else x) = clamp M x := by
  unfold clamp f64OfDur durOfF64
  rw [abs_eq, sgn_eq]

theorem clamp_eq2 (M : F64.F64) (x : Int64) :
    (if (F64.gt (F64.ofInt ((absDur x)).toInt) M) then
      (Int64.ofInt (F64.toInt64 (F64.mul (F64.ofInt ((timemath_Sgn x)).toInt) M))) else x) = clamp M x := by
  unfold clamp f64OfDur durOfF64
  rw [sgn_eq]

theorem nonempty_eq {α : Type} (l : List α) (h : l.length < 4611686018427387904) :
    ((Go.len l) != (0 : Int64)) = !l.isEmpty := by
  have hl : (Go.len l).toInt = l.length := by
    unfold Go.len; exact Int64.toInt_ofNat_of_lt (by omega)
  cases l with
  | nil => rfl
  | cons a t =>
    simp only [List.isEmpty_cons, Bool.not_false, bne_iff_ne, ne_eq]
    intro h0
    rw [h0] at hl
    have : (0 : Int64).toInt = 0 := by decide
    simp at hl
    omega

/-- **the loop body's arithmetic** is the model's: the clamped reference correction, the peer
    branch (cutoff, clamp, `peerClkOk`) and the `switch` -/
theorem C01_leaf_correction (refOff peerOff : Int64) (M1 M2 : F64.F64) (cfg : S_Config) (refs peers : List Unit)
    (hr : refs.length < 4611686018427387904) (hp : peers.length < 4611686018427387904) :
    sync_Run_correction refOff peerOff M1 M2 cfg refs peers =
      combine (!refs.isEmpty) (peerPart M2 cfg.PeerClockCutoff (!peers.isEmpty) peerOff).2
        (clamp M1 refOff) (peerPart M2 cfg.PeerClockCutoff (!peers.isEmpty) peerOff).1 := by
  unfold sync_Run_correction peerPart
  simp only [nonempty_eq refs hr, nonempty_eq peers hp, abs_eq, clamp_eq2]
  by_cases hc : absDur peerOff > cfg.PeerClockCutoff
  · simp only [hc, decide_true, if_true]
    cases refs.isEmpty <;> cases peers.isEmpty <;> simp [combine, timemath_Midpoint, midpoint]
  · simp only [hc, decide_false, Bool.false_eq_true, if_false]
    cases refs.isEmpty <;> simp [combine]

/-- view of the configuration and the two caps computed before the loop as the model's `Cfg` -/
theorem C01_leaf_correction_model (c : Cfg) (refOff peerOff : Int64) (cfg : S_Config) (refs peers : List Unit)
    (hr : refs.length < 4611686018427387904) (hp : peers.length < 4611686018427387904)
    (hcut : cfg.PeerClockCutoff = c.cutoff) :
    sync_Run_correction refOff peerOff (refCap c) (peerCap c) cfg refs peers =
      correction c (!refs.isEmpty) (!peers.isEmpty) refOff peerOff := by
  rw [C01_leaf_correction _ _ _ _ _ _ _ hr hp, hcut]
  rfl

/-- non-vacuity through the generated definition (cap 1000 ns on both sides, cutoff 50 ns): a
    reference offset of 5000 ns is clamped to 1000; a peer offset of 40 ns is below the cutoff and
    ignored; with both, the midpoint; with neither kind of clock configured, 0 -/
def exCfg : S_Config := { ReferenceClockImpact := F64.ofInt 2, PeerClockImpact := F64.ofInt 4, PeerClockCutoff := 50, SyncTimeout := 0, SyncInterval := 1 }
example : sync_Run_correction 5000 40 (F64.ofInt 1000) (F64.ofInt 1000) exCfg [()] [(), ()] = 1000 := by decide +kernel
example : sync_Run_correction 5000 (-3000) (F64.ofInt 1000) (F64.ofInt 1000) exCfg [()] [(), ()] = 0 := by decide +kernel
example : sync_Run_correction 600 300 (F64.ofInt 1000) (F64.ofInt 1000) exCfg [()] [(), ()] = 450 := by decide +kernel
example : sync_Run_correction 600 300 (F64.ofInt 1000) (F64.ofInt 1000) exCfg [] [] = 0 := by decide +kernel

end ScionTime.LeafTieC01
