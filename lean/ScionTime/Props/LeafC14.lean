/-
  Kernel-checked ties (C14): the NTP header codec of net/ntp/ntp.go — `EncodePacket`, `DecodePacket`,
  `SetLeapIndicator`, `SetVersion`, `SetMode` — as regenerated from /repo's Go source on every run
  (Gen/LeafNtp.lean; seventh generation of the leaf translator: `*[]byte` as a slice with capacity,
  `make`, reslicing, the alias `buf := *b`, constant-index byte reads and writes with their bounds
  checks, width conversions and shifts, assignments through a pointer parameter) is the model of
  Model/NtpPacket.lean, for every packet and every byte slice (shorter than 2^62 bytes).
-/
import ScionTime.Gen.LeafNtp
import ScionTime.Model.NtpPacket
import ScionTime.Proofs.WireFields
import ScionTime.Proofs.LeafBytes
import ScionTime.Proofs.LeafSlice2
import ScionTime.Proofs.LeafUtil
namespace ScionTime.LeafTieC14
open ScionTime ScionTime.Gen.Leaf ScionTime.Wire ScionTime.LeafBytes ScionTime.Go

/-- view of a generated packet as the model's -/
def pk (p : S_Packet) : NtpPacket.Packet :=
  { lvm := p.LVM.toNat, stratum := p.Stratum.toNat, poll := p.Poll.toInt, precision := p.Precision.toInt,
    rootDelay := ⟨p.RootDelay.Seconds.toNat, p.RootDelay.Fraction.toNat⟩,
    rootDispersion := ⟨p.RootDispersion.Seconds.toNat, p.RootDispersion.Fraction.toNat⟩,
    referenceID := p.ReferenceID.toNat,
    referenceTime := ⟨p.ReferenceTime.Seconds.toNat, p.ReferenceTime.Fraction.toNat⟩,
    originTime := ⟨p.OriginTime.Seconds.toNat, p.OriginTime.Fraction.toNat⟩,
    receiveTime := ⟨p.ReceiveTime.Seconds.toNat, p.ReceiveTime.Fraction.toNat⟩,
    transmitTime := ⟨p.TransmitTime.Seconds.toNat, p.TransmitTime.Fraction.toNat⟩ }

def bytesN (b : List UInt8) : List Nat := b.map UInt8.toNat

theorem cons_of_le {α : Type} (b : List α) (n : Nat) (h : n + 1 ≤ b.length) : ∃ a r, b = a :: r ∧ n ≤ r.length := by
  cases b with
  | nil => simp at h
  | cons a r => exact ⟨a, r, rfl, by simpa using h⟩

/-! ### the first-byte setters -/

/-- view of a setter's result: the new first byte, or the panic -/
def setView (m : String) : Option S_Packet → Outcome Nat
  | some p => .ok p.LVM.toNat
  | none => .panic m

theorem C14_leaf_SetMode (p : S_Packet) (m : UInt8) :
    setView "explicit:unexpected_NTP_mode_value" (ntp_Packet_SetMode p m) = NtpPacket.setMode p.LVM.toNat m.toNat ∧
      ∀ p', ntp_Packet_SetMode p m = some p' → p' = { p with LVM := p'.LVM } := by
  constructor
  · have key : ∀ x y : UInt8, (if ((y &&& (7 : UInt8)) != y) then (Outcome.panic "explicit:unexpected_NTP_mode_value" : Outcome Nat)
        else .ok (((x &&& (248 : UInt8)) ||| y)).toNat) = NtpPacket.setMode x.toNat y.toNat := by
      intro x y
      unfold NtpPacket.setMode
      have hc : ((y &&& (7 : UInt8)) != y) = true ↔ (y.toNat &&& 7 ≠ y.toNat) := by
        rw [bne_iff_ne, ne_eq, ← UInt8.toNat_inj, UInt8.toNat_and]; rfl
      by_cases h : ((y &&& (7 : UInt8)) != y) = true
      · rw [if_pos h, if_pos (hc.mp h)]
      · rw [if_neg h, if_neg (fun hh => h (hc.mpr hh))]
        simp
    rw [← key p.LVM m]
    unfold ntp_Packet_SetMode
    split <;> rfl
  · intro p' h
    unfold ntp_Packet_SetMode at h
    split at h
    · cases h
    · cases h; rfl

theorem C14_leaf_SetVersion (p : S_Packet) (v : UInt8) :
    setView "explicit:unexpected_NTP_version_value" (ntp_Packet_SetVersion p v) = NtpPacket.setVersion p.LVM.toNat v.toNat ∧
      ∀ p', ntp_Packet_SetVersion p v = some p' → p' = { p with LVM := p'.LVM } := by
  constructor
  · have key : ∀ x y : UInt8, (if ((y &&& (7 : UInt8)) != y) then (Outcome.panic "explicit:unexpected_NTP_version_value" : Outcome Nat)
        else .ok (((x &&& (199 : UInt8)) ||| (y <<< (3 : UInt8)))).toNat) = NtpPacket.setVersion x.toNat y.toNat := by
      intro x y
      unfold NtpPacket.setVersion
      have hc : ((y &&& (7 : UInt8)) != y) = true ↔ (y.toNat &&& 7 ≠ y.toNat) := by
        rw [bne_iff_ne, ne_eq, ← UInt8.toNat_inj, UInt8.toNat_and]; rfl
      by_cases h : ((y &&& (7 : UInt8)) != y) = true
      · rw [if_pos h, if_pos (hc.mp h)]
      · rw [if_neg h, if_neg (fun hh => h (hc.mpr hh))]
        simp
    rw [← key p.LVM v]
    unfold ntp_Packet_SetVersion
    split <;> rfl
  · intro p' h
    unfold ntp_Packet_SetVersion at h
    split at h
    · cases h
    · cases h; rfl

theorem C14_leaf_SetLeapIndicator (p : S_Packet) (l : UInt8) :
    setView "explicit:unexpected_NTP_leap_indicator_value" (ntp_Packet_SetLeapIndicator p l) =
      NtpPacket.setLeapIndicator p.LVM.toNat l.toNat ∧
      ∀ p', ntp_Packet_SetLeapIndicator p l = some p' → p' = { p with LVM := p'.LVM } := by
  constructor
  · have key : ∀ x y : UInt8, (if ((y &&& (3 : UInt8)) != y) then (Outcome.panic "explicit:unexpected_NTP_leap_indicator_value" : Outcome Nat)
        else .ok (((x &&& (63 : UInt8)) ||| (y <<< (6 : UInt8)))).toNat) = NtpPacket.setLeapIndicator x.toNat y.toNat := by
      intro x y
      unfold NtpPacket.setLeapIndicator
      have hc : ((y &&& (3 : UInt8)) != y) = true ↔ (y.toNat &&& 3 ≠ y.toNat) := by
        rw [bne_iff_ne, ne_eq, ← UInt8.toNat_inj, UInt8.toNat_and]; rfl
      by_cases h : ((y &&& (3 : UInt8)) != y) = true
      · rw [if_pos h, if_pos (hc.mp h)]
      · rw [if_neg h, if_neg (fun hh => h (hc.mpr hh))]
        simp
    rw [← key p.LVM l]
    unfold ntp_Packet_SetLeapIndicator
    split <;> rfl
  · intro p' h
    unfold ntp_Packet_SetLeapIndicator at h
    split at h
    · cases h
    · cases h; rfl

theorem beVal_single (x : Nat) : beVal [x] = x := by simp [beVal]

/-! ### DecodePacket -/

/-- view of the decoder's result: `none` = index panic, error flag = `errUnexpectedPacketSize` -/
def decView : Option (S_Packet × Bool) → Outcome NtpPacket.Packet
  | none => .panic "index"
  | some (_, true) => .err "size"
  | some (p, false) => .ok (pk p)

theorem len_lt (b : List UInt8) (hb : b.length < 4611686018427387904) (n : Nat) (hn : n < 4611686018427387904) :
    (Go.len b < Int64.ofNat n) ↔ b.length < n := by
  unfold Go.len
  rw [Int64.lt_iff_toInt_lt, Int64.toInt_ofNat_of_lt (by omega), Int64.toInt_ofNat_of_lt (by omega)]
  omega

theorem C14_leaf_DecodePacket (pkt : S_Packet) (b : List UInt8) (hlen : b.length < 4611686018427387904) :
    decView (ntp_DecodePacket pkt b) = NtpPacket.decodePacket (bytesN b) := by
  unfold ntp_DecodePacket NtpPacket.decodePacket NtpPacket.packetLen
  have h48 : (48 : Int64) = Int64.ofNat 48 := rfl
  by_cases hshort : b.length < 48
  · have : Go.len b < 48 := by rw [h48]; exact (len_lt b hlen 48 (by omega)).mpr hshort
    simp only [this, decide_true, if_true, bytesN, List.length_map, hshort]
    rfl
  · have : ¬ Go.len b < 48 := by rw [h48]; exact fun h => hshort ((len_lt b hlen 48 (by omega)).mp h)
    simp only [this, decide_false, Bool.false_eq_true, if_false, bytesN, List.length_map, hshort]
    rw [readFields_ok NtpPacket.layout _ (by simp [NtpPacket.layout, layoutLen]; omega)]
    have h0 : 47 + 1 ≤ b.length := by omega
    clear hlen hshort this
    revert h0
    generalize b = b0
    intro h0
    obtain ⟨x0, b1, rfl, h1⟩ := cons_of_le b0 47 h0; clear h0
    obtain ⟨x1, b2, rfl, h2⟩ := cons_of_le b1 46 h1; clear h1
    obtain ⟨x2, b3, rfl, h3⟩ := cons_of_le b2 45 h2; clear h2
    obtain ⟨x3, b4, rfl, h4⟩ := cons_of_le b3 44 h3; clear h3
    obtain ⟨x4, b5, rfl, h5⟩ := cons_of_le b4 43 h4; clear h4
    obtain ⟨x5, b6, rfl, h6⟩ := cons_of_le b5 42 h5; clear h5
    obtain ⟨x6, b7, rfl, h7⟩ := cons_of_le b6 41 h6; clear h6
    obtain ⟨x7, b8, rfl, h8⟩ := cons_of_le b7 40 h7; clear h7
    obtain ⟨x8, b9, rfl, h9⟩ := cons_of_le b8 39 h8; clear h8
    obtain ⟨x9, b10, rfl, h10⟩ := cons_of_le b9 38 h9; clear h9
    obtain ⟨x10, b11, rfl, h11⟩ := cons_of_le b10 37 h10; clear h10
    obtain ⟨x11, b12, rfl, h12⟩ := cons_of_le b11 36 h11; clear h11
    obtain ⟨x12, b13, rfl, h13⟩ := cons_of_le b12 35 h12; clear h12
    obtain ⟨x13, b14, rfl, h14⟩ := cons_of_le b13 34 h13; clear h13
    obtain ⟨x14, b15, rfl, h15⟩ := cons_of_le b14 33 h14; clear h14
    obtain ⟨x15, b16, rfl, h16⟩ := cons_of_le b15 32 h15; clear h15
    obtain ⟨x16, b17, rfl, h17⟩ := cons_of_le b16 31 h16; clear h16
    obtain ⟨x17, b18, rfl, h18⟩ := cons_of_le b17 30 h17; clear h17
    obtain ⟨x18, b19, rfl, h19⟩ := cons_of_le b18 29 h18; clear h18
    obtain ⟨x19, b20, rfl, h20⟩ := cons_of_le b19 28 h19; clear h19
    obtain ⟨x20, b21, rfl, h21⟩ := cons_of_le b20 27 h20; clear h20
    obtain ⟨x21, b22, rfl, h22⟩ := cons_of_le b21 26 h21; clear h21
    obtain ⟨x22, b23, rfl, h23⟩ := cons_of_le b22 25 h22; clear h22
    obtain ⟨x23, b24, rfl, h24⟩ := cons_of_le b23 24 h23; clear h23
    obtain ⟨x24, b25, rfl, h25⟩ := cons_of_le b24 23 h24; clear h24
    obtain ⟨x25, b26, rfl, h26⟩ := cons_of_le b25 22 h25; clear h25
    obtain ⟨x26, b27, rfl, h27⟩ := cons_of_le b26 21 h26; clear h26
    obtain ⟨x27, b28, rfl, h28⟩ := cons_of_le b27 20 h27; clear h27
    obtain ⟨x28, b29, rfl, h29⟩ := cons_of_le b28 19 h28; clear h28
    obtain ⟨x29, b30, rfl, h30⟩ := cons_of_le b29 18 h29; clear h29
    obtain ⟨x30, b31, rfl, h31⟩ := cons_of_le b30 17 h30; clear h30
    obtain ⟨x31, b32, rfl, h32⟩ := cons_of_le b31 16 h31; clear h31
    obtain ⟨x32, b33, rfl, h33⟩ := cons_of_le b32 15 h32; clear h32
    obtain ⟨x33, b34, rfl, h34⟩ := cons_of_le b33 14 h33; clear h33
    obtain ⟨x34, b35, rfl, h35⟩ := cons_of_le b34 13 h34; clear h34
    obtain ⟨x35, b36, rfl, h36⟩ := cons_of_le b35 12 h35; clear h35
    obtain ⟨x36, b37, rfl, h37⟩ := cons_of_le b36 11 h36; clear h36
    obtain ⟨x37, b38, rfl, h38⟩ := cons_of_le b37 10 h37; clear h37
    obtain ⟨x38, b39, rfl, h39⟩ := cons_of_le b38 9 h38; clear h38
    obtain ⟨x39, b40, rfl, h40⟩ := cons_of_le b39 8 h39; clear h39
    obtain ⟨x40, b41, rfl, h41⟩ := cons_of_le b40 7 h40; clear h40
    obtain ⟨x41, b42, rfl, h42⟩ := cons_of_le b41 6 h41; clear h41
    obtain ⟨x42, b43, rfl, h43⟩ := cons_of_le b42 5 h42; clear h42
    obtain ⟨x43, b44, rfl, h44⟩ := cons_of_le b43 4 h43; clear h43
    obtain ⟨x44, b45, rfl, h45⟩ := cons_of_le b44 3 h44; clear h44
    obtain ⟨x45, b46, rfl, h46⟩ := cons_of_le b45 2 h45; clear h45
    obtain ⟨x46, b47, rfl, h47⟩ := cons_of_le b46 1 h46; clear h46
    obtain ⟨x47, b48, rfl, h48⟩ := cons_of_le b47 0 h47; clear h47
    simp only [Go.getK?, List.getElem?_cons_succ, List.getElem?_cons_zero, Option.bind, decView]
    simp only [pk, be16, be32, u8_i8, NtpPacket.layout, fieldsOf, List.map_cons, List.take_succ_cons, List.take_zero,
      List.drop_succ_cons, List.drop_zero, NtpPacket.ofFields, beVal_single]

/-! ### EncodePacket -/

theorem u8_b (x : UInt8) : x.toNat / 256 ^ 0 % 256 = x.toNat := by
  have := x.toNat_lt; omega
theorem toU8_b (x : Int) : toU 8 x / 256 ^ 0 % 256 = toU 8 x := by
  have := toU_lt8 x; omega

/-- the first statement of `EncodePacket`: a fresh 48-byte slice when the capacity is too small,
    the caller's array resliced to 48 otherwise -/
theorem encode_prep (b : Go.Slice UInt8) (hcap : b.arr.length < 4611686018427387904) :
    ∃ b1 : Go.Slice UInt8,
      (if (decide ((Go.Slice.cap b) < (48 : Int64))) then
          let b : (Go.Slice UInt8) := (Go.Slice.make (0 : UInt8) 48 48 (Nat.le_refl _))
          some (b)
        else
          (Go.Slice.to? b (48 : Int64)).bind fun _s2 =>
          let b : (Go.Slice UInt8) := _s2
          some (b)) = some b1 ∧ b1.len = 48 ∧
      (48 ≤ b.arr.length → b1.arr = b.arr) ∧ (b.arr.length < 48 → b1.arr.length = 48) := by
  have hc := GoSlice.cap_toInt b hcap
  have h48 : (48 : Int64).toInt = 48 := by decide
  by_cases hlt : b.cap < 48
  · have : b.arr.length < 48 := by have := Int64.lt_iff_toInt_lt.mp hlt; omega
    rw [if_pos (by simpa using hlt)]
    exact ⟨_, rfl, rfl, by omega, fun _ => by simp [Go.Slice.make]⟩
  · have hge : 48 ≤ b.arr.length := by
      have : ¬ b.cap.toInt < (48 : Int64).toInt := fun h => hlt (Int64.lt_iff_toInt_lt.mpr h)
      omega
    rw [if_neg (by simpa using hlt)]
    obtain ⟨s', h1, h2, h3⟩ := GoSlice.to?_some b 48 48 h48 hge
    exact ⟨s', by rw [h1]; rfl, h3, fun _ => h2, by omega⟩

/-- the 48 bytes `EncodePacket` writes, in order (copied from the generated definition; the first
    step of the proof below checks by `rfl` that they are what it writes) -/
def encBytes (pkt : S_Packet) : List UInt8 :=
  [pkt.LVM,
      pkt.Stratum,
      ((pkt.Poll).toInt64.toUInt64.toUInt8),
      ((pkt.Precision).toInt64.toUInt64.toUInt8),
      (((pkt.RootDelay.Seconds >>> (8 : UInt16))).toUInt64.toUInt8),
      ((pkt.RootDelay.Seconds).toUInt64.toUInt8),
      (((pkt.RootDelay.Fraction >>> (8 : UInt16))).toUInt64.toUInt8),
      ((pkt.RootDelay.Fraction).toUInt64.toUInt8),
      (((pkt.RootDispersion.Seconds >>> (8 : UInt16))).toUInt64.toUInt8),
      ((pkt.RootDispersion.Seconds).toUInt64.toUInt8),
      (((pkt.RootDispersion.Fraction >>> (8 : UInt16))).toUInt64.toUInt8),
      ((pkt.RootDispersion.Fraction).toUInt64.toUInt8),
      (((pkt.ReferenceID >>> (24 : UInt32))).toUInt64.toUInt8),
      (((pkt.ReferenceID >>> (16 : UInt32))).toUInt64.toUInt8),
      (((pkt.ReferenceID >>> (8 : UInt32))).toUInt64.toUInt8),
      ((pkt.ReferenceID).toUInt64.toUInt8),
      (((pkt.ReferenceTime.Seconds >>> (24 : UInt32))).toUInt64.toUInt8),
      (((pkt.ReferenceTime.Seconds >>> (16 : UInt32))).toUInt64.toUInt8),
      (((pkt.ReferenceTime.Seconds >>> (8 : UInt32))).toUInt64.toUInt8),
      ((pkt.ReferenceTime.Seconds).toUInt64.toUInt8),
      (((pkt.ReferenceTime.Fraction >>> (24 : UInt32))).toUInt64.toUInt8),
      (((pkt.ReferenceTime.Fraction >>> (16 : UInt32))).toUInt64.toUInt8),
      (((pkt.ReferenceTime.Fraction >>> (8 : UInt32))).toUInt64.toUInt8),
      ((pkt.ReferenceTime.Fraction).toUInt64.toUInt8),
      (((pkt.OriginTime.Seconds >>> (24 : UInt32))).toUInt64.toUInt8),
      (((pkt.OriginTime.Seconds >>> (16 : UInt32))).toUInt64.toUInt8),
      (((pkt.OriginTime.Seconds >>> (8 : UInt32))).toUInt64.toUInt8),
      ((pkt.OriginTime.Seconds).toUInt64.toUInt8),
      (((pkt.OriginTime.Fraction >>> (24 : UInt32))).toUInt64.toUInt8),
      (((pkt.OriginTime.Fraction >>> (16 : UInt32))).toUInt64.toUInt8),
      (((pkt.OriginTime.Fraction >>> (8 : UInt32))).toUInt64.toUInt8),
      ((pkt.OriginTime.Fraction).toUInt64.toUInt8),
      (((pkt.ReceiveTime.Seconds >>> (24 : UInt32))).toUInt64.toUInt8),
      (((pkt.ReceiveTime.Seconds >>> (16 : UInt32))).toUInt64.toUInt8),
      (((pkt.ReceiveTime.Seconds >>> (8 : UInt32))).toUInt64.toUInt8),
      ((pkt.ReceiveTime.Seconds).toUInt64.toUInt8),
      (((pkt.ReceiveTime.Fraction >>> (24 : UInt32))).toUInt64.toUInt8),
      (((pkt.ReceiveTime.Fraction >>> (16 : UInt32))).toUInt64.toUInt8),
      (((pkt.ReceiveTime.Fraction >>> (8 : UInt32))).toUInt64.toUInt8),
      ((pkt.ReceiveTime.Fraction).toUInt64.toUInt8),
      (((pkt.TransmitTime.Seconds >>> (24 : UInt32))).toUInt64.toUInt8),
      (((pkt.TransmitTime.Seconds >>> (16 : UInt32))).toUInt64.toUInt8),
      (((pkt.TransmitTime.Seconds >>> (8 : UInt32))).toUInt64.toUInt8),
      ((pkt.TransmitTime.Seconds).toUInt64.toUInt8),
      (((pkt.TransmitTime.Fraction >>> (24 : UInt32))).toUInt64.toUInt8),
      (((pkt.TransmitTime.Fraction >>> (16 : UInt32))).toUInt64.toUInt8),
      (((pkt.TransmitTime.Fraction >>> (8 : UInt32))).toUInt64.toUInt8),
      ((pkt.TransmitTime.Fraction).toUInt64.toUInt8)]

theorem encBytes_eq (pkt : S_Packet) : bytesN (encBytes pkt) = NtpPacket.encodePacket (pk pkt) := by
  simp only [encBytes, bytesN, List.map_cons, List.map_nil,
    NtpPacket.encodePacket, NtpPacket.layout, NtpPacket.toFields, encodeFields, beBytes, pk, List.cons_append,
    List.nil_append, List.append_nil, u16_b1, u32_b3, u32_b2, u32_b1, i8_b, u8_b, toU8_b]
  simp only [u16_b0, u32_b0]

/-- **EncodePacket** leaves `*b` with exactly the 48 header bytes of the model's `encodePacket`,
    whatever `*b` was: in the caller's array when its capacity suffices (the bytes beyond 48 are
    untouched), in a fresh one otherwise. It never panics. -/
theorem C14_leaf_EncodePacket (b : Go.Slice UInt8) (pkt : S_Packet) (hcap : b.arr.length < 4611686018427387904) :
    ∃ b' : Go.Slice UInt8, ntp_EncodePacket b pkt = some b' ∧ b'.len = 48 ∧
      bytesN b'.live = NtpPacket.encodePacket (pk pkt) ∧
      (48 ≤ b.arr.length → b'.arr.drop 48 = b.arr.drop 48) ∧ (b.arr.length < 48 → b'.arr.length = 48) := by
  obtain ⟨b1, hprep, hlen, hsame, hfresh⟩ := encode_prep b hcap
  have hshape : ntp_EncodePacket b pkt =
      ((if (decide ((Go.Slice.cap b) < (48 : Int64))) then
          let b : (Go.Slice UInt8) := (Go.Slice.make (0 : UInt8) 48 48 (Nat.le_refl _))
          some (b)
        else
          (Go.Slice.to? b (48 : Int64)).bind fun _s2 =>
          let b : (Go.Slice UInt8) := _s2
          some (b)).bind fun b => (Go.Slice.getK? b 47).bind fun _ => GoSlice.writeSeq b 0 (encBytes pkt)) := rfl
  rw [hshape, hprep]
  simp only [Option.bind_some]
  have hok := b1.ok
  have hget : ∃ x, Go.Slice.getK? b1 47 = some x := by
    unfold Go.Slice.getK?
    rw [if_pos (by omega)]
    exact ⟨b1.arr[47]'(by omega), List.getElem?_eq_getElem _⟩
  obtain ⟨x47, hx⟩ := hget
  rw [hx]
  simp only [Option.bind_some]
  have hl : (encBytes pkt).length = 48 := rfl
  obtain ⟨b', hw, hwl, hwa⟩ := GoSlice.writeSeq_some (encBytes pkt) b1 0 (by rw [hl]; omega)
  refine ⟨b', hw, by omega, ?_, ?_, ?_⟩
  · rw [← encBytes_eq]
    congr 1
    simp only [Go.Slice.live, hwa, hwl, hlen, List.take_zero, List.nil_append, Nat.zero_add, hl]
    rw [List.take_append_of_le_length (by rw [hl]; exact Nat.le_refl _), ← hl, List.take_length]
  · intro h
    rw [hwa, hsame h]
    simp only [List.take_zero, List.nil_append, Nat.zero_add, hl]
    rw [List.drop_append_of_le_length (by rw [hl]; exact Nat.le_refl _), ← hl, List.drop_length, List.nil_append]
  · intro h
    have := hfresh h
    rw [hwa]
    simp only [List.take_zero, List.nil_append, Nat.zero_add, hl, List.length_append, List.length_drop]
    omega

/-- non-vacuity, through the generated definitions: a packet with distinct bytes in every field,
    encoded into a nil slice (fresh array) and into a 64-byte slice of length 3 (caller's array,
    resliced), decodes back to itself; a 47-byte input is refused with the size error; the setters
    panic on out-of-range arguments -/
def exPkt : S_Packet :=
  { LVM := 0x23, Stratum := 2, Poll := -6, Precision := -25, RootDelay := ⟨0x0102, 0x0304⟩, RootDispersion := ⟨0x0506, 0x0708⟩,
    ReferenceID := 0x090a0b0c, ReferenceTime := ⟨0x11121314, 0x15161718⟩, OriginTime := ⟨0x21222324, 0x25262728⟩,
    ReceiveTime := ⟨0x31323334, 0x35363738⟩, TransmitTime := ⟨0xf1f2f3f4, 0xf5f6f7f8⟩ }

def zeroPkt : S_Packet :=
  { LVM := 0, Stratum := 0, Poll := 0, Precision := 0, RootDelay := ⟨0, 0⟩, RootDispersion := ⟨0, 0⟩, ReferenceID := 0,
    ReferenceTime := ⟨0, 0⟩, OriginTime := ⟨0, 0⟩, ReceiveTime := ⟨0, 0⟩, TransmitTime := ⟨0, 0⟩ }

example : ((ntp_EncodePacket Go.Slice.nil exPkt).bind fun b => (ntp_DecodePacket zeroPkt b.live).map fun r => (pk r.1, r.2)) =
    some (pk exPkt, false) := by decide
example : ((ntp_EncodePacket (Go.Slice.make 7 3 64 (by decide)) exPkt).map fun b => (b.len, b.arr.length, b.arr.drop 48 |>.take 2)) =
    some (48, 64, [7, 7]) := by decide
example : (ntp_DecodePacket zeroPkt (List.replicate 47 1)).map (·.2) = some true := by decide
example : ntp_Packet_SetMode exPkt 8 = none ∧ (ntp_Packet_SetMode exPkt 4).map (·.LVM) = some 0x24 := by decide

end ScionTime.LeafTieC14
