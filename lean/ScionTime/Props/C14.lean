/-
  C14 — wire codecs are exact inverses (NTP header and CSPTP parts; the NTS extension-field,
  cookie and NTS-KE parts are in Props/C14Nts.lean and Props/C14Ntske.lean).
  Property theorems only; models: Model/NtpPacket.lean, Model/CsptpCodec.lean (both built on
  Model/WireFields.lean); generic lemmas: Proofs/WireFields.lean, Proofs/C14Codec.lean.
-/
import ScionTime.Proofs.C14Codec
import ScionTime.Gen.Ntp
import ScionTime.Gen.Csptp
namespace ScionTime.C14
open ScionTime.Wire

set_option maxRecDepth 20000

/-! ## NTP header (net/ntp/ntp.go) -/
section Ntp
open ScionTime.NtpPacket

theorem C14_pin_ntp_PacketLen : Gen.Ntp.PacketLen = (packetLen : Int) := by decide
theorem C14_pin_ntp_layoutLen : layoutLen layout = packetLen := by decide

/-- `EncodePacket` always leaves exactly 48 bytes, each a byte. -/
theorem C14_ntp_encode_length (p : Packet) : (encodePacket p).length = 48 :=
  ntp_encode_length p
theorem C14_ntp_encode_bytes (p : Packet) : AllBytes (encodePacket p) :=
  encodeFields_allBytes _ _

/-- decode ∘ encode = id: for every packet whose fields are in the range of their Go types,
    decoding its encoding (followed by any trailing data, e.g. NTS extension fields) returns
    exactly that packet. -/
theorem C14_ntp_decode_encode (p : Packet) (rest : List Nat) (h : p.Valid) :
    decodePacket (encodePacket p ++ rest) = .ok p :=
  ntp_decode_encode p rest h

/-- encode ∘ decode: every byte string of at least 48 bytes decodes, the decoded packet's
    fields are in range, and re-encoding it reproduces the first 48 bytes. -/
theorem C14_ntp_encode_decode (b : List Nat) (hlen : 48 ≤ b.length) (hb : AllBytes b) :
    ∃ p, decodePacket b = .ok p ∧ p.Valid ∧ encodePacket p = b.take 48 :=
  ntp_encode_decode b hlen hb

/-- Decoder totality (reused by C08): `DecodePacket` returns the size error exactly below 48
    bytes and a packet otherwise; it never panics. -/
theorem C14_ntp_decode_total (b : List Nat) :
    (b.length < 48 ∧ decodePacket b = .err "size") ∨
    (48 ≤ b.length ∧ ∃ p, decodePacket b = .ok p) :=
  ntp_decode_total b

theorem C14_ntp_decode_no_panic (b : List Nat) : (decodePacket b).isPanic = false := by
  rcases ntp_decode_total b with ⟨_, h⟩ | ⟨_, p, h⟩ <;> rw [h] <;> rfl

/-- The decoded LVM is the first byte, and the first encoded byte is the LVM. -/
theorem C14_ntp_lvm_is_first_byte (x : Nat) (t : List Nat) (p : Packet)
    (h : decodePacket (x :: t) = .ok p) : p.lvm = x :=
  ntp_decode_lvm x t p h
theorem C14_ntp_first_byte_is_lvm (p : Packet) : (encodePacket p).head? = some (p.lvm % 256) := by
  simp [encodePacket, layout, toFields, encodeFields, beBytes]

/-- Accessor laws: for all 256 first bytes the accessors are the three bit fields of the byte,
    and the byte is determined by them (complete table). -/
theorem C14_ntp_accessors : ∀ x < 256,
    leapIndicator x = x / 64 ∧ version x = x / 8 % 8 ∧ mode x = x % 8 ∧
    x = leapIndicator x * 64 + version x * 8 + mode x := by decide

/-- Setter guards: a setter panics exactly when its argument does not fit the field
    (complete table over uint8 arguments; the guard does not depend on the old LVM). -/
theorem C14_ntp_setter_guards (lvm : Nat) : ∀ a < 256,
    ((setLeapIndicator lvm a).isPanic = decide (3 < a)) ∧
    ((setVersion lvm a).isPanic = decide (7 < a)) ∧
    ((setMode lvm a).isPanic = decide (7 < a)) := by
  intro a ha
  have h : ∀ a < 256, (decide (a &&& 3 ≠ a) = decide (3 < a)) ∧
      (decide (a &&& 7 ≠ a) = decide (7 < a)) := by decide
  rw [← (h a ha).1, ← (h a ha).2]
  unfold setLeapIndicator setVersion setMode
  refine ⟨?_, ?_, ?_⟩ <;> (split <;> simp_all [Outcome.isPanic])

/-- Setter effects: within the guard a setter stores its argument in the addressed field and
    leaves the two other fields as they were (complete tables: 256 bytes × all admissible
    arguments). -/
theorem C14_ntp_setLeapIndicator : ∀ x < 256, ∀ l < 4,
    setLeapIndicator x l = .ok (l * 64 + x % 64) ∧ l * 64 + x % 64 < 256 ∧
    leapIndicator (l * 64 + x % 64) = l ∧ version (l * 64 + x % 64) = version x ∧
    mode (l * 64 + x % 64) = mode x := by
  decide
theorem C14_ntp_setVersion : ∀ x < 256, ∀ v < 8,
    setVersion x v = .ok (x / 64 * 64 + v * 8 + x % 8) ∧ x / 64 * 64 + v * 8 + x % 8 < 256 ∧
    version (x / 64 * 64 + v * 8 + x % 8) = v ∧
    leapIndicator (x / 64 * 64 + v * 8 + x % 8) = leapIndicator x ∧
    mode (x / 64 * 64 + v * 8 + x % 8) = mode x := by
  decide
theorem C14_ntp_setMode : ∀ x < 256, ∀ m < 8,
    setMode x m = .ok (x / 8 * 8 + m) ∧ x / 8 * 8 + m < 256 ∧
    mode (x / 8 * 8 + m) = m ∧ leapIndicator (x / 8 * 8 + m) = leapIndicator x ∧
    version (x / 8 * 8 + m) = version x := by
  decide

/-- Instance: the `Valid` hypothesis is met by extreme field values. -/
example : (⟨0x23, 0, -128, 127, ⟨65535, 0⟩, ⟨0, 65535⟩, 0xffffffff, ⟨0, 0⟩, ⟨1, 2⟩, ⟨3, 4⟩,
    ⟨0xffffffff, 0xffffffff⟩⟩ : Packet).Valid := by
  simp only [Packet.Valid]; omega

end Ntp

/-! ## CSPTP message header and TLVs (net/csptp/csptp.go) -/
section Csptp
open ScionTime.Csptp

theorem C14_pin_csptp_MinMessageLength : Gen.Csptp.MinMessageLength = (minMessageLength : Int) := by
  decide
theorem C14_pin_csptp_msgLayoutLen : layoutLen msgLayout = minMessageLength := by decide
theorem C14_pin_csptp_MaxEncodedRequestTLVLength :
    Gen.Csptp.MaxEncodedRequestTLVLength = (tlvLongLen : Int) := by decide
theorem C14_pin_csptp_MaxEncodedResponseTLVLength :
    Gen.Csptp.MaxEncodedResponseTLVLength = (tlvLongLen : Int) := by decide
theorem C14_pin_csptp_TLVFlagServerStateDS : Gen.Csptp.TLVFlagServerStateDS = 1 := by decide
theorem C14_pin_csptp_MaxMessageLength :
    Gen.Csptp.MaxMessageLength = (minMessageLength + tlvLongLen : Nat) := by decide
theorem C14_pin_csptp_layouts :
    layoutLen tlvHeadLayout = tlvHeadLen ∧ tlvHeadLen + layoutLen respBodyLayout = tlvShortLen ∧
    tlvShortLen + layoutLen dsLayout = tlvLongLen := by decide

/-- The declared length of a TLV is 36 bytes, or 54 when bit 0 (ServerStateDS) of the flag
    field is set — nothing else of the flag field matters. -/
theorem C14_csptp_tlv_length (f : Nat) :
    encodedTLVLength f = if f % 2 = 1 then 54 else 36 := by
  unfold encodedTLVLength hasServerStateDS tlvShortLen
  have : f &&& 1 = f % 2 := Nat.and_one_is_mod f
  rw [this]
  by_cases h : f % 2 = 1 <;> simp [h]

/-- Message: decode ∘ encode.  Encoding a message whose fields are in range into any buffer of
    at least 44 bytes succeeds, overwrites exactly the first 44 bytes, and decodes to the same
    message. -/
theorem C14_csptp_msg_decode_encode (buf : List Nat) (m : Message) (h : m.Valid)
    (hb : 44 ≤ buf.length) :
    encodeMessage buf m = .ok (messageBytes m ++ buf.drop 44) ∧ (messageBytes m).length = 44 ∧
    decodeMessage (messageBytes m ++ buf.drop 44) = .ok m :=
  ⟨msg_encode_ok buf m hb, msg_bytes_length m, msg_decode_bytes m _ h⟩

/-- Message: encode ∘ decode.  Every byte string of at least 44 bytes decodes to a message with
    fields in range whose encoding is its first 44 bytes; re-encoding in place reproduces the
    byte string. -/
theorem C14_csptp_msg_encode_decode (b : List Nat) (hlen : 44 ≤ b.length) (hb : AllBytes b) :
    ∃ m, decodeMessage b = .ok m ∧ m.Valid ∧ messageBytes m = b.take 44 ∧
      encodeMessage b m = .ok b :=
  msg_encode_decode b hlen hb

/-- Message decoder totality (reused by C08): size error exactly below 44 bytes, never a panic. -/
theorem C14_csptp_msg_decode_total (b : List Nat) :
    (b.length < 44 ∧ decodeMessage b = .err "size") ∨ (44 ≤ b.length ∧ ∃ m, decodeMessage b = .ok m) := by
  rcases msg_decode_total b with h | ⟨h1, h2⟩
  · exact .inl h
  · exact .inr ⟨h1, _, h2⟩

/-- The in-place encoder panics (index out of range) exactly on buffers shorter than 44 bytes. -/
theorem C14_csptp_msg_encode_guard (buf : List Nat) (m : Message) :
    (encodeMessage buf m).isPanic = decide (buf.length < 44) := by
  by_cases h : buf.length < 44
  · rw [msg_encode_short buf m h]; simp [Outcome.isPanic, h]
  · rw [msg_encode_ok buf m (by omega)]; simp [Outcome.isPanic, h]

/-- Request TLV: decode ∘ encode at the declared length (36 or 54). -/
theorem C14_csptp_req_decode_encode (buf : List Nat) (t : RequestTLV) (h : t.Valid)
    (hb : encodedTLVLength t.flagField ≤ buf.length) :
    encodeRequestTLV buf t = .ok (requestTLVBytes t ++ buf.drop (encodedTLVLength t.flagField)) ∧
    (requestTLVBytes t).length = encodedTLVLength t.flagField ∧
    decodeRequestTLV (requestTLVBytes t ++ buf.drop (encodedTLVLength t.flagField)) = .ok t :=
  ⟨req_encode_ok buf t hb, req_bytes_length t, req_decode_bytes t _ h⟩

/-- Request TLV: encode ∘ decode.  A decoded request TLV has fields in range, the input holds
    at least the declared length, and its encoding is the input's first 14 bytes followed by
    zero padding up to the declared length (the decoder does not inspect the padding, the
    encoder always writes zeros). -/
theorem C14_csptp_req_encode_decode (b : List Nat) (t : RequestTLV) (hb : AllBytes b)
    (hd : decodeRequestTLV b = .ok t) :
    t.Valid ∧ encodedTLVLength t.flagField ≤ b.length ∧
    requestTLVBytes t = b.take 14 ++ zeros (encodedTLVLength t.flagField - 14) :=
  req_encode_decode b t hb hd

/-- … hence re-encoding reproduces the bytes whenever the padding was zero. -/
theorem C14_csptp_req_reencode (b : List Nat) (t : RequestTLV) (hb : AllBytes b)
    (hd : decodeRequestTLV b = .ok t)
    (hpad : b.take (encodedTLVLength t.flagField) = b.take 14 ++ zeros (encodedTLVLength t.flagField - 14)) :
    encodeRequestTLV b t = .ok b := by
  obtain ⟨_, hl, he⟩ := req_encode_decode b t hb hd
  rw [req_encode_ok b t hl, he, ← hpad, List.take_append_drop]

/-- Request TLV decoder totality: an error or a value, never a panic; it succeeds exactly when
    at least 14 bytes are present and at least as many as the flag field in bytes 10..13
    declares. -/
theorem C14_csptp_req_decode_total (b : List Nat) :
    decodeRequestTLV b = .err "size" ∨ ∃ t, decodeRequestTLV b = .ok t ∧ 14 ≤ b.length ∧
      encodedTLVLength t.flagField ≤ b.length := by
  rw [req_decode_eq]
  split
  · exact .inl rfl
  · split
    · exact .inl rfl
    · exact .inr ⟨_, rfl, by omega, by omega⟩

/-- Encoder guards of both TLVs: index panic exactly below the declared length. -/
theorem C14_csptp_req_encode_guard (buf : List Nat) (t : RequestTLV) :
    (encodeRequestTLV buf t).isPanic = decide (buf.length < encodedTLVLength t.flagField) := by
  by_cases h : buf.length < encodedTLVLength t.flagField
  · rw [req_encode_short buf t h]; simp [Outcome.isPanic, h]
  · rw [req_encode_ok buf t (by omega)]; simp [Outcome.isPanic, h]
theorem C14_csptp_resp_encode_guard (buf : List Nat) (t : ResponseTLV) :
    (encodeResponseTLV buf t).isPanic = decide (buf.length < encodedTLVLength t.flagField) := by
  by_cases h : buf.length < encodedTLVLength t.flagField
  · rw [resp_encode_short buf t h]; simp [Outcome.isPanic, h]
  · rw [resp_encode_ok buf t (by omega)]; simp [Outcome.isPanic, h]

/-- Response TLV: decode ∘ encode at the declared length.  The result is the TLV itself when
    the ServerStateDS flag is set or the ServerStateDS is all zero; without the flag a non-zero
    ServerStateDS is not transmitted and decodes as zero (`normalize`). -/
theorem C14_csptp_resp_decode_encode (buf : List Nat) (t : ResponseTLV) (h : t.Valid)
    (hb : encodedTLVLength t.flagField ≤ buf.length) :
    encodeResponseTLV buf t = .ok (responseTLVBytes t ++ buf.drop (encodedTLVLength t.flagField)) ∧
    (responseTLVBytes t).length = encodedTLVLength t.flagField ∧
    decodeResponseTLV (responseTLVBytes t ++ buf.drop (encodedTLVLength t.flagField)) = .ok t.normalize :=
  ⟨resp_encode_ok buf t hb, resp_bytes_length t, resp_decode_bytes t _ h⟩

theorem C14_csptp_resp_normalize (t : ResponseTLV)
    (h : hasServerStateDS t.flagField = true ∨ t.serverStateDS = zeroDS) : t.normalize = t := by
  unfold ResponseTLV.normalize
  rcases h with h | h
  · rw [if_pos h]
  · split
    · rfl
    · cases t; simp only at h; simp [h]

/-- Response TLV: encode ∘ decode.  A decoded response TLV has fields in range, is already
    normalised, and re-encoding reproduces exactly the declared-length prefix of the input. -/
theorem C14_csptp_resp_encode_decode (b : List Nat) (t : ResponseTLV) (hb : AllBytes b)
    (hd : decodeResponseTLV b = .ok t) :
    t.Valid ∧ encodedTLVLength t.flagField ≤ b.length ∧
    responseTLVBytes t = b.take (encodedTLVLength t.flagField) ∧ t.normalize = t ∧
    encodeResponseTLV b t = .ok b := by
  obtain ⟨h1, h2, h3, h4⟩ := resp_encode_decode b t hb hd
  refine ⟨h1, h2, h3, h4, ?_⟩
  rw [resp_encode_ok b t h2, h3, List.take_append_drop]

/-- Response TLV decoder totality (reused by C08). -/
theorem C14_csptp_resp_decode_total (b : List Nat) :
    decodeResponseTLV b = .err "size" ∨ ∃ t, decodeResponseTLV b = .ok t ∧ 14 ≤ b.length ∧
      encodedTLVLength t.flagField ≤ b.length := by
  rw [resp_decode_eq]
  split
  · exact .inl rfl
  · split
    · exact .inl rfl
    · rename_i h1 h2
      refine .inr ⟨_, rfl, by omega, ?_⟩
      rw [resp_decoded_flag b]; omega

/-- The three CSPTP decoders never panic, whatever the input (form used by C08). -/
theorem C14_csptp_decode_no_panic (b : List Nat) :
    (decodeMessage b).isPanic = false ∧ (decodeRequestTLV b).isPanic = false ∧
    (decodeResponseTLV b).isPanic = false := by
  refine ⟨?_, ?_, ?_⟩
  · rcases C14_csptp_msg_decode_total b with ⟨_, h⟩ | ⟨_, m, h⟩ <;> rw [h] <;> rfl
  · rcases C14_csptp_req_decode_total b with h | ⟨t, h, _⟩ <;> rw [h] <;> rfl
  · rcases C14_csptp_resp_decode_total b with h | ⟨t, h, _⟩ <;> rw [h] <;> rfl

/-- Instances: the `Valid` hypotheses of the round trips are met by the protocol's own values. -/
example : (⟨0, 0x12, 98, 0, 0, 0x0600, -1, 0, 0xffffffffffffffff, 1, 65535, 0, 0x7f,
    ⟨281474976710655, 999999999⟩⟩ : Message).Valid := by
  simp only [Message.Valid]; omega
example : (⟨3, 50, 0xec4670, 0x526571, 1⟩ : RequestTLV).Valid := by
  simp only [RequestTLV.Valid]; omega
example : (⟨3, 50, 0xec4670, 0x526573, 1, 1, ⟨1, 2⟩, -5, -37, ⟨1, 2, 3, 4, 5, 6, 7, 8, 9⟩⟩ :
    ResponseTLV).Valid := by
  simp only [ResponseTLV.Valid, ServerStateDS.Valid]; omega

end Csptp

end ScionTime.C14
