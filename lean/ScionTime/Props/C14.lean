/-
  C14 — wire codecs are exact inverses (NTP header and CSPTP parts; the NTS extension-field,
  cookie and NTS-KE parts are in Props/C14Nts.lean and Props/C14Ntske.lean).
  Property theorems only; models: Model/NtpPacket.lean, Model/CsptpCodec.lean (both built on
  Model/WireFields.lean); generic lemmas: Proofs/WireFields.lean, Proofs/C14Codec.lean.
-/
import ScionTime.Proofs.C14Codec
import ScionTime.Gen.Ntp
import ScionTime.Gen.Csptp
namespace ScionTime.C14
open ScionTime.Wire

set_option maxRecDepth 20000

/-! ## NTP header (net/ntp/ntp.go) -/
section Ntp
open ScionTime.NtpPacket

theorem C14_pin_ntp_PacketLen : Gen.Ntp.PacketLen = (packetLen : Int) := by decide
theorem C14_pin_ntp_layoutLen : layoutLen layout = packetLen := by decide

/-- `EncodePacket` always leaves exactly 48 bytes, each a byte. -/
theorem C14_ntp_encode_length (p : Packet) : (encodePacket p).length = 48 :=
  ntp_encode_length p
theorem C14_ntp_encode_bytes (p : Packet) : AllBytes (encodePacket p) :=
  encodeFields_allBytes _ _

/-- decode ∘ encode = id: for every packet whose fields are in the range of their Go types,
    decoding its encoding (followed by any trailing data, e.g. NTS extension fields) returns
    exactly that packet. -/
theorem C14_ntp_decode_encode (p : Packet) (rest : List Nat) (h : p.Valid) :
    decodePacket (encodePacket p ++ rest) = .ok p :=
  ntp_decode_encode p rest h

/-- encode ∘ decode: every byte string of at least 48 bytes decodes, the decoded packet's
    fields are in range, and re-encoding it reproduces the first 48 bytes. -/
theorem C14_ntp_encode_decode (b : List Nat) (hlen : 48 ≤ b.length) (hb : AllBytes b) :
    ∃ p, decodePacket b = .ok p ∧ p.Valid ∧ encodePacket p = b.take 48 :=
  ntp_encode_decode b hlen hb

/-- Decoder totality (reused by C08): `DecodePacket` returns the size error exactly below 48
    bytes and a packet otherwise; it never panics. -/
theorem C14_ntp_decode_total (b : List Nat) :
    (b.length < 48 ∧ decodePacket b = .err "size") ∨
    (48 ≤ b.length ∧ ∃ p, decodePacket b = .ok p) :=
  ntp_decode_total b

theorem C14_ntp_decode_no_panic (b : List Nat) : (decodePacket b).isPanic = false := by
  rcases ntp_decode_total b with ⟨_, h⟩ | ⟨_, p, h⟩ <;> rw [h] <;> rfl

/-- The decoded LVM is the first byte, and the first encoded byte is the LVM. -/
theorem C14_ntp_lvm_is_first_byte (x : Nat) (t : List Nat) (p : Packet)
    (h : decodePacket (x :: t) = .ok p) : p.lvm = x :=
  ntp_decode_lvm x t p h
theorem C14_ntp_first_byte_is_lvm (p : Packet) : (encodePacket p).head? = some (p.lvm % 256) := by
  simp [encodePacket, layout, toFields, encodeFields, beBytes]

/-- Accessor laws: for all 256 first bytes the accessors are the three bit fields of the byte,
    and the byte is determined by them (complete table). -/
theorem C14_ntp_accessors : ∀ x < 256,
    leapIndicator x = x / 64 ∧ version x = x / 8 % 8 ∧ mode x = x % 8 ∧
    x = leapIndicator x * 64 + version x * 8 + mode x := by decide

/-- Setter guards: a setter panics exactly when its argument does not fit the field
    (complete table over uint8 arguments; the guard does not depend on the old LVM). -/
theorem C14_ntp_setter_guards (lvm : Nat) : ∀ a < 256,
    ((setLeapIndicator lvm a).isPanic = decide (3 < a)) ∧
    ((setVersion lvm a).isPanic = decide (7 < a)) ∧
    ((setMode lvm a).isPanic = decide (7 < a)) := by
  intro a ha
  have h : ∀ a < 256, (decide (a &&& 3 ≠ a) = decide (3 < a)) ∧
      (decide (a &&& 7 ≠ a) = decide (7 < a)) := by decide
  rw [← (h a ha).1, ← (h a ha).2]
  unfold setLeapIndicator setVersion setMode
  refine ⟨?_, ?_, ?_⟩ <;> (split <;> simp_all [Outcome.isPanic])

/-- Setter effects: within the guard a setter stores its argument in the addressed field and
    leaves the two other fields as they were (complete tables: 256 bytes × all admissible
    arguments). -/
theorem C14_ntp_setLeapIndicator : ∀ x < 256, ∀ l < 4,
    setLeapIndicator x l = .ok (l * 64 + x % 64) ∧ l * 64 + x % 64 < 256 ∧
    leapIndicator (l * 64 + x % 64) = l ∧ version (l * 64 + x % 64) = version x ∧
    mode (l * 64 + x % 64) = mode x := by
  decide
theorem C14_ntp_setVersion : ∀ x < 256, ∀ v < 8,
    setVersion x v = .ok (x / 64 * 64 + v * 8 + x % 8) ∧ x / 64 * 64 + v * 8 + x % 8 < 256 ∧
    version (x / 64 * 64 + v * 8 + x % 8) = v ∧
    leapIndicator (x / 64 * 64 + v * 8 + x % 8) = leapIndicator x ∧
    mode (x / 64 * 64 + v * 8 + x % 8) = mode x := by
  decide
theorem C14_ntp_setMode : ∀ x < 256, ∀ m < 8,
    setMode x m = .ok (x / 8 * 8 + m) ∧ x / 8 * 8 + m < 256 ∧
    mode (x / 8 * 8 + m) = m ∧ leapIndicator (x / 8 * 8 + m) = leapIndicator x ∧
    version (x / 8 * 8 + m) = version x := by
  decide

end Ntp

end ScionTime.C14
