import ScionTime.Model.Pll
namespace ScionTime.Props.C19
open ScionTime.F64 ScionTime.Pll

theorem C19_placeholder : inv minI64 = maxI64 := by decide

end ScionTime.Props.C19
