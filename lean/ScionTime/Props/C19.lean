/-
  Props/C19.lean — PLL clock discipline (core/sync/adjustments/pll.go, `Pll.Do`):
  bounded slew, no step once tracking, sane actuation, restart on a new clock epoch.

  Model: Model/Pll.lean (`step` = one `Do` call, `trace`/`run` = a history of calls).
  Helper lemmas: Proofs/C19.lean; rounding lemmas: Proofs/F64.lean.

  Conventions. `s` is the controller state before the update, `e`/`now` are what
  `l.clk.Epoch()`/`l.clk.Now()` return during it, `off`/`w` the arguments, `pw` the value
  `math.Pow(0.999, dt)` returned (an input of the model; assumption `0 ≤ pw ≤ 1`, written
  `Bd 1 pw`: finite, non-negative, at most 1).  The per-update theorems hold for EVERY
  state `s` (not only reachable ones) unless a hypothesis says otherwise, hence for every
  update of every history; the history theorems quantify over all lists of inputs.
-/
import ScionTime.Proofs.C19
import ScionTime.Gen.Adjustments
namespace ScionTime.Props.C19
open ScionTime.F64 ScionTime.Pll

/-! ## 1. The mode machine -/

/-- One update keeps the mode in 0..3 and does not reach the `default` branch. -/
theorem C19_mode_step (s : State) (e : Nat) (now off : Int) (w pw : F64) (h : s.mode ≤ 3) :
    ((step s e now off w pw).next s).mode ≤ 3 ∧ step s e now off w pw ≠ .panic .mode := by
  have hm3 : (syncEpoch s e).mode ≤ 3 := by
    rcases syncEpoch_cases s e with ⟨_, h'⟩ | ⟨_, h'⟩ <;> rw [h'] <;> simp [h]
  have hspec := step_spec s e now off w pw
  simp only at hspec
  rcases hspec with ⟨_, hr⟩ | ⟨_, _, hr⟩ | ⟨_, _, _, _, hr⟩ | ⟨_, _, _, _, hr⟩ | ⟨hm, _, _, hr⟩ |
      ⟨_, _, hr⟩ | ⟨_, _, _, hr⟩ | ⟨hm, _, _, hr⟩ | ⟨_, _, hr⟩ | ⟨_, _, _, hr⟩ | ⟨hm, _, _, hr⟩ | ⟨hm, _⟩
  all_goals try (rw [hr]; simp [Outcome.next, h]; done)
  · rw [hr]; simp [Outcome.next, hm]
  · rw [hr]; simp [Outcome.next, hm]
  · obtain ⟨s', acts, ht, hmode, _⟩ := track_ok (syncEpoch s e) now (timeSub now (syncEpoch s e).t0)
      (durationSeconds (timeSub now (syncEpoch s e).t)) (inv off) w pw
    rw [hr, ht]; simp [Outcome.next, hmode, hm]
  · omega

/-- Mode invariant: in every history (any readings, any epochs, any floats) every update starts
    with `mode ∈ {0,1,2,3}`, so `panic("unexpected PLL mode")` is unreachable. -/
theorem C19_mode_invariant (xs : List Input) :
    (∀ τ ∈ trace init xs, τ.1.mode ≤ 3 ∧ τ.2.2 ≠ .panic .mode) ∧ (final init xs).mode ≤ 3 := by
  have h := trace_inv (P := fun s => s.mode ≤ 3)
    (fun s x hs => (C19_mode_step s x.clkEpoch x.now x.offset x.weight x.pow hs).1)
    (s := init) (by decide) xs
  refine ⟨fun τ hτ => ⟨h.1 τ hτ, ?_⟩, h.2⟩
  rw [trace_step hτ]
  exact (C19_mode_step τ.1 _ _ _ _ _ (h.1 τ hτ)).2

/-- The transitions: within an epoch the mode never decreases and rises by at most one per
    update; 1→2 needs more than 2 s since the start of the epoch and weight > 3; 2→3 needs
    more than 6 s since the step phase ended; 3 stays 3. -/
theorem C19_mode_transitions {s s' : State} {e : Nat} {now off : Int} {w pw : F64}
    {acts : List Action} (he : e = s.epoch) (h : step s e now off w pw = .ok s' acts) :
    s'.epoch = e ∧
    (s.mode = 0 → s'.mode = 1 ∧ s'.t0 = now) ∧
    (s.mode = 1 → (s'.mode = 2 ∧ s'.t0 = now ∧ timeSub now s.t0 > 2000000000 ∧ gt w (ofInt 3) = true)
                  ∨ (s'.mode = 1 ∧ s'.t0 = s.t0 ∧ ¬ (timeSub now s.t0 > 2000000000 ∧ gt w (ofInt 3) = true))) ∧
    (s.mode = 2 → (s'.mode = 3 ∧ s'.t0 = now ∧ timeSub now s.t0 > 6000000000)
                  ∨ (s'.mode = 2 ∧ s'.t0 = s.t0 ∧ ¬ timeSub now s.t0 > 6000000000)) ∧
    (s.mode = 3 → s'.mode = 3 ∧ s'.t0 = s.t0) := by
  have hs : syncEpoch s e = s := by
    rcases syncEpoch_cases s e with ⟨h', _⟩ | ⟨_, h'⟩
    · exact absurd he.symm h'
    · exact h'
  have hspec := step_spec s e now off w pw
  simp only at hspec
  rw [hs, h] at hspec
  have e3 : ofInt 3 = wStep := by decide +kernel
  rw [e3]
  rcases hspec with ⟨hm, hr⟩ | ⟨_, _, hr⟩ | ⟨hm, _, hc, _, hr⟩ | ⟨hm, _, hc, _, hr⟩ | ⟨hm, _, hc, hr⟩ |
      ⟨_, _, hr⟩ | ⟨hm, _, hc, hr⟩ | ⟨hm, _, hc, hr⟩ | ⟨_, _, hr⟩ | ⟨_, _, _, hr⟩ | ⟨hm, _, _, hr⟩ | ⟨_, hr⟩
  · injection hr with hs' _; subst hs'; simp [hm, he]
  · exact Outcome.noConfusion hr
  · injection hr with hs' _; subst hs'
    simp only [stepWait, second] at hc; simp [hm, he]; exact hc
  · injection hr with hs' _; subst hs'
    simp only [stepWait, second] at hc; simp [hm, he]; exact hc
  · injection hr with hs' _; subst hs'
    simp only [stepWait, second] at hc; simp [hm, he]; intro h1; cases hg : gt w wStep with
    | false => rfl
    | true => exact absurd ⟨h1, hg⟩ hc
  · exact Outcome.noConfusion hr
  · injection hr with hs' _; subst hs'
    simp only [pllWait, second] at hc; simp [hm, he]; exact hc
  · injection hr with hs' _; subst hs'
    simp only [pllWait, second] at hc; simp [hm, he]; omega
  · exact Outcome.noConfusion hr
  · exact Outcome.noConfusion hr
  · obtain ⟨s'', acts', ht, hmode, hepo, ht0, _⟩ := track_ok s now (timeSub now s.t0)
      (durationSeconds (timeSub now s.t)) (inv off) w pw
    rw [ht] at hr
    injection hr with hs' _
    subst hs'
    simp [hm, hmode, hepo, ht0, he]
  · exact Outcome.noConfusion hr

/-! ## 2. `panic("unexpected clock behavior")` is unreachable with monotone readings -/

/-- For all histories whose clock readings do not decrease between consecutive updates of the
    same clock epoch: no update panics. -/
theorem C19_no_panic_monotone (xs : List Input) (h : NonDecreasingInEpoch xs) :
    ∀ o ∈ run init xs, ∃ s' acts, o = .ok s' acts := by
  intro o ho
  rw [run_eq_trace, List.mem_map] at ho
  obtain ⟨τ, hτ, rfl⟩ := ho
  exact (trace_safe inv_init (by intro x _ _ h0; exact absurd rfl h0) h τ hτ).2.2

/-- The same for globally non-decreasing readings (the quantifier of the property). -/
theorem C19_no_panic_nondecreasing (xs : List Input) (h : NonDecreasing xs) :
    ∀ o ∈ run init xs, ∃ s' acts, o = .ok s' acts :=
  C19_no_panic_monotone xs h.inEpoch

/-- The hypothesis is needed: a reading one nanosecond before the previous one panics. -/
example : run init [⟨0, 5, 0, fzero, fzero⟩, ⟨0, 4, 0, fzero, fzero⟩]
    = [.ok { init with mode := 1, t0 := 5, t := 5 } [], .panic .clock] := by decide +kernel

/-! ## 3. Step: only while awaiting the initial step, by exactly the measured offset -/

/-- A `Step` is made only in mode 1 of the current epoch, more than 2 s after the epoch's first
    update (`s.t0`), with weight > 3 and |offset| > 1 ms; it is the only call of that update,
    moves the controller to mode 2, and its argument is the measured offset — except for
    `MinInt64`, which `Inv∘Inv` turns into `MinInt64 + 1`. -/
theorem C19_step_only_when {s s' : State} {e : Nat} {now off : Int} {w pw : F64}
    {acts : List Action} {x : Int} (hoff : minI64 ≤ off ∧ off ≤ maxI64)
    (h : step s e now off w pw = .ok s' acts) (hx : Action.step x ∈ acts) :
    e = s.epoch ∧ s.mode = 1 ∧ timeSub now s.t0 > 2000000000 ∧ gt w (ofInt 3) = true ∧
    (off > 1000000 ∨ off < -1000000) ∧
    x = (if off = minI64 then minI64 + 1 else off) ∧ s'.mode = 2 ∧ acts = [.step x] := by
  have h0 : (syncEpoch s e).mode ≠ 0 → syncEpoch s e = s ∧ e = s.epoch := by
    rcases syncEpoch_cases s e with ⟨h', h⟩ | ⟨h', h⟩ <;> rw [h] <;> simp [h']
  have hspec := step_spec s e now off w pw
  simp only at hspec
  rw [h] at hspec
  have e3 : ofInt 3 = wStep := by decide +kernel
  rcases hspec with ⟨_, hr⟩ | ⟨_, _, hr⟩ | ⟨hm, _, hc, ha, hr⟩ | ⟨_, _, _, _, hr⟩ | ⟨_, _, _, hr⟩ |
      ⟨_, _, hr⟩ | ⟨_, _, _, hr⟩ | ⟨_, _, _, hr⟩ | ⟨_, _, hr⟩ | ⟨_, _, _, hr⟩ | ⟨hm, _, _, hr⟩ | ⟨_, hr⟩
  all_goals try (exact Outcome.noConfusion hr)
  all_goals try (injection hr with _ hacts; rw [hacts] at hx; simp at hx; done)
  · obtain ⟨hs, he⟩ := h0 (by omega)
    injection hr with hs' hacts
    rw [hacts] at hx
    simp only [List.mem_singleton] at hx
    injection hx with hx
    rw [hs] at hm hc
    refine ⟨he, hm, by simpa [stepWait, second] using hc.1, by rw [e3]; exact hc.2,
      (durAbs_inv hoff).mp ha, by rw [hx, inv_inv hoff], by rw [hs'], by rw [hacts, hx]⟩
  · obtain ⟨s'', acts', ht, _, _, _, _, hns⟩ := track_ok (syncEpoch s e) now
      (timeSub now (syncEpoch s e).t0) (durationSeconds (timeSub now (syncEpoch s e).t)) (inv off) w pw
    rw [ht] at hr
    injection hr with _ hacts
    rw [hacts] at hx
    exact absurd hx (hns x)

/-- For every offset but `MinInt64` the clock is stepped by exactly the measured offset. -/
theorem C19_step_exact {s s' : State} {e : Nat} {now off : Int} {w pw : F64}
    {acts : List Action} {x : Int} (hoff : minI64 < off ∧ off ≤ maxI64)
    (h : step s e now off w pw = .ok s' acts) (hx : Action.step x ∈ acts) : x = off := by
  have := (C19_step_only_when ⟨by omega, hoff.2⟩ h hx).2.2.2.2.2.1
  rw [this, if_neg (by omega)]

/-- A non-trivial instance, and the `MinInt64` corner stated exactly: 2 s + 1 ns after the
    epoch start, weight 4: the clock is stepped by `MinInt64 + 1`. -/
example : step { init with mode := 1, t0 := 0, t := 0 } 0 2000000001 minI64 (ofInt 4) fzero
    = .ok { init with mode := 2, t0 := 2000000001, t := 2000000001 } [.step (minI64 + 1)] := by
  decide +kernel

/-- At exactly 2 s, or with weight exactly 3, or offset exactly 1 ms: no step. -/
example : step { init with mode := 1, t0 := 0, t := 0 } 0 2000000000 5000000 (ofInt 4) fzero
    = .ok { init with mode := 1, t0 := 0, t := 2000000000 } [] := by decide +kernel
example : step { init with mode := 1, t0 := 0, t := 0 } 0 2000000001 5000000 (ofInt 3) fzero
    = .ok { init with mode := 1, t0 := 0, t := 2000000001 } [] := by decide +kernel
example : step { init with mode := 1, t0 := 0, t := 0 } 0 2000000001 1000000 (ofInt 4) fzero
    = .ok { init with mode := 2, t0 := 2000000001, t := 2000000001 } [] := by decide +kernel

/-! ## 4. Once tracking: no step, and tracking is left only through an epoch change -/

/-- After the step phase (mode 2 or 3) no update of the same epoch steps the clock, and the
    mode does not go back: at most one `Step` per clock epoch. -/
theorem C19_no_step_after_step_phase {s : State} {e : Nat} {now off : Int} {w pw : F64}
    (he : e = s.epoch) (hm : 2 ≤ s.mode) :
    match step s e now off w pw with
    | .ok s' acts => s.mode ≤ s'.mode ∧ ∀ x, Action.step x ∉ acts
    | .panic _ => True := by
  have hs : syncEpoch s e = s := by
    rcases syncEpoch_cases s e with ⟨h', _⟩ | ⟨_, h'⟩
    · exact absurd he.symm h'
    · exact h'
  have hspec := step_spec s e now off w pw
  simp only at hspec
  rw [hs] at hspec
  rcases hspec with ⟨h0, _⟩ | ⟨h0, _⟩ | ⟨h0, _⟩ | ⟨h0, _⟩ | ⟨h0, _⟩ |
      ⟨_, _, hr⟩ | ⟨h2, _, _, hr⟩ | ⟨_, _, _, hr⟩ | ⟨_, _, hr⟩ | ⟨_, _, _, hr⟩ | ⟨h3, _, _, hr⟩ | ⟨_, hr⟩
  all_goals try omega
  all_goals try (rw [hr]; simp; done)
  · rw [hr]; simp [h2]
  · obtain ⟨s'', acts', ht, hmode, _, _, _, hns⟩ := track_ok s now (timeSub now s.t0)
      (durationSeconds (timeSub now s.t)) (inv off) w pw
    rw [hr, ht]; exact ⟨by omega, hns⟩

/-- Tracking (mode 3) never steps and stays in mode 3 while the clock epoch is unchanged. -/
theorem C19_tracking_no_step {s : State} {e : Nat} {now off : Int} {w pw : F64}
    (he : e = s.epoch) (hm : s.mode = 3) :
    match step s e now off w pw with
    | .ok s' acts => s'.mode = 3 ∧ s'.epoch = s.epoch ∧ ∀ x, Action.step x ∉ acts
    | .panic _ => True := by
  have h1 := C19_no_step_after_step_phase (now := now) (off := off) (w := w) (pw := pw) he (by omega)
  have h2 := C19_mode_step s e now off w pw (by omega)
  cases hst : step s e now off w pw with
  | panic k => trivial
  | ok s' acts =>
    rw [hst] at h1 h2
    have := C19_mode_transitions he hst
    simp only [Outcome.next] at h2
    exact ⟨by omega, by rw [this.1, he], h1.2⟩

/-- History form: once mode 3 is reached it persists, without any `Step`, for as long as the
    clock epoch does not change (for any readings, any weights, any offsets, any floats). -/
theorem C19_tracking_stays (s : State) (xs : List Input) (hm : s.mode = 3)
    (he : ∀ x ∈ xs, x.clkEpoch = s.epoch) :
    ∀ τ ∈ trace s xs, τ.1.mode = 3 ∧ ∀ s' acts, τ.2.2 = .ok s' acts → ∀ x, Action.step x ∉ acts := by
  induction xs generalizing s with
  | nil => simp [trace]
  | cons x xs ih =>
    have h := C19_tracking_no_step (now := x.now) (off := x.offset) (w := x.weight) (pw := x.pow)
      (he x (List.mem_cons_self ..)) hm
    simp only [trace, List.mem_cons]
    rintro τ (rfl | hτ)
    · refine ⟨hm, fun s' acts ho => ?_⟩
      simp only [stepIn] at ho
      rw [ho] at h; exact h.2.2
    · cases hst : step s x.clkEpoch x.now x.offset x.weight x.pow with
      | panic k =>
        simp only [stepIn, hst, Outcome.next] at hτ
        exact ih s hm (fun y hy => he y (List.mem_cons_of_mem _ hy)) τ hτ
      | ok s' acts =>
        rw [hst] at h
        simp only [stepIn, hst, Outcome.next] at hτ
        exact ih s' h.1 (fun y hy => by rw [h.2.1]; exact he y (List.mem_cons_of_mem _ hy)) τ hτ

/-! ## 5. A new clock epoch restarts the start-up sequence -/

/-- Whatever the state, an update that sees a new clock epoch makes no call on the clock and
    leaves the controller in mode 1 with the epoch's start time `t0 = now`: exactly where the
    first update of a fresh controller leaves it (the gains and the integrator are kept).
    From there `C19_mode_transitions` / `C19_step_only_when` give the sequence again: a step
    needs > 2 s from this `now`, tracking a further > 6 s. -/
theorem C19_epoch_restarts (s : State) {e : Nat} (now off : Int) (w pw : F64) (he : e ≠ s.epoch) :
    step s e now off w pw = .ok { s with epoch := e, mode := 1, t0 := now, t := now } [] := by
  have hs : syncEpoch s e = { s with epoch := e, mode := 0 } := by
    rcases syncEpoch_cases s e with ⟨_, h'⟩ | ⟨h', _⟩
    · exact h'
    · exact absurd h'.symm he
  have hspec := step_spec s e now off w pw
  simp only at hspec
  rw [hs] at hspec
  rcases hspec with ⟨_, hr⟩ | ⟨h0, _⟩ | ⟨h0, _⟩ | ⟨h0, _⟩ | ⟨h0, _⟩ | ⟨h0, _⟩ | ⟨h0, _⟩ | ⟨h0, _⟩ |
      ⟨h0, _⟩ | ⟨h0, _⟩ | ⟨h0, _⟩ | ⟨h0, _⟩
  · exact hr
  all_goals simp at h0

/-- The first update of a fresh controller does the same (`NewPLL` starts in mode 0). -/
theorem C19_first_update (e : Nat) (now off : Int) (w pw : F64) :
    step init e now off w pw = .ok { init with epoch := e, mode := 1, t0 := now, t := now } [] := by
  by_cases he : e = init.epoch
  · have hs : syncEpoch init e = init := by
      rcases syncEpoch_cases init e with ⟨h', _⟩ | ⟨_, h'⟩
      · exact absurd he.symm h'
      · exact h'
    have hspec := step_spec init e now off w pw
    simp only at hspec
    rw [hs] at hspec
    have e0 : e = 0 := he
    rcases hspec with ⟨_, hr⟩ | ⟨h0, _⟩ | ⟨h0, _⟩ | ⟨h0, _⟩ | ⟨h0, _⟩ | ⟨h0, _⟩ | ⟨h0, _⟩ | ⟨h0, _⟩ |
        ⟨h0, _⟩ | ⟨h0, _⟩ | ⟨h0, _⟩ | ⟨h0, _⟩
    · rw [hr, e0]; rfl
    all_goals simp [init] at h0
  · exact C19_epoch_restarts init now off w pw he

/-! ## 6. Adjust: only while tracking, positive duration, bounded slew, finite frequency -/

/-- An `Adjust` is made only in mode 3 of the current epoch, it is the only call of that update,
    its frequency argument is the integrator `l.i` after the update, and `d = ⌈dt⌉ > 0`
    (as doubles). -/
theorem C19_adjust_only_tracking {s s' : State} {e : Nat} {now off : Int} {w pw : F64}
    {acts : List Action} {o d : Int} {f : F64}
    (h : step s e now off w pw = .ok s' acts) (ha : Action.adjust o d f ∈ acts) :
    e = s.epoch ∧ s.mode = 3 ∧ s'.mode = 3 ∧ acts = [.adjust o d f] ∧ f = s'.i ∧
    gt (ceil (durationSeconds (timeSub now s.t))) fzero = true := by
  have := step_adjust h ha
  exact ⟨this.1, this.2.1, this.2.2.1, this.2.2.2.1, this.2.2.2.2.1, this.2.2.2.2.2.2.1⟩

/-- `adjust_sane`, duration: with a reading not before the previous one and less than
    9 223 372 036 s (≈ 292 years, where `Time.Sub` saturates) after it, the duration handed to
    `Adjust` is `Duration(⌈dt⌉)` for an integer `D = ⌈dt⌉` with
    `1 ≤ D ≤ ⌊gap/10⁹⌋ + 1`, and it is at least one second (in particular > 0, no int64
    overflow). -/
theorem C19_adjust_duration_pos {s s' : State} {e : Nat} {now off : Int} {w pw : F64}
    {acts : List Action} {o d : Int} {f : F64}
    (hmono : s.t ≤ now) (hgap : now - s.t ≤ 9223372035999999999)
    (h : step s e now off w pw = .ok s' acts) (ha : Action.adjust o d f ∈ acts) :
    ∃ D : Int, D = (toRat (durationSeconds (timeSub now s.t))).ceil ∧ 1 ≤ D ∧
      D ≤ (now - s.t) / 1000000000 + 1 ∧ d = toDuration (.fin (D : Rat)) ∧
      1000000000 ≤ d ∧ d ≤ 9223372036854774784 := by
  obtain ⟨_, _, _, _, _, _, hgt, hd, _, _⟩ := step_adjust h ha
  have hsub : timeSub now s.t = now - s.t := timeSub_exact (by unfold minI64 maxI64; omega)
  have hb := durationSeconds_bd (d := timeSub now s.t) (by rw [hsub]; omega) (timeSub_le _ _).2
  obtain ⟨D, hD1, hD2, hc, hDc⟩ := ceil_bd hb hgt
  rw [hsub] at hD2
  have hdur := toDuration_ceil hD1 (by omega : D ≤ 9223372036)
  rw [hc] at hd
  exact ⟨D, hDc, hD1, hD2, hd, by rw [hd]; exact hdur.1, by rw [hd]; exact hdur.2⟩

/-- The range is needed: in the last second before `Time.Sub` saturates `⌈dt⌉·10⁹` no longer
    fits an int64 and the conversion yields `MinInt64` (a negative duration). -/
example : toDuration (ceil (durationSeconds 9223372036000000001)) = 9223372036000000000 := by
  decide +kernel
example : toDuration (ceil (durationSeconds maxI64)) = minI64 := by decide +kernel

/-- `slew_bound`: for gains in their range (`Gain s`: `l.a ∈ [0, 0.33]`, `l.b ∈ [0, 0.33/60]`,
    an invariant of every history, see `C19_gain_invariant`), `0 ≤ pow ≤ 1`, an int64 offset,
    a reading not before the previous one and at most 7 999 999 999 s (≈ 253 years) after it:
    the slew handed to `Adjust` satisfies `|slew| ≤ 500 000 ns · D`, `D = ⌈dt⌉` — 500 ppm of
    the elapsed whole seconds — whatever the offset and weight. -/
theorem C19_slew_bound {s s' : State} {e : Nat} {now off : Int} {w pw : F64}
    {acts : List Action} {o d : Int} {f : F64}
    (hg : Gain s) (hpw : Bd 1 pw) (hoff : minI64 ≤ off ∧ off ≤ maxI64)
    (hmono : s.t ≤ now) (hgap : now - s.t ≤ 7999999999000000000)
    (h : step s e now off w pw = .ok s' acts) (ha : Action.adjust o d f ∈ acts) :
    ∃ D : Int, D = (toRat (durationSeconds (timeSub now s.t))).ceil ∧ 1 ≤ D ∧
      D ≤ (now - s.t) / 1000000000 + 1 ∧
      -(500000 * D) ≤ o ∧ o ≤ 500000 * D ∧ d = toDuration (.fin (D : Rat)) := by
  obtain ⟨_, _, _, _, _, _, hgt, hd, ho, _⟩ := step_adjust h ha
  have hsub : timeSub now s.t = now - s.t := timeSub_exact (by unfold minI64 maxI64; omega)
  have hb := durationSeconds_bd (d := timeSub now s.t) (by rw [hsub]; omega) (timeSub_le _ _).2
  obtain ⟨D, hD1, hD2, hc, hDc⟩ := ceil_bd hb hgt
  rw [hsub] at hD2
  have hga := (gains_bd hg hpw (timeSub now s.t0) w).2.1
  have hr := inv_range (inv_range hoff |> fun h => ⟨by omega, h.2⟩)
  have hp : mul (durationSeconds (inv (inv off))) (gains s (timeSub now s.t0) w pw).2.1 ≠ .nan :=
    mul_ne_nan (durationSeconds_finite ⟨by omega, hr.2⟩) hga.1
  have hsl := slew_clamp_bound hp hD1 (by unfold slewMaxD; omega : D ≤ slewMaxD)
  rw [hc] at ho hd
  rw [← ho] at hsl
  exact ⟨D, hDc, hD1, hD2, hsl.1, hsl.2, hd⟩

/-- The clamp really is reached (so the bound is tight), e.g. a 1 s offset after 16 s. -/
example : toDuration (clamp (mul (durationSeconds 1000000000) aLow) (ofInt 16)) = 8000000 := by
  decide +kernel

/-- The range of `D` cannot be extended to all gaps: at `D = 9 007 199 268` (≈ 285 years; the
    product `D·fl(500e-6)·10⁹` reaches 2⁵², where doubles are 1 apart) the clamp limit itself
    converts to `500 000·D + 1`. An exhaustive run of the Go expression over all
    `D ≤ 9 223 372 037` finds this to be the first such `D`. -/
example : toDuration (mul (ofInt 9007199268) slewPos) = 500000 * 9007199268 + 1 := by
  decide +kernel

/-- The gains stay in their range in every history in which `math.Pow` returned values in
    `[0, 1]` — the hypothesis `Gain s` of `C19_slew_bound` holds at every update. -/
theorem C19_gain_invariant (xs : List Input) (hpw : ∀ x ∈ xs, Bd 1 x.pow) :
    ∀ τ ∈ trace init xs, Gain τ.1 := by
  suffices h : ∀ s, Gain s → ∀ τ ∈ trace s xs, Gain τ.1 from h init gain_init
  induction xs with
  | nil => simp [trace]
  | cons x xs ih =>
    intro s hs τ hτ
    simp only [trace, List.mem_cons] at hτ
    rcases hτ with rfl | hτ
    · exact hs
    · exact ih (fun y hy => hpw y (List.mem_cons_of_mem _ hy)) _
        (step_gain hs (hpw x (List.mem_cons_self ..))) τ hτ

/-- `adjust_sane`, frequency: the integrator grows by at most `2²⁵` per update
    (`|p·b| ≤ |offset|·0.33·(0.33/60) ≤ 9 223 372 038 · 0.33 · 0.0055 < 2²⁵`), so in every
    history of fewer than 2⁵³ updates (int64 offsets, `math.Pow` results in [0,1]) every
    frequency handed to `Adjust` is a finite double, of magnitude at most `2²⁵ ·` (number of
    updates). The integrator has not overflowed — and cannot within 2⁵³ updates. -/
theorem C19_adjust_frequency_finite (xs : List Input) (hpw : ∀ x ∈ xs, Bd 1 x.pow)
    (hoff : ∀ x ∈ xs, minI64 ≤ x.offset ∧ x.offset ≤ maxI64) (hlen : xs.length < 2 ^ 53) :
    ∀ τ ∈ trace init xs, ∀ s' acts o d f, τ.2.2 = .ok s' acts → Action.adjust o d f ∈ acts →
      isFinite f = true ∧ (toRat f).abs ≤ (xs.length : Rat) * 33554432 := by
  intro τ hτ s' acts o d f hok ha
  have hi0 : IntegBd 0 init := ⟨rfl, by decide +kernel⟩
  have h := trace_integ (n := 0) gain_init hi0 hpw hoff (by omega) τ hτ
  rw [hok] at h
  simp only [Outcome.next, Nat.zero_add] at h
  have hst := trace_step hτ
  rw [hok] at hst
  have hf := (step_adjust hst.symm ha).2.2.2.2.1
  rw [hf]; exact h

/-- One update of the integrator, for any state: `|l.i'| ≤ |l.i| bound + 2²⁵`. -/
theorem C19_integrator_growth {s : State} {e : Nat} {now off : Int} {w pw : F64} {n : Nat}
    (hg : Gain s) (hpw : Bd 1 pw) (hoff : minI64 ≤ off ∧ off ≤ maxI64) (hn : n + 1 < 2 ^ 53)
    (hi : isFinite s.i = true ∧ (toRat s.i).abs ≤ (n : Rat) * 33554432) :
    isFinite ((step s e now off w pw).next s).i = true ∧
      (toRat ((step s e now off w pw).next s).i).abs ≤ ((n + 1 : Nat) : Rat) * 33554432 :=
  step_integ hg hpw hoff hn hi

/-! ## 7. The property over histories, in one statement -/

/-- For every history of updates at non-decreasing clock readings — consecutive readings at most
    7 999 999 999 s apart, int64 offsets, arbitrary weights (NaN and infinities included),
    arbitrary clock epochs changing at any point, `math.Pow` results in [0,1], fewer than 2⁵³
    updates — every update completes without panic, and
    * a `Step` is made only in mode 1 of the current epoch, more than 2 s after the epoch's first
      update, with weight > 3 and |offset| > 1 ms, by the measured offset (`MinInt64 + 1` for
      `MinInt64`);
    * an `Adjust` is made only in mode 3, with a duration of at least one second, a finite
      frequency, and a slew of at most 500 000 ns per whole second `D = ⌈dt⌉`, where
      `D ≤ ⌊gap/10⁹⌋ + 1` for the gap to the previous reading. -/
theorem C19_history (xs : List Input) (hmono : NonDecreasing xs)
    (hgap : Consec (fun x y => y.now - x.now ≤ 7999999999000000000) xs)
    (hpw : ∀ x ∈ xs, Bd 1 x.pow) (hoff : ∀ x ∈ xs, minI64 ≤ x.offset ∧ x.offset ≤ maxI64)
    (hlen : xs.length < 2 ^ 53) :
    ∀ τ ∈ trace init xs, ∃ s' acts, τ.2.2 = .ok s' acts ∧
      (∀ x, Action.step x ∈ acts →
        τ.1.mode = 1 ∧ τ.2.1.clkEpoch = τ.1.epoch ∧ timeSub τ.2.1.now τ.1.t0 > 2000000000 ∧
        gt τ.2.1.weight (ofInt 3) = true ∧ (τ.2.1.offset > 1000000 ∨ τ.2.1.offset < -1000000) ∧
        x = (if τ.2.1.offset = minI64 then minI64 + 1 else τ.2.1.offset)) ∧
      (∀ o d f, Action.adjust o d f ∈ acts →
        τ.1.mode = 3 ∧ τ.2.1.clkEpoch = τ.1.epoch ∧ 1000000000 ≤ d ∧ isFinite f = true ∧
        ∃ D : Int, 1 ≤ D ∧ D ≤ (τ.2.1.now - τ.1.t) / 1000000000 + 1 ∧
          -(500000 * D) ≤ o ∧ o ≤ 500000 * D ∧ d = toDuration (.fin (D : Rat))) := by
  intro τ hτ
  have hin : τ.2.1 ∈ xs := by
    clear hmono hgap hpw hoff hlen
    generalize init = s at hτ
    induction xs generalizing s with
    | nil => simp [trace] at hτ
    | cons x xs ih =>
      simp only [trace, List.mem_cons] at hτ
      rcases hτ with rfl | h
      · exact List.mem_cons_self ..
      · exact List.mem_cons_of_mem _ (ih _ h)
  obtain ⟨_, ⟨s', acts, hok⟩, hlink⟩ :=
    trace_linked (R := fun x y => y.now - x.now ≤ 7999999999000000000) inv_init none
      (fun _ => rfl) (by intro p hp; cases hp) (by intro x p _ hp; cases hp) hmono.inEpoch hgap τ hτ
  have hst := (trace_step hτ).symm
  rw [hok] at hst
  simp only [stepIn] at hst
  refine ⟨s', acts, hok, ?_, ?_⟩
  · intro x hx
    have h := C19_step_only_when (hoff _ hin) hst hx
    exact ⟨h.2.1, h.1, h.2.2.1, h.2.2.2.1, h.2.2.2.2.1, h.2.2.2.2.2.1⟩
  · intro o d f ha
    have hA := C19_adjust_only_tracking hst ha
    have hg := C19_gain_invariant xs hpw τ hτ
    have hf := C19_adjust_frequency_finite xs hpw hoff hlen τ hτ s' acts o d f hok ha
    rcases hlink with h0 | ⟨p, hR, ht, hle⟩
    · rw [hA.2.1] at h0; exact absurd h0 (by decide)
    · have hmono' : τ.1.t ≤ τ.2.1.now := by rw [ht]; exact hle hA.1
      have hgap' : τ.2.1.now - τ.1.t ≤ 7999999999000000000 := by rw [ht]; exact hR
      obtain ⟨D, _, hD1, hD2, hlo, hhi, hd⟩ :=
        C19_slew_bound hg (hpw _ hin) (hoff _ hin) hmono' hgap' hst ha
      obtain ⟨_, _, _, _, _, hdpos, _⟩ :=
        C19_adjust_duration_pos hmono' (by omega) hst ha
      exact ⟨hA.2.1, hA.1, hdpos, hf.1, D, hD1, hD2, hlo, hhi, hd⟩

/-- A history meeting every hypothesis of `C19_history` in which all of it happens: start-up,
    a step by the measured 5 ms, tracking, a clamped slew (1 s offset after 16 s: 8 ms over
    16 s), and a restart on a new epoch. -/
def demo : List Input :=
  [⟨7, 0, 5000000, ofInt 1000, ofInt 1⟩, ⟨7, 2000000001, 5000000, ofInt 1000, ofInt 1⟩,
   ⟨7, 9000000000, 100, ofInt 1000, ofInt 1⟩, ⟨7, 25000000000, 1000000000, ofInt 1000, ofInt 1⟩,
   ⟨8, 26000000000, 1000000000, ofInt 1000, ofInt 1⟩]

example : NonDecreasing demo ∧ Consec (fun x y => y.now - x.now ≤ 7999999999000000000) demo
    ∧ (∀ x ∈ demo, Bd 1 x.pow) ∧ (∀ x ∈ demo, minI64 ≤ x.offset ∧ x.offset ≤ maxI64) := by
  refine ⟨by simp [demo, NonDecreasing], by simp [demo, Consec], ?_, ?_⟩
  · intro x hx; simp [demo] at hx
    rcases hx with rfl | rfl | rfl | rfl | rfl <;> exact ⟨by decide +kernel, by decide +kernel, by decide +kernel⟩
  · intro x hx; simp [demo] at hx
    rcases hx with rfl | rfl | rfl | rfl | rfl <;> decide

example : (run init demo).map (fun o => match o with
      | .ok s acts => (s.mode, acts.map (fun (a : Action) => match a with
          | .step x => [x] | .adjust o d _ => [o, d]))
      | .panic _ => (99, []))
    = [(1, []), (2, [[5000000]]), (3, []), (3, [[8000000, 16000000000]]), (1, [])] := by
  decide +kernel

/-! ## 8. Constants of `Pll.Do`, regenerated from the source on every run -/

open ScionTime.Gen.Adjustments in
theorem C19_pin_thresholds :
    pll_stepWait = stepWait ∧ pll_stepWait_op = ">" ∧
    pll_pllWait = pllWait ∧ pll_pllWait_op = ">" ∧
    pll_stepThreshold = stepThreshold ∧ pll_stepThreshold_op = ">" ∧
    pll_captureTime = captureTime ∧
    ofInt pll_stepWeight = wStep ∧ pll_stepWeight_op = ">" ∧
    ofInt pll_wLow = wLow ∧ pll_wLow_op = "<" ∧
    ofInt pll_wHigh = wHigh ∧ pll_wHigh_op = "<" ∧
    pll_modeCount = 4 ∧ pll_stepCallsInCase1 = 1 ∧
    pll_adjustGuard = 0 ∧ pll_adjustGuard_op = ">" ∧
    pll_clockCheck1 = 0 ∧ pll_clockCheck1_op = "<" ∧ pll_clockCheck2 = 0 ∧ pll_clockCheck2_op = "<" ∧
    pll_clockCheck3 = 0 ∧ pll_clockCheck3_op = "<" ∧ pll_clockCheck3dt = 0 ∧ pll_clockCheck3dt_op = "<" := by
  decide +kernel

open ScionTime.Gen.Adjustments in
/-- The float literals: the model's constant is the literal rounded once (`ofConst`), and that
    is the double the Go compiler stores (`_f64num/_f64den`, computed by the extractor with
    `big.Rat.Float64`). In particular `500e-6` is `1152921504606847 / 2^61`. -/
theorem C19_pin_gains :
    ofConst pll_pInit_num pll_pInit_den.toNat = pInit ∧
      pInit = .fin ((pll_pInit_f64num : Rat) / (pll_pInit_f64den : Rat)) ∧
    ofInt pll_iInit = iInit ∧
    ofConst pll_pLimit_num pll_pLimit_den.toNat = pLimit ∧
      pLimit = .fin ((pll_pLimit_f64num : Rat) / (pll_pLimit_f64den : Rat)) ∧
    ofConst pll_pLimitCmp_num pll_pLimitCmp_den.toNat = pLimit ∧ pll_pLimitCmp_op = ">" ∧
    ofConst pll_aLow_num pll_aLow_den.toNat = aLow ∧
      aLow = .fin ((pll_aLow_f64num : Rat) / (pll_aLow_f64den : Rat)) ∧
    ofConst pll_bLow_num pll_bLow_den.toNat = bLow ∧
      bLow = .fin ((pll_bLow_f64num : Rat) / (pll_bLow_f64den : Rat)) ∧
    ofConst pll_aMid_num pll_aMid_den.toNat = aMid ∧
      aMid = .fin ((pll_aMid_f64num : Rat) / (pll_aMid_f64den : Rat)) ∧
    ofConst pll_bMid_num pll_bMid_den.toNat = bMid ∧
      bMid = .fin ((pll_bMid_f64num : Rat) / (pll_bMid_f64den : Rat)) := by
  decide +kernel

open ScionTime.Gen.Adjustments in
theorem C19_pin_slew :
    ofConst pll_slewPos_num pll_slewPos_den.toNat = slewPos ∧ pll_slewPos_op = ">" ∧
      slewPos = .fin ((pll_slewPos_f64num : Rat) / (pll_slewPos_f64den : Rat)) ∧
    ofConst pll_slewNeg_num pll_slewNeg_den.toNat = slewNeg ∧ pll_slewNeg_op = "<" ∧
      slewNeg = .fin ((pll_slewNeg_f64num : Rat) / (pll_slewNeg_f64den : Rat)) ∧
    slewPos = .fin slewC ∧ slewNeg = .fin (-slewC) ∧
    -- the model's literal rationals are the source's
    ((pll_slewPos_num : Rat) / (pll_slewPos_den : Rat) = 500 / 1000000) := by
  decide +kernel

end ScionTime.Props.C19
