/-
  C18 — time-unit conversions for kernel and CSPTP interfaces are exact and normalised.
  Integer clauses; the floating-point clauses (scaled-ppm round trip, drift
  proportionality) are in Props/C18Float.lean.
  Models: ScionTime/Model/Unixutil.lean, ScionTime/Model/CsptpConv.lean.
-/
import ScionTime.Model.Unixutil
import ScionTime.Model.CsptpConv
import ScionTime.Proofs.Int64Arith
import ScionTime.Proofs.CsptpConv
import ScionTime.Gen.Unixutil
import ScionTime.Gen.Csptp
namespace ScionTime.C18
open ScionTime.Unixutil ScionTime.CsptpConv ScionTime.Int64Arith

/-! ### Pins: literals inside the Go function bodies (regenerated from /repo on every run by
harness/extract/x_c02c18.go) against the literals of the model. -/

theorem C18_pin_timeval :
    Gen.Unixutil.timevalDiv = 1000000000 ∧ Gen.Unixutil.timevalMod = 1000000000 ∧
    Gen.Unixutil.timevalFixAdd = 1000000000 ∧ Gen.Unixutil.timevalFixSub = 1 := by decide

/-- `s < 0`, `s > 1<<48-1` in `TimestampFromTime`; `>> 16`; `/ 2` in the formulas. -/
theorem C18_pin_csptp :
    Gen.Csptp.timestampMinSec = 0 ∧ Gen.Csptp.timestampMaxSec = 2^48 - 1 ∧
    Gen.Csptp.timeIntervalShift = 16 ∧ Gen.Csptp.divMeanPathDelay = 2 ∧ Gen.Csptp.divClockOffset = 2 := by decide

/-! ### TimevalFromNsec -/

/-- timeval_normal: for **every** int64 nanosecond count the sub-second part is in
    `[0, 10^9)` and `sec·10^9 + usec` is the input (no wrap-around anywhere, `MinInt64`
    included). -/
theorem C18_timeval_normal (nsec : Int64) :
    0 ≤ (timevalFromNsec nsec).usec.toInt ∧ (timevalFromNsec nsec).usec.toInt < 1000000000 ∧
    (timevalFromNsec nsec).sec.toInt * 1000000000 + (timevalFromNsec nsec).usec.toInt = nsec.toInt := by
  have hk : (1000000000 : Int64).toInt = 1000000000 := by decide
  have h0 : (0 : Int64).toInt = 0 := by decide
  have h1 : (1 : Int64).toInt = 1 := by decide
  have hl := Int64.le_toInt nsec
  have hu := Int64.toInt_lt nsec
  have hf := tdiv_tmod_facts nsec.toInt 1000000000 (by omega)
  have hq : (nsec / 1000000000).toInt = nsec.toInt.tdiv 1000000000 := by
    rw [Int64.toInt_div, hk]; apply bmod_id <;> omega
  have hr : (nsec % 1000000000).toInt = nsec.toInt.tmod 1000000000 := by
    rw [Int64.toInt_mod, hk]
  unfold timevalFromNsec
  simp only
  split
  · rename_i hneg
    rw [Int64.lt_iff_toInt_lt, h0, hr] at hneg
    simp only
    rw [toInt_sub_of_fits _ _ (by rw [hq, h1]; omega) (by rw [hq, h1]; omega),
        toInt_add_of_fits _ _ (by rw [hr, hk]; omega) (by rw [hr, hk]; omega), hq, hr, hk, h1]
    omega
  · rename_i hnn
    rw [Int64.lt_iff_toInt_lt, h0, hr] at hnn
    simp only
    rw [hq, hr]
    omega

/-- The second component is the floor quotient (seconds towards −∞), i.e. the pair is the
    Euclidean decomposition the kernel expects. -/
theorem C18_timeval_floor (nsec : Int64) :
    (timevalFromNsec nsec).sec.toInt = nsec.toInt / 1000000000 ∧
    (timevalFromNsec nsec).usec.toInt = nsec.toInt % 1000000000 := by
  have := C18_timeval_normal nsec
  omega

/-- Without the negative-remainder branch the property fails (closed witness: −1 ns). -/
theorem C18_timeval_nofix_witness :
    (timevalFromNsecNoFix (-1)).usec.toInt = -1 ∧ (timevalFromNsec (-1)).usec.toInt = 999999999 ∧
    (timevalFromNsec (-1)).sec.toInt = -1 := by decide

example : timevalFromNsec (-1500000000) = ⟨-2, 500000000⟩ := by decide
example : timevalFromNsec Int64.minValue = ⟨-9223372037, 145224192⟩ := by decide

/-! ### CSPTP timestamps -/

/-- timestamp_roundtrip (time → timestamp → time): every time whose Unix second count fits
    48 bits (1970 … year 8921556) converts without panic and converts back exactly. -/
theorem C18_timestamp_roundtrip (t : Int) (h0 : 0 ≤ t) (h1 : t < 2^48 * 1000000000) :
    ∃ ts, timestampFromTime t = .ok ts ∧ ts.WF ∧ ts.ns < 1000000000 ∧ timeFromTimestamp ts = t := by
  have hs0 : ¬ (t / nsPerSec < 0) := by unfold nsPerSec; omega
  have hs1 : ¬ (t / nsPerSec > 2^48 - 1) := by unfold nsPerSec; omega
  unfold timestampFromTime
  simp only [hs0, hs1, if_false]
  refine ⟨_, rfl, ?_, ?_, ?_⟩
  · refine ⟨rfl, ?_, ?_⟩
    · intro b hb
      simp only [secBytes, List.mem_cons, List.mem_nil_iff, or_false] at hb
      omega
    · simp only; unfold nsPerSec; omega
  · simp only; unfold nsPerSec; omega
  · unfold timeFromTimestamp
    simp only
    rw [secOfBytes_secBytes _ (by unfold nsPerSec; omega)]
    unfold nsPerSec
    omega

/-- The two panics are exactly the out-of-range cases. -/
theorem C18_timestamp_panics (t : Int) :
    (timestampFromTime t = .panicBefore1970 ↔ t < 0) ∧
    (timestampFromTime t = .panicAfter48bit ↔ 2^48 * 1000000000 ≤ t) := by
  unfold timestampFromTime
  simp only
  constructor
  · constructor
    · intro h; split at h
      · unfold nsPerSec at *; omega
      · split at h <;> cases h
    · intro h
      have : t / nsPerSec < 0 := by unfold nsPerSec; omega
      rw [if_pos this]
  · constructor
    · intro h; split at h
      · cases h
      · split at h
        · unfold nsPerSec at *; omega
        · cases h
    · intro h
      have h1 : ¬ (t / nsPerSec < 0) := by unfold nsPerSec; omega
      have h2 : t / nsPerSec > 2^48 - 1 := by unfold nsPerSec; omega
      rw [if_neg h1, if_pos h2]

/-- timestamp_roundtrip (timestamp → time → timestamp): every six-byte second count with
    nanoseconds below 10^9 converts to a time that converts back to the same timestamp. -/
theorem C18_timestamp_roundtrip_rev (ts : Timestamp) (h : ts.WF) (hns : ts.ns < 1000000000) :
    timestampFromTime (timeFromTimestamp ts) = .ok ts := by
  obtain ⟨b0, b1, b2, b3, b4, b5, hs, h0, h1, h2, h3, h4, h5⟩ := wf_bytes ts h
  have hsec : secOfBytes ts.seconds < 2^48 := by rw [hs, secOfBytes_six]; omega
  have hq : timeFromTimestamp ts / nsPerSec = secOfBytes ts.seconds := by
    unfold timeFromTimestamp nsPerSec; omega
  have hr : timeFromTimestamp ts % nsPerSec = ts.ns := by
    unfold timeFromTimestamp nsPerSec; omega
  unfold timestampFromTime
  simp only [hq, hr]
  rw [if_neg (by omega), if_neg (by omega)]
  simp only [Int.toNat_natCast]
  have : secBytes (secOfBytes ts.seconds) = ts.seconds := by
    rw [hs, secOfBytes_six]; unfold secBytes
    simp only [List.cons.injEq, and_true]
    omega
  rw [this]

/-- A nanosecond field ≥ 10^9 (the type admits up to 2^32−1) is normalised by
    `TimeFromTimestamp`: the resulting time is `seconds + ns/10^9` and `ns mod 10^9`, at most
    4 s later; converting back panics only if that carry leaves the 48-bit range. -/
theorem C18_timestamp_ns_overflow (ts : Timestamp) (h : ts.WF) :
    timeFromTimestamp ts / nsPerSec = secOfBytes ts.seconds + ts.ns / 1000000000 ∧
    timeFromTimestamp ts % nsPerSec = ts.ns % 1000000000 ∧ ts.ns / 1000000000 ≤ 4 := by
  obtain ⟨_, _, hn⟩ := h
  unfold timeFromTimestamp nsPerSec
  omega

/-- interval_shift: the correction field (2^-16 ns units) converts to nanoseconds by floor
    division by 65536, for negative values too, and never wraps. -/
theorem C18_interval_shift (i : Int64) :
    (durationFromTimeInterval i).toInt = i.toInt / 65536 :=
  toInt_shiftRight16 i

/-- Dropping the 16 sub-nanosecond bits: `0 ≤ i − 65536·d < 65536`. -/
theorem C18_interval_shift_bounds (i : Int64) :
    0 ≤ i.toInt - 65536 * (durationFromTimeInterval i).toInt ∧
    i.toInt - 65536 * (durationFromTimeInterval i).toInt < 65536 := by
  rw [C18_interval_shift]; omega

/-- `>> 16` and `/ 65536` differ exactly on negative non-multiples of 65536 (witness −1). -/
theorem C18_interval_shift_vs_div_witness :
    (durationFromTimeInterval (-1)).toInt = -1 ∧ (durationFromTimeIntervalDiv (-1)).toInt = 0 := by
  decide

/-! ### CSPTP offset and delay formulas -/

/-- `|v| < 2^60` -/
def Fits60 (v : Int) : Prop := -1152921504606846976 < v ∧ v < 1152921504606846976

/-- csptp_offset_exact / csptp_delay_exact.  If the server clock is ahead of the client
    clock by `θ`, the one-way delay is `d` in both directions, and the corrections are `c1`,
    `c3` — i.e. `t1 = t0 + d + θ + c1` and `t3 = t2 + d − θ + c3` — then `ClockOffset` returns
    exactly `θ` and `MeanPathDelay` exactly `d`, for all magnitudes below 2^60 ns (36 years;
    nothing wraps, the truncating `/2` is applied to an even number). -/
theorem C18_csptp_offset_delay_exact (t0 t2 : Int) (d θ : Int) (c1 c3 : Int64)
    (hd : Fits60 d) (hθ : Fits60 θ) (h1 : Fits60 c1.toInt) (h3 : Fits60 c3.toInt) :
    let t1 := t0 + d + θ + c1.toInt
    let t3 := t2 + d - θ + c3.toInt
    (clockOffset t0 t1 t2 t3 c1 c3).toInt = θ ∧ (meanPathDelay t0 t1 t2 t3 c1 c3).toInt = d := by
  intro t1 t3
  unfold Fits60 at *
  have ha : (timeSub t1 t0).toInt = d + θ + c1.toInt := by
    rw [timeSub_exact _ _ (by simp only [t1]; omega) (by simp only [t1]; omega)]; simp only [t1]; omega
  have hb : (timeSub t3 t2).toInt = d - θ + c3.toInt := by
    rw [timeSub_exact _ _ (by simp only [t3]; omega) (by simp only [t3]; omega)]; simp only [t3]; omega
  have ha' : (timeSub t1 t0 - c1).toInt = d + θ := by
    rw [toInt_sub_of_fits _ _ (by omega) (by omega), ha]; omega
  have hb' : (timeSub t3 t2 - c3).toInt = d - θ := by
    rw [toInt_sub_of_fits _ _ (by omega) (by omega), hb]; omega
  unfold clockOffset meanPathDelay
  rw [toInt_half, toInt_half, toInt_sub_of_fits _ _ (by omega) (by omega),
      toInt_add_of_fits _ _ (by omega) (by omega), ha', hb']
  constructor
  · have : d + θ - (d - θ) = 2 * θ := by omega
    rw [this]
    have hf := tdiv_tmod_facts (2 * θ) 2 (by omega)
    omega
  · have : d + θ + (d - θ) = 2 * d := by omega
    rw [this]
    have hf := tdiv_tmod_facts (2 * d) 2 (by omega)
    omega

/-- Non-trivial instance: θ = −3 ms, d = 250 µs, corrections 40 ns / 17 ns. -/
example :
    (clockOffset 1790000000000000000 (1790000000000000000 + 250000 - 3000000 + 40)
      1790000000100000000 (1790000000100000000 + 250000 + 3000000 + 17) 40 17).toInt = -3000000 ∧
    (meanPathDelay 1790000000000000000 (1790000000000000000 + 250000 - 3000000 + 40)
      1790000000100000000 (1790000000100000000 + 250000 + 3000000 + 17) 40 17).toInt = 250000 := by
  decide

/-- With asymmetric delays `d1` (client→server) and `d3` (server→client) the formulas return
    the truncated halves of `2θ + (d1 − d3)` and `d1 + d3`: the offset error is half the
    asymmetry, never more. -/
theorem C18_csptp_asymmetric (t0 t2 : Int) (d1 d3 θ : Int) (c1 c3 : Int64)
    (hd1 : Fits60 d1) (hd3 : Fits60 d3) (hθ : Fits60 θ) (h1 : Fits60 c1.toInt) (h3 : Fits60 c3.toInt) :
    let t1 := t0 + d1 + θ + c1.toInt
    let t3 := t2 + d3 - θ + c3.toInt
    (clockOffset t0 t1 t2 t3 c1 c3).toInt = (2 * θ + (d1 - d3)).tdiv 2 ∧
    (meanPathDelay t0 t1 t2 t3 c1 c3).toInt = (d1 + d3).tdiv 2 := by
  intro t1 t3
  unfold Fits60 at *
  have ha : (timeSub t1 t0).toInt = d1 + θ + c1.toInt := by
    rw [timeSub_exact _ _ (by simp only [t1]; omega) (by simp only [t1]; omega)]; simp only [t1]; omega
  have hb : (timeSub t3 t2).toInt = d3 - θ + c3.toInt := by
    rw [timeSub_exact _ _ (by simp only [t3]; omega) (by simp only [t3]; omega)]; simp only [t3]; omega
  have ha' : (timeSub t1 t0 - c1).toInt = d1 + θ := by
    rw [toInt_sub_of_fits _ _ (by omega) (by omega), ha]; omega
  have hb' : (timeSub t3 t2 - c3).toInt = d3 - θ := by
    rw [toInt_sub_of_fits _ _ (by omega) (by omega), hb]; omega
  unfold clockOffset meanPathDelay
  rw [toInt_half, toInt_half, toInt_sub_of_fits _ _ (by omega) (by omega),
      toInt_add_of_fits _ _ (by omega) (by omega), ha', hb']
  constructor
  · congr 1; omega
  · congr 1; omega

/-- The one-way delays: exact differences when nothing overflows, and
    `C2SDelay + S2CDelay` does not depend on the UTC correction. -/
theorem C18_csptp_oneway_exact (t0 t1 t2 t3 : Int) (c1 c3 utc : Int64)
    (ha : Fits60 (t1 - t0)) (hb : Fits60 (t3 - t2)) (h1 : Fits60 c1.toInt) (h3 : Fits60 c3.toInt)
    (hu : Fits60 utc.toInt) :
    (c2sDelay t0 t1 c1 utc).toInt = (t1 - t0) - c1.toInt - utc.toInt ∧
    (s2cDelay t2 t3 c3 utc).toInt = (t3 - t2) - c3.toInt + utc.toInt := by
  unfold Fits60 at *
  have ea := timeSub_exact t1 t0 (by omega) (by omega)
  have eb := timeSub_exact t3 t2 (by omega) (by omega)
  unfold c2sDelay s2cDelay
  constructor
  · rw [toInt_sub_of_fits _ _ (by rw [toInt_sub_of_fits _ _ (by omega) (by omega)]; omega)
        (by rw [toInt_sub_of_fits _ _ (by omega) (by omega)]; omega),
      toInt_sub_of_fits _ _ (by omega) (by omega), ea]
  · rw [toInt_add_of_fits _ _ (by rw [toInt_sub_of_fits _ _ (by omega) (by omega)]; omega)
        (by rw [toInt_sub_of_fits _ _ (by omega) (by omega)]; omega),
      toInt_sub_of_fits _ _ (by omega) (by omega), eb]

end ScionTime.C18
