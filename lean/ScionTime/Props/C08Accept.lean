/-
  C08 / C20 — the accept loops of the NTS-KE servers (`runNTSKEServerTLS`, `runNTSKEServerQUIC`)
  keep serving whatever arrived before: model Model/AcceptLoop.lean, rows pinned in Props/SkelC20
  (Model/Skel/NtskeSrv.lean), executed by harness c20srv op `ks.storm` (aborted / silent / garbage /
  failed-handshake connections, some of them still held open, then a genuine exchange on the real
  loops, served within a bound).
-/
import ScionTime.Model.AcceptLoop
import ScionTime.Model.NtskeSrv
namespace ScionTime.C08Accept
open ScionTime.AcceptLoop List

variable {κ α : Type}

/-- Every connection `Accept` returns is handed to a handler exactly once, in order, and nothing
    else is: errors in between (any number, of either kind) neither drop nor duplicate one. -/
theorem spawned_body (a : Acc κ) : Ev.spawned? (body a) = a.conn? := by
  cases a <;> rfl

theorem C08Accept_serves_exactly_the_accepted (l : List (Acc κ)) :
    served l = l.filterMap Acc.conn? := by
  induction l with
  | nil => rfl
  | cons a rest ih =>
    have h : served (a :: rest) = ((Ev.spawned? (body a)).toList ++ served rest) := by
      simp only [served, loop, List.map_cons, List.filterMap_cons]
      cases Ev.spawned? (body a) <;> simp
    rw [h, ih, spawned_body]
    cases a <;> simp [Acc.conn?, List.filterMap_cons]

/-- The loop performs exactly one iteration per result of `Accept` and never leaves: what it does
    on a longer sequence extends what it did on the prefix. -/
theorem C08Accept_never_exits (l1 l2 : List (Acc κ)) :
    loop (l1 ++ l2) = loop l1 ++ loop l2 ∧ (loop l1).length = l1.length := by
  simp [loop]

/-- PROGRESS (C08's clause for the NTS-KE server): after ANY finite sequence of earlier results —
    aborted, silent, garbage or failed-handshake connections, accept errors — the next connection is
    handed to a handler, and its answer is the handler's answer to its own stream alone. -/
theorem C08Accept_genuine_after_storm (handle : κ → α) (storm : List (Acc κ)) (c : κ) (later : List (Acc κ)) :
    answers handle (storm ++ .conn c :: later) =
      answers handle storm ++ handle c :: answers handle later ∧
    (answers handle (storm ++ .conn c :: later))[(answers handle storm).length]? = some (handle c) := by
  have h : answers handle (storm ++ .conn c :: later) = answers handle storm ++ handle c :: answers handle later := by
    simp only [answers, C08Accept_serves_exactly_the_accepted, List.filterMap_append, List.filterMap_cons,
      Acc.conn?, List.map_append, List.map_cons]
  exact ⟨h, by rw [h]; simp⟩

/-- for the real servers: the answer to the genuine connection is `NtskeSrv.handle` of that
    connection, whatever the storm was -/
example (storm : List (Acc NtskeSrv.Conn)) (c : NtskeSrv.Conn) :
    (answers NtskeSrv.handle (storm ++ [.conn c])).getLast? = some (NtskeSrv.handle c) := by
  have := (C08Accept_genuine_after_storm NtskeSrv.handle storm c []).1
  rw [this]; simp [answers, served, loop]

example : served [Acc.tempErr, .conn 1, .closed, .conn 2, .tempErr] = [1, 2] := by decide

/-- Observation (not reachable from the network): once `Accept` fails permanently — the listener
    was closed, or over QUIC the context was cancelled — the loop does not end and does not wait:
    for every n it performs n more iterations, none of which blocks, each writing one log record,
    none serving anything (a busy loop). In the service the context is `context.Background()` and
    nobody closes the listener, so the regime is entered only through a future change. -/
theorem C08Accept_closed_spins (n : Nat) :
    loop (List.replicate n (Acc.closed : Acc κ)) = List.replicate n Ev.logErr ∧
    (List.replicate n (Acc.closed : Acc κ)).all (fun a => !a.blocks) = true ∧
    served (List.replicate n (Acc.closed : Acc κ)) = [] := by
  refine ⟨by simp [loop, body], by simp [Acc.blocks], ?_⟩
  rw [C08Accept_serves_exactly_the_accepted]
  induction n with
  | zero => rfl
  | succ k ih => simp [List.replicate_succ, Acc.conn?, List.filterMap_cons]

/-- … whereas a temporary error storm of any length delays but does not lose a connection. -/
theorem C08Accept_temp_errors_lose_nothing (n : Nat) (c : κ) :
    served (List.replicate n Acc.tempErr ++ [.conn c]) = [c] := by
  rw [C08Accept_serves_exactly_the_accepted]
  induction n with
  | zero => rfl
  | succ k ih => simp [List.replicate_succ, Acc.conn?, List.filterMap_cons]

end ScionTime.C08Accept
