/-
  C13 — the forwarding branch of the SCION listener (end-host dispatcher) and extension headers.

  "Packets addressed to another end-host port are forwarded, payload unchanged, …": what follows the
  SCION header of a forwarded packet — hop-by-hop extension, end-to-end extension with the packet
  authenticator, UDP — as a function of what was received and of whether a kernel receive timestamp
  exists (`Model/ScionSrv.lean`: `Wire`, `fwdWire` = core/server/server_scion.go after the repair,
  `fwdWireOld` = as found).  Tied to the code by harness/cmd/c13 op `srv.fwd` (the forwarded
  datagram re-parsed with the SCION layers; listeners with and without rx timestamps).

  As found (F22): a packet `SCION | HBH | [E2E] | UDP` was forwarded without its hop-by-hop
  extension and with its end-to-end options (authenticator included) replaced by the dispatcher's
  timestamp option; without a receive timestamp nothing was written for the extensions while NextHdr
  kept announcing them — the datagram no longer parses.
-/
import ScionTime.Model.ScionSrv
import ScionTime.Gen.Scion
namespace ScionTime.C13
open ScionTime.ScionSrv

/-- `scion.OptTypeTimestamp`, the type of the option the dispatcher adds (driver and harness print it as `253:ts`). -/
theorem C13_pin_OptTypeTimestamp : Gen.Scion.OptTypeTimestamp = (253 : Int) := by decide

/-! ## after the repair, for all packets -/

/-- What is forwarded is `fwdWire` of the received packet (with `C13_forward_fields`: SCION header
    fields, ports and payload are the received ones). -/
theorem C13_forward_wire_eq (cfg : Cfg) (p : Pkt) (f : Fwd) (h : handle cfg p = .forward f) :
    f.wire = fwdWire p ∧ f.pkt = p := by
  unfold handle handleG at h
  repeat' (split at h)
  all_goals (try (simp at h; done))
  simp only [Outcome.forward.injEq] at h
  subst h
  exact ⟨rfl, rfl⟩

/-- `fwdWire` always gives a consistent NextHdr chain. -/
theorem C13_fwdWire_parses (p : Pkt) : (fwdWire p).parses = true := by
  unfold fwdWire Wire.parses
  cases hh : p.hbh <;> cases hs : p.stamp <;> cases he : p.e2e <;> simp

/-- **Every forwarded packet parses**: the NextHdr fields announce exactly the extension headers
    that were written. -/
theorem C13_forward_parses (cfg : Cfg) (p : Pkt) (f : Fwd) (h : handle cfg p = .forward f) :
    f.wire.parses = true := by
  rw [(C13_forward_wire_eq cfg p f h).1]; exact C13_fwdWire_parses p

/-- **The hop-by-hop extension is forwarded iff one was received, bytes unchanged.** -/
theorem C13_forward_hbh_preserved (cfg : Cfg) (p : Pkt) (f : Fwd) (h : handle cfg p = .forward f) :
    f.wire.hbh.map (·.2) = p.hbh := by
  rw [(C13_forward_wire_eq cfg p f h).1]
  unfold fwdWire
  cases p.hbh <;> simp

theorem recvOpts_received (p : Pkt) :
    (recvOpts p).filterMap EOpt.received? = p.opts := by
  unfold recvOpts
  induction p.opts with
  | nil => rfl
  | cons o os ih => simp [EOpt.received?, ih]

/-- **Every received end-to-end option is forwarded, type and data unchanged, in the received
    order, and nothing else but the dispatcher's own timestamp option is added**: that one iff a
    receive timestamp exists, as the last option. -/
theorem C13_forward_e2e_options (cfg : Cfg) (p : Pkt) (f : Fwd) (h : handle cfg p = .forward f)
    (hwf : p.extWF) :
    f.wire.received = p.opts ∧
    f.wire.e2e = (if p.stamp then some (recvOpts p ++ [.ownTs])
                  else if p.e2e then some (recvOpts p) else none) := by
  rw [(C13_forward_wire_eq cfg p f h).1]
  obtain ⟨hno, _⟩ := hwf
  unfold fwdWire Wire.received
  cases hs : p.stamp <;> cases he : p.e2e
  · have := hno he; simp [this]
  · simpa using recvOpts_received p
  · have := hno he; simp [this, recvOpts, EOpt.received?]
  · simp [List.filterMap_append, recvOpts_received p, EOpt.received?]

/-- **The packet authenticator reaches the end host**: the first authenticator option of the
    forwarded packet is that of the received one (so, the bytes the MAC covers being forwarded
    unchanged — SCION header fields, UDP header and payload, `C13_forward_fields` — a packet that
    verified before the dispatcher verifies behind it). -/
theorem C13_forward_authenticator_kept (cfg : Cfg) (p : Pkt) (f : Fwd) (h : handle cfg p = .forward f)
    (hwf : p.extWF) : f.wire.auth = p.auth := by
  unfold Wire.auth
  rw [(C13_forward_e2e_options cfg p f h hwf).1]
  exact hwf.2.symm

/-- non-vacuity: a dispatcher forward of `SCION | HBH | E2E(200, authenticator) | UDP`, without a
    receive timestamp and with one. -/
def exPkt (stamp : Bool) : Pkt :=
  { lastHop := 1, tc := 9, srcIA := 1, dstIA := 2, srcType := 0, dstType := 0,
    srcAddr := [10, 0, 0, 1], dstAddr := [127, 0, 13, 3], pathType := 0, path := [], rev := some (0, []),
    l4 := .udp, srcPort := 7, dstPort := 40000, udpLenOk := true, e2e := true,
    auth := some (List.replicate 28 5), mac := some (List.replicate 16 5), payload := [5, 6], ntpOk := false,
    hbh := some [201, 2, 9, 9], opts := [(200, [1, 2, 3, 4]), (2, List.replicate 28 5)], stamp := stamp }

example : (exPkt false).extWF ∧ (exPkt true).extWF := by decide

example : handle dispatcherCfg (exPkt false) = .forward
    { toAddr := [127, 0, 13, 3], toPort := 40000, pkt := exPkt false,
      wire := { next := .hbh, hbh := some (.e2e, [201, 2, 9, 9]),
                e2e := some [.recv 200 [1, 2, 3, 4], .recv 2 (List.replicate 28 5)] } } := by decide

example : (match handle dispatcherCfg (exPkt true) with
    | .forward f => f.wire.parses && f.wire.hbh == some (.e2e, [201, 2, 9, 9]) &&
        f.wire.e2e == some [.recv 200 [1, 2, 3, 4], .recv 2 (List.replicate 28 5), .ownTs] &&
        f.wire.auth == some (List.replicate 28 5)
    | _ => false) = true := by decide

/-! ## as found -/

/-- The forward *decision* and destination are those of `handle`; only the wire differs. -/
theorem C13_forward_old_same_decision (cfg : Cfg) (p : Pkt) :
    (∃ f, handleFwdOld cfg p = .forward f) ↔ (∃ f, handle cfg p = .forward f) := by
  unfold handleFwdOld
  cases handle cfg p <;> simp

theorem C13_forward_old_wire (cfg : Cfg) (p : Pkt) (f : Fwd) (h : handleFwdOld cfg p = .forward f) :
    f.wire = fwdWireOld p := by
  unfold handleFwdOld at h
  cases h' : handle cfg p <;> rw [h'] at h <;> simp at h
  rw [← h]

/-- **As found, (a): a packet with a hop-by-hop extension received without a kernel timestamp is
    forwarded as a datagram that does not parse** — NextHdr announces a hop-by-hop extension, the
    UDP header follows. -/
theorem C13_forward_old_garbled (p : Pkt) (hh : p.hbh.isSome = true) (hs : p.stamp = false) :
    (fwdWireOld p).parses = false ∧ (fwdWireOld p).hbh = none ∧ (fwdWireOld p).e2e = none := by
  unfold fwdWireOld recvNext Wire.parses
  simp [hh, hs]

/-- **As found, (b): with a receive timestamp such a packet loses its hop-by-hop extension and
    every end-to-end option it carried** — the authenticator included — in favour of the
    dispatcher's timestamp option. -/
theorem C13_forward_old_drops_extensions (p : Pkt) (hh : p.hbh.isSome = true) (hs : p.stamp = true) :
    (fwdWireOld p).hbh = none ∧ (fwdWireOld p).e2e = some [.ownTs] ∧
    (fwdWireOld p).received = [] ∧ (fwdWireOld p).auth = none := by
  unfold Wire.auth Wire.received fwdWireOld recvNext
  simp [hh, hs, EOpt.received?]

/-- Decided counterexamples on the listener as found: the dispatcher forwards `exPkt` (a) as a
    datagram that does not parse, (b) without the authenticator the received packet carried. -/
theorem C13_forward_old_counterexample_a :
    ∃ f, handleFwdOld dispatcherCfg (exPkt false) = .forward f ∧ f.wire.parses = false := by
  refine ⟨_, rfl, ?_⟩; decide

theorem C13_forward_old_counterexample_b :
    ∃ f, handleFwdOld dispatcherCfg (exPkt true) = .forward f ∧
      f.wire.parses = true ∧ (exPkt true).auth = some (List.replicate 28 5) ∧ f.wire.auth = none ∧
      f.wire.hbh = none := by
  refine ⟨_, rfl, ?_⟩; decide

/-- The repair changes nothing for packets without a hop-by-hop extension (the only packets the
    scion-time client and server send). -/
theorem C13_forward_old_agrees_without_hbh (p : Pkt) (hh : p.hbh = none) (hwf : p.extWF) :
    fwdWireOld p = fwdWire p := by
  obtain ⟨hno, _⟩ := hwf
  unfold fwdWireOld fwdWire recvNext
  cases hs : p.stamp <;> cases he : p.e2e
  · simp [hh]
  · simp [hh]
  · simp [hh]
  · simp [hh]

example : (exPkt true).hbh ≠ none ∧ ({ exPkt true with hbh := none } : Pkt).extWF := by decide

end ScionTime.C13
