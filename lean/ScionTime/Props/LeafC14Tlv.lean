/-
  Kernel-checked ties (C14): the CSPTP TLV codecs of net/csptp/csptp.go — `EncodedRequestTLVLength`,
  `EncodeRequestTLV`, `DecodeRequestTLV`, `EncodedResponseTLVLength`, `EncodeResponseTLV`,
  `DecodeResponseTLV` — as regenerated from /repo's Go source on every run (Gen/LeafCsptp.lean) are
  the model of Model/CsptpCodec.lean, for every TLV (whose fixed-size arrays have their elements) and
  every byte slice (shorter than 2^62 bytes).
-/
import ScionTime.Props.LeafC14Csptp
namespace ScionTime.LeafTieC14Tlv
open ScionTime ScionTime.Gen.Leaf ScionTime.Wire ScionTime.LeafBytes ScionTime.Go ScionTime.GoLemmas
open ScionTime.LeafTieC14Csptp

/-! ### lengths -/

theorem flag_eq (f : UInt32) : ((f &&& (1 : UInt32)) == (1 : UInt32)) = Csptp.hasServerStateDS f.toNat := by
  unfold Csptp.hasServerStateDS
  apply Bool.eq_iff_iff.mpr
  rw [beq_iff_eq, beq_iff_eq, ← UInt32.toNat_inj, UInt32.toNat_and]
  rfl

theorem C14_leaf_EncodedRequestTLVLength (tlv : S_RequestTLV) :
    (csptp_EncodedRequestTLVLength tlv).toInt = Csptp.encodedTLVLength tlv.FlagField.toNat := by
  unfold csptp_EncodedRequestTLVLength Csptp.encodedTLVLength Csptp.tlvShortLen
  rw [flag_eq]
  cases Csptp.hasServerStateDS tlv.FlagField.toNat <;> simp <;> decide

theorem C14_leaf_EncodedResponseTLVLength (tlv : S_ResponseTLV) :
    (csptp_EncodedResponseTLVLength tlv).toInt = Csptp.encodedTLVLength tlv.FlagField.toNat := by
  unfold csptp_EncodedResponseTLVLength Csptp.encodedTLVLength Csptp.tlvShortLen
  rw [flag_eq]
  cases Csptp.hasServerStateDS tlv.FlagField.toNat <;> simp <;> decide

/-! ### request TLV -/

def rv (t : S_RequestTLV) : Csptp.RequestTLV :=
  { type := t.Type'.toNat, length := t.Length.toNat, organizationID := beVal (bytesN t.OrganizationID),
    organizationSubType := beVal (bytesN t.OrganizationSubType), flagField := t.FlagField.toNat }

def decReqView : Option (S_RequestTLV × Bool) → Outcome Csptp.RequestTLV
  | none => .panic "index"
  | some (_, true) => .err "size"
  | some (t, false) => .ok (rv t)

theorem ofNat_lt (n : Nat) (hb : n < 4611686018427387904) (x : Int64) (m : Nat) (hx : x.toInt = m) :
    (Int64.ofNat n < x) ↔ n < m := by
  rw [Int64.lt_iff_toInt_lt, Int64.toInt_ofNat_of_lt (by omega), hx]
  omega

theorem C14_leaf_DecodeRequestTLV (tlv : S_RequestTLV) (b : List UInt8) (hlen : b.length < 4611686018427387904) :
    decReqView (csptp_DecodeRequestTLV tlv b) = Csptp.decodeRequestTLV (bytesN b) := by
  unfold csptp_DecodeRequestTLV Csptp.decodeRequestTLV Csptp.tlvHeadLen Go.len
  have h14 : (14 : Int64).toInt = (14 : Nat) := by decide
  by_cases hshort : b.length < 14
  · have : Int64.ofNat b.length < 14 := (ofNat_lt _ hlen 14 14 h14).mpr hshort
    simp only [this, decide_true, if_true, bytesN, List.length_map, hshort]
    rfl
  · have : ¬ Int64.ofNat b.length < 14 := fun h => hshort ((ofNat_lt _ hlen 14 14 h14).mp h)
    simp only [this, decide_false, Bool.false_eq_true, if_false, bytesN, List.length_map, hshort]
    rw [readFields_ok Csptp.tlvHeadLayout _ (by simp [Csptp.tlvHeadLayout, layoutLen]; omega)]
    have h0 : 13 + 1 ≤ b.length := by omega
    clear hshort this
    generalize hn : b.length = n at hlen ⊢
    clear hn
    revert h0
    generalize b = b0
    intro h0
    obtain ⟨x0, b1, rfl, h1⟩ := cons_of_le b0 13 h0; clear h0
    obtain ⟨x1, b2, rfl, h2⟩ := cons_of_le b1 12 h1; clear h1
    obtain ⟨x2, b3, rfl, h3⟩ := cons_of_le b2 11 h2; clear h2
    obtain ⟨x3, b4, rfl, h4⟩ := cons_of_le b3 10 h3; clear h3
    obtain ⟨x4, b5, rfl, h5⟩ := cons_of_le b4 9 h4; clear h4
    obtain ⟨x5, b6, rfl, h6⟩ := cons_of_le b5 8 h5; clear h5
    obtain ⟨x6, b7, rfl, h7⟩ := cons_of_le b6 7 h6; clear h6
    obtain ⟨x7, b8, rfl, h8⟩ := cons_of_le b7 6 h7; clear h7
    obtain ⟨x8, b9, rfl, h9⟩ := cons_of_le b8 5 h8; clear h8
    obtain ⟨x9, b10, rfl, h10⟩ := cons_of_le b9 4 h9; clear h9
    obtain ⟨x10, b11, rfl, h11⟩ := cons_of_le b10 3 h10; clear h10
    obtain ⟨x11, b12, rfl, h12⟩ := cons_of_le b11 2 h11; clear h11
    obtain ⟨x12, b13, rfl, h13⟩ := cons_of_le b12 1 h12; clear h12
    obtain ⟨x13, b14, rfl, h14⟩ := cons_of_le b13 0 h13; clear h13
    simp only [Go.getK?, List.getElem?_cons_succ, List.getElem?_cons_zero, Option.bind]
    have hcmp := fun (t : S_RequestTLV) => ofNat_lt n hlen
      (csptp_EncodedRequestTLVLength t) (Csptp.encodedTLVLength t.FlagField.toNat) (C14_leaf_EncodedRequestTLVLength t)
    simp only [Csptp.tlvHeadLayout, fieldsOf, List.map_cons, List.take_succ_cons, List.take_zero, List.drop_succ_cons,
      List.drop_zero, Csptp.reqOfFields]
    split
    · rename_i hlt
      have := (hcmp _).mp (of_decide_eq_true hlt)
      simp only [be32] at this
      rw [if_pos this]; rfl
    · rename_i hlt
      have := fun h => hlt (decide_eq_true ((hcmp _).mpr h))
      simp only [be32] at this
      rw [if_neg this]
      simp only [decReqView, rv, bytesN, be16, be32, List.map_cons, List.map_nil]

def encView : Option (List UInt8) → Outcome (List Nat)
  | none => .panic "index"
  | some l => .ok (bytesN l)

/-- the first 14 bytes `EncodeRequestTLV` writes (copied from the generated definition) -/
def reqHead (tlv : S_RequestTLV) : List UInt8 :=
  [(((tlv.Type' >>> (8 : UInt16))).toUInt64.toUInt8),
      ((tlv.Type').toUInt64.toUInt8),
      (((tlv.Length >>> (8 : UInt16))).toUInt64.toUInt8),
      ((tlv.Length).toUInt64.toUInt8),
      (Go.arrGet tlv.OrganizationID 0 (0 : UInt8)),
      (Go.arrGet tlv.OrganizationID 1 (0 : UInt8)),
      (Go.arrGet tlv.OrganizationID 2 (0 : UInt8)),
      (Go.arrGet tlv.OrganizationSubType 0 (0 : UInt8)),
      (Go.arrGet tlv.OrganizationSubType 1 (0 : UInt8)),
      (Go.arrGet tlv.OrganizationSubType 2 (0 : UInt8)),
      (((tlv.FlagField >>> (24 : UInt32))).toUInt64.toUInt8),
      (((tlv.FlagField >>> (16 : UInt32))).toUInt64.toUInt8),
      (((tlv.FlagField >>> (8 : UInt32))).toUInt64.toUInt8),
      ((tlv.FlagField).toUInt64.toUInt8)]

theorem list3 {α : Type} (l : List α) (h : l.length = 3) : ∃ a b c, l = [a, b, c] := by
  match l, h with
  | [a, b, c], _ => exact ⟨a, b, c, rfl⟩

theorem reqHead_eq (tlv : S_RequestTLV) (h1 : tlv.OrganizationID.length = 3) (h2 : tlv.OrganizationSubType.length = 3) :
    bytesN (reqHead tlv) = encodeFields Csptp.tlvHeadLayout (Csptp.reqToFields (rv tlv)) := by
  obtain ⟨a0, a1, a2, ha⟩ := list3 _ h1
  obtain ⟨c0, c1, c2, hc⟩ := list3 _ h2
  have e1 : beBytes 3 (beVal (bytesN [a0, a1, a2])) = bytesN [a0, a1, a2] :=
    beBytes_beVal (bytesN [a0, a1, a2]) (allBytes_bytesN _)
  have e2 : beBytes 3 (beVal (bytesN [c0, c1, c2])) = bytesN [c0, c1, c2] :=
    beBytes_beVal (bytesN [c0, c1, c2]) (allBytes_bytesN _)
  simp only [reqHead, Csptp.tlvHeadLayout, Csptp.reqToFields, rv, ha, hc, encodeFields, e1, e2]
  simp only [bytesN, List.map_cons, List.map_nil, Go.arrGet, List.getD_cons_zero, List.getD_cons_succ, beBytes, List.cons_append,
    List.nil_append, List.append_nil, u16_b1, u32_b3, u32_b2, u32_b1]
  simp only [u16_b0, u32_b0]

theorem trip1 : Go.tripNe (14 : Int64) (36 : Int64) = 22 := by decide
theorem trip2 : Go.tripNe (36 : Int64) (54 : Int64) = 18 := by decide

theorem getK_some (b : List UInt8) (k : Nat) (h : k < b.length) : ∃ x, Go.getK? b k = some x :=
  ⟨b[k], List.getElem?_eq_getElem h⟩
theorem getK_none (b : List UInt8) (k : Nat) (h : b.length ≤ k) : Go.getK? b k = none :=
  List.getElem?_eq_none h

/-- **EncodeRequestTLV**: index panic when the buffer is shorter than 36 bytes (54 with the
    ServerStateDS flag); otherwise the 14 header bytes, 22 (40) zero bytes, and the rest of the
    buffer untouched -/
theorem C14_leaf_EncodeRequestTLV (b : List UInt8) (tlv : S_RequestTLV) (hlen : b.length < 4611686018427387904)
    (h1 : tlv.OrganizationID.length = 3) (h2 : tlv.OrganizationSubType.length = 3) :
    encView (csptp_EncodeRequestTLV b tlv) = Csptp.encodeRequestTLV (bytesN b) (rv tlv) := by
  unfold csptp_EncodeRequestTLV
  show encView ((Go.getK? b 35).bind fun _ => GoSlice.writeSeqK b 0 (reqHead tlv) _) = _
  rw [GoSlice.writeSeqK_eq, trip1, trip2, flag_eq]
  have hl : (reqHead tlv).length = 14 := rfl
  have hhead := reqHead_eq tlv h1 h2
  have hhl : (encodeFields Csptp.tlvHeadLayout (Csptp.reqToFields (rv tlv))).length = 14 := by
    rw [← hhead]; simp [bytesN, hl]
  unfold Csptp.encodeRequestTLV writeInto Csptp.requestTLVBytes Csptp.encodedTLVLength Csptp.tlvShortLen
  have hflag : (rv tlv).flagField = tlv.FlagField.toNat := rfl
  rw [hflag]
  simp only [bytesN, List.length_map]
  by_cases hshort : b.length < 36
  · rw [getK_none b 35 (by omega), if_pos hshort]; rfl
  · obtain ⟨x, hx⟩ := getK_some b 35 (by omega)
    rw [hx, if_neg hshort, Option.bind_some, GoSlice.writeSeqL_some _ _ _ (by rw [hl]; omega), Option.bind_some]
    simp only [List.take_zero, List.nil_append, Nat.zero_add, hl]
    have h14 : (14 : Int64).toInt = (14 : Nat) := by decide
    have h36 : (36 : Int64).toInt = (36 : Nat) := by decide
    rw [GoSlice.zeroLoop 22 14 14 _ h14 (by simp [hl]; omega) (by omega)]
    simp only []
    have hb2 : (reqHead tlv ++ List.drop 14 b).take 14 ++ List.replicate 22 0 ++ (reqHead tlv ++ List.drop 14 b).drop (14 + 22) =
        reqHead tlv ++ List.replicate 22 0 ++ b.drop 36 := by
      rw [List.take_append_of_le_length (by rw [hl]; exact Nat.le_refl _), ← hl, List.take_length, hl,
        List.drop_append, hl]
      simp only [Nat.reduceAdd, Nat.reduceSub, List.drop_drop]
      rw [List.drop_eq_nil_of_le (by rw [hl]; omega)]
      simp
    rw [hb2]
    cases hf : Csptp.hasServerStateDS tlv.FlagField.toNat
    · -- no ServerStateDS
      simp only [Bool.false_eq_true, if_false, Option.bind_some, encView, hshort]
      simp only [bytesN, List.map_append, List.map_replicate, List.map_drop, zeros, List.append_nil,
        List.length_append, List.length_replicate, hhl]
      rw [← bytesN, hhead]
      rfl
    · simp only [if_true]
      by_cases hshort2 : b.length < 54
      · rw [getK_none _ 53 (by simp [hl]; omega)]
        simp only [Option.bind_none, encView, Nat.reduceAdd, hshort2, if_true]
      · obtain ⟨y, hy⟩ := getK_some (reqHead tlv ++ List.replicate 22 0 ++ b.drop 36) 53 (by simp [hl]; omega)
        rw [hy, Option.bind_some, GoSlice.zeroLoop 18 36 36 _ h36 (by simp [hl]; omega) (by omega)]
        simp only [Option.bind_some, encView, Nat.reduceAdd, hshort2, if_false]
        have hb3 : (reqHead tlv ++ List.replicate 22 0 ++ b.drop 36).take 36 ++ List.replicate 18 0 ++
            (reqHead tlv ++ List.replicate 22 0 ++ b.drop 36).drop 54 =
            reqHead tlv ++ List.replicate 22 0 ++ List.replicate 18 0 ++ b.drop 54 := by
          have hl2 : (reqHead tlv ++ List.replicate 22 (0 : UInt8)).length = 36 := by simp [hl]
          rw [List.take_append_of_le_length (by rw [hl2]; exact Nat.le_refl _), ← hl2, List.take_length, hl2,
            List.drop_append, hl2]
          simp only [Nat.reduceSub, List.drop_drop, Nat.reduceAdd]
          rw [List.drop_eq_nil_of_le (by rw [hl2]; omega)]
          simp
        rw [hb3]
        simp only [bytesN, List.map_append, List.map_replicate, List.map_drop, zeros,
          List.length_append, List.length_replicate, hhl]
        rw [← bytesN, hhead]
        rfl

/-! ### response TLV -/

def dsv (d : S_ServerStateDS) : Csptp.ServerStateDS :=
  { gmPriority1 := d.GMPriority1.toNat, gmClockClass := d.GMClockClass.toNat, gmClockAccuracy := d.GMClockAccuracy.toNat,
    gmClockVariance := d.GMClockVariance.toNat, gmPriority2 := d.GMPriority2.toNat, gmClockID := d.GMClockID.toNat,
    stepsRemoved := d.StepsRemoved.toNat, timeSource := d.TimeSource.toNat, reserved := d.Reserved.toNat }

def rsv (t : S_ResponseTLV) : Csptp.ResponseTLV :=
  { type := t.Type'.toNat, length := t.Length.toNat, organizationID := beVal (bytesN t.OrganizationID),
    organizationSubType := beVal (bytesN t.OrganizationSubType), flagField := t.FlagField.toNat, error := t.Error.toNat,
    requestIngressTimestamp := ⟨beVal (bytesN t.RequestIngressTimestamp.Seconds), t.RequestIngressTimestamp.Nanoseconds.toNat⟩,
    requestCorrectionField := t.RequestCorrectionField.toInt, utcOffset := t.UTCOffset.toInt,
    serverStateDS := dsv t.ServerStateDS }

def decRespView : Option (S_ResponseTLV × Bool) → Outcome Csptp.ResponseTLV
  | none => .panic "index"
  | some (_, true) => .err "size"
  | some (t, false) => .ok (rsv t)

theorem encLen_ge (f : Nat) : 36 ≤ Csptp.encodedTLVLength f ∧ (Csptp.hasServerStateDS f = true → Csptp.encodedTLVLength f = 54) ∧
    (Csptp.hasServerStateDS f = false → Csptp.encodedTLVLength f = 36) := by
  unfold Csptp.encodedTLVLength Csptp.tlvShortLen
  cases Csptp.hasServerStateDS f <;> simp

theorem C14_leaf_DecodeResponseTLV (tlv : S_ResponseTLV) (b : List UInt8) (hlen : b.length < 4611686018427387904) :
    decRespView (csptp_DecodeResponseTLV tlv b) = Csptp.decodeResponseTLV (bytesN b) := by
  unfold csptp_DecodeResponseTLV Csptp.decodeResponseTLV Csptp.tlvHeadLen Csptp.tlvShortLen Go.len
  have h14 : (14 : Int64).toInt = (14 : Nat) := by decide
  by_cases hshort : b.length < 14
  · have : Int64.ofNat b.length < 14 := (ofNat_lt _ hlen 14 14 h14).mpr hshort
    simp only [this, decide_true, if_true, bytesN, List.length_map, hshort]
    rfl
  · have hnot : ¬ Int64.ofNat b.length < 14 := fun h => hshort ((ofNat_lt _ hlen 14 14 h14).mp h)
    have hge14 : 14 ≤ b.length := by omega
    simp only [hnot, decide_false, Bool.false_eq_true, if_false, bytesN, List.length_map, hshort]
    rw [readFields_ok Csptp.tlvHeadLayout _ (by simp [Csptp.tlvHeadLayout, layoutLen]; omega),
      fieldsOf_at0 _ _ (by simp [Csptp.tlvHeadLayout, layoutLen]; omega)]
    simp (disch := omega) only [getK_getD, Option.bind_some]
    simp only [Csptp.tlvHeadLayout, fieldsAt, range2, range3, range4, List.map_cons, List.map_nil, Nat.reduceAdd, Nat.add_zero,
      Nat.zero_add, getD_bytes, Csptp.reqOfFields]
    have hcmp := fun (t : S_ResponseTLV) => ofNat_lt b.length hlen
      (csptp_EncodedResponseTLVLength t) (Csptp.encodedTLVLength t.FlagField.toNat) (C14_leaf_EncodedResponseTLVLength t)
    have hfl := flag_eq ((b.getD 10 0).toUInt64.toUInt32 <<< 24 ||| (b.getD 11 0).toUInt64.toUInt32 <<< 16 |||
      (b.getD 12 0).toUInt64.toUInt32 <<< 8 ||| (b.getD 13 0).toUInt64.toUInt32)
    rw [be32] at hfl
    split
    · rename_i hlt
      have := (hcmp _).mp (of_decide_eq_true hlt)
      simp only [be32] at this
      rw [if_pos this]; rfl
    · rename_i hlt
      have hge : ¬ b.length < _ := fun h => hlt (decide_eq_true ((hcmp _).mpr h))
      simp only [be32] at hge
      rw [if_neg hge]
      obtain ⟨hm36, hm54, hm36'⟩ := encLen_ge (beVal [(b.getD 10 0).toNat, (b.getD 11 0).toNat, (b.getD 12 0).toNat, (b.getD 13 0).toNat])
      have hge36 : 36 ≤ b.length := by omega
      rw [readFields_ok Csptp.respBodyLayout _ (by simp [Csptp.respBodyLayout, layoutLen]; omega),
        fieldsOf_at _ _ 14 (by simp [Csptp.respBodyLayout, layoutLen]; omega)]
      simp (disch := omega) only [getK_getD, Option.bind_some]
      rw [hfl]
      cases hf : Csptp.hasServerStateDS (beVal [(b.getD 10 0).toNat, (b.getD 11 0).toNat, (b.getD 12 0).toNat, (b.getD 13 0).toNat])
      · simp only [Bool.false_eq_true, if_false, Option.bind_some, decRespView]
        simp only [rsv, dsv, bytesN, be16, be32, be64, u_i64, u16_i16, Csptp.respBodyLayout, fieldsAt, range2, range4, range6, range8,
          List.map_cons, List.map_nil, Nat.reduceAdd, Nat.add_zero, getD_bytes, Csptp.respOfFields, Csptp.zeroDS]
        rfl
      · have h54 := hm54 hf
        have hge54 : 54 ≤ b.length := by omega
        rw [readFields_ok Csptp.dsLayout _ (by simp [Csptp.dsLayout, layoutLen]; omega),
          fieldsOf_at _ _ 36 (by simp [Csptp.dsLayout, layoutLen]; omega)]
        simp (disch := omega) only [getK_getD, Option.bind_some, if_true]
        simp only [decRespView, rsv, dsv, bytesN, be16, be32, be64, u_i64, u16_i16, Csptp.respBodyLayout, Csptp.dsLayout, fieldsAt,
          range1, range2, range4, range6, range8, List.map_cons, List.map_nil, Nat.reduceAdd, Nat.add_zero, getD_bytes,
          Csptp.respOfFields, Csptp.dsOfFields, beVal_single]

/-- the 36 + 18 bytes `EncodeResponseTLV` writes (copied from the generated definition; the proof
    below checks by `show` that they are what it writes) -/
def resp36 (tlv : S_ResponseTLV) : List UInt8 :=
  [(((tlv.Type' >>> (8 : UInt16))).toUInt64.toUInt8),
      ((tlv.Type').toUInt64.toUInt8),
      (((tlv.Length >>> (8 : UInt16))).toUInt64.toUInt8),
      ((tlv.Length).toUInt64.toUInt8),
      (Go.arrGet tlv.OrganizationID 0 (0 : UInt8)),
      (Go.arrGet tlv.OrganizationID 1 (0 : UInt8)),
      (Go.arrGet tlv.OrganizationID 2 (0 : UInt8)),
      (Go.arrGet tlv.OrganizationSubType 0 (0 : UInt8)),
      (Go.arrGet tlv.OrganizationSubType 1 (0 : UInt8)),
      (Go.arrGet tlv.OrganizationSubType 2 (0 : UInt8)),
      (((tlv.FlagField >>> (24 : UInt32))).toUInt64.toUInt8),
      (((tlv.FlagField >>> (16 : UInt32))).toUInt64.toUInt8),
      (((tlv.FlagField >>> (8 : UInt32))).toUInt64.toUInt8),
      ((tlv.FlagField).toUInt64.toUInt8),
      (((tlv.Error >>> (8 : UInt16))).toUInt64.toUInt8),
      ((tlv.Error).toUInt64.toUInt8),
      (Go.arrGet tlv.RequestIngressTimestamp.Seconds 0 (0 : UInt8)),
      (Go.arrGet tlv.RequestIngressTimestamp.Seconds 1 (0 : UInt8)),
      (Go.arrGet tlv.RequestIngressTimestamp.Seconds 2 (0 : UInt8)),
      (Go.arrGet tlv.RequestIngressTimestamp.Seconds 3 (0 : UInt8)),
      (Go.arrGet tlv.RequestIngressTimestamp.Seconds 4 (0 : UInt8)),
      (Go.arrGet tlv.RequestIngressTimestamp.Seconds 5 (0 : UInt8)),
      (((tlv.RequestIngressTimestamp.Nanoseconds >>> (24 : UInt32))).toUInt64.toUInt8),
      (((tlv.RequestIngressTimestamp.Nanoseconds >>> (16 : UInt32))).toUInt64.toUInt8),
      (((tlv.RequestIngressTimestamp.Nanoseconds >>> (8 : UInt32))).toUInt64.toUInt8),
      ((tlv.RequestIngressTimestamp.Nanoseconds).toUInt64.toUInt8),
      (((((tlv.RequestCorrectionField).toUInt64) >>> (56 : UInt64))).toUInt8),
      (((((tlv.RequestCorrectionField).toUInt64) >>> (48 : UInt64))).toUInt8),
      (((((tlv.RequestCorrectionField).toUInt64) >>> (40 : UInt64))).toUInt8),
      (((((tlv.RequestCorrectionField).toUInt64) >>> (32 : UInt64))).toUInt8),
      (((((tlv.RequestCorrectionField).toUInt64) >>> (24 : UInt64))).toUInt8),
      (((((tlv.RequestCorrectionField).toUInt64) >>> (16 : UInt64))).toUInt8),
      (((((tlv.RequestCorrectionField).toUInt64) >>> (8 : UInt64))).toUInt8),
      ((((tlv.RequestCorrectionField).toUInt64)).toUInt8),
      (((tlv.UTCOffset >>> (8 : Int16))).toInt64.toUInt64.toUInt8),
      ((tlv.UTCOffset).toInt64.toUInt64.toUInt8)]

def resp18 (tlv : S_ResponseTLV) : List UInt8 :=
  [tlv.ServerStateDS.GMPriority1,
      tlv.ServerStateDS.GMClockClass,
      tlv.ServerStateDS.GMClockAccuracy,
      (((tlv.ServerStateDS.GMClockVariance >>> (8 : UInt16))).toUInt64.toUInt8),
      ((tlv.ServerStateDS.GMClockVariance).toUInt64.toUInt8),
      tlv.ServerStateDS.GMPriority2,
      (((tlv.ServerStateDS.GMClockID >>> (56 : UInt64))).toUInt8),
      (((tlv.ServerStateDS.GMClockID >>> (48 : UInt64))).toUInt8),
      (((tlv.ServerStateDS.GMClockID >>> (40 : UInt64))).toUInt8),
      (((tlv.ServerStateDS.GMClockID >>> (32 : UInt64))).toUInt8),
      (((tlv.ServerStateDS.GMClockID >>> (24 : UInt64))).toUInt8),
      (((tlv.ServerStateDS.GMClockID >>> (16 : UInt64))).toUInt8),
      (((tlv.ServerStateDS.GMClockID >>> (8 : UInt64))).toUInt8),
      ((tlv.ServerStateDS.GMClockID).toUInt8),
      (((tlv.ServerStateDS.StepsRemoved >>> (8 : UInt16))).toUInt64.toUInt8),
      ((tlv.ServerStateDS.StepsRemoved).toUInt64.toUInt8),
      tlv.ServerStateDS.TimeSource,
      tlv.ServerStateDS.Reserved]

theorem list6 {α : Type} (l : List α) (h : l.length = 6) : ∃ a b c d e f, l = [a, b, c, d, e, f] := by
  match l, h with
  | [a, b, c, d, e, f], _ => exact ⟨a, b, c, d, e, f, rfl⟩

theorem toU16_b0 (x : Int) : toU 16 x / 256 ^ 0 % 256 = toU 16 x % 256 := by simp

theorem resp36_eq (tlv : S_ResponseTLV) (h1 : tlv.OrganizationID.length = 3) (h2 : tlv.OrganizationSubType.length = 3)
    (h3 : tlv.RequestIngressTimestamp.Seconds.length = 6) :
    bytesN (resp36 tlv) = encodeFields Csptp.tlvHeadLayout (Csptp.respHeadFields (rsv tlv)) ++
      encodeFields Csptp.respBodyLayout (Csptp.respBodyFields (rsv tlv)) := by
  obtain ⟨a0, a1, a2, ha⟩ := list3 _ h1
  obtain ⟨c0, c1, c2, hc⟩ := list3 _ h2
  obtain ⟨s0, s1, s2, s3, s4, s5, hs⟩ := list6 _ h3
  have e1 : beBytes 3 (beVal (bytesN [a0, a1, a2])) = bytesN [a0, a1, a2] :=
    beBytes_beVal (bytesN [a0, a1, a2]) (allBytes_bytesN _)
  have e2 : beBytes 3 (beVal (bytesN [c0, c1, c2])) = bytesN [c0, c1, c2] :=
    beBytes_beVal (bytesN [c0, c1, c2]) (allBytes_bytesN _)
  have e3 : beBytes 6 (beVal (bytesN [s0, s1, s2, s3, s4, s5])) = bytesN [s0, s1, s2, s3, s4, s5] :=
    beBytes_beVal (bytesN [s0, s1, s2, s3, s4, s5]) (allBytes_bytesN _)
  simp only [resp36, Csptp.tlvHeadLayout, Csptp.respBodyLayout, Csptp.respHeadFields, Csptp.respBodyFields, rsv, ha, hc, hs,
    encodeFields, e1, e2, e3]
  simp only [bytesN, List.map_cons, List.map_nil, Go.arrGet, List.getD_cons_zero, List.getD_cons_succ, beBytes, List.cons_append,
    List.nil_append, List.append_nil, u16_b1, u32_b3, u32_b2, u32_b1,
    u64_b7, u64_b6, u64_b5, u64_b4, u64_b3, u64_b2, u64_b1, i16_b1]
  simp only [i16_b0]
  simp only [u64_b0, i64_u, UInt16.toNat_toUInt64, UInt32.toNat_toUInt64]

theorem resp18_eq (tlv : S_ResponseTLV) :
    bytesN (resp18 tlv) = encodeFields Csptp.dsLayout (Csptp.dsToFields (rsv tlv).serverStateDS) := by
  simp only [resp18, Csptp.dsLayout, Csptp.dsToFields, rsv, dsv, encodeFields]
  simp only [bytesN, List.map_cons, List.map_nil, beBytes, List.cons_append,
    List.nil_append, List.append_nil, u16_b1,
    u64_b7, u64_b6, u64_b5, u64_b4, u64_b3, u64_b2, u64_b1, u8_b]
  simp only [u64_b0, UInt16.toNat_toUInt64]

/-- **EncodeResponseTLV**: index panic when the buffer is shorter than 36 bytes (54 with the
    ServerStateDS flag); otherwise the model's bytes, the rest of the buffer untouched -/
theorem C14_leaf_EncodeResponseTLV (b : List UInt8) (tlv : S_ResponseTLV)
    (h1 : tlv.OrganizationID.length = 3) (h2 : tlv.OrganizationSubType.length = 3)
    (h3 : tlv.RequestIngressTimestamp.Seconds.length = 6) :
    encView (csptp_EncodeResponseTLV b tlv) = Csptp.encodeResponseTLV (bytesN b) (rsv tlv) := by
  unfold csptp_EncodeResponseTLV
  show encView ((Go.getK? b 35).bind fun _ => GoSlice.writeSeqK b 0 (resp36 tlv) fun b =>
    (if ((tlv.FlagField &&& (1 : UInt32)) == (1 : UInt32)) then
      (Go.getK? b 53).bind fun _ => GoSlice.writeSeqK b 36 (resp18 tlv) fun b => some b
    else some b).bind fun b => some b) = _
  simp only [GoSlice.writeSeqK_eq, flag_eq]
  have hl : (resp36 tlv).length = 36 := rfl
  have hl2 : (resp18 tlv).length = 18 := rfl
  have e36 := resp36_eq tlv h1 h2 h3
  have e18 := resp18_eq tlv
  have hml : (encodeFields Csptp.tlvHeadLayout (Csptp.respHeadFields (rsv tlv)) ++
      encodeFields Csptp.respBodyLayout (Csptp.respBodyFields (rsv tlv))).length = 36 := by
    rw [← e36]; simp [bytesN, hl]
  have hml2 : (encodeFields Csptp.dsLayout (Csptp.dsToFields (rsv tlv).serverStateDS)).length = 18 := by
    rw [← e18]; simp [bytesN, hl2]
  unfold Csptp.encodeResponseTLV writeInto Csptp.responseTLVBytes Csptp.encodedTLVLength Csptp.tlvShortLen
  have hflag : (rsv tlv).flagField = tlv.FlagField.toNat := rfl
  rw [hflag]
  simp only [bytesN, List.length_map]
  by_cases hshort : b.length < 36
  · rw [getK_none b 35 (by omega), if_pos hshort]; rfl
  · obtain ⟨x, hx⟩ := getK_some b 35 (by omega)
    rw [hx, if_neg hshort, Option.bind_some, GoSlice.writeSeqL_some _ _ _ (by rw [hl]; omega), Option.bind_some]
    simp only [List.take_zero, List.nil_append, Nat.zero_add, hl]
    cases hf : Csptp.hasServerStateDS tlv.FlagField.toNat
    · simp only [Bool.false_eq_true, if_false, Option.bind_some, encView, hshort, List.append_nil]
      simp only [bytesN, List.map_append, List.map_drop]
      rw [← bytesN, e36, hml]
    · simp only [if_true]
      by_cases hshort2 : b.length < 54
      · rw [getK_none _ 53 (by simp [hl]; omega)]
        simp only [Option.bind_none, encView, Nat.reduceAdd, hshort2, if_true]
      · obtain ⟨y, hy⟩ := getK_some (resp36 tlv ++ b.drop 36) 53 (by simp [hl]; omega)
        rw [hy, Option.bind_some, GoSlice.writeSeqL_some _ _ _ (by simp [hl, hl2]; omega)]
        simp only [Option.bind_some, encView, Nat.reduceAdd, hshort2, if_false, hl2]
        have hb3 : (resp36 tlv ++ b.drop 36).take 36 ++ resp18 tlv ++ (resp36 tlv ++ b.drop 36).drop 54 =
            resp36 tlv ++ resp18 tlv ++ b.drop 54 := by
          rw [List.take_append_of_le_length (by rw [hl]; exact Nat.le_refl _), ← hl, List.take_length, hl,
            List.drop_append, hl]
          simp only [Nat.reduceSub, List.drop_drop, Nat.reduceAdd]
          rw [List.drop_eq_nil_of_le (by rw [hl]; omega)]
          simp
        rw [hb3]
        simp only [bytesN, List.map_append, List.map_drop, List.length_append, hml, hml2]
        rw [← bytesN, e36, ← bytesN, e18]

/-- non-vacuity through the generated definitions: a request TLV with the ServerStateDS flag needs
    54 bytes (53 panic; without the flag 36 suffice) and decodes back; a response TLV with the flag
    round-trips including its ServerStateDS, and without it decodes with a zero one -/
def exReq (flag : UInt32) : S_RequestTLV := { Type' := 3, Length := 50, OrganizationID := [0xec, 0x46, 0x70], OrganizationSubType := [0x52, 0x65, 0x71], FlagField := flag }
def zeroReq : S_RequestTLV := { Type' := 0, Length := 0, OrganizationID := [0, 0, 0], OrganizationSubType := [0, 0, 0], FlagField := 0 }
example : ((csptp_EncodeRequestTLV (List.replicate 55 9) (exReq 1)).bind fun b => (csptp_DecodeRequestTLV zeroReq b).map fun r => (rv r.1, r.2, b.drop 52)) =
    some (rv (exReq 1), false, [0, 0, 9]) := by decide
example : csptp_EncodeRequestTLV (List.replicate 53 9) (exReq 1) = none ∧ (csptp_EncodeRequestTLV (List.replicate 36 9) (exReq 0)).isSome := by decide
def exDS : S_ServerStateDS := ⟨1, 2, 3, 0x0405, 6, 0x1112131415161718, 0x2122, 7, 8⟩
def exResp (flag : UInt32) : S_ResponseTLV :=
  { Type' := 3, Length := 50, OrganizationID := [0xec, 0x46, 0x70], OrganizationSubType := [0x52, 0x65, 0x73], FlagField := flag, Error := 1,
    RequestIngressTimestamp := ⟨[1, 2, 3, 4, 5, 6], 0x61626364⟩, RequestCorrectionField := -5, UTCOffset := -37, ServerStateDS := exDS }
def zeroResp : S_ResponseTLV :=
  { Type' := 0, Length := 0, OrganizationID := [0, 0, 0], OrganizationSubType := [0, 0, 0], FlagField := 0, Error := 0,
    RequestIngressTimestamp := ⟨[0, 0, 0, 0, 0, 0], 0⟩, RequestCorrectionField := 0, UTCOffset := 0, ServerStateDS := ⟨9, 9, 9, 9, 9, 9, 9, 9, 9⟩ }
example : ((csptp_EncodeResponseTLV (List.replicate 54 9) (exResp 1)).bind fun b => (csptp_DecodeResponseTLV zeroResp b).map fun r => (rsv r.1, r.2)) =
    some (rsv (exResp 1), false) := by decide
example : ((csptp_EncodeResponseTLV (List.replicate 54 9) (exResp 0)).bind fun b => (csptp_DecodeResponseTLV zeroResp b).map fun r => (rsv r.1).serverStateDS) =
    some Csptp.zeroDS := by decide

end ScionTime.LeafTieC14Tlv
