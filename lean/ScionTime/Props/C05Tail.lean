/-
  C03 / C05 / C11 / C13 / C15 — the clients' behaviour around the per-datagram decision
  (Model/ClientTail.lean):

  (h) `Histogram.RecordValue` fails AFTER `c.prev` was overwritten and `Filter.Do` absorbed the
      sample. The invariant "an exchange that reports an error leaves the client's state unchanged"
      (second half of `C05_never_offset_otherwise_ip/_scion`, stated there for the part of the code
      up to the prev update) does NOT hold for the whole function when a histogram is configured;
      what does hold, for every histogram, filter, state and delivered sequence:
        * the state after the call is the state of the model without a histogram — a call that
          ends in the histogram error is, for everything that follows, an ACCEPTED exchange
          (so the pairing theorems of Props/C03 about threads of `prev` apply verbatim);
        * an error with changed state is the histogram error, it needs a histogram, and it comes
          with an accepted response whose round-trip delay the histogram refuses;
        * an offset is reported only for an accepted response (C05's "never an offset" is untouched);
        * the next interleaved response evaluated against that state combines three stamps of the
          call that reported the error — of ONE exchange (C03's clause holds; the exchange it
          belongs to is one whose own call failed);
        * a negative round-trip delay of a microsecond or more passes `ValidateResponseTimestamps`
          and is refused by every histogram; the benchmark histogram refuses ≥ 262.144 ms.
      The record-first variant restores "error ⇒ state unchanged".
  (r) the outgoing SCION header and the hosts named in the client's DRKey request.
  (p) the cookie pool when an authenticated datagram fails the origin check.
  (w) number of exchanges per attempt loop.
-/
import ScionTime.Model.ClientTail
import ScionTime.Model.ScionSrv
import ScionTime.Gen.Client
namespace ScionTime.Props.C05Tail
open ScionTime.Time64 ScionTime.NtpMath ScionTime.ClientNtp ScionTime.ClientFlow ScionTime.ClientTail

/-! ### regenerated facts (harness/extract/x_c03c05c11c13tail.go) -/

/-- the order `tail` is written in: prev update, filter, histogram — in both clients -/
theorem C05T_pin_tail_order :
    Gen.Client.clientTailOrderIP = "prev,filter,histogram" ∧ Gen.Client.clientTailOrderSCION = "prev,filter,histogram" ∧
    Gen.Client.clientHistogramArgIP = "rtd.Microseconds()" ∧ Gen.Client.clientHistogramArgSCION = "rtd.Microseconds()" := by
  decide

/-- `poolLoop` stores before it looks at the origin: `nts.ProcessResponse` precedes the origin check -/
theorem C11T_pin_nts_before_origin :
    Gen.Client.clientNtsBeforeOriginIP = true ∧ Gen.Client.clientNtsBeforeOriginSCION = true := by
  decide

/-- No `RecyclePaths()` in core/client: a received SCION header is decoded with
    `path.NewPath(type)` under strict decoding, an unregistered path type is a decoding error
    (`.skip .layers`), and the four registered types (empty, SCION, one-hop, EPIC) are the four
    `spao.ComputeAuthCMAC` serialises — so the `panic(err)` behind the client's MAC computation
    over a received packet is not reachable from network input (`C05_scion_panic_only_from_timestamps`
    rests on this; the listener's F4e was a `RecyclePaths()` call). Harness c03 (`c05spao`) sends
    authenticated-looking packets under every path type 0..255. -/
theorem C08T_pin_no_recycle_paths : Gen.Client.clientRecyclePathsCalls = 0 := by decide

/-- the statements `mkScionRequestHeader` mirrors, in source order -/
theorem C05T_pin_header_sets :
    Gen.Client.clientScionHeaderSets =
      "scionLayer.TrafficClass=c.DSCP << 2 | scionLayer.SrcIA=localAddr.IA | scionLayer.SetSrcAddr(addr.HostIP(srcAddrIP.Unmap())) | scionLayer.DstIA=remoteAddr.IA | scionLayer.SetDstAddr(addr.HostIP(dstAddrIP.Unmap())) | path.Dataplane().SetPath(&scionLayer) | scionLayer.NextHdr=slayers.L4UDP | udpLayer.SrcPort=uint16(localPort) | udpLayer.DstPort=uint16(remoteAddr.Host.Port) | scionLayer.NextHdr=slayers.End2EndClass" := rfl

/-! ### (h) histogram -/

theorem tail_prev (cfg : Cfg) (hist : Option Hist) (filter : Option (Int → Int → Int → Int → Int64))
    (prev : Prev) (reference : String) (cTx1 : Int) (a : Accepted) :
    (tail cfg hist filter prev reference cTx1 a).prev = updatePrev cfg prev reference cTx1 a := by
  cases hist with
  | none => rfl
  | some h =>
    simp only [tail]
    split <;> rfl

theorem tail_absorbed (cfg : Cfg) (hist : Option Hist) (filter : Option (Int → Int → Int → Int → Int64))
    (prev : Prev) (reference : String) (cTx1 : Int) (a : Accepted) :
    (tail cfg hist filter prev reference cTx1 a).absorbed = filter.map fun _ => (a.t0, a.t1, a.t2, a.t3) := by
  cases hist with
  | none => rfl
  | some h =>
    simp only [tail]
    split <;> rfl

theorem finish_prev (cfg : Cfg) (hist : Option Hist) (filter : Option (Int → Int → Int → Int → Int64))
    (prev : Prev) (reference : String) (cTx1 : Int) (out : Outcome) :
    (finish cfg hist filter prev reference cTx1 out).prev =
      (match out with
       | .accepted a _ => updatePrev cfg prev reference cTx1 a
       | _ => prev) := by
  cases out with
  | accepted a n => simp only [finish, tail_prev]
  | error e n => rfl
  | panic n => rfl
  | blocked => rfl

/-- **State as without a histogram** (IP): whatever the histogram says, the client's state after
    the call is that of `ClientNtp.exchangeIP`. -/
theorem C05T_state_as_without_histogram_ip (cfg : Cfg) (hist : Option Hist)
    (filter : Option (Int → Int → Int → Int → Int64)) (server : Nat) (prev : Prev) (reference : String)
    (now cTx1 : Int) (evs : List (Event IpDgram)) :
    (exchangeIPH cfg hist filter server prev reference now cTx1 evs).prev =
      (exchangeIP cfg server prev reference now cTx1 evs).2 := by
  unfold exchangeIPH exchangeIP
  simp only
  cases (runLoop (fun cRx d => classifyIP cfg server prev (mkRequest cfg prev reference now) cTx1 cRx d)
      cfg.deadlineSet 0 0 evs) with
  | accepted a n => simp only [finish, tail_prev]
  | error e n => rfl
  | panic n => rfl
  | blocked => rfl

/-- the same for the SCION client -/
theorem C05T_state_as_without_histogram_scion (cfg : Cfg) (hist : Option Hist)
    (filter : Option (Int → Int → Int → Int → Int64)) (sc : ScionCtx) (prev : Prev) (reference : String)
    (now cTx1 : Int) (evs : List (Event ScionDgram)) :
    (exchangeSCIONH cfg hist filter sc prev reference now cTx1 evs).prev =
      (exchangeSCION cfg sc prev reference now cTx1 evs).2 := by
  unfold exchangeSCIONH exchangeSCION
  simp only
  cases (runLoop (fun cRx d => classifySCION cfg sc prev (mkRequest cfg prev reference now) cTx1 cRx d)
      cfg.deadlineSet 0 0 evs) with
  | accepted a n => simp only [finish, tail_prev]
  | error e n => rfl
  | panic n => rfl
  | blocked => rfl

/-- what a call reports, by cases of the receive loop's outcome -/
theorem finish_result (cfg : Cfg) (hist : Option Hist) (filter : Option (Int → Int → Int → Int → Int64))
    (prev : Prev) (reference : String) (cTx1 : Int) (out : Outcome) :
    let r := finish cfg hist filter prev reference cTx1 out
    (∀ ts off, r.result = .ok ts off →
        ∃ a n, out = .accepted a n ∧ ts = a.cRx ∧ off = returnedOffset filter a ∧
          (∀ h, hist = some h → h.recordOk a.rtd = true)) ∧
    (r.result = .errHist →
        ∃ a n h, out = .accepted a n ∧ hist = some h ∧ h.recordOk a.rtd = false ∧
          r.prev = updatePrev cfg prev reference cTx1 a ∧
          r.absorbed = filter.map fun _ => (a.t0, a.t1, a.t2, a.t3)) ∧
    (r.result.isOk = false → r.result ≠ .errHist → r.prev = prev ∧ r.absorbed = none) := by
  intro r
  cases out with
  | accepted a n =>
    cases hist with
    | none =>
      refine ⟨?_, ?_, ?_⟩
      · intro ts off h
        simp only [r, finish, tail, Result.ok.injEq] at h
        exact ⟨a, n, rfl, h.1.symm, h.2.symm, by intro h0 hh; cases hh⟩
      · intro h; simp [r, finish, tail] at h
      · intro h; simp [r, finish, tail, Result.isOk] at h
    | some h0 =>
      by_cases hr : h0.recordOk a.rtd = true
      · have hres : r = ⟨.ok a.cRx (returnedOffset filter a), updatePrev cfg prev reference cTx1 a,
            filter.map fun _ => (a.t0, a.t1, a.t2, a.t3)⟩ := by
          simp only [r, finish, tail, hr, if_true]
        refine ⟨?_, ?_, ?_⟩
        · intro ts off h
          rw [hres] at h
          simp only [Result.ok.injEq] at h
          exact ⟨a, n, rfl, h.1.symm, h.2.symm, by intro h1 hh; cases hh; exact hr⟩
        · intro h; rw [hres] at h; cases h
        · intro h; rw [hres] at h; simp [Result.isOk] at h
      · have hr' : h0.recordOk a.rtd = false := by simpa using hr
        have hres : r = ⟨.errHist, updatePrev cfg prev reference cTx1 a,
            filter.map fun _ => (a.t0, a.t1, a.t2, a.t3)⟩ := by
          simp only [r, finish, tail, hr', Bool.false_eq_true, if_false]
        refine ⟨?_, ?_, ?_⟩
        · intro ts off h; rw [hres] at h; cases h
        · intro _; exact ⟨a, n, h0, rfl, rfl, hr', by rw [hres], by rw [hres]⟩
        · intro _ h; rw [hres] at h; exact absurd rfl h
  | error e n =>
    refine ⟨?_, ?_, ?_⟩
    · intro ts off h; simp [r, finish] at h
    · intro h; simp [r, finish] at h
    · intro _ _; exact ⟨rfl, rfl⟩
  | panic n =>
    refine ⟨?_, ?_, ?_⟩
    · intro ts off h; simp [r, finish] at h
    · intro h; simp [r, finish] at h
    · intro _ _; exact ⟨rfl, rfl⟩
  | blocked =>
    refine ⟨?_, ?_, ?_⟩
    · intro ts off h; simp [r, finish] at h
    · intro h; simp [r, finish] at h
    · intro _ _; exact ⟨rfl, rfl⟩

/-- **Never an offset otherwise, with the histogram** (IP): an offset is reported only for a
    response the loop accepted (→ `C05_never_offset_otherwise_ip`: a datagram of the delivered
    sequence meeting every condition); the corrected state invariant: a call that reports no
    offset leaves `prev` and the filter alone UNLESS it ends in the histogram error — and then the
    state is the accepted exchange's and the filter has absorbed its tuple. -/
theorem C05T_never_offset_otherwise_ip (cfg : Cfg) (hist : Option Hist)
    (filter : Option (Int → Int → Int → Int → Int64)) (server : Nat) (prev : Prev) (reference : String)
    (now cTx1 : Int) (evs : List (Event IpDgram)) :
    let r := exchangeIPH cfg hist filter server prev reference now cTx1 evs
    let out := (exchangeIP cfg server prev reference now cTx1 evs).1
    (∀ ts off, r.result = .ok ts off → ∃ a n, out = .accepted a n ∧ ts = a.cRx ∧ off = returnedOffset filter a) ∧
    (r.result = .errHist → hist ≠ none ∧ ∃ a n, out = .accepted a n ∧
        r.prev = updatePrev cfg prev reference cTx1 a ∧ r.absorbed = filter.map fun _ => (a.t0, a.t1, a.t2, a.t3)) ∧
    (r.result.isOk = false → r.result ≠ .errHist → r.prev = prev ∧ r.absorbed = none) ∧
    (hist = none → r.result ≠ .errHist) := by
  intro r out
  have h := finish_result cfg hist filter prev reference cTx1 out
  simp only at h
  refine ⟨?_, ?_, h.2.2, ?_⟩
  · intro ts off hr
    obtain ⟨a, n, h1, h2, h3, _⟩ := h.1 ts off hr
    exact ⟨a, n, h1, h2, h3⟩
  · intro hr
    obtain ⟨a, n, h0, h1, h2, _, h4, h5⟩ := h.2.1 hr
    exact ⟨by rw [h2]; simp, a, n, h1, h4, h5⟩
  · intro hn hr
    obtain ⟨a, n, h0, _, h2, _⟩ := h.2.1 hr
    rw [hn] at h2; cases h2

/-- the same for the SCION client -/
theorem C05T_never_offset_otherwise_scion (cfg : Cfg) (hist : Option Hist)
    (filter : Option (Int → Int → Int → Int → Int64)) (sc : ScionCtx) (prev : Prev) (reference : String)
    (now cTx1 : Int) (evs : List (Event ScionDgram)) :
    let r := exchangeSCIONH cfg hist filter sc prev reference now cTx1 evs
    let out := (exchangeSCION cfg sc prev reference now cTx1 evs).1
    (∀ ts off, r.result = .ok ts off → ∃ a n, out = .accepted a n ∧ ts = a.cRx ∧ off = returnedOffset filter a) ∧
    (r.result = .errHist → hist ≠ none ∧ ∃ a n, out = .accepted a n ∧
        r.prev = updatePrev cfg prev reference cTx1 a ∧ r.absorbed = filter.map fun _ => (a.t0, a.t1, a.t2, a.t3)) ∧
    (r.result.isOk = false → r.result ≠ .errHist → r.prev = prev ∧ r.absorbed = none) ∧
    (hist = none → r.result ≠ .errHist) := by
  intro r out
  have h := finish_result cfg hist filter prev reference cTx1 out
  simp only at h
  refine ⟨?_, ?_, h.2.2, ?_⟩
  · intro ts off hr
    obtain ⟨a, n, h1, h2, h3, _⟩ := h.1 ts off hr
    exact ⟨a, n, h1, h2, h3⟩
  · intro hr
    obtain ⟨a, n, h0, h1, h2, _, h4, h5⟩ := h.2.1 hr
    exact ⟨by rw [h2]; simp, a, n, h1, h4, h5⟩
  · intro hn hr
    obtain ⟨a, n, h0, _, h2, _⟩ := h.2.1 hr
    rw [hn] at h2; cases h2

/-- **The old invariant, refuted for the whole function**: interleaved mode, a filter, the
    benchmark histogram, one genuine basic response whose server claims 10 µs of processing for
    an exchange the client saw last 5 µs (round-trip delay −5 µs: it passes
    `ValidateResponseTimestamps`): the call reports the histogram error, `prev` is overwritten
    and the filter has absorbed the sample. -/
theorem C05T_error_with_state_change_counterexample :
    let cfg : Cfg := ⟨.ip, true, false, true⟩
    let now : Int := 1700000000000000000
    let pkt : NtpPkt := ⟨36, 1, ofTime now, ofTime (now + 1000), ofTime (now + 11000)⟩
    let r := exchangeIPH cfg (some benchmarkHist) (some fun _ _ _ _ => 0) 7 Prev.init "S" now now
      [.dgram ⟨7, ⟨48, pkt, false, false, false⟩⟩ (now + 5000) true]
    r.result = .errHist ∧ r.prev ≠ Prev.init ∧ r.prev.reference = "S" ∧ r.absorbed.isSome = true := by
  decide

/-- the record-first variant keeps "error ⇒ state unchanged" -/
theorem C05T_record_first_keeps_state (cfg : Cfg) (hist : Option Hist)
    (filter : Option (Int → Int → Int → Int → Int64)) (prev : Prev) (reference : String) (cTx1 : Int)
    (a : Accepted) (h : (tailRecordFirst cfg hist filter prev reference cTx1 a).result.isOk = false) :
    (tailRecordFirst cfg hist filter prev reference cTx1 a).prev = prev ∧
    (tailRecordFirst cfg hist filter prev reference cTx1 a).absorbed = none := by
  cases hist with
  | none => simp [tailRecordFirst, tail, Result.isOk] at h
  | some h0 =>
    by_cases hr : h0.recordOk a.rtd = true
    · simp [tailRecordFirst, tail, hr, Result.isOk] at h
    · have hr' : h0.recordOk a.rtd = false := by simpa using hr
      simp [tailRecordFirst, hr']

/-- and agrees with the code whenever the histogram accepts (or there is none) -/
theorem C05T_record_first_same_when_recorded (cfg : Cfg) (hist : Option Hist)
    (filter : Option (Int → Int → Int → Int → Int64)) (prev : Prev) (reference : String) (cTx1 : Int)
    (a : Accepted) (h : ∀ h0, hist = some h0 → h0.recordOk a.rtd = true) :
    tailRecordFirst cfg hist filter prev reference cTx1 a = tail cfg hist filter prev reference cTx1 a := by
  cases hist with
  | none => rfl
  | some h0 =>
    have := h h0 rfl
    simp [tailRecordFirst, tail, this]

/-- a round-trip delay of −1 µs or less is refused by EVERY histogram -/
theorem C05T_negative_rtd_refused (h : Hist) (rtd : Int64) (hneg : rtd.toInt ≤ -1000) :
    h.recordOk rtd = false := by
  have : microseconds rtd < 0 := by
    unfold microseconds
    have h1 : rtd.toInt = -((-rtd.toInt)) := by omega
    rw [h1, Int.neg_tdiv]
    have h2 : 0 ≤ -rtd.toInt := by omega
    rw [Int.tdiv_eq_ediv_of_nonneg h2]
    omega
  simp only [Hist.recordOk, Bool.and_eq_false_imp, decide_eq_true_eq]
  intro h0; omega

/-- such a delay passes `ValidateResponseTimestamps` (the server's stamps are in order, the
    client's are in order: only their difference is negative) -/
example : validateTimestamps 0 1000 11000 5000 = .ok ∧ (roundTripDelay64 0 1000 11000 5000).toInt = -5000 := by
  decide

/-- the benchmark histogram: 262.143999 ms is recorded (the value is taken in whole microseconds), 262.144 ms is refused -/
theorem C05T_benchmark_hist_boundary :
    benchmarkHist.recordOk (Int64.ofInt 262143999) = true ∧
    benchmarkHist.recordOk (Int64.ofInt 262144000) = false ∧
    benchmarkHist.recordOk 0 = true ∧ benchmarkHist.recordOk (Int64.ofInt (-999)) = true ∧
    benchmarkHist.recordOk (Int64.ofInt (-1000)) = false := by
  decide

/-- **The exchange evaluated after a histogram error is still one exchange.** Whatever state
    `prev'` a call left behind (in particular: the state of a call that ended in the histogram
    error), an interleaved response accepted by the next call combines `prev'.cTx`, `prev'.sRx`
    and `prev'.cRx` — three stamps written together by that one call — with the response's
    transmit stamp. (That the server's transmit stamp belongs to the same exchange is the server's
    contract, Props/C03 `Conformant`.) -/
theorem C05T_interleaved_tuple_from_one_call (cfg : Cfg) (prev' : Prev) (req : Req) (cTx1 cRx : Int)
    (p : Payload) (a : Accepted) (h : ntpStage cfg prev' req cTx1 cRx p = .accept a) (hil : a.il = true) :
    a.t0 = toTime prev'.cTx req.cTx0 ∧ a.t1 = toTime prev'.sRx req.cTx0 ∧
    a.t3 = toTime prev'.cRx req.cTx0 ∧ a.t2 = toTime p.pkt.tx req.cTx0 := by
  unfold ntpStage at h
  split at h
  · cases h
  split at h
  · cases h
  split at h
  · cases h
  simp only at h
  split at h
  · cases h
  split at h
  · cases h
  split at h
  · cases h
  · cases h
  · rename_i hv
    simp only [Step.accept.injEq] at h
    subst h
    simp only at hil
    simp [hil]

/-! ### (r) request header -/

theorem unmapIP_len (b : List Nat) (h : b.length = 4 ∨ b.length = 16) :
    ∃ a, unmapIP b = some a ∧ (a.length = 4 ∨ a.length = 16) := by
  unfold unmapIP
  rcases h with h | h
  · exact ⟨b, by simp [h], Or.inl h⟩
  · have h4 : ¬ b.length = 4 := by omega
    by_cases hp : b.take 12 = v4mappedPrefix
    · exact ⟨b.drop 12, by simp [h, hp], Or.inl (by simp [h])⟩
    · exact ⟨b, by simp [h, hp], Or.inr h⟩

/-- a local address the entry check admits and a remote address of 4 or 16 bytes with a path
    that can be set always give a header — no panic -/
theorem C05T_header_total (dscp lia ria lport rport : Nat) (lip rip : List Nat) (auth : Bool)
    (hdscp : dscp ≤ 63) (hl : localAddrOk lip.length = true) (hr : rip.length = 4 ∨ rip.length = 16) :
    ∃ h, mkScionRequestHeader dscp lia lip ria rip lport rport true auth = .hdr h := by
  have hl' : lip.length = 4 ∨ lip.length = 16 := by
    simpa [localAddrOk] using hl
  obtain ⟨a, ha, _⟩ := unmapIP_len lip hl'
  obtain ⟨c, hc, hcl⟩ := unmapIP_len rip hr
  have hheld : held rip = c := by simp [held, hc]
  obtain ⟨c', hc', _⟩ := unmapIP_len c hcl
  have hd : ¬ dscp > 63 := by omega
  simp only [mkScionRequestHeader, hostOfIP, ha, hheld, hc', Option.map_some, Bool.not_true,
    Bool.false_eq_true, if_false, hd]
  exact ⟨_, rfl⟩

/-- the remaining explicit panic: a caller-supplied remote address of another length (not
    reachable from network input: the NTS path returns `errUnexpectedAddrType` for a name that is no
    IP literal and `net.ParseIP` yields 16 bytes otherwise; `timeservice.go` parses its peers with
    `snet.ParseUDPAddr`) -/
theorem C05T_header_remote_panic :
    mkScionRequestHeader 0 1 [127, 0, 0, 1] 2 [1, 2, 3] 1000 123 true false = .panicAddr ∧
    mkScionRequestHeader 0 1 [127, 0, 0, 1] 2 [] 1000 123 true false = .panicAddr ∧
    mkScionRequestHeader 0 1 [127, 0, 0, 1] 2 [10, 0, 0, 2] 1000 123 false false = .panicSetPath ∧
    mkScionRequestHeader 0 1 [1, 2, 3] 2 [10, 0, 0, 2] 1000 123 true false = .errAddr ∧
    mkScionRequestHeader 64 1 [127, 0, 0, 1] 2 [10, 0, 0, 2] 1000 123 true false = .panicDSCP := by
  decide

/-- **The header names the hosts the client's key request names.** For every local and remote
    address that yields a header: the source host written into the header, read as the listener
    reads it (`ScionSrv.keyOf`: the raw bytes), is the host of the client's DRKey request
    (`DstHost: localAddr.Host.IP.String()`), and likewise for the destination / `SrcHost` — in
    particular for an IPv4-mapped IPv6 local address, which both sides reduce to the IPv4 address.
    The header never carries an IPv4-mapped address. -/
theorem C05T_header_hosts_are_key_hosts (dscp lia ria lport rport : Nat) (lip rip : List Nat) (sp auth : Bool)
    (h : ReqHdr) (hh : mkScionRequestHeader dscp lia lip ria rip lport rport sp auth = .hdr h) :
    listenerHostOf h.src = drkeyHostOfIP lip ∧ listenerHostOf h.dst = drkeyHostOfIP (held rip) ∧
    h.srcIA = lia ∧ h.dstIA = ria ∧ h.trafficClass = dscp * 4 ∧ dscp ≤ 63 := by
  unfold mkScionRequestHeader at hh
  cases hs : hostOfIP lip with
  | none => simp [hs] at hh
  | some s =>
    cases hd : hostOfIP (held rip) with
    | none =>
      simp only [hs, hd] at hh
      split at hh <;> cases hh
    | some d =>
      simp only [hs, hd] at hh
      split at hh
      · cases hh
      rename_i hdscp
      split at hh
      · cases hh
      · simp only [HdrResult.hdr.injEq] at hh
        subst hh
        have h63 : dscp ≤ 63 := by omega
        have htc : dscp * 4 % 256 = dscp * 4 := by omega
        simp only [and_self, and_true, htc, h63]
        have key : ∀ (b : List Nat) (x : HostAddr), hostOfIP b = some x → listenerHostOf x = drkeyHostOfIP b := by
          intro b x hx
          unfold hostOfIP at hx
          unfold drkeyHostOfIP
          cases hu : unmapIP b with
          | none => simp [hu] at hx
          | some a =>
            simp only [hu, Option.map_some, Option.some.injEq] at hx
            have hlen : a.length = 4 ∨ a.length = 16 := by
              unfold unmapIP at hu
              split at hu
              · simp only [Option.some.injEq] at hu; subst hu; left; assumption
              · split at hu
                · rename_i h16
                  split at hu
                  · simp only [Option.some.injEq] at hu; subst hu; left; simp [h16]
                  · simp only [Option.some.injEq] at hu; subst hu; right; assumption
                · cases hu
            rcases hlen with h4 | h16
            · simp only [h4, if_true] at hx
              subst hx
              simp [listenerHostOf, h4, t4Ip]
            · have : ¬ a.length = 4 := by omega
              simp only [this, if_false] at hx
              subst hx
              simp [listenerHostOf, h16, t16Ip, t4Ip]
        exact ⟨key lip s hs, key (held rip) d hd⟩

/-- IPv4-mapped local address: the header carries the 4-byte address with type `T4Ip` -/
example :
    mkScionRequestHeader 46 1 (v4mappedPrefix ++ [10, 0, 0, 4]) 2 (v4mappedPrefix ++ [10, 0, 0, 2]) 40000 123 true true =
      .hdr ⟨184, 1, 2, ⟨t4Ip, [10, 0, 0, 4]⟩, ⟨t4Ip, [10, 0, 0, 2]⟩, 40000, 123, end2EndClass⟩ := by
  decide

/-- the listener keys the request on exactly these hosts (`ScionSrv.keyOf` reads the raw bytes) -/
theorem C05T_listener_key_of_request (h : ReqHdr) (p : ScionSrv.Pkt)
    (hs : p.srcAddr = h.src.raw) (hd : p.dstAddr = h.dst.raw) (hsi : p.srcIA = h.srcIA) (hdi : p.dstIA = h.dstIA) :
    ScionSrv.keyOf p = ⟨h.dstIA, h.dst.raw, h.srcIA, h.src.raw⟩ := by
  simp [ScionSrv.keyOf, hs, hd, hsi, hdi]

/-! ### (p) cookie pool and the origin `continue` -/

theorem poolLoop_length (canRetry : Bool) (k : Nat) (ds : List PDgram) (hk : ∀ d ∈ ds, d.cookies.length ≤ k) :
    ∀ (r : Nat) (pool : List Nat), r ≤ maxNumRetries →
      (poolLoop canRetry r pool ds).1.length ≤ pool.length + (maxNumRetries + 1 - r) * k := by
  induction ds with
  | nil => intro r pool _; simp [poolLoop]
  | cons d rest ih =>
    intro r pool hr
    have hd := hk d List.mem_cons_self
    have hrest : ∀ x ∈ rest, x.cookies.length ≤ k := fun x hx => hk x (List.mem_cons_of_mem _ hx)
    have hmul : (maxNumRetries + 1 - (r + 1)) * k + k ≤ (maxNumRetries + 1 - r) * k := by
      have : maxNumRetries + 1 - r = (maxNumRetries + 1 - (r + 1)) + 1 := by omega
      rw [this, Nat.add_mul]; omega
    simp only [poolLoop]
    split
    · split
      · rename_i hret
        have hr1 : r + 1 ≤ maxNumRetries := by
          simp only [maxNumRetries, bne_iff_ne, ne_eq, Bool.and_eq_true] at hret
          simp only [maxNumRetries] at hr ⊢; omega
        have := ih hrest (r + 1) pool hr1
        omega
      · simp only; have : 0 ≤ (maxNumRetries + 1 - r) * k := Nat.zero_le _; omega
    · have hlen : (d.cookies.foldl NtsPool.storeCookie pool).length = pool.length + d.cookies.length := by
        rw [NtsPool.storeCookies_foldl]; simp
      have hone : k ≤ (maxNumRetries + 1 - r) * k := by
        have : 1 ≤ maxNumRetries + 1 - r := by omega
        calc k = 1 * k := by omega
          _ ≤ _ := Nat.mul_le_mul_right k this
      split
      · split
        · rename_i hret
          have hr1 : r + 1 ≤ maxNumRetries := by
            simp only [maxNumRetries, bne_iff_ne, ne_eq, Bool.and_eq_true] at hret
            simp only [maxNumRetries] at hr ⊢; omega
          have := ih hrest (r + 1) (d.cookies.foldl NtsPool.storeCookie pool) hr1
          omega
        · simp only; omega
      · simp only; omega

/-- **Pool bound of one call, whatever the datagrams.** From a pool of `l ≥ 1` cookies, with every
    datagram carrying at most `k` cookies, the pool after the call holds at most `l − 1 + 2k`:
    two `StoreCookie` rounds are possible in ONE exchange (an authenticated datagram that fails
    the origin check, a retry left, a second authenticated datagram). -/
theorem C11T_pool_bound_two_rounds (canRetry : Bool) (pool : List Nat) (ds : List PDgram) (k : Nat)
    (hne : pool ≠ []) (hk : ∀ d ∈ ds, d.cookies.length ≤ k) :
    (poolExchange canRetry pool ds).1.length ≤ pool.length - 1 + 2 * k := by
  cases pool with
  | nil => exact absurd rfl hne
  | cons c rest =>
    simp only [poolExchange, NtsPool.fetchData, List.length_cons, Nat.add_sub_cancel]
    have := poolLoop_length canRetry k ds hk 0 rest (Nat.zero_le _)
    simp only [maxNumRetries] at this
    omega

/-- **…and the bound is attained: the pool can exceed eight.** Full pool (8), the request asks for
    one cookie; an authenticated datagram with one fresh cookie and a stale origin, then the
    genuine reply with one fresh cookie: nine cookies. (Only a server that answers ONE request
    twice under its unique identifier with a wrong origin can do this — not this project's
    listener, whose origin is a function of the request; see `C11T_conformant_one_round`.) -/
theorem C11T_pool_exceeds_eight_counterexample :
    poolExchange true [1, 2, 3, 4, 5, 6, 7, 8] [⟨true, [9], false⟩, ⟨true, [10], true⟩] =
      ([2, 3, 4, 5, 6, 7, 8, 9, 10], true) ∧
    poolLoopOriginFirst true 0 [2, 3, 4, 5, 6, 7, 8] [⟨true, [9], false⟩, ⟨true, [10], true⟩] =
      ([2, 3, 4, 5, 6, 7, 8, 10], true) := by
  decide

/-- **A conformant server gives one round.** When every authenticated datagram echoes the request
    (the origin of this project's listener is a function of the request, and only the server can
    authenticate under the request's unique identifier), the pool grows by the cookies of at most
    ONE datagram — the exchange's `stored` of `ClientFlow.flowStep`. -/
theorem C11T_conformant_one_round (canRetry : Bool) (ds : List PDgram)
    (hc : ∀ d ∈ ds, d.authOk = true → d.originOk = true) :
    ∀ (r : Nat) (pool : List Nat),
      ((poolLoop canRetry r pool ds).2 = false ∧ (poolLoop canRetry r pool ds).1 = pool) ∨
      (∃ d ∈ ds, d.authOk = true ∧ poolLoop canRetry r pool ds = (pool ++ d.cookies, true)) := by
  induction ds with
  | nil => intro r pool; left; simp [poolLoop]
  | cons d rest ih =>
    intro r pool
    have hrest : ∀ x ∈ rest, x.authOk = true → x.originOk = true := fun x hx => hc x (List.mem_cons_of_mem _ hx)
    cases ha : d.authOk with
    | false =>
      simp only [poolLoop, ha, Bool.not_false, if_true]
      split
      · rcases ih hrest (r + 1) pool with h | ⟨x, hx, h1, h2⟩
        · left; exact h
        · right; exact ⟨x, List.mem_cons_of_mem _ hx, h1, h2⟩
      · left; exact ⟨rfl, rfl⟩
    | true =>
      have ho := hc d List.mem_cons_self ha
      right
      refine ⟨d, List.mem_cons_self, ha, ?_⟩
      simp [poolLoop, ha, ho, NtsPool.storeCookies_foldl]

/-- the origin-first variant never stores two rounds -/
theorem C11T_origin_first_one_round (canRetry : Bool) (ds : List PDgram) :
    ∀ (r : Nat) (pool : List Nat),
      ((poolLoopOriginFirst canRetry r pool ds).1 = pool) ∨
      (∃ d ∈ ds, (poolLoopOriginFirst canRetry r pool ds).1 = pool ++ d.cookies) := by
  induction ds with
  | nil => intro r pool; left; simp [poolLoopOriginFirst]
  | cons d rest ih =>
    intro r pool
    simp only [poolLoopOriginFirst]
    split
    · split
      · rcases ih (r + 1) pool with h | ⟨x, hx, h⟩
        · left; exact h
        · right; exact ⟨x, List.mem_cons_of_mem _ hx, h⟩
      · left; rfl
    · right; exact ⟨d, List.mem_cons_self, by simp [NtsPool.storeCookies_foldl]⟩

/-! ### (w) exchanges per attempt loop -/

theorem wrapLoopCtx_count (l : List AttemptIn) :
    ∀ (i : Nat) (s : WrapState),
      (wrapLoopCtx false i s l).2 =
        (match firstIL (l.map attemptResult) with
         | some k => k + 1
         | none => l.length) := by
  induction l with
  | nil => intro i s; simp [wrapLoopCtx, firstIL]
  | cons a rest ih =>
    intro i s
    simp only [wrapLoopCtx, Bool.false_and, Bool.false_eq_true, if_false, List.map_cons, List.length_cons]
    cases h : attemptResult a with
    | ok t o inIL =>
      cases inIL with
      | true => simp [firstIL]
      | false =>
        simp only [Bool.false_eq_true, if_false, firstIL, ih]
        cases firstIL (rest.map attemptResult) <;> simp
    | err e =>
      simp only [firstIL, ih]
      cases firstIL (rest.map attemptResult) <;> simp

theorem firstIL_lt (l : List Attempt) (k : Nat) (h : firstIL l = some k) : k < l.length := by
  induction l generalizing k with
  | nil => simp [firstIL] at h
  | cons a rest ih =>
    cases a with
    | ok t o b =>
      cases b with
      | true => simp [firstIL] at h; subst h; simp
      | false =>
        simp only [firstIL, Option.map_eq_some_iff] at h
        obtain ⟨j, hj, rfl⟩ := h
        have := ih j hj; simp; omega
    | err e =>
      simp only [firstIL, Option.map_eq_some_iff] at h
      obtain ⟨j, hj, rfl⟩ := h
      have := ih j hj; simp; omega

/-- **Exchanges per round and client** (the IP wrapper and the per-path goroutine of
    `MeasureClockOffsetSCION` alike): between 1 and `attempts il` (1, or 1..3 in interleaved mode);
    exactly `k + 1` when attempt `k` is the first to succeed and leave the client in interleaved
    mode (the `break`), all of them otherwise; the value reported is the last successful one's
    (`C05W_result`). -/
theorem C15T_exchanges_per_round (il : Bool) (ins : List AttemptIn) (hlen : attempts il ≤ ins.length) :
    let n := (wrapCtx false il ins).2
    1 ≤ n ∧ n ≤ attempts il ∧ n ≤ 3 ∧
    (match firstIL ((ins.take (attempts il)).map attemptResult) with
     | some k => n = k + 1
     | none => n = attempts il) := by
  intro n
  have hcount : n = _ := wrapLoopCtx_count (ins.take (attempts il)) 0 ⟨0, 0, none, 0⟩
  have htake : (ins.take (attempts il)).length = attempts il := by
    simp only [List.length_take]; omega
  have h3 : attempts il ≤ 3 := by cases il <;> decide
  cases hf : firstIL ((ins.take (attempts il)).map attemptResult) with
  | none =>
    rw [hf] at hcount
    simp only at hcount
    rw [htake] at hcount
    have hp : 1 ≤ attempts il := by cases il <;> decide
    simp only
    omega
  | some k =>
    rw [hf] at hcount
    simp only at hcount
    have := firstIL_lt _ k hf
    simp only [List.length_map, htake] at this
    simp only
    omega

/-- the `break` in action: basic success, interleaved success → two exchanges, the second's value -/
example :
    wrapCtx false true [⟨.live, .ok 17 4 false⟩, ⟨.live, .ok 18 5 true⟩, ⟨.live, .ok 19 6 true⟩] =
      (⟨18, 5, none, 0⟩, 2) := by
  decide

/-- a client that never reaches interleaved mode within the round makes all three -/
example :
    (wrapCtx false true [⟨.live, .ok 17 4 false⟩, ⟨.live, .err .read⟩, ⟨.live, .ok 19 6 false⟩]).2 = 3 := by
  decide

end ScionTime.Props.C05Tail
