/-
  Kernel-checked ties (C15): base/crypto/crypto.go — `randInt31`, `randInt63`, `RandIntn`, `Sample` —
  as regenerated from /repo's Go source on every run (Gen/LeafCrypto.lean; seventh generation of
  the leaf translator: unbounded `for` loops with an iteration budget, counted loops, `break`,
  shadowing `:=`, crypto/rand as a byte stream, `binary.LittleEndian`, a callback parameter as the
  list of its calls, `ctx.Err()` as a parameter) is the hand-written model of Model/Sample.lean,
  for every argument, every byte stream and every budget that exceeds the number of words in the
  stream (the budget is the translator's device to make the loop a total function: the theorems
  show it is never exhausted before the stream is — `stuck` does not occur).
-/
import ScionTime.Gen.LeafCrypto
import ScionTime.Model.Sample
import ScionTime.Proofs.GoPrelude
namespace ScionTime.LeafTieC15
open ScionTime ScionTime.Gen.Leaf ScionTime.GoLemmas ScionTime.Sample

/-- what both sides are compared on: the value and the rest of the stream, an error (the
    generated definitions render `error` as a flag: which error is not kept), a panic with its
    message, or the translator's `stuck` -/
inductive Obs where
  | ok (v : Int) (rest : List Nat)
  | err
  | panic (msg : String)
  | stuck
deriving DecidableEq, Repr

def bytes (r : List UInt8) : Stream := r.map UInt8.toNat

def obsM : Res (Nat × Stream) → Obs
  | .ok (v, s) => .ok v s
  | .err _ => .err
  | .panic m => .panic m

def obsG : Go.Out (List UInt8 × (Int64 × Bool)) → Obs
  | .ok (r, (v, false)) => .ok v.toInt (bytes r)
  | .ok (_, (_, true)) => .err
  | .panic m => .panic m
  | .stuck => .stuck

theorem n32_toNat (n : Int64) (h0 : 0 ≤ n.toInt) (h1 : n.toInt ≤ 2147483647) :
    (n.toUInt64.toUInt32.toNat : Int) = n.toInt := by
  rw [toNat_narrow32]; omega

theorem neg_toInt (n : Int64) (h0 : 0 ≤ n.toInt) : (-n).toInt = -n.toInt := by
  rw [Int64.toInt_neg]
  have := Int64.toInt_lt n
  apply Int.bmod_eq_of_le <;> omega

theorem thr31_eq (n : Int64) (h0 : 2 ≤ n.toInt) (h1 : n.toInt ≤ 2147483647) :
    (((-n).toUInt64.toUInt32) % (n.toUInt64.toUInt32)).toNat = thr31 n.toInt.toNat := by
  have hn := n32_toNat n (by omega) h1
  have hneg : (((-n).toUInt64.toUInt32).toNat : Int) = (-n.toInt) % 2 ^ 32 := by
    rw [toNat_narrow32, neg_toInt n (by omega)]
  rw [UInt32.toNat_mod]
  unfold thr31 two32
  have e1 : ((-n).toUInt64.toUInt32).toNat = 4294967296 - n.toInt.toNat := by omega
  have e2 : (n.toUInt64.toUInt32).toNat = n.toInt.toNat := by omega
  rw [e1, e2]

theorem randRead4 (b0 b1 b2 b3 : UInt8) (rest b : List UInt8) (hb : b.length = 4) :
    Go.randRead (b0 :: b1 :: b2 :: b3 :: rest) b = ([b0, b1, b2, b3], rest, 4, false) := by
  unfold Go.randRead
  rw [if_pos (by simp [hb])]
  simp [Go.len, hb]

theorem randRead_short (r b : List UInt8) (h : r.length < b.length) : Go.randRead r b = (b, r, 0, true) := by
  unfold Go.randRead
  rw [if_neg (by omega)]

theorem le32_toNat (b0 b1 b2 b3 : UInt8) :
    (UInt32.ofNat (b0.toNat + 256 * b1.toNat + 65536 * b2.toNat + 16777216 * b3.toNat)).toNat =
      le32 b0.toNat b1.toNat b2.toNat b3.toNat := by
  have := b0.toNat_lt; have := b1.toNat_lt; have := b2.toNat_lt; have := b3.toNat_lt
  rw [UInt32.toNat_ofNat']
  unfold le32
  omega

theorem draw31_short (n t : Nat) (c : Bool) (s : Stream) (h : s.length < 4) : draw31 n t c s = .err .exhausted := by
  match s, h with
  | [], _ => rfl
  | [_], _ => rfl
  | [_, _], _ => rfl
  | [_, _, _], _ => rfl
  | _ :: _ :: _ :: _ :: _, h => simp at h; omega

theorem C15_leaf_randInt31 (ctx : Bool) (n : Int64) (rnd : List UInt8) (fuel : Nat) (hf : rnd.length < 4 * fuel) :
    obsG (crypto_randInt31 ctx n rnd fuel) = obsM (randInt31 n.toInt.toNat ctx (bytes rnd)) := by
  unfold crypto_randInt31 Sample.randInt31
  have h2 : (2 : Int64).toInt = 2 := by decide
  have hm : (2147483647 : Int64).toInt = 2147483647 := by decide
  by_cases hlt : n < 2
  · have : n.toInt.toNat < 2 := by have := Int64.lt_iff_toInt_lt.mp hlt; omega
    rw [if_pos (by simpa using hlt), if_pos this]; rfl
  · have hge : 2 ≤ n.toInt := by
      have : ¬ n.toInt < (2 : Int64).toInt := fun h => hlt (Int64.lt_iff_toInt_lt.mpr h)
      omega
    have hnl : ¬ n.toInt.toNat < 2 := by omega
    rw [if_neg (by simpa using hlt), if_neg hnl]
    by_cases hgt : n > 2147483647
    · have : n.toInt.toNat > maxInt32 := by
        have := Int64.lt_iff_toInt_lt.mp hgt; unfold maxInt32; omega
      rw [if_pos (by simpa using hgt), if_pos this]; rfl
    · have hle : n.toInt ≤ 2147483647 := by
        have : ¬ (2147483647 : Int64).toInt < n.toInt := fun h => hgt (Int64.lt_iff_toInt_lt.mpr h)
        omega
      have hng : ¬ n.toInt.toNat > maxInt32 := by unfold maxInt32; omega
      rw [if_neg (by simpa using hgt), if_neg hng]
      simp only []
      have hn32 := n32_toNat n (by omega) hle
      have hthr := thr31_eq n hge hle
      generalize hb : Go.makeBytes 4 = b
      have hbl : b.length = 4 := by subst hb; rfl
      clear hb
      generalize (0 : UInt32) = x
      induction fuel generalizing rnd b x with
      | zero => omega
      | succ k ih =>
        rw [Go.forFuel]
        match rnd, hf with
        | b0 :: b1 :: b2 :: b3 :: rest, hf =>
          have hlen : Go.len [b0, b1, b2, b3] = 4 := rfl
          have hle4 : Go.leU32? [b0, b1, b2, b3] =
              some (UInt32.ofNat (b0.toNat + 256 * b1.toNat + 65536 * b2.toNat + 16777216 * b3.toNat)) := rfl
          simp only [randRead4 b0 b1 b2 b3 rest b hbl, bne_self_eq_false, Bool.false_eq_true, if_false, hlen, hle4,
            Go.Out.ofOption, Go.Ctl.bindR]
          have hX := le32_toNat b0 b1 b2 b3
          generalize UInt32.ofNat (b0.toNat + 256 * b1.toNat + 65536 * b2.toNat + 16777216 * b3.toNat) = X at hX ⊢
          have hdraw : draw31 n.toInt.toNat (thr31 n.toInt.toNat) ctx (bytes (b0 :: b1 :: b2 :: b3 :: rest)) =
              (if X.toNat > thr31 n.toInt.toNat then .ok (X.toNat % n.toInt.toNat, bytes rest)
               else if ctx then .err .cancelled else draw31 n.toInt.toNat (thr31 n.toInt.toNat) ctx (bytes rest)) := by
            simp only [bytes, List.map_cons, draw31, hX]
          rw [hdraw]
          by_cases hacc : X > (-n).toUInt64.toUInt32 % n.toUInt64.toUInt32
          · have hacc' : X.toNat > thr31 n.toInt.toNat := by
              rw [← hthr]; exact UInt32.lt_iff_toNat_lt.mp hacc
            rw [if_pos (by simpa using hacc), if_pos hacc']
            simp only [obsG, obsM]
            congr 1
            rw [toInt_widen32, UInt32.toNat_mod]
            have : (n.toUInt64.toUInt32).toNat = n.toInt.toNat := by omega
            rw [this]
          · have hacc' : ¬ X.toNat > thr31 n.toInt.toNat := by
              rw [← hthr]; exact fun h => hacc (UInt32.lt_iff_toNat_lt.mpr h)
            rw [if_neg (by simpa using hacc), if_neg hacc']
            cases ctx with
            | true => rfl
            | false =>
              simp only [bne_self_eq_false, Bool.false_eq_true, if_false]
              exact ih rest (by simp at hf; omega) [b0, b1, b2, b3] rfl X
        | [], hf => simp only [randRead_short [] b (by simp [hbl])]; rfl
        | [_], hf => simp only [randRead_short [_] b (by simp [hbl])]; rfl
        | [_, _], hf => simp only [randRead_short [_, _] b (by simp [hbl])]; rfl
        | [_, _, _], hf => simp only [randRead_short [_, _, _] b (by simp [hbl])]; rfl

/-! ### randInt63 -/

theorem toNat_u64 (x : Int64) (h : 0 ≤ x.toInt) : x.toUInt64.toNat = x.toInt.toNat := by
  have := toNat_toUInt64 x
  have := Int64.toInt_lt x
  omega

theorem toInt_of_u64 (u : UInt64) (h : u.toNat < 9223372036854775808) : u.toInt64.toInt = u.toNat := by
  have h2 : u.toInt64.toInt = u.toInt64.toBitVec.toInt := rfl
  have h3 : u.toInt64.toBitVec.toNat = u.toNat := rfl
  rw [h2, BitVec.toInt_eq_toNat_cond, h3]
  split <;> omega

theorem thr63_eq (n : Int64) (h0 : 2 ≤ n.toInt) :
    (((-n).toUInt64) % (n.toUInt64)).toNat = thr63 n.toInt.toNat := by
  have hu := Int64.toInt_lt n
  have e2 := toNat_u64 n (by omega)
  have e1 : ((-n).toUInt64).toNat = 18446744073709551616 - n.toInt.toNat := by
    have := toNat_toUInt64 (-n)
    rw [neg_toInt n (by omega)] at this
    omega
  rw [UInt64.toNat_mod, e1, e2]
  rfl

theorem randRead8 (b0 b1 b2 b3 b4 b5 b6 b7 : UInt8) (rest b : List UInt8) (hb : b.length = 8) :
    Go.randRead (b0 :: b1 :: b2 :: b3 :: b4 :: b5 :: b6 :: b7 :: rest) b = ([b0, b1, b2, b3, b4, b5, b6, b7], rest, 8, false) := by
  unfold Go.randRead
  rw [if_pos (by simp [hb])]
  simp [Go.len, hb]

theorem le64_toNat (b0 b1 b2 b3 b4 b5 b6 b7 : UInt8) :
    (UInt64.ofNat (b0.toNat + 256 * b1.toNat + 65536 * b2.toNat + 16777216 * b3.toNat +
      4294967296 * (b4.toNat + 256 * b5.toNat + 65536 * b6.toNat + 16777216 * b7.toNat))).toNat =
      le64 b0.toNat b1.toNat b2.toNat b3.toNat b4.toNat b5.toNat b6.toNat b7.toNat := by
  have := b0.toNat_lt; have := b1.toNat_lt; have := b2.toNat_lt; have := b3.toNat_lt
  have := b4.toNat_lt; have := b5.toNat_lt; have := b6.toNat_lt; have := b7.toNat_lt
  rw [UInt64.toNat_ofNat']
  unfold le64 le32 two32
  omega

theorem C15_leaf_randInt63 (ctx : Bool) (n : Int64) (rnd : List UInt8) (fuel : Nat) (hf : rnd.length < 8 * fuel) :
    obsG (crypto_randInt63 ctx n rnd fuel) = obsM (randInt63 n.toInt.toNat ctx (bytes rnd)) := by
  unfold crypto_randInt63 Sample.randInt63
  have h2 : (2 : Int64).toInt = 2 := by decide
  by_cases hlt : n < 2
  · have : n.toInt.toNat < 2 := by have := Int64.lt_iff_toInt_lt.mp hlt; omega
    rw [if_pos (by simpa using hlt), if_pos this]; rfl
  · have hge : 2 ≤ n.toInt := by
      have : ¬ n.toInt < (2 : Int64).toInt := fun h => hlt (Int64.lt_iff_toInt_lt.mpr h)
      omega
    have hnl : ¬ n.toInt.toNat < 2 := by omega
    rw [if_neg (by simpa using hlt), if_neg hnl]
    simp only []
    have hn64 := toNat_u64 n (by omega)
    have hthr := thr63_eq n hge
    have hu := Int64.toInt_lt n
    generalize hb : Go.makeBytes 8 = b
    have hbl : b.length = 8 := by subst hb; rfl
    clear hb
    generalize (0 : UInt64) = x
    induction fuel generalizing rnd b x with
    | zero => omega
    | succ k ih =>
      rw [Go.forFuel]
      match rnd, hf with
      | b0 :: b1 :: b2 :: b3 :: b4 :: b5 :: b6 :: b7 :: rest, hf =>
        have hlen : Go.len [b0, b1, b2, b3, b4, b5, b6, b7] = 8 := rfl
        have hle8 : Go.leU64? [b0, b1, b2, b3, b4, b5, b6, b7] =
            some (UInt64.ofNat (b0.toNat + 256 * b1.toNat + 65536 * b2.toNat + 16777216 * b3.toNat +
              4294967296 * (b4.toNat + 256 * b5.toNat + 65536 * b6.toNat + 16777216 * b7.toNat))) := rfl
        simp only [randRead8 b0 b1 b2 b3 b4 b5 b6 b7 rest b hbl, bne_self_eq_false, Bool.false_eq_true, if_false, hlen, hle8,
          Go.Out.ofOption, Go.Ctl.bindR]
        have hX := le64_toNat b0 b1 b2 b3 b4 b5 b6 b7
        generalize UInt64.ofNat (b0.toNat + 256 * b1.toNat + 65536 * b2.toNat + 16777216 * b3.toNat +
              4294967296 * (b4.toNat + 256 * b5.toNat + 65536 * b6.toNat + 16777216 * b7.toNat)) = X at hX ⊢
        have hdraw : draw63 n.toInt.toNat (thr63 n.toInt.toNat) ctx (bytes (b0 :: b1 :: b2 :: b3 :: b4 :: b5 :: b6 :: b7 :: rest)) =
            (if X.toNat > thr63 n.toInt.toNat then .ok (X.toNat % n.toInt.toNat, bytes rest)
             else if ctx then .err .cancelled else draw63 n.toInt.toNat (thr63 n.toInt.toNat) ctx (bytes rest)) := by
          simp only [bytes, List.map_cons, draw63, hX]
        rw [hdraw]
        by_cases hacc : X > (-n).toUInt64 % n.toUInt64
        · have hacc' : X.toNat > thr63 n.toInt.toNat := by
            rw [← hthr]; exact UInt64.lt_iff_toNat_lt.mp hacc
          rw [if_pos (by simpa using hacc), if_pos hacc']
          simp only [obsG, obsM]
          congr 1
          have hm : (X % n.toUInt64).toNat = X.toNat % n.toInt.toNat := by rw [UInt64.toNat_mod, hn64]
          have hlt2 : X.toNat % n.toInt.toNat < n.toInt.toNat := Nat.mod_lt _ (by omega)
          rw [toInt_of_u64 _ (by omega), hm]
        · have hacc' : ¬ X.toNat > thr63 n.toInt.toNat := by
            rw [← hthr]; exact fun h => hacc (UInt64.lt_iff_toNat_lt.mpr h)
          rw [if_neg (by simpa using hacc), if_neg hacc']
          cases ctx with
          | true => rfl
          | false =>
            simp only [bne_self_eq_false, Bool.false_eq_true, if_false]
            exact ih rest (by simp at hf; omega) [b0, b1, b2, b3, b4, b5, b6, b7] rfl X
      | [], hf => simp only [randRead_short [] b (by simp [hbl])]; rfl
      | [_], hf => simp only [randRead_short [_] b (by simp [hbl])]; rfl
      | [_, _], hf => simp only [randRead_short [_, _] b (by simp [hbl])]; rfl
      | [_, _, _], hf => simp only [randRead_short [_, _, _] b (by simp [hbl])]; rfl
      | [_, _, _, _], hf => simp only [randRead_short [_, _, _, _] b (by simp [hbl])]; rfl
      | [_, _, _, _, _], hf => simp only [randRead_short [_, _, _, _, _] b (by simp [hbl])]; rfl
      | [_, _, _, _, _, _], hf => simp only [randRead_short [_, _, _, _, _, _] b (by simp [hbl])]; rfl
      | [_, _, _, _, _, _, _], hf => simp only [randRead_short [_, _, _, _, _, _, _] b (by simp [hbl])]; rfl

/-! ### RandIntn -/

theorem bind_id {α β : Type} (x : Go.Out (α × β)) : (x.bind fun (a, b) => Go.Out.ok (a, b)) = x := by
  cases x with
  | ok v => obtain ⟨a, b⟩ := v; rfl
  | panic m => rfl
  | stuck => rfl

theorem C15_leaf_RandIntn (ctx : Bool) (n : Int64) (rnd : List UInt8) (fuel : Nat) (hf : rnd.length < 4 * fuel) :
    obsG (crypto_RandIntn ctx n rnd fuel) = obsM (randIntn n.toInt ctx (bytes rnd)) := by
  unfold crypto_RandIntn randIntn
  have h0 : (0 : Int64).toInt = 0 := by decide
  have hm : (2147483647 : Int64).toInt = 2147483647 := by decide
  by_cases hle : n ≤ 0
  · have : n.toInt ≤ 0 := by have := Int64.le_iff_toInt_le.mp hle; omega
    rw [if_pos (by simpa using hle), if_pos this]; rfl
  · have hpos : ¬ n.toInt ≤ 0 := fun h => hle (Int64.le_iff_toInt_le.mpr (by omega))
    rw [if_neg (by simpa using hle), if_neg hpos]
    by_cases h31 : n ≤ 2147483647
    · have : n.toInt ≤ (maxInt32 : Int) := by
        have := Int64.le_iff_toInt_le.mp h31; unfold maxInt32; omega
      rw [if_pos (by simpa using h31), if_pos this, bind_id]
      exact C15_leaf_randInt31 ctx n rnd fuel hf
    · have : ¬ n.toInt ≤ (maxInt32 : Int) := by
        intro h; apply h31; apply Int64.le_iff_toInt_le.mpr; unfold maxInt32 at h; omega
      rw [if_neg (by simpa using h31), if_neg this, bind_id]
      exact C15_leaf_randInt63 ctx n rnd fuel (by omega)

/-! ### Sample -/

theorem draw31_len (n t : Nat) (c : Bool) : ∀ (s : Stream) (v : Nat) (r : Stream),
    draw31 n t c s = .ok (v, r) → r.length ≤ s.length
  | b0 :: b1 :: b2 :: b3 :: rest, v, r, h => by
    simp only [draw31] at h
    split at h
    · cases h; simp; omega
    · split at h
      · cases h
      · have := draw31_len n t c rest v r h; simp; omega
  | [], _, _, h => by cases h
  | [_], _, _, h => by cases h
  | [_, _], _, _, h => by cases h
  | [_, _, _], _, _, h => by cases h

theorem draw63_len (n t : Nat) (c : Bool) : ∀ (s : Stream) (v : Nat) (r : Stream),
    draw63 n t c s = .ok (v, r) → r.length ≤ s.length
  | b0 :: b1 :: b2 :: b3 :: b4 :: b5 :: b6 :: b7 :: rest, v, r, h => by
    simp only [draw63] at h
    split at h
    · cases h; simp; omega
    · split at h
      · cases h
      · have := draw63_len n t c rest v r h; simp; omega
  | [], _, _, h => by cases h
  | [_], _, _, h => by cases h
  | [_, _], _, _, h => by cases h
  | [_, _, _], _, _, h => by cases h
  | [_, _, _, _], _, _, h => by cases h
  | [_, _, _, _, _], _, _, h => by cases h
  | [_, _, _, _, _, _], _, _, h => by cases h
  | [_, _, _, _, _, _, _], _, _, h => by cases h

theorem randIntn_len (n : Int) (c : Bool) (s : Stream) (v : Nat) (r : Stream)
    (h : randIntn n c s = .ok (v, r)) : r.length ≤ s.length := by
  unfold randIntn at h
  split at h
  · cases h
  · split at h
    · unfold Sample.randInt31 at h
      split at h
      · cases h; omega
      · split at h
        · cases h
        · exact draw31_len _ _ _ _ _ _ h
    · unfold Sample.randInt63 at h
      split at h
      · cases h; omega
      · exact draw63_len _ _ _ _ _ _ h

/-- what `Sample` is compared on: the count returned, the `pick(dst, src)` calls in order and the
    rest of the stream -/
inductive ObsS where
  | ok (k : Int) (picks : List (Int × Int)) (rest : List Nat)
  | err
  | panic (msg : String)
  | stuck
deriving DecidableEq, Repr

def pk (ps : List (Int64 × Int64)) : List (Int × Int) := ps.map fun p => (p.1.toInt, p.2.toInt)
def pkN (ps : List (Nat × Nat)) : List (Int × Int) := ps.map fun p => ((p.1 : Int), (p.2 : Int))

def obsSG : Go.Out (List UInt8 × (List (Int64 × Int64) × (Int64 × Bool))) → ObsS
  | .ok (r, (ps, (k, false))) => .ok k.toInt (pk ps) (bytes r)
  | .ok (_, (_, (_, true))) => .err
  | .panic m => .panic m
  | .stuck => .stuck

def obsSM : Res (Nat × List (Nat × Nat) × Stream) → ObsS
  | .ok (k, ps, s) => .ok k (pkN ps) s
  | .err _ => .err
  | .panic m => .panic m

/-- the model's loop result behind the picks made so far -/
def behind (k : Int) (pre : List (Int × Int)) : Res (List (Nat × Nat) × Stream) → ObsS
  | .ok (ps, s) => .ok k (pre ++ pkN ps) s
  | .err _ => .err
  | .panic m => .panic m

theorem obsG_ok_inv {g : Go.Out (List UInt8 × (Int64 × Bool))} {v : Nat} {s : Stream}
    (h : obsG g = obsM (.ok (v, s))) : ∃ r vj, g = .ok (r, (vj, false)) ∧ vj.toInt = v ∧ bytes r = s := by
  match g, h with
  | .ok (r, (vj, false)), h => simp only [obsG, obsM, Obs.ok.injEq] at h; exact ⟨r, vj, rfl, h.1, h.2⟩
  | .ok (_, (_, true)), h => simp [obsG, obsM] at h
  | .panic _, h => simp [obsG, obsM] at h
  | .stuck, h => simp [obsG, obsM] at h

theorem obsG_err_inv {g : Go.Out (List UInt8 × (Int64 × Bool))} {e : Err}
    (h : obsG g = obsM (.err e)) : ∃ r vj, g = .ok (r, (vj, true)) := by
  match g, h with
  | .ok (r, (vj, true)), _ => exact ⟨r, vj, rfl⟩
  | .ok (_, (_, false)), h => simp [obsG, obsM] at h
  | .panic _, h => simp [obsG, obsM] at h
  | .stuck, h => simp [obsG, obsM] at h

theorem obsG_panic_inv {g : Go.Out (List UInt8 × (Int64 × Bool))} {m : String}
    (h : obsG g = obsM (.panic m)) : g = .panic m := by
  match g, h with
  | .panic _, h => simp only [obsG, obsM, Obs.panic.injEq] at h; rw [h]
  | .ok (_, (_, true)), h => simp [obsG, obsM] at h
  | .ok (_, (_, false)), h => simp [obsG, obsM] at h
  | .stuck, h => simp [obsG, obsM] at h

theorem i64_add_one (i : Int64) (h : i.toInt < 9223372036854775807) : (i + 1).toInt = i.toInt + 1 := by
  have : (1 : Int64).toInt = 1 := by decide
  have := Int64.le_toInt i
  rw [toInt_add_of_fits] <;> omega

theorem bytes_length (r : List UInt8) : (bytes r).length = r.length := by simp [bytes]

/-- the first loop: `pick(i, i)` for `i = i0 … i0 + m - 1` -/
theorem loop1 (ρ : Type) : ∀ (m : Nat) (i : Int64) (cb : List (Int64 × Int64)),
    Go.forCount (ρ := ρ) m i cb (fun i cb => Go.Ctl.next (cb ++ [(i, i)])) =
      .inl (cb ++ (List.range m).map (fun j => (i + Int64.ofNat j, i + Int64.ofNat j)))
  | 0, i, cb => by simp [Go.forCount]
  | m + 1, i, cb => by
    rw [Go.forCount]
    simp only [loop1 ρ m (i + 1) (cb ++ [(i, i)]), List.range_succ_eq_map, List.map_cons, List.map_map,
      List.append_assoc, List.singleton_append]
    congr 3
    · simp
    · apply List.map_congr_left
      intro j _
      have : i + 1 + Int64.ofNat j = i + Int64.ofNat (j + 1) := by
        have : Int64.ofNat (j + 1) = Int64.ofNat j + 1 := by rw [Int64.ofNat_add]; rfl
        rw [this]; ac_rfl
      simp [Function.comp, this]

theorem bindR_ok {α σ ρ : Type} (a : α) (k : α → Go.Ctl σ (Go.Out ρ)) : Go.Ctl.bindR (Go.Out.ok a) k = k a := rfl

/-- the second loop against the model's `sampleLoop`: `m` remaining iterations from index `i` -/
theorem loop2 (ctx : Bool) (k : Int64) (hk : 0 ≤ k.toInt) (fuel : Nat) :
    ∀ (m : Nat) (i : Int64) (cb : List (Int64 × Int64)) (rnd : List UInt8),
      0 ≤ i.toInt → i.toInt + m ≤ 9223372036854775807 → rnd.length < 4 * fuel →
      obsSG (match Go.forCount (ρ := Go.Out (List UInt8 × (List (Int64 × Int64) × (Int64 × Bool)))) m i (cb, rnd)
          (fun i (cb_pick, rnd) =>
            Go.Ctl.bindR (crypto_RandIntn ctx (i + (1 : Int64)) rnd fuel) fun (rnd, _c1) =>
            let (j, err) := _c1
            if (err != false) then
              Go.Ctl.ret (Go.Out.ok ((rnd, (cb_pick, ((0 : Int64), err)))))
            else
              let cb_pick :=
                if (decide (j < k)) then
                  let cb_pick : (List (Int64 × Int64)) := cb_pick ++ [(j, i)]
                  cb_pick
                else
                  cb_pick
              Go.Ctl.next (cb_pick, rnd)) with
        | .inr _r => _r
        | .inl (cb_pick, rnd) => Go.Out.ok ((rnd, (cb_pick, (k, false))))) =
      behind k.toInt (pk cb) (sampleLoop k.toInt.toNat ctx m i.toInt.toNat (bytes rnd)) := by
  intro m
  induction m with
  | zero =>
    intro i cb rnd _ _ _
    simp [Go.forCount, obsSG, behind, sampleLoop, sampleLoopWith, pkN]
  | succ m ihm =>
    intro i cb rnd hi him hf
    rw [Go.forCount]
    have hi1 : (i + 1).toInt = i.toInt + 1 := i64_add_one i (by omega)
    have htie := C15_leaf_RandIntn ctx (i + 1) rnd fuel hf
    have hidx : ((i.toInt.toNat : Int) + 1) = (i + 1).toInt := by omega
    unfold sampleLoop
    rw [sampleLoopWith]
    simp only [hidx]
    cases hm : randIntn (i + 1).toInt ctx (bytes rnd) with
    | ok vr =>
      obtain ⟨v, s'⟩ := vr
      rw [hm] at htie
      obtain ⟨r, vj, hg, hv, hr⟩ := obsG_ok_inv htie
      have hlen := randIntn_len _ _ _ _ _ hm
      have hrl : r.length < 4 * fuel := by
        have h1 := bytes_length r; rw [hr] at h1; have h2 := bytes_length rnd; omega
      rw [hg, bindR_ok]
      simp only [bne_self_eq_false, Bool.false_eq_true, if_false]
      have ih := ihm (i + 1) (if decide (vj < k) = true then cb ++ [(vj, i)] else cb) r
        (by omega) (by omega) hrl
      have hidx2 : (i + 1).toInt.toNat = i.toInt.toNat + 1 := by omega
      rw [hidx2, hr] at ih
      unfold sampleLoop at ih
      rw [ih]
      have hjk : (vj < k) ↔ v < k.toInt.toNat := by
        rw [Int64.lt_iff_toInt_lt, hv]; omega
      cases hrest : sampleLoopWith randIntn k.toInt.toNat ctx m (i.toInt.toNat + 1) s' with
      | ok ps =>
        obtain ⟨ps, s''⟩ := ps
        simp only [behind, ObsS.ok.injEq, true_and, and_true]
        by_cases hlt : vj < k
        · have := hjk.mp hlt
          simp only [hlt, decide_true, if_true, this, pk, pkN, List.map_append, List.map_cons, List.map_nil,
            List.append_assoc, List.singleton_append, hv]
          congr 3
          omega
        · have : ¬ v < k.toInt.toNat := fun h => hlt (hjk.mpr h)
          simp only [hlt, decide_false, Bool.false_eq_true, if_false, this, List.nil_append]
      | err e => rfl
      | panic p => rfl
    | err e =>
      rw [hm] at htie
      obtain ⟨r, vj, hg⟩ := obsG_err_inv htie
      rw [hg, bindR_ok]
      rfl
    | panic p =>
      rw [hm] at htie
      have hg := obsG_panic_inv htie
      rw [hg]
      rfl

theorem ofNat_toInt (j : Nat) (h : j < 9223372036854775808) : (Int64.ofNat j).toInt = j :=
  Int64.toInt_ofNat_of_lt (by omega)

/-- **Sample** is the model's `sample`: same panics, same `k = min(k, n)`, the same `pick` calls in
    the same order, the same bytes consumed; an error of `RandIntn` ends it with an error. -/
theorem C15_leaf_Sample (ctx : Bool) (k n : Int64) (rnd : List UInt8) (fuel : Nat) (hf : rnd.length < 4 * fuel) :
    obsSG (crypto_Sample ctx k n rnd fuel) = obsSM (sample k.toInt n.toInt ctx (bytes rnd)) := by
  unfold crypto_Sample sample
  have h0 : (0 : Int64).toInt = 0 := by decide
  by_cases hk : k < 0
  · have : k.toInt < 0 := by have := Int64.lt_iff_toInt_lt.mp hk; omega
    rw [if_pos (by simpa using hk), if_pos this]; rfl
  · have hk0 : 0 ≤ k.toInt := by
      have : ¬ k.toInt < (0 : Int64).toInt := fun h => hk (Int64.lt_iff_toInt_lt.mpr h)
      omega
    rw [if_neg (by simpa using hk), if_neg (show ¬ k.toInt < 0 by omega)]
    by_cases hn : n < 0
    · have : n.toInt < 0 := by have := Int64.lt_iff_toInt_lt.mp hn; omega
      rw [if_pos (by simpa using hn), if_pos this]; rfl
    · have hn0 : 0 ≤ n.toInt := by
        have : ¬ n.toInt < (0 : Int64).toInt := fun h => hn (Int64.lt_iff_toInt_lt.mpr h)
        omega
      rw [if_neg (by simpa using hn), if_neg (show ¬ n.toInt < 0 by omega)]
      simp only []
      generalize hk' : (if decide (n < k) = true then n else k) = k'
      have hk'v : k'.toInt.toNat = (if n.toInt.toNat < k.toInt.toNat then n.toInt.toNat else k.toInt.toNat) ∧
          0 ≤ k'.toInt ∧ k'.toInt ≤ n.toInt := by
        subst hk'
        by_cases hnk : n < k
        · have := Int64.lt_iff_toInt_lt.mp hnk
          simp only [hnk, decide_true, if_true]
          rw [if_pos (by omega)]; omega
        · have : ¬ n.toInt < k.toInt := fun h => hnk (Int64.lt_iff_toInt_lt.mpr h)
          simp only [hnk, decide_false, Bool.false_eq_true, if_false]
          rw [if_neg (by omega)]; omega
      obtain ⟨hkv, hk'0, hk'n⟩ := hk'v
      rw [← hkv]
      have hu := Int64.toInt_lt n
      -- first loop
      have ht1 : Go.tripNe 0 k' = k'.toInt.toNat := by
        unfold Go.tripNe
        have : k' - 0 = k' := by simp
        rw [this, toNat_u64 k' hk'0]
      rw [ht1, loop1]
      simp only [List.nil_append]
      -- second loop
      have ht2 : Go.tripNe k' n = n.toInt.toNat - k'.toInt.toNat := by
        unfold Go.tripNe
        have hs : (n - k').toInt = n.toInt - k'.toInt := toInt_sub_of_fits _ _ (by omega) (by omega)
        rw [toNat_u64 _ (by omega), hs]; omega
      rw [ht2]
      have h2 := loop2 ctx k' hk'0 fuel (n.toInt.toNat - k'.toInt.toNat) k'
        ((List.range k'.toInt.toNat).map (fun j => ((0 : Int64) + Int64.ofNat j, (0 : Int64) + Int64.ofNat j))) rnd
        hk'0 (by omega) hf
      refine Eq.trans h2 ?_
      have hpre : pk ((List.range k'.toInt.toNat).map (fun j => ((0 : Int64) + Int64.ofNat j, (0 : Int64) + Int64.ofNat j))) =
          pkN ((List.range k'.toInt.toNat).map (fun i => (i, i))) := by
        simp only [pk, pkN, List.map_map]
        apply List.map_congr_left
        intro j hj
        have hjl : j < k'.toInt.toNat := List.mem_range.mp hj
        have : ((0 : Int64) + Int64.ofNat j).toInt = j := by
          have : (0 : Int64) + Int64.ofNat j = Int64.ofNat j := by simp
          rw [this, ofNat_toInt j (by omega)]
        simp only [Function.comp, this]
      rw [hpre]
      have hkk : (k'.toInt.toNat : Int) = k'.toInt := by omega
      cases sampleLoop k'.toInt.toNat ctx (n.toInt.toNat - k'.toInt.toNat) k'.toInt.toNat (bytes rnd) with
      | ok ps =>
        obtain ⟨ps, s''⟩ := ps
        simp only [behind, obsSM, pkN, List.map_append, hkk]
      | err e => rfl
      | panic p => rfl

/-- the hypotheses are met and all outcomes occur, through the generated definitions: a draw
    accepted at once, one rejected then accepted, a cancelled context, an exhausted stream, the
    two argument panics, and a reservoir of 2 out of 4 -/
example : obsG (crypto_RandIntn false 10 [7, 0, 0, 0, 9] 5) = .ok 7 [9] := by decide
example : obsG (crypto_RandIntn false 10 [3, 0, 0, 0, 17, 0, 0, 0] 5) = .ok 7 [] := by decide
example : obsG (crypto_RandIntn true 10 [3, 0, 0, 0, 17, 0, 0, 0] 5) = .err := by decide
example : obsG (crypto_RandIntn false 10 [3, 0, 0] 5) = .err := by decide
example : obsG (crypto_RandIntn false 0 [] 1) = .panic "invalid argument: n must be greater than 0" := by decide
example : obsSG (crypto_Sample false (-1) 3 [] 1) = .panic "invalid argument: k must be non-negative" := by decide
example : obsSG (crypto_Sample false 2 4 [8, 0, 0, 0, 9, 0, 0, 0] 5) = .ok 2 [(0, 0), (1, 1), (1, 3)] [] := by decide

end ScionTime.LeafTieC15
