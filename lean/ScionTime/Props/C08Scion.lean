/-
  C08Scion — fragment of C08 for the SCION listener: no parsed packet makes
  `runSCIONServer`'s decision logic panic (after the `fix:` commits), and each F4 input makes
  the code as found (`handleOld`) panic.  Model: `ScionTime/Model/ScionSrv.lean`.

  Scope: the listener's own logic after `DecodeLayers` (address conversion, authenticator
  metadata, DRKey fetch, MAC computation result, `Path.Reverse` result).  gopacket/slayers
  parsing and serialisation, `DeriveHostHostKey`, and the NTP/NTS payload layer are outside
  (the latter: C08's decoder models).
-/
import ScionTime.Model.ScionSrv
namespace ScionTime.C08Scion
open ScionTime.ScionSrv

/-- The repaired DRKey check never panics. -/
theorem C08Scion_authCheck_total (cfg : Cfg) (p : Pkt) : ∀ c, authCheck true cfg p ≠ .panic c := by
  intro c
  unfold authCheck
  split
  · split
    · simp
    · rename_i d _
      split
      · simp
      · rename_i hlen
        have hm : authMeta d = .ok (d.getD 3 0 + d.getD 2 0 * 256 + d.getD 1 0 * 65536 + d.getD 0 0 * 16777216, d.getD 4 0) := by
          unfold authMeta; rw [if_neg hlen]
        rw [hm]
        simp only
        split
        · have hk : fetchKey true cfg ≠ .nilPanic := by
            unfold fetchKey; simp only [↓reduceIte]; repeat' split
            all_goals simp
          split
          · rename_i h; exact absurd h hk
          · simp
          · split
            · simp
            · split <;> simp
        · simp
  · simp

/-- **For every configuration and every parsed packet, the repaired listener step returns to the
    receive loop (drop / reply / forward) — it never panics.** -/
theorem C08Scion_handle_total (cfg : Cfg) (p : Pkt) : ∀ c, handle cfg p ≠ .panic c := by
  intro c
  unfold handle handleG
  simp only [↓reduceIte]
  split
  · simp
  · split
    · split <;> simp
    · simp
  · have ha := C08Scion_authCheck_total cfg p
    repeat' split
    all_goals (try (simp; done))
    rename_i c' h
    exact absurd h (ha c')

/-- Progress: every step of the repaired listener yields exactly one of drop / reply / forward. -/
theorem C08Scion_listener_progress (cfg : Cfg) (p : Pkt) :
    (∃ r, handle cfg p = .drop r) ∨ (∃ r, handle cfg p = .reply r) ∨ (∃ f, handle cfg p = .forward f) := by
  have h := C08Scion_handle_total cfg p
  cases hh : handle cfg p with
  | drop r => exact Or.inl ⟨r, rfl⟩
  | reply r => exact Or.inr (Or.inl ⟨r, rfl⟩)
  | forward f => exact Or.inr (Or.inr ⟨f, rfl⟩)
  | panic c => exact absurd hh (h c)

/-- `PacketAuthOptMetadata` / `PacketAuthOptMAC` are only called on 28-byte data by the repaired
    listener; on exactly those they do not panic. -/
theorem C08Scion_authMeta_total (d : List Nat) (h : d.length = optDataLen) :
    (∀ c, authMeta d ≠ .panic c) ∧ (∀ c, authMAC d ≠ .panic c) := by
  unfold authMeta authMAC
  simp [h]

/-! ## F4: the code as found — one datagram kills the listener (inputs reproduced on the real
    code by harness/cmd/c13, see notes/C13.md) -/

/-- A well-formed NTP request to the service port, on the service socket, mock keys. -/
def req : Pkt :=
  { lastHop := 0, tc := 0, srcIA := 561850441797029, dstIA := 843325418555255, srcType := 0, dstType := 0,
    srcAddr := [10, 252, 240, 110], dstAddr := [127, 0, 13, 1], pathType := 0, path := [], rev := some (0, []),
    l4 := .udp, srcPort := 37407, dstPort := 10123, udpLenOk := true, e2e := false,
    auth := none, mac := none, payload := [35], ntpOk := true }

def cfgMock : Cfg := serverCfg 10123 10123 46 true true false
def cfgNoMock : Cfg := serverCfg 10123 10123 46 false true false

def authOpt (macByte : Nat) : List Nat := [0, 3, 0, 123, 0, 0, 0, 0, 0, 0, 0, 0] ++ List.replicate 16 macByte
/-- client-SPI authenticator with a matching MAC -/
def reqAuth : Pkt := { req with e2e := true, auth := some (authOpt 7), mac := some (List.replicate 16 7) }
/-- client-SPI authenticator on an unknown path type: the MAC cannot be computed -/
def reqAuthUnknownPath : Pkt := { req with pathType := 6, path := [1, 2, 3, 4], rev := none, e2e := true, auth := some (authOpt 0), mac := none }
/-- request over a complete one-hop path (32 bytes); its reverse is a SCION path (36 bytes) -/
def reqOneHop : Pkt := { req with pathType := 2, path := List.replicate 32 1, rev := some (1, List.replicate 36 1) }

/-- sanity: the base request is served by both versions. -/
theorem C08Scion_base_served :
    (∃ r, handleOld cfgMock req = .reply r) ∧ (∃ r, handle cfgMock req = .reply r) :=
  ⟨⟨_, rfl⟩, ⟨_, rfl⟩⟩

/-- F4(a): destination host address type 9 (length 8). -/
theorem C08Scion_F4_addr_len8 :
    handleOld cfgMock { req with dstType := 9, dstAddr := [81, 115, 188, 109, 36, 10, 219, 178] }
      = .panic "explicit:unexpected_IP_address_byte_slice" := by decide

/-- F4(a): source host address type 2 (length 12). -/
theorem C08Scion_F4_addr_len12 :
    handleOld cfgMock { req with srcType := 2, srcAddr := List.replicate 12 1 }
      = .panic "explicit:unexpected_IP_address_byte_slice" := by decide

/-- F4(b): authenticator option with empty data (any length ≠ 28). -/
theorem C08Scion_F4_auth_len :
    handleOld cfgMock { req with e2e := true, auth := some [] }
      = .panic "explicit:unexpected_authenticator_option_data" := by decide

/-- F4(c): path whose `Reverse()` fails (one-hop path with the second hop not filled in, or an
    unknown path type), NTP request. -/
theorem C08Scion_F4_reverse_ntp :
    handleOld cfgMock { req with pathType := 2, path := List.replicate 32 0, rev := none }
      = .panic "explicit:reverse" := by decide

/-- F4(c): the same through an SCMP traceroute request (also on the dispatcher). -/
theorem C08Scion_F4_reverse_scmp :
    handleOld dispatcherCfg { req with pathType := 5, path := [1, 2, 3, 4], rev := none, l4 := .scmp 130 0 }
      = .panic "explicit:reverse" := by decide

/-- F4(d): authenticator with the client SPI, no mock keys, nil daemon connector. -/
theorem C08Scion_F4_nil_connector :
    handleOld cfgNoMock reqAuth = .panic "nil" := by decide

/-- F4(e) (found by this check): client-SPI authenticator on a packet with an unknown path type —
    `spao.ComputeAuthCMAC` returns an error and the listener `panic(err)`s. -/
theorem C08Scion_F4_mac_error :
    handleOld cfgMock reqAuthUnknownPath = .panic "explicit:mac" := by decide

/-- The same inputs on the repaired code: dropped. -/
theorem C08Scion_F4_repaired :
    handle cfgMock { req with dstType := 9, dstAddr := [81, 115, 188, 109, 36, 10, 219, 178] } = .drop "dst-addr" ∧
    handle cfgMock { req with e2e := true, auth := some [] } = .drop "auth-option-length" ∧
    handle cfgMock { req with pathType := 2, path := List.replicate 32 0, rev := none } = .drop "reverse" ∧
    handle cfgMock reqAuthUnknownPath = .drop "mac-error" := by
  decide

/-- … and the nil-connector request is served without authentication (fetch error is logged). -/
theorem C08Scion_F4_nil_connector_repaired :
    ∃ r, handle cfgNoMock reqAuth = .reply r ∧ r.auth = none := ⟨_, rfl, rfl⟩

/-- One-hop request (found by this check): the code as found leaves the reply's path-type field
    at one-hop (2) although the reversed path is a SCION path (1); repaired: the reversed
    path's type. -/
theorem C08Scion_stale_path_type :
    (∃ r, handleOld cfgMock reqOneHop = .reply r ∧ r.pathType = 2 ∧ r.path.length = 36) ∧
    (∃ r, handle cfgMock reqOneHop = .reply r ∧ r.pathType = 1) :=
  ⟨⟨_, rfl, rfl, rfl⟩, ⟨_, rfl, rfl⟩⟩

end ScionTime.C08Scion
