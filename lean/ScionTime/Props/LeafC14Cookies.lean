/-
  Kernel-checked ties (C14 / C11): `(*ServerCookie).Encode` and `(*EncryptedServerCookie).Encode` of
  net/ntske/cookies.go as regenerated from /repo's Go source on every run (Gen/LeafNtske.lean;
  `make([]byte, n)` with a run-time length, `binary.BigEndian.PutUint16(b[k:], v)` and
  `copy(b[k:], src)` on the buffer made in the function) are the model's `scEncode` / `ecEncode`
  (Model/Cookies.lean), for every cookie whose byte strings are shorter than 2^61 bytes. They never
  panic: the buffer is sized exactly.
-/
import ScionTime.Gen.LeafNtske
import ScionTime.Model.Cookies
import ScionTime.Proofs.GoPrelude
namespace ScionTime.LeafTieC14Cookies
open ScionTime ScionTime.Gen.Leaf ScionTime.GoLemmas ScionTime.Nts

def bytesN (b : List UInt8) : List Nat := b.map UInt8.toNat

theorem len_toInt (l : List UInt8) (h : l.length < 4611686018427387904) : (Go.len l).toInt = l.length := by
  unfold Go.len; exact Int64.toInt_ofNat_of_lt (by omega)

/-- a 16-bit big-endian write at the end of what has been written so far -/
theorem put_at (pre : List UInt8) (m : Nat) (off : Int64) (v : UInt16) (hoff : off.toInt = pre.length) (hm : 2 ≤ m) :
    Go.putU16? (pre ++ List.replicate m 0) off v =
      some ((pre ++ [(v >>> 8).toUInt8, v.toUInt8]) ++ List.replicate (m - 2) 0) := by
  unfold Go.putU16?
  have hk : off.toInt.toNat = pre.length := by omega
  have hl : (pre ++ List.replicate m (0 : UInt8)).length = pre.length + m := by simp
  rw [if_pos ⟨by omega, by rw [hk, hl]; omega⟩, hk]
  simp only [List.take_left', List.append_assoc]
  congr 2
  rw [List.drop_append, List.drop_eq_nil_of_le (by omega)]
  simp

theorem copy_at (pre src : List UInt8) (m : Nat) (off : Int64) (hoff : off.toInt = pre.length) (hm : src.length ≤ m) :
    Go.copyL? (pre ++ List.replicate m 0) off src = some ((pre ++ src) ++ List.replicate (m - src.length) 0) := by
  unfold Go.copyL?
  have hk : off.toInt.toNat = pre.length := by omega
  have hl : (pre ++ List.replicate m (0 : UInt8)).length = pre.length + m := by simp
  rw [if_pos ⟨by omega, by rw [hk, hl]; omega⟩, hk]
  simp only [List.length_append, List.length_replicate, Nat.add_sub_cancel_left, Nat.min_eq_right hm, List.take_left',
    List.take_length, List.append_assoc]
  congr 2
  rw [List.drop_append, List.drop_eq_nil_of_le (by omega)]
  simp

theorem be16_bytes (v : UInt16) : bytesN [(v >>> 8).toUInt8, v.toUInt8] = be16 v.toNat := by
  simp [bytesN, be16, Nat.shiftRight_eq_div_pow]

theorem len16 (l : List UInt8) (h : l.length < 4611686018427387904) :
    ((Go.len l).toUInt64.toUInt16).toNat = l.length % 65536 := by
  have h1 := toNat_toUInt64 (Go.len l)
  rw [len_toInt l h] at h1
  have : ((Go.len l).toUInt64.toUInt16).toNat = (Go.len l).toUInt64.toNat % 65536 := by simp
  rw [this]
  omega

/-- the common shape of both encoders, over the three tags -/
theorem encode_shape (t0 t1 t2 num : UInt16) (x y : List UInt8) (L : Int64)
    (hx : x.length < 4611686018427387904) (hy : y.length < 4611686018427387904)
    (hlen : L.toInt = 14 + y.length + x.length) :
    (let cookieLen : Int64 := L
     (Go.makeBytesN? cookieLen).bind fun _s1 =>
     let b : (List UInt8) := _s1
     (Go.putU16? b (0 : Int64) t0).bind fun _s2 =>
     let b : (List UInt8) := _s2
     (Go.putU16? b (2 : Int64) (2 : UInt16)).bind fun _s3 =>
     let b : (List UInt8) := _s3
     (Go.putU16? b (4 : Int64) num).bind fun _s4 =>
     let b : (List UInt8) := _s4
     (Go.putU16? b (6 : Int64) t1).bind fun _s5 =>
     let b : (List UInt8) := _s5
     (Go.putU16? b (8 : Int64) (((Go.len x)).toUInt64.toUInt16)).bind fun _s6 =>
     let b : (List UInt8) := _s6
     (Go.copyL? b (10 : Int64) x).bind fun _s7 =>
     let b : (List UInt8) := _s7
     let pos : Int64 := ((Go.len x) + (10 : Int64))
     (Go.putU16? b pos t2).bind fun _s8 =>
     let b : (List UInt8) := _s8
     (Go.putU16? b (pos + (2 : Int64)) (((Go.len y)).toUInt64.toUInt16)).bind fun _s9 =>
     let b : (List UInt8) := _s9
     (Go.copyL? b (pos + (4 : Int64)) y).bind fun _s10 =>
     let b : (List UInt8) := _s10
     some (b)).map bytesN =
    some (encodeTLV t0.toNat t1.toNat t2.toNat ⟨num.toNat, bytesN x, bytesN y⟩) := by
  have hlx := len_toInt x hx
  have hly := len_toInt y hy
  have hpos : (Go.len x + (10 : Int64)).toInt = x.length + 10 := by
    have : (10 : Int64).toInt = 10 := by decide
    rw [toInt_add_of_fits _ _ (by omega) (by omega)]; omega
  have hpos2 : (Go.len x + (10 : Int64) + (2 : Int64)).toInt = x.length + 12 := by
    have : (2 : Int64).toInt = 2 := by decide
    rw [toInt_add_of_fits _ _ (by omega) (by omega)]; omega
  have hpos4 : (Go.len x + (10 : Int64) + (4 : Int64)).toInt = x.length + 14 := by
    have : (4 : Int64).toInt = 4 := by decide
    rw [toInt_add_of_fits _ _ (by omega) (by omega)]; omega
  have hmk : Go.makeBytesN? L =
      some (([] : List UInt8) ++ List.replicate (14 + y.length + x.length) 0) := by
    unfold Go.makeBytesN?
    rw [if_pos (by omega), hlen]
    have : (14 + (y.length : Int) + (x.length : Int)).toNat = 14 + y.length + x.length := by omega
    rw [this]
    simp
  simp only [hmk, Option.bind_some]
  rw [put_at [] _ 0 t0 (by rfl) (by omega)]
  simp only [Option.bind_some, List.nil_append]
  rw [put_at _ _ 2 2 (by rfl) (by omega)]
  simp only [Option.bind_some]
  rw [put_at _ _ 4 num (by rfl) (by omega)]
  simp only [Option.bind_some]
  rw [put_at _ _ 6 t1 (by rfl) (by omega)]
  simp only [Option.bind_some]
  rw [put_at _ _ 8 _ (by rfl) (by omega)]
  simp only [Option.bind_some]
  rw [copy_at _ x _ 10 (by rfl) (by omega)]
  simp only [Option.bind_some]
  rw [put_at _ _ _ t2 (by rw [hpos]; simp; omega) (by omega)]
  simp only [Option.bind_some]
  rw [put_at _ _ _ _ (by rw [hpos2]; simp; omega) (by omega)]
  simp only [Option.bind_some]
  rw [copy_at _ y _ _ (by rw [hpos4]; simp; omega) (by omega)]
  simp only [Option.bind_some, Option.map_some, Option.some.injEq]
  have hz : 14 + y.length + x.length - 2 - 2 - 2 - 2 - 2 - x.length - 2 - 2 - y.length = 0 := by omega
  rw [hz]
  simp only [List.replicate_zero, List.append_nil, encodeTLV, bytesN, List.map_append, List.length_map]
  have e1 := be16_bytes t0; have e2 := be16_bytes 2; have e3 := be16_bytes num
  have e4 := be16_bytes t1; have e5 := be16_bytes t2
  have e6 := be16_bytes ((Go.len x).toUInt64.toUInt16); have e7 := be16_bytes ((Go.len y).toUInt64.toUInt16)
  simp only [bytesN] at e1 e2 e3 e4 e5 e6 e7
  rw [e1, e2, e3, e4, e5, e6, e7, len16 x hx, len16 y hy]
  rfl

theorem C14_leaf_ServerCookie_Encode (c : S_ServerCookie)
    (h1 : c.S2C.length < 2305843009213693952) (h2 : c.C2S.length < 2305843009213693952) :
    (ntske_ServerCookie_Encode c).map bytesN = some (scEncode ⟨c.Algo.toNat, bytesN c.S2C, bytesN c.C2S⟩) :=
  encode_shape 257 513 769 c.Algo c.S2C c.C2S _ (by omega) (by omega) (by
    have h14 : (((3 : Int64) * (4 : Int64)) + (2 : Int64)).toInt = 14 := by decide
    have a := len_toInt c.S2C (by omega); have b := len_toInt c.C2S (by omega)
    have ha : ((((3 : Int64) * (4 : Int64)) + (2 : Int64)) + Go.len c.C2S).toInt = 14 + c.C2S.length := by
      rw [toInt_add_of_fits _ _ (by omega) (by omega)]; omega
    rw [toInt_add_of_fits _ _ (by omega) (by omega)]; omega)

theorem C14_leaf_EncryptedServerCookie_Encode (c : S_EncryptedServerCookie)
    (h1 : c.Nonce.length < 2305843009213693952) (h2 : c.Ciphertext.length < 2305843009213693952) :
    (ntske_EncryptedServerCookie_Encode c).map bytesN = some (ecEncode ⟨c.ID.toNat, bytesN c.Nonce, bytesN c.Ciphertext⟩) :=
  encode_shape 1025 1281 1537 c.ID c.Nonce c.Ciphertext _ (by omega) (by omega) (by
    have h14 : (((3 : Int64) * (4 : Int64)) + (2 : Int64)).toInt = 14 := by decide
    have a := len_toInt c.Nonce (by omega); have b := len_toInt c.Ciphertext (by omega)
    have ha : ((((3 : Int64) * (4 : Int64)) + (2 : Int64)) + Go.len c.Nonce).toInt = 14 + c.Nonce.length := by
      rw [toInt_add_of_fits _ _ (by omega) (by omega)]; omega
    rw [toInt_add_of_fits _ _ (by omega) (by omega)]; omega)

/-- non-vacuity through the generated definition -/
example : ntske_ServerCookie_Encode ⟨15, [1, 2, 3], [4, 5]⟩ =
    some [1, 1, 0, 2, 0, 15, 2, 1, 0, 3, 1, 2, 3, 3, 1, 0, 2, 4, 5] := by decide

end ScionTime.LeafTieC14Cookies
