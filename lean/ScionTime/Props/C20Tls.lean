/-
  Props/C20Tls.lean — C20, caller side: net/ntske's Fetcher and the NTS-KE servers do not choose
  a TLS policy; they use the `tls.Config` their callers hand them. The callers are in
  timeservice.go: `configureIPClientNTS`, `configureSCIONClientNTS` (clients of reference
  clocks, peers and the tool) and `tlsConfig` (servers). Stated over Model/MainCfg.lean: every
  client configured for NTS gets MinVersion TLS 1.3, ALPN exactly ["ntske/1"], the host part of
  the NTS-KE server as ServerName, the port part as the Fetcher's port, and certificate
  verification switched off exactly when the configuration says so.

  Tied to the real functions on every run by harness/cmd/cmain (part ctor).
-/
import ScionTime.Model.MainCfg
import ScionTime.Gen.Client
import ScionTime.Gen.Ntske

namespace ScionTime.Props.C20Tls
open ScionTime.MainCfg

/-! ### pins (harness/extract/x_cmain.go) -/

/-- the `tls.Config` literals of the three functions -/
theorem C20Tls_pin_literals :
    Gen.Client.main_configureIPClientNTS_tls =
      "NextProtos:[]string{\"ntske/1\"} | InsecureSkipVerify:ntskeInsecureSkipVerify | ServerName:ntskeHost | MinVersion:tls.VersionTLS13" ∧
    Gen.Client.main_configureSCIONClientNTS_tls =
      "NextProtos:[]string{\"ntske/1\"} | InsecureSkipVerify:ntskeInsecureSkipVerify | ServerName:ntskeHost | MinVersion:tls.VersionTLS13" ∧
    Gen.Client.main_tlsConfig_tls =
      "ServerName:cfg.NTSKEServerName | NextProtos:[]string{\"ntske/1\"} | GetCertificate:certCache.loadCert | MinVersion:tls.VersionTLS13" :=
  ⟨rfl, rfl, rfl⟩

/-- everything else the two client functions assign, in order -/
theorem C20Tls_pin_assigns :
    Gen.Client.main_configureIPClientNTS_assigns =
      "c.Auth.Enabled=true | c.Auth.NTSKEFetcher.TLSConfig={..} | c.Auth.NTSKEFetcher.Port=ntskePort | c.Auth.NTSKEFetcher.Log=log" ∧
    Gen.Client.main_configureSCIONClientNTS_assigns =
      "c.Auth.NTSEnabled=true | c.Auth.NTSKEFetcher.TLSConfig={..} | c.Auth.NTSKEFetcher.Port=ntskePort | c.Auth.NTSKEFetcher.Log=log | c.Auth.NTSKEFetcher.QUIC.Enabled=true | c.Auth.NTSKEFetcher.QUIC.DaemonAddr=daemonAddr | c.Auth.NTSKEFetcher.QUIC.LocalAddr=localAddr | c.Auth.NTSKEFetcher.QUIC.RemoteAddr=remoteAddr" :=
  ⟨rfl, rfl⟩

/-- the ALPN protocol the callers offer is the one the Fetcher insists on (net/ntske `alpn`),
    and `tls.VersionTLS13` is 0x0304 -/
theorem C20Tls_pin_alpn : (clientTLS "h" false).nextProtos = [Gen.Ntske.alpn] ∧ versionTLS13 = 0x0304 := by
  decide

/-! ### clients -/

/-- the TLS policy of a client configuration -/
def Policy (t : TLSCfg) (host : String) (insecure : Bool) : Prop :=
  t.minVersion = versionTLS13 ∧ t.maxVersion = 0 ∧ t.nextProtos = ["ntske/1"] ∧ t.serverName = host ∧
  t.insecureSkipVerify = insecure

/-- `configureIPClientNTS` succeeds exactly when the NTS-KE server splits into host and port;
    then the client authenticates (`Auth.Enabled`), its Fetcher uses the policy above with that
    host, and that port; nothing else of the client changes -/
theorem C20Tls_ip_client (c : IPClient) (server : String) (insecure : Bool) :
    (splitHostPort server = none → configureIPClientNTS c server insecure = .fatal msgSplit) ∧
    (∀ host port, splitHostPort server = some (host, port) →
      ∃ c', configureIPClientNTS c server insecure = .ok c' ∧ c'.authEnabled = true ∧
        Policy c'.fetcher.tls host insecure ∧ c'.fetcher.port = port ∧ c'.fetcher.quic = c.fetcher.quic ∧
        c'.dscp = c.dscp ∧ c'.interleavedMode = c.interleavedMode ∧ c'.filter = c.filter) := by
  constructor
  · intro h; simp [configureIPClientNTS, h]
  · intro host port h
    exact ⟨{ c with authEnabled := true,
                    fetcher := { c.fetcher with tls := clientTLS host insecure, port := port, log := true } },
      by simp only [configureIPClientNTS, h], rfl, ⟨rfl, rfl, rfl, rfl, rfl⟩, rfl, rfl, rfl, rfl, rfl⟩

/-- the same for the SCION client, which runs the key exchange over QUIC to the configured
    daemon / local / remote addresses (`Auth.NTSEnabled`; `Auth.Enabled` is SPAO's and untouched) -/
theorem C20Tls_scion_client (c : SCIONClient) (server : String) (insecure : Bool) (daemon l r : String) :
    (splitHostPort server = none → configureSCIONClientNTS c server insecure daemon l r = .fatal msgSplit) ∧
    (∀ host port, splitHostPort server = some (host, port) →
      ∃ c', configureSCIONClientNTS c server insecure daemon l r = .ok c' ∧ c'.ntsEnabled = true ∧
        c'.authEnabled = c.authEnabled ∧ Policy c'.fetcher.tls host insecure ∧ c'.fetcher.port = port ∧
        c'.fetcher.quic = true ∧ c'.fetcher.quicDaemon = daemon ∧ c'.fetcher.quicLocal = l ∧ c'.fetcher.quicRemote = r ∧
        c'.dscp = c.dscp ∧ c'.interleavedMode = c.interleavedMode ∧ c'.filter = c.filter ∧
        c'.prevReference = c.prevReference) := by
  constructor
  · intro h; simp [configureSCIONClientNTS, h]
  · intro host port h
    exact ⟨{ c with ntsEnabled := true,
                    fetcher := { c.fetcher with tls := clientTLS host insecure, port := port, log := true, quic := true,
                                                quicDaemon := daemon, quicLocal := l, quicRemote := r } },
      by simp only [configureSCIONClientNTS, h], rfl, rfl, ⟨rfl, rfl, rfl, rfl, rfl⟩, rfl, rfl, rfl, rfl, rfl, rfl, rfl, rfl, rfl⟩

/-- **No downgrade by configuration plumbing**: verification is skipped only if the
    configuration asked for it, and the minimum version is TLS 1.3 whatever the arguments -/
theorem C20Tls_never_below_tls13 (c : IPClient) (s : SCIONClient) (server : String) (insecure : Bool)
    (daemon l r : String) :
    (∀ c', configureIPClientNTS c server insecure = .ok c' →
      c'.fetcher.tls.minVersion = 0x0304 ∧ (c'.fetcher.tls.insecureSkipVerify = true ↔ insecure = true)) ∧
    (∀ s', configureSCIONClientNTS s server insecure daemon l r = .ok s' →
      s'.fetcher.tls.minVersion = 0x0304 ∧ (s'.fetcher.tls.insecureSkipVerify = true ↔ insecure = true)) := by
  constructor
  · intro c' h
    simp only [configureIPClientNTS] at h
    split at h
    · cases h
    · cases h; simp [clientTLS, versionTLS13]
  · intro s' h
    simp only [configureSCIONClientNTS] at h
    split at h
    · cases h
    · cases h; simp [clientTLS, versionTLS13]

/-- the IP reference clock: with "nts" among the authentication modes its client carries that
    policy (or the constructor refuses the configuration); without it no TLS configuration at all -/
theorem C20Tls_refclk_ip (a : CtorArgs) :
    (a.authModes.contains authModeNTS = true →
      (splitHostPort a.ntskeServer = none ∧ newRefClockIP a = .fatal msgSplit) ∨
      ∃ host port k, splitHostPort a.ntskeServer = some (host, port) ∧ newRefClockIP a = .ok k ∧
        k.ntpc.authEnabled = true ∧ Policy k.ntpc.fetcher.tls host a.insecure ∧ k.ntpc.fetcher.port = port ∧
        k.ntpc.interleavedMode = true ∧ k.ntpc.dscp = a.dscp) ∧
    (a.authModes.contains authModeNTS = false →
      ∃ k, newRefClockIP a = .ok k ∧ k.ntpc.authEnabled = false ∧ k.ntpc.fetcher = {} ∧
        k.ntpc.interleavedMode = true ∧ k.ntpc.dscp = a.dscp) := by
  constructor
  · intro hn
    cases hsp : splitHostPort a.ntskeServer with
    | none => left; exact ⟨rfl, by simp only [newRefClockIP, hn, if_true, configureIPClientNTS, hsp]⟩
    | some hp =>
      obtain ⟨host, port⟩ := hp
      right
      refine ⟨host, port,
        ⟨true, { log := true, dscp := a.dscp, interleavedMode := true, authEnabled := true, filter := some 0,
                 fetcher := { tls := clientTLS host a.insecure, port := port, log := true } }, a.localAddr, a.remoteAddr⟩,
        rfl, ?_, rfl, ⟨rfl, rfl, rfl, rfl, rfl⟩, rfl, rfl, rfl⟩
      simp only [newRefClockIP, hn, if_true, configureIPClientNTS, hsp]
  · intro hn
    refine ⟨⟨true, { log := true, dscp := a.dscp, interleavedMode := true, filter := some 0 }, a.localAddr, a.remoteAddr⟩,
      ?_, rfl, rfl, rfl, rfl⟩
    simp only [newRefClockIP, hn, Bool.false_eq_true, if_false]

/-! ### splitting the NTS-KE server (Go's net.SplitHostPort) -/

/-- instances: name, IPv4, bracketed IPv6 (brackets removed, zone kept), empty host, empty port;
    refused: no port, bare IPv6, text after the bracket, several colons, stray brackets, empty -/
theorem C20Tls_split_instances :
    splitHostPort "ke.example:4460" = some ("ke.example", "4460") ∧
    splitHostPort "10.0.0.1:10123" = some ("10.0.0.1", "10123") ∧
    splitHostPort "[::1]:4460" = some ("::1", "4460") ∧
    splitHostPort "[fe80::1%25eth0]:123" = some ("fe80::1%25eth0", "123") ∧
    splitHostPort ":4460" = some ("", "4460") ∧ splitHostPort "host:" = some ("host", "") ∧
    splitHostPort "nohost" = none ∧ splitHostPort "::1:4460" = none ∧ splitHostPort "[::1]" = none ∧
    splitHostPort "[::1]4460" = none ∧ splitHostPort "[::1]:44:60" = none ∧ splitHostPort "a:b:c" = none ∧
    splitHostPort "x]:1" = none ∧ splitHostPort "[x:1" = none ∧ splitHostPort "[a]b:1" = none ∧
    splitHostPort "" = none := by decide +kernel

/-- `ntskeServerFromRemoteAddr`: the text between the first and the second comma (for a SCION
    address `IA,host:port` that is the host:port part); no comma: panic -/
theorem C20Tls_ntske_server_instances :
    ntskeServerFromRemoteAddr "1-ff00:0:112,10.0.0.1:10123" = .ok "10.0.0.1:10123" ∧
    ntskeServerFromRemoteAddr "0-0,[::1]:123" = .ok "[::1]:123" ∧
    ntskeServerFromRemoteAddr "a,b,c" = .ok "b" ∧ ntskeServerFromRemoteAddr "a," = .ok "" ∧
    ntskeServerFromRemoteAddr "abc" = .panic "remote address has wrong format" ∧
    ntskeServerFromRemoteAddr "" = .panic "remote address has wrong format" := by decide +kernel

/-! ### servers -/

/-- `tlsConfig`: refused unless server name, certificate file and key file are all given; then
    TLS 1.3 minimum, ALPN ["ntske/1"], the configured name, certificate through the reloading
    callback (no static certificate), verification settings untouched -/
theorem C20Tls_server (name cert key : String) :
    ((name = "" ∨ cert = "" ∨ key = "") → ∃ m, tlsConfig name cert key = .fatal m) ∧
    (¬ (name = "" ∨ cert = "" ∨ key = "") →
      ∃ t, tlsConfig name cert key = .ok t ∧ Policy t name false) := by
  constructor
  · intro h; exact ⟨"missing parameters in configuration for NTSKE server", by simp only [tlsConfig, h, if_true]⟩
  · intro h; exact ⟨{ serverName := name, nextProtos := ["ntske/1"], minVersion := versionTLS13 }, by simp only [tlsConfig, h, if_false], rfl, rfl, rfl, rfl, rfl⟩

/-- non-vacuity -/
example : ∃ t, tlsConfig "ke.example" "/etc/cert.pem" "/etc/key.pem" = .ok t ∧ Policy t "ke.example" false :=
  (C20Tls_server _ _ _).2 (by decide)

end ScionTime.Props.C20Tls
