/-
  C18 (floating-point clauses) — frequency <-> scaled-ppm conversion round-trips to within
  one unit in the last place; the drift allowance is proportional to the interval.
  Model: ScionTime/Model/F64P_UnixutilFloat.lean over the software double Model/F64.lean;
  rounding lemmas: ScionTime/Proofs/F64.lean.
-/
import ScionTime.Model.F64P_UnixutilFloat
import ScionTime.Proofs.F64
import ScionTime.Proofs.F64P_C18Float
import ScionTime.Gen.Unixutil
namespace ScionTime.F64P_C18Float
open ScionTime.F64 ScionTime.F64P_UnixutilFloat

/-- Pins: the scale factor inside both function bodies of /repo's current source
    (`65536.0 * 1e6`, evaluated exactly by harness/extract) is the model's. -/
theorem C18_pin_scale_to : Gen.Unixutil.f64p_scaledPPMFromFreqFactor = scale := by decide
theorem C18_pin_scale_from : Gen.Unixutil.f64p_freqFromScaledPPMFactor = scale := by decide

/-! ### scaled ppm -> frequency -> scaled ppm -/

/-- C18: `ScaledPPMFromFreq (FreqFromScaledPPM x)` is within one unit of `x`, for
    `|x| ≤ 2^51` (the kernel's range `|x| ≤ 32768000` included; see the corollary). -/
theorem C18_scaledppm_roundtrip (x : Int) (h : x.natAbs ≤ 2 ^ 51) :
    (scaledPPMFromFreq (freqFromScaledPPM x) - x).natAbs ≤ 1 := by
  unfold scaledPPMFromFreq freqFromScaledPPM
  rw [scaleF_eq]
  by_cases h0 : x = 0
  · subst h0; rw [ofInt_zero]; simp [div, mul, toInt64]
  · rw [ofInt_exact h0 (by omega)]
    obtain ⟨hx1, hx2⟩ := intCast_bounds h
    have hx0 := one_le_abs_intCast h0
    simp only [Int.cast_ofNat_Int, Nat.reducePow, Rat.intCast_ofNat] at hx1 hx2
    -- first rounding: the quotient is a normal number
    have hq1 : pow2 (-37) ≤ ((x : Rat) / 65536000000).abs := by
      rw [pow2_m37]; simp only [Rat.abs] at hx0 ⊢; grind
    have hq1' : ((x : Rat) / 65536000000).abs ≤ maxFin := by
      refine Rat.le_trans ?_ (pow2_le_maxFin (K := 53) (by decide))
      rw [pow2_53_lit]; simp only [Rat.abs]; grind
    have hfin1 := roundNE_fin (Rat.le_trans (pow2_mono (by decide)) hq1) hq1'
    have e1 := rnd_err_rel (Rat.le_trans (pow2_mono (by decide)) hq1)
    rw [pow2_53_lit] at e1
    simp only [div, mul]
    rw [hfin1]
    generalize rnd ((x : Rat) / 65536000000) = f at *
    -- second rounding
    have e2 := rnd_err_gen (f * 65536000000)
    rw [pow2_53_lit] at e2
    have e2' := Rat.le_trans e2 (Rat.add_le_add_left.2 eta_le)
    obtain ⟨hr, hq2⟩ := rt_arith hx1 hx2 e1 e2'
    have hq2' : (f * 65536000000).abs ≤ maxFin := by
      refine Rat.le_trans hq2 (Rat.le_trans ?_ (pow2_le_maxFin (K := 53) (by decide)))
      rw [pow2_53_lit]; grind
    have hval := toRat_roundNE_of_le hq2'
    have hfin := isFinite_roundNE_of_le hq2'
    generalize rnd (f * 65536000000) = r at *
    rw [toInt64_eq_trunc hfin (by rw [hval, pow2_63_lit]; rw [abs_lt_iff] at hr; grind)
      (by rw [hval, pow2_63_lit]; rw [abs_lt_iff] at hr; grind), hval]
    exact trunc_near hr

/-- the kernel's range: ±500 ppm = ±32 768 000 scaled units -/
theorem C18_scaledppm_roundtrip_kernel (x : Int) (h1 : -32768000 ≤ x) (h2 : x ≤ 32768000) :
    x - 1 ≤ scaledPPMFromFreq (freqFromScaledPPM x) ∧
    scaledPPMFromFreq (freqFromScaledPPM x) ≤ x + 1 := by
  have := C18_scaledppm_roundtrip x (by omega)
  omega

example : (32768000 : Int).natAbs ≤ 2 ^ 51 := by decide

/-! ### frequency -> scaled ppm -> frequency -/

/-- C18, reverse direction, "within one unit in the last place of the scaled value":
    for a finite frequency `f` whose scaled value `f · 65536·10^6` is at most `2^40` in
    magnitude (the kernel's range is `2^25`), converting to scaled ppm and back gives a
    finite frequency whose scaled value differs from that of `f` by at most `1 + 2^-11`
    scaled units (1 from the truncation to an integer, the rest from three roundings). -/
theorem C18_freq_roundtrip (f : F64) (hf : isFinite f = true)
    (h : (toRat f * 65536000000).abs ≤ pow2 40) :
    isFinite (freqFromScaledPPM (scaledPPMFromFreq f)) = true ∧
    (toRat (freqFromScaledPPM (scaledPPMFromFreq f)) * 65536000000 - toRat f * 65536000000).abs
      ≤ 1 + pow2 (-11) := by
  unfold freqFromScaledPPM scaledPPMFromFreq
  rw [pow2_40_lit] at h
  have hmax : (1099511627778 : Rat) ≤ maxFin := by
    refine Rat.le_trans ?_ (pow2_le_maxFin (K := 53) (by decide)); rw [pow2_53_lit]; grind
  -- the product
  obtain ⟨fin1, val1⟩ := toRat_mul hf isFinite_scaleF
    (by rw [toRat_scaleF]; exact Rat.le_trans h (Rat.le_trans (by grind) hmax))
  rw [toRat_scaleF] at val1
  have e1 := Rat.le_trans (rnd_err_gen (toRat f * 65536000000)) (Rat.add_le_add_left.2 eta_le')
  rw [pow2_53_lit] at e1
  generalize toRat f * 65536000000 = p at *
  generalize mul f scaleF = y at *
  -- the truncation
  have et := trunc_err (toRat y)
  obtain ⟨hr, hS⟩ := rtf_arith0 h (by rw [← val1] at e1; exact e1) et
  rw [abs_le_iff] at hr hS
  rw [toInt64_eq_trunc fin1 (by rw [pow2_63_lit]; grind) (by rw [pow2_63_lit]; grind)]
  generalize trunc (toRat y) = s at *
  have hs : s.natAbs ≤ 2 ^ 53 := by
    have := natAbs_le_of_bounds (s := s) (n := 1099511627778) (by simpa using hS.1) (by simpa using hS.2)
    omega
  -- the quotient
  have hq : ((s : Rat) / 65536000000).abs ≤ maxFin := by
    refine Rat.le_trans ?_ hmax; rw [abs_le_iff]; grind
  obtain ⟨fin2, val2⟩ := toRat_div (isFinite_ofInt_exact hs) isFinite_scaleF
    (by rw [toRat_scaleF]; decide) (by rw [toRat_scaleF, toRat_ofInt_exact hs]; exact hq)
  rw [toRat_scaleF, toRat_ofInt_exact hs] at val2
  refine ⟨fin2, ?_⟩
  have e2 := Rat.le_trans (rnd_err_gen ((s : Rat) / 65536000000)) (Rat.add_le_add_left.2 eta_le')
  rw [pow2_53_lit] at e2
  rw [val2, pow2_m11]
  exact rtf_arith h (by rw [← val1] at e1; exact e1) et e2

/-- the hypothesis is met by every frequency within the kernel's ±500 ppm -/
example : ((500 : Rat) / 1000000 * 65536000000).abs ≤ pow2 40 := by
  rw [pow2_40_lit, abs_le_iff]; grind

/-! ### drift allowance -/

/-- The Go expression `timemath.Duration(duration.Seconds() * drift)` read over the
    rationals (no rounding, no truncation): seconds and sub-second part are split by
    truncating division, recombined, multiplied by the drift and by `10^9`. -/
def driftExact (c : Rat) (d : Int) : Rat :=
  (((Int.tdiv d 1000000000 : Int) : Rat) + ((Int.tmod d 1000000000 : Int) : Rat) / 1000000000) * c
    * 1000000000

/-- C18: the unrounded drift allowance is exactly `drift · duration` … -/
theorem C18_drift_exact (c : Rat) (d : Int) : driftExact c d = c * (d : Rat) := by
  unfold driftExact
  have h := (tdiv_tmod_facts d).1
  have : (d : Rat) = ((Int.tdiv d 1000000000 * 1000000000 + Int.tmod d 1000000000 : Int) : Rat) := by
    rw [← h]
  rw [this, Rat.intCast_add, Rat.intCast_mul]
  simp only [Rat.intCast_ofNat]
  grind

/-- … hence proportional to the interval: `k` times the interval gives `k` times the
    allowance, and allowances add over adjacent intervals. -/
theorem C18_drift_proportional (c : Rat) (k d : Int) :
    driftExact c (k * d) = (k : Rat) * driftExact c d := by
  rw [C18_drift_exact, C18_drift_exact, Rat.intCast_mul]; grind

theorem C18_drift_additive (c : Rat) (d₁ d₂ : Int) :
    driftExact c (d₁ + d₂) = driftExact c d₁ + driftExact c d₂ := by
  rw [C18_drift_exact, C18_drift_exact, C18_drift_exact, Rat.intCast_add]; grind

/-- an unknown drift (`0`, either sign) yields the maximal allowance -/
theorem C18_drift_unknown (s : Bool) (d : Int) : drift (.zero s) d = 9223372036854775807 := by
  cases s <;> rfl

/-- C18: the computed allowance `(*SystemClock).Drift` is within 1 ns + a relative `2^-50`
    of `drift · duration`, for every int64 duration and every finite drift with
    `2^-900 ≤ |drift| ≤ 1/2` (four roundings of relative size `2^-53`, one truncation;
    the lower bound keeps the intermediate product out of the subnormal range, the upper
    bound keeps the result inside int64: `drift = 1`, `duration = MaxInt64` overflows). -/
theorem C18_drift_bound (c : F64) (d : Int) (hf : isFinite c = true)
    (h1 : pow2 (-900) ≤ (toRat c).abs) (h2 : (toRat c).abs ≤ 1 / 2) (hd : d.natAbs ≤ 2 ^ 63) :
    (((drift c d : Int) : Rat) - toRat c * (d : Rat)).abs ≤ 1 + (toRat c * (d : Rat)).abs / pow2 50 := by
  have hP900 := pow2_pos (-900)
  cases c with
  | nan => exact Bool.noConfusion hf
  | inf _ => exact Bool.noConfusion hf
  | zero _ => exfalso; simp only [toRat, Rat.abs_zero] at h1; grind
  | fin v =>
  simp only [toRat] at h1 h2 ⊢
  have hv0 : v ≠ 0 := by intro h; rw [h, Rat.abs_zero] at h1; grind
  have hbeq : beq (.fin v) (.zero false) = false := by simp [beq, toRat, hv0]
  unfold drift; rw [hbeq]; simp only [Bool.false_eq_true, if_false]
  have hC : ofInt 1000000000 = .fin 1000000000 := by
    rw [ofInt_exact (by decide) (by decide)]; simp
  by_cases hd0 : d = 0
  · subst hd0
    simp [toDuration, durationSeconds, ofInt_zero, hC, div, add, mul, toInt64]
    rw [Rat.sub_self, Rat.abs_zero, Rat.div_def, Rat.zero_mul]; grind
  · have hη0 := Rat.le_of_lt (pow2_pos (-1075))
    have hη := eta_le'
    obtain ⟨hdl, hdu⟩ := intCast_bounds hd
    simp only [Int.cast_ofNat_Int, Nat.reducePow, Rat.intCast_ofNat] at hdl hdu
    -- Seconds(): finite, value `secondsVal d`, relative error 3·2^-53
    obtain ⟨fS, _, vS⟩ := durationSeconds_val hd
    have l1 := secondsVal_err d
    have bS := secondsVal_abs_le hd
    -- the one non-linear step: scale the error by the drift
    have l2 := drift_L2 (κ := 3 / 9007199254740992) hη0 h2 l1
    have hE : pow2 (-900) ≤ (v * (d : Rat)).abs := by
      rw [abs_mul]
      have := mul_le_mul' (Rat.le_of_lt hP900) h1 (by grind : (0 : Rat) ≤ 1) (one_le_abs_intCast hd0)
      grind
    have hEb : (v * (d : Rat)).abs ≤ 4611686018427387904 := by
      have := abs_mul_le h2 (abs_le_iff.2 ⟨hdl, hdu⟩); grind
    have hxE : v * (d : Rat) = (d : Rat) / 1000000000 * v * 1000000000 := by grind
    -- the two remaining roundings
    have e3 := rnd_err_gen (secondsVal d * v)
    have e4 := rnd_err_gen (rnd (secondsVal d * v) * 1000000000)
    rw [pow2_53_lit] at e3 e4
    have l3 := drift_L3 hη0 hxE (drift_eta hE) l2 e3 e4
    have bM := drift_L3b hη (by rw [← hxE]; exact hEb) l2 e3
    have hmax : (9223372036854774784 : Rat) ≤ maxFin := by
      refine Rat.le_trans ?_ (pow2_le_maxFin (K := 63) (by decide)); rw [pow2_63_lit]; grind
    -- the float operations
    obtain ⟨fM, vM⟩ := toRat_mul fS (show isFinite (.fin v) = true from rfl) (by
      rw [vS, toRat_fin]
      have := abs_mul_le bS h2
      exact Rat.le_trans this (Rat.le_trans (by grind) hmax))
    rw [vS, toRat_fin] at vM
    rw [toDuration_val fM (by rw [vM]; exact bM), vM, pow2_50_lit]
    exact drift_final l3 (trunc_err _)

/-- the hypotheses are met by, e.g., a drift of `2^-20` (about 1 ppm) -/
example : pow2 (-900) ≤ (pow2 (-20)).abs ∧ (pow2 (-20)).abs ≤ 1 / 2 := by
  rw [Rat.abs_of_nonneg (Rat.le_of_lt (pow2_pos _))]
  exact ⟨pow2_mono (by decide), by rw [show (1 : Rat) / 2 = pow2 (-1) by rw [pow2_neg]; congr 1]; exact pow2_mono (by decide)⟩

end ScionTime.F64P_C18Float
