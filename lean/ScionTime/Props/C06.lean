/-
  C06 — server replies in basic and interleaved mode, for every history.
  Model: ScionTime/Model/Server.lean (`handleRequest` = repaired code, `handleRequestOld` =
  code at the pinned commit, `updateTX`). Helper lemmas: ScionTime/Proofs/ServerReply.lean.

  Per-step theorems are stated for an arbitrary state satisfying the structural invariant
  `Inv0 P` of C07 (which every reachable state does: `C06_inv_run`), for both variants of
  `handleRequest` (`strict = true` repaired, `false` original) unless said otherwise.
  "Later" on NTP timestamps is the era-agnostic comparison `Later rx tx`:
  (tx − rx) mod 2^64 ∈ (0, 2^63).
-/
import ScionTime.Proofs.ServerReply
import ScionTime.Gen.Server
namespace ScionTime.Props.C06
open ScionTime.Time64 ScionTime.Server

theorem C06_pin_tssItemCap : Gen.Server.tssItemCap = (tssItemCap : Int) := by decide
theorem C06_pin_tssCap : Gen.Server.tssCap = (tssCap : Int) := by decide

section Step
variable {P : Entry → Prop}

/-- rx_echo_unique: the reply carries the server's receive timestamp of this request (the
    possibly bumped `*rxt`, never earlier than the packet's receive time, unchanged for an
    unknown client), and it differs from every receive timestamp kept for that client. -/
theorem C06_rx_echo_unique (strict : Bool) (cap icap : Nat) (hic2 : icap < 1000000000) (st : State)
    (inv : Inv0 P cap icap st) (id : Nat) (req : Req) (rxt now : Int) :
    (handleRequestG strict cap icap st id req rxt now).reply.rx =
        ofTime (handleRequestG strict cap icap st id req rxt now).rxt ∧
    rxt ≤ (handleRequestG strict cap icap st id req rxt now).rxt ∧
    (∀ it e, st.items.find id = some it → e ∈ it.buf →
        e.rx ≠ (handleRequestG strict cap icap st id req rxt now).reply.rx) ∧
    (st.items.find id = none → (handleRequestG strict cap icap st id req rxt now).rxt = rxt) := by
  have ho := hr_outputs strict cap icap st id req rxt now
  cases hf : Map.find st.items id with
  | none =>
    obtain ⟨h1, _, h3⟩ := ho.2 hf
    rw [h1, h3, mkReply_rx]
    exact ⟨rfl, Int.le_refl _, (by intro it e h; cases h), (fun _ => rfl)⟩
  | some it =>
    obtain ⟨h1, _, h3⟩ := ho.1 it hf
    rw [h1, h3, mkReply_rx]
    have ok := inv.items id it hf
    refine ⟨rfl, (uniq_mono it.buf _ rxt _).1, ?_, (by intro h; cases h)⟩
    intro it' e h he
    cases h
    intro heq
    have hc := uniq_spec it.buf rxt (txt0 strict rxt now) (by have := ok.len_le; omega)
    have : collides it.buf (ofTime (uniq it.buf rxt (txt0 strict rxt now) (it.buf.length + 1)).1) = true :=
      (collides_iff _ _).2 ⟨e, he, heq⟩
    rw [hc] at this; cases this

/-- interleaved_iff: the reply is interleaved exactly when the request's receive and transmit
    fields differ and an exchange of THIS client with receive timestamp = the request's
    origin is on record. -/
theorem C06_interleaved_iff (strict : Bool) (cap icap : Nat) (st : State) (id : Nat) (req : Req)
    (rxt now : Int) :
    (handleRequestG strict cap icap st id req rxt now).reply.inter = true ↔
      req.rx ≠ req.tx ∧ ∃ it e, st.items.find id = some it ∧ e ∈ it.buf ∧ e.rx = req.org := by
  have ho := hr_outputs strict cap icap st id req rxt now
  cases hf : Map.find st.items id with
  | none =>
    rw [(ho.2 hf).2.2, mkReply_inter]
    constructor
    · rintro ⟨_, e, h⟩; cases h
    · rintro ⟨_, it, e, h, _⟩; cases h
  | some it =>
    rw [(ho.1 it hf).2.2, mkReply_inter]
    have sp := served_spec it.buf req.org
    constructor
    · rintro ⟨h1, e, he⟩
      exact ⟨h1, it, e, rfl, (sp.1 e he).1, (sp.1 e he).2⟩
    · rintro ⟨h1, it', e, h, he, hrx⟩
      cases h
      refine ⟨h1, ?_⟩
      cases hs : (scan it.buf req.org).o.bind (fun o => it.buf[o]?) with
      | none => exact absurd hrx (sp.2 hs e he)
      | some e' => exact ⟨e', rfl⟩

/-- Interleaved reply: origin = the request's receive timestamp; transmit timestamp = the
    transmit time recorded for the (unique) exchange of this client whose receive timestamp
    equals the request's origin; that exchange was written on behalf of the requester
    (no_cross_client) and satisfies whatever holds of all recorded exchanges (`P`; see
    `C06_recorded_tx_later`). -/
theorem C06_interleaved_shape (strict : Bool) (cap icap : Nat) (st : State) (inv : Inv0 P cap icap st)
    (id : Nat) (req : Req) (rxt now : Int)
    (h : (handleRequestG strict cap icap st id req rxt now).reply.inter = true) :
    (handleRequestG strict cap icap st id req rxt now).reply.org = req.rx ∧
    ∃ it e, st.items.find id = some it ∧ e ∈ it.buf ∧ e.rx = req.org ∧
      (handleRequestG strict cap icap st id req rxt now).reply.tx = e.tx ∧
      e.owner = id ∧ P e ∧ ∀ e' ∈ it.buf, e'.rx = req.org → e' = e := by
  have ho := hr_outputs strict cap icap st id req rxt now
  cases hf : Map.find st.items id with
  | none =>
    rw [(ho.2 hf).2.2, mkReply_inter] at h
    obtain ⟨_, e, he⟩ := h; cases he
  | some it =>
    rw [(ho.1 it hf).2.2] at h ⊢
    have ok := inv.items id it hf
    have sp := served_spec it.buf req.org
    cases hs : (scan it.buf req.org).o.bind (fun o => it.buf[o]?) with
    | none => rw [hs, mkReply_inter] at h; obtain ⟨_, e, he⟩ := h; cases he
    | some e =>
      rw [hs] at h
      obtain ⟨a, b⟩ := mkReply_inter_shape req _ _ e h
      obtain ⟨hm, hrx⟩ := sp.1 e hs
      refine ⟨a, it, e, rfl, hm, hrx, b, ok.owner e hm, ok.good e hm, ?_⟩
      intro e' he' hrx'
      exact eq_of_rx_eq ok.distinct he' hm (by rw [hrx', hrx])

/-- basic_shape: a basic reply has origin = the request's transmit timestamp and transmit
    (and reference) timestamp = the encoding of the software transmit time `*txt`. -/
theorem C06_basic_shape (strict : Bool) (cap icap : Nat) (st : State) (id : Nat) (req : Req)
    (rxt now : Int) (h : (handleRequestG strict cap icap st id req rxt now).reply.inter = false) :
    (handleRequestG strict cap icap st id req rxt now).reply.org = req.tx ∧
    (handleRequestG strict cap icap st id req rxt now).reply.tx =
      ofTime (handleRequestG strict cap icap st id req rxt now).txt ∧
    (handleRequestG strict cap icap st id req rxt now).reply.ref =
      ofTime (handleRequestG strict cap icap st id req rxt now).txt := by
  have ho := hr_outputs strict cap icap st id req rxt now
  cases hf : Map.find st.items id with
  | none =>
    obtain ⟨_, h2, h3⟩ := ho.2 hf
    rw [h3] at h ⊢; rw [h2]
    exact ⟨(mkReply_basic_shape _ _ _ _ h).1, (mkReply_basic_shape _ _ _ _ h).2, mkReply_ref _ _ _ _⟩
  | some it =>
    obtain ⟨_, h2, h3⟩ := ho.1 it hf
    rw [h3] at h ⊢; rw [h2]
    exact ⟨(mkReply_basic_shape _ _ _ _ h).1, (mkReply_basic_shape _ _ _ _ h).2, mkReply_ref _ _ _ _⟩

/-- The software transmit time is later than the (possibly bumped) receive time: always in
    the repaired code; in the original code whenever the clock reading at handling time is
    later than the packet's receive time. It exceeds the receive time by at most
    max(now − rxt₀, 1 ns). -/
theorem C06_txt_later (strict : Bool) (cap icap : Nat) (st : State) (id : Nat) (req : Req)
    (rxt now : Int) (h : strict = true ∨ rxt < now) :
    (handleRequestG strict cap icap st id req rxt now).rxt <
      (handleRequestG strict cap icap st id req rxt now).txt ∧
    ((handleRequestG strict cap icap st id req rxt now).txt ≤ now ∨
     (handleRequestG strict cap icap st id req rxt now).txt ≤
      (handleRequestG strict cap icap st id req rxt now).rxt + 1) := by
  have ho := hr_outputs strict cap icap st id req rxt now
  have h0 : rxt < txt0 strict rxt now ∧ (txt0 strict rxt now ≤ now ∨ txt0 strict rxt now = rxt + 1) := by
    unfold txt0
    rcases h with h | h
    · subst h; simp; split <;> omega
    · cases strict <;> simp <;> (try split) <;> omega
  cases hf : Map.find st.items id with
  | none =>
    obtain ⟨h1, h2, _⟩ := ho.2 hf
    rw [h1, h2]; omega
  | some it =>
    obtain ⟨h1, h2, _⟩ := ho.1 it hf
    rw [h1, h2]
    have hm := uniq_mono it.buf (it.buf.length + 1) rxt (txt0 strict rxt now)
    refine ⟨hm.2.2.2.1 h0.1, ?_⟩
    rcases hm.2.2.2.2.2 with c | c
    · rcases h0.2 with d | d
      · left; omega
      · right; have := hm.1; omega
    · right; exact c

/-- What is recorded for a reply: whatever the client keeps after `handleRequest` contains the
    pair (receive timestamp of the reply, encoding of the software transmit time). -/
theorem C06_recorded_pair (strict : Bool) (cap icap : Nat) (hcap : 1 ≤ cap) (st : State)
    (inv : Inv0 P cap icap st) (id : Nat) (req : Req) (rxt now : Int) (it' : Item)
    (hf : (handleRequestG strict cap icap st id req rxt now).st.items.find id = some it') :
    (⟨ofTime (handleRequestG strict cap icap st id req rxt now).rxt,
      ofTime (handleRequestG strict cap icap st id req rxt now).txt, id⟩ : Entry) ∈ it'.buf :=
  hr_recorded strict cap icap hcap st inv id req rxt now it' hf

/-- recorded_tx: `updateTXTimestamp` returns a transmit time later than the receive time
    (the reported one if it is later, else rxt + 1 ns). For the exchange of this client
    with that receive timestamp: if its recorded transmit time differs from the reported
    one, the reported one is recorded in its place; if not (no kernel timestamp could be
    read), the exchange is dropped from the record (and the client with it, if it was its
    only exchange). -/
theorem C06_recorded_tx (cap icap : Nat) (st : State) (inv : Inv0 P cap icap st) (id : Nat)
    (rxt txt1 : Int) (it : Item) (hit : st.items.find id = some it) (e : Entry) (he : e ∈ it.buf)
    (hrx : e.rx = ofTime rxt) :
    rxt < (updateTX st id rxt txt1).2 ∧
    ((updateTX st id rxt txt1).2 = txt1 ∨ (updateTX st id rxt txt1).2 = rxt + 1) ∧
    (e.tx ≠ ofTime (updateTX st id rxt txt1).2 →
      ∃ it', (updateTX st id rxt txt1).1.items.find id = some it' ∧
        { e with tx := ofTime (updateTX st id rxt txt1).2 } ∈ it'.buf ∧
        it'.buf.length = it.buf.length) ∧
    (e.tx = ofTime (updateTX st id rxt txt1).2 →
      ∀ it', (updateTX st id rxt txt1).1.items.find id = some it' →
        (∀ e' ∈ it'.buf, e'.rx ≠ ofTime rxt) ∧ it'.buf.length + 1 = it.buf.length) := by
  rw [utx_txt]
  have := utx_recorded cap icap st inv id rxt txt1 it hit e he hrx
  refine ⟨?_, ?_, this.1, this.2⟩
  · unfold utxTxt; split <;> omega
  · unfold utxTxt; split <;> omega

end Step

/-! ### all histories -/

/-- 2^30 s in nanoseconds -/
def window : Int := 1073741824000000000

/-- the recorded transmit timestamp is later than the receive timestamp -/
def TxLater (e : Entry) : Prop := Later e.rx e.tx

/-- hypotheses on the environment: the clock reading at handling time and the reported
    kernel transmit time are less than 2^30 s (34 years) after the packet's receive time
    (they may be equal to or earlier than it). -/
def SaneOp : Op → Prop
  | .hr _ _ rxt now => now < rxt + window
  | .utx _ rxt txt1 => txt1 < rxt + window

theorem C06_inv_step (cap icap : Nat) (hcap : 1 ≤ cap) (hic : 1 ≤ icap) (hic2 : icap < 1000000000)
    (st : State) (inv : Inv0 TxLater cap icap st) (op : Op) (hs : SaneOp op) :
    Inv0 TxLater cap icap (stepOp cap icap st op) := by
  cases op with
  | hr id req rxt now =>
    apply inv0_handleRequestG true cap icap hcap hic hic2 st inv id req rxt now
    intro a b ha hab hb
    unfold SaneOp window at hs
    exact later_ofTime a b (hab rfl) (by omega)
  | utx id rxt txt1 =>
    apply inv0_updateTX cap icap st inv id rxt txt1
    intro e t _ hrx hlt ht
    unfold SaneOp window at hs
    unfold TxLater
    simp only
    rw [hrx]
    exact later_ofTime rxt t hlt (by omega)

/-- The structural invariant with "every recorded transmit timestamp is later than its
    receive timestamp" holds after every finite history of requests and updates (repaired
    code), for any mix of clients and any timestamps (equal, decreasing, colliding; clock
    readings earlier than receive times; lost transmit timestamps). -/
theorem C06_inv_run (cap icap : Nat) (hcap : 1 ≤ cap) (hic : 1 ≤ icap) (hic2 : icap < 1000000000)
    (ops : List Op) : (∀ op ∈ ops, SaneOp op) → ∀ st, Inv0 TxLater cap icap st →
      Inv0 TxLater cap icap (run cap icap st ops) := by
  induction ops with
  | nil => intro _ st h; exact h
  | cons op ops ih =>
    intro hs st h
    exact ih (fun o ho => hs o (List.mem_cons_of_mem _ ho)) _
      (C06_inv_step cap icap hcap hic hic2 st h op (hs op List.mem_cons_self))

theorem C06_inv_init (cap icap : Nat) : Inv0 TxLater cap icap init := by
  refine ⟨⟨by simp [init, Map.keys], rfl, ?_, ?_⟩, by simp [init], ?_⟩
  · intro i hi; simp [init] at hi
  · intro k q hq; simp [init, pos] at hq
  · intro k it h; simp [init] at h

/-- recorded_tx_later (repaired code): after every history, every recorded transmit
    timestamp is later than the receive timestamp it is paired with. -/
theorem C06_recorded_tx_later (ops : List Op) (hs : ∀ op ∈ ops, SaneOp op) (k : Nat) (it : Item)
    (e : Entry) (h : (run tssCap tssItemCap init ops).items.find k = some it) (he : e ∈ it.buf) :
    Later e.rx e.tx :=
  ((C06_inv_run tssCap tssItemCap (by decide) (by decide) (by decide) ops hs init
    (C06_inv_init _ _)).items k it h).good e he

/-- no_cross_client: after every history, every exchange kept under a client id was written
    on behalf of that client (ghost owner), and (`C06_interleaved_shape`) an interleaved reply
    is served from the requester's own item only. -/
theorem C06_no_cross_client (ops : List Op) (hs : ∀ op ∈ ops, SaneOp op) (k : Nat) (it : Item)
    (e : Entry) (h : (run tssCap tssItemCap init ops).items.find k = some it) (he : e ∈ it.buf) :
    e.owner = k :=
  ((C06_inv_run tssCap tssItemCap (by decide) (by decide) (by decide) ops hs init
    (C06_inv_init _ _)).items k it h).owner e he

/-- The reply contract for the request that follows any history (repaired code, real
    capacities): the reply echoes the server's receive timestamp, distinct from all kept for
    the client; it is interleaved iff the request's rx ≠ tx and an exchange of this client
    with rx = origin is on record, and then origin = req.rx and the transmit timestamp is
    that exchange's recorded transmit time, which is later than its receive timestamp and
    was recorded for this very client; otherwise origin = req.tx and the transmit timestamp
    encodes a software transmit time strictly later than the receive time (and, the clock
    reading being less than 2^30 s after the receive time, is `Later` than the reply's receive
    timestamp). -/
theorem C06_reply_contract (ops : List Op) (hs : ∀ op ∈ ops, SaneOp op) (id : Nat) (req : Req)
    (rxt now : Int) (hnow : now < rxt + window) :
    let st := run tssCap tssItemCap init ops
    let r := handleRequest tssCap tssItemCap st id req rxt now
    r.reply.rx = ofTime r.rxt ∧ rxt ≤ r.rxt ∧ r.rxt < r.txt ∧
    (∀ it e, st.items.find id = some it → e ∈ it.buf → e.rx ≠ r.reply.rx) ∧
    (r.reply.inter = true ↔
      req.rx ≠ req.tx ∧ ∃ it e, st.items.find id = some it ∧ e ∈ it.buf ∧ e.rx = req.org) ∧
    (r.reply.inter = true → r.reply.org = req.rx ∧
      ∃ it e, st.items.find id = some it ∧ e ∈ it.buf ∧ e.rx = req.org ∧ r.reply.tx = e.tx ∧
        e.owner = id ∧ Later e.rx e.tx) ∧
    (r.reply.inter = false → r.reply.org = req.tx ∧ r.reply.tx = ofTime r.txt ∧
      Later r.reply.rx r.reply.tx) := by
  intro st r
  have inv := C06_inv_run tssCap tssItemCap (by decide) (by decide) (by decide) ops hs init (C06_inv_init _ _)
  have h1 := C06_rx_echo_unique true tssCap tssItemCap (by decide) st inv id req rxt now
  have h2 := C06_interleaved_iff true tssCap tssItemCap st id req rxt now
  have h5 := C06_txt_later true tssCap tssItemCap st id req rxt now (Or.inl rfl)
  refine ⟨h1.1, h1.2.1, h5.1, h1.2.2.1, h2, ?_, ?_⟩
  · intro hi
    obtain ⟨a, it, e, b, c, d, f, g, hh, _⟩ :=
      C06_interleaved_shape true tssCap tssItemCap st inv id req rxt now hi
    exact ⟨a, it, e, b, c, d, f, g, hh⟩
  · intro hb
    have := C06_basic_shape true tssCap tssItemCap st id req rxt now hb
    refine ⟨this.1, this.2.1, ?_⟩
    show Later (handleRequestG true tssCap tssItemCap st id req rxt now).reply.rx
      (handleRequestG true tssCap tssItemCap st id req rxt now).reply.tx
    rw [this.2.1, h1.1]
    unfold window at hnow
    exact later_ofTime _ _ h5.1 (by have := h1.2.1; have := h5.2; omega)

/-! ### finding F9: the code as it was at the pinned commit

  With a clock reading not later than the packet's receive time and no collision, the
  original `handleRequest` recorded `tx ≤ rx`; an interleaved request handled before the
  transmit-timestamp update was served that transmit time. History: client 1, receive time
  1 000 000 000 ns, clock reading 999 999 000 ns; then a request whose origin is the first
  reply's receive timestamp. -/

def f9st : State :=
  (handleRequestOld tssCap tssItemCap init 1 ⟨⟨0, 0⟩, ⟨0, 0⟩, ⟨7, 7⟩⟩ 1000000000 999999000).st
def f9reply : Reply :=
  (handleRequestOld tssCap tssItemCap f9st 1 ⟨ofTime 1000000000, ⟨9, 9⟩, ⟨8, 8⟩⟩ 2000000000 2000000500).reply
def f9replyNew : Reply :=
  (handleRequest tssCap tssItemCap
    (handleRequest tssCap tssItemCap init 1 ⟨⟨0, 0⟩, ⟨0, 0⟩, ⟨7, 7⟩⟩ 1000000000 999999000).st
    1 ⟨ofTime 1000000000, ⟨9, 9⟩, ⟨8, 8⟩⟩ 2000000000 2000000500).reply

/-- The original code serves, in interleaved mode, a transmit timestamp that is not later
    than the receive timestamp it is paired with (it is earlier). -/
theorem C06_old_code_counterexample :
    f9reply.inter = true ∧ f9reply.org = ⟨9, 9⟩ ∧ ¬ Later (ofTime 1000000000) f9reply.tx ∧
      Later f9reply.tx (ofTime 1000000000) := by decide

/-- The repaired code on the same history serves rx + 1 ns. -/
theorem C06_f9_repaired :
    f9replyNew.inter = true ∧ f9replyNew.tx = ofTime 1000000001 ∧
      Later (ofTime 1000000000) f9replyNew.tx := by decide

/-- What holds of the original code (recorded_tx_later_partial): the software transmit time is
    later than the receive time under the hypothesis that the clock reading at handling
    time is later than the packet's receive time. -/
theorem C06_old_code_partial (cap icap : Nat) (st : State) (id : Nat) (req : Req) (rxt now : Int)
    (h : rxt < now) :
    (handleRequestOld cap icap st id req rxt now).rxt < (handleRequestOld cap icap st id req rxt now).txt :=
  (C06_txt_later false cap icap st id req rxt now (Or.inr h)).1

/-! Non-vacuity of `SaneOp` and of the interleaved case. -/
example : SaneOp (.hr 1 ⟨⟨0, 0⟩, ⟨0, 0⟩, ⟨7, 7⟩⟩ 1000000000 999999000) := by
  unfold SaneOp window; omega
example : SaneOp (.utx 1 1000000000 1000000000) := by unfold SaneOp window; omega

end ScionTime.Props.C06
