/-
  C06 — server replies in basic and interleaved mode (model: ScionTime/Model/Server.lean).
-/
import ScionTime.Model.Server
import ScionTime.Gen.Server
namespace ScionTime.Props.C06
open ScionTime.Time64 ScionTime.Server

theorem C06_pin_tssItemCap : Gen.Server.tssItemCap = (tssItemCap : Int) := by decide

end ScionTime.Props.C06
