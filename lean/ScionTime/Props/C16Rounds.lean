/-
  Props/C16Rounds.lean — C16 over SEVERAL rounds on one `ReferenceClockClient`: no result of one
  round ever reaches the result slice of another.

  Model: Model/CollectRounds.lean — the product of single-round systems (`Collect.St`, one per call
  of `MeasureClockOffsets`, each with its own channel) sharing the virtual clock and the entry
  guard; the goroutines a round leaves behind (senders that had not returned by its deadline, its
  drain goroutine) keep taking steps while later rounds run. Every theorem is for EVERY global
  schedule (`List MChoice`: entering rounds with any arguments at any admissible point, steps of
  any goroutine of any round in any interleaving, time passing), from a fresh client:
  `mrun (minit t) sched = some m`, and for EVERY round `r ∈ m.rounds` of it.
  Invariants: Proofs/CollectRounds.lean (`minv_run`: each round satisfies the single-round
  invariant `Collect.Inv` for its own arguments).
-/
import ScionTime.Proofs.CollectRounds
import ScionTime.Gen.Client
namespace ScionTime.C16
open ScionTime.Collect ScionTime.CollectRounds

/-- WHY a round is a system of its own (re-read from core/client/client.go on every run,
    harness/extract/x_c16rounds.go): the client struct holds the guard word and nothing else;
    `MeasureClockOffsets` touches the client through that word only; the result channel `msc` is
    declared exactly once, by `msc := make(chan …)` INSIDE the call; its only uses are the senders'
    `msc <- …` and being handed to `collectMeasurements`, which receives from that parameter and
    from `ctx.Done()` and sends nowhere. A channel kept across calls (a field, a package variable)
    breaks this pin. -/
theorem C16_pin_channel_is_local :
    Gen.Client.c16_clientFields = ["numOpsInProgress:uint32"] ∧
    Gen.Client.c16_clientSelectorUses = ["c.numOpsInProgress"] ∧
    Gen.Client.c16_mscDecls = ["msc := make(chan measurements.Measurement)"] ∧
    Gen.Client.c16_mscUses = ["argument of collectMeasurements", "send on msc"] ∧
    Gen.Client.c16_collectRecvs = ["ctx.Done()", "msc"] :=
  ⟨rfl, rfl, rfl, rfl, rfl⟩

/-- NO CROSS-ROUND LEAKAGE. In every global schedule, for every round ever entered on the client —
    also while senders and the drain goroutine of earlier rounds are still running, and after later
    rounds have been entered —: the front of that round's result slice is exactly what that round's
    own collector received successfully, in arrival order; every entry of it is a successful result
    of one of THAT round's own measurement calls; with distinct clock ids none occurs twice; the
    rest of the slice is as the caller passed it in (nobody — no straggler of any round — wrote
    to it); the slice keeps its length. -/
theorem C16_rounds_no_cross_round_leak {t : Int} {sched : List MChoice} {m : Multi}
    (hr : mrun (minit t) sched = some m) {r : Round} (hmem : r ∈ m.rounds) :
    r.st.ms.take r.st.j = r.st.received.filter (·.ok) ∧
    (∀ x ∈ r.st.ms.take r.st.j, x.ok = true ∧ ∃ y ∈ r.spec.senders, y.id = x.id) ∧
    ((r.spec.senders.map (·.id)).Nodup → ((r.st.ms.take r.st.j).map (·.id)).Nodup) ∧
    r.st.ms.drop r.st.j = r.spec.ms0.drop r.st.j ∧
    r.st.ms.length = r.spec.senders.length := by
  obtain ⟨_, hlen, h⟩ := minv_run (minv_init t) hr r hmem
  have hn : r.st.n = r.spec.senders.length := by have := h.nIds; simp at this; omega
  refine ⟨h.slice.front, ?_, ?_, h.slice.tail, by rw [h.slice.len, hn]⟩
  · intro x hx
    rw [h.slice.front, List.mem_filter] at hx
    refine ⟨hx.2, ?_⟩
    have hid : x.id ∈ allIds r.st := by
      unfold allIds
      simp only [List.mem_append, List.mem_map]
      exact Or.inl (Or.inl (Or.inl ⟨x, hx.1, rfl⟩))
    have := (h.cons.mem_iff).mp hid
    simp only [List.mem_map] at this
    obtain ⟨y, hy, hyid⟩ := this
    exact ⟨y, hy, hyid⟩
  · intro hnd
    have hall : (allIds r.st).Nodup := h.cons.nodup_iff.mpr hnd
    have hrec : (r.st.received.map (·.id)).Nodup := by
      unfold allIds at hall
      exact (List.nodup_append.mp (List.nodup_append.mp (List.nodup_append.mp hall).1).1).1
    rw [h.slice.front]
    exact List.Nodup.sublist (List.Sublist.map _ List.filter_sublist) hrec

/-- Every round of every global schedule ends by ITS deadline: its collector is never in its loop
    later than `max deadline t0` of that round, and returned no later than that — whatever the
    stragglers of earlier rounds do meanwhile. -/
theorem C16_rounds_by_deadline {t : Int} {sched : List MChoice} {m : Multi}
    (hr : mrun (minit t) sched = some m) {r : Round} (hmem : r ∈ m.rounds) :
    (r.st.phase = .loop → m.now ≤ max r.spec.deadline r.t0) ∧
    (∀ left, r.st.phase = .done left → r.st.retAt ≤ max r.spec.deadline r.t0) := by
  obtain ⟨hnow, _, h⟩ := minv_run (minv_init t) hr r hmem
  exact ⟨fun hp => by rw [← hnow]; exact h.time.inLoop hp, h.time.ret⟩

/-- A straggler never needs another round: a sender of ANY round that is blocked on its round's
    channel always has a receiver in its own round that can take a step in the product — that
    round's collector (receive or return) or that round's drain goroutine. -/
theorem C16_rounds_straggler_has_own_receiver {t : Int} {sched : List MChoice} {m : Multi}
    (hr : mrun (minit t) sched = some m) {k : Nat} {r : Round} (hk : m.rounds[k]? = some r)
    (hs : r.st.sending ≠ []) :
    ∃ c, (mstep m (.inRound k c)).isSome ∧
      ((∃ id, c = .recv id) ∨ c = .retFull ∨ (∃ id, c = .drain id)) := by
  have hmem : r ∈ m.rounds := List.mem_of_getElem? hk
  obtain ⟨_, hlen, h⟩ := minv_run (minv_init t) hr r hmem
  obtain ⟨x, rest, hx⟩ := List.exists_cons_of_ne_nil hs
  have hf : findMsg r.st.sending x.id = some x := by simp [findMsg, hx]
  have lift : ∀ c, isTick c = false → (step r.st c).isSome → (mstep m (.inRound k c)).isSome := by
    intro c hc hsome
    obtain ⟨s', hs'⟩ := Option.isSome_iff_exists.mp hsome
    simp [mstep, hc, hk, hs']
  cases hp : r.st.phase with
  | loop =>
    by_cases hi : r.st.i = r.st.n
    · exact ⟨.retFull, lift _ rfl (by simp [step, hp, hi]), Or.inr (Or.inl rfl)⟩
    · exact ⟨.recv x.id, lift _ rfl (by simp [step, hp, hf, hi]), Or.inl ⟨_, rfl⟩⟩
  | done left =>
    have hc := inv_count h
    have hd := h.drain.cnt left hp
    have : left ≠ 0 := by
      have : r.st.sending.length ≠ 0 := by rw [hx]; simp
      omega
    exact ⟨.drain x.id, lift _ rfl (by simp [step, hp, hf, this]), Or.inr (Or.inr ⟨_, rfl⟩)⟩

/-- Nothing is left behind by any round: once a round's measurement calls have all returned and
    none of its senders is blocked, every one of its results was received exactly once — by its
    collector or by its drain goroutine — and that drain goroutine has exited. -/
theorem C16_rounds_no_leak {t : Int} {sched : List MChoice} {m : Multi}
    (hr : mrun (minit t) sched = some m) {r : Round} (hmem : r ∈ m.rounds)
    (hm : r.st.measuring = []) (hs : r.st.sending = []) :
    r.st.received.length + r.st.drained.length = r.spec.senders.length ∧
    (∀ left, r.st.phase = .done left → left = 0) := by
  obtain ⟨_, hlen, h⟩ := minv_run (minv_init t) hr r hmem
  have hc := inv_count h
  have hn : r.st.n = r.spec.senders.length := by have := h.nIds; simp at this; omega
  rw [hm, hs] at hc
  simp only [List.length_nil, Nat.add_zero] at hc
  refine ⟨by omega, fun left hp => ?_⟩
  have := h.drain.cnt left hp
  omega

/-- A step of a goroutine of round `k` — a straggler returning, a drain receive — changes round `k`
    only: every other round's state, result slice included, is what it was. -/
theorem C16_rounds_step_is_local {m m' : Multi} {k : Nat} {c : Choice}
    (h : mstep m (.inRound k c) = some m') {j : Nat} (hj : j ≠ k) :
    m'.rounds[j]? = m.rounds[j]? ∧ m'.now = m.now := by
  simp only [mstep] at h
  split at h
  · cases h
  · split at h
    · split at h
      · cases h
        exact ⟨by simp [Ne.symm hj], rfl⟩
      · cases h
    · cases h

/-- A new round is entered only when no collector is in its loop: calls of `MeasureClockOffsets` on
    one client do not overlap (the caller is sequential and the guard refuses otherwise), while the
    goroutines earlier rounds left behind may well be running. -/
theorem C16_rounds_enter_only_when_idle {m m' : Multi} {spec : RoundSpec}
    (h : mstep m (.start spec) = some m') :
    (∀ r ∈ m.rounds, r.st.phase ≠ .loop) ∧ spec.ms0.length = spec.senders.length ∧
    m'.rounds = m.rounds ++ [{ spec := spec, t0 := m.now, st := init m.now spec.deadline spec.senders spec.ms0 }] := by
  simp only [mstep] at h
  split at h
  · rename_i hc
    cases h
    refine ⟨fun r hr hp => ?_, hc.2, rfl⟩
    have := List.all_eq_true.mp hc.1 r hr
    simp [returned, hp] at this
  · cases h

/-! ### a schedule in which all of it happens

Round 0 (entered at 0, deadline 10): clock 0 answers at 3, clock 1 is stuck until 14.
Round 1 (entered at 12, deadline 22): clock 10 answers at 13, clock 11 fails at 15.
The straggler of round 0 returns at 14 — in the middle of round 1 — and is received by round 0's
drain goroutine; round 1's slice holds its own result only. -/

def demoR0 : RoundSpec :=
  { deadline := 10, senders := [⟨0, 3, true, false⟩, ⟨1, 14, true, false⟩],
    ms0 := [⟨90, false⟩, ⟨91, false⟩] }
def demoR1 : RoundSpec :=
  { deadline := 22, senders := [⟨10, 13, true, false⟩, ⟨11, 15, false, false⟩],
    ms0 := [⟨92, false⟩, ⟨93, false⟩] }

def demoRounds : List MChoice :=
  [.start demoR0, .tick 3, .inRound 0 (.finish 0), .inRound 0 (.recv 0), .tick 10, .inRound 0 .cancel,
   .inRound 0 .observeCancel, .tick 12, .start demoR1, .tick 13, .inRound 1 (.finish 10), .inRound 1 (.recv 10),
   .tick 14, .inRound 0 (.finish 1), .inRound 0 (.drain 1), .tick 15, .inRound 1 (.finish 11), .inRound 1 (.recv 11),
   .inRound 1 .retFull]

example : (mrun (minit 0) demoRounds).map (fun m => m.rounds.map (fun r => (r.st.retAt, r.st.j, r.st.ms.map (·.id)))) =
    some [(10, 1, [0, 91]), (15, 1, [10, 93])] := by decide
example : (mrun (minit 0) demoRounds).map (fun m => m.rounds.map (fun r =>
      (r.st.drained.map (·.id), returned r.st, r.st.sending.length))) =
    some [([1], true, 0), ([], true, 0)] := by decide

end ScionTime.C16
