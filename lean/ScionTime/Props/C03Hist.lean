/-
  C03 — "the four timestamps it combines all belong to that one exchange", for histories of calls
  on a client WITH a histogram (Model/ClientTail.lean): a call may report the histogram's error
  after it has committed its state. The pairing theorem of Props/C03 is stated over the thread of
  `prev` through `ClientNtp.exchangeIP`; that thread does not depend on the histogram
  (`C05T_state_as_without_histogram_ip`), and every offset a call REPORTS is the offset of the
  response `exchangeIP` accepted. Hence: along every history, under the hypotheses of
  `C03_pairing_history_ip` (A1, A2, A4, conformant server — stated on the ghost records exactly as
  there; the ghost set `H` of accepted exchanges contains the calls that ended in the histogram's
  error), every reported offset is computed from four timestamps of one exchange — possibly of an
  exchange whose own call reported an error.
-/
import ScionTime.Props.C03
import ScionTime.Props.C05Tail
namespace ScionTime.Props.C03Hist
open ScionTime.Time64 ScionTime.NtpMath ScionTime.ClientNtp ScionTime.ClientTail ScionTime.C03
open ScionTime.Props.C05Tail

/-- every offset reported along a history of calls (state threaded through `exchangeIPH`) stems
    from a response whose tuple carries one ghost exchange id -/
def AllReportedUniform (G : Nat → ExStamps) (cfg : Cfg) (hist : Option Hist)
    (filter : Option (Int → Int → Int → Int → Int64)) (server : Nat) (reference : String) :
    Prev → List Nat → List ExIn → Prop
  | _, _, [] => True
  | prev, H, x :: xs =>
    let r := exchangeIPH cfg hist filter server prev reference x.now x.cTx1 x.evs
    let out := (exchangeIP cfg server prev reference x.now x.cTx1 x.evs).1
    (∀ ts off, r.result = .ok ts off →
        ∃ a n, out = .accepted a n ∧ Uniform G H x.id x.now x.cTx1 a ∧ ts = a.cRx ∧ off = returnedOffset filter a) ∧
    AllReportedUniform G cfg hist filter server reference r.prev (if out.hasOffset then x.id :: H else H) xs

theorem reported_of_uniform (G : Nat → ExStamps) (cfg : Cfg) (hist : Option Hist)
    (filter : Option (Int → Int → Int → Int → Int64)) (server : Nat) (reference : String) (xs : List ExIn) :
    ∀ (prev : Prev) (H : List Nat), AllUniform G cfg server reference prev H xs →
      AllReportedUniform G cfg hist filter server reference prev H xs := by
  induction xs with
  | nil => intro _ _ _; trivial
  | cons x xs ih =>
    intro prev H hu
    obtain ⟨h1, h2⟩ := hu
    refine ⟨?_, ?_⟩
    · intro ts off hr
      obtain ⟨a, n, ha, hts, hoff⟩ :=
        (C05T_never_offset_otherwise_ip cfg hist filter server prev reference x.now x.cTx1 x.evs).1 ts off hr
      exact ⟨a, n, ha, h1 a n ha, hts, hoff⟩
    · rw [C05T_state_as_without_histogram_ip]
      exact ih _ _ h2

/-- **Pairing for histories with a histogram.** -/
theorem C03H_pairing_history_with_histogram (G : Nat → ExStamps) (Srv : List Nat) (cfg : Cfg)
    (hist : Option Hist) (filter : Option (Int → Int → Int → Int → Int64)) (server : Nat)
    (reference : String) (href : reference ≠ "") (a1 : A1 G Srv) (xs : List ExIn)
    (prev : Prev) (H : List Nat) (hco : Coherent G H prev) (hsub : ∀ x ∈ H, x ∈ Srv) (a2 : A2 G H)
    (hh : HistoryHyps G Srv cfg server reference prev H xs) :
    AllReportedUniform G cfg hist filter server reference prev H xs :=
  reported_of_uniform G cfg hist filter server reference xs prev H
    (C03_pairing_history_ip G Srv cfg server reference href a1 xs prev H hco hsub a2 hh)

/-- non-vacuity: a two-call history on the benchmark histogram — call 1 (basic, the server claims
    10 µs of processing for an exchange that took 5 µs: round-trip delay −5 µs) ends in the
    histogram's error with its state committed; call 2 is an interleaved request built on that
    state, answered interleaved, and REPORTS an offset: its tuple is made of call 1's stamps. -/
example :
    let cfg : Cfg := ⟨.ip, true, false, true⟩
    let now : Int := 1700000000000000000
    let pkt1 : NtpPkt := ⟨36, 1, ofTime now, ofTime (now + 1000), ofTime (now + 11000)⟩
    let r1 := exchangeIPH cfg (some benchmarkHist) none 7 Prev.init "S" now now
      [.dgram ⟨7, ⟨48, pkt1, false, false, false⟩⟩ (now + 5000) true]
    let now2 := now + 1000000
    let pkt2 : NtpPkt := ⟨36, 1, r1.prev.cRx, ofTime (now2 + 1000), ofTime (now + 3000)⟩
    let r2 := exchangeIPH cfg (some benchmarkHist) none 7 r1.prev "S" now2 now2
      [.dgram ⟨7, ⟨48, pkt2, false, false, false⟩⟩ (now2 + 5000) true]
    r1.result = .errHist ∧ r2.result.isOk = true ∧ r2.prev.interleaved = true := by
  decide

end ScionTime.Props.C03Hist
