/-
  C09 — servers answer exactly the valid client requests, and never a reply.
  Property theorems only; model: Model/ServerReply.lean (decision sequence of runIPServer /
  runSCIONServer, reply header of handleRequest) over Model/NtpPacket.lean.
  Addressing of the reply over SCION (reversed path) is C13's; the reply's timestamps are
  C06's; the NTS branch is abstracted per datagram (`ntsOk` / `NtsView`; its content is C10/C11),
  what it could carry from one datagram to the next is modelled (`runLoopN`).
-/
import ScionTime.Proofs.C14Codec
import ScionTime.Model.ServerReply
import ScionTime.Gen.Ntp
import ScionTime.Gen.Server
namespace ScionTime.C09
open ScionTime.Wire ScionTime.NtpPacket ScionTime.ServerReply

set_option maxRecDepth 20000

/-! Pins of the constants of /repo the model uses (Gen is regenerated on every run). -/
theorem C09_pin_PacketLen : Gen.Ntp.PacketLen = (packetLen : Int) := by decide
theorem C09_pin_VersionMin : Gen.Ntp.VersionMin = (versionMin : Int) := by decide
theorem C09_pin_VersionMax : Gen.Ntp.VersionMax = (versionMax : Int) := by decide
theorem C09_pin_ModeReserved0 : Gen.Ntp.ModeReserved0 = (modeReserved0 : Int) := by decide
theorem C09_pin_ModeClient : Gen.Ntp.ModeClient = (modeClient : Int) := by decide
theorem C09_pin_ModeServer : Gen.Ntp.ModeServer = (modeServer : Int) := by decide
theorem C09_pin_LeapNoWarning : Gen.Ntp.LeapIndicatorNoWarning = (leapIndicatorNoWarning : Int) := by
  decide
theorem C09_pin_LeapUnknown : Gen.Ntp.LeapIndicatorUnknown = (leapIndicatorUnknown : Int) := by decide
theorem C09_pin_serverRefID : Gen.Server.serverRefID = (serverRefID : Int) := by decide
theorem C09_pin_replyStratum : Gen.Server.replyStratum = (replyStratum : Int) := by decide
theorem C09_pin_replyPrecision : Gen.Server.replyPrecision = replyPrecision := by decide
theorem C09_pin_replyVersion : Gen.Server.replyVersionConst = "VersionMax" := by decide
theorem C09_pin_replyMode : Gen.Server.replyModeConst = "ModeServer" := by decide
theorem C09_pin_ipServerBufLen : Gen.Server.ipServerBufLen = (ipServerBufLen : Int) := by decide

/-- The property's characterisation of a well-formed request header byte: leap indicator 0 or 3;
    version 2–4 with mode 3, or version 1 with mode 0. -/
def WellFormedLvm (x : Nat) : Prop :=
  (x / 64 = 0 ∨ x / 64 = 3) ∧
  ((2 ≤ x / 8 % 8 ∧ x / 8 % 8 ≤ 4 ∧ x % 8 = 3) ∨ (x / 8 % 8 = 1 ∧ x % 8 = 0))

instance (x : Nat) : Decidable (WellFormedLvm x) := by unfold WellFormedLvm; infer_instance

/-- `ValidateRequest` accepts exactly the well-formed header bytes (complete table). -/
theorem C09_validateRequest_iff : ∀ x < 256, (validateRequest x = true ↔ WellFormedLvm x) := by
  decide

/-- There are exactly 8 accepted first bytes out of 256. -/
theorem C09_validateRequest_count :
    ((List.range 256).filter validateRequest) = [8, 19, 27, 35, 200, 211, 219, 227] := by decide

/-- The decision sequence with the decoder eliminated (`DecodePacket` fails exactly below 48
    bytes and yields the first byte as LVM). -/
theorem C09_serve_eq (x : Nat) (t : List Nat) (ntsOk : Bool) :
    serve (x :: t) ntsOk =
      if (x :: t).length > 2048 then .dropTruncated
      else if (x :: t).length < 48 then .dropDecode
      else if (x :: t).length > 48 ∧ ntsOk = false then .dropNts
      else if validateRequest x = false then .dropValidate
      else .reply := by
  unfold serve
  simp only [ipServerBufLen, packetLen]
  rcases C14.ntp_decode_total (x :: t) with ⟨hl, he⟩ | ⟨hl, p, hp⟩
  · simp only [he, if_pos hl]
  · have hlvm := C14.ntp_decode_lvm x t p hp
    simp only [hp, hlvm, if_neg (show ¬ (x :: t).length < 48 by omega)]

/-- **shouldReply_iff.** A listener replies to a datagram iff it fits the receive buffer, has
    at least 48 bytes, its first byte is a well-formed client request header and, if anything
    follows the 48-byte header, the NTS branch succeeded. -/
theorem C09_shouldReply_iff (x : Nat) (t : List Nat) (ntsOk : Bool) (hx : x < 256) :
    shouldReply (x :: t) ntsOk = true ↔
      (48 ≤ (x :: t).length ∧ (x :: t).length ≤ 2048 ∧ WellFormedLvm x ∧
        ((x :: t).length > 48 → ntsOk = true)) := by
  have hv := C09_validateRequest_iff x hx
  unfold shouldReply
  rw [C09_serve_eq]
  generalize (x :: t).length = n
  by_cases h1 : n > 2048
  · rw [if_pos h1]; simp; omega
  · rw [if_neg h1]
    by_cases h2 : n < 48
    · rw [if_pos h2]; simp; omega
    · rw [if_neg h2]
      by_cases h3 : n > 48 ∧ ntsOk = false
      · rw [if_pos h3]; simp; intro _ _ _; exact ⟨h3.1, h3.2⟩
      · rw [if_neg h3]
        by_cases h4 : validateRequest x = false
        · rw [if_pos h4]
          have : ¬ WellFormedLvm x := fun hw => by rw [hv.mpr hw] at h4; cases h4
          simp; intro _ _ hw; exact absurd hw this
        · rw [if_neg h4]
          have hw : WellFormedLvm x := hv.mp (by simpa using h4)
          simp only [decide_true, true_iff]
          refine ⟨by omega, by omega, hw, ?_⟩
          intro hgt
          cases ntsOk
          · exact absurd ⟨hgt, rfl⟩ h3
          · rfl

/-- **History independence.** Whatever datagrams a listener socket has seen before (rejected
    short ones, truncated ones, served ones) and whatever length they left the receive buffer
    with, each datagram is decided as if it were the first: the loop's decisions on a sequence
    are the per-datagram decisions.  (This is what "for *each* payload that is a well-formed
    client request" needs beyond the per-datagram characterisation.) -/
theorem C09_history_independent (bl : Nat) (ds : List (List Nat × Bool)) :
    runLoop true bl ds = ds.map (fun d => serve d.1 d.2) := by
  induction ds generalizing bl with
  | nil => rfl
  | cons d ds ih =>
    simp only [runLoop, List.map_cons, ih]
    congr 1

/-- The restore at the top of the loop is what this rests on: a loop that restores the buffer
    only after a served request drops a valid request that follows a rejected 1-byte datagram
    (the buffer is still 1 byte long, the request arrives truncated). -/
example : runLoop false 2048 [([0], false), (0x23 :: List.replicate 47 0, false)] =
    [.dropDecode, .dropTruncated] := by decide
example : runLoop true 2048 [([0], false), (0x23 :: List.replicate 47 0, false)] =
    [.dropDecode, .reply] := by decide

/-- The structural fact the model relies on, re-read from /repo on every run: the first
    statements of `runIPServer`'s loop body restore `buf` and `oob` to full capacity. -/
theorem C09_pin_restoreAtLoopTop : Gen.Server.ipServerRestoresBufAtLoopTop = true := by decide

/-- The same fact for the SCION listener: the first statements of the receive loop body of
    `runSCIONServer` are `buf = buf[:cap(buf)]`, `oob = oob[:cap(oob)]` and the read (every
    rejection path leaves the body with `continue`; a restore anywhere else would be skipped). -/
theorem C09_pin_scionRestoreAtLoopTop : Gen.Server.scionServerRestoresBufAtLoopTop = true := by
  decide

/-! ### history independence of the NTS branch -/

/-- `loopIterN` with a fresh request struct per datagram is `loopIter` fed with the branch's
    outcome on the datagram alone. -/
theorem C09_loopIterN_fresh (restoreAtTop : Bool) (st : Nat × List Nat) (d : List Nat × NtsView) :
    (loopIterN restoreAtTop true st d).2 = (loopIter restoreAtTop st.1 (d.1, ntsAlone d.2)).2 ∧
    (loopIterN restoreAtTop true st d).1.1 = (loopIter restoreAtTop st.1 (d.1, ntsAlone d.2)).1 := by
  simp [loopIterN, ntsAlone]

/-- **History independence including the NTS branch.** The receive loop with *all* the state
    an iteration could leave behind — the length of `buf` and the cookie list of the NTS request
    struct — decides every datagram of any sequence on one listener socket exactly like `serve`
    decides it alone with the NTS branch run on a zero-valued request struct: a valid NTS request
    of one association is answered whatever associations, junk cookies or malformed datagrams the
    socket saw before. It rests on two structural facts of the loop body, both re-read from /repo
    on every run: the buffer restore at the top (`C09_pin_restoreAtLoopTop`) and the request
    structs being declared inside the body (`C09_pin_requestStateInLoop`). -/
theorem C09_nts_history_independent (st : Nat × List Nat) (ds : List (List Nat × NtsView)) :
    runLoopN true true st ds = ds.map (fun d => serve d.1 (ntsAlone d.2)) := by
  induction ds generalizing st with
  | nil => rfl
  | cons d ds ih =>
    simp only [runLoopN, List.map_cons, ih]
    congr 1

/-- …and it is the loop of `C09_history_independent` run on the per-datagram outcomes. -/
theorem C09_nts_loop_eq (st : Nat × List Nat) (ds : List (List Nat × NtsView)) :
    runLoopN true true st ds = runLoop true st.1 (ds.map fun d => (d.1, ntsAlone d.2)) := by
  rw [C09_nts_history_independent, C09_history_independent]
  simp [List.map_map, Function.comp_def]

/-- a 49-byte-or-longer datagram with a well-formed first byte, standing for an NTS request -/
def ntsDatagram : List Nat := 0x23 :: List.replicate 99 0
/-- a valid request of association `a` (its cookie is the id `a`): authenticates exactly under its own cookie -/
def assocReq (a : Nat) : List Nat × NtsView := (ntsDatagram, ⟨[a], true, fun c => c == a⟩)
/-- a datagram holding a cookie field `j` that no key opens and nothing else (`nts.DecodePacket` fails after appending it) -/
def junkCookie (j : Nat) : List Nat × NtsView := (ntsDatagram, ⟨[j], false, fun _ => false⟩)
/-- a plain 48-byte request -/
def plainReq : List Nat × NtsView := (0x23 :: List.replicate 47 0, ⟨[], false, fun _ => false⟩)

/-- The declaration inside the loop body is what this rests on. A loop whose request struct is
    declared once outside (`freshNts = false`) answers association 1, then drops every valid request
    of association 2 (it authenticates them under association 1's cookie) while still serving plain
    requests and association 1; and after one junk-cookie datagram it drops *every* later NTS
    request. The loop as it is answers them all. -/
example : runLoopN true false (2048, []) [assocReq 1, assocReq 1, plainReq, assocReq 2, assocReq 1, assocReq 2] =
    [.reply, .reply, .reply, .dropNts, .reply, .dropNts] := by decide
example : runLoopN true true (2048, []) [assocReq 1, assocReq 1, plainReq, assocReq 2, assocReq 1, assocReq 2] =
    [.reply, .reply, .reply, .reply, .reply, .reply] := by decide
example : runLoopN true false (2048, []) [junkCookie 9, assocReq 1, plainReq, assocReq 2] =
    [.dropNts, .dropNts, .reply, .dropNts] := by decide
example : runLoopN true true (2048, []) [junkCookie 9, assocReq 1, plainReq, assocReq 2] =
    [.dropNts, .reply, .reply, .reply] := by decide

/-- The structural fact, re-read from /repo on every run (`harness/extract/x_c09.go`): in
    `runIPServer` and in `runSCIONServer` the structs filled by `ntp.DecodePacket`,
    `nts.DecodePacket` / `nts.ProcessRequest` and the server cookie assigned from `Decrypt` are
    declared (`var X T`, zero value) inside the body of the receive loop, before their use. -/
theorem C09_pin_requestStateInLoop :
    Gen.Server.ipServerRequestStateInLoop = true ∧ Gen.Server.scionServerRequestStateInLoop = true := by decide

/-- `runIPServer`: `authenticated`, `ntpreq`, `ntsreq`, `serverCookie` are declared (`var X T` /
    `X := …`) lexically inside the body of the receive loop and nowhere else in the function:
    none of them outlives an iteration (an `authenticated` left `true` by one datagram would
    authenticate the next; `nts.DecodePacket` appends into the `ntsreq` it is handed). -/
theorem C09_pin_ipDeclaresPerIteration :
    Gen.Server.ipServerDeclaresPerIteration =
      ["authenticated", "ntpreq", "ntsreq", "serverCookie"] := by decide

/-- `runSCIONServer`: the same for `authenticated` (SPAO), `ntsAuthenticated`, `ntpreq`, `ntsreq`,
    `serverCookie`: declared inside the receive loop body (in the `else` branch of the
    destination-port check), not in the function outside the loop, so reset per datagram. -/
theorem C09_pin_scionDeclaresPerIteration :
    Gen.Server.scionServerDeclaresPerIteration =
      ["authenticated", "ntpreq", "ntsAuthenticated", "ntsreq", "serverCookie"] := by decide

/-- Nothing shorter than 48 bytes (in particular the empty datagram) is answered. -/
theorem C09_short_never_answered (b : List Nat) (ntsOk : Bool) (h : b.length < 48) :
    shouldReply b ntsOk = false := by
  unfold shouldReply serve
  rcases C14.ntp_decode_total b with ⟨_, he⟩ | ⟨hl, _⟩
  · rw [he]; split <;> simp
  · omega

/-- The decision never crashes the listener (given a total NTS branch — C08's obligation). -/
theorem C09_serve_no_crash (b : List Nat) (ntsOk : Bool) : ∀ c, serve b ntsOk ≠ .crash c := by
  intro c
  unfold serve
  rcases C14.ntp_decode_total b with ⟨_, he⟩ | ⟨_, p, hp⟩
  · rw [he]; split <;> simp
  · rw [hp]; split <;> (try simp) ; split <;> (try simp); split <;> simp

/-- **reply_shape.** Every reply's first byte is 0x24: leap indicator 0, version 4, mode 4
    (server); with stratum 1 it passes the clients' `ValidateResponseMetadata`. -/
theorem C09_reply_shape :
    replyLvm = .ok 0x24 ∧ leapIndicator 0x24 = 0 ∧ version 0x24 = 4 ∧ mode 0x24 = modeServer ∧
    replyStratum = 1 ∧ validateResponseMetadata 0x24 replyStratum = true := by decide

theorem C09_reply_header (req : Packet) (r o x t : Time64) :
    let h := replyHeader req 0x24 r o x t
    h.stratum = 1 ∧ version h.lvm = 4 ∧ mode h.lvm = 4 ∧ leapIndicator h.lvm = 0 ∧
    h.poll = req.poll ∧ h.precision = -32 ∧ h.referenceID = 0x58535453 := by
  simp only [replyHeader]
  decide

/-- **no_reflection.** No listener answers a packet that a listener sent: whatever the rest of
    a reply is (timestamps, NTS extension fields, any length) and whatever the NTS branch says,
    a datagram whose first byte is the reply header byte is not answered.  Hence two servers
    cannot be made to answer each other. -/
theorem C09_no_reflection (rest : List Nat) (ntsOk : Bool) :
    shouldReply (0x24 :: rest) ntsOk = false := by
  have h := C09_shouldReply_iff 0x24 rest ntsOk (by decide)
  have hw : ¬ WellFormedLvm 0x24 := by decide
  cases hs : shouldReply (0x24 :: rest) ntsOk
  · rfl
  · exact absurd (h.mp hs).2.2.1 hw

/-- The SCION listener applies the same decision to the UDP payload of a parsed SCION packet
    (no 2048-byte receive buffer there): same characterisation without the upper bound. -/
theorem C09_scion_payload_iff (x : Nat) (t : List Nat) (ntsOk : Bool) (hx : x < 256) :
    shouldReplyPayload (x :: t) ntsOk = true ↔
      (48 ≤ (x :: t).length ∧ WellFormedLvm x ∧ ((x :: t).length > 48 → ntsOk = true)) := by
  have hv := C09_validateRequest_iff x hx
  unfold shouldReplyPayload
  rcases C14.ntp_decode_total (x :: t) with ⟨hl, he⟩ | ⟨hl, p, hp⟩
  · simp only [he]; constructor
    · intro h; cases h
    · intro h; omega
  · have hlvm := C14.ntp_decode_lvm x t p hp
    simp only [hp, hlvm, packetLen]
    rw [← hv]
    simp only [List.length_cons] at hl ⊢
    by_cases hgt : t.length + 1 > 48 <;> cases ntsOk <;> cases validateRequest x <;>
      simp <;> omega

theorem C09_scion_no_reflection (rest : List Nat) (ntsOk : Bool) :
    shouldReplyPayload (0x24 :: rest) ntsOk = false := by
  have h := C09_scion_payload_iff 0x24 rest ntsOk (by decide)
  have hw : ¬ WellFormedLvm 0x24 := by decide
  cases hs : shouldReplyPayload (0x24 :: rest) ntsOk
  · rfl
  · exact absurd (h.mp hs).2.1 hw

/-- More generally: no packet in server mode, or of a version above 4, or with version 0, is
    answered, for every one of the 256 first bytes. -/
theorem C09_no_reply_to_non_requests : ∀ x < 256,
    (mode x ≠ modeClient ∧ ¬(version x = 1 ∧ mode x = 0)) ∨ version x = 0 ∨ 4 < version x ∨
      leapIndicator x = 1 ∨ leapIndicator x = 2 → validateRequest x = false := by
  decide

/-- Instances: a plain NTPv4 client request of 48 bytes is answered; the same bytes followed by
    garbage are not (NTS branch fails); 47 bytes are not. -/
example : shouldReply (0x23 :: List.replicate 47 0) false = true := by decide
example : shouldReply (0x23 :: List.replicate 48 0) false = false := by decide
example : shouldReply (0x23 :: List.replicate 48 0) true = true := by decide
example : shouldReply (0x23 :: List.replicate 46 0) true = false := by decide
example : shouldReply (0x08 :: List.replicate 47 0) false = true := by decide  -- NTPv1, mode 0

end ScionTime.C09
