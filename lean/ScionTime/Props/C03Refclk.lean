/-
  Props/C03Refclk.lean — C03, constructor side: the pairing theorems of Props/C03.lean are about
  ONE client object whose `prev` state is threaded through its exchanges. A SCION reference clock
  runs one goroutine per path (`MeasureClockOffsetSCION`), each on "its" entry of `ntpcs`. That
  these entries are seven pairwise distinct objects, each with its own filter and its own state
  of a previous exchange, all configured alike, is what timeservice.go's constructor
  `newNTPReferenceClockSCION` has to establish — stated and proved here over Model/MainCfg.lean
  (objects on an explicit heap), with the aliased variant (`ntpc := &ntpcCfg` in the loop) refuted
  and its consequence for an exchange shown in the client model (timestamps of two exchanges
  combined).

  Tied to the real constructors on every run by harness/cmd/cmain (part ctor): the repository's
  binary built with -tags verif answers `main.refclk.*` / `main.cfg.*` from the real functions.
-/
import ScionTime.Model.MainCfg
import ScionTime.Model.ClientNtp
import ScionTime.Gen.Client

namespace ScionTime.Props.C03Refclk
open ScionTime.MainCfg

/-! ### pins (harness/extract/x_cmain.go) -/

theorem C03Refclk_pin_numClient :
    Gen.Client.main_scionRefClockNumClient = scionRefClockNumClient ∧
    Gen.Client.main_ntpcs_type = "[scionRefClockNumClient]*client.SCIONClient" ∧
    Gen.Client.main_authModeNTS = authModeNTS := ⟨by decide, rfl, rfl⟩

/-- the loop of the constructor allocates the client INSIDE the loop body (`&client.SCIONClient{…}`
    per iteration), gives it a new filter and configures NTS on that object -/
theorem C03Refclk_pin_ctor_loop :
    Gen.Client.main_newNTPReferenceClockSCION_loop =
      "for i := range len(c.ntpcs) { c.ntpcs[i] = &client.SCIONClient{ Log: log, DSCP: dscp, InterleavedMode: true, } ;; c.ntpcs[i].Filter = client.NewNtimedFilter(log) ;; if slices.Contains(authModes, authModeNTS) { configureSCIONClientNTS(c.ntpcs[i], ntskeServer, ntskeInsecureSkipVerify, daemonAddr, localAddr, remoteAddr, log) } }" ∧
    Gen.Client.main_newNTPReferenceClockSCION_prologue =
      "c := &ntpReferenceClockSCION{ log: log, localAddr: localAddr, remoteAddr: remoteAddr, }" :=
  ⟨rfl, rfl⟩

theorem C03Refclk_pin_ctor_ip :
    Gen.Client.main_newNTPReferenceClockIP_body =
      "c := &ntpReferenceClockIP{ log: log, localAddr: localAddr, remoteAddr: remoteAddr, } ;; c.ntpc = &client.IPClient{ Log: log, DSCP: dscp, InterleavedMode: true, } ;; c.ntpc.Filter = client.NewNtimedFilter(log) ;; if slices.Contains(authModes, authModeNTS) { configureIPClientNTS(c.ntpc, ntskeServer, ntskeInsecureSkipVerify, log) } ;; return c" ∧
    Gen.Client.main_ntskeServerFromRemoteAddr_body =
      "split := strings.Split(remoteAddr, \",\") ;; if len(split) < 2 { panic(\"remote address has wrong format\") } ;; return split[1]" :=
  ⟨rfl, rfl⟩

/-! ### one iteration allocates one new client and one new filter -/

/-- what a client of the reference clock looks like when the constructor is done with it -/
def expectedClient (a : CtorArgs) (filter : Ref) : Option SCIONClient :=
  let c : SCIONClient := { log := true, dscp := a.dscp, interleavedMode := true, filter := some filter }
  if a.authModes.contains authModeNTS then
    match configureSCIONClientNTS c a.ntskeServer a.insecure a.daemonAddr a.localAddr a.remoteAddr with
    | .ok c' => some c'
    | _ => none
  else some c

theorem modify_last {α : Type} (cs : List α) (c : α) (f : α → α) :
    (cs ++ [c]).modify cs.length f = cs ++ [f c] := by
  induction cs with
  | nil => rfl
  | cons x xs ih => simp [List.modify_succ_cons, ih]

theorem heap_modify_last (cs : List SCIONClient) (c : SCIONClient) (n : Nat) (f : SCIONClient → SCIONClient) :
    (⟨cs ++ [c], n⟩ : Heap).modify cs.length f = ⟨cs ++ [f c], n⟩ := by
  simp only [Heap.modify, modify_last]

/-- `ctorStep`: the new client is a NEW object (its reference is the next free one), every
    object that existed before is untouched, the filter is a new object, and the client's
    contents are `expectedClient` -/
theorem C03Refclk_step (a : CtorArgs) (h h' : Heap) (r : Ref) (hs : ctorStep a h = .ok (h', r)) :
    r = h.clients.length ∧ h'.nfilters = h.nfilters + 1 ∧
    ∃ c, expectedClient a h.nfilters = some c ∧ h'.clients = h.clients ++ [c] := by
  obtain ⟨cs, n⟩ := h
  by_cases hc : a.authModes.contains authModeNTS = true
  · simp only [ctorStep, Heap.allocClient, Heap.allocFilter, heap_modify_last, hc, if_true, Heap.get?,
      List.getElem?_concat_length] at hs
    simp only [expectedClient, hc, if_true]
    split at hs
    · rename_i c' heq
      simp only [Res.ok.injEq, Prod.mk.injEq] at hs
      obtain ⟨rfl, rfl⟩ := hs
      refine ⟨by first | rfl | trivial, by first | rfl | trivial, c', by rw [heq], ?_⟩
      first | rfl | trivial
    · cases hs
    · cases hs
  · simp only [ctorStep, Heap.allocClient, Heap.allocFilter, heap_modify_last, hc, Bool.false_eq_true, if_false,
      Res.ok.injEq, Prod.mk.injEq] at hs
    obtain ⟨rfl, rfl⟩ := hs
    simp only [expectedClient, hc, Bool.false_eq_true, if_false]
    refine ⟨by first | rfl | trivial, by first | rfl | trivial, _, rfl, ?_⟩
    first | rfl | trivial

theorem ctorLoop_spec (a : CtorArgs) (n : Nat) (h h' : Heap) (acc rs : List Ref)
    (hl : ctorLoop a n h acc = .ok (h', rs)) :
    rs = acc ++ List.range' h.clients.length n ∧ h'.nfilters = h.nfilters + n ∧
    ∃ cs, cs.length = n ∧ h'.clients = h.clients ++ cs ∧
      ∀ i, i < n → cs[i]? = expectedClient a (h.nfilters + i) := by
  induction n generalizing h acc with
  | zero =>
    simp only [ctorLoop, Res.ok.injEq, Prod.mk.injEq] at hl
    obtain ⟨rfl, rfl⟩ := hl
    exact ⟨by simp, by simp, [], rfl, by simp, by intro i hi; omega⟩
  | succ n ih =>
    simp only [ctorLoop] at hl
    split at hl
    · rename_i h1 r hs
      obtain ⟨hr, hf, c, hc, hcl⟩ := C03Refclk_step a h h1 r hs
      obtain ⟨e1, e2, cs, l1, l2, l3⟩ := ih h1 (acc ++ [r]) hl
      refine ⟨?_, by omega, c :: cs, by simp [l1], by simp [l2, hcl], ?_⟩
      · rw [e1, hcl, hr]; simp [List.range'_succ]
      · intro i hi
        cases i with
        | zero => simpa using hc.symm
        | succ j =>
          have := l3 j (by omega)
          simp only [List.getElem?_cons_succ]
          rw [this]; congr 1
          show (h1.nfilters + j : Nat) = h.nfilters + (j + 1)
          omega
    · cases hl
    · cases hl

/-! ### the reference clock -/

/-- **The clients are pairwise distinct objects.** Whenever the constructor returns a clock, its
    `ntpcs` are the seven references allocated by the seven iterations, consecutive and fresh:
    no two slots name the same `*SCIONClient`, none names an object that existed before. -/
theorem C03Refclk_clients_distinct (a : CtorArgs) (h h' : Heap) (k : RefClockSCION)
    (hk : newRefClockSCION a h = .ok (h', k)) :
    k.ntpcs = List.range' h.clients.length 7 ∧ k.ntpcs.length = 7 ∧ k.ntpcs.Nodup ∧
    (∀ r ∈ k.ntpcs, h.clients.length ≤ r) ∧
    k.localAddr = a.localAddr ∧ k.remoteAddr = a.remoteAddr ∧ k.pather = false := by
  simp only [newRefClockSCION] at hk
  split at hk
  · rename_i h1 rs hl
    obtain ⟨e, _, _⟩ := ctorLoop_spec a _ h h1 [] rs hl
    simp only [Res.ok.injEq, Prod.mk.injEq] at hk
    obtain ⟨rfl, rfl⟩ := hk
    simp only [List.nil_append, scionRefClockNumClient] at e
    subst e
    refine ⟨rfl, by simp, List.nodup_range', ?_, rfl, rfl, rfl⟩
    intro r hr
    have := List.mem_range'_1.mp hr
    omega
  · cases hk
  · cases hk

/-- **Each client has its own filter and the clock's configuration.** Client `i` is a new
    object whose contents are `expectedClient` with filter object number `nfilters + i`: the
    filters are pairwise distinct new objects; interleaved mode is on; DSCP is the configured
    one; NTS is configured on it iff "nts" is among the authentication modes. Objects that
    existed before the constructor ran are unchanged. -/
theorem C03Refclk_client_contents (a : CtorArgs) (h h' : Heap) (k : RefClockSCION)
    (hk : newRefClockSCION a h = .ok (h', k)) :
    (∀ i, i < 7 → ∃ r, k.ntpcs[i]? = some r ∧ h'.get? r = expectedClient a (h.nfilters + i)) ∧
    (∀ r, r < h.clients.length → h'.get? r = h.get? r) := by
  simp only [newRefClockSCION] at hk
  split at hk
  · rename_i h1 rs hl
    obtain ⟨e, _, cs, l1, l2, l3⟩ := ctorLoop_spec a _ h h1 [] rs hl
    simp only [Res.ok.injEq, Prod.mk.injEq] at hk
    obtain ⟨rfl, rfl⟩ := hk
    simp only [List.nil_append, scionRefClockNumClient] at e l1 l3
    subst e
    constructor
    · intro i hi
      refine ⟨h.clients.length + i, by simp [hi], ?_⟩
      simp only [Heap.get?, l2]
      rw [List.getElem?_append_right (by omega)]
      simpa using l3 i hi
    · intro r hr
      simp only [Heap.get?, l2]
      rw [List.getElem?_append_left hr]
  · cases hk
  · cases hk

/-- what `expectedClient` says in the two cases -/
theorem C03Refclk_expected (a : CtorArgs) (f : Ref) (c : SCIONClient) (hc : expectedClient a f = some c) :
    c.interleavedMode = true ∧ c.dscp = a.dscp ∧ c.filter = some f ∧ c.log = true ∧
    c.authEnabled = false ∧ c.prevReference = "" ∧ c.prevInterleaved = false ∧
    (c.ntsEnabled = a.authModes.contains authModeNTS) := by
  by_cases hn : a.authModes.contains authModeNTS = true
  · simp only [expectedClient, hn, if_true, configureSCIONClientNTS] at hc
    cases hsp : splitHostPort a.ntskeServer with
    | none => simp [hsp] at hc
    | some hp =>
      obtain ⟨host, port⟩ := hp
      simp only [hsp, Option.some.injEq] at hc
      subst hc
      simp_all
  · simp only [expectedClient, hn, Bool.false_eq_true, if_false, Option.some.injEq] at hc
    subst hc
    simp_all

/-- **Own state of a previous exchange** (frame): writing client `r`'s state (`prev`, filter,
    anything) leaves every other client of the heap as it was. With `C03Refclk_clients_distinct`
    this is the hypothesis of the pairing theorems for a reference clock: the goroutine of path
    `i` threads the `prev` of object `ntpcs[i]`, and no other goroutine's writes reach it. -/
theorem C03Refclk_own_state (h : Heap) (r r' : Ref) (f : SCIONClient → SCIONClient) (hne : r ≠ r') :
    (h.modify r f).get? r' = h.get? r' := by
  simp only [Heap.modify, Heap.get?]
  rw [List.getElem?_modify]
  simp [hne]

/-! ### instances: what the harness observes -/

def sampleArgs : CtorArgs :=
  { daemonAddr := "10.1.1.1:30255", localAddr := "1-ff00:0:111,127.0.0.1:0", remoteAddr := "1-ff00:0:112,10.0.0.1:10123",
    dscp := 46, authModes := ["nts", "spao"], ntskeServer := "10.0.0.1:10123", insecure := false }

/-- (ids, fids, marks, kept) of what the harness observes of a constructed clock -/
def observed (r : Res (Heap × RefClockSCION)) : Option (List Nat × List Nat × List String × Nat) :=
  match r with
  | .ok (h, k) => let o := observe h k; some (o.ids, o.fids, o.marks, o.kept)
  | _ => none

/-- non-vacuity: the constructor returns a clock for a typical configuration; marking client i's
    previous exchange with i and reading the marks back gives 0..6; resetting client 0 leaves the
    other six in interleaved mode -/
example : observed (newRefClockSCION sampleArgs {}) =
    some ([0, 1, 2, 3, 4, 5, 6], [0, 1, 2, 3, 4, 5, 6], ["0", "1", "2", "3", "4", "5", "6"], 6) := by
  decide +kernel

/-- an NTS-KE server without a port is refused when NTS is on, irrelevant when it is not -/
example : newRefClockSCION { sampleArgs with ntskeServer := "nohost" } {} = .fatal msgSplit ∧
    (observed (newRefClockSCION { sampleArgs with ntskeServer := "nohost", authModes := ["spao"] } {})).isSome = true := by
  decide +kernel

/-- **The aliased variant is refuted**: with `ntpc := &ntpcCfg` in the loop all seven slots name
    ONE object; the marks of the seven clients all read 6 (each write lands in the same `prev`),
    a reset of "client 0" takes all others out of interleaved mode, and the one object ends up
    with the filter created last. -/
theorem C03Refclk_shared_refuted :
    observed (newRefClockSCIONShared sampleArgs {}) =
      some ([0, 0, 0, 0, 0, 0, 0], [0, 0, 0, 0, 0, 0, 0], ["6", "6", "6", "6", "6", "6", "6"], 0) := by
  decide +kernel

/-! ### what sharing one client between two paths does to an exchange

Path A completed exchange a1 while the server was 2 s ahead (client 1.000 s → server 3.010 s,
3.020 s → client 1.030 s) and sends its interleaved follow-up at 2.000 s. Meanwhile path B
completes exchange b1 with the server clock stepped back to the client's time (2.100 → 2.110,
2.120 → 2.130). Then A's follow-up is answered in interleaved mode (origin = cRx(a1), receive
= 2.010 s, transmit = sTx(a1) = 3.020 s). With its OWN `prev` client A evaluates exchange a1:
offset 2 s. If A and B are one object, `prev` is b1's when the reply is evaluated: t0, t1, t3
come from b1 and t2 from a1 — offset 0.45 s, the true offsets being 2 s and 0 s. -/

open ScionTime.ClientNtp ScionTime.Time64 ScionTime.NtpMath in
/-- the request A built from its own state, evaluated against A's own state: exchange a1, 2 s;
    evaluated against B's state (shared object): accepted as well, with three timestamps of b1
    and one of a1 — 450 ms -/
theorem C03Refclk_shared_client_mixes_exchanges :
    let cfg : Cfg := ⟨.scion, true, false, true⟩
    let prevA : Prev := ⟨"S", false, ofTime 1000000000, ofTime 1030000000, ofTime 3010000000⟩
    let prevB : Prev := ⟨"S", false, ofTime 2100000000, ofTime 2130000000, ofTime 2110000000⟩
    let reqA := mkRequest cfg prevA "S" 2000000000
    let reply : Payload := ⟨48, ⟨36, 1, ofTime 1030000000, ofTime 2010000000, ofTime 3020000000⟩, true, true, true⟩
    let at2 (t : Int) : Int := toTime (ofTime t) 2000000000   -- a timestamp as decoded from the wire (C04: exact or 1 ns early)
    reqA.interleaved = true ∧
    (∃ a, ntpStage cfg prevA reqA 2000000000 2040000000 reply = .accept a ∧ a.il = true ∧
        a.t0 = at2 1000000000 ∧ a.t1 = at2 3010000000 ∧ a.t2 = at2 3020000000 ∧ a.t3 = at2 1030000000 ∧
        (a.offset.toInt - 2000000000).natAbs ≤ 2) ∧
    (∃ a, ntpStage cfg prevB reqA 2000000000 2040000000 reply = .accept a ∧ a.il = true ∧
        a.t0 = at2 2100000000 ∧ a.t1 = at2 2110000000 ∧ a.t2 = at2 3020000000 ∧ a.t3 = at2 2130000000 ∧
        (a.offset.toInt - 450000000).natAbs ≤ 2) := by
  refine ⟨by decide +kernel,
    ⟨⟨true, toTime (ofTime 1000000000) 2000000000, toTime (ofTime 3010000000) 2000000000, toTime (ofTime 3020000000) 2000000000,
       toTime (ofTime 1030000000) 2000000000, 2040000000, ofTime 2010000000⟩, by decide +kernel⟩,
    ⟨⟨true, toTime (ofTime 2100000000) 2000000000, toTime (ofTime 2110000000) 2000000000, toTime (ofTime 3020000000) 2000000000,
       toTime (ofTime 2130000000) 2000000000, 2040000000, ofTime 2010000000⟩, by decide +kernel⟩⟩

end ScionTime.Props.C03Refclk
