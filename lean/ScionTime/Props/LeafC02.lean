/-
  Kernel-checked ties (C02): timemath.Sgn / Inv / Midpoint as regenerated from /repo's Go
  source (Gen/Leaf.lean) are the hand-written models of Model/Timemath.lean.
-/
import ScionTime.Gen.Leaf
import ScionTime.Model.Timemath
namespace ScionTime.LeafTieC02
open ScionTime.Gen.Leaf

theorem C02_leaf_Midpoint (x y : Int64) : timemath_Midpoint x y = Timemath.midpoint x y := rfl

theorem C02_leaf_Inv (d : Int64) : timemath_Inv d = Timemath.inv d := by
  unfold timemath_Inv Timemath.inv
  by_cases h : d = Int64.minValue
  · subst h; decide
  · have h' : (d == (-9223372036854775808 : Int64)) = false := by
      rw [beq_eq_false_iff_ne]; exact h
    simp [h, h']

theorem C02_leaf_Sgn (d : Int64) : (timemath_Sgn d).toInt = Timemath.sgn d := by
  unfold timemath_Sgn Timemath.sgn
  by_cases h1 : d < 0
  · simp [h1]
  · by_cases h2 : d > 0
    · simp [h1, h2]
    · simp [h1, h2]

end ScionTime.LeafTieC02
