/-
  Kernel-checked ties (C02): timemath.Sgn / Inv / Midpoint and — third generation of the leaf
  translator: slices as lists, `len`, bounds-checked indexing, `slices.Sort` — timemath.Median and
  timemath.FaultTolerantMidpoint themselves, as regenerated from /repo's Go source on every run
  (Gen/Leaf.lean), are the hand-written models of Model/Timemath.lean: the same result for every
  slice (of fewer than 2^62 elements), `none` = the panic on the empty slice; the generated
  definitions' bounds checks never fire.
-/
import ScionTime.Gen.Leaf
import ScionTime.Model.Timemath
import ScionTime.Proofs.LeafSlices
namespace ScionTime.LeafTieC02
open ScionTime ScionTime.Gen.Leaf ScionTime.GoLemmas ScionTime.LeafSlices

theorem C02_leaf_Midpoint (x y : Int64) : timemath_Midpoint x y = Timemath.midpoint x y := rfl

theorem C02_leaf_Inv (d : Int64) : timemath_Inv d = Timemath.inv d := by
  unfold timemath_Inv Timemath.inv
  by_cases h : d = Int64.minValue
  · subst h; decide
  · have h' : (d == (-9223372036854775808 : Int64)) = false := by
      rw [beq_eq_false_iff_ne]; exact h
    simp [h, h']

theorem C02_leaf_Sgn (d : Int64) : (timemath_Sgn d).toInt = Timemath.sgn d := by
  unfold timemath_Sgn Timemath.sgn
  by_cases h1 : d < 0
  · simp [h1]
  · by_cases h2 : d > 0
    · simp [h1, h2]
    · simp [h1, h2]

/-! ### Median and FaultTolerantMidpoint (slices) -/

theorem C02_leaf_FaultTolerantMidpoint (ds : List Int64) (hl : ds.length < 4611686018427387904) :
    timemath_FaultTolerantMidpoint ds = (Timemath.ftm ds).map Prod.fst := by
  unfold timemath_FaultTolerantMidpoint Timemath.ftm
  have hn := len_toInt ds hl
  have h3 : (3 : Int64).toInt = 3 := by decide
  have h1 : (1 : Int64).toInt = 1 := by decide
  have h0 : (0 : Int64).toInt = 0 := by decide
  by_cases he : ds = []
  · subst he; rfl
  · have hpos : 0 < ds.length := List.length_pos_iff.mpr he
    have hne : (Go.len ds == (0 : Int64)) = false := by
      rw [beq_eq_false_iff_ne]; intro h
      have := congrArg Int64.toInt h; rw [hn, h0] at this; omega
    have hemp : ds.isEmpty = false := by simp [he]
    simp only [hne, hemp, Bool.false_eq_true, if_false, sortI64_eq]
    have hls := length_sort64 ds
    -- f = (n-1)/3
    have hm1 : (Go.len ds - 1).toInt = (ds.length : Int) - 1 := by
      rw [toInt_sub_of_fits _ _ (by rw [hn, h1]; omega) (by rw [hn, h1]; omega), hn, h1]
    have hf : ((Go.len ds - 1) / 3).toInt = (((ds.length - 1) / 3 : Nat) : Int) := by
      rw [toInt_div_pos _ _ (by rw [h3]; omega), hm1, h3, Int.tdiv_eq_ediv_of_nonneg (by omega)]
      omega
    have hg : (Go.len ds - 1 - (Go.len ds - 1) / 3).toInt = ((ds.length - 1 - (ds.length - 1) / 3 : Nat) : Int) := by
      rw [toInt_sub_of_fits _ _ (by rw [hm1, hf]; omega) (by rw [hm1, hf]; omega), hm1, hf]
      omega
    rw [idx_in _ _ _ hf (by omega), idx_in _ _ _ hg (by omega)]
    simp only [Option.bind_some, Option.map_some, Timemath.ftmSorted, hls]
    rfl

theorem C02_leaf_Median (ds : List Int64) (hl : ds.length < 4611686018427387904) :
    timemath_Median ds = (Timemath.median ds).map Prod.fst := by
  unfold timemath_Median Timemath.median
  have hn := len_toInt ds hl
  have h2 : (2 : Int64).toInt = 2 := by decide
  have h1 : (1 : Int64).toInt = 1 := by decide
  have h0 : (0 : Int64).toInt = 0 := by decide
  by_cases he : ds = []
  · subst he; rfl
  · have hpos : 0 < ds.length := List.length_pos_iff.mpr he
    have hne : (Go.len ds == (0 : Int64)) = false := by
      rw [beq_eq_false_iff_ne]; intro h
      have := congrArg Int64.toInt h; rw [hn, h0] at this; omega
    have hemp : ds.isEmpty = false := by simp [he]
    simp only [hne, hemp, Bool.false_eq_true, if_false, sortI64_eq]
    have hls := length_sort64 ds
    have hi : (Go.len ds / 2).toInt = ((ds.length / 2 : Nat) : Int) := by
      rw [toInt_div_pos _ _ (by rw [h2]; omega), hn, h2, Int.tdiv_eq_ediv_of_nonneg (by omega)]
      omega
    have hmod : (Go.len ds % 2).toInt = ((ds.length % 2 : Nat) : Int) := by
      rw [Int64.toInt_mod, hn, h2, Int.tmod_eq_emod_of_nonneg (by omega)]
      omega
    by_cases hodd : ds.length % 2 = 0
    · have hc : (Go.len ds % 2 != (0 : Int64)) = false := by
        rw [bne_eq_false_iff_eq]; apply Int64.toInt_inj.mp; rw [hmod, h0, hodd]; rfl
      have hi1 : (Go.len ds / 2 - 1).toInt = ((ds.length / 2 - 1 : Nat) : Int) := by
        rw [toInt_sub_of_fits _ _ (by rw [hi, h1]; omega) (by rw [hi, h1]; omega), hi, h1]
        omega
      simp only [hc, Bool.false_eq_true, if_false]
      rw [idx_in _ _ _ hi1 (by omega), idx_in _ _ _ hi (by omega)]
      simp only [Option.bind_some, Option.map_some, Timemath.medianSorted, hls, hodd]
      rfl
    · have hc : (Go.len ds % 2 != (0 : Int64)) = true := by
        rw [bne_iff_ne]; intro h
        have := congrArg Int64.toInt h; rw [hmod, h0] at this; omega
      simp only [hc, if_true]
      rw [idx_in _ _ _ hi (by omega)]
      simp only [Option.bind_some, Option.map_some, Timemath.medianSorted, hls]
      simp [hodd]

/-- non-vacuity and a concrete reading: four values with one wild outlier; the empty slice panics -/
example : timemath_FaultTolerantMidpoint [5, 1000000, -3, 9] = some 7 ∧
    timemath_Median [5, 1000000, -3, 9] = some 7 ∧
    timemath_Median [] = none ∧ timemath_FaultTolerantMidpoint [] = none := by decide

end ScionTime.LeafTieC02
