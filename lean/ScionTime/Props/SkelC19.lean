import ScionTime.Gen.SkelC19
import ScionTime.Model.Skel.Pll
import ScionTime.Model.Skel.SysClock

/-!
  Control-skeleton pins, group C19 (notes/SKEL.md): the control structure and the text of every
  condition, call and assignment of the functions below, re-read from /repo on every run
  (`Gen.Skel.*`, harness/extract/skeleton.go), are exactly the ones the hand-written models were
  written against (`Model.Skel.*`, annotated row by row with the model definition that mirrors
  each statement).  A broken pin means the code was edited inside a modelled function: the model
  has to be re-read against the rows named by the `SKEL-DIFF` diagnostic.
-/
namespace ScionTime

/-! diagnostics (not obligations): name the rows that differ when a pin below breaks -/
#eval Model.Skel.check "Pll.Pll_Do" Gen.Skel.Pll.Pll_Do Model.Skel.Pll.Pll_Do
#eval Model.Skel.check "SysClock.now" Gen.Skel.SysClock.now Model.Skel.SysClock.now
#eval Model.Skel.check "SysClock.sleep" Gen.Skel.SysClock.sleep Model.Skel.SysClock.sleep
#eval Model.Skel.check "SysClock.setOffset" Gen.Skel.SysClock.setOffset Model.Skel.SysClock.setOffset
#eval Model.Skel.check "SysClock.setFrequency" Gen.Skel.SysClock.setFrequency Model.Skel.SysClock.setFrequency
#eval Model.Skel.check "SysClock.SystemClock_Epoch" Gen.Skel.SysClock.SystemClock_Epoch Model.Skel.SysClock.SystemClock_Epoch
#eval Model.Skel.check "SysClock.SystemClock_Now" Gen.Skel.SysClock.SystemClock_Now Model.Skel.SysClock.SystemClock_Now
#eval Model.Skel.check "SysClock.SystemClock_Drift" Gen.Skel.SysClock.SystemClock_Drift Model.Skel.SysClock.SystemClock_Drift
#eval Model.Skel.check "SysClock.SystemClock_Step" Gen.Skel.SysClock.SystemClock_Step Model.Skel.SysClock.SystemClock_Step
#eval Model.Skel.check "SysClock.SystemClock_Adjust" Gen.Skel.SysClock.SystemClock_Adjust Model.Skel.SysClock.SystemClock_Adjust
#eval Model.Skel.check "SysClock.SystemClock_Sleep" Gen.Skel.SysClock.SystemClock_Sleep Model.Skel.SysClock.SystemClock_Sleep

/-! the pins -/
theorem C19_skel_Pll_Pll_Do : Gen.Skel.Pll.Pll_Do = Model.Skel.Pll.Pll_Do := rfl
theorem C19_skel_SysClock_now : Gen.Skel.SysClock.now = Model.Skel.SysClock.now := rfl
theorem C19_skel_SysClock_sleep : Gen.Skel.SysClock.sleep = Model.Skel.SysClock.sleep := rfl
theorem C19_skel_SysClock_setOffset : Gen.Skel.SysClock.setOffset = Model.Skel.SysClock.setOffset := rfl
theorem C19_skel_SysClock_setFrequency : Gen.Skel.SysClock.setFrequency = Model.Skel.SysClock.setFrequency := rfl
theorem C19_skel_SysClock_SystemClock_Epoch : Gen.Skel.SysClock.SystemClock_Epoch = Model.Skel.SysClock.SystemClock_Epoch := rfl
theorem C19_skel_SysClock_SystemClock_Now : Gen.Skel.SysClock.SystemClock_Now = Model.Skel.SysClock.SystemClock_Now := rfl
theorem C19_skel_SysClock_SystemClock_Drift : Gen.Skel.SysClock.SystemClock_Drift = Model.Skel.SysClock.SystemClock_Drift := rfl
theorem C19_skel_SysClock_SystemClock_Step : Gen.Skel.SysClock.SystemClock_Step = Model.Skel.SysClock.SystemClock_Step := rfl
theorem C19_skel_SysClock_SystemClock_Adjust : Gen.Skel.SysClock.SystemClock_Adjust = Model.Skel.SysClock.SystemClock_Adjust := rfl
theorem C19_skel_SysClock_SystemClock_Sleep : Gen.Skel.SysClock.SystemClock_Sleep = Model.Skel.SysClock.SystemClock_Sleep := rfl

end ScionTime
