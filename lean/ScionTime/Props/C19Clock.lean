/-
  C19, clock side — "a clock step observed through the clock's epoch restarts the start-up
  sequence" needs the clock object to make every step visible through `Epoch()`.
  Models: Model/SysClock.lean (driver/clocks/sysclk_linux.go: Epoch, Step, Adjust, Sleep and the
  expiry goroutine), Model/PllClock.lean (the PLL of Model/Pll.lean on that clock object).

  * every `Step`, in every state (slew registered or not, goroutines pending or not), returns
    with the epoch advanced by exactly one — or panics at `MaxUint64` leaving it alone;
    a registered slew is cancelled first by restoring `afterFreq`, then the offset is set;
  * `Adjust`, the expiry goroutine and `Sleep` never change the epoch; `Adjust` asks for a
    positive whole number of seconds (the duration rounded down, at least 1 s), sets
    `frequency + offset/duration` and registers `afterFreq = frequency`; it panics exactly for
    negative durations;
  * the goroutine restores `afterFreq` iff its adjustment is still the registered one;
  * over any history of calls the epoch is the initial one plus the number of `Step`s that
    returned;
  * product: the PLL's own `Step` is seen by its next update as an epoch change (restart), and so
    is a `Step` by any other user of the shared clock object.
-/
import ScionTime.Props.C19
import ScionTime.Model.PllClock
import ScionTime.Gen.Adjustments
namespace ScionTime.Props.C19
open ScionTime ScionTime.F64

/-! ### Step -/

/-- `Step` in any state whose epoch is not `MaxUint64`: returns, epoch + 1, no slew registered
    afterwards; the calls are "restore `afterFreq` if a slew is registered", then `setOffset`. -/
theorem C19_clock_step (c : SysClock.State) (off : Int) (h : c.epoch ≠ SysClock.maxU64) :
    SysClock.step c off = .ok { c with adjustment := none, epoch := c.epoch + 1 }
      (SysClock.cancelActs c ++ [.setOffset off]) := by
  simp [SysClock.step, h]

/-- every Step increments the epoch by exactly one — with or without a registered slew, whatever
    goroutines are pending — and cancels a registered slew by restoring `afterFreq` first. -/
theorem C19_clock_step_epoch (c : SysClock.State) (off : Int) (h : c.epoch < SysClock.maxU64) :
    (SysClock.step c off).isOk = true ∧
    SysClock.epoch (SysClock.step c off).state = SysClock.epoch c + 1 ∧
    (SysClock.step c off).state.adjustment = none ∧
    (SysClock.step c off).state.pending = c.pending ∧
    (SysClock.step c off).acts =
      (match c.adjustment with
       | some a => [.setFrequency a.afterFreq, .setOffset off]
       | none => [.setOffset off]) := by
  rw [C19_clock_step c off (by omega)]
  refine ⟨rfl, rfl, rfl, rfl, ?_⟩
  cases hc : c.adjustment <;> simp [SysClock.Outcome.acts, SysClock.cancelActs, hc]

/-- At `MaxUint64` `Step` panics — after the calls were made and the slew was deregistered — and
    the epoch does not wrap. -/
theorem C19_clock_step_overflow (c : SysClock.State) (off : Int) (h : c.epoch = SysClock.maxU64) :
    SysClock.step c off = .panic .epochOverflow { c with adjustment := none }
      (SysClock.cancelActs c ++ [.setOffset off]) := by
  simp [SysClock.step, h]

/-- a slew is registered (never cleared by its expiry), the step still counts -/
example :
    SysClock.step { epoch := 1, adjustment := some ⟨0, 1000000000, .zero false⟩, nextId := 1, pending := [] } 0
      = .ok { epoch := 2, adjustment := none, nextId := 1, pending := [] }
          [.setFrequency (.zero false), .setOffset 0] := by decide
example : (SysClock.step { SysClock.init with epoch := SysClock.maxU64 } 7).isOk = false := by decide

/-! ### Adjust -/

theorem normDuration_spec {d : Int} (h : 0 ≤ d) :
    SysClock.second ≤ SysClock.normDuration d ∧ SysClock.normDuration d % SysClock.second = 0 ∧
    (d < SysClock.second → SysClock.normDuration d = SysClock.second) ∧
    (SysClock.second ≤ d → SysClock.normDuration d ≤ d ∧ d - SysClock.second < SysClock.normDuration d) := by
  unfold SysClock.normDuration SysClock.second
  rw [Int.tdiv_eq_ediv_of_nonneg h]
  simp only
  split <;> omega

/-- `Adjust` with a non-negative duration: returns; the epoch is unchanged; it asks for a positive
    whole number `d` of seconds (the duration rounded down to seconds, 1 s at least), sets
    `frequency + offset/d` and registers a fresh adjustment `(d, frequency)` whose goroutine it
    starts. -/
theorem C19_clock_adjust (c : SysClock.State) (off dur : Int) (f : F64) (h : 0 ≤ dur) :
    ∃ d, SysClock.second ≤ d ∧ d % SysClock.second = 0 ∧
      (dur < SysClock.second → d = SysClock.second) ∧
      (SysClock.second ≤ dur → d ≤ dur ∧ dur - SysClock.second < d) ∧
      SysClock.adjust c off dur f =
        .ok { c with adjustment := some ⟨c.nextId, d, f⟩, nextId := c.nextId + 1,
                     pending := c.pending ++ [⟨c.nextId, d, f⟩] }
          [.setFrequency (add f (div (durationSeconds off) (durationSeconds d))), .spawn c.nextId d] := by
  obtain ⟨h1, h2, h3, h4⟩ := normDuration_spec h
  refine ⟨SysClock.normDuration dur, h1, h2, h3, h4, ?_⟩
  have : ¬ dur < 0 := by omega
  simp [SysClock.adjust, this, SysClock.slewFrequency]

/-- `Adjust` never changes the epoch (returning or panicking), and panics exactly for negative
    durations. -/
theorem C19_clock_adjust_epoch (c : SysClock.State) (off dur : Int) (f : F64) :
    SysClock.epoch (SysClock.adjust c off dur f).state = SysClock.epoch c ∧
    ((SysClock.adjust c off dur f).isOk = false ↔ dur < 0) ∧
    (dur < 0 → SysClock.adjust c off dur f = .panic .invalidDuration { c with adjustment := none } []) := by
  unfold SysClock.adjust
  by_cases h : dur < 0 <;> simp [h, SysClock.Outcome.state, SysClock.Outcome.isOk, SysClock.epoch]

example : SysClock.normDuration 0 = 1000000000 ∧ SysClock.normDuration 999999999 = 1000000000 ∧
    SysClock.normDuration 1000000000 = 1000000000 ∧ SysClock.normDuration 2999999999 = 2000000000 ∧
    SysClock.normDuration 9223372036854775807 = 9223372036000000000 := by decide

/-! ### the expiry goroutine, Sleep -/

/-- The goroutine's tail never changes the epoch or the registration; it restores `afterFreq`
    exactly when its adjustment is still the registered one. -/
theorem C19_clock_expire (c : SysClock.State) (id : Nat) (o : SysClock.Outcome)
    (h : SysClock.expire c id = some o) :
    o.isOk = true ∧ SysClock.epoch o.state = SysClock.epoch c ∧ o.state.adjustment = c.adjustment ∧
    ∃ a, c.pending.find? (fun a => a.id = id) = some a ∧
      o.acts = (match c.adjustment with
                | some cur => if cur.id = a.id then [.setFrequency a.afterFreq] else []
                | none => []) := by
  unfold SysClock.expire at h
  cases hf : c.pending.find? (fun a => decide (a.id = id)) with
  | none => simp [hf] at h
  | some a =>
    simp only [hf] at h
    suffices hh : o.isOk = true ∧ SysClock.epoch o.state = SysClock.epoch c ∧ o.state.adjustment = c.adjustment ∧
        o.acts = (match c.adjustment with
                  | some cur => if cur.id = a.id then [.setFrequency a.afterFreq] else []
                  | none => []) from ⟨hh.1, hh.2.1, hh.2.2.1, a, rfl, hh.2.2.2⟩
    cases hc : c.adjustment with
    | none =>
      simp only [hc] at h
      injection h with h; subst h
      simp [SysClock.Outcome.isOk, SysClock.Outcome.state, SysClock.Outcome.acts, SysClock.epoch]
    | some cur =>
      simp only [hc] at h
      by_cases hi : cur.id = a.id
      · simp only [hi, if_true] at h
        injection h with h; subst h
        simp [SysClock.Outcome.isOk, SysClock.Outcome.state, SysClock.Outcome.acts, SysClock.epoch, hi]
      · simp only [hi, if_false] at h
        injection h with h; subst h
        simp [SysClock.Outcome.isOk, SysClock.Outcome.state, SysClock.Outcome.acts, SysClock.epoch, hi]

/-- `Sleep` never changes anything; it panics exactly for negative durations. -/
theorem C19_clock_sleep (c : SysClock.State) (d : Int) :
    (SysClock.sleep c d).state = c ∧ ((SysClock.sleep c d).isOk = false ↔ d < 0) ∧
    (0 ≤ d → SysClock.sleep c d = .ok c [.sleepLog d, .sleep d]) ∧
    (d < 0 → SysClock.Action.sleep d ∉ (SysClock.sleep c d).acts) := by
  unfold SysClock.sleep
  by_cases h : d < 0 <;> simp [h, SysClock.Outcome.state, SysClock.Outcome.isOk, SysClock.Outcome.acts] <;> omega

/-- identities of adjustments: allocated ids are below `nextId`, so a new one is fresh -/
def ClockWF (c : SysClock.State) : Prop :=
  (∀ a ∈ c.pending, a.id < c.nextId) ∧ (∀ a, c.adjustment = some a → a.id < c.nextId)

theorem clockWF_init : ClockWF SysClock.init := by
  constructor <;> simp [SysClock.init]

theorem clockWF_apply (c : SysClock.State) (x : SysClock.Op) (h : ClockWF c) :
    ClockWF (SysClock.apply c x).state := by
  obtain ⟨hp, ha⟩ := h
  cases x with
  | step o =>
    simp only [SysClock.apply, SysClock.step]
    split <;> exact ⟨by simpa [SysClock.Outcome.state] using hp, by simp [SysClock.Outcome.state]⟩
  | adjust o d f =>
    simp only [SysClock.apply, SysClock.adjust]
    split
    · exact ⟨by simpa [SysClock.Outcome.state] using hp, by simp [SysClock.Outcome.state]⟩
    · constructor
      · intro a hm
        simp only [SysClock.Outcome.state, List.mem_append, List.mem_singleton] at hm
        rcases hm with hm | hm
        · have := hp a hm; simp only [SysClock.Outcome.state]; omega
        · subst hm; simp [SysClock.Outcome.state]
      · intro a hm
        simp only [SysClock.Outcome.state, Option.some.injEq] at hm
        subst hm; simp [SysClock.Outcome.state]
  | expire id =>
    simp only [SysClock.apply]
    cases he : SysClock.expire c id with
    | none => simpa [SysClock.Outcome.state] using ⟨hp, ha⟩
    | some o =>
      simp only [Option.getD_some]
      obtain ⟨_, _, hadj, _⟩ := C19_clock_expire c id o he
      unfold SysClock.expire at he
      cases hf : c.pending.find? (fun a => decide (a.id = id)) with
      | none => simp [hf] at he
      | some a =>
        simp only [hf] at he
        have key : o.state.pending = c.pending.filter (fun b => b.id ≠ id) ∧ o.state.nextId = c.nextId := by
          cases hc : c.adjustment with
          | none => simp only [hc] at he; injection he with he; subst he; simp [SysClock.Outcome.state]
          | some cur =>
            simp only [hc] at he
            split at he <;> (injection he with he; subst he; simp [SysClock.Outcome.state])
        constructor
        · intro b hb
          rw [key.1] at hb
          rw [key.2]
          exact hp b (List.mem_filter.mp hb).1
        · intro b hb
          rw [hadj] at hb
          rw [key.2]
          exact ha b hb
  | sleep d =>
    simp only [SysClock.apply, SysClock.sleep]
    split <;> simpa [SysClock.Outcome.state] using ⟨hp, ha⟩

/-- A slew that was superseded by a later `Adjust` expires silently: its goroutine finds another
    adjustment registered and does not touch the frequency. -/
theorem C19_clock_superseded_expiry_silent (c : SysClock.State) (o1 d1 o2 d2 : Int) (f1 f2 : F64)
    (hwf : ClockWF c) (h1 : 0 ≤ d1) (h2 : 0 ≤ d2) :
    let c1 := (SysClock.adjust c o1 d1 f1).state
    let c2 := (SysClock.adjust c1 o2 d2 f2).state
    ∃ c3, SysClock.expire c2 c.nextId = some (.ok c3 []) ∧
      ∃ c4, SysClock.expire c3 (c.nextId + 1) = some (.ok c4 [.setFrequency f2]) := by
  intro c1 c2
  obtain ⟨e1, _, _, _, _, he1⟩ := C19_clock_adjust c o1 d1 f1 h1
  have hc1 : c1 = { c with adjustment := some ⟨c.nextId, e1, f1⟩, nextId := c.nextId + 1,
                           pending := c.pending ++ [⟨c.nextId, e1, f1⟩] } := by
    simp only [c1, he1, SysClock.Outcome.state]
  obtain ⟨e2, _, _, _, _, he2⟩ := C19_clock_adjust c1 o2 d2 f2 h2
  have hc2 : c2 = { c with adjustment := some ⟨c.nextId + 1, e2, f2⟩, nextId := c.nextId + 2,
                           pending := c.pending ++ [⟨c.nextId, e1, f1⟩] ++ [⟨c.nextId + 1, e2, f2⟩] } := by
    have he2' := he2
    rw [hc1] at he2'
    simp only [c2, hc1, he2', SysClock.Outcome.state, List.append_assoc]
  have hneq : ∀ k, c.nextId ≤ k → ∀ a ∈ c.pending, ¬ a.id = k := by
    intro k hk a ha
    have := hwf.1 a ha
    omega
  have hnot : ∀ k, c.nextId ≤ k → c.pending.find? (fun a => decide (a.id = k)) = none := by
    intro k hk
    rw [List.find?_eq_none]
    intro a ha
    have := hwf.1 a ha
    simp; omega
  refine ⟨{ c with adjustment := some ⟨c.nextId + 1, e2, f2⟩, nextId := c.nextId + 2,
                   pending := c.pending ++ [⟨c.nextId + 1, e2, f2⟩] }, ?_, ?_⟩
  · rw [hc2]
    simp [SysClock.expire, List.find?_append, hnot c.nextId (Nat.le_refl _), List.filter_append]
    exact hneq c.nextId (Nat.le_refl _)
  · refine ⟨{ c with adjustment := some ⟨c.nextId + 1, e2, f2⟩, nextId := c.nextId + 2,
                     pending := c.pending }, ?_⟩
    simp [SysClock.expire, List.find?_append, hnot (c.nextId + 1) (by omega), List.filter_append]
    exact hneq (c.nextId + 1) (by omega)

/-! ### histories: the epoch counts the steps -/

theorem apply_epoch (c : SysClock.State) (x : SysClock.Op) :
    (SysClock.apply c x).state.epoch = c.epoch + SysClock.stepCount x (SysClock.apply c x) := by
  cases x with
  | step o =>
    by_cases h : c.epoch = SysClock.maxU64
    · simp [SysClock.apply, C19_clock_step_overflow c o h, SysClock.Outcome.state, SysClock.stepCount]
    · simp [SysClock.apply, C19_clock_step c o h, SysClock.Outcome.state, SysClock.stepCount]
  | adjust o d f =>
    have := (C19_clock_adjust_epoch c o d f).1
    simpa [SysClock.apply, SysClock.epoch, SysClock.stepCount] using this
  | expire id =>
    simp only [SysClock.apply]
    cases he : SysClock.expire c id with
    | none => simp [SysClock.Outcome.state, SysClock.stepCount]
    | some o =>
      have := (C19_clock_expire c id o he).2.1
      simpa [SysClock.epoch, SysClock.stepCount] using this
  | sleep d =>
    have := (C19_clock_sleep c d).1
    simp [SysClock.apply, this, SysClock.stepCount]

/-- Over every history of `Step`/`Adjust`/`Sleep` calls and goroutine expiries, interleaved in any
    way, from any state: the epoch is the initial one plus the number of `Step`s that returned
    (no other method writes it, none of them skips it). -/
theorem C19_clock_epoch_counts_steps (c : SysClock.State) (ops : List SysClock.Op) :
    SysClock.epoch (SysClock.final c ops) = SysClock.epoch c + SysClock.okSteps c ops := by
  induction ops generalizing c with
  | nil => simp [SysClock.final, SysClock.okSteps]
  | cons x xs ih =>
    simp only [SysClock.final, SysClock.okSteps]
    rw [ih]
    simp only [SysClock.epoch]
    rw [apply_epoch c x]
    omega

/-- a history with a step before any slew, a step while a slew is registered and its goroutine
    pending, a step after the goroutine ran (the registration is still there), two slews of which
    the first is superseded: three steps, epoch 3 -/
example :
    let ops : List SysClock.Op :=
      [.step 5, .adjust 1000 1500000000 (.zero false), .step 0, .expire 0,
       .adjust 0 0 (.zero false), .expire 1, .step (-3), .adjust 0 2000000000 (.zero false),
       .adjust 7 0 (.zero false), .expire 2, .expire 3]
    SysClock.okSteps SysClock.init ops = 3 ∧ (SysClock.final SysClock.init ops).epoch = 3 ∧
    (SysClock.final SysClock.init ops).pending = [] := by decide +kernel

/-! ### the PLL on the clock object -/

theorem pll_step_ok_epoch {s s' : Pll.State} {e : Nat} {now off : Int} {w pw : F64} {acts : List Pll.Action}
    {x : Int} (hoff : Pll.minI64 ≤ off ∧ off ≤ Pll.maxI64)
    (h : Pll.step s e now off w pw = .ok s' acts) (hx : Pll.Action.step x ∈ acts) : s'.epoch = e := by
  obtain ⟨he, hm, _, _, _, _, _, hacts⟩ := C19_step_only_when hoff h hx
  have hs : Pll.syncEpoch s e = s := by
    rcases Pll.syncEpoch_cases s e with ⟨h', _⟩ | ⟨_, h'⟩
    · exact absurd he.symm h'
    · exact h'
  have hspec := Pll.step_spec s e now off w pw
  simp only at hspec
  rw [h, hs] at hspec
  rcases hspec with ⟨h0, _⟩ | ⟨_, _, hr⟩ | ⟨_, _, _, _, hr⟩ | ⟨_, _, _, _, hr⟩ | ⟨_, _, _, hr⟩ |
      ⟨h0, _⟩ | ⟨h0, _⟩ | ⟨h0, _⟩ | ⟨h0, _⟩ | ⟨h0, _⟩ | ⟨h0, _⟩ | ⟨h0, _⟩
  all_goals first
    | omega
    | exact Pll.Outcome.noConfusion hr
    | (injection hr with hs' _; rw [hs']; exact he.symm)

/-- The PLL's own `Step`, made on the real clock object, is observed by its next update as an
    epoch change: whenever an update steps (clock epoch below `MaxUint64`), the clock cancels a
    registered slew, sets the offset, and its epoch moves to one more than the epoch the PLL has
    recorded; the NEXT update — whatever its inputs — therefore restarts the start-up sequence
    (mode 1, `t0 = now`, no clock call) and records the new epoch. -/
theorem C19_product_own_step_restarts (s : PllClock.State) (now off : Int) (w pw : F64)
    (p' : Pll.State) (pacts : List Pll.Action) (x : Int)
    (hoff : Pll.minI64 ≤ off ∧ off ≤ Pll.maxI64) (hov : s.clk.epoch < SysClock.maxU64)
    (h : Pll.step s.pll (SysClock.epoch s.clk) now off w pw = .ok p' pacts)
    (hx : Pll.Action.step x ∈ pacts) :
    ∃ c', PllClock.update s now off w pw =
        .ok { pll := p', clk := c' } (SysClock.cancelActs s.clk ++ [.setOffset x]) ∧
      SysClock.epoch c' = SysClock.epoch s.clk + 1 ∧ c'.adjustment = none ∧
      p'.epoch = SysClock.epoch s.clk ∧
      ∀ (now' off' : Int) (w' pw' : F64),
        PllClock.update { pll := p', clk := c' } now' off' w' pw' =
          .ok { pll := { p' with epoch := SysClock.epoch c', mode := 1, t0 := now', t := now' }, clk := c' } [] := by
  have hacts := (C19_step_only_when hoff h hx).2.2.2.2.2.2.2
  have hep := pll_step_ok_epoch hoff h hx
  refine ⟨{ s.clk with adjustment := none, epoch := s.clk.epoch + 1 }, ?_, rfl, rfl, hep, ?_⟩
  · unfold PllClock.update
    rw [h, hacts]
    simp [PllClock.calls, PllClock.call, C19_clock_step s.clk x (by omega)]
  · intro now' off' w' pw'
    unfold PllClock.update
    have hne : SysClock.epoch { s.clk with adjustment := none, epoch := s.clk.epoch + 1 } ≠ p'.epoch := by
      rw [hep]; simp [SysClock.epoch]
    rw [C19_epoch_restarts p' now' off' w' pw' hne]
    simp [PllClock.calls]

/-- A `Step` by ANY user of the shared clock object between two updates of a PLL that was in
    sync with it (a history of calls and goroutine expiries containing at least one `Step` that
    returned) is observed by the next update as an epoch change: restart. -/
theorem C19_product_external_step_restarts (s : PllClock.State) (ops : List SysClock.Op)
    (hsync : s.pll.epoch = SysClock.epoch s.clk) (hstep : 1 ≤ SysClock.okSteps s.clk ops)
    (now off : Int) (w pw : F64) :
    PllClock.update { pll := s.pll, clk := SysClock.final s.clk ops } now off w pw =
      .ok { pll := { s.pll with epoch := SysClock.epoch (SysClock.final s.clk ops), mode := 1, t0 := now, t := now },
            clk := SysClock.final s.clk ops } [] := by
  have hne : SysClock.epoch (SysClock.final s.clk ops) ≠ s.pll.epoch := by
    rw [C19_clock_epoch_counts_steps, hsync]; omega
  unfold PllClock.update
  rw [C19_epoch_restarts s.pll now off w pw hne]
  simp [PllClock.calls]

/-- demo: start-up on the real clock object — the PLL steps by 5 ms at the third update, the
    clock's epoch moves to 1, the fourth update restarts (mode 1) although its inputs would
    otherwise continue the sequence. -/
example :
    let w := ofInt 10
    let fzero : F64 := .zero false
    let s1 := (PllClock.update PllClock.init 100000000000 5000000 w fzero).next PllClock.init
    let s2 := (PllClock.update s1 102000000001 5000000 w fzero).next s1
    let s3 := (PllClock.update s2 108000000002 5000000 w fzero).next s2
    PllClock.update s1 102000000001 5000000 w fzero =
        .ok { pll := { s1.pll with mode := 2, t0 := 102000000001, t := 102000000001 },
              clk := { SysClock.init with epoch := 1 } } [.setOffset 5000000] ∧
    s3.pll.mode = 1 ∧ s3.pll.epoch = 1 ∧ s3.clk.epoch = 1 := by decide +kernel

/-! ### pins: the methods are what the model transcribes (re-read from driver/clocks/sysclk_linux.go
on every run by harness/extract/x_c19.go) -/

open ScionTime.Gen.Adjustments in
/-- `Step`: no `return`, exactly one write of `c.epoch` — the unconditional top-level `c.epoch++`
    after the single top-level `setOffset` call; statement for statement what `SysClock.step` is. -/
theorem C19_pin_sysclk_step :
    sysclk_step_stmts = SysClock.stepSource ∧ sysclk_step_returns = 0 ∧ sysclk_step_epochWrites = 1 ∧
    sysclk_step_setOffsetCalls = 1 ∧ sysclk_step_epochIncTopLevel = true ∧
    sysclk_step_setOffsetBeforeEpochInc = true := ⟨rfl, by decide⟩

open ScionTime.Gen.Adjustments in
/-- `Step` is the only function of the file that writes `c.epoch`; `c.adjustment` is written by
    `Step` (cleared) and `Adjust` (cleared, then set) and by nothing else — in particular not by the
    expiry goroutine. -/
theorem C19_pin_sysclk_writers :
    sysclk_epochWriters = ["Step"] ∧ sysclk_adjustmentWriters = ["Step", "Adjust", "Adjust"] := by decide

open ScionTime.Gen.Adjustments in
theorem C19_pin_sysclk_adjust :
    sysclk_adjust_stmts = SysClock.adjustSource ∧ sysclk_adjust_goroutine = SysClock.goroutineSource := ⟨rfl, rfl⟩

open ScionTime.Gen.Adjustments in
theorem C19_pin_sysclk_epoch_sleep :
    sysclk_epoch_stmts = SysClock.epochSource ∧ sysclk_sleep_stmts = SysClock.sleepSource := ⟨rfl, rfl⟩

end ScionTime.Props.C19
