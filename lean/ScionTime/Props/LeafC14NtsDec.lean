/-
  Kernel-checked tie (C14 / C10 / C08 / C05): `nts.DecodePacket` of net/nts/nts.go — the walk over the
  NTS extension fields — as regenerated from /repo's Go source on every run (Gen/LeafNts.lean; ninth
  generation of the leaf translator: `X = append(X, v)` on an owned list) against `Nts.decLoop` /
  `Nts.decodePacket` of Model/Nts.lean.

  The generated loop walks by POSITION (`pos : Int64`), calls the regenerated `extHdr.unpack` and the
  four regenerated `unpack`s (tied in Props/LeafC14Nts), and threads `(err, foundAuthenticator,
  foundUniqueID, pkt, pos)`; the model walks by SUFFIX with an accumulator `Decoded`. `view` reads
  the accumulator off the Go packet struct; `body_spec` is one iteration of the generated body in
  terms of the bytes (all the int64 / uint16 arithmetic is here); `dec_at` is the model's iteration on
  `B.drop p` in the same terms; `dp_loop` is the induction.

  PROVED for EVERY buffer shorter than 2^62 bytes, every packet struct passed in (also one that
  still holds the fields of an earlier decode) and every budget above the length:
    * `C10_leaf_DecodePacket`: returns `nil` exactly when the model decodes, with the model's unique
      identifier, cookies, number of placeholders, nonce, ciphertext and authenticator position; an
      error exactly when the model returns one; never a panic, never out of budget;
    * `C10_leaf_DecodePacket_total`: totality of the regenerated code (the F2/F3 class: a zero or
      short `Length` neither hangs nor walks out of the buffer);
    * `C10_leaf_stops_at_authenticator`: an authenticator field at the current position ends the
      walk — the unique identifier, cookies and placeholders are those collected before it, whatever
      bytes follow (the C10-1, C10-4, C10-14, C10-16 class);
    * `C10_leaf_uid_is_last_before_auth`: a UID field followed by fields that are neither UID nor
      authenticator and then the authenticator: that UID is the one in the result.
  NOT in the rendering: WHICH error is returned (`error` is rendered as "failed": Bool).
-/
import ScionTime.Gen.LeafNts
import ScionTime.Model.Nts
import ScionTime.Proofs.GoPrelude
import ScionTime.Proofs.LeafBytes
import ScionTime.Props.LeafC14CookiesDec
import ScionTime.Props.LeafC14Nts
namespace ScionTime.LeafTieC14NtsDec
open ScionTime ScionTime.Gen.Leaf ScionTime.GoLemmas ScionTime.Nts ScionTime.LeafBytes
open ScionTime.LeafTieC14CookiesDec (bytesN beU16At_spec ofNat_toInt k2 k4 int64_ext len_toInt getD_drop forFuel_mono u16_beq drop_cons4)
open ScionTime.LeafTieC14Nts (bytesN_length C10_leaf_Authenticator_unpack C10_leaf_UniqueIdentifier_unpack C10_leaf_Cookie_unpack)

abbrev DpSt := Bool × Bool × Bool × S_NtsPacket × Int64   -- (err, foundAuthenticator, foundUniqueID, pkt, pos)

/-- the loop body of the generated `DecodePacket`, verbatim -/
def dpBody (b : List UInt8) : DpSt → Go.Ctl DpSt (Go.Out (S_NtsPacket × Bool)) :=
  fun (err, foundAuthenticator, foundUniqueID, pkt, pos) =>
      if (!((decide (((Go.len b) - pos) >= (28 : Int64))) && (!foundAuthenticator))) then
        Go.Ctl.brk (err, foundAuthenticator, foundUniqueID, pkt, pos)
      else
        let eh : S_extHdr := { Type' := (0 : UInt16), Length := (0 : UInt16) : S_extHdr }
        Go.Ctl.bindR (Go.Out.ofOption "panic" (nts_extHdr_unpack eh b pos)) fun eh =>
        if ((decide (eh.Length < (4 : UInt16))) || (decide (((eh.Length).toUInt64.toInt64) > ((Go.len b) - pos)))) then
          Go.Ctl.ret (Go.Out.ok ((pkt, true)))
        else
          let pos : Int64 := (pos + (4 : Int64))
          if (eh.Type' == (260 : UInt16)) then
            let u : S_UniqueIdentifier := { extHdr := eh, ID := ([] : (List UInt8)) : S_UniqueIdentifier }
            Go.Ctl.bindR (Go.Out.ofOption "panic" (nts_UniqueIdentifier_unpack u b pos)) fun (u, _c1) =>
            let err : Bool := _c1
            if (err != false) then
              Go.Ctl.ret (Go.Out.ok ((pkt, err)))
            else
              let pkt : S_NtsPacket := { pkt with UniqueID := u }
              let foundUniqueID : Bool := true
              let pos : Int64 := (pos + (((eh.Length).toUInt64.toInt64) - (4 : Int64)))
              Go.Ctl.next (err, foundAuthenticator, foundUniqueID, pkt, pos)
          else
            if (eh.Type' == (1028 : UInt16)) then
              let a : S_Authenticator := { extHdr := eh, Nonce := ([] : (List UInt8)), CipherText := ([] : (List UInt8)), Key := ([] : (List UInt8)), PlainText := ([] : (List UInt8)), pos := (0 : Int64) : S_Authenticator }
              Go.Ctl.bindR (Go.Out.ofOption "panic" (nts_Authenticator_unpack a b pos)) fun (a, _c2) =>
              let err : Bool := _c2
              if (err != false) then
                Go.Ctl.ret (Go.Out.ok ((pkt, err)))
              else
                let a : S_Authenticator := { a with pos := (pos - (4 : Int64)) }
                let pkt : S_NtsPacket := { pkt with Auth := a }
                let foundAuthenticator : Bool := true
                let pos : Int64 := (pos + (((eh.Length).toUInt64.toInt64) - (4 : Int64)))
                Go.Ctl.next (err, foundAuthenticator, foundUniqueID, pkt, pos)
            else
              if (eh.Type' == (516 : UInt16)) then
                let cookie : S_Cookie := { extHdr := eh, Cookie := ([] : (List UInt8)) : S_Cookie }
                Go.Ctl.bindR (Go.Out.ofOption "panic" (nts_Cookie_unpack cookie b pos)) fun (cookie, _c3) =>
                let err : Bool := _c3
                if (err != false) then
                  Go.Ctl.ret (Go.Out.ok ((pkt, err)))
                else
                  let pkt : S_NtsPacket := { pkt with Cookies := (Go.appendOwn pkt.Cookies cookie) }
                  let pos : Int64 := (pos + (((eh.Length).toUInt64.toInt64) - (4 : Int64)))
                  Go.Ctl.next (err, foundAuthenticator, foundUniqueID, pkt, pos)
              else
                if (eh.Type' == (772 : UInt16)) then
                  let cookie : S_CookiePlaceholder := { extHdr := eh, Cookie := ([] : (List UInt8)) : S_CookiePlaceholder }
                  let err : Bool := (nts_CookiePlaceholder_unpack cookie b pos)
                  if (err != false) then
                    Go.Ctl.ret (Go.Out.ok ((pkt, err)))
                  else
                    let pkt : S_NtsPacket := { pkt with CookiePlaceholders := (Go.appendOwn pkt.CookiePlaceholders cookie) }
                    let pos : Int64 := (pos + (((eh.Length).toUInt64.toInt64) - (4 : Int64)))
                    Go.Ctl.next (err, foundAuthenticator, foundUniqueID, pkt, pos)
                else
                  let pos : Int64 := (pos + (((eh.Length).toUInt64.toInt64) - (4 : Int64)))
                  Go.Ctl.next (err, foundAuthenticator, foundUniqueID, pkt, pos)

/-- the generated function is its loop followed by the two final tests (definitional: re-checked
    against the regenerated definition on every run) -/
theorem dp_pieces (pkt : S_NtsPacket) (b : List UInt8) (fuel : Nat) :
    nts_DecodePacket pkt b fuel =
      (match Go.forFuel (ρ := Go.Out (S_NtsPacket × Bool)) fuel (false, false, false, pkt, (48 : Int64)) (dpBody b) with
       | none => Go.Out.stuck
       | some (.inr _r) => _r
       | some (.inl (err, foundAuthenticator, foundUniqueID, pkt, pos)) =>
         if (!foundUniqueID) then Go.Out.ok ((pkt, true))
         else if (!foundAuthenticator) then Go.Out.ok ((pkt, true))
         else Go.Out.ok ((pkt, false))) := rfl

/-! ### the model's iteration, in terms of the bytes at the head of the suffix -/

/-- one iteration of `decLoop` (fixed code) on a suffix of at least 28 bytes, header `(t, l)` -/
def decNext (total n : Nat) (rest : Bytes) (fu : Bool) (d : Decoded) (t l : Nat) : Res (Bool × Bool × Decoded) :=
  if l < 4 ∨ l > rest.length then .err .extLen
  else if t = extAuthenticator then
    match unpackAuth (rest.drop 4) with
    | .ok (nonce, ct) => .ok (fu, true, { d with nonce := nonce, ct := ct, pos := total - rest.length })
    | .err x => .err x | .panic p => .panic p | .hang => .hang
  else if t = extUniqueIdentifier then
    decLoop true total n (rest.drop l) true { d with uid := copyN (valueLen l) (rest.drop 4) }
  else if t = extCookie then
    decLoop true total n (rest.drop l) fu { d with cookies := d.cookies ++ [copyN (valueLen l) (rest.drop 4)] }
  else if t = extCookiePlaceholder then
    decLoop true total n (rest.drop l) fu { d with nph := d.nph + 1 }
  else decLoop true total n (rest.drop l) fu d

theorem dec_unfold (total n : Nat) (rest : Bytes) (fu : Bool) (d : Decoded) (h : 28 ≤ rest.length) :
    decLoop true total (n + 1) rest fu d =
      decNext total n rest fu d (u16 (rest.getD 0 0) (rest.getD 1 0)) (u16 (rest.getD 2 0) (rest.getD 3 0)) := by
  rcases rest with _ | ⟨a, _ | ⟨b, _ | ⟨c, _ | ⟨e, body⟩⟩⟩⟩
  · simp at h
  · simp at h
  · simp at h
  · simp at h
  · have hl : ¬ (a :: b :: c :: e :: body).length < 28 := by omega
    unfold decNext
    simp only [decLoop, if_neg hl, List.getD_cons_zero, List.getD_cons_succ, List.drop_succ_cons, List.drop_zero,
      Bool.true_and, Bool.or_eq_true, decide_eq_true_eq]
    generalize u16 c e = l
    generalize (a :: b :: c :: e :: body).length = L
    by_cases h1 : l < 4
    · simp [h1]
    · by_cases h2 : l > L
      · simp [h1, h2]
      · have h0 : ¬ (l = 0) := by omega
        simp [h1, h2, h0]
        by_cases ha : u16 a b = extAuthenticator
        · simp only [ha, if_true]
          cases unpackAuth body with
          | ok v => rfl
          | err _ => rfl
          | panic _ => rfl
          | hang => rfl
        · simp only [ha, if_false]

theorem short_stop (total n : Nat) (rest : Bytes) (fu : Bool) (d : Decoded) (h : rest.length < 28) :
    decLoop true total (n + 1) rest fu d = .ok (fu, false, d) := by
  simp only [decLoop, if_pos h]


theorem dec_at (total : Nat) (B : Bytes) (p n : Nat) (fu : Bool) (d : Decoded) (h : p + 28 ≤ B.length) :
    decLoop true total (n + 1) (B.drop p) fu d =
      decNext total n (B.drop p) fu d (u16 (B.getD p 0) (B.getD (p + 1) 0)) (u16 (B.getD (p + 2) 0) (B.getD (p + 3) 0)) := by
  rw [dec_unfold _ _ _ _ _ (by simp; omega)]
  simp only [getD_drop, Nat.add_zero]

/-! ### one iteration of the generated body, in terms of the bytes -/

theorem k28 : (28 : Int64).toInt = 28 := by decide

theorem hdr_spec (b : List UInt8) (p : Nat) (eh0 : S_extHdr) (hL : b.length < 4611686018427387904) (h4 : p + 4 ≤ b.length) :
    ∃ t l : UInt16, nts_extHdr_unpack eh0 b (Int64.ofNat p) = some { Type' := t, Length := l } ∧
      t.toNat = u16 ((bytesN b).getD p 0) ((bytesN b).getD (p + 1) 0) ∧
      l.toNat = u16 ((bytesN b).getD (p + 2) 0) ((bytesN b).getD (p + 3) 0) := by
  have hpos := ofNat_toInt p (by omega)
  obtain ⟨t, ht, htn⟩ := beU16At_spec b p (Int64.ofNat p) hpos (by omega)
  have hp2 : (Int64.ofNat p + 2).toInt = ((p + 2 : Nat) : Int) := by
    rw [toInt_add_of_fits _ _ (by rw [hpos, k2]; omega) (by rw [hpos, k2]; omega), hpos, k2]; omega
  obtain ⟨l, hl, hln⟩ := beU16At_spec b (p + 2) (Int64.ofNat p + 2) hp2 (by omega)
  refine ⟨t, l, ?_, ?_, ?_⟩
  · unfold nts_extHdr_unpack; simp only [ht, hl, Option.bind_some]
  · rw [htn]; unfold bytesN u16; rw [getD_bytes, getD_bytes]
  · rw [hln]; unfold bytesN u16; rw [getD_bytes, getD_bytes]

theorem body_fa (b : List UInt8) (e fu : Bool) (pkt : S_NtsPacket) (pos : Int64) :
    dpBody b (e, true, fu, pkt, pos) = .brk (e, true, fu, pkt, pos) := by
  simp [dpBody]

theorem body_short (b : List UInt8) (p : Nat) (e fa fu : Bool) (pkt : S_NtsPacket)
    (hL : b.length < 4611686018427387904) (hp : p < 4611686018427387904) (h : (b.length : Int) - p < 28) :
    dpBody b (e, fa, fu, pkt, Int64.ofNat p) = .brk (e, fa, fu, pkt, Int64.ofNat p) := by
  have hlen := len_toInt b hL
  have hpos := ofNat_toInt p (by omega)
  have hsub : (Go.len b - Int64.ofNat p).toInt = (b.length : Int) - p := by
    rw [toInt_sub_of_fits _ _ (by omega) (by omega), hlen, hpos]
  have hc : decide (Go.len b - Int64.ofNat p ≥ (28 : Int64)) = false := by
    rw [decide_eq_false_iff_not, ge_iff_le, Int64.le_iff_toInt_le, hsub, k28]; omega
  simp [dpBody, hc]

/-- what one iteration of the generated body does at position `p` with header `(t, l)` when at
    least 28 bytes are left -/
def StepOK (b : List UInt8) (p : Nat) (fu : Bool) (pkt : S_NtsPacket) (t l : Nat)
    (r : Go.Ctl DpSt (Go.Out (S_NtsPacket × Bool))) : Prop :=
  if l < 4 ∨ l > b.length - p then r = .ret (.ok (pkt, true))
  else if t = extAuthenticator then
    ∃ eh N C, r = .next (false, true, fu, { pkt with Auth := { extHdr := eh, Nonce := N, CipherText := C, Key := [], PlainText := [], pos := Int64.ofNat p } }, Int64.ofNat (p + l)) ∧
      unpackAuth ((bytesN b).drop (p + 4)) = .ok (bytesN N, bytesN C)
  else if t = extUniqueIdentifier then
    ∃ eh X, r = .next (false, false, true, { pkt with UniqueID := { extHdr := eh, ID := X } }, Int64.ofNat (p + l)) ∧
      bytesN X = copyN (valueLen l) ((bytesN b).drop (p + 4))
  else if t = extCookie then
    ∃ eh X, r = .next (false, false, fu, { pkt with Cookies := pkt.Cookies ++ [{ extHdr := eh, Cookie := X }] }, Int64.ofNat (p + l)) ∧
      bytesN X = copyN (valueLen l) ((bytesN b).drop (p + 4))
  else if t = extCookiePlaceholder then
    ∃ c, r = .next (false, false, fu, { pkt with CookiePlaceholders := pkt.CookiePlaceholders ++ [c] }, Int64.ofNat (p + l))
  else r = .next (false, false, fu, pkt, Int64.ofNat (p + l))

theorem k772 : (772 : UInt16).toNat = extCookiePlaceholder := rfl

theorem body_spec (b : List UInt8) (p : Nat) (fu : Bool) (pkt : S_NtsPacket)
    (hL : b.length < 4611686018427387904) (h28 : p + 28 ≤ b.length) :
    StepOK b p fu pkt (u16 ((bytesN b).getD p 0) ((bytesN b).getD (p + 1) 0))
      (u16 ((bytesN b).getD (p + 2) 0) ((bytesN b).getD (p + 3) 0))
      (dpBody b (false, false, fu, pkt, Int64.ofNat p)) := by
  have hlen := len_toInt b hL
  have hpos := ofNat_toInt p (by omega)
  obtain ⟨t, l, hh, htn, hln⟩ := hdr_spec b p { Type' := 0, Length := 0 } hL (by omega)
  have hsub : (Go.len b - Int64.ofNat p).toInt = (b.length : Int) - p := by
    rw [toInt_sub_of_fits _ _ (by omega) (by omega), hlen, hpos]
  have hc : decide (Go.len b - Int64.ofNat p ≥ (28 : Int64)) = true := by
    rw [decide_eq_true_eq, ge_iff_le, Int64.le_iff_toInt_le, hsub, k28]; omega
  have hl16 := l.toNat_lt
  have hw : (l.toUInt64.toInt64).toInt = l.toNat := widen16 l
  have h4u : (4 : UInt16).toNat = 4 := rfl
  have hp4 : Int64.ofNat p + 4 = Int64.ofNat (p + 4) := by
    apply int64_ext
    rw [toInt_add_of_fits _ _ (by rw [hpos, k4]; omega) (by rw [hpos, k4]; omega), hpos, k4, ofNat_toInt _ (by omega)]; omega
  rw [← htn, ← hln]
  have e260 : (260 : UInt16).toNat = 260 := rfl
  have e1028 : (1028 : UInt16).toNat = 1028 := rfl
  have e516 : (516 : UInt16).toNat = 516 := rfl
  have e772 : (772 : UInt16).toNat = 772 := rfl
  unfold StepOK extAuthenticator extUniqueIdentifier extCookie extCookiePlaceholder
  by_cases h1 : l.toNat < 4 ∨ l.toNat > b.length - p
  · have h1' : l.toNat < 4 ∨ ((b.length : Int) - (p : Int) < (l.toNat : Int)) := by omega
    rw [if_pos h1]
    simp only [dpBody, hc, hh, Bool.not_false, Bool.and_true, Bool.not_true, Bool.false_eq_true, if_false,
      Go.Out.ofOption, Go.Ctl.bindR, UInt16.lt_iff_toNat_lt, h4u, Int64.lt_iff_toInt_lt, gt_iff_lt, hw, hsub,
      Bool.or_eq_true, decide_eq_true_eq, h1', if_true]
  · have h1' : ¬ (l.toNat < 4 ∨ ((b.length : Int) - (p : Int) < (l.toNat : Int))) := by omega
    rw [if_neg h1]
    have hl4 : (l.toUInt64.toInt64 - 4).toInt = (l.toNat : Int) - 4 := by
      rw [toInt_sub_of_fits _ _ (by rw [hw, k4]; omega) (by rw [hw, k4]; omega), hw, k4]
    have hp4i := ofNat_toInt (p + 4) (by omega)
    have hnx : Int64.ofNat (p + 4) + (l.toUInt64.toInt64 - 4) = Int64.ofNat (p + l.toNat) := by
      apply int64_ext
      rw [toInt_add_of_fits _ _ (by rw [hp4i, hl4]; omega) (by rw [hp4i, hl4]; omega), hp4i, hl4,
        ofNat_toInt _ (by omega)]; omega
    have hp0 : Int64.ofNat (p + 4) - 4 = Int64.ofNat p := by
      apply int64_ext
      rw [toInt_sub_of_fits _ _ (by rw [hp4i, k4]; omega) (by rw [hp4i, k4]; omega), hp4i, k4, hpos]; omega
    by_cases ha : t.toNat = 1028
    · have ht : t = 1028 := UInt16.toNat_inj.mp (by rw [ha, e1028])
      subst ht
      have htie := C10_leaf_Authenticator_unpack
        { extHdr := { Type' := 1028, Length := l }, Nonce := [], CipherText := [], Key := [], PlainText := [], pos := 0 }
        b (p + 4) hL (by omega) rfl
      rw [if_pos ha]
      cases hU : unpackAuth ((bytesN b).drop (p + 4)) with
      | ok v =>
        obtain ⟨n, c⟩ := v
        rw [hU] at htie
        obtain ⟨N, C, hrun, hN, hC⟩ := htie
        refine ⟨{ Type' := 1028, Length := l }, N, C, ?_, by rw [hN, hC]⟩
        simp only [dpBody, hc, hh, Bool.not_false, Bool.and_true, Bool.not_true, Bool.false_eq_true, if_false,
          Go.Out.ofOption, Go.Ctl.bindR, UInt16.lt_iff_toNat_lt, h4u, Int64.lt_iff_toInt_lt, gt_iff_lt, hw, hsub,
          Bool.or_eq_true, decide_eq_true_eq, hp4, u16_beq, h1', e260, e1028, hrun, hnx, hp0]
        simp
      | panic m =>
        exfalso
        rw [drop_cons4 _ (p + 4) (by rw [bytesN_length]; omega)] at hU
        simp [unpackAuth] at hU
      | err e => rw [hU] at htie; exact htie.elim
      | hang => rw [hU] at htie; exact htie.elim
    · rw [if_neg ha]
      by_cases hu : t.toNat = 260
      · have ht : t = 260 := UInt16.toNat_inj.mp (by rw [hu, e260])
        subst ht
        obtain ⟨X, hrun, hX⟩ := C10_leaf_UniqueIdentifier_unpack { extHdr := { Type' := 260, Length := l }, ID := [] }
          b (p + 4) hL (by omega) rfl
        rw [if_pos hu]
        refine ⟨{ Type' := 260, Length := l }, X, ?_, hX⟩
        simp only [dpBody, hc, hh, Bool.not_false, Bool.and_true, Bool.not_true, Bool.false_eq_true, if_false,
          Go.Out.ofOption, Go.Ctl.bindR, UInt16.lt_iff_toNat_lt, h4u, Int64.lt_iff_toInt_lt, gt_iff_lt, hw, hsub,
          Bool.or_eq_true, decide_eq_true_eq, hp4, u16_beq, h1', e260, e1028, e516, e772, hnx, hp0, hrun]
        simp
      · rw [if_neg hu]
        by_cases hk : t.toNat = 516
        · have ht : t = 516 := UInt16.toNat_inj.mp (by rw [hk, e516])
          subst ht
          obtain ⟨X, hrun, hX⟩ := C10_leaf_Cookie_unpack { extHdr := { Type' := 516, Length := l }, Cookie := [] }
            b (p + 4) hL (by omega) rfl
          rw [if_pos hk]
          refine ⟨{ Type' := 516, Length := l }, X, ?_, hX⟩
          simp only [dpBody, hc, hh, Bool.not_false, Bool.and_true, Bool.not_true, Bool.false_eq_true, if_false,
          Go.Out.ofOption, Go.Ctl.bindR, UInt16.lt_iff_toNat_lt, h4u, Int64.lt_iff_toInt_lt, gt_iff_lt, hw, hsub,
          Bool.or_eq_true, decide_eq_true_eq, hp4, u16_beq, h1', e260, e1028, e516, e772, hnx, hp0, hrun]
          simp [Go.appendOwn]
        · rw [if_neg hk]
          by_cases hph : t.toNat = 772
          · have ht : t = 772 := UInt16.toNat_inj.mp (by rw [hph, e772])
            subst ht
            rw [if_pos hph]
            refine ⟨{ extHdr := { Type' := 772, Length := l }, Cookie := [] }, ?_⟩
            simp only [dpBody, hc, hh, Bool.not_false, Bool.and_true, Bool.not_true, Bool.false_eq_true, if_false,
          Go.Out.ofOption, Go.Ctl.bindR, UInt16.lt_iff_toNat_lt, h4u, Int64.lt_iff_toInt_lt, gt_iff_lt, hw, hsub,
          Bool.or_eq_true, decide_eq_true_eq, hp4, u16_beq, h1', e260, e1028, e516, e772, hnx, hp0, nts_CookiePlaceholder_unpack]
            simp [Go.appendOwn]
          · rw [if_neg hph]
            simp only [dpBody, hc, hh, Bool.not_false, Bool.and_true, Bool.not_true, Bool.false_eq_true, if_false,
          Go.Out.ofOption, Go.Ctl.bindR, UInt16.lt_iff_toNat_lt, h4u, Int64.lt_iff_toInt_lt, gt_iff_lt, hw, hsub,
          Bool.or_eq_true, decide_eq_true_eq, hp4, u16_beq, h1', e260, e1028, e516, e772, hnx, hp0, ha, hu, hk, hph]

/-! ### the induction -/

/-- the model's accumulator, read off the Go packet struct -/
def view (pkt : S_NtsPacket) : Decoded :=
  { uid := bytesN pkt.UniqueID.ID, cookies := pkt.Cookies.map (fun c => bytesN c.Cookie),
    nph := pkt.CookiePlaceholders.length, nonce := bytesN pkt.Auth.Nonce, ct := bytesN pkt.Auth.CipherText,
    pos := pkt.Auth.pos.toInt.toNat }

theorem forFuel_next {σ ρ : Type} (n : Nat) (s s' : σ) (body : σ → Go.Ctl σ ρ) (h : body s = .next s') :
    Go.forFuel (n + 1) s body = Go.forFuel n s' body := by
  simp only [Go.forFuel, h]

theorem forFuel_brk {σ ρ : Type} (n : Nat) (s s' : σ) (body : σ → Go.Ctl σ ρ) (h : body s = .brk s') :
    Go.forFuel (n + 1) s body = some (.inl s') := by
  simp only [Go.forFuel, h]

theorem forFuel_ret {σ ρ : Type} (n : Nat) (s : σ) (r : ρ) (body : σ → Go.Ctl σ ρ) (h : body s = .ret r) :
    Go.forFuel (n + 1) s body = some (.inr r) := by
  simp only [Go.forFuel, h]

/-- **position-based walk = suffix-based walk**: with a budget above the bytes left (+1 for the
    iteration that sees `foundAuthenticator`), the generated loop ends exactly as the model's does. -/
theorem dp_loop (b : List UInt8) (hL : b.length < 4611686018427387904) :
    ∀ (n p : Nat) (fu : Bool) (pkt : S_NtsPacket), p ≤ b.length → b.length - p < n →
      (match decLoop true b.length n ((bytesN b).drop p) fu (view pkt) with
       | .ok (fu', fa', d') => ∃ pkt' pos', Go.forFuel (n + 1) (false, false, fu, pkt, Int64.ofNat p) (dpBody b) =
            some (.inl (false, fa', fu', pkt', pos')) ∧ view pkt' = d'
       | .err _ => ∃ pkt', Go.forFuel (n + 1) (false, false, fu, pkt, Int64.ofNat p) (dpBody b) =
            some (.inr (Go.Out.ok (pkt', true)))
       | .panic _ => False
       | .hang => False) := by
  intro n
  induction n with
  | zero => intro p fu pkt _ h; omega
  | succ n ih =>
    intro p fu pkt hp hn
    have hBl : (bytesN b).length = b.length := bytesN_length b
    have hpos := ofNat_toInt p (by omega)
    by_cases h28 : p + 28 ≤ b.length
    · rw [dec_at _ _ _ _ _ _ (by rw [hBl]; exact h28)]
      have hs := body_spec b p fu pkt hL h28
      unfold decNext
      unfold StepOK at hs
      generalize u16 ((bytesN b).getD p 0) ((bytesN b).getD (p + 1) 0) = t at hs ⊢
      generalize u16 ((bytesN b).getD (p + 2) 0) ((bytesN b).getD (p + 3) 0) = l at hs ⊢
      have hdl : ((bytesN b).drop p).length = b.length - p := by rw [List.length_drop, hBl]
      simp only [hdl, List.drop_drop] at hs ⊢
      by_cases h1 : l < 4 ∨ l > b.length - p
      · rw [if_pos h1] at hs ⊢
        exact ⟨pkt, forFuel_ret _ _ _ _ hs⟩
      · rw [if_neg h1] at hs ⊢
        by_cases ha : t = extAuthenticator
        · rw [if_pos ha] at hs ⊢
          obtain ⟨eh, N, C, hr, hU⟩ := hs
          rw [hU]
          refine ⟨_, _, by rw [forFuel_next _ _ _ _ hr, forFuel_brk _ _ _ _ (body_fa b _ _ _ _)], ?_⟩
          simp only [view, hpos]
          congr 1
          omega
        · rw [if_neg ha] at hs ⊢
          by_cases hu : t = extUniqueIdentifier
          · rw [if_pos hu] at hs ⊢
            obtain ⟨eh, X, hr, hX⟩ := hs
            have := ih (p + l) true { pkt with UniqueID := { extHdr := eh, ID := X } } (by omega) (by omega)
            rw [forFuel_next _ _ _ _ hr]
            have hv : view { pkt with UniqueID := { extHdr := eh, ID := X } } =
                { view pkt with uid := copyN (valueLen l) ((bytesN b).drop (p + 4)) } := by simp only [view, hX]
            rw [hv] at this; exact this
          · rw [if_neg hu] at hs ⊢
            by_cases hk : t = extCookie
            · rw [if_pos hk] at hs ⊢
              obtain ⟨eh, X, hr, hX⟩ := hs
              have := ih (p + l) fu { pkt with Cookies := pkt.Cookies ++ [{ extHdr := eh, Cookie := X }] } (by omega) (by omega)
              rw [forFuel_next _ _ _ _ hr]
              have hv : view { pkt with Cookies := pkt.Cookies ++ [{ extHdr := eh, Cookie := X }] } =
                  { view pkt with cookies := (view pkt).cookies ++ [copyN (valueLen l) ((bytesN b).drop (p + 4))] } := by
                simp only [view, hX, List.map_append, List.map_cons, List.map_nil]
              rw [hv] at this; exact this
            · rw [if_neg hk] at hs ⊢
              by_cases hph : t = extCookiePlaceholder
              · rw [if_pos hph] at hs ⊢
                obtain ⟨c, hr⟩ := hs
                have := ih (p + l) fu { pkt with CookiePlaceholders := pkt.CookiePlaceholders ++ [c] } (by omega) (by omega)
                rw [forFuel_next _ _ _ _ hr]
                have hv : view { pkt with CookiePlaceholders := pkt.CookiePlaceholders ++ [c] } =
                    { view pkt with nph := (view pkt).nph + 1 } := by
                  simp only [view, List.length_append, List.length_cons, List.length_nil, Nat.zero_add]
                rw [hv] at this; exact this
              · rw [if_neg hph] at hs ⊢
                have := ih (p + l) fu pkt (by omega) (by omega)
                rw [forFuel_next _ _ _ _ hs]
                exact this
    · rw [short_stop _ _ _ _ _ (by rw [List.length_drop, hBl]; omega)]
      exact ⟨pkt, Int64.ofNat p, forFuel_brk _ _ _ _ (body_short b p false false fu pkt hL (by omega) (by omega)), rfl⟩

/-! ### `DecodePacket` -/

/-- the model's `DecodePacket` when the packet struct passed in already holds fields (`d0`); for an
    empty struct this is `decodePacket` (`decodeFrom_empty`) -/
def decodeFrom (d0 : Decoded) (b : Bytes) : Res Decoded :=
  match decLoop true b.length (b.length + 1) (b.drop ntpPacketLen) false d0 with
  | .ok (fu, fa, d) => if !fu then .err .noUid else if !fa then .err .noAuth else .ok d
  | .err e => .err e | .panic p => .panic p | .hang => .hang

theorem decodeFrom_empty (b : Bytes) : decodeFrom {} b = decodePacket b := rfl

theorem ofNat48 : Int64.ofNat 48 = (48 : Int64) := by decide

/-- **`nts.DecodePacket`, for every buffer shorter than 2^62 bytes, every packet struct passed in and
    every budget above the length + 1**: the regenerated function returns `nil` exactly when the
    model decodes, and the packet then holds the model's fields; it returns an error exactly when
    the model does; it never panics and never runs out of budget. -/
theorem C10_leaf_DecodePacket (pkt0 : S_NtsPacket) (b : List UInt8) (fuel : Nat)
    (hL : b.length < 4611686018427387904) (hf : b.length + 1 < fuel) :
    match decodeFrom (view pkt0) (bytesN b) with
    | .ok d => ∃ pkt', nts_DecodePacket pkt0 b fuel = .ok (pkt', false) ∧ view pkt' = d
    | .err _ => ∃ pkt', nts_DecodePacket pkt0 b fuel = .ok (pkt', true)
    | .panic _ => False
    | .hang => False := by
  have hBl : (bytesN b).length = b.length := bytesN_length b
  obtain ⟨k, hk⟩ : ∃ k, fuel = (b.length + 1 + 1) + k := ⟨fuel - (b.length + 2), by omega⟩
  rw [dp_pieces]
  unfold decodeFrom ntpPacketLen
  rw [hBl]
  by_cases h48 : 48 ≤ b.length
  · have h := dp_loop b hL (b.length + 1) 48 false pkt0 h48 (by omega)
    rw [ofNat48] at h
    cases hm : decLoop true b.length (b.length + 1) ((bytesN b).drop 48) false (view pkt0) with
    | ok r =>
      obtain ⟨fu, fa, d⟩ := r
      rw [hm] at h
      obtain ⟨pkt', pos', hrun, hv⟩ := h
      rw [hk, forFuel_mono _ _ k _ _ hrun]
      cases fu <;> cases fa <;> simp [hv]
    | err e =>
      rw [hm] at h
      obtain ⟨pkt', hrun⟩ := h
      rw [hk, forFuel_mono _ _ k _ _ hrun]
      exact ⟨_, rfl⟩
    | panic m => rw [hm] at h; exact h
    | hang => rw [hm] at h; exact h
  · have hnil : (bytesN b).drop 48 = [] := List.drop_eq_nil_of_le (by rw [hBl]; omega)
    rw [hnil, short_stop _ _ _ _ _ (by simp)]
    have hb := body_short b 48 false false false pkt0 hL (by omega) (by omega)
    rw [ofNat48] at hb
    rw [hk, forFuel_mono _ _ k _ _ (forFuel_brk (b.length + 1) _ _ _ hb)]
    exact ⟨_, rfl⟩

/-- totality, as a statement about the regenerated code alone: for EVERY buffer (also with zero,
    short or overlong `Length` fields — the F2/F3 class) and every packet struct, `DecodePacket`
    returns within `len(b) + 2` iterations and does not panic. -/
theorem C10_leaf_DecodePacket_total (pkt0 : S_NtsPacket) (b : List UInt8) (fuel : Nat)
    (hL : b.length < 4611686018427387904) (hf : b.length + 1 < fuel) :
    ∃ pkt' e, nts_DecodePacket pkt0 b fuel = .ok (pkt', e) := by
  have h := C10_leaf_DecodePacket pkt0 b fuel hL hf
  cases hm : decodeFrom (view pkt0) (bytesN b) with
  | ok t => rw [hm] at h; obtain ⟨c', h1, _⟩ := h; exact ⟨c', false, h1⟩
  | err e => rw [hm] at h; obtain ⟨c', h1⟩ := h; exact ⟨c', true, h1⟩
  | panic p => rw [hm] at h; exact h.elim
  | hang => rw [hm] at h; exact h.elim

/-! ### corollaries about the regenerated code -/

/-- header of the field at position `p`, as numbers -/
def typeAt (b : List UInt8) (p : Nat) : Nat := u16 ((bytesN b).getD p 0) ((bytesN b).getD (p + 1) 0)
def lenAt (b : List UInt8) (p : Nat) : Nat := u16 ((bytesN b).getD (p + 2) 0) ((bytesN b).getD (p + 3) 0)

/-- **the walk stops at the authenticator**: with a well-formed authenticator header at the current
    position the loop of the regenerated `DecodePacket` ends there, for every buffer `b` (so whatever
    bytes follow the authenticator: further cookies, a second unique identifier, a second
    authenticator, garbage): the unique identifier, the cookies and the placeholders are exactly
    those collected before it, and `Auth.pos` is this position. -/
theorem C10_leaf_stops_at_authenticator (b : List UInt8) (p n : Nat) (fu : Bool) (pkt : S_NtsPacket)
    (hL : b.length < 4611686018427387904) (h28 : p + 28 ≤ b.length)
    (ht : typeAt b p = extAuthenticator) (hl : 4 ≤ lenAt b p ∧ lenAt b p ≤ b.length - p) :
    ∃ pkt' pos', Go.forFuel (n + 2) (false, false, fu, pkt, Int64.ofNat p) (dpBody b) =
        some (.inl (false, true, fu, pkt', pos')) ∧
      pkt'.UniqueID = pkt.UniqueID ∧ pkt'.Cookies = pkt.Cookies ∧
      pkt'.CookiePlaceholders = pkt.CookiePlaceholders ∧ pkt'.Auth.pos = Int64.ofNat p := by
  have hs := body_spec b p fu pkt hL h28
  unfold StepOK at hs
  unfold typeAt at ht
  unfold lenAt at hl
  rw [if_neg (by omega), if_pos ht] at hs
  obtain ⟨eh, N, C, hr, _⟩ := hs
  exact ⟨{ pkt with Auth := { extHdr := eh, Nonce := N, CipherText := C, Key := [], PlainText := [], pos := Int64.ofNat p } }, _,
    by rw [forFuel_next _ _ _ _ hr, forFuel_brk _ _ _ _ (body_fa b _ _ _ _)], rfl, rfl, rfl, rfl⟩

/-- from position `p` on: well-formed fields that are neither unique identifiers nor
    authenticators, then a well-formed authenticator header -/
inductive NoUidUntilAuth (b : List UInt8) : Nat → Prop where
  | auth (p : Nat) : p + 28 ≤ b.length → typeAt b p = extAuthenticator →
      4 ≤ lenAt b p ∧ lenAt b p ≤ b.length - p → NoUidUntilAuth b p
  | skip (p : Nat) : p + 28 ≤ b.length → typeAt b p ≠ extAuthenticator → typeAt b p ≠ extUniqueIdentifier →
      4 ≤ lenAt b p ∧ lenAt b p ≤ b.length - p → NoUidUntilAuth b (p + lenAt b p) → NoUidUntilAuth b p

theorem uid_kept (b : List UInt8) (hL : b.length < 4611686018427387904) (p : Nat) (h : NoUidUntilAuth b p) :
    ∀ (n : Nat) (fu : Bool) (pkt : S_NtsPacket), b.length - p < n →
      ∃ pkt' pos', Go.forFuel (n + 1) (false, false, fu, pkt, Int64.ofNat p) (dpBody b) =
          some (.inl (false, true, fu, pkt', pos')) ∧ pkt'.UniqueID = pkt.UniqueID := by
  induction h with
  | auth p h28 ht hl =>
    intro n fu pkt hn
    obtain ⟨k, hk⟩ : ∃ k, n = k + 1 := ⟨n - 1, by omega⟩
    obtain ⟨pkt', pos', hrun, hu, _⟩ := C10_leaf_stops_at_authenticator b p k fu pkt hL h28 ht hl
    exact ⟨pkt', pos', by rw [hk]; exact hrun, hu⟩
  | skip p h28 hta htu hl _ ih =>
    intro n fu pkt hn
    obtain ⟨k, hk⟩ : ∃ k, n = k + 1 := ⟨n - 1, by omega⟩
    have hs := body_spec b p fu pkt hL h28
    unfold StepOK at hs
    unfold typeAt at hta htu
    unfold lenAt at hl ih
    rw [if_neg (by omega), if_neg hta, if_neg htu] at hs
    subst hk
    split at hs
    · obtain ⟨eh, X, hr, _⟩ := hs
      obtain ⟨pkt', pos', hrun, hu⟩ := ih k fu { pkt with Cookies := pkt.Cookies ++ [{ extHdr := eh, Cookie := X }] } (by omega)
      exact ⟨pkt', pos', by rw [forFuel_next _ _ _ _ hr]; exact hrun, hu⟩
    · split at hs
      · obtain ⟨c, hr⟩ := hs
        obtain ⟨pkt', pos', hrun, hu⟩ := ih k fu { pkt with CookiePlaceholders := pkt.CookiePlaceholders ++ [c] } (by omega)
        exact ⟨pkt', pos', by rw [forFuel_next _ _ _ _ hr]; exact hrun, hu⟩
      · obtain ⟨pkt', pos', hrun, hu⟩ := ih k fu pkt (by omega)
        exact ⟨pkt', pos', by rw [forFuel_next _ _ _ _ hs]; exact hrun, hu⟩

/-- **the unique identifier in the result is the last UID field before the authenticator**: a
    well-formed UID field at `p`, then fields that are neither UID nor authenticator, then the
    authenticator: the loop of the regenerated `DecodePacket` ends with `foundUniqueID`,
    `foundAuthenticator` and `pkt.UniqueID.ID` = the value of THAT field (`Length - 4` bytes from
    `p + 4`, zero-padded at the end of the buffer) — whatever identifier was stored before. -/
theorem C10_leaf_uid_is_last_before_auth (b : List UInt8) (p n : Nat) (fu : Bool) (pkt : S_NtsPacket)
    (hL : b.length < 4611686018427387904) (h28 : p + 28 ≤ b.length)
    (ht : typeAt b p = extUniqueIdentifier) (hl : 4 ≤ lenAt b p ∧ lenAt b p ≤ b.length - p)
    (hrest : NoUidUntilAuth b (p + lenAt b p)) (hn : b.length - p < n) :
    ∃ pkt' pos', Go.forFuel (n + 1) (false, false, fu, pkt, Int64.ofNat p) (dpBody b) =
        some (.inl (false, true, true, pkt', pos')) ∧
      bytesN pkt'.UniqueID.ID = copyN (valueLen (lenAt b p)) ((bytesN b).drop (p + 4)) := by
  have hs := body_spec b p fu pkt hL h28
  unfold StepOK at hs
  have hne : ¬ (typeAt b p = extAuthenticator) := by rw [ht]; decide
  unfold typeAt at ht hne
  unfold lenAt at hl hrest ⊢
  rw [if_neg (by omega), if_neg hne, if_pos ht] at hs
  obtain ⟨eh, X, hr, hX⟩ := hs
  obtain ⟨k, hk⟩ : ∃ k, n = k + 1 := ⟨n - 1, by omega⟩
  subst hk
  obtain ⟨pkt', pos', hrun, hu⟩ := uid_kept b hL _ hrest k true
    { pkt with UniqueID := { extHdr := eh, ID := X } } (by omega)
  exact ⟨pkt', pos', by rw [forFuel_next _ _ _ _ hr]; exact hrun, by rw [hu]; exact hX⟩

/-! ### non-vacuity -/

def emptyPkt : S_NtsPacket :=
  { UniqueID := { extHdr := { Type' := 0, Length := 0 }, ID := [] }, Cookies := [], CookiePlaceholders := [],
    Auth := { extHdr := { Type' := 0, Length := 0 }, Nonce := [], CipherText := [], Key := [], PlainText := [], pos := 0 } }

/-- 48 header bytes, a UID field (32 x 7), a cookie field (4 x 5), an authenticator (nonce 16 x 9,
    ciphertext 16 x 9), and a second UID field BEHIND the authenticator (ignored) -/
def sample : List UInt8 :=
  List.replicate 48 0 ++ [1, 4, 0, 36] ++ List.replicate 32 7 ++ [2, 4, 0, 8, 5, 5, 5, 5] ++
    [4, 4, 0, 40, 0, 16, 0, 16] ++ List.replicate 32 9 ++ [1, 4, 0, 36] ++ List.replicate 32 8

example : (match nts_DecodePacket emptyPkt sample 200 with
    | .ok (p, e) => some (p.UniqueID.ID, p.Cookies.map (·.Cookie), p.Auth.pos, p.Auth.Nonce.length, e) | _ => none) =
    some (List.replicate 32 7, [[5, 5, 5, 5]], 92, 16, false) := by decide +kernel

/-- a field with `Length = 0` (the F2 input): an error, not a hang -/
example : (match nts_DecodePacket emptyPkt (List.replicate 48 0 ++ [9, 9, 0, 0] ++ List.replicate 24 0) 78 with
    | .ok (_, e) => some e | _ => none) = some true := by decide +kernel

example : NoUidUntilAuth sample 84 :=
  .skip 84 (by decide +kernel) (by decide +kernel) (by decide +kernel) (by decide +kernel)
    (.auth 92 (by decide +kernel) (by decide +kernel) (by decide +kernel))

end ScionTime.LeafTieC14NtsDec
