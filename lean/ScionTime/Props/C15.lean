import ScionTime.Model.Multipath
namespace ScionTime.C15
end ScionTime.C15
