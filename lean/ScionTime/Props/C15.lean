/-
  C15 — Multipath SCION measurement probes pairwise distinct paths, combined by FTM.
  Property theorems only; models: ScionTime/Model/Sample.lean (crypto.RandIntn/Sample),
  ScionTime/Model/Multipath.lean (MeasureClockOffsetSCION); helper lemmas in
  ScionTime/Proofs/{Sample,Multipath}.lean.
-/
import ScionTime.Proofs.Sample
import ScionTime.Proofs.Reservoir
import ScionTime.Proofs.Multipath
import ScionTime.Gen.Crypto
import ScionTime.Gen.Client
namespace ScionTime.C15
open ScionTime.Sample ScionTime.Multipath List

/-! ## Pins: the source shapes the models transcribe (regenerated from /repo on every run) -/

theorem C15_pin_threshold31 : Gen.Crypto.randInt31_threshold = "uint32(-n) % uint32(n)" := by decide
theorem C15_pin_threshold63 : Gen.Crypto.randInt63_threshold = "uint64(-n) % uint64(n)" := by decide
theorem C15_pin_accept : Gen.Crypto.randInt31_accept = "x > t" ∧ Gen.Crypto.randInt63_accept = "x > t" := by decide
theorem C15_pin_result : Gen.Crypto.randInt31_result = "int(x % uint32(n))" ∧
    Gen.Crypto.randInt63_result = "int(x % uint64(n))" := by decide
theorem C15_pin_wordBytes : Gen.Crypto.randInt31_wordBytes = 4 ∧ Gen.Crypto.randInt63_wordBytes = 8 := by decide
theorem C15_pin_dispatch : Gen.Crypto.RandIntn_conds = "[n <= 0 n <= math.MaxInt32]" := by decide
theorem C15_pin_sample : Gen.Crypto.Sample_loops = "for i := 0; i != k; i++ | for i := k; i != n; i++ | " ∧
    Gen.Crypto.Sample_draw = "RandIntn(ctx, i+1)" ∧ Gen.Crypto.Sample_pickCond = "j < k" ∧
    Gen.Crypto.Sample_pick = "pick(j, i)" := by decide
/-- the repaired sticky guard (F11), the arguments of crypto.Sample and the final FTM call -/
theorem C15_pin_round : Gen.Client.MeasureClockOffsetSCION_stickyGuard = "c.InInterleavedMode()" ∧
    Gen.Client.MeasureClockOffsetSCION_sampleArgs = "len(sps) - nsps, len(ps)" ∧
    Gen.Client.MeasureClockOffsetSCION_ftm = "measurements.FaultTolerantMidpoint(ms)" := by decide

/-! ## The assignment (first three loops of MeasureClockOffsetSCION)

`assign f11 cs offered cancelled stream = (.ok sps rest, reset)`: `sps[i]` is the path
(position in the offered list, fingerprint) client `i` probes, `reset[i]` whether the client and
its filter were reset. All statements are for every client state, every offered list
(duplicates, empty fingerprints), every random stream and both variants of the F11 guard. -/

/-- Participants ↦ positions of the offered list is injective, and every assigned path is
    the offered path at that position. -/
theorem C15_assignment_injective (f : Bool) (cs : List Client) (offered : List Fp) (c : Bool)
    (s : Stream) (sps : List (Option Path)) (rest : Stream) (reset : List Bool)
    (h : assign f cs offered c s = (.ok sps rest, reset)) :
    ((assignedOf sps).map Prod.fst).Nodup ∧
    ∀ p ∈ assignedOf sps, offered[p.1]? = some p.2 := by
  obtain ⟨_, ⟨r, hr⟩, _⟩ := assign_ok_spec f cs offered c s sps rest reset h
  constructor
  · have h1 := hr.map Prod.fst
    have h2 : (offeredPaths offered).map Prod.fst = List.range offered.length := by
      unfold offeredPaths; exact map_fst_zip (by simp)
    rw [h2, map_append] at h1
    have := (h1.nodup_iff).mpr nodup_range
    exact (nodup_append.mp this).1
  · intro p hp
    have hm : p ∈ offeredPaths offered := hr.subset (mem_append_left r hp)
    unfold offeredPaths at hm
    obtain ⟨i, hi, he⟩ := mem_iff_getElem.mp hm
    simp only [getElem_zip, getElem_range] at he
    simp only [length_zip, length_range, Nat.min_self] at hi
    rw [← he]; simp [hi]

/-- The same as a statement about client indices: two different clients never probe the
    same offered position. -/
theorem C15_distinct_clients_distinct_paths (f : Bool) (cs : List Client) (offered : List Fp)
    (c : Bool) (s : Stream) (sps : List (Option Path)) (rest : Stream) (reset : List Bool)
    (h : assign f cs offered c s = (.ok sps rest, reset))
    (i j : Nat) (p q : Path) (hi : sps[i]? = some (some p)) (hj : sps[j]? = some (some q))
    (hpos : p.1 = q.1) : i = j := by
  have hn := (C15_assignment_injective f cs offered c s sps rest reset h).1
  clear h
  unfold assignedOf at hn
  induction sps generalizing i j with
  | nil => simp at hi
  | cons a sps ih =>
    cases a with
    | none =>
      simp only [filterMap_cons, id_eq] at hn
      cases i with
      | zero => simp at hi
      | succ i =>
        cases j with
        | zero => simp at hj
        | succ j =>
          simp only [getElem?_cons_succ] at hi hj
          rw [ih i j hi hj hn]
    | some a =>
      simp only [filterMap_cons, id_eq, map_cons, nodup_cons] at hn
      have hmem : ∀ (k : Nat) (x : Path), sps[k]? = some (some x) → x.1 ∈ (filterMap id sps).map Prod.fst := by
        intro k x hk
        apply mem_map.mpr
        refine ⟨x, mem_filterMap.mpr ⟨some x, mem_of_getElem? hk, rfl⟩, rfl⟩
      cases i with
      | zero =>
        cases j with
        | zero => rfl
        | succ j =>
          simp only [getElem?_cons_zero, Option.some.injEq, getElem?_cons_succ] at hi hj
          subst hi
          exact absurd (hpos ▸ hmem j q hj) hn.1
      | succ i =>
        cases j with
        | zero =>
          simp only [getElem?_cons_zero, Option.some.injEq, getElem?_cons_succ] at hi hj
          subst hj
          exact absurd (hpos ▸ hmem i p hi) hn.1
        | succ j =>
          simp only [getElem?_cons_succ] at hi hj
          rw [ih i j hi hj hn.2]

/-- No more clients take part than there are paths, and as many as possible:
    participants = min(clients, paths); `sps` has one entry per client. -/
theorem C15_participants (f : Bool) (cs : List Client) (offered : List Fp) (c : Bool)
    (s : Stream) (sps : List (Option Path)) (rest : Stream) (reset : List Bool)
    (h : assign f cs offered c s = (.ok sps rest, reset)) :
    sps.length = cs.length ∧ countSome sps = min cs.length offered.length := by
  obtain ⟨h1, _, h3, _⟩ := assign_ok_spec f cs offered c s sps rest reset h
  exact ⟨h1, h3⟩

/-- Sticky assignment. When client `i`'s turn comes (candidates = offered paths not taken by
    earlier clients): if it wants its previous path (`wantsSticky`: in interleaved mode, and —
    code as found, `f = false` — its previous fingerprint is not "") and a candidate has that
    fingerprint, it probes the first such candidate and is not reset; otherwise it is reset
    (together with its filter). -/
theorem C15_sticky_kept (f : Bool) (cs : List Client) (offered : List Fp) (c : Bool)
    (s : Stream) (sps : List (Option Path)) (rest : Stream) (reset : List Bool)
    (h : assign f cs offered c s = (.ok sps rest, reset))
    (i : Nat) (cl : Client) (hcl : cs[i]? = some cl) :
    let cand := candidatesAt f cs (offeredPaths offered) i
    (wantsSticky f cl = true ∧ (∃ p ∈ cand, p.2 = cl.ipath) →
      ∃ j, ∃ hj : j < cand.length, sps[i]? = some (some cand[j]) ∧ cand[j].2 = cl.ipath ∧
        (∀ j' (hj' : j' < j), cand[j'].2 ≠ cl.ipath) ∧ reset[i]? = some false) ∧
    (¬ (wantsSticky f cl = true ∧ (∃ p ∈ cand, p.2 = cl.ipath)) → reset[i]? = some true) := by
  intro cand
  obtain ⟨_, _, _, _, hreset, hkeep⟩ := assign_ok_spec f cs offered c s sps rest reset h
  have hget := stickyLoop_get f cs (offeredPaths offered) i
  rw [hcl, Option.map_some] at hget
  have hres : reset[i]? = some ((stickyStep f cl cand).1.isNone) := by
    rw [hreset, getElem?_map, hget]; rfl
  rcases stickyStep_cases f cl cand with ⟨h1, _⟩ | ⟨j, hj, hw, hfind, h1, _⟩
  · -- nothing taken: either the client does not want a path or no candidate matches
    have hno : ¬ (wantsSticky f cl = true ∧ (∃ p ∈ cand, p.2 = cl.ipath)) := by
      rintro ⟨hw, p, hp, hfp⟩
      unfold stickyStep at h1
      simp only [hw, ↓reduceIte] at h1
      split at h1
      · split at h1 <;> simp at h1
        rename_i j hj' _ hnone
        have := (findIdx?_eq_some_iff_getElem.mp hj').1
        simp [getElem?_eq_getElem this] at hnone
      · rename_i hnone
        rw [findIdx?_eq_none_iff] at hnone
        have := hnone p hp
        simp [hfp] at this
    refine ⟨fun hyes => absurd hyes hno, fun _ => ?_⟩
    rw [hres, h1]; rfl
  · obtain ⟨_, hpj, hfirst⟩ := findIdx?_eq_some_iff_getElem.mp hfind
    have hfp : cand[j].2 = cl.ipath := by simpa using hpj
    constructor
    · intro _
      refine ⟨j, hj, ?_, hfp, ?_, ?_⟩
      · apply hkeep; rw [hget, h1]
      · intro j' hj'; simpa using hfirst j' hj'
      · rw [hres, h1]; rfl
    · intro hno
      exact absurd ⟨hw, cand[j], getElem_mem hj, hfp⟩ hno

/-- `errNoPath`: a round that assigns paths needs at least one client and one path … -/
theorem C15_ok_needs_client_and_path (f : Bool) (cs : List Client) (offered : List Fp) (c : Bool)
    (s : Stream) (sps : List (Option Path)) (rest : Stream) (reset : List Bool)
    (h : assign f cs offered c s = (.ok sps rest, reset)) :
    cs ≠ [] ∧ offered ≠ [] := by
  obtain ⟨_, _, h3, h4, _⟩ := assign_ok_spec f cs offered c s sps rest reset h
  constructor
  · rintro rfl
    have : countSome sps = 0 := by simpa using h3
    omega
  · rintro rfl
    have : countSome sps = 0 := by simpa using h3
    omega

/-- … and with no path offered the round reports `errNoPath` (no random draw is made), for
    any clients — all of which are reset. -/
theorem C15_no_path_error (ftm : List Int → Int) (f11 f12 : Bool) (cs : List Client) (c : Bool)
    (s : Stream) (succ : List (Option Int)) :
    (round ftm f11 f12 cs [] c s succ).res = .errNoPath ∧
    (round ftm f11 f12 cs [] c s succ).reset = cs.map fun _ => true := by
  have hs : ∀ K : Nat, sample (K : Int) ((0 : Nat) : Int) c s = .ok (0, [], s) := by
    intro K
    unfold sample
    have h1 : ¬ ((K : Int) < 0) := by omega
    simp [h1, sampleLoop, sampleLoopWith]
  have hcs : ∀ cs : List Client, countSome (cs.map fun _ => (none : Option Path)) = 0 := by
    intro cs; induction cs <;> simp_all [countSome]
  have ha : assign f11 cs [] c s = (.errNoPath s, cs.map fun _ => true) := by
    unfold assign offeredPaths
    simp only [length_nil, range_zero, zip_nil_right, stickyLoop_nil]
    unfold assignFrom
    simp only [length_map, hcs, length_nil]
    have := hs cs.length
    simp only [Int.natCast_zero, Int.sub_zero] at this ⊢
    rw [this]
    simp
  unfold round
  rw [ha]
  exact ⟨rfl, rfl⟩

/-- With no client there is never a successful round either. -/
theorem C15_no_client_error (ftm : List Int → Int) (f11 f12 : Bool) (offered : List Fp) (c : Bool)
    (s : Stream) (succ : List (Option Int)) (off : Int) :
    (round ftm f11 f12 [] offered c s succ).res ≠ .ok off := by
  intro h
  unfold round at h
  split at h <;> try (simp at h)
  rename_i sps rest reset ha
  exact (C15_ok_needs_client_and_path f11 [] offered c s sps rest reset ha).1 rfl

/-- The reported offset is the fault-tolerant midpoint over exactly one value per
    participating client (the filter output of a successful exchange, the zero measurement of
    a failed one — that is what the code does), at least one of them from a successful
    exchange (repaired code, F12); the number of values is min(clients, paths). `ftm` is
    measurements.FaultTolerantMidpoint (C02's subject), a parameter here; if it is invariant
    under permutations (it sorts) the completion order of the per-path goroutines, i.e. the
    order in which collectMeasurements stores the values, does not matter. -/
theorem C15_result_is_ftm (ftm : List Int → Int) (f11 : Bool) (cs : List Client) (offered : List Fp)
    (s : Stream) (succ : List (Option Int)) (off : Int) (hsucc : succ.length = cs.length)
    (h : (round ftm f11 true cs offered false s succ).res = .ok off) :
    ∃ sps rest reset, assign f11 cs offered false s = (.ok sps rest, reset) ∧
      off = ftm (values sps succ) ∧
      (values sps succ).length = min cs.length offered.length ∧
      0 < successes sps succ ∧
      (∀ order : List Int, (∀ l l' : List Int, l.Perm l' → ftm l = ftm l') →
        order.Perm (values sps succ) → off = ftm order) := by
  unfold round at h
  split at h <;> try (simp at h)
  rename_i sps rest reset ha
  refine ⟨sps, rest, reset, ha, ?_⟩
  obtain ⟨hl, hc⟩ := C15_participants f11 cs offered false s sps rest reset ha
  split at h
  · simp at h
  · rename_i hne
    simp only [RoundRes.ok.injEq] at h
    refine ⟨h.symm, ?_, ?_, ?_⟩
    · rw [values_length sps succ (by omega), hc]
    · omega
    · intro order hperm ho
      rw [← h]; exact (hperm _ _ ho).symm

/-- F12, code as found (`f12fixed = false`): with one client, one path and a failing
    exchange the round reports success with the midpoint of the zero-initialised slice —
    `(time.Time{}, 0, nil)` for the real FTM — whatever `ftm` is. The repaired code reports
    `errNoMeasurement`. Failing input of the check:
    `mp.round cs=[100-] ps=[f0] s=a7ec204cc759cd2657c241d966a8aea8 succ=[x]`. -/
theorem C15_F12_old_counterexample (ftm : List Int → Int) :
    (round ftm false false [⟨true, false, false, ""⟩] ["f0"] false [] [none]).res = .ok (ftm [0]) ∧
    (round ftm false true [⟨true, false, false, ""⟩] ["f0"] false [] [none]).res = .errNoMeasurement := by
  constructor <;> rfl

/-- F11, code as found (`f11fixed = false`): an interleaved client whose previous path has the
    empty fingerprint (the intra-AS path) is reset although that path is offered; the repaired
    guard keeps it. Failing input of the check: `mp.round cs=[111-] ps=[-] s=… succ=[7]`. -/
theorem C15_F11_old_counterexample :
    (assign false [⟨true, true, true, ""⟩] [""] false []).2 = [true] ∧
    (assign true [⟨true, true, true, ""⟩] [""] false []).2 = [false] := by
  constructor <;> decide

/-! ## Rejection-sampled integers (crypto.randInt31 / randInt63 / RandIntn) -/

/-- every stream element is a byte -/
def Bytes (s : Stream) : Prop := ∀ b ∈ s, b < 256

/-- randInt31 returns `x % n` for a 32-bit word `x` of the stream that passed the test
    `x > t`, `t = uint32(-n) % uint32(n) = 2^32 mod n`; in particular the result is `< n`. -/
theorem C15_randInt31_accepted (n : Nat) (c : Bool) (s : Stream) (v : Nat) (rest : Stream)
    (hn : 2 ≤ n) (hb : Bytes s) (h : randInt31 n c s = .ok (v, rest)) :
    ∃ x, two32 % n < x ∧ x < two32 ∧ v = x % n ∧ v < n := by
  unfold randInt31 at h
  have h2 : ¬ n < 2 := by omega
  simp only [h2, ↓reduceIte] at h
  split at h
  · simp at h
  · rename_i hmax
    have ht : thr31 n = two32 % n := thr_eq two32 n (by unfold two32 maxInt32 at *; omega)
    rw [ht] at h
    clear ht hmax
    induction s using draw31.induct (two32 % n) c with
    | case1 b0 b1 b2 b3 rest' x hx =>
      have hx' : two32 % n < le32 b0 b1 b2 b3 := hx
      simp only [draw31, gt_iff_lt, hx', ↓reduceIte, Res.ok.injEq, Prod.mk.injEq] at h
      refine ⟨le32 b0 b1 b2 b3, hx', ?_, h.1.symm, ?_⟩
      · have h0 := hb b0 (by simp); have h1 := hb b1 (by simp)
        have h2 := hb b2 (by simp); have h3 := hb b3 (by simp)
        unfold le32 two32; omega
      · rw [← h.1]; exact Nat.mod_lt _ (by omega)
    | case2 b0 b1 b2 b3 rest' x hx hc =>
      have hx' : ¬ two32 % n < le32 b0 b1 b2 b3 := hx
      simp [draw31, hx', hc] at h
    | case3 b0 b1 b2 b3 rest' x hx hc ih =>
      have hx' : ¬ two32 % n < le32 b0 b1 b2 b3 := hx
      have hc' : c = false := by simpa using hc
      subst hc'
      simp only [draw31, gt_iff_lt, hx', ↓reduceIte] at h
      exact ih (fun b hb' => hb b (by simp [hb'])) (by simpa using h)
    | case4 s' hs =>
      unfold draw31 at h
      split at h
      · exact absurd rfl (hs _ _ _ _ _)
      · simp at h

/-- the same for randInt63 and 64-bit words (`n` beyond `math.MaxInt32`, up to `2^63 - 1`) -/
theorem C15_randInt63_accepted (n : Nat) (c : Bool) (s : Stream) (v : Nat) (rest : Stream)
    (hn : 2 ≤ n) (hn' : n ≤ two64) (hb : Bytes s) (h : randInt63 n c s = .ok (v, rest)) :
    ∃ x, two64 % n < x ∧ x < two64 ∧ v = x % n ∧ v < n := by
  unfold randInt63 at h
  have h2 : ¬ n < 2 := by omega
  simp only [h2, ↓reduceIte] at h
  have ht : thr63 n = two64 % n := thr_eq two64 n hn'
  rw [ht] at h
  clear ht
  induction s using draw63.induct (two64 % n) c with
  | case1 b0 b1 b2 b3 b4 b5 b6 b7 rest' x hx =>
    have hx' : two64 % n < le64 b0 b1 b2 b3 b4 b5 b6 b7 := hx
    simp only [draw63, gt_iff_lt, hx', ↓reduceIte, Res.ok.injEq, Prod.mk.injEq] at h
    refine ⟨le64 b0 b1 b2 b3 b4 b5 b6 b7, hx', ?_, h.1.symm, ?_⟩
    · have h0 := hb b0 (by simp); have h1 := hb b1 (by simp)
      have h2 := hb b2 (by simp); have h3 := hb b3 (by simp)
      have h4 := hb b4 (by simp); have h5 := hb b5 (by simp)
      have h6 := hb b6 (by simp); have h7 := hb b7 (by simp)
      unfold le64 le32 two64 two32; omega
    · rw [← h.1]; exact Nat.mod_lt _ (by omega)
  | case2 b0 b1 b2 b3 b4 b5 b6 b7 rest' x hx hc =>
    have hx' : ¬ two64 % n < le64 b0 b1 b2 b3 b4 b5 b6 b7 := hx
    simp [draw63, hx', hc] at h
  | case3 b0 b1 b2 b3 b4 b5 b6 b7 rest' x hx hc ih =>
    have hx' : ¬ two64 % n < le64 b0 b1 b2 b3 b4 b5 b6 b7 := hx
    have hc' : c = false := by simpa using hc
    subst hc'
    simp only [draw63, gt_iff_lt, hx', ↓reduceIte] at h
    exact ih (fun b hb' => hb b (by simp [hb'])) (by simpa using h)
  | case4 s' hs =>
    unfold draw63 at h
    split at h
    · exact absurd rfl (hs _ _ _ _ _ _ _ _ _)
    · simp at h

/-- number of accepted words with residue `r`, as the length of the interval of quotients `j`
    (see `C15_randInt_near_uniform`) -/
def residueCount (W n r : Nat) : Nat :=
  (if r < W % n then W / n + 1 else W / n) - (if W % n < r then 0 else 1)

/-- Near-uniformity of the rejection step, for word size `W` (2^32 or 2^64) and the threshold
    exactly as coded (`t = (W - n) % n`, accept iff `x > t`): the accepted words are the
    interval `(t, W)`, and those with residue `r` are exactly `n*j + r` for `j` in an interval
    of `residueCount W n r` consecutive quotients (`j ↦ n*j + r` is injective), … -/
theorem C15_randInt_near_uniform (W n r x : Nat) (hn : 0 < n) (hnW : n ≤ W) (hr : r < n) :
    ((W - n) % n < x ∧ x < W ∧ x % n = r) ↔
    ∃ j, x = n * j + r ∧ (if W % n < r then 0 else 1) ≤ j ∧
      j < (if W % n < r then 0 else 1) + residueCount W n r := by
  rw [thr_eq W n hnW, residue_char W n r x hn hr]
  have hq : 1 ≤ W / n := (Nat.le_div_iff_mul_le hn).mpr (by omega)
  have : (if W % n < r then 0 else 1) + residueCount W n r = (if r < W % n then W / n + 1 else W / n) := by
    unfold residueCount; split <;> split <;> omega
  rw [this]

/-- … and these counts differ by at most one between any two residues (each is `W/n` or
    `W/n - 1`; the single short class is `r = W mod n`, because the code rejects `x = t` too):
    a bias of at most one word in `2^32 - n < accepted ≤ 2^32`, the "2^-31 granularity". -/
theorem C15_randInt_counts (W n r r' : Nat) (hn : 0 < n) (hnW : n ≤ W) :
    residueCount W n r ≤ residueCount W n r' + 1 ∧
    W / n - 1 ≤ residueCount W n r ∧ residueCount W n r ≤ W / n ∧
    (residueCount W n r = W / n - 1 ↔ r = W % n) := by
  have hq : 1 ≤ W / n := (Nat.le_div_iff_mul_le hn).mpr (by omega)
  unfold residueCount
  refine ⟨?_, ?_, ?_, ?_⟩ <;> (repeat' split) <;> omega

/-- instances for the two word sizes of the code, `n` in the range of each function -/
example (n r x : Nat) (hn : 2 ≤ n) (hn' : n ≤ maxInt32) (hr : r < n) :
    (thr31 n < x ∧ x < two32 ∧ x % n = r) ↔
    ∃ j, x = n * j + r ∧ (if two32 % n < r then 0 else 1) ≤ j ∧
      j < (if two32 % n < r then 0 else 1) + residueCount two32 n r :=
  C15_randInt_near_uniform two32 n r x (by omega) (by unfold two32 maxInt32 at *; omega) hr

example : residueCount two32 3 0 = 1431655765 ∧ residueCount two32 3 1 = 1431655764 ∧
    residueCount two32 3 2 = 1431655765 := by decide

/-- RandIntn dispatches on `math.MaxInt32` and panics for `n ≤ 0` -/
theorem C15_randIntn_dispatch (n : Int) (c : Bool) (s : Stream) :
    (n ≤ 0 → ∃ m, randIntn n c s = .panic m) ∧
    (0 < n → n ≤ 2147483647 → randIntn n c s = randInt31 n.toNat c s) ∧
    (2147483647 < n → randIntn n c s = randInt63 n.toNat c s) := by
  unfold randIntn maxInt32
  refine ⟨fun h => ⟨"invalid argument: n must be greater than 0", by simp [h]⟩, fun h1 h2 => ?_, fun h => ?_⟩
  · have : ¬ n ≤ 0 := by omega
    simp [this, h2]
  · have h1 : ¬ n ≤ 0 := by omega
    have h2 : ¬ n ≤ ((2147483647 : Nat) : Int) := by omega
    simp only [h1, h2, ↓reduceIte]

/-! ## Reservoir sampling (crypto.Sample), counting form over ideal uniform draws

`allDraws k m` lists every vector of draws `(j_k, …, j_{k+m-1})` with `j_i ∈ [0, i]` — the
equally likely outcomes of ideal `RandIntn(i+1)` calls — and `reservoir k js` is the content of
`ps[0..k)` (as positions of the original list) after crypto.Sample's loop made those draws. -/

/-- crypto.Sample is Algorithm R: whatever the stream, a successful `Sample(k, n, pick)` with
    `pick = (ps[dst] = ps[src])` applied to the list `[0, n)` leaves in `ps[0..k')`,
    `k' = min k n`, the reservoir of one of the draw vectors of `allDraws` (the `j`s are the
    values RandIntn returned). -/
theorem C15_sample_is_reservoir (k n : Nat) (c : Bool) (s : Stream) (k' : Nat)
    (picks : List (Nat × Nat)) (rest : Stream)
    (h : sample (k : Int) (n : Int) c s = .ok (k', picks, rest)) :
    k' = min k n ∧ ∃ js ∈ allDraws k' (n - k'),
      (applyPicks (List.range n) picks).take k' = reservoir k' js := by
  unfold sample at h
  have h1 : ¬ ((k : Int) < 0) := by omega
  have h2 : ¬ ((n : Int) < 0) := by omega
  simp only [h1, h2, ↓reduceIte, Int.toNat_natCast] at h
  split at h
  · rename_i pk s' hloop
    simp only [Res.ok.injEq, Prod.mk.injEq] at h
    obtain ⟨hk, hp, _⟩ := h
    have hk' : k' = min k n := by rw [← hk]; split <;> omega
    refine ⟨hk', ?_⟩
    rw [hk] at hloop
    unfold sampleLoop at hloop
    obtain ⟨js, hjl, hjb, heq⟩ := sampleLoop_reservoir randIntn randIntn_lt n k' c (n - k') k' s
      (List.range n) pk s' hloop (Nat.le_refl _) (by omega) (by simp) rfl
    refine ⟨js, mem_allDraws k' (n - k') js hjl hjb, ?_⟩
    rw [← hp, applyPicks_append, hk, applyPicks_id, heq, take_range]
    have : min k' n = k' := by omega
    rw [this]; rfl
  · simp at h
  · simp at h

/-- In the round: the paths handed to the clients without a sticky path are the candidates at
    the positions of a reservoir — `fill` receives `candidates[r]` for `r` running over
    `reservoir n' js`, `n' = min(#clients without path, #candidates)`, `js` the values RandIntn
    returned (a vector of `allDraws`). Together with `C15_reservoir_uniform`: over ideal
    uniform draws every `n'`-subset of the remaining candidates is equally likely. -/
theorem C15_fill_is_reservoir (st : List (Option Path) × List Path) (c : Bool) (s : Stream)
    (sps : List (Option Path)) (rest : Stream) (reset : List Bool)
    (h : assignFrom st c s = (.ok sps rest, reset)) :
    ∃ n' js, n' = min (countNone st.1) st.2.length ∧ js ∈ allDraws n' (st.2.length - n') ∧
      sps = fill st.1 ((reservoir n' js).map fun r => st.2.getD r default) := by
  unfold assignFrom at h
  simp only at h
  have hcn := countSome_add_countNone st.1
  have hk : ((st.1.length : Int) - (countSome st.1 : Nat)) = ((countNone st.1 : Nat) : Int) := by omega
  rw [hk] at h
  split at h
  · simp at h
  · simp at h
  · rename_i n picks rest' hs
    obtain ⟨hn, js, hjs, hres⟩ := C15_sample_is_reservoir (countNone st.1) st.2.length c s n picks rest' hs
    split at h
    · simp at h
    · simp only [Prod.mk.injEq, AssignRes.ok.injEq] at h
      refine ⟨n, js, hn, hjs, ?_⟩
      rw [← h.1.1, ← hres, map_take]
      congr 2
      have := eq_map_range_getD st.2 (default : Path)
      conv => lhs; rw [this]
      rw [applyPicks_map]

/-- there are `(k+1)(k+2)…(k+m)` draw vectors -/
theorem C15_allDraws_length (k m : Nat) :
    (allDraws k (m + 1)).length = (allDraws k m).length * (k + m + 1) := by
  rw [← outcomes_length, ← outcomes_length]; exact outcomes_length_succ k m

/-- the reservoir always holds `k` distinct items out of those seen so far -/
theorem C15_reservoir_distinct (k m : Nat) (js : List Nat) (h : js ∈ allDraws k m) :
    (reservoir k js).length = k ∧ (reservoir k js).Nodup ∧ ∀ y ∈ reservoir k js, y < k + m :=
  outcomes_inv k m (reservoir k js) (mem_map.mpr ⟨js, h, rfl⟩)

/-- Per-step identities (the induction step of Algorithm R): for a reservoir of `k` distinct
    items `< n`, among the `n+1` equally likely draws for item `n` the new item enters in
    exactly `k` of them and every present item survives in exactly `n` of them. -/
theorem C15_reservoir_step (k n : Nat) (res : List Nat) (hl : res.length = k) (hn : res.Nodup)
    (hb : ∀ y ∈ res, y < n) (hk : k ≤ n + 1) :
    countP (fun j => decide (n ∈ stepRes res j n)) (List.range (n + 1)) = k ∧
    ∀ x ∈ res, countP (fun j => decide (x ∈ stepRes res j n)) (List.range (n + 1)) = n :=
  ⟨step_count_new k n res ⟨hl, hn, hb⟩ hk, fun x hx => step_count_old k n x res ⟨hl, hn, hb⟩ hk hx⟩

/-- Uniformity of the reservoir, counting form over ideal uniform draws (induction on the
    number of items): every `k`-subset `S` of the `n = k + m` offered items (given as a
    duplicate-free list; the reservoir is compared up to permutation, i.e. as a set) is produced
    by the same number of draw vectors, `m! = (n-k)!` — out of `(k+1)(k+2)…n` draw vectors
    (`C15_allDraws_length`), i.e. with probability `1 / C(n,k)` each. -/
theorem C15_reservoir_uniform (k m : Nat) (S : List Nat) (hn : S.Nodup) (hl : S.length = k)
    (hb : ∀ y ∈ S, y < k + m) :
    countP (fun js => decide (reservoir k js ~ S)) (allDraws k m) = fact m := by
  have h := joint_uniform k m S hn hl hb
  unfold outcomes at h
  rw [countP_map] at h
  exact h

/-- the hypotheses are met by every `k`-subset, e.g. `{1, 3}` of `[0, 4)`: 2 of the 12 draw
    vectors each -/
example : countP (fun js => decide (reservoir 2 js ~ [3, 1])) (allDraws 2 2) = fact 2 :=
  C15_reservoir_uniform 2 2 [3, 1] (by decide) rfl (by decide)

/-- Marginal form: every item `x < n` is selected in exactly the fraction `k/n` of the draw
    vectors:  #{draws : x ∈ reservoir} · n = k · #{draws}. -/
theorem C15_reservoir_inclusion (k m x : Nat) (hx : x < k + m) :
    countP (fun js => decide (x ∈ reservoir k js)) (allDraws k m) * (k + m) =
      k * (allDraws k m).length := by
  have h := inclusion_count k m x hx
  unfold outcomes at h
  rw [countP_map, length_map] at h
  exact h

/-- a concrete instance: 2 out of 4, item 3 is selected by 6 of the 12 draw vectors -/
example : countP (fun js => decide (3 ∈ reservoir 2 js)) (allDraws 2 2) = 6 ∧
    (allDraws 2 2).length = 12 := by decide

end ScionTime.C15
