/-
  C15 — Multipath SCION measurement probes pairwise distinct paths, combined by FTM.
  Property theorems only; models: ScionTime/Model/Sample.lean (crypto.RandIntn/Sample),
  ScionTime/Model/Multipath.lean (MeasureClockOffsetSCION); helper lemmas in
  ScionTime/Proofs/{Sample,Multipath}.lean.
-/
import ScionTime.Proofs.Sample
import ScionTime.Proofs.Multipath
namespace ScionTime.C15
open ScionTime.Sample ScionTime.Multipath List

/-! ## The assignment (first three loops of MeasureClockOffsetSCION)

`assign f11 cs offered cancelled stream = (.ok sps rest, reset)`: `sps[i]` is the path
(position in the offered list, fingerprint) client `i` probes, `reset[i]` whether the client and
its filter were reset. All statements are for every client state, every offered list
(duplicates, empty fingerprints), every random stream and both variants of the F11 guard. -/

/-- Participants ↦ positions of the offered list is injective, and every assigned path is
    the offered path at that position. -/
theorem C15_assignment_injective (f : Bool) (cs : List Client) (offered : List Fp) (c : Bool)
    (s : Stream) (sps : List (Option Path)) (rest : Stream) (reset : List Bool)
    (h : assign f cs offered c s = (.ok sps rest, reset)) :
    ((assignedOf sps).map Prod.fst).Nodup ∧
    ∀ p ∈ assignedOf sps, offered[p.1]? = some p.2 := by
  obtain ⟨_, ⟨r, hr⟩, _⟩ := assign_ok_spec f cs offered c s sps rest reset h
  constructor
  · have h1 := hr.map Prod.fst
    have h2 : (offeredPaths offered).map Prod.fst = List.range offered.length := by
      unfold offeredPaths; exact map_fst_zip (by simp)
    rw [h2, map_append] at h1
    have := (h1.nodup_iff).mpr nodup_range
    exact (nodup_append.mp this).1
  · intro p hp
    have hm : p ∈ offeredPaths offered := hr.subset (mem_append_left r hp)
    unfold offeredPaths at hm
    obtain ⟨i, hi, he⟩ := mem_iff_getElem.mp hm
    simp only [getElem_zip, getElem_range] at he
    simp only [length_zip, length_range, Nat.min_self] at hi
    rw [← he]; simp [hi]

/-- The same as a statement about client indices: two different clients never probe the
    same offered position. -/
theorem C15_distinct_clients_distinct_paths (f : Bool) (cs : List Client) (offered : List Fp)
    (c : Bool) (s : Stream) (sps : List (Option Path)) (rest : Stream) (reset : List Bool)
    (h : assign f cs offered c s = (.ok sps rest, reset))
    (i j : Nat) (p q : Path) (hi : sps[i]? = some (some p)) (hj : sps[j]? = some (some q))
    (hpos : p.1 = q.1) : i = j := by
  have hn := (C15_assignment_injective f cs offered c s sps rest reset h).1
  clear h
  unfold assignedOf at hn
  induction sps generalizing i j with
  | nil => simp at hi
  | cons a sps ih =>
    cases a with
    | none =>
      simp only [filterMap_cons, id_eq] at hn
      cases i with
      | zero => simp at hi
      | succ i =>
        cases j with
        | zero => simp at hj
        | succ j =>
          simp only [getElem?_cons_succ] at hi hj
          rw [ih i j hi hj hn]
    | some a =>
      simp only [filterMap_cons, id_eq, map_cons, nodup_cons] at hn
      have hmem : ∀ (k : Nat) (x : Path), sps[k]? = some (some x) → x.1 ∈ (filterMap id sps).map Prod.fst := by
        intro k x hk
        apply mem_map.mpr
        refine ⟨x, mem_filterMap.mpr ⟨some x, mem_of_getElem? hk, rfl⟩, rfl⟩
      cases i with
      | zero =>
        cases j with
        | zero => rfl
        | succ j =>
          simp only [getElem?_cons_zero, Option.some.injEq, getElem?_cons_succ] at hi hj
          subst hi
          exact absurd (hpos ▸ hmem j q hj) hn.1
      | succ i =>
        cases j with
        | zero =>
          simp only [getElem?_cons_zero, Option.some.injEq, getElem?_cons_succ] at hi hj
          subst hj
          exact absurd (hpos ▸ hmem i p hi) hn.1
        | succ j =>
          simp only [getElem?_cons_succ] at hi hj
          rw [ih i j hi hj hn.2]

/-- No more clients take part than there are paths, and as many as possible:
    participants = min(clients, paths); `sps` has one entry per client. -/
theorem C15_participants (f : Bool) (cs : List Client) (offered : List Fp) (c : Bool)
    (s : Stream) (sps : List (Option Path)) (rest : Stream) (reset : List Bool)
    (h : assign f cs offered c s = (.ok sps rest, reset)) :
    sps.length = cs.length ∧ countSome sps = min cs.length offered.length := by
  obtain ⟨h1, _, h3, _⟩ := assign_ok_spec f cs offered c s sps rest reset h
  exact ⟨h1, h3⟩

/-- Sticky assignment. When client `i`'s turn comes (candidates = offered paths not taken by
    earlier clients): if it wants its previous path (`wantsSticky`: in interleaved mode, and —
    code as found, `f = false` — its previous fingerprint is not "") and a candidate has that
    fingerprint, it probes the first such candidate and is not reset; otherwise it is reset
    (together with its filter). -/
theorem C15_sticky_kept (f : Bool) (cs : List Client) (offered : List Fp) (c : Bool)
    (s : Stream) (sps : List (Option Path)) (rest : Stream) (reset : List Bool)
    (h : assign f cs offered c s = (.ok sps rest, reset))
    (i : Nat) (cl : Client) (hcl : cs[i]? = some cl) :
    let cand := candidatesAt f cs (offeredPaths offered) i
    (wantsSticky f cl = true ∧ (∃ p ∈ cand, p.2 = cl.ipath) →
      ∃ j, ∃ hj : j < cand.length, sps[i]? = some (some cand[j]) ∧ cand[j].2 = cl.ipath ∧
        (∀ j' (hj' : j' < j), cand[j'].2 ≠ cl.ipath) ∧ reset[i]? = some false) ∧
    (¬ (wantsSticky f cl = true ∧ (∃ p ∈ cand, p.2 = cl.ipath)) → reset[i]? = some true) := by
  intro cand
  obtain ⟨_, _, _, _, hreset, hkeep⟩ := assign_ok_spec f cs offered c s sps rest reset h
  have hget := stickyLoop_get f cs (offeredPaths offered) i
  rw [hcl, Option.map_some] at hget
  have hres : reset[i]? = some ((stickyStep f cl cand).1.isNone) := by
    rw [hreset, getElem?_map, hget]; rfl
  rcases stickyStep_cases f cl cand with ⟨h1, _⟩ | ⟨j, hj, hw, hfind, h1, _⟩
  · -- nothing taken: either the client does not want a path or no candidate matches
    have hno : ¬ (wantsSticky f cl = true ∧ (∃ p ∈ cand, p.2 = cl.ipath)) := by
      rintro ⟨hw, p, hp, hfp⟩
      unfold stickyStep at h1
      simp only [hw, ↓reduceIte] at h1
      split at h1
      · split at h1 <;> simp at h1
        rename_i j hj' _ hnone
        have := (findIdx?_eq_some_iff_getElem.mp hj').1
        simp [getElem?_eq_getElem this] at hnone
      · rename_i hnone
        rw [findIdx?_eq_none_iff] at hnone
        have := hnone p hp
        simp [hfp] at this
    refine ⟨fun hyes => absurd hyes hno, fun _ => ?_⟩
    rw [hres, h1]; rfl
  · obtain ⟨_, hpj, hfirst⟩ := findIdx?_eq_some_iff_getElem.mp hfind
    have hfp : cand[j].2 = cl.ipath := by simpa using hpj
    constructor
    · intro _
      refine ⟨j, hj, ?_, hfp, ?_, ?_⟩
      · apply hkeep; rw [hget, h1]
      · intro j' hj'; simpa using hfirst j' hj'
      · rw [hres, h1]; rfl
    · intro hno
      exact absurd ⟨hw, cand[j], getElem_mem hj, hfp⟩ hno

/-- `errNoPath`: a round that assigns paths needs at least one client and one path … -/
theorem C15_ok_needs_client_and_path (f : Bool) (cs : List Client) (offered : List Fp) (c : Bool)
    (s : Stream) (sps : List (Option Path)) (rest : Stream) (reset : List Bool)
    (h : assign f cs offered c s = (.ok sps rest, reset)) :
    cs ≠ [] ∧ offered ≠ [] := by
  obtain ⟨_, _, h3, h4, _⟩ := assign_ok_spec f cs offered c s sps rest reset h
  constructor
  · rintro rfl
    have : countSome sps = 0 := by simpa using h3
    omega
  · rintro rfl
    have : countSome sps = 0 := by simpa using h3
    omega

/-- … and with no path offered the round reports `errNoPath` (no random draw is made), for
    any clients — all of which are reset. -/
theorem C15_no_path_error (ftm : List Int → Int) (f11 f12 : Bool) (cs : List Client) (c : Bool)
    (s : Stream) (succ : List (Option Int)) :
    (round ftm f11 f12 cs [] c s succ).res = .errNoPath ∧
    (round ftm f11 f12 cs [] c s succ).reset = cs.map fun _ => true := by
  have hs : ∀ K : Nat, sample (K : Int) ((0 : Nat) : Int) c s = .ok (0, [], s) := by
    intro K
    unfold sample
    have h1 : ¬ ((K : Int) < 0) := by omega
    simp [h1, sampleLoop, sampleLoopWith]
  have hcs : ∀ cs : List Client, countSome (cs.map fun _ => (none : Option Path)) = 0 := by
    intro cs; induction cs <;> simp_all [countSome]
  have ha : assign f11 cs [] c s = (.errNoPath s, cs.map fun _ => true) := by
    unfold assign offeredPaths
    simp only [length_nil, range_zero, zip_nil_right, stickyLoop_nil]
    unfold assignFrom
    simp only [length_map, hcs, length_nil]
    have := hs cs.length
    simp only [Int.natCast_zero, Int.sub_zero] at this ⊢
    rw [this]
    simp
  unfold round
  rw [ha]
  exact ⟨rfl, rfl⟩

/-- With no client there is never a successful round either. -/
theorem C15_no_client_error (ftm : List Int → Int) (f11 f12 : Bool) (offered : List Fp) (c : Bool)
    (s : Stream) (succ : List (Option Int)) (off : Int) :
    (round ftm f11 f12 [] offered c s succ).res ≠ .ok off := by
  intro h
  unfold round at h
  split at h <;> try (simp at h)
  rename_i sps rest reset ha
  exact (C15_ok_needs_client_and_path f11 [] offered c s sps rest reset ha).1 rfl

/-- The reported offset is the fault-tolerant midpoint over exactly one value per
    participating client (the filter output of a successful exchange, the zero measurement of
    a failed one — that is what the code does), at least one of them from a successful
    exchange (repaired code, F12); the number of values is min(clients, paths). `ftm` is
    measurements.FaultTolerantMidpoint (C02's subject), a parameter here; if it is invariant
    under permutations (it sorts) the completion order of the per-path goroutines, i.e. the
    order in which collectMeasurements stores the values, does not matter. -/
theorem C15_result_is_ftm (ftm : List Int → Int) (f11 : Bool) (cs : List Client) (offered : List Fp)
    (s : Stream) (succ : List (Option Int)) (off : Int) (hsucc : succ.length = cs.length)
    (h : (round ftm f11 true cs offered false s succ).res = .ok off) :
    ∃ sps rest reset, assign f11 cs offered false s = (.ok sps rest, reset) ∧
      off = ftm (values sps succ) ∧
      (values sps succ).length = min cs.length offered.length ∧
      0 < successes sps succ ∧
      (∀ order : List Int, (∀ l l' : List Int, l.Perm l' → ftm l = ftm l') →
        order.Perm (values sps succ) → off = ftm order) := by
  unfold round at h
  split at h <;> try (simp at h)
  rename_i sps rest reset ha
  refine ⟨sps, rest, reset, ha, ?_⟩
  obtain ⟨hl, hc⟩ := C15_participants f11 cs offered false s sps rest reset ha
  split at h
  · simp at h
  · rename_i hne
    simp only [RoundRes.ok.injEq] at h
    refine ⟨h.symm, ?_, ?_, ?_⟩
    · rw [values_length sps succ (by omega), hc]
    · omega
    · intro order hperm ho
      rw [← h]; exact (hperm _ _ ho).symm

/-- F12, code as found (`f12fixed = false`): with one client, one path and a failing
    exchange the round reports success with the midpoint of the zero-initialised slice —
    `(time.Time{}, 0, nil)` for the real FTM — whatever `ftm` is. The repaired code reports
    `errNoMeasurement`. Failing input of the check:
    `mp.round cs=[100-] ps=[f0] s=a7ec204cc759cd2657c241d966a8aea8 succ=[x]`. -/
theorem C15_F12_old_counterexample (ftm : List Int → Int) :
    (round ftm false false [⟨true, false, false, ""⟩] ["f0"] false [] [none]).res = .ok (ftm [0]) ∧
    (round ftm false true [⟨true, false, false, ""⟩] ["f0"] false [] [none]).res = .errNoMeasurement := by
  constructor <;> rfl

/-- F11, code as found (`f11fixed = false`): an interleaved client whose previous path has the
    empty fingerprint (the intra-AS path) is reset although that path is offered; the repaired
    guard keeps it. Failing input of the check: `mp.round cs=[111-] ps=[-] s=… succ=[7]`. -/
theorem C15_F11_old_counterexample :
    (assign false [⟨true, true, true, ""⟩] [""] false []).2 = [true] ∧
    (assign true [⟨true, true, true, ""⟩] [""] false []).2 = [false] := by
  constructor <;> decide

end ScionTime.C15
