/-
  C07 — per-client state bounded, consistent (model: ScionTime/Model/Server.lean).
-/
import ScionTime.Model.Server
import ScionTime.Gen.Server
namespace ScionTime.Props.C07
open ScionTime.Time64 ScionTime.Server

theorem C07_pin_tssCap : Gen.Server.tssCap = (tssCap : Int) := by decide
theorem C07_pin_tssItemCap : Gen.Server.tssItemCap = (tssItemCap : Int) := by decide

end ScionTime.Props.C07
