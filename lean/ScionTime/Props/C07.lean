/-
  C07 — the server's per-client timestamp store stays bounded and consistent.
  Model: ScionTime/Model/Server.lean (tss map + tssQ heap, handleRequest, updateTXTimestamp,
  container/heap transcribed). Helper lemmas: ScionTime/Proofs/Server*.lean.

  `Inv0 cap icap st` (Proofs/ServerInv.lean) is the structural invariant:
    * `wf`   : map keys pairwise distinct, `len(tss) = len(tssQ)`, every heap slot `i` holds an
               id that is in the map with `qidx = i`, and every map item's `qidx` is a heap
               slot holding its id (heap keys ↔ map keys bijection, back pointers exact);
    * `size` : `len(tss) ≤ cap`;
    * `items`: every item has `1 ≤ len ≤ icap`, pairwise distinct rx values, `qval ≥` every
               rx it keeps (in the order of `Time64.Before`), and (ghost) every entry was
               written on behalf of the item's own client id.
  `Inv` adds heap order (`HeapOk`): `qval(parent) ≤ qval(child)` for every heap slot.
  `P` is an arbitrary predicate on entries that the written entries satisfy (C06 uses it;
  here it is `True`).
  All statements are parametric in the capacities (`1 ≤ cap`, `1 ≤ icap < 10^9`); the pins
  instantiate them with the constants regenerated from /repo.
-/
import ScionTime.Proofs.ServerOpsHeap
import ScionTime.Proofs.ServerReply
import ScionTime.Gen.Server
namespace ScionTime.Props.C07
open ScionTime.Time64 ScionTime.Server

theorem C07_pin_tssCap : Gen.Server.tssCap = (tssCap : Int) := by decide
theorem C07_pin_tssItemCap : Gen.Server.tssItemCap = (tssItemCap : Int) := by decide
/-- Structural fact extracted from the Go AST on every run (harness/extract/x_c07.go):
    `handleRequest` and `updateTXTimestamp` call `tssMu.Lock()` followed immediately by
    `defer tssMu.Unlock()` before any mention of `tss`/`tssQ`, and no other function of the
    package (except the heap interface methods and the verif hooks) mentions the store. This
    is what justifies treating the two functions as atomic steps of a sequential machine. -/
theorem C07_pin_lock_discipline : Gen.Server.fact_tssMu_lock_discipline = true := by decide

/-- no condition on the entries -/
abbrev PT : Entry → Prop := fun _ => True

/-- structural invariant + heap order -/
def Inv (cap icap : Nat) (st : State) : Prop := Inv0 PT cap icap st ∧ HeapOk st

/-- The empty store satisfies the invariant. -/
theorem C07_inv_init (cap icap : Nat) : Inv cap icap init := by
  refine ⟨⟨⟨by simp [init, Map.keys], rfl, ?_, ?_⟩, by simp [init], ?_⟩, ?_⟩
  · intro i hi; simp [init] at hi
  · intro k q hq; simp [init, pos] at hq
  · intro k it h; simp [init] at h
  · intro c _ hc; simp [init] at hc

/-- `handleRequest` preserves the invariant (repaired and original code alike): size bounds,
    distinct rx per client, map/heap agreement with exact back pointers, heap order,
    `qval ≥` every kept rx. -/
theorem C07_inv_handleRequest (strict : Bool) (cap icap : Nat) (hcap : 1 ≤ cap) (hic : 1 ≤ icap)
    (hic2 : icap < 1000000000) (st : State) (inv : Inv cap icap st) (id : Nat) (req : Req)
    (rxt now : Int) : Inv cap icap (handleRequestG strict cap icap st id req rxt now).st :=
  ⟨inv0_handleRequestG strict cap icap hcap hic hic2 st inv.1 id req rxt now (fun _ _ _ _ _ => trivial),
   heapOk_handleRequestG strict cap icap hcap st inv.1.wf inv.2 id req rxt now⟩

/-- `updateTXTimestamp` preserves the invariant. -/
theorem C07_inv_updateTX (cap icap : Nat) (st : State) (inv : Inv cap icap st) (id : Nat)
    (rxt txt1 : Int) : Inv cap icap (updateTX st id rxt txt1).1 :=
  ⟨inv0_updateTX cap icap st inv.1 id rxt txt1 (fun _ _ _ _ _ _ => trivial),
   heapOk_updateTX st inv.1.wf inv.2 id rxt txt1⟩

theorem C07_inv_step (cap icap : Nat) (hcap : 1 ≤ cap) (hic : 1 ≤ icap) (hic2 : icap < 1000000000)
    (st : State) (inv : Inv cap icap st) (op : Op) : Inv cap icap (stepOp cap icap st op) := by
  cases op with
  | hr id req rxt now => exact C07_inv_handleRequest true cap icap hcap hic hic2 st inv id req rxt now
  | utx id rxt txt1 => exact C07_inv_updateTX cap icap st inv id rxt txt1

/-- The invariant holds after every finite history of requests and transmit-timestamp updates
    (any mix of clients, any timestamps), started from any state satisfying it. -/
theorem C07_inv_run_from (cap icap : Nat) (hcap : 1 ≤ cap) (hic : 1 ≤ icap) (hic2 : icap < 1000000000)
    (ops : List Op) : ∀ st, Inv cap icap st → Inv cap icap (run cap icap st ops) := by
  induction ops with
  | nil => intro st h; exact h
  | cons op ops ih =>
    intro st h
    exact ih _ (C07_inv_step cap icap hcap hic hic2 st h op)

theorem C07_inv_run (cap icap : Nat) (hcap : 1 ≤ cap) (hic : 1 ≤ icap) (hic2 : icap < 1000000000)
    (ops : List Op) : Inv cap icap (run cap icap init ops) :=
  C07_inv_run_from cap icap hcap hic hic2 ops init (C07_inv_init cap icap)

/-- Bounds for the real constants: after any history at most 2^20 clients are kept, heap and
    map have the same number of entries, and every kept client has between 1 and 8 exchanges
    with pairwise distinct receive timestamps. -/
theorem C07_bounded (ops : List Op) :
    let st := run tssCap tssItemCap init ops
    st.items.length ≤ 1048576 ∧ st.heap.size = st.items.length ∧
      ∀ k it, st.items.find k = some it →
        1 ≤ it.buf.length ∧ it.buf.length ≤ 8 ∧ (it.buf.map (·.rx)).Nodup := by
  have inv := (C07_inv_run tssCap tssItemCap (by decide) (by decide) (by decide) ops).1
  refine ⟨inv.size, inv.wf.len.symm, ?_⟩
  intro k it h
  have ok := inv.items k it h
  exact ⟨ok.len_pos, ok.len_le, ok.distinct⟩

/-- Map/heap agreement after any history: the item of every heap slot points back to that
    slot, every item's back pointer is a slot holding its own id, and no id occurs in two
    slots. -/
theorem C07_heap_map_agree (cap icap : Nat) (hcap : 1 ≤ cap) (hic : 1 ≤ icap) (hic2 : icap < 1000000000)
    (ops : List Op) :
    let st := run cap icap init ops
    (∀ i, i < st.heap.size → ∃ it, st.items.find (hkey st i) = some it ∧ it.qidx = i) ∧
    (∀ k it, st.items.find k = some it → it.qidx < st.heap.size ∧ hkey st it.qidx = k) ∧
    (∀ i j, i < st.heap.size → j < st.heap.size → hkey st i = hkey st j → i = j) := by
  have inv := (C07_inv_run cap icap hcap hic hic2 ops).1
  refine ⟨?_, ?_, ?_⟩
  · intro i hi
    have := inv.wf.fwd i hi
    unfold pos at this
    cases hf : Map.find (run cap icap init ops).items (hkey (run cap icap init ops) i) with
    | none => simp [hf] at this
    | some it => exact ⟨it, rfl, by simpa [hf] using this⟩
  · intro k it h
    exact inv.wf.bwd k it.qidx (by unfold pos; rw [h]; rfl)
  · intro i j hi hj e
    exact inv.wf.inj hi hj e

/-- The index of clients by most recent activity is a valid priority order after any
    history: no heap slot's `qval` is `Before` its parent's. -/
theorem C07_heap_order (cap icap : Nat) (hcap : 1 ≤ cap) (hic : 1 ≤ icap) (hic2 : icap < 1000000000)
    (ops : List Op) (c : Nat) (hc0 : 0 < c) (hc : c < (run cap icap init ops).heap.size) :
    before (kv (run cap icap init ops) c) (kv (run cap icap init ops) ((c - 1) / 2)) = false :=
  (C07_inv_run cap icap hcap hic hic2 ops).2 c hc0 hc

/-- Heap slot 0 holds a least recently active client: no kept client's `qval` is `Before`
    the `qval` in slot 0. -/
theorem C07_top_is_min (cap icap : Nat) (st : State) (inv : Inv cap icap st) (k : Nat) (it : Item)
    (h : st.items.find k = some it) : before it.qval (kv st 0) = false := by
  obtain ⟨hq, hk⟩ := inv.1.wf.bwd k it.qidx (by unfold pos; rw [h]; rfl)
  have := root_le st st.heap.size inv.2 it.qidx hq
  have e : kv st it.qidx = it.qval := by unfold kv qv; rw [hk, h]
  rw [e] at this
  exact this

/-- The client's place in the activity index never ranks it older than any exchange kept
    for it: `qval` is not `Before` any kept receive timestamp. -/
theorem C07_qval_ge_rx (cap icap : Nat) (hcap : 1 ≤ cap) (hic : 1 ≤ icap) (hic2 : icap < 1000000000)
    (ops : List Op) (k : Nat) (it : Item) (e : Entry)
    (h : (run cap icap init ops).items.find k = some it) (he : e ∈ it.buf) :
    before it.qval e.rx = false :=
  ((C07_inv_run cap icap hcap hic hic2 ops).1.items k it h).qval_ge e he

/-- No index of `handleRequest`/`updateTXTimestamp` is out of range in a state satisfying the
    invariant (`tssQ[0]` is read only when the store is full, hence non-empty;
    `heap.Fix`/`heap.Remove` get a valid slot). -/
theorem C07_no_index_panic (cap icap : Nat) (hcap : 1 ≤ cap) (st : State) (inv : Inv cap icap st)
    (id : Nat) : hrPanics cap st id = false ∧ utxPanics st id = false := by
  unfold hrPanics utxPanics
  cases hf : Map.find st.items id with
  | none =>
    simp only [Bool.and_eq_false_iff, decide_eq_false_iff_not, and_true]
    by_cases h : st.items.length = cap
    · right; have := inv.1.wf.len; omega
    · left; exact h
  | some it =>
    have := (inv.1.wf.bwd id it.qidx (by unfold pos; rw [hf]; rfl)).1
    simp only [decide_eq_false_iff_not, Nat.not_le]
    exact ⟨this, this⟩

/-- When a known client's request carries a receive timestamp later than every one kept for
    it (requests arriving in timestamp order), its rank in the activity index becomes exactly
    that timestamp — the most recent stored exchange. -/
theorem C07_qval_exact_in_order (strict : Bool) (cap icap : Nat) (st : State) (inv : Inv cap icap st)
    (id : Nat) (req : Req) (rxt now : Int) (it : Item) (hit : st.items.find id = some it)
    (hord : ∀ e ∈ it.buf,
      after (ofTime (handleRequestG strict cap icap st id req rxt now).rxt) e.rx = true)
    (it' : Item) (hf : (handleRequestG strict cap icap st id req rxt now).st.items.find id = some it') :
    it'.qval = ofTime (handleRequestG strict cap icap st id req rxt now).rxt := by
  have ok := inv.1.items id it hit
  have ho := (hr_outputs strict cap icap st id req rxt now).1 it hit
  rw [ho.1] at hord ⊢
  unfold handleRequestG at hf
  simp only [hit] at hf
  have sinv := scan_inv it.buf req.org
  obtain ⟨q', _, _, _, s1, hq'⟩ := hr_fix_spec st inv.1.wf id it hit (scan it.buf req.org).mx
    (ofTime (uniq it.buf rxt (if (strict && !decide (rxt < now)) = true then rxt + 1 else now) (it.buf.length + 1)).1)
  obtain ⟨it1, h1, _, h3⟩ := find_after_update st.items _ id it q'
    (fun b => storeEntry icap b (scan it.buf req.org)
      ⟨ofTime (uniq it.buf rxt (if (strict && !decide (rxt < now)) = true then rxt + 1 else now) (it.buf.length + 1)).1,
       ofTime (uniq it.buf rxt (if (strict && !decide (rxt < now)) = true then rxt + 1 else now) (it.buf.length + 1)).2, id⟩)
    hit s1
  rw [h1] at hf
  cases hf
  rw [h3]
  rcases hq' with ⟨_, _, hf⟩ | ⟨e, _, _⟩
  · exfalso
    cases hm : (scan it.buf req.org).mx with
    | none =>
      have := sinv.mx_none hm
      have := ok.len_pos
      simp_all
    | some p =>
      obtain ⟨i, v⟩ := p
      obtain ⟨h1', _⟩ := sinv.mx_some i v hm
      obtain ⟨x, hx, hxe⟩ := mem_of_getElem?_map h1'
      have a := hf i v hm
      have b := hord x hx
      rw [hxe] at b
      unfold txt0 at b
      rw [a] at b; cases b
  · exact e

/-- Clients arriving in timestamp order are appended: if the new item's `qval` is not
    `Before` its would-be parent's, `heap.Push` leaves all earlier slots in place and puts the
    new id in the last slot (so for increasing timestamps the heap array is the insertion
    order — the closed form the capacity-regime driver starts from). -/
theorem C07_push_in_order_appends (st : State) (h : WF st) (id : Nat) (it : Item)
    (hnone : st.items.find id = none)
    (hle : st.heap.size = 0 ∨ before it.qval (kv st ((st.heap.size - 1) / 2)) = false) :
    (push { st with items := (id, it) :: st.items } id).heap = st.heap.push id := by
  unfold push
  simp only
  have hkold : ∀ i, i < st.heap.size → hkey st i ≠ id := by
    intro i hi e
    have := h.fwd i hi
    rw [e] at this; unfold pos at this; rw [hnone] at this; cases this
  have hk : ∀ x, x < st.heap.size →
      kv { items := setQidx ((id, it) :: st.items) id st.heap.size, heap := st.heap.push id } x
        = kv st x := by
    intro x hx
    have hkx : hkey
        { items := setQidx ((id, it) :: st.items) id st.heap.size, heap := st.heap.push id } x
          = hkey st x := by
      unfold hkey
      simp only [Array.getD_eq_getD_getElem?, Array.getElem?_push]
      have : ¬ x = st.heap.size := by omega
      simp [this]
    unfold kv
    rw [hkx]
    show qv (setQidx ((id, it) :: st.items) id st.heap.size) (hkey st x) = qv st.items (hkey st x)
    rw [← qv_same (same_setQidx ((id, it) :: st.items) id st.heap.size)]
    unfold qv
    rw [Map.find_cons, if_neg (Ne.symm (hkold x hx))]
  have hkn : kv { items := setQidx ((id, it) :: st.items) id st.heap.size, heap := st.heap.push id }
      st.heap.size = it.qval := by
    have hkx : hkey
        { items := setQidx ((id, it) :: st.items) id st.heap.size, heap := st.heap.push id }
          st.heap.size = id := by
      unfold hkey; simp [Array.getD_eq_getD_getElem?]
    unfold kv
    rw [hkx]
    show qv (setQidx ((id, it) :: st.items) id st.heap.size) id = it.qval
    rw [← qv_same (same_setQidx ((id, it) :: st.items) id st.heap.size)]
    unfold qv
    rw [Map.find_cons, if_pos rfl]
  unfold up
  simp only
  rcases hle with h0 | hb
  · simp [h0]
  · by_cases h0 : st.heap.size = 0
    · simp [h0]
    · have hp : (st.heap.size - 1) / 2 < st.heap.size := by omega
      have : less { items := setQidx ((id, it) :: st.items) id st.heap.size, heap := st.heap.push id }
          st.heap.size ((st.heap.size - 1) / 2) = false := by
        unfold less
        rw [hkn, hk _ hp]; exact hb
      simp [this]

theorem C07_evict_spec (cap icap : Nat) (hcap : 1 ≤ cap) (st : State) (inv : Inv0 PT cap icap st) (rxt64 : T64) :
    ((evict cap st rxt64).2 = none ∧ (evict cap st rxt64).1 = st ∧
        ¬ (st.items.length = cap ∧ after (kv st 0) rxt64 = false)) ∨
    ((evict cap st rxt64).2 = some (hkey st 0) ∧ st.items.length = cap ∧
        after (kv st 0) rxt64 = false ∧ (evict cap st rxt64).1.items.length + 1 = cap) := by
  unfold evict
  split
  · rename_i hc
    simp only [Bool.and_eq_true, decide_eq_true_eq, Bool.not_eq_eq_eq_not, Bool.not_true] at hc
    right
    have hpos : 0 < st.heap.size := by have := inv.wf.len; omega
    have hn : st.heap.size - 1 < st.heap.size := by omega
    obtain ⟨_, b, _, _⟩ := popMin_spec st inv.wf hpos
    refine ⟨?_, hc.1, hc.2, by simp only; omega⟩
    simp only [popMin, Option.some.injEq]
    rw [hkey_down_ge _ _ _ _ _ (by rw [size_swap]; omega) (Nat.le_refl _)]
    rw [hkey_swap st _ _ _ hpos hn]
    simp
  · rename_i hc
    left
    refine ⟨rfl, rfl, ?_⟩
    intro h
    apply hc
    simp [h.1, h.2]

/-- Eviction: `handleRequest` evicts only for a new client, only when the store is full,
    only the client in heap slot 0, and only if that client's `qval` is not `After` the new
    receive timestamp (the newcomer is at least as recent); a new client arriving at a full
    store whose minimum is later is served statelessly (the store does not change at all).
    Requests of known clients never evict. (That slot 0 holds a least recently active
    client is `C07_top_is_min`.) -/
theorem C07_evict_top_only (cap icap : Nat) (hcap : 1 ≤ cap) (st : State) (inv : Inv cap icap st)
    (id : Nat) (req : Req) (rxt now : Int) :
    (∀ k, (handleRequest cap icap st id req rxt now).evicted = some k →
        st.items.find id = none ∧ st.items.length = cap ∧ k = hkey st 0 ∧
        after (kv st 0) (ofTime rxt) = false) ∧
    ((handleRequest cap icap st id req rxt now).evicted = none → st.items.find id = none →
        st.items.length = cap →
        after (kv st 0) (ofTime rxt) = true ∧ (handleRequest cap icap st id req rxt now).st = st) := by
  unfold handleRequest handleRequestG
  simp only
  split
  · rename_i it hit
    exact ⟨(by intro k h; cases h), (by intro _ h; rw [hit] at h; cases h)⟩
  · rename_i hnone
    have es := C07_evict_spec cap icap hcap st inv.1 (ofTime rxt)
    generalize evict cap st (ofTime rxt) = ev at es ⊢
    have hevd : ∀ (a b : HR), a.evicted = ev.2 → b.evicted = ev.2 → ∀ (c : Prop) [Decidable c],
        (if c then a else b).evicted = ev.2 := by
      intro a b ha hb c _; split <;> assumption
    constructor
    · intro k hk
      rw [hevd _ _ rfl rfl] at hk
      rcases es with ⟨e, _, _⟩ | ⟨e, l, a, _⟩
      · rw [e] at hk; cases hk
      · rw [e] at hk; cases hk
        exact ⟨hnone, l, rfl, a⟩
    · intro hk _ hl
      rw [hevd _ _ rfl rfl] at hk
      rcases es with ⟨_, e1, hn⟩ | ⟨e, _, _, _⟩
      · have ha : after (kv st 0) (ofTime rxt) = true := by
          cases h : after (kv st 0) (ofTime rxt)
          · exact absurd ⟨hl, h⟩ hn
          · rfl
        refine ⟨ha, ?_⟩
        rw [e1]
        simp [hl]
      · rw [e] at hk; cases hk

/-! Non-vacuity: concrete histories with capacity 2 that reach the eviction, the stateless
    service and the in-order cases (evaluated by `decide` on the model). -/
def z64 : T64 := ⟨0, 0⟩
def exReq : Req := ⟨z64, z64, ⟨7, 7⟩⟩
/-- two clients at capacity 2 -/
def exFull : State := run 2 2 init [.hr 1 exReq 1000000000 1000000100, .hr 2 exReq 2000000000 2000000100]
example : exFull.items.length = 2 ∧ exFull.heap = #[1, 2] := by decide
/-- a later newcomer evicts the client in slot 0 -/
example : (handleRequest 2 2 exFull 3 exReq 3000000000 3000000100).evicted = some 1 ∧
    (handleRequest 2 2 exFull 3 exReq 3000000000 3000000100).st.heap = #[2, 3] := by decide
/-- an earlier newcomer is served statelessly -/
example : (handleRequest 2 2 exFull 3 exReq 500000000 500000100).evicted = none ∧
    (handleRequest 2 2 exFull 3 exReq 500000000 500000100).st.heap = exFull.heap ∧
    (handleRequest 2 2 exFull 3 exReq 500000000 500000100).st.items = exFull.items := by decide
/-- a known client's later request moves it down the heap (`heap.Fix`) -/
example : (handleRequest 2 2 exFull 1 exReq 3000000000 3000000100).st.heap = #[2, 1] := by decide
/-- a lost transmit timestamp removes the only exchange and with it the client (`heap.Remove`) -/
example : (updateTX exFull 1 1000000000 1000000100).1.heap = #[2] := by decide

end ScionTime.Props.C07
