import ScionTime.Model.Filters
namespace ScionTime.C17
open ScionTime.Filters

theorem C17_placeholder : (1 : Nat) = 1 := rfl

end ScionTime.C17
