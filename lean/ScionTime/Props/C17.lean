/-
  C17 — offset filters implement their selection rule and reset cleanly.
  Property theorems; models: ScionTime/Model/Filters.lean (+ Model/F64.lean), helper lemmas:
  ScionTime/Proofs/C17.lean.
-/
import ScionTime.Model.Filters
import ScionTime.Proofs.C17
import ScionTime.Gen.Client
namespace ScionTime.C17
open ScionTime.Filters ScionTime.F64

/-- Pins: the float constants declared inside `(*NtimedFilter).Do` (regenerated from /repo on
    every run by harness/extract/x_c17.go) are the model's. -/
theorem C17_pin_filterAverage :
    c20 = ofConst Gen.Client.ntimedFilterAverage_num Gen.Client.ntimedFilterAverage_den.toNat := by
  decide +kernel
theorem C17_pin_filterThreshold :
    c3 = ofConst Gen.Client.ntimedFilterThreshold_num Gen.Client.ntimedFilterThreshold_den.toNat := by
  decide +kernel

/-! ## Lucky-packet filter: specification (independent of any sorting algorithm) -/

/-- `sel` are `min k |w|` samples of the window `w` of lowest round-trip delay:
    `sel` and `rest` split `w` (as multisets) and nothing in `sel` has a larger delay than
    anything in `rest`. -/
structure IsSelection (w : List Meas) (k : Nat) (sel rest : List Meas) : Prop where
  perm : (sel ++ rest).Perm w
  len : sel.length = min k w.length
  low : ∀ a ∈ sel, ∀ b ∈ rest, a.rtd ≤ b.rtd

/-- `v` is the median of `offs`: the middle element of the ascending arrangement, or
    `timemath.Midpoint` of the two middle elements. -/
def IsMedianOf (offs : List Int64) (v : Int64) : Prop :=
  ∃ s, s.Perm offs ∧ s.Pairwise (· ≤ ·) ∧ medianI64 s = some v

/-- The selection rule of the property. -/
def LuckySpec (w : List Meas) (k : Nat) (v : Int64) : Prop :=
  ∃ sel rest, IsSelection w k sel rest ∧ IsMedianOf (sel.map Meas.off) v

def DistinctDelays (w : List Meas) : Prop := w.Pairwise (fun a b => a.rtd ≠ b.rtd)

/-- The samples seen since the last reset, after running `ops` from a point where `h`
    had been seen. -/
def samplesSince (h : List Sample) : List LOp → List Sample
  | [] => h
  | .sample x :: ops => samplesSince (h ++ [x]) ops
  | .reset :: ops => samplesSince [] ops

/-- A filter as `NewLuckyPacketFilter(cap, pick)` returns it. -/
def luckyFresh (cap pick : Nat) : Lucky := { cap := cap, pick := min pick cap, state := [] }

/-! ## Lucky-packet filter: theorems -/

/-- The constructor: panics exactly for `cap ≤ 0` or `pick ≤ 0`, otherwise stores
    `min pick cap`. -/
theorem C17_lucky_new (cap pick : Int) :
    (cap ≤ 0 → luckyNew cap pick = .error "cap must be greater than 0") ∧
    (0 < cap → pick ≤ 0 → luckyNew cap pick = .error "pick must be greater than 0") ∧
    (0 < cap → 0 < pick → luckyNew cap pick = .ok (luckyFresh cap.toNat pick.toNat)) := by
  unfold luckyNew luckyFresh
  refine ⟨fun h => by simp [h], fun h1 h2 => by simp [Int.not_le.mpr h1, h2], fun h1 h2 => ?_⟩
  rw [if_neg (by omega), if_neg (by omega)]
  congr 2
  omega

/-- Window invariant: after any history (with resets anywhere) the state is the last
    `cap` samples seen since the last reset; capacity and pick count never change. -/
theorem C17_lucky_window (f : Lucky) (h : List Sample) (hcap : 1 ≤ f.cap)
    (hst : f.state = lastN f.cap (h.map Sample.meas)) (ops : List LOp) :
    (luckyFinal f ops).state = lastN f.cap ((samplesSince h ops).map Sample.meas) ∧
    (luckyFinal f ops).cap = f.cap ∧ (luckyFinal f ops).pick = f.pick := by
  induction ops generalizing f h with
  | nil => exact ⟨hst, rfl, rfl⟩
  | cons op ops ih =>
    cases op with
    | sample x =>
      have hne : ¬ f.cap = 0 := by omega
      have hstep : (luckyStep f (.sample x)).1 = { f with state := luckyPush f x.meas } := by
        simp [luckyStep, luckyDo, hne]
      have hpush : luckyPush f x.meas = lastN f.cap ((h ++ [x]).map Sample.meas) := by
        unfold luckyPush
        rw [hst, List.map_append, List.map_singleton]
        exact push_window f.cap hcap _ _
      simp only [luckyFinal, samplesSince]
      rw [hstep]
      exact ih { f with state := luckyPush f x.meas } (h ++ [x]) hcap hpush
    | reset =>
      simp only [luckyFinal, samplesSince, luckyStep, luckyReset]
      exact ih { f with state := [] } [] hcap (by simp [lastN])

/-- One call of `Do` on a configured filter never panics and returns a value allowed by
    the selection rule for the updated window (for any delays, equal ones included). -/
theorem C17_lucky_do_meets_spec (f : Lucky) (x : Sample) (hcap : 1 ≤ f.cap) (hpick : 1 ≤ f.pick) :
    ∃ v, (luckyDo f x).2 = some v ∧ LuckySpec (luckyPush f x.meas) f.pick v := by
  have hne : ¬ f.cap = 0 := by omega
  have hw : 0 < (luckyPush f x.meas).length := by simp [luckyPush]
  have hlen : 0 < ((sortBy Meas.off (luckySelect f.pick (luckyPush f x.meas))).map Meas.off).length := by
    rw [List.length_map, sortBy_length, luckySelect_length]; omega
  obtain ⟨v, hv⟩ := medianI64_isSome _ hlen
  refine ⟨v, by simp [luckyDo, hne, hv], ?_⟩
  refine ⟨luckySelect f.pick (luckyPush f x.meas), luckyRest f.pick (luckyPush f x.meas),
    ⟨luckySelect_perm _ _, luckySelect_length _ _, luckySelect_low _ _⟩, ?_⟩
  exact ⟨_, (sortBy_perm Meas.off _).map Meas.off, sortBy_off_sorted _, hv⟩

/-- For pairwise distinct delays the selection rule determines the value: any two
    selections of the `k` lowest-delay samples have the same median offset. -/
theorem C17_lucky_spec_unique (w : List Meas) (k : Nat) (v v' : Int64) (hd : DistinctDelays w)
    (h : LuckySpec w k v) (h' : LuckySpec w k v') : v = v' := by
  obtain ⟨sel, rest, hs, s, hp, hsorted, hm⟩ := h
  obtain ⟨sel', rest', hs', s', hp', hsorted', hm'⟩ := h'
  have hsel : sel.Perm sel' :=
    selection_unique w sel rest sel' rest' hd hs.perm hs.low hs'.perm hs'.low (by rw [hs.len, hs'.len])
  have : s = s' := sorted_perm_unique s s' hsorted hsorted'
    ((hp.trans (hsel.map Meas.off)).trans hp'.symm)
  subst this
  rw [hm] at hm'
  exact Option.some.inj hm'

/-- **lucky_spec.** A filter made by `NewLuckyPacketFilter(cap, pick)`, after any history
    `ops` (samples and resets in any order), given one more sample `x`: if the round-trip
    delays in the window are pairwise distinct, `Do` returns `v` iff `v` is the median of the
    offsets of the `min pick cap` (capped at the window size) samples of smallest delay among
    the last `cap` samples seen since the last reset. -/
theorem C17_lucky_spec (cap pick : Nat) (hcap : 1 ≤ cap) (hpick : 1 ≤ pick)
    (ops : List LOp) (x : Sample)
    (hd : DistinctDelays (lastN cap ((samplesSince [] ops ++ [x]).map Sample.meas))) (v : Int64) :
    (luckyDo (luckyFinal (luckyFresh cap pick) ops) x).2 = some v ↔
      LuckySpec (lastN cap ((samplesSince [] ops ++ [x]).map Sample.meas)) (min pick cap) v := by
  have hinv := C17_lucky_window (luckyFresh cap pick) [] hcap (by simp [luckyFresh, lastN]) ops
  have hst : (luckyFinal (luckyFresh cap pick) ops).state
      = lastN cap ((samplesSince [] ops).map Sample.meas) := hinv.1
  have hc : (luckyFinal (luckyFresh cap pick) ops).cap = cap := hinv.2.1
  have hp : (luckyFinal (luckyFresh cap pick) ops).pick = min pick cap := hinv.2.2
  have hpush : luckyPush (luckyFinal (luckyFresh cap pick) ops) x.meas
      = lastN cap ((samplesSince [] ops ++ [x]).map Sample.meas) := by
    unfold luckyPush
    rw [hst, hc, List.map_append, List.map_singleton]
    exact push_window cap hcap _ _
  obtain ⟨v0, hv0, hspec0⟩ := C17_lucky_do_meets_spec (luckyFinal (luckyFresh cap pick) ops) x
    (by rw [hc]; exact hcap) (by rw [hp]; omega)
  rw [hpush, hp] at hspec0
  constructor
  · intro hv
    rw [hv0] at hv
    rw [← Option.some.inj hv]; exact hspec0
  · intro hspec
    rw [hv0, C17_lucky_spec_unique _ _ _ _ hd hspec0 hspec]

/-- Non-vacuity: capacity 3, pick 2, a history with a reset after the first sample; with the
    new sample the window is (offset, delay) = (−3, 30), (0, 10), (−1, 16) — the sample of
    delay 20 has been shifted out —, the two luckiest have offsets 0 and −1, and the filter
    returns their midpoint −1 + (0 − (−1))/2 = −1. -/
def exOps : List LOp :=
  [.sample ⟨0, 19, 19, 40⟩, .reset, .sample ⟨0, 10, 10, 20⟩, .sample ⟨0, 12, 13, 31⟩,
   .sample ⟨0, 5, 6, 11⟩]
example : DistinctDelays
    (lastN 3 ((samplesSince [] exOps ++ [(⟨0, 7, 7, 16⟩ : Sample)]).map Sample.meas)) := by
  unfold DistinctDelays; decide +kernel
example : (luckyDo (luckyFinal (luckyFresh 3 2) exOps) ⟨0, 7, 7, 16⟩).2 = some (-1) := by
  decide +kernel

/-- The zero-value filter returns the raw offset `ntp.ClockOffset` of every sample, whatever
    came before (and `Reset` changes nothing). -/
theorem C17_lucky_zero_raw (ops : List LOp) (x : Sample) :
    luckyDo (luckyFinal Lucky.zero ops) x
      = (Lucky.zero, some (clockOffset x.cTx x.sRx x.sTx x.cRx)) := by
  have : luckyFinal Lucky.zero ops = Lucky.zero := by
    induction ops with
    | nil => rfl
    | cons op ops ih => cases op <;> simpa [luckyFinal, luckyStep, luckyDo, luckyReset, Lucky.zero] using ih
  rw [this]; rfl

/-- `Reset` forgets: after `Reset` every state behaves like a freshly constructed filter of
    the same configuration. -/
theorem C17_lucky_reset_forgets (f : Lucky) (ops : List LOp) :
    luckyRun f (.reset :: ops) = luckyRun { cap := f.cap, pick := f.pick, state := [] } ops := by
  simp [luckyRun, luckyStep, luckyReset]

/-- …at any position of a history: the outputs after a `Reset` are those of a new filter of
    the same configuration fed the rest of the history. -/
theorem C17_lucky_reset_anywhere (f : Lucky) (pre post : List LOp) :
    luckyRun f (pre ++ .reset :: post)
      = luckyRun f pre ++ luckyRun { cap := f.cap, pick := f.pick, state := [] } post := by
  rw [luckyRun_append, C17_lucky_reset_forgets]
  have h := luckyFinal_config f pre
  rw [h.1, h.2]

/-- No-overflow side condition: for offsets of magnitude below `2^62` the median is the
    integer one — an element of the list, or `a + ⌊(b-a)/2⌋` for the two middle elements
    `a ≤ b` (no wrap-around). -/
theorem C17_lucky_median_int (s : List Int64) (v : Int64) (hs : s.Pairwise (· ≤ ·))
    (hb : ∀ a ∈ s, -4611686018427387904 < a.toInt ∧ a.toInt < 4611686018427387904)
    (hm : medianI64 s = some v) :
    (s.length % 2 = 1 ∧ s[s.length / 2]? = some v) ∨
    (s.length % 2 = 0 ∧ ∃ a b, s[s.length / 2 - 1]? = some a ∧ s[s.length / 2]? = some b ∧
        a.toInt ≤ b.toInt ∧ v.toInt = a.toInt + (b.toInt - a.toInt) / 2) := by
  unfold medianI64 at hm
  simp only at hm
  split at hm
  · left; exact ⟨by omega, hm⟩
  · right
    refine ⟨by omega, ?_⟩
    split at hm
    · rename_i a b ha hb'
      split at hm
      · cases hm
      · rename_i hi
        refine ⟨a, b, ha, hb', ?_⟩
        have hv := Option.some.inj hm
        have hale : a ≤ b := by
          obtain ⟨h1, e1⟩ := List.getElem?_eq_some_iff.mp ha
          obtain ⟨h2, e2⟩ := List.getElem?_eq_some_iff.mp hb'
          rw [← e1, ← e2]
          exact List.pairwise_iff_getElem.mp hs _ _ h1 h2 (by omega)
        have hale' := Int64.le_iff_toInt_le.mp hale
        have ha' := hb a (List.mem_of_getElem? ha)
        have hb'' := hb b (List.mem_of_getElem? hb')
        refine ⟨hale', ?_⟩
        rw [← hv]
        exact midpoint64_toInt a b ha'.1 ha'.2 hb''.1 hb''.2 hale'
    · cases hm

/-- …and the raw offset itself is the truncated integer half-sum when both legs
    `t1 - t0`, `t2 - t3` are below `2^62` in magnitude. -/
theorem C17_clockOffset_int (x : Sample)
    (ha1 : -4611686018427387904 < x.sRx - x.cTx) (ha2 : x.sRx - x.cTx < 4611686018427387904)
    (hb1 : -4611686018427387904 < x.sTx - x.cRx) (hb2 : x.sTx - x.cRx < 4611686018427387904) :
    (clockOffset x.cTx x.sRx x.sTx x.cRx).toInt = Int.tdiv ((x.sRx - x.cTx) + (x.sTx - x.cRx)) 2 :=
  clockOffset_toInt _ _ _ _ (by omega) (by omega) (by omega) (by omega)

/-! ## Ntimed filter: structure (exact; no floating-point reasoning needed) -/

/-- What the filter returns when it passes the sample through unfiltered:
    `Inv(Duration((lo + hi) / 2))` with `lo = cTx.Sub(sRx).Seconds()`,
    `hi = cRx.Sub(sTx).Seconds()`. -/
def ntimedRaw (x : Sample) : Int := inv64 (toDuration (ntimedMid x))

/-- The branch chain: exactly one of four branches; 1 and 4 leave `mid` untouched, so the
    output is `ntimedRaw`; 2 and 3 need `navg > 3.0` and exactly one violated limit. -/
theorem C17_ntimed_branches (e : Nat) (f : Ntimed) (x : Sample) :
    let r := ntimedDoFull e f x
    (r.branch = 1 ∧ r.failLo = true ∧ r.failHi = true ∧ r.out = ntimedRaw x) ∨
    (r.branch = 2 ∧ gt r.state.navg c3 = true ∧ r.failLo = true ∧ r.failHi = false) ∨
    (r.branch = 3 ∧ gt r.state.navg c3 = true ∧ r.failLo = false ∧ r.failHi = true) ∨
    (r.branch = 4 ∧ ¬ (r.failLo = true ∧ r.failHi = true) ∧
      (gt r.state.navg c3 = false ∨ (r.failLo = false ∧ r.failHi = false)) ∧ r.out = ntimedRaw x) := by
  intro r
  have hb := ntimedBranch_cases (ntimedEnter e f) (ntimedNavg (ntimedEnter e f)) (ntimedLo x) (ntimedHi x)
    (ntimedMid x) r.failLo r.failHi
  have hout : r.out = inv64 (toDuration r.mid) := rfl
  rcases hb with ⟨h1, h2, h3, h4⟩ | ⟨h1, h2, h3, h4, _⟩ | ⟨h1, h2, h3, h4, _⟩ | ⟨h1, h2, h3, h4⟩
  · exact Or.inl ⟨h1, h2, h3, by rw [hout]; unfold ntimedRaw; exact congrArg _ (congrArg _ h4)⟩
  · exact Or.inr (Or.inl ⟨h1, h2, h3, h4⟩)
  · exact Or.inr (Or.inr (Or.inl ⟨h1, h2, h3, h4⟩))
  · exact Or.inr (Or.inr (Or.inr ⟨h1, h2, h3, by rw [hout]; unfold ntimedRaw; exact congrArg _ (congrArg _ h4)⟩))

/-- The limits are the learned ones: `failLo` is `lo < alo − 3·loNoise`, `failHi` is
    `hi > ahi + 3·hiNoise`, evaluated on the state the call works on (after the epoch check). -/
theorem C17_ntimed_limits (e : Nat) (f : Ntimed) (x : Sample) :
    let r := ntimedDoFull e f x
    let g := ntimedEnter e f
    let noise := ntimedNoise g r.state.navg
    r.failLo = lt (ntimedLo x) (sub g.alo (mul noise.1 c3)) ∧
    r.failHi = gt (ntimedHi x) (add g.ahi (mul noise.2 c3)) := ⟨rfl, rfl⟩

/-- **ntimed_raw_inbounds.** Whenever the sample violates neither learned limit, branch 4
    is taken and the output is the unfiltered value — for every state. (The same holds in
    branch 1, when both limits are violated, see `C17_ntimed_branches`.) -/
theorem C17_ntimed_raw_inbounds (e : Nat) (f : Ntimed) (x : Sample)
    (hlo : (ntimedDoFull e f x).failLo = false) (hhi : (ntimedDoFull e f x).failHi = false) :
    (ntimedDoFull e f x).branch = 4 ∧ (ntimedDo e f x).2 = ntimedRaw x := by
  have h := C17_ntimed_branches e f x
  simp only at h
  rcases h with ⟨_, h2, _⟩ | ⟨_, _, h2, _⟩ | ⟨_, _, _, h2⟩ | ⟨h1, _, _, h4⟩
  · rw [hlo] at h2; cases h2
  · rw [hlo] at h2; cases h2
  · rw [hhi] at h2; cases h2
  · exact ⟨h1, h4⟩

/-- Non-vacuity: a filter that has seen five samples (so `navg > 3`) gets a sixth one inside
    its limits (branch 4); a sample with 40 ms extra upstream delay violates the lower limit
    only and is filtered (branch 2). -/
def exMs (a b c d : Int) : Sample := ⟨a * 1000000, b * 1000000, c * 1000000, d * 1000000⟩
def exN : List NOp :=
  [.sample 0 (exMs 0 10 10 20), .sample 0 (exMs 1000 1011 1011 1020),
   .sample 0 (exMs 2000 2009 2009 2020), .sample 0 (exMs 3000 3010 3010 3021),
   .sample 0 (exMs 4000 4011 4011 4020)]
example :
    let r := ntimedDoFull 0 (ntimedFinal Ntimed.fresh exN) (exMs 5000 5010 5010 5020)
    r.failLo = false ∧ r.failHi = false ∧ gt r.state.navg c3 = true := by decide +kernel
example : (ntimedDoFull 0 (ntimedFinal Ntimed.fresh exN) (exMs 5000 5050 5050 5060)).branch = 2 := by
  decide +kernel

/-- **ntimed_raw_early.** After a reset at clock epoch `e` (explicit `Reset`, or implied by
    `Do` noticing a new epoch — `C17_ntimed_epoch_change_is_reset`), while the epoch stays
    `e`, the first three samples (fewer than four seen, the current one included) take
    branch 1 or 4 and are returned unfiltered. -/
theorem C17_ntimed_raw_early (e : Nat) (s : Ntimed) (xs : List Sample) (x : Sample)
    (hlen : xs.length < 3) :
    let f := ntimedFinal (ntimedReset e s) (xs.map (NOp.sample e))
    ((ntimedDoFull e f x).branch = 1 ∨ (ntimedDoFull e f x).branch = 4) ∧
    (ntimedDo e f x).2 = ntimedRaw x := by
  intro f
  have hn := navg_after e xs (ntimedReset e s) 0 rfl rfl (by omega)
  have hnavg : (ntimedDoFull e f x).state.navg = natF (xs.length + 1) := by
    rw [ntimedDoFull_state_navg, ntimedEnter_same e f hn.1]
    unfold ntimedNavg
    have ht := navg_table ⟨xs.length, by omega⟩
    simp only at ht
    have : f.navg = natF xs.length := by simpa using hn.2
    rw [this, ht.1, if_pos rfl, ht.2]
  have hle : gt (ntimedDoFull e f x).state.navg c3 = false := by
    rw [hnavg]; exact navg_le3_table ⟨xs.length + 1, by omega⟩
  have h := C17_ntimed_branches e f x
  simp only at h
  rcases h with ⟨h1, _, _, h4⟩ | ⟨_, h2, _⟩ | ⟨_, h2, _⟩ | ⟨h1, _, _, h4⟩
  · exact ⟨Or.inl h1, h4⟩
  · rw [hle] at h2; cases h2
  · rw [hle] at h2; cases h2
  · exact ⟨Or.inr h1, h4⟩

/-- **reset_forgets (explicit).** After `Reset` the outputs do not depend on the state the
    filter was in: any two states give the same run — in particular the one of a freshly
    constructed filter. -/
theorem C17_ntimed_reset_forgets (s s' : Ntimed) (e : Nat) (ops : List NOp) :
    ntimedRun s (.reset e :: ops) = ntimedRun s' (.reset e :: ops) := by
  simp only [ntimedRun, ntimedStep]
  rw [ntimedReset_const e s s']

/-- **reset_forgets (epoch change).** A `Do` that sees a clock epoch different from the
    stored one behaves, for this and all later outputs, exactly as if `Reset` had been called
    just before it. -/
theorem C17_ntimed_epoch_change_is_reset (s : Ntimed) (e : Nat) (x : Sample) (ops : List NOp)
    (h : s.epoch ≠ e) :
    ntimedRun s (.sample e x :: ops) = ntimedRun s (.reset e :: .sample e x :: ops) := by
  have hd : ntimedDoFull e (ntimedReset e s) x = ntimedDoFull e s x := by
    rw [← ntimedEnter_change e s h]; exact ntimedDoFull_enter e s x
  simp only [ntimedRun, ntimedStep, ntimedDo, hd]

/-- …so after an epoch change the outputs depend only on the samples seen since: any two
    states whose stored epoch differs from the clock's give the same run. -/
theorem C17_ntimed_epoch_change_forgets (s s' : Ntimed) (e : Nat) (x : Sample) (ops : List NOp)
    (h : s.epoch ≠ e) (h' : s'.epoch ≠ e) :
    ntimedRun s (.sample e x :: ops) = ntimedRun s' (.sample e x :: ops) := by
  rw [C17_ntimed_epoch_change_is_reset s e x ops h, C17_ntimed_epoch_change_is_reset s' e x ops h']
  exact C17_ntimed_reset_forgets s s' e _

/-- A freshly constructed filter (`NewNtimedFilter`, all fields zero) is in the reset state,
    whatever the clock's epoch is at its first call. -/
theorem C17_ntimed_fresh_is_reset (e : Nat) (x : Sample) (ops : List NOp) :
    ntimedRun Ntimed.fresh (.sample e x :: ops)
      = ntimedRun Ntimed.fresh (.reset e :: .sample e x :: ops) := by
  by_cases h : Ntimed.fresh.epoch = e
  · have : ntimedReset e Ntimed.fresh = Ntimed.fresh := by
      have h0 : e = 0 := h.symm
      subst h0; rfl
    simp only [ntimedRun, ntimedStep, this]
  · exact C17_ntimed_epoch_change_is_reset _ e x ops h

/-- **reset_forgets, all positions.** Wherever in a history a `Reset` occurs, or a `Do` that
    sees a clock epoch different from the stored one, the outputs from there on are those of
    a freshly constructed filter fed the rest of the history — they depend only on the
    samples seen since. -/
theorem C17_ntimed_reset_anywhere (s : Ntimed) (pre post : List NOp) (e : Nat) :
    ntimedRun s (pre ++ .reset e :: post)
      = ntimedRun s pre ++ ntimedRun Ntimed.fresh (.reset e :: post) := by
  rw [ntimedRun_append, C17_ntimed_reset_forgets (ntimedFinal s pre) Ntimed.fresh]

theorem C17_ntimed_epoch_change_anywhere (s : Ntimed) (pre post : List NOp) (e : Nat) (x : Sample)
    (h : (ntimedFinal s pre).epoch ≠ e) :
    ntimedRun s (pre ++ .sample e x :: post)
      = ntimedRun s pre ++ ntimedRun Ntimed.fresh (.sample e x :: post) := by
  rw [ntimedRun_append, C17_ntimed_epoch_change_is_reset _ e x post h,
    C17_ntimed_reset_forgets (ntimedFinal s pre) Ntimed.fresh, ← C17_ntimed_fresh_is_reset]

example : (ntimedFinal Ntimed.fresh exN).epoch ≠ 7 := by decide +kernel

end ScionTime.C17
