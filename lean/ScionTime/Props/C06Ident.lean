/-
  C06, client identity: "timestamps recorded for one client are never served to another"
  is proved in Props/C06 for the identity string handed to `handleRequest` /
  `updateTXTimestamp` (`C06_no_cross_client`). This module covers the step before it: the
  listeners' construction of that string is injective on what identifies a client on the
  wire — (ISD-AS, host address) for SCION, host address for IP — so two distinct clients
  never share a key of the store.
-/
import ScionTime.Proofs.ClientId
import ScionTime.Gen.Server
namespace ScionTime.Props.C06Ident
open ScionTime.ClientId

/-! ### pins: the expressions in the source are the modelled ones -/

theorem C06_pin_clientIdScion_operands :
    Gen.Server.clientIdScionOperands = ["scionLayer.SrcIA.String()", "\",\"", "srcAddr.String()"] := by decide

theorem C06_pin_clientIdScion_sep : Gen.Server.clientIdScionSep = sep := by decide

theorem C06_pin_clientIdScion_srcAddr :
    Gen.Server.clientIdScionSrcAddr = "netip.AddrFromSlice(scionLayer.RawSrcAddr)" := by decide

theorem C06_pin_clientIdIp_operands :
    Gen.Server.clientIdIpOperands = ["srcAddr.Addr().String()"] := by decide

theorem C06_pin_clientIdIp_srcAddr :
    Gen.Server.clientIdIpSrcAddr = "conn.ReadMsgUDPAddrPort(buf, oob)" := by decide

/-- in both listeners the variable defined by `clientID := …` (defined once, never
    reassigned) is the first argument of the single `handleRequest` and of the single
    `updateTXTimestamp` call (harness/extract/x_c06.go) -/
theorem C06_pin_clientID_passed :
    Gen.Server.fact_clientID_passed_runIPServer = true ∧
    Gen.Server.fact_clientID_passed_runSCIONServer = true := by decide

/-! ### injectivity -/

/-- The SCION identity is injective on (IA text, host text) as soon as the IA texts contain
    no separator character; nothing is assumed about the host texts. -/
theorem C06_clientIdScionL_injective (ia₁ ia₂ h₁ h₂ : List Char)
    (n₁ : sepChar ∉ ia₁) (n₂ : sepChar ∉ ia₂)
    (e : clientIdScionL ia₁ h₁ = clientIdScionL ia₂ h₂) : ia₁ = ia₂ ∧ h₁ = h₂ := by
  unfold clientIdScionL at e
  induction ia₁ generalizing ia₂ with
  | nil =>
    cases ia₂ with
    | nil => simpa using e
    | cons c t =>
      simp only [List.nil_append, List.cons_append, List.cons.injEq] at e
      exact absurd (e.1 ▸ List.mem_cons_self) n₂
  | cons a s ih =>
    cases ia₂ with
    | nil =>
      simp only [List.nil_append, List.cons_append, List.cons.injEq] at e
      exact absurd (e.1 ▸ List.mem_cons_self) n₁
    | cons c t =>
      simp only [List.cons_append, List.cons.injEq] at e
      have := ih t (fun h => n₁ (List.mem_cons_of_mem _ h)) (fun h => n₂ (List.mem_cons_of_mem _ h)) e.2
      exact ⟨by rw [e.1, this.1], this.2⟩

/-- the same on `String`s, the type the code uses -/
theorem C06_clientIdScion_injective (ia₁ ia₂ h₁ h₂ : String)
    (n₁ : sepChar ∉ ia₁.toList) (n₂ : sepChar ∉ ia₂.toList)
    (e : clientIdScion ia₁ h₁ = clientIdScion ia₂ h₂) : ia₁ = ia₂ ∧ h₁ = h₂ := by
  have e' := congrArg String.toList e
  rw [clientIdScion_toList, clientIdScion_toList] at e'
  have := C06_clientIdScionL_injective _ _ _ _ n₁ n₂ e'
  exact ⟨String.toList_inj.mp this.1, String.toList_inj.mp this.2⟩

/-- non-vacuity: the hypotheses hold for real IA texts, and distinct pairs get distinct keys -/
example : sepChar ∉ "1-ff00:0:110".toList ∧
    clientIdScion "1-ff00:0:1" "10::1" ≠ clientIdScion "1-ff00:0:110" "::1" := by decide

/-- The IP identity is the host text itself. -/
theorem C06_clientIdIp_injective (h₁ h₂ : String) (e : clientIdIp h₁ = clientIdIp h₂) : h₁ = h₂ := e

/-- Without the separator the construction is not injective, even on comma-free IA texts:
    the hex AS group and a compressed IPv6 host run into each other (seeded change C06-6). -/
theorem C06_clientIdScionNoSep_not_injective :
    ∃ ia₁ h₁ ia₂ h₂ : String, sepChar ∉ ia₁.toList ∧ sepChar ∉ ia₂.toList ∧
      (ia₁, h₁) ≠ (ia₂, h₂) ∧ clientIdScionNoSep ia₁ h₁ = clientIdScionNoSep ia₂ h₂ :=
  ⟨"1-ff00:0:1", "10::1", "1-ff00:0:110", "::1", by decide, by decide, by decide, by decide⟩

/-! ### the IA text of scionproto never contains the separator -/

/-- `addr.IA.String()` contains no `,` — the hypothesis of the injectivity theorem holds for
    every 64-bit ISD-AS value. -/
theorem C06_iaText_no_sep (ia : Nat) : sepChar ∉ iaText ia := by
  have d10 := sep_not_mem_toDigits 10 (by decide)
  have d16 := sep_not_mem_toDigits 16 (by decide)
  have ne1 : sepChar ≠ '-' := by decide
  have ne2 : sepChar ≠ ':' := by decide
  unfold iaText asText
  split <;> simp only [List.mem_append, List.mem_cons, not_or] <;> simp [d10, d16, ne1, ne2]

/-- `addr.IA.String()` (as modelled by `iaText`, compared with the library on every run) is
    injective on 64-bit ISD-AS values: decimal ISD, `-`, then a decimal AS (no `:`) or three
    hex groups separated by `:`. -/
theorem C06_iaText_injective (a b : Nat) (ha : a < 18446744073709551616) (hb : b < 18446744073709551616)
    (h : iaText a = iaText b) : a = b := iaText_inj a b ha hb h

/-- The SCION identity is injective on (ISD-AS value, host text): two requests get the same
    key of the timestamp store only if they come from the same ISD-AS and the same host text. -/
theorem C06_clientIdScion_injective_on_ia_host (ia₁ ia₂ : Nat) (h₁ h₂ : List Char)
    (b₁ : ia₁ < 18446744073709551616) (b₂ : ia₂ < 18446744073709551616)
    (e : clientIdScionL (iaText ia₁) h₁ = clientIdScionL (iaText ia₂) h₂) : ia₁ = ia₂ ∧ h₁ = h₂ := by
  have := C06_clientIdScionL_injective _ _ _ _ (C06_iaText_no_sep ia₁) (C06_iaText_no_sep ia₂) e
  exact ⟨C06_iaText_injective _ _ b₁ b₂ this.1, this.2⟩

example : clientIdScionL (iaText 0x0001ff0000000001) "10::1".toList ≠
    clientIdScionL (iaText 0x0001ff0000000110) "::1".toList := by decide

example : String.ofList (iaText 0x0001ff0000000110) = "1-ff00:0:110" := by decide
example : String.ofList (iaText 0x004700000000fc00) = "71-64512" := by decide

end ScionTime.Props.C06Ident
