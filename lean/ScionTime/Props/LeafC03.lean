/-
  Kernel-checked ties (C03, C05): ntp.ClockOffset, ntp.RoundTripDelay and
  ntp.ValidateResponseTimestamps as regenerated from /repo's Go source on every run
  (Gen/Leaf.lean, second-generation leaves: time.Time values and panics) are the hand-written
  models the offset-bound and acceptance theorems are about — for all inputs, no range
  hypothesis (`Time.Sub` saturates in both).
-/
import ScionTime.Gen.Leaf
import ScionTime.Model.NtpMath
namespace ScionTime.LeafTieC03
open ScionTime ScionTime.Gen.Leaf

theorem C03_leaf_ClockOffset (t0 t1 t2 t3 : Int) :
    ntp_ClockOffset t0 t1 t2 t3 = NtpMath.clockOffset64 t0 t1 t2 t3 := rfl

theorem C03_leaf_RoundTripDelay (t0 t1 t2 t3 : Int) :
    ntp_RoundTripDelay t0 t1 t2 t3 = NtpMath.roundTripDelay64 t0 t1 t2 t3 := rfl

/-- the generated function returns `none` for a panic, `some true` for the error and
    `some false` for nil -/
def verdict : Option Bool → NtpMath.TsVerdict
  | none => .panic
  | some true => .errResponse
  | some false => .ok

theorem C03_leaf_ValidateResponseTimestamps (t0 t1 t2 t3 : Int) :
    verdict (ntp_ValidateResponseTimestamps t0 t1 t2 t3) = NtpMath.validateTimestamps t0 t1 t2 t3 := by
  unfold ntp_ValidateResponseTimestamps NtpMath.validateTimestamps
  have e : ∀ a b, Go.Time.sub a b = NtpMath.sub64 a b := fun _ _ => rfl
  simp only [e, decide_eq_true_eq]
  split
  · rfl
  · split <;> rfl

/-- all three outcomes occur -/
example : ntp_ValidateResponseTimestamps 10 0 0 5 = none ∧
    ntp_ValidateResponseTimestamps 0 7 6 5 = some true ∧
    ntp_ValidateResponseTimestamps 0 1 2 5 = some false := by decide

end ScionTime.LeafTieC03
