/-
  C08 (unit: CSPTP client receive loop, core/client/client_csptp_ip.go) — no datagram makes
  the loop body panic; finding F17 for the function at the pinned commit.
-/
import ScionTime.Model.CsptpClient
import ScionTime.Props.C14
import ScionTime.Gen.Csptp
namespace ScionTime.C08Csptp
open ScionTime.Wire ScionTime.Csptp ScionTime.CsptpClient

theorem C08_csptp_pin_constants :
    Gen.Csptp.MessageTypeSync = messageTypeSync ∧ Gen.Csptp.MessageTypeFollowUp = messageTypeFollowUp ∧
    Gen.Csptp.TLVTypeOrganizationExtension = tlvTypeOrganizationExtension ∧
    Gen.Csptp.OrganizationIDMeinberg0 * 65536 + Gen.Csptp.OrganizationIDMeinberg1 * 256 + Gen.Csptp.OrganizationIDMeinberg2 = orgIDMeinberg ∧
    Gen.Csptp.OrganizationSubTypeResponse0 * 65536 + Gen.Csptp.OrganizationSubTypeResponse1 * 256 + Gen.Csptp.OrganizationSubTypeResponse2 = orgSubTypeResponse ∧
    Gen.Csptp.MinMessageLength = minMessageLength := by decide

/-- The repaired loop body never panics: for every buffer content, every datagram length,
    every source and every sequence id the verdict is retry or accept. -/
theorem C08_csptp_client_no_panic (buf : List Nat) (n : Nat) (e g : Bool) (seq : Nat) :
    onDatagram true buf n e g seq ≠ .panicSlice := by
  unfold onDatagram
  have hm := (C14.C14_csptp_decode_no_panic (buf.take minMessageLength)).1
  have ht := (C14.C14_csptp_decode_no_panic ((buf.take n).drop minMessageLength)).2.2
  by_cases hn : n < minMessageLength
  · simp [hn]
  · simp only [Bool.true_and, decide_eq_true_eq, hn, ↓reduceIte]
    cases hdm : decodeMessage (buf.take minMessageLength) with
    | panic c => rw [hdm] at hm; simp [Outcome.isPanic] at hm
    | err e' => simp
    | ok msg =>
      simp only
      repeat' split
      all_goals first
        | (intro h; cases h; done)
        | (intro h; rename_i hp; rw [hp] at ht; simp [Outcome.isPanic] at ht)

/-- F17: at the pinned commit a 10-byte Follow_Up-typed datagram whose length field says 10,
    read into the buffer that still holds the client's own request (sequence id 0), panics. -/
def f17Buf : List Nat := [8, 0, 0, 10] ++ List.replicate 94 0
theorem C08_csptp_client_old_panics : onDatagram false f17Buf 10 false true 0 = .panicSlice := by decide

/-- the same datagram is rejected by the repaired code -/
example : onDatagram true f17Buf 10 false true 0 = .retry "short" := by decide

/-- non-vacuity: a genuine Sync message from the event port is accepted -/
example : onDatagram true ([0, 2, 0, 44] ++ List.replicate 94 0) 44 true false 0 = .acceptSync := by decide

end ScionTime.C08Csptp
