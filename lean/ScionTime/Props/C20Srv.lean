/-
  C20Srv — the NTS-KE server handlers (TLS and QUIC) as functions of the *segmented* request
  stream: clause "an NTS-KE record stream decodes to the same data however the transport
  segments the byte stream into reads" (C14) at the server, and the server half of C20
  ("server message: next protocol, algorithm, server, port, 8 cookies, end"; "on success
  client and server hold identical keys, the client's cookie pool is exactly the cookies
  issued").
  Model: ScionTime/Model/NtskeSrv.lean (handlers), Model/Ntske.lean (ReadData, pack, client
  fetcher), Model/Cookies.lean (cookie sealing over an abstract AEAD).
  TLS itself (handshake, that both ends export equal values) is a parameter: the two exporter
  outputs appear as `c2s`/`s2c` on both sides of the composition theorem.
-/
import ScionTime.Model.NtskeSrv
import ScionTime.Props.C20
import ScionTime.Props.C10
import ScionTime.Proofs.CookieCodec
import ScionTime.Gen.Ntske
import ScionTime.Gen.Server
namespace ScionTime.C20Srv
open ScionTime.Ntske ScionTime.NtskeSrv ScionTime.C20

/-! ### Pins -/

theorem C20Srv_pin_error_codes :
    Gen.Ntske.ErrorCodeBadRequest = errBadRequest ∧ Gen.Ntske.ErrorCodeInternalServer = errInternalServer := by
  decide

/-- Structural facts regenerated from core/server/ntske_ip.go, ntske_scion.go and ntske.go on
    every run (harness/extract/x_c20srv.go): each handler hands a `bufio.Reader` made directly on
    the connection / the accepted stream to `ntske.ReadData` (no intermediate copy, no single
    `Read`), answers a read failure with the bad-request code and nothing else, closes by
    `defer`, and `newNTSKEMsg` makes `numCookies` attempts. -/
theorem C20Srv_pin_handlers :
    Gen.Server.ntskeTLSReaderArg = "bufio.NewReader(conn)" ∧
    Gen.Server.ntskeQUICReaderArg = "bufio.NewReader(stream)" ∧
    Gen.Server.ntskeTLSConnReads = 0 ∧ Gen.Server.ntskeQUICStreamReads = 0 ∧
    Gen.Server.ntskeTLSReadErrCode = "ntske.ErrorCodeBadRequest" ∧
    Gen.Server.ntskeQUICReadErrCode = "ntske.ErrorCodeBadRequest" ∧
    Gen.Server.ntskeTLSDefer = "conn.Close()" ∧ Gen.Server.ntskeQUICDefer = "stream.Close()" ∧
    Gen.Server.ntskeCookieAttempts = (numCookies : Int) := by
  decide

/-- the two error messages, byte for byte -/
theorem C20Srv_error_messages :
    errorMsg errBadRequest = [128, 2, 0, 2, 0, 1] ∧ errorMsg errInternalServer = [128, 2, 0, 2, 0, 2] := by
  decide

/-! ### Independence of the segmentation -/

/-- The request stream is *valid*: well-formed accepted records (recognised kind other than
    error, or unrecognised without the critical bit) followed by an end-of-message header;
    what follows is not looked at. This is a property of the byte string alone. -/
def ValidRequest (bs : List Byte) : Prop := ∃ items, Accepts bs items

/-- `ReadData` succeeds on a delivery exactly when the bytes delivered are a valid request
    stream — whatever the segmentation. -/
theorem C20Srv_valid_iff_readData_ok (chunks : List (List Byte)) :
    (∃ d, readData chunks {} = (d, none)) ↔ ValidRequest chunks.flatten := by
  constructor
  · rintro ⟨d, h⟩
    rw [readData_eq_readFlat, readFlat_ok_iff] at h
    obtain ⟨items, t1, t0, l1, l0, tail, hs, hz, hall, _⟩ := h
    exact ⟨items, t1, t0, l1, l0, tail, hs, hz, hall⟩
  · rintro ⟨items, t1, t0, l1, l0, tail, hs, hz, hall⟩
    refine ⟨items.foldl Item.apply {}, ?_⟩
    rw [readData_eq_readFlat, readFlat_ok_iff]
    exact ⟨items, t1, t0, l1, l0, tail, hs, hz, hall, rfl⟩

/-- a stream on which the reader fails (delivered in one piece) is not valid -/
theorem C20Srv_error_not_valid (bs : List Byte) (h : (readData [bs] {}).2 ≠ none) : ¬ ValidRequest bs := by
  intro hv
  obtain ⟨d, hd⟩ := (C20Srv_valid_iff_readData_ok [bs]).mpr (by simpa using hv)
  rw [hd] at h
  exact h rfl

/-- **Segmentation independence of the handler's decision and response**, for every stream —
    valid or not — and every way of cutting it into reads (empty reads included), over TLS and
    over QUIC: two deliveries of the same bytes get the same verdict and the same bytes back. -/
theorem C20Srv_segmentation_independent (c : Conn) (r' : List (List Byte))
    (h : r'.flatten = c.request.flatten) :
    verdict { c with request := r' } = verdict c ∧ handle { c with request := r' } = handle c := by
  have hv : verdict { c with request := r' } = verdict c := by
    unfold verdict
    simp only [readData_eq_readFlat, h]
  exact ⟨hv, by unfold handle; rw [hv]⟩

/-- non-vacuity: the client's request cut after 5 bytes and delivered whole are such a pair -/
example : ([[128, 1, 0, 2, 0], [0, 128, 4, 0, 2, 0, 15, 128, 0, 0, 0]] : List (List Byte)).flatten
    = ([packMsg clientMsg] : List (List Byte)).flatten := by decide

/-- A handler that looks at the result of a single `Read` only is *not* independent of the
    segmentation: the client's request in one TLS record is served, the same bytes in two
    records get the bad-request error (this is the shape of a realistic "bound the request
    size" edit; the theorem above excludes it for the code as modelled, the pin
    `C20Srv_pin_handlers` and the live streams of harness c20srv tie the model to the code). -/
theorem C20Srv_single_read_depends_on_segmentation :
    let c1 : Conn := { request := [packMsg clientMsg], c2s := [1], s2c := [2], localIP := [49],
                       localPort := 123, cookies := [some [7]] }
    let c2 : Conn := { c1 with request := [[128, 1, 0, 2, 0], [0, 128, 4, 0, 2, 0, 15, 128, 0, 0, 0]] }
    handleSingleRead 1024 c1 = handle c1 ∧ handle c2 = handle c1 ∧
    handleSingleRead 1024 c2 = .wrote (errorMsg errBadRequest) ∧
    handle c1 ≠ .wrote (errorMsg errBadRequest) := by
  decide

/-! ### The decision -/

/-- Exact characterisation of the verdict (TLS, or QUIC with a stream): bad request iff the
    byte stream is not valid; internal error iff it is valid and the exporter failed or not one
    cookie could be sealed; otherwise the response message. -/
theorem C20Srv_verdict_iff (c : Conn) (hs : c.quic = false ∨ c.streamOk = true) :
    ((∃ e, verdict c = .badRequest e) ↔ ¬ ValidRequest c.request.flatten) ∧
    (verdict c = .exportFailed ↔ ValidRequest c.request.flatten ∧ c.exportOk = false) ∧
    (verdict c = .noCookie ↔ ValidRequest c.request.flatten ∧ c.exportOk = true ∧
        c.cookies.filterMap id = []) ∧
    (∀ msg, verdict c = .respond msg ↔ ValidRequest c.request.flatten ∧ c.exportOk = true ∧
        c.cookies.filterMap id ≠ [] ∧
        msg = [.nextProto ntpv4, .algorithm [aesSivCmac256], .server c.localIP false,
               .port (c.localPort % 65536) false] ++ (c.cookies.filterMap id).map .cookie ++ [.end_]) := by
  have hns : ¬(c.quic = true ∧ (!c.streamOk) = true) := by
    rcases hs with h | h <;> simp [h]
  have hvalid := C20Srv_valid_iff_readData_ok c.request
  unfold verdict
  simp only [hns, if_false]
  cases hr : readData c.request {} with
  | mk d r =>
    rw [hr] at hvalid
    cases r with
    | some e =>
      have hnv : ¬ ValidRequest c.request.flatten := by
        intro hv
        obtain ⟨d', hd'⟩ := hvalid.mpr hv
        cases hd'
      simp [hnv]
    | none =>
      have hv : ValidRequest c.request.flatten := hvalid.mp ⟨d, rfl⟩
      by_cases hx : c.exportOk = true
      case neg =>
        have hx' : c.exportOk = false := by simpa using hx
        simp [hv, hx']
      simp only [hx, Bool.not_true, Bool.false_eq_true, if_false]
      unfold serverMsg
      cases hck : c.cookies.filterMap id with
      | nil => simp [hv]
      | cons a l => simp [hv, eq_comm]

/-- Totality (no panic, no hang on a finite stream, nothing but the three kinds of answer):
    the handler returns silently (QUIC without a stream only), or writes exactly one message —
    the bad-request error record, the internal-error record, or a response message — and
    closes. The read loop ends within one iteration per four request bytes
    (`C08Ntske_readData_total`: the model's fuel never runs out). -/
theorem C20Srv_outcomes (c : Conn) :
    (handle c = .silent ∧ c.quic = true ∧ c.streamOk = false) ∨
    (handle c = .wrote (errorMsg errBadRequest) ∧ ¬ ValidRequest c.request.flatten ∧
      ∃ e, verdict c = .badRequest e ∧ e ≠ .fuel) ∨
    (handle c = .wrote (errorMsg errInternalServer) ∧ ValidRequest c.request.flatten) ∨
    (∃ msg, handle c = .wrote (packMsg msg) ∧ verdict c = .respond msg ∧ ValidRequest c.request.flatten) := by
  by_cases hs : c.quic = false ∨ c.streamOk = true
  case neg =>
    simp only [not_or] at hs
    have h1 : c.quic = true := by simpa using hs.1
    have h2 : c.streamOk = false := by simpa using hs.2
    exact .inl ⟨by simp [handle, verdict, h1, h2, Verdict.out], h1, h2⟩
  obtain ⟨hb, hx, hn, hr⟩ := C20Srv_verdict_iff c hs
  cases hv : verdict c with
  | noStream =>
    exfalso
    unfold verdict at hv
    have hns : ¬(c.quic = true ∧ (!c.streamOk) = true) := by
      rcases hs with h | h <;> simp [h]
    simp only [hns, if_false] at hv
    split at hv
    · cases hv
    · split at hv
      · cases hv
      · split at hv <;> cases hv
  | badRequest e =>
    refine .inr (.inl ⟨by simp [handle, hv, Verdict.out], hb.mp ⟨e, hv⟩, e, rfl, ?_⟩)
    intro he
    subst he
    unfold verdict at hv
    have hns : ¬(c.quic = true ∧ (!c.streamOk) = true) := by
      rcases hs with h | h <;> simp [h]
    simp only [hns, if_false] at hv
    have hf := ScionTime.Ntske.Runs.ne_fuel (runs_readFlat c.request.flatten {})
    rw [← readData_eq_readFlat] at hf
    cases hr : readData c.request {} with
    | mk d r =>
      rw [hr] at hv hf
      cases r with
      | none =>
        simp only at hv
        split at hv
        · cases hv
        · split at hv <;> cases hv
      | some e' =>
        simp only [Verdict.badRequest.injEq] at hv
        subst hv
        exact hf rfl
  | exportFailed =>
    exact .inr (.inr (.inl ⟨by simp [handle, hv, Verdict.out], (hx.mp hv).1⟩))
  | noCookie =>
    exact .inr (.inr (.inl ⟨by simp [handle, hv, Verdict.out], (hn.mp hv).1⟩))
  | respond msg =>
    exact .inr (.inr (.inr ⟨msg, by simp [handle, hv, Verdict.out], rfl, ((hr msg).mp hv).1⟩))

/-- **Every malformed stream gets the bad-request error record** (TLS, or QUIC with a
    stream), whatever its segmentation: truncated at any byte, an error record, an
    unrecognised critical record, garbage. -/
theorem C20Srv_malformed_gets_bad_request (c : Conn) (hs : c.quic = false ∨ c.streamOk = true)
    (h : ¬ ValidRequest c.request.flatten) : handle c = .wrote [128, 2, 0, 2, 0, 1] := by
  obtain ⟨e, he⟩ := (C20Srv_verdict_iff c hs).1.mpr h
  rw [← C20Srv_error_messages.1]
  simp [handle, he, Verdict.out]

/-- non-vacuity: a request cut off inside its last header, and an unknown critical record -/
example : ¬ ValidRequest ([128, 1, 0, 2, 0, 0, 128, 4, 0, 2, 0, 15, 128, 0, 0] : List Byte) ∧
    ¬ ValidRequest ([128, 9, 0, 0, 128, 0, 0, 0] : List Byte) :=
  ⟨C20Srv_error_not_valid _ (by decide), C20Srv_error_not_valid _ (by decide)⟩

/-! ### The response -/

/-- **Shape of every response**: next protocol NTPv4, the single algorithm AES-SIV-CMAC-256,
    the local address, the configured NTP port (16 bits), then the cookies that could be sealed —
    at least one, at most as many as there were attempts — then end of message; and the handler
    wrote exactly that message in one piece. -/
theorem C20Srv_response_shape (c : Conn) (msg : List Rec) (h : verdict c = .respond msg) :
    let cs := c.cookies.filterMap id
    msg = [.nextProto ntpv4, .algorithm [aesSivCmac256], .server c.localIP false,
           .port (c.localPort % 65536) false] ++ cs.map .cookie ++ [.end_] ∧
    1 ≤ cs.length ∧ cs.length ≤ c.cookies.length ∧ handle c = .wrote (packMsg msg) := by
  have hs : c.quic = false ∨ c.streamOk = true := by
    by_cases hq : c.quic = false
    · exact .inl hq
    · by_cases ho : c.streamOk = true
      · exact .inr ho
      · exfalso
        have h1 : c.quic = true := by simpa using hq
        have h2 : c.streamOk = false := by simpa using ho
        simp [verdict, h1, h2] at h
  obtain ⟨_, _, hne, hm⟩ := ((C20Srv_verdict_iff c hs).2.2.2 msg).mp h
  refine ⟨hm, ?_, List.length_filterMap_le _ _, by simp [handle, h, Verdict.out]⟩
  cases hc : c.cookies.filterMap id with
  | nil => exact absurd hc hne
  | cons _ _ => simp

/-- The response does not depend on what the request offered — only on its being a valid
    record stream. (Observation about the code, not endorsed: RFC 8915 §4.1.2 / §4.1.5 would have
    a server refuse a request without the NTPv4 next-protocol record or without an AEAD
    algorithm it supports; this server answers an empty request — a lone end-of-message
    record — with a full response naming AES-SIV-CMAC-256.) -/
theorem C20Srv_request_content_ignored (c : Conn) (r' : List (List Byte))
    (h1 : ValidRequest c.request.flatten) (h2 : ValidRequest r'.flatten) :
    handle { c with request := r' } = handle c := by
  obtain ⟨d1, hd1⟩ := (C20Srv_valid_iff_readData_ok c.request).mpr h1
  obtain ⟨d2, hd2⟩ := (C20Srv_valid_iff_readData_ok r').mpr h2
  unfold handle verdict
  simp only [hd1, hd2]

/-- the empty request: a lone end-of-message record is served in full -/
example :
    handle { request := [[128, 0, 0, 0]], c2s := [1], s2c := [2], localIP := [49], localPort := 123,
             cookies := [some [7], none, some [9]] } =
      .wrote (packMsg [.nextProto 0, .algorithm [15], .server [49] false, .port 123 false,
                       .cookie [7], .cookie [9], .end_]) := by decide

/-- Over QUIC the handler does the same as over TLS once a stream has been accepted. -/
theorem C20Srv_quic_same_as_tls (c : Conn) (h : c.streamOk = true) :
    handle { c with quic := true } = handle { c with quic := false } := by
  simp [handle, verdict, h]

/-! ### End to end: the production client against the production server -/

/-- **Every delivery of the client's request is served.** The request the production client
    sends (next protocol, algorithm, end), cut into reads in any way, followed by anything,
    with unrecognised non-critical records in front: the server (exporter available, at least
    one cookie sealed) writes the response message. -/
theorem C20Srv_client_request_served (c : Conn) (hs : c.quic = false ∨ c.streamOk = true)
    (pre : List Item) (hpre : ∀ it ∈ pre, it.wf ∧ it.ignorable) (tail : List Byte)
    (hreq : c.request.flatten = pre.flatMap Item.enc ++ packMsg clientMsg ++ tail)
    (hx : c.exportOk = true) (hck : c.cookies.filterMap id ≠ []) :
    ∃ msg, serverMsg c.localIP c.localPort (c.cookies.filterMap id) = some msg ∧
      verdict c = .respond msg ∧ handle c = .wrote (packMsg msg) := by
  have hv : ValidRequest c.request.flatten := by
    obtain ⟨items, hes, hall, _⟩ := pack_items [.nextProto ntpv4, .algorithm [aesSivCmac256]]
      (by intro r hr
          simp only [List.mem_cons, List.not_mem_nil, or_false] at hr
          rcases hr with rfl | rfl
          · simp [Fits, ntpv4]
          · exact ⟨_, rfl, by decide⟩)
    refine ⟨pre ++ items, 128, 0, 0, 0, tail, ?_, by decide, ?_⟩
    · rw [hreq, List.flatMap_append, hes]
      simp [packMsg, clientMsg, Rec.pack, packHeader, u16, recEom]
    · intro it hit
      rcases List.mem_append.mp hit with h | h
      · have := hpre it h
        exact ⟨this.1, .inr ⟨this.2.2.1, this.2.2.2.1, this.2.2.2.2⟩⟩
      · exact hall it h
  have hmsg : ∃ msg, serverMsg c.localIP c.localPort (c.cookies.filterMap id) = some msg := by
    unfold serverMsg
    cases h : c.cookies.filterMap id with
    | nil => exact absurd h hck
    | cons _ _ => exact ⟨_, rfl⟩
  obtain ⟨msg, hm⟩ := hmsg
  have hvd : verdict c = .respond msg := by
    have hns : ¬(c.quic = true ∧ (!c.streamOk) = true) := by
      rcases hs with h | h <;> simp [h]
    obtain ⟨d, hd⟩ := (C20Srv_valid_iff_readData_ok c.request).mpr hv
    unfold verdict
    simp only [hns, if_false, hd, hx, Bool.not_true, Bool.false_eq_true, hm]
  exact ⟨msg, hm, hvd, by simp [handle, hvd, Verdict.out]⟩

/-- **End to end, every segmentation in both directions.** Server side: connection `c` on
    which the client's request arrives cut into reads in any way (`hreq`), exporter available,
    cookies `cs` sealed. Client side: exchange `e` whose stream is what the server wrote, cut
    into reads in any way (`hresp`), same transport, `ntske/1` negotiated, and — the one thing
    taken from TLS — both ends of the session export the same two values (`hk`). Then the
    client's key exchange succeeds and leaves exactly: the session keys the server sealed into
    the cookies, the server's address and NTP port, algorithm 15, and a cookie pool that is
    the cookies issued, in order; `FetchData` hands that out and keeps all but the first. -/
theorem C20Srv_end_to_end (c : Conn) (hs : c.quic = false ∨ c.streamOk = true)
    (tail : List Byte) (hreq : c.request.flatten = packMsg clientMsg ++ tail)
    (hx : c.exportOk = true) (hck : c.cookies.filterMap id ≠ [])
    (hip : c.localIP.length < 65536) (hlen : ∀ k ∈ c.cookies.filterMap id, k.length < 65536)
    (e : Exchange) (hd : e.dialOk = true) (ha : e.quic = true ∨ e.alpn = alpnProto) (hex : e.exportOk = true)
    (hk : e.c2s = c.c2s ∧ e.s2c = c.s2c)
    (hresp : handle c = .wrote e.stream.flatten) (cached : Data) (hempty : cached.cookies = []) :
    let d : Data := { c2s := c.c2s, s2c := c.s2c, server := c.localIP, port := c.localPort % 65536,
                      cookies := c.cookies.filterMap id, algo := aesSivCmac256 }
    exchangeKeys cached e = (d, none) ∧
    (fetchData cached e).out = .ok d ∧
    (fetchData cached e).cached.cookies = (c.cookies.filterMap id).drop 1 := by
  obtain ⟨msg, hm, _, hw⟩ := C20Srv_client_request_served c hs [] (by simp) tail (by simpa using hreq) hx hck
  rw [hw] at hresp
  have hflat : e.stream.flatten = packMsg msg := by
    simp only [Out.wrote.injEq] at hresp; exact hresp.symm
  have hex' := C20_server_message_accepted c.localIP c.localPort (c.cookies.filterMap id) msg hm hip hlen
    e hd ha hex hflat cached
  rw [hk.1, hk.2] at hex'
  refine ⟨hex', ?_, ?_⟩
  · unfold fetchData fetchWith
    simp [hempty, hex']
  · unfold fetchData fetchWith
    simp [hempty, hex']

/-- a concrete instance of every hypothesis: request in three reads, response in two -/
example :
    let c : Conn := { request := [[128, 1, 0], [2, 0, 0, 128, 4, 0, 2, 0, 15, 128], [0, 0, 0]], c2s := [1], s2c := [2],
                      localIP := [49], localPort := 123, cookies := [some [7], some [9]] }
    let e : Exchange := { dialOk := true, host := [50], alpn := "ntske/1", c2s := [1], s2c := [2],
                          stream := [[128, 1, 0, 2, 0, 0, 128, 4, 0, 2, 0, 15, 0, 6, 0, 1, 49, 0, 7, 0],
                                     [2, 0, 123, 0, 5, 0, 1, 7, 0, 5, 0, 1, 9, 128, 0, 0, 0]] }
    handle c = .wrote e.stream.flatten ∧
    exchangeKeys {} e = ({ c2s := [1], s2c := [2], server := [49], port := 123, cookies := [[7], [9]], algo := 15 }, none) := by
  decide

/-! ### What is inside the cookies -/

open ScionTime.Nts in
/-- **The cookies carry the session keys under the provider's current key.** For every AEAD
    with the round-trip law and the 16-byte tag, a current key of valid size, nonce draws that
    succeeded (16 bytes each), exporter values of the exported length: every one of the eight
    attempts yields a cookie; it decodes as an encrypted cookie naming the current key's id
    (16 bits), and opens under that key to exactly (AES-SIV-CMAC-256, S2C, C2S) of this
    session. Together with `C20Srv_end_to_end`: the keys the client holds after the exchange
    are the keys inside every cookie in its pool. -/
theorem C20Srv_cookies_open_to_session_keys (A : AEAD) (hl : A.Lawful) (hsz : A.Sized)
    (key : Bytes) (keyid : Nat) (c2s s2c : Bytes) (nonces : List (Option Bytes))
    (hk : keyOk key = true) (hn : ∀ n ∈ nonces, ∃ b, n = some b ∧ b.length = 16)
    (h1 : c2s.length < 32700) (h2 : s2c.length < 32700) :
    ∀ k ∈ sealCookies A key keyid c2s s2c nonces,
      ∃ b ec, k = some b ∧ ecDecode b = .ok ec ∧ ec.num = keyid % 65536 ∧
        decryptCookie A ec key = .ok ⟨aesSivCmac256, s2c, c2s⟩ := by
  intro k hkm
  unfold sealCookies at hkm
  obtain ⟨n, hnm, rfl⟩ := List.mem_map.mp hkm
  obtain ⟨nonce, rfl, hlen⟩ := hn n hnm
  have hct : (A.sealF key nonce (scEncode ⟨aesSivCmac256, s2c, c2s⟩) none).length < 65536 := by
    rw [hsz, show scEncode ⟨aesSivCmac256, s2c, c2s⟩ = encodeTLV cookieTypeAlgorithm cookieTypeKeyS2C cookieTypeKeyC2S
      ⟨aesSivCmac256, s2c, c2s⟩ from rfl, encodeTLV_length]
    simp only
    omega
  obtain ⟨ec, henc, hdec, hopen⟩ := ScionTime.C10.C10_cookie_roundtrip A hl ⟨aesSivCmac256, s2c, c2s⟩ key nonce keyid hk hlen
    (by show (15 : Nat) < 65536; omega) (by simp only; omega) (by simp only; omega) hct
  refine ⟨ecEncode ec, ec, ?_, hdec, ?_, hopen⟩
  · simp [sealOne, henc]
  · simp only [encryptCookie, hk, Bool.not_true, Bool.false_eq_true, if_false, sealC, hlen, ne_eq,
      not_true_eq_false, bind, Res.bind] at henc
    cases henc
    rfl

open ScionTime.Nts in
/-- the hypotheses are met (toy AEAD of Props/C10, 32-byte keys, two draws) -/
example : ∀ k ∈ sealCookies ScionTime.C10.toyAEAD (zeros 32) 7 (zeros 32) (zeros 32) [some (zeros 16), some (zeros 16)],
    ∃ b, k = some b ∧ b.length = 124 := by decide

end ScionTime.C20Srv
