import ScionTime.Gen.SkelC12
import ScionTime.Model.Skel.Provider

/-!
  Control-skeleton pins, group C12 (notes/SKEL.md): the control structure and the text of every
  condition, call and assignment of the functions below, re-read from /repo on every run
  (`Gen.Skel.*`, harness/extract/skeleton.go), are exactly the ones the hand-written models were
  written against (`Model.Skel.*`, annotated row by row with the model definition that mirrors
  each statement).  A broken pin means the code was edited inside a modelled function: the model
  has to be re-read against the rows named by the `SKEL-DIFF` diagnostic.
-/
namespace ScionTime

/-! diagnostics (not obligations): name the rows that differ when a pin below breaks -/
#eval Model.Skel.check "Provider.Key_IsValidAt" Gen.Skel.Provider.Key_IsValidAt Model.Skel.Provider.Key_IsValidAt
#eval Model.Skel.check "Provider.Provider_generateNext" Gen.Skel.Provider.Provider_generateNext Model.Skel.Provider.Provider_generateNext
#eval Model.Skel.check "Provider.NewProvider" Gen.Skel.Provider.NewProvider Model.Skel.Provider.NewProvider
#eval Model.Skel.check "Provider.Provider_Get" Gen.Skel.Provider.Provider_Get Model.Skel.Provider.Provider_Get
#eval Model.Skel.check "Provider.Provider_Current" Gen.Skel.Provider.Provider_Current Model.Skel.Provider.Provider_Current

/-! the pins -/
theorem C12_skel_Provider_Key_IsValidAt : Gen.Skel.Provider.Key_IsValidAt = Model.Skel.Provider.Key_IsValidAt := rfl
theorem C12_skel_Provider_Provider_generateNext : Gen.Skel.Provider.Provider_generateNext = Model.Skel.Provider.Provider_generateNext := rfl
theorem C12_skel_Provider_NewProvider : Gen.Skel.Provider.NewProvider = Model.Skel.Provider.NewProvider := rfl
theorem C12_skel_Provider_Provider_Get : Gen.Skel.Provider.Provider_Get = Model.Skel.Provider.Provider_Get := rfl
theorem C12_skel_Provider_Provider_Current : Gen.Skel.Provider.Provider_Current = Model.Skel.Provider.Provider_Current := rfl

end ScionTime
