import ScionTime.Gen.SkelC03
import ScionTime.Model.Skel.Client

/-!
  Control-skeleton pins, group C03 (notes/SKEL.md): the control structure and the text of every
  condition, call and assignment of the functions below, re-read from /repo on every run
  (`Gen.Skel.*`, harness/extract/skeleton.go), are exactly the ones the hand-written models were
  written against (`Model.Skel.*`, annotated row by row with the model definition that mirrors
  each statement).  A broken pin means the code was edited inside a modelled function: the model
  has to be re-read against the rows named by the `SKEL-DIFF` diagnostic.
-/
namespace ScionTime

/-! diagnostics (not obligations): name the rows that differ when a pin below breaks -/
#eval Model.Skel.check "Client.IPClient_measureClockOffsetIP" Gen.Skel.Client.IPClient_measureClockOffsetIP Model.Skel.Client.IPClient_measureClockOffsetIP
#eval Model.Skel.check "Client.SCIONClient_measureClockOffsetSCION" Gen.Skel.Client.SCIONClient_measureClockOffsetSCION Model.Skel.Client.SCIONClient_measureClockOffsetSCION
#eval Model.Skel.check "Client.MeasureClockOffsetIP" Gen.Skel.Client.MeasureClockOffsetIP Model.Skel.Client.MeasureClockOffsetIP
#eval Model.Skel.check "Client.MeasureClockOffsetSCION" Gen.Skel.Client.MeasureClockOffsetSCION Model.Skel.Client.MeasureClockOffsetSCION

/-! the pins -/
theorem C03_skel_Client_IPClient_measureClockOffsetIP : Gen.Skel.Client.IPClient_measureClockOffsetIP = Model.Skel.Client.IPClient_measureClockOffsetIP := rfl
theorem C03_skel_Client_SCIONClient_measureClockOffsetSCION : Gen.Skel.Client.SCIONClient_measureClockOffsetSCION = Model.Skel.Client.SCIONClient_measureClockOffsetSCION := rfl
theorem C03_skel_Client_MeasureClockOffsetIP : Gen.Skel.Client.MeasureClockOffsetIP = Model.Skel.Client.MeasureClockOffsetIP := rfl
theorem C03_skel_Client_MeasureClockOffsetSCION : Gen.Skel.Client.MeasureClockOffsetSCION = Model.Skel.Client.MeasureClockOffsetSCION := rfl

end ScionTime
