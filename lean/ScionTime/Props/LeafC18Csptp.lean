/-
  Kernel-checked ties (C18): `csptp.TimestampFromTime` and `csptp.TimeFromTimestamp` as regenerated
  from /repo's Go source on every run (Gen/LeafCsptp.lean; seventh generation of the leaf
  translator: fixed-size arrays as lists, array literals, constant array indices) are the model of
  Model/CsptpConv.lean — for every instant whose Unix seconds fit an int64 (±2^62 s), resp. every
  well-formed timestamp (six second bytes).
-/
import ScionTime.Gen.LeafCsptp
import ScionTime.Model.CsptpConv
import ScionTime.Proofs.GoPrelude
import ScionTime.Proofs.LeafBytes
namespace ScionTime.LeafTieC18Csptp
open ScionTime ScionTime.Gen.Leaf ScionTime.GoLemmas ScionTime.CsptpConv ScionTime.LeafBytes ScionTime.Wire

/-- view of a generated timestamp -/
def tsv (t : S_Timestamp) : Timestamp := { seconds := t.Seconds.map UInt8.toNat, ns := t.Nanoseconds.toNat }

/-- view of the result: both argument panics are `none` in the generated definition -/
def encv : Enc → Option Timestamp
  | .ok ts => some ts
  | _ => none

theorem C18_leaf_TimestampFromTime (t : Int)
    (h1 : -4611686018427387904 ≤ t / 1000000000) (h2 : t / 1000000000 ≤ 4611686018427387904) :
    (csptp_TimestampFromTime t).map tsv = encv (timestampFromTime t) := by
  unfold csptp_TimestampFromTime timestampFromTime nsPerSec Go.Time.unix
  have hs : (Int64.ofInt (t / 1000000000)).toInt = t / 1000000000 := toInt_ofInt_of_fits _ (by omega) (by omega)
  have h0 : (0 : Int64).toInt = 0 := by decide
  have hmax : ((Go.shl64 (1 : Int64) 48) - (1 : Int64)).toInt = 281474976710655 := by decide
  simp only []
  by_cases hneg : Int64.ofInt (t / 1000000000) < 0
  · have : t / 1000000000 < 0 := by have := Int64.lt_iff_toInt_lt.mp hneg; omega
    rw [if_pos (by simpa using hneg), if_pos this]; rfl
  · have hnn : ¬ t / 1000000000 < 0 := fun h => hneg (Int64.lt_iff_toInt_lt.mpr (by omega))
    rw [if_neg (by simpa using hneg), if_neg hnn]
    by_cases hbig : Int64.ofInt (t / 1000000000) > (Go.shl64 (1 : Int64) 48) - (1 : Int64)
    · have : t / 1000000000 > 2 ^ 48 - 1 := by have := Int64.lt_iff_toInt_lt.mp hbig; omega
      rw [if_pos (by simpa using hbig), if_pos this]; rfl
    · have hle : ¬ t / 1000000000 > 2 ^ 48 - 1 := by
        intro h; apply hbig; apply Int64.lt_iff_toInt_lt.mpr; omega
      rw [if_neg (by simpa using hbig), if_neg hle]
      simp only [Option.map_some, encv, tsv, Option.some.injEq, Timestamp.mk.injEq, List.map_cons, List.map_nil]
      have hu : (Int64.ofInt (t / 1000000000)).toUInt64.toNat = (t / 1000000000).toNat := by
        have := toNat_toUInt64 (Int64.ofInt (t / 1000000000)); omega
      constructor
      · simp only [u64_b5, u64_b4, u64_b3, u64_b2, u64_b1]
        simp only [u64_b0, hu, secBytes]
        simp
      · unfold Go.Time.nanosecond
        have hn : (Int64.ofInt (t % 1000000000)).toInt = t % 1000000000 := toInt_ofInt_of_fits _ (by omega) (by omega)
        have := toNat_narrow32 (Int64.ofInt (t % 1000000000))
        omega

theorem list6 {α : Type} (l : List α) (h : l.length = 6) : ∃ a b c d e f, l = [a, b, c, d, e, f] := by
  match l, h with
  | [a, b, c, d, e, f], _ => exact ⟨a, b, c, d, e, f, rfl⟩

theorem C18_leaf_TimeFromTimestamp (t : S_Timestamp) (h6 : t.Seconds.length = 6) :
    csptp_TimeFromTimestamp t = timeFromTimestamp (tsv t) := by
  obtain ⟨a, b, c, d, e, f, hl⟩ := list6 t.Seconds h6
  unfold csptp_TimeFromTimestamp timeFromTimestamp tsv nsPerSec Go.unixTime
  simp only [hl, Go.arrGet, List.getD_cons_zero, List.getD_cons_succ, List.map_cons, List.map_nil, secOfBytes]
  have hbe := be48 a b c d e f
  have ha := a.toNat_lt; have hb := b.toNat_lt; have hc := c.toNat_lt; have hd := d.toNat_lt
  have he := e.toNat_lt; have hf := f.toNat_lt
  generalize (((((a.toUInt64 <<< (40 : UInt64) ||| b.toUInt64 <<< (32 : UInt64)) ||| c.toUInt64 <<< (24 : UInt64)) |||
    d.toUInt64 <<< (16 : UInt64)) ||| e.toUInt64 <<< (8 : UInt64)) ||| f.toUInt64) = s at hbe ⊢
  simp only [beVal, List.length_cons, List.length_nil] at hbe
  have hs : s.toInt64.toInt = s.toNat := by
    have h2 : s.toInt64.toInt = s.toInt64.toBitVec.toInt := rfl
    have h3 : s.toInt64.toBitVec.toNat = s.toNat := rfl
    rw [h2, BitVec.toInt_eq_toNat_cond, h3]
    split <;> omega
  rw [hs, toInt_widen32, hbe]
  simp only [Nat.reducePow, Nat.reduceAdd]
  omega

/-- non-vacuity through the generated definitions: 2021-01-01T00:00:00.5Z and back; both panics -/
example : (csptp_TimestampFromTime 1609459200500000000).map tsv = some ⟨[0, 0, 95, 238, 102, 0], 500000000⟩ := by decide
example : (csptp_TimestampFromTime 1609459200500000000).map csptp_TimeFromTimestamp = some 1609459200500000000 := by decide
example : csptp_TimestampFromTime (-1) = none ∧ csptp_TimestampFromTime (281474976710656 * 1000000000) = none := by decide

end ScionTime.LeafTieC18Csptp
