import ScionTime.Gen.SkelC16
import ScionTime.Model.Skel.Collect
import ScionTime.Model.Skel.Sync

/-!
  Control-skeleton pins, group C16 (notes/SKEL.md): the control structure and the text of every
  condition, call and assignment of the functions below, re-read from /repo on every run
  (`Gen.Skel.*`, harness/extract/skeleton.go), are exactly the ones the hand-written models were
  written against (`Model.Skel.*`, annotated row by row with the model definition that mirrors
  each statement).  A broken pin means the code was edited inside a modelled function: the model
  has to be re-read against the rows named by the `SKEL-DIFF` diagnostic.
-/
namespace ScionTime

/-! diagnostics (not obligations): name the rows that differ when a pin below breaks -/
#eval Model.Skel.check "Collect.collectMeasurements" Gen.Skel.Collect.collectMeasurements Model.Skel.Collect.collectMeasurements
#eval Model.Skel.check "Collect.ReferenceClockClient_MeasureClockOffsets" Gen.Skel.Collect.ReferenceClockClient_MeasureClockOffsets Model.Skel.Collect.ReferenceClockClient_MeasureClockOffsets
#eval Model.Skel.check "Sync.Run" Gen.Skel.Sync.Run Model.Skel.Sync.Run
#eval Model.Skel.check "Sync.measureOffsetToRefClks" Gen.Skel.Sync.measureOffsetToRefClks Model.Skel.Sync.measureOffsetToRefClks
#eval Model.Skel.check "Sync.localReferenceClock_MeasureClockOffset" Gen.Skel.Sync.localReferenceClock_MeasureClockOffset Model.Skel.Sync.localReferenceClock_MeasureClockOffset

/-! the pins -/
theorem C16_skel_Collect_collectMeasurements : Gen.Skel.Collect.collectMeasurements = Model.Skel.Collect.collectMeasurements := rfl
theorem C16_skel_Collect_ReferenceClockClient_MeasureClockOffsets : Gen.Skel.Collect.ReferenceClockClient_MeasureClockOffsets = Model.Skel.Collect.ReferenceClockClient_MeasureClockOffsets := rfl
theorem C16_skel_Sync_Run : Gen.Skel.Sync.Run = Model.Skel.Sync.Run := rfl
theorem C16_skel_Sync_measureOffsetToRefClks : Gen.Skel.Sync.measureOffsetToRefClks = Model.Skel.Sync.measureOffsetToRefClks := rfl
theorem C16_skel_Sync_localReferenceClock_MeasureClockOffset : Gen.Skel.Sync.localReferenceClock_MeasureClockOffset = Model.Skel.Sync.localReferenceClock_MeasureClockOffset := rfl

end ScionTime
