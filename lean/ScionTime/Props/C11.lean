/-
  C11 — NTS cookie lifecycle: single use, pool capped at eight, requests always fit.
  Models: ScionTime/Model/NtsPool.lean (FetchData / StoreCookie, one client exchange),
  Model/Nts.lean (NewRequestPacket, EncodePacket, the listeners' NTS branch, NewResponsePacket).
-/
import ScionTime.Proofs.NtsReply
import ScionTime.Model.NtsPool
import ScionTime.Gen.Nts
import ScionTime.Gen.Server
import ScionTime.Gen.Client
namespace ScionTime.C11
open ScionTime.Nts ScionTime.NtsPool

theorem C11_pin_numStoredCookies : Gen.Nts.numStoredCookies = (numStoredCookies : Int) := by decide
theorem C11_pin_MaxPacketLen : Gen.Nts.MaxPacketLen = (maxPacketLen : Int) := by decide
theorem C11_pin_ntpPacketLen : Gen.Nts.ntpPacketLen = (ntpPacketLen : Int) := by decide

set_option maxRecDepth 100000 in
/-- The listeners' NTS branch is modelled by `serverReply` (and transcribed by the harness, which
    cannot call the listeners without sockets). Pin: the sequence of calls into net/nts and
    net/ntske, and the bound of the cookie loop, in `runIPServer` and `runSCIONServer` are the ones
    the model follows (regenerated from the sources on every run). -/
theorem C11_pin_ntsBranch :
    Gen.Server.ntsBranch_runIPServer = "nts.DecodePacket;ntsreq.FirstCookie;encryptedCookie.Decode;provider.Get;encryptedCookie.Decrypt;nts.ProcessRequest;provider.Current;range(len(ntsreq.Cookies)+len(ntsreq.CookiePlaceholders));serverCookie.EncryptWithNonce;encryptedCookie.Encode;nts.NewResponsePacket;nts.EncodePacket" ∧
    Gen.Server.ntsBranch_runSCIONServer = Gen.Server.ntsBranch_runIPServer := by
  decide

/-! ### the cookies this project's servers issue are 124 bytes -/

/-- Derived in the model: `EncryptWithNonce` + `Encode` of a session with two 32-byte keys
    (AES-SIV-CMAC-256) under any AEAD with SIV's 16-byte tag: 14 + 16 + (14 + 32 + 32 + 16). -/
theorem C11_issued_cookie_length (A : AEAD) (hs : A.Sized) (sc : Triple) (key nonce : Bytes) (keyid : Nat) (ec : Triple)
    (hx : sc.x.length = 32) (hy : sc.y.length = 32) (hn : nonce.length = 16)
    (h : encryptCookie A sc key keyid nonce = .ok ec) : (ecEncode ec).length = 124 := by
  unfold encryptCookie at h
  split at h
  · cases h
  · simp only [sealC, hn, ne_eq, not_true_eq_false, if_false, bind, Res.bind, Res.pure_eq, Res.ok.injEq] at h
    subst h
    have := issued_length A hs sc key keyid nonce hn
    simp only [issued, hx, hy] at this
    simp only [ecEncode, encodeTLV_length] at this ⊢
    omega

/-- seven cookie fields of that size fit next to a 32-byte identifier and the authenticator -/
theorem C11_maxFields : maxNumCookies 32 124 = 7 := by decide

/-! ### request shape and size -/

/-- **request_shape (packet).** `NewRequestPacket` puts exactly the first cookie of the pool into
    the request and adds placeholders (zeros of the cookie's length) for the cookies missing from
    the pool of eight — capped at what fits `MaxPacketLen`. -/
theorem C11_request_shape (pool : List Bytes) (c2s uid : Bytes) (p : Packet)
    (h : newRequestPacket pool c2s uid = .ok p) :
    ∃ c rest, pool = c :: rest ∧ p.uid = uid ∧ p.cookies = [c] ∧ p.key = c2s ∧ p.pt = [] ∧
      p.placeholders = List.replicate (min (numStoredCookies - pool.length) (maxNumCookies 32 c.length - 1)) (zeros c.length) := by
  unfold newRequestPacket newRequestPacketG at h
  cases pool with
  | nil => simp at h
  | cons c rest =>
    simp only [if_true, Res.ok.injEq] at h
    subst h
    exact ⟨c, rest, rfl, rfl, rfl, rfl, rfl, rfl⟩

/-- **request_shape (wire) + fits.** For every pool level 1..8 of 124-byte cookies, every 32-byte
    identifier and AEAD with the size law: the request encodes (no panic, no truncation) to
    `124 + 128·(1 + k)` bytes with `k = min (8 − level) 6` — at most 1020 ≤ `MaxPacketLen` — and
    decoding it yields exactly one cookie (the pool's first) and `k` fields typed as placeholders. -/
theorem C11_request_on_wire (A : AEAD) (hs : A.Sized) (hdr : Bytes) (c : Bytes) (rest : List Bytes) (c2s uid nonce : Bytes)
    (hh : hdr.length = ntpPacketLen) (hu : uid.length = 32) (hk : keyOk c2s = true) (hn : nonce.length = 16)
    (hc : c.length = 124) (hlev : (c :: rest).length ≤ 8) :
    ∃ p b d, newRequestPacket (c :: rest) c2s uid = .ok p ∧ encodePacket A hdr p nonce = .ok b ∧
      b.length = 124 + 128 * (1 + min (8 - (c :: rest).length) 6) ∧ b.length ≤ maxPacketLen ∧
      decodePacket b = .ok d ∧ d.uid = uid ∧ d.cookies = [c] ∧ d.nph = min (8 - (c :: rest).length) 6 := by
  have hm : maxNumCookies 32 c.length - 1 = 6 := by rw [hc]; decide
  let k := min (8 - (c :: rest).length) 6
  have hp : newRequestPacket (c :: rest) c2s uid =
      .ok ⟨uid, [c], List.replicate k (zeros c.length), c2s, []⟩ := by
    simp only [newRequestPacket, newRequestPacketG, if_true, hm, numStoredCookies, k]
  have wf : WellFormed ⟨uid, [c], List.replicate k (zeros c.length), c2s, []⟩ := by
    refine ⟨by simp [hu], by simp [hu], ?_, ?_, by simp, hk⟩
    · intro v hv; simp at hv; subst hv; omega
    · intro v hv; simp only [List.mem_replicate] at hv; rw [hv.2]; simp [hc]
  have hk6 : k ≤ 6 := Nat.min_le_right _ _
  have hlen : packetLen ⟨uid, [c], List.replicate k (zeros c.length), c2s, []⟩ = 124 + 128 * (1 + k) := by
    simp only [packetLen, fieldsLen, fieldsLen_replicate, zeros_length, hu, hc, ntpPacketLen, List.length_nil]
    omega
  have fit : packetLen ⟨uid, [c], List.replicate k (zeros c.length), c2s, []⟩ ≤ maxPacketLen := by
    rw [hlen]; unfold maxPacketLen; omega
  obtain ⟨b, he0, he, hd⟩ := encode_decode A hs hdr _ nonce hh wf fit hn
  have hbl : b.length = 124 + 128 * (1 + k) := by
    have hct := hs c2s nonce [] (some (adOf true hdr ⟨uid, [c], List.replicate k (zeros c.length), c2s, []⟩))
    rw [he, ← hlen]
    simp [adOf_length, packetLen, hn, hh, hct]
  refine ⟨_, b, _, hp, he0, hbl, ?_, hd, rfl, rfl, ?_⟩
  · rw [hbl]; unfold maxPacketLen; omega
  · simp [k]

/-- **fits**, as the statement reads: for all pool levels 1..8 the request length is at most
    `MaxPacketLen` (constant regenerated from the repository, see the pins). -/
theorem C11_fits (level : Nat) (h1 : 1 ≤ level) (h8 : level ≤ 8) :
    124 + 128 * (1 + min (8 - level) 6) ≤ maxPacketLen ∧
    (2 ≤ level → 1 + min (8 - level) 6 = 9 - level) := by
  unfold maxPacketLen; omega

/-- F6 at the pinned commit: at level 1 `NewRequestPacket` asked for seven placeholders, the
    request needs 1148 bytes > 1024 … -/
theorem C11_fits_old_false :
    (newRequestPacketOld [zeros 124] (zeros 32) (zeros 32)).bind (fun p => .ok (p.placeholders.length, packetLen p))
      = .ok (7, 1148) ∧ ¬ (1148 ≤ maxPacketLen) := by
  decide

/-- a toy AEAD satisfying both laws (tag = 16 zero bytes) for the concrete instances -/
def toyAEAD : AEAD where
  sealF _ _ p _ := p ++ zeros 16
  openF _ _ c _ := some (c.take (c.length - 16))

example : toyAEAD.Sized ∧ toyAEAD.Lawful :=
  ⟨by intro k n p ad; simp [toyAEAD], by intro k n p ad; simp [toyAEAD]⟩

/-- an AEAD satisfying all three laws (`Open` checks the 16-byte zero tag) -/
def tagAEAD : AEAD where
  sealF _ _ p _ := p ++ zeros 16
  openF _ _ c _ := if 16 ≤ c.length ∧ c.drop (c.length - 16) = zeros 16 then some (c.take (c.length - 16)) else none

example : tagAEAD.Sized ∧ tagAEAD.Lawful ∧ tagAEAD.OpenSized := by
  refine ⟨by intro k n p ad; simp [tagAEAD], ?_, ?_⟩
  · intro k n p ad; simp [tagAEAD]
  · intro k n c ad p h
    simp only [tagAEAD] at h
    split at h
    · rename_i hc
      injection h with h
      subst h
      simp only [List.length_take]
      omega
    · cases h

set_option maxRecDepth 100000 in
/-- … and `EncodePacket` panics with an index out of range on its 1024-byte buffer (the client
    process dies after seven consecutive lost responses); after the fix the same pool yields a
    1020-byte request. -/
theorem C11_level1_panics_old :
    (newRequestPacketOld [zeros 124] (zeros 32) (zeros 32) >>= fun p => encodePacketOld toyAEAD (zeros 48) p (zeros 16))
      = .panic .index ∧
    ((newRequestPacket [zeros 124] (zeros 32) (zeros 32) >>= fun p => encodePacket toyAEAD (zeros 48) p (zeros 16)).bind
      fun b => .ok b.length) = .ok 1020 := by
  decide

/-! ### single use -/

/-- Pool histories over ghost-tagged cookies: a request takes the head of the pool
    (`FetchData` hands out `Cookie[0]` and pops it), a store appends. -/
inductive Ev
  | request
  | store (tag : Nat)

structure PS where
  pool : List Nat
  sent : List Nat

def stepEv (s : PS) : Ev → PS
  | .request =>
    match fetchData s.pool with
    | none => s            -- empty pool: the client re-keys (C20), nothing is sent from this pool
    | some (data, rest) => { pool := rest, sent := s.sent ++ data.take 1 }
  | .store t => { s with pool := storeCookie s.pool t }

def run (s : PS) : List Ev → PS
  | [] => s
  | e :: es => run (stepEv s e) es

/-- stored cookies are fresh: never seen before in this history (the server seals every cookie
    with a new random nonce; the harness checks that no cookie bytes repeat). -/
def FreshRun (s : PS) : List Ev → Prop
  | [] => True
  | e :: es => (∀ t, e = .store t → t ∉ s.pool ∧ t ∉ s.sent) ∧ FreshRun (stepEv s e) es

theorem C11_single_use_step (s : PS) (e : Ev) (h : (s.pool ++ s.sent).Nodup)
    (hf : ∀ t, e = .store t → t ∉ s.pool ∧ t ∉ s.sent) : ((stepEv s e).pool ++ (stepEv s e).sent).Nodup := by
  cases e with
  | request =>
    cases hp : s.pool with
    | nil => simp [stepEv, fetchData, hp] at h ⊢; exact h
    | cons c rest =>
      rw [hp] at h
      simp only [stepEv, fetchData, hp, List.take_succ_cons, List.take_zero]
      have : (rest ++ (s.sent ++ [c])).Perm (c :: (rest ++ s.sent)) := by
        rw [← List.append_assoc]
        exact List.perm_append_comm
      exact (List.Perm.nodup_iff this).mpr h
  | store t =>
    obtain ⟨h1, h2⟩ := hf t rfl
    simp only [stepEv, storeCookie]
    have : ((s.pool ++ [t]) ++ s.sent).Perm (t :: (s.pool ++ s.sent)) := by
      simp only [List.append_assoc, List.singleton_append]
      exact List.perm_middle
    refine (List.Perm.nodup_iff this).mpr (List.nodup_cons.mpr ⟨?_, h⟩)
    simp [h1, h2]

/-- **single_use.** Along every history of requests and stores of fresh cookies, starting from a
    pool of distinct cookies, no cookie is sent twice (and nothing sent is ever back in the pool). -/
theorem C11_single_use (evs : List Ev) (s : PS) (h : (s.pool ++ s.sent).Nodup) (hf : FreshRun s evs) :
    (run s evs).sent.Nodup ∧ ∀ t ∈ (run s evs).sent, t ∉ (run s evs).pool := by
  induction evs generalizing s with
  | nil =>
    simp only [run]
    exact ⟨(List.nodup_append.mp h).2.1, fun t ht hp => (List.nodup_append.mp h).2.2 t hp t ht rfl⟩
  | cons e es ih => exact ih (stepEv s e) (C11_single_use_step s e h hf.1) hf.2

example : FreshRun ⟨[1, 2], []⟩ [.request, .store 3, .request, .request, .request, .store 4] := by
  simp [FreshRun, stepEv, fetchData, storeCookie]

/-! ### pool accounting -/

/-- a request takes exactly one cookie from a non-empty pool -/
theorem C11_request_pops_one (A : AEAD) (st : Client) (hdr rnd : Bytes) (h : st.pool ≠ []) :
    (request A st hdr rnd).1.pool.length + 1 = st.pool.length := by
  cases hp : st.pool with
  | nil => exact absurd hp h
  | cons c rest =>
    simp only [request, fetchData, hp]
    split <;> simp

/-- an accepted response appends exactly the cookies `ProcessResponse` authenticated; a rejected
    datagram leaves the pool untouched -/
theorem C11_response_stores (A : AEAD) (st : Client) (b : Bytes) :
    (∃ cs d, decodePacket b = .ok d ∧ processResponse A b st.s2c d st.reqId = .ok cs ∧
        (response A st b).1.pool = st.pool ++ cs ∧ (response A st b).2 = .ok ()) ∨
    ((response A st b).1 = st ∧ (response A st b).2 ≠ .ok ()) := by
  unfold response
  cases hd : decodePacket b with
  | ok d =>
    simp only [Res.bind_ok]
    cases hp : processResponse A b st.s2c d st.reqId with
    | ok cs => left; exact ⟨cs, d, rfl, hp, by simp [storeCookies_foldl], rfl⟩
    | err e => right; simp
    | panic p => right; simp
    | hang => right; simp
  | err e => right; simp
  | panic p => right; simp
  | hang => right; simp

/-- **pool_bounds / lossfree_full.** With a server that returns one cookie per requested field
    (`1 + min (8 − l) 6` of them, see `C11_request_on_wire` and `C11_server_reply_ok`), a
    successful exchange takes the pool from level `l ∈ 1..8` to `l − 1 + 1 + min (8 − l) 6`: never
    below `l`, never above eight, exactly eight from every level ≥ 2 — in particular a full pool
    stays full (from level 1 it reaches 7 and is full after the next exchange). -/
theorem C11_pool_bounds (l : Nat) (h1 : 1 ≤ l) (h8 : l ≤ 8) :
    l ≤ (l - 1) + (1 + min (8 - l) 6) ∧ (l - 1) + (1 + min (8 - l) 6) ≤ 8 ∧
    (2 ≤ l → (l - 1) + (1 + min (8 - l) 6) = 8) := by
  omega

theorem C11_lossfree_full : (8 - 1) + (1 + min (8 - 8) 6) = 8 := by decide


/-! ### the server side -/

/-- **server_reply_ok.** For every AEAD with the round-trip and size laws: when the listener's
    checks pass for a datagram `b` (it decodes to `d`, its first cookie `c0` decodes to `ec`, the
    provider has key `ec.num`, the cookie opens to session `sc` with two 32-byte keys, and
    `ProcessRequest` authenticates `b` under `sc`'s C2S key, yielding cookie list `cs`), then for
    every current key of valid size, response header and random stream the branch produces a reply
    `r` with: `|r| ≤ MaxPacketLen`, 4-byte aligned; it carries `min (as many as fit) (number of
    cookie + placeholder fields)` ≥ 1 fresh cookies; a requester with an aligned identifier decodes
    `r` and `ProcessResponse` under the S2C key and its identifier accepts it and recovers exactly
    those cookies; and every one of them decodes and opens under the *current* key, whose id it
    carries, to the same session `sc`.
    (`OpenSized`: `Open` only accepts ciphertexts 16 bytes longer than the plaintext — with it
    the request's cookie is proved to be at least the 124 bytes of an issued one, which is what makes
    the size test in `ProcessRequest` sufficient.) -/
theorem C11_server_reply_ok (A : AEAD) (hl : A.Lawful) (hs : A.Sized) (ho : A.OpenSized) (keys : Nat → Option Bytes) (curId : Nat) (curKey : Bytes)
    (b hdr rnd : Bytes) (d : Decoded) (c0 : Bytes) (ec sc : Triple) (key : Bytes) (cs : List Bytes)
    (hh : hdr.length = ntpPacketLen)
    (hd : decodePacket b = .ok d) (hc0 : firstCookie d = .ok c0) (hec : ecDecode c0 = .ok ec)
    (hkey : keys ec.num = some key) (hsc : decryptCookie A ec key = .ok sc)
    (hreq : processRequest A b sc.y d = .ok cs)
    (hx : sc.x.length = 32) (hy : sc.y.length = 32) (hnum : sc.num < 65536)
    (hcur : keyOk curKey = true) :
    ∃ r fresh, serverReply A keys curId curKey b hdr rnd = .ok r ∧ r.length ≤ maxPacketLen ∧ r.length % 4 = 0 ∧
      fresh.length = min (maxNumCookies d.uid.length 124) (cs.length + d.nph) ∧ 1 ≤ fresh.length ∧
      (d.uid.length % 4 = 0 → ∃ d', decodePacket r = .ok d' ∧ processResponse A r sc.x d' d.uid = .ok fresh) ∧
      ∀ f ∈ fresh, ∃ ec', ecDecode f = .ok ec' ∧ ec'.num = curId % 65536 ∧ decryptCookie A ec' curKey = .ok sc :=
  serverReply_ok A hl hs ho keys curId curKey b hdr rnd d c0 ec sc key cs hh hd hc0 hec hkey hsc hreq hx hy hnum hcur

/-- a client request as the model's own client builds it (pool of two issued cookies) -/
def sampleRequest : Res Bytes :=
  let ck := ecEncode ⟨1, zeros 16, scEncode ⟨15, zeros 32, zeros 32⟩ ++ zeros 16⟩
  newRequestPacket [ck, ck] (zeros 32) (zeros 32) >>= fun p => encodePacket toyAEAD (zeros 48) p (zeros 16)

set_option maxRecDepth 100000 in
/-- the hypotheses of `C11_server_reply_ok` are met by that request (and it asks for 7 cookies) -/
example :
    (do let b ← sampleRequest
        let d ← decodePacket b
        let c0 ← firstCookie d
        let ec ← ecDecode c0
        let sc ← decryptCookie toyAEAD ec (zeros 32)
        let cs ← processRequest toyAEAD b sc.y d
        pure (sc.x.length, sc.y.length, sc.num, c0.length, cs.length + d.nph, d.uid.length)) = .ok (32, 32, 15, 124, 7, 32) := by
  decide

/-- With the requests this project's client sends (32-byte identifier, `1 + k ≤ 7` fields) the cap
    does not bite: the reply carries exactly one cookie per field. -/
theorem C11_reply_count (n : Nat) (h : n ≤ 7) : min (maxNumCookies 32 124) n = n := by
  rw [C11_maxFields]; omega

/-! ### the cookie budget of a reply, for every unique-identifier length

`C11_server_reply_ok` is stated for the identifier the request carries (`d.uid`, any length the
listener admits). The three statements below isolate the arithmetic it rests on: the budget
`maxNumCookies u c` must be computed from the length `u` of the identifier that is echoed. -/

/-- bytes of a reply that echoes a `u`-byte identifier and carries `n` cookie fields of `c`
    bytes (`c` a multiple of 4, as every issued cookie is) inside its authenticator: header,
    identifier field, authenticator field (4 + 4 + 16-byte nonce + plaintext + 16-byte tag) -/
def replyLen (u c n : Nat) : Nat := ntpPacketLen + (4 + pad4 u) + (4 + 4 + 16 + (n * (4 + c) + 16))

/-- `replyLen` is the length of the reply in the model: for every identifier of at least 32 bytes
    (aligned or not) and `n` cookies of one aligned length `c`, if `replyLen` is within
    `MaxPacketLen` then `EncodePacket` of the response packet (plaintext = the `n` cookie fields)
    succeeds, untruncated, with exactly that many bytes. -/
theorem C11_reply_len (A : AEAD) (hs : A.Sized) (hdr uid key nonce : Bytes) (cs : List Bytes) (c : Nat)
    (hh : hdr.length = ntpPacketLen) (hu : 32 ≤ uid.length) (hk : keyOk key = true) (hn : nonce.length = 16)
    (hc : c % 4 = 0) (hcs : ∀ v ∈ cs, v.length = c) (fit : replyLen uid.length c cs.length ≤ maxPacketLen) :
    ∃ b, encodePacket A hdr ⟨uid, [], [], key, fields extCookie cs⟩ nonce = .ok b ∧
      b.length = replyLen uid.length c cs.length := by
  have hfl : (fields extCookie cs).length = cs.length * (4 + c) := by
    rw [fields_length, fieldsLen_uniform c cs hcs]
  have hpad : pad4 (cs.length * (4 + c) + 16) = cs.length * (4 + c) + 16 := by
    apply pad4_aligned
    have : (cs.length * (4 + c)) % 4 = 0 := by
      rw [Nat.mul_mod]; have : (4 + c) % 4 = 0 := by omega
      rw [this]; simp
    omega
  have fit' : ntpPacketLen + (4 + pad4 uid.length) + paddedLen ([] : List Bytes) + paddedLen ([] : List Bytes) +
      (24 + pad4 ((fields extCookie cs).length + 16)) ≤ maxPacketLen := by
    rw [hfl, hpad]; unfold replyLen at fit; simp [paddedLen]; omega
  obtain ⟨b, hb, hl⟩ := encode_len true A hs hdr ⟨uid, [], [], key, fields extCookie cs⟩ nonce hh hu hk hn fit'
  refine ⟨b, hb, ?_⟩
  rw [hl]
  simp only [hfl, hpad, paddedLen, List.map_nil, List.sum_nil]
  unfold replyLen; omega

/-- **budget_fits.** For every identifier length `u` and cookie length `c`: any number of cookies
    up to `maxNumCookies u c` (if that is at least one) gives a reply within `MaxPacketLen`. -/
theorem C11_budget_fits (u c n : Nat) (hc : c % 4 = 0) (h1 : 1 ≤ n) (hn : n ≤ maxNumCookies u c) :
    replyLen u c n ≤ maxPacketLen := by
  unfold maxNumCookies at hn
  have hp : pad4 c = c := by unfold pad4; omega
  rw [hp] at hn
  have hk : 0 < 4 + c := by omega
  have hmul := (Nat.le_div_iff_mul_le hk).mp hn
  have hpos : 0 < n * (4 + c) := Nat.mul_pos (by omega) hk
  unfold replyLen
  unfold maxPacketLen ntpPacketLen at *
  omega

/-- **budget_maximal** ("as many as fit"): one cookie more than `maxNumCookies u c` never fits,
    whenever the identifier itself leaves room for the authenticator. -/
theorem C11_budget_maximal (u c : Nat) (hc : c % 4 = 0) (hu : ntpPacketLen + (4 + pad4 u) + 40 ≤ maxPacketLen) :
    maxPacketLen < replyLen u c (maxNumCookies u c + 1) := by
  unfold maxNumCookies
  have hp : pad4 c = c := by unfold pad4; omega
  rw [hp]
  have hk : 0 < 4 + c := by omega
  generalize hB : maxPacketLen - ntpPacketLen - (4 + pad4 u) - 40 = B
  have hlt : B < (B / (4 + c) + 1) * (4 + c) := by
    have h1 := Nat.div_add_mod B (4 + c)
    have h2 := Nat.mod_lt B hk
    have h3 : (B / (4 + c) + 1) * (4 + c) = (4 + c) * (B / (4 + c)) + (4 + c) := by
      rw [Nat.add_mul, Nat.one_mul, Nat.mul_comm]
    omega
  unfold replyLen
  unfold maxPacketLen ntpPacketLen at *
  omega

/-- the budget as a function of the identifier length for the 124-byte cookies this project's
    servers issue: 7 only up to 36 bytes, 6 up to 164, …, 1 up to 804, none beyond (such
    requests are refused by `ProcessRequest`). -/
theorem C11_budget_by_uid (u : Nat) :
    (u ≤ 36 → maxNumCookies u 124 = 7) ∧ (36 < u → u ≤ 164 → maxNumCookies u 124 = 6) ∧
    (164 < u → u ≤ 292 → maxNumCookies u 124 = 5) ∧ (292 < u → u ≤ 420 → maxNumCookies u 124 = 4) ∧
    (420 < u → u ≤ 548 → maxNumCookies u 124 = 3) ∧ (548 < u → u ≤ 676 → maxNumCookies u 124 = 2) ∧
    (676 < u → u ≤ 804 → maxNumCookies u 124 = 1) ∧ (804 < u → maxNumCookies u 124 = 0) := by
  unfold maxNumCookies maxPacketLen ntpPacketLen pad4
  omega

/-- A budget computed for a 32-byte identifier is wrong for every longer one: next to a 37-byte
    identifier the seven cookies that fit next to a 32-byte one make a reply of 1028 bytes. -/
example : maxNumCookies 32 124 = 7 ∧ maxNumCookies 37 124 = 6 ∧ replyLen 37 124 7 = 1028 ∧
    replyLen 37 124 6 = 900 ∧ replyLen 32 124 7 = 1020 := by decide

/-- non-vacuity of `C11_budget_fits` / `C11_budget_maximal` at a long identifier -/
example : 124 % 4 = 0 ∧ 1 ≤ 2 ∧ 2 ≤ maxNumCookies 600 124 ∧ ntpPacketLen + (4 + pad4 600) + 40 ≤ maxPacketLen := by decide

/-! ### the receive loop of one exchange (client_ip.go / client_scion.go)

The clients look at up to `maxNumRetries + 1` datagrams per exchange. `DecodePacket` appends the
cleartext cookie fields of a datagram to the packet it is given *while it walks the datagram* —
before it knows whether a unique identifier or an authenticator follows — and `ProcessResponse`
stores everything that packet holds once a datagram authenticates. The statements below are about
the loop as the code has it (`recvLoop`: a packet value of its own per datagram): whatever a
refused datagram carried has no effect on the pool. -/

/-- `recvLoop` looks at `maxNumRetries + 1` datagrams: the constant of both client functions -/
theorem C11_pin_maxNumRetries :
    Gen.Client.maxNumRetriesIP = (maxNumRetries : Int) ∧ Gen.Client.maxNumRetriesSCION = (maxNumRetries : Int) := by decide

/-- `recvLoop` applies `response` — decoding from the empty packet — to every datagram: in both
    client functions the variable handed to `nts.DecodePacket` is declared inside the body of the
    receive loop (exported by `harness/extract/x_c11.go`). -/
theorem C11_pin_recvLoopPacketScope :
    Gen.Client.ntsRespPacketScopeIP = "loop" ∧ Gen.Client.ntsRespPacketScopeSCION = "loop" := by decide

/-- a datagram the NTS stage refuses (or that makes it crash) leaves the client's state as it was -/
theorem C11_response_refused_no_trace (A : AEAD) (st : Client) (b : Bytes) (h : (response A st b).2 ≠ .ok ()) :
    (response A st b).1 = st := by
  rcases C11_response_stores A st b with ⟨cs, d, _, _, _, hok⟩ | ⟨hst, _⟩
  · exact absurd hok h
  · exact hst

/-- **recv_loop_pool.** For every budget, state and sequence of datagrams: either the loop ends
    with `.ok true` and the pool has grown by exactly the cookies of ONE datagram `b` — those
    `ProcessResponse` returns for `b` decoded on its own from the empty packet, under the S2C key
    and the identifier of the outstanding request — every datagram in front of `b` was refused and
    `b` is within the budget; or nothing at all changed (no datagram was accepted). Nothing else
    of the client state changes either way. -/
theorem C11_recv_loop_pool (A : AEAD) (n : Nat) (st : Client) (ds : List Bytes) :
    (∃ pre b post d cs, ds = pre ++ b :: post ∧ pre.length < n ∧
        (∀ x ∈ pre, ∃ e, (response A st x).2 = .err e) ∧
        decodePacket b = .ok d ∧ processResponse A b st.s2c d st.reqId = .ok cs ∧
        recvLoop A n st ds = ({ st with pool := st.pool ++ cs }, .ok true)) ∨
    ((recvLoop A n st ds).1 = st ∧ (recvLoop A n st ds).2 ≠ .ok true) := by
  induction n generalizing ds with
  | zero => right; simp [recvLoop]
  | succ n ih =>
    cases ds with
    | nil => right; simp [recvLoop]
    | cons b rest =>
      rcases C11_response_stores A st b with ⟨cs, d, hd, hp, hpool, hok⟩ | ⟨hst, hne⟩
      · left
        refine ⟨[], b, rest, d, cs, rfl, Nat.succ_pos n, by simp, hd, hp, ?_⟩
        have hr : response A st b = ({ st with pool := st.pool ++ cs }, .ok ()) := by
          unfold response
          simp only [hd, Res.bind_ok, hp, storeCookies_foldl]
        simp only [recvLoop, hr]
      · cases hr : (response A st b).2 with
        | ok u => exact absurd (by rw [hr]) hne
        | err e =>
          have hstep : recvLoop A (n + 1) st (b :: rest) = recvLoop A n st rest := by
            have : response A st b = (st, .err e) := Prod.ext hst hr
            simp only [recvLoop, this]
          rcases ih rest with ⟨pre, b', post, d, cs, hds, hlen, hpre, hd, hp, hloop⟩ | hno
          · left
            refine ⟨b :: pre, b', post, d, cs, by simp [hds], by simp; omega, ?_, hd, hp, by rw [hstep, hloop]⟩
            intro x hx
            rcases List.mem_cons.mp hx with rfl | hx
            · exact ⟨e, hr⟩
            · exact hpre x hx
          · right; rw [hstep]; exact hno
        | panic p =>
          right
          have : response A st b = (st, .panic p) := Prod.ext hst hr
          simp [recvLoop, this]
        | hang =>
          right
          have : response A st b = (st, .hang) := Prod.ext hst hr
          simp [recvLoop, this]

/-- **recv_junk_prefix.** A refused datagram in front costs one retry and nothing else: the loop
    continues on the remaining datagrams from the very same state. -/
theorem C11_recv_junk_prefix (A : AEAD) (n : Nat) (st : Client) (j : Bytes) (ds : List Bytes) (e : Err)
    (hj : (response A st j).2 = .err e) :
    recvLoop A (n + 1) st (j :: ds) = recvLoop A n st ds := by
  have hst : (response A st j).1 = st := C11_response_refused_no_trace A st j (by rw [hj]; simp)
  have : response A st j = (st, .err e) := Prod.ext hst hj
  simp only [recvLoop, this]

/-- … so with the clients' budget (`maxNumRetries + 1 = 2`) the history [refused datagram,
    reply] ends exactly like the reply alone: same pool, same verdict. -/
theorem C11_recv_junk_then_reply (A : AEAD) (st : Client) (j g : Bytes) (e : Err)
    (hj : (response A st j).2 = .err e) (u : Unit) (hg : (response A st g).2 = .ok u) :
    recvLoop A (maxNumRetries + 1) st [j, g] = ((response A st g).1, .ok true) := by
  rw [show maxNumRetries + 1 = 1 + 1 from rfl, C11_recv_junk_prefix A 1 st j [g] e hj]
  have : response A st g = ((response A st g).1, .ok u) := Prod.ext rfl hg
  simp only [recvLoop]
  rw [this]

/-- **exchange_pool.** One whole exchange from a non-empty pool `c :: rest`: the pool afterwards
    is `rest` (no reply accepted) or `rest` followed by the cookies of one single datagram of the
    exchange that authenticates under S2C with the identifier of this request (`copyN 32 rnd`),
    decoded on its own. In particular its level is `rest.length + cs.length`: with a reply that
    carries at most one cookie per requested field (`C11_pool_bounds`) never more than eight. -/
theorem C11_exchange_pool (A : AEAD) (st : Client) (hdr rnd : Bytes) (ds : List Bytes) (c : Bytes) (rest : List Bytes)
    (hp : st.pool = c :: rest) :
    (exchange A st hdr rnd ds).1.pool = rest ∨
    ∃ b ∈ ds, ∃ d cs, decodePacket b = .ok d ∧ processResponse A b st.s2c d (copyN 32 rnd) = .ok cs ∧
      (exchange A st hdr rnd ds).1.pool = rest ++ cs := by
  let st1 : Client := { st with pool := rest, reqId := copyN 32 rnd }
  have hreq : (request A st hdr rnd).1 = st1 := by
    simp only [request, fetchData, hp]
    split <;> rfl
  cases hr : (request A st hdr rnd).2 with
  | ok req =>
    have hq : request A st hdr rnd = (st1, .ok req) := Prod.ext hreq hr
    rcases C11_recv_loop_pool A (maxNumRetries + 1) st1 ds with ⟨pre, b, post, d, cs, hds, _, _, hd, hpr, hloop⟩ | ⟨hst, hne⟩
    · right
      refine ⟨b, by simp [hds], d, cs, hd, hpr, ?_⟩
      simp only [exchange, hq, hloop]
      rfl
    · left
      simp only [exchange, hq]
      split <;> simp_all <;> rfl
  | err e =>
    left
    have hq : request A st hdr rnd = (st1, .err e) := Prod.ext hreq hr
    simp only [exchange, hq]
    rfl
  | panic p =>
    left
    have hq : request A st hdr rnd = (st1, .panic p) := Prod.ext hreq hr
    simp only [exchange, hq]
    rfl
  | hang =>
    left
    have hq : request A st hdr rnd = (st1, .hang) := Prod.ext hreq hr
    simp only [exchange, hq]
    rfl

/-- level bound of one exchange: a pool of `l ∈ 1..8` cookies and an accepted reply with at most
    one cookie per requested field (`1 + min (8 − l) 6`, `C11_request_shape`) never exceed eight,
    whatever was delivered in front of the reply. -/
theorem C11_exchange_level (l k : Nat) (h1 : 1 ≤ l) (h8 : l ≤ 8) (hk : k ≤ 1 + min (8 - l) 6) :
    (l - 1) + k ≤ 8 := by omega

/-- a datagram that is nothing but the NTP header and two (bogus) cookie fields — no unique
    identifier, no authenticator: the demo datagram of the seeded change -/
def junkTwoCookies : Bytes :=
  zeros 48 ++ (be16 extCookie ++ be16 28 ++ List.replicate 24 7) ++ (be16 extCookie ++ be16 28 ++ List.replicate 24 7)

/-- a client with two 24-byte cookies left, and the server's reply to its request (identifier
    `copyN 32 rnd` with `rnd` = 48 zero bytes) carrying one fresh cookie -/
def sampleClient : Client := { pool := [List.replicate 24 1, List.replicate 24 2], c2s := zeros 32, s2c := zeros 32 }
def sampleReply : Res Bytes :=
  newResponsePacket [List.replicate 24 9] (zeros 32) (zeros 32) >>= fun p => encodePacket tagAEAD (zeros 48) p (zeros 16)

set_option maxRecDepth 100000 in
/-- non-vacuity, and the history of the seeded change in the model: the junk datagram decodes two
    cookie fields and is refused (no unique identifier); delivered in front of the genuine reply it
    changes nothing — the pool ends as [second old cookie, the reply's cookie], level 2. -/
example :
    (response tagAEAD (request tagAEAD sampleClient (zeros 48) (zeros 48)).1 junkTwoCookies).2 = .err .noUid ∧
    (sampleReply.bind fun g =>
      match exchange tagAEAD sampleClient (zeros 48) (zeros 48) [junkTwoCookies, g] with
      | (st, .ok (_, acc)) => .ok (acc, st.pool)
      | (_, _) => .err .noAuth) = .ok (true, [List.replicate 24 2, List.replicate 24 9]) := by
  decide

end ScionTime.C11
