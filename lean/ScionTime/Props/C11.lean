import ScionTime.Model.NtsPool
namespace ScionTime.C11
end ScionTime.C11
