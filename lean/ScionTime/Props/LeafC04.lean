/-
  Kernel-checked ties for leaf functions: the Lean definitions that the leaf translator
  regenerates from /repo's Go source on every run (Gen/Leaf.lean) are equal to the
  hand-written models the property theorems are about. A change to one of these Go functions
  changes the generated definition and breaks the corresponding theorem here.
-/
import ScionTime.Gen.Leaf
import ScionTime.Model.Time64
import ScionTime.Proofs.GoPrelude
namespace ScionTime.LeafTie
open ScionTime ScionTime.Gen.Leaf ScionTime.GoLemmas

/-- view of a generated `S_Time64` as the model's timestamp -/
def t64 (x : S_Time64) : Time64.T64 := { sec := x.Seconds.toNat, frac := x.Fraction.toNat }

theorem C04_leaf_Time64_Before (a b : S_Time64) :
    ntp_Time64_Before a b = Time64.before (t64 a) (t64 b) := by
  unfold ntp_Time64_Before Time64.before t64
  simp only [UInt32.lt_iff_toNat_lt, Int.ofNat_lt]
  congr 2
  rw [Bool.eq_iff_iff]
  simp only [beq_iff_eq, Int.natCast_inj]
  exact UInt32.toNat_inj.symm

theorem C04_leaf_Time64_After (a b : S_Time64) :
    ntp_Time64_After a b = Time64.after (t64 a) (t64 b) := by
  unfold ntp_Time64_After Time64.after t64
  simp only [gt_iff_lt, UInt32.lt_iff_toNat_lt, Int.ofNat_lt]
  congr 2
  rw [Bool.eq_iff_iff]
  simp only [beq_iff_eq, Int.natCast_inj]
  exact UInt32.toNat_inj.symm


/-! ### The two conversions themselves (second-generation leaves)

`ntp.Time64FromTime` and `ntp.TimeFromTime64` as regenerated from the Go source — over Go's
wrapping `int64`/`uint32` arithmetic, with `time.Time` operations from Model/GoPrelude.lean — are
the integer models `Time64.ofTime` / `Time64.toTime` that every C04 theorem is about, for every
instant whose Unix seconds lie within ±2^62 (encode) resp. ±2^61 (decode; year ±7·10^10). The
range hypothesis only excludes wrap-around of the int64 seconds arithmetic. -/

theorem C04_leaf_Time64FromTime (t : Int)
    (h : -4611686018427387904 ≤ t / 1000000000 ∧ t / 1000000000 < 4611686018427387904) :
    t64 (ntp_Time64FromTime t) = Time64.ofTime t := by
  unfold ntp_Time64FromTime t64 Time64.ofTime Time64.unixSec Time64.nanosecond Time64.epoch Time64.era Time64.nsPerSec
  simp only [Time64.T64.mk.injEq]
  constructor
  · rw [toNat_narrow32]
    have hu : (Go.Time.unix t).toInt = t / 1000000000 := by
      unfold Go.Time.unix; apply toInt_ofInt_of_fits <;> omega
    have hc : (-2208988800 : Int64).toInt = -2208988800 := by decide
    rw [toInt_sub_of_fits _ _ (by rw [hu, hc]; omega) (by rw [hu, hc]; omega), hu, hc]
    rfl
  · rw [toNat_narrow32]
    have hns0 := Int.emod_nonneg t (show (1000000000 : Int) ≠ 0 by omega)
    have hns1 := Int.emod_lt_of_pos t (show (0 : Int) < 1000000000 by omega)
    have hn : (Go.Time.nanosecond t).toInt = t % 1000000000 := by
      unfold Go.Time.nanosecond; apply toInt_ofInt_of_fits <;> omega
    have hs : (Go.shl64 (Go.Time.nanosecond t) 32).toInt = t % 1000000000 * 4294967296 := by
      rw [toInt_shl64_32 _ (by omega) (by omega), hn]
    have hc : (1000000000 : Int64).toInt = 1000000000 := by decide
    rw [toInt_div_pos _ _ (by rw [hc]; omega), hs, hc, Int.tdiv_eq_ediv_of_nonneg (by omega)]
    have : t % 1000000000 * 4294967296 / 1000000000 < 4294967296 := by omega
    have : 0 ≤ t % 1000000000 * 4294967296 / 1000000000 := by omega
    omega

/-- premises satisfiable: 10 s after the 2036 era rollover -/
example : -4611686018427387904 ≤ (2085978506000000000 : Int) / 1000000000 ∧
    (2085978506000000000 : Int) / 1000000000 < 4611686018427387904 := by omega

theorem C04_leaf_TimeFromTime64 (x : S_Time64) (t0 : Int)
    (h : -2305843009213693952 ≤ t0 / 1000000000 ∧ t0 / 1000000000 < 2305843009213693952) :
    ntp_TimeFromTime64 x t0 = Time64.toTime (t64 x) t0 := by
  have hS0 : (0 : Int) ≤ x.Seconds.toNat := by omega
  have hS1 : (x.Seconds.toNat : Int) < 4294967296 := by have := x.Seconds.toBitVec.isLt; have : x.Seconds.toNat = x.Seconds.toBitVec.toNat := rfl; omega
  have hF0 : (0 : Int) ≤ x.Fraction.toNat := by omega
  have hF1 : (x.Fraction.toNat : Int) < 4294967296 := by have := x.Fraction.toBitVec.isLt; have : x.Fraction.toNat = x.Fraction.toBitVec.toNat := rfl; omega
  have hu : (Go.Time.unix t0).toInt = t0 / 1000000000 := by
    unfold Go.Time.unix; apply toInt_ofInt_of_fits <;> omega
  have hE : (-2208988800 : Int64).toInt = -2208988800 := by decide
  have hR : (4294967296 : Int64).toInt = 4294967296 := by decide
  have h2 : (2 : Int64).toInt = 2 := by decide
  have hG : (1000000000 : Int64).toInt = 1000000000 := by decide
  -- names for the integer values
  generalize htr : t0 / 1000000000 = tr at *
  have hq := tdiv_bounds (tr + 2208988800)
  generalize hqd : (tr + 2208988800).tdiv 4294967296 = q at *
  have h_a : (Go.Time.unix t0 - (-2208988800 : Int64)).toInt = tr + 2208988800 := by
    rw [toInt_sub_of_fits _ _ (by rw [hu, hE]; omega) (by rw [hu, hE]; omega), hu, hE]; omega
  have h_b : ((Go.Time.unix t0 - (-2208988800 : Int64)) / (4294967296 : Int64)).toInt = q := by
    rw [toInt_div_pos _ _ (by rw [hR]; omega), h_a, hR, hqd]
  have h_c : (((Go.Time.unix t0 - (-2208988800 : Int64)) / (4294967296 : Int64)) * (4294967296 : Int64)).toInt = q * 4294967296 := by
    rw [toInt_mul_of_fits _ _ (by rw [h_b, hR]; omega) (by rw [h_b, hR]; omega), h_b, hR]
  have h_d : ((-2208988800 : Int64) + (((Go.Time.unix t0 - (-2208988800 : Int64)) / (4294967296 : Int64)) * (4294967296 : Int64))).toInt = -2208988800 + q * 4294967296 := by
    rw [toInt_add_of_fits _ _ (by rw [h_c, hE]; omega) (by rw [h_c, hE]; omega), h_c, hE]
  have h_s : (x.Seconds.toUInt64.toInt64).toInt = x.Seconds.toNat := toInt_widen32 _
  have h_f : (x.Fraction.toUInt64.toInt64).toInt = x.Fraction.toNat := toInt_widen32 _
  have h_e : (((-2208988800 : Int64) + (((Go.Time.unix t0 - (-2208988800 : Int64)) / (4294967296 : Int64)) * (4294967296 : Int64))) + x.Seconds.toUInt64.toInt64).toInt
      = -2208988800 + q * 4294967296 + x.Seconds.toNat := by
    rw [toInt_add_of_fits _ _ (by rw [h_d, h_s]; omega) (by rw [h_d, h_s]; omega), h_d, h_s]
  have h_half : ((4294967296 : Int64) / (2 : Int64)).toInt = 2147483648 := by decide
  have h_lo : (Go.Time.unix t0 - (4294967296 : Int64) / (2 : Int64)).toInt = tr - 2147483648 := by
    rw [toInt_sub_of_fits _ _ (by rw [hu, h_half]; omega) (by rw [hu, h_half]; omega), hu, h_half]
  have h_hi : (Go.Time.unix t0 + (4294967296 : Int64) / (2 : Int64)).toInt = tr + 2147483648 := by
    rw [toInt_add_of_fits _ _ (by rw [hu, h_half]; omega) (by rw [hu, h_half]; omega), hu, h_half]
  have h_ns : (Go.shr64 (x.Fraction.toUInt64.toInt64 * (1000000000 : Int64)) 32).toInt = (x.Fraction.toNat : Int) * 1000000000 / 4294967296 := by
    rw [toInt_shr64_32, toInt_mul_of_fits _ _ (by rw [h_f, hG]; omega) (by rw [h_f, hG]; omega), h_f, hG]
  unfold ntp_TimeFromTime64 Time64.toTime Time64.mkTime Time64.decSec Time64.decNs Time64.unixSec t64 Go.unixTime
  simp only [Time64.epoch, Time64.era, Time64.nsPerSec, htr]
  rw [h_ns]
  have e1 : tr - -2208988800 = tr + 2208988800 := by omega
  rw [e1, hqd]
  generalize (-2208988800 + (Go.Time.unix t0 - -2208988800) / 4294967296 * 4294967296 + x.Seconds.toUInt64.toInt64 : Int64) = A at *
  generalize (Go.Time.unix t0 - 4294967296 / 2 : Int64) = B at *
  generalize (Go.Time.unix t0 + 4294967296 / 2 : Int64) = C at *
  have hAb : -4611686018427387904 ≤ A.toInt ∧ A.toInt ≤ 4611686018427387904 := by rw [h_e]; omega
  have hAp : ∀ R : Int64, R.toInt = 4294967296 → (A + R).toInt = A.toInt + 4294967296 := by
    intro R hR'; rw [toInt_add_of_fits _ _ (by omega) (by omega), hR']
  have hAm : ∀ R : Int64, R.toInt = 4294967296 → (A - R).toInt = A.toInt - 4294967296 := by
    intro R hR'; rw [toInt_sub_of_fits _ _ (by omega) (by omega), hR']
  have e2 : (4294967296 : Int) / 2 = 2147483648 := by omega
  rw [e2, ← h_e, ← h_lo, ← h_hi, ite3_toInt, hAp _ hR, hAm _ hR]

/-- premises satisfiable, and the generated decoder unfolds into the previous era there
    (reference 10 s after the rollover, timestamp 5 s before it). -/
example : -2305843009213693952 ≤ (2085978506000000000 : Int) / 1000000000 ∧
    (2085978506000000000 : Int) / 1000000000 < 2305843009213693952 := by omega

end ScionTime.LeafTie
