/-
  Kernel-checked ties for leaf functions: the Lean definitions that the leaf translator
  regenerates from /repo's Go source on every run (Gen/Leaf.lean) are equal to the
  hand-written models the property theorems are about. A change to one of these Go functions
  changes the generated definition and breaks the corresponding theorem here.
-/
import ScionTime.Gen.Leaf
import ScionTime.Model.Time64
namespace ScionTime.LeafTie
open ScionTime.Gen.Leaf

/-- view of a generated `S_Time64` as the model's timestamp -/
def t64 (x : S_Time64) : Time64.T64 := { sec := x.Seconds.toNat, frac := x.Fraction.toNat }

theorem C04_leaf_Time64_Before (a b : S_Time64) :
    ntp_Time64_Before a b = Time64.before (t64 a) (t64 b) := by
  unfold ntp_Time64_Before Time64.before t64
  simp only [UInt32.lt_iff_toNat_lt, Int.ofNat_lt]
  congr 2
  rw [Bool.eq_iff_iff]
  simp only [beq_iff_eq, Int.natCast_inj]
  exact UInt32.toNat_inj.symm

theorem C04_leaf_Time64_After (a b : S_Time64) :
    ntp_Time64_After a b = Time64.after (t64 a) (t64 b) := by
  unfold ntp_Time64_After Time64.after t64
  simp only [gt_iff_lt, UInt32.lt_iff_toNat_lt, Int.ofNat_lt]
  congr 2
  rw [Bool.eq_iff_iff]
  simp only [beq_iff_eq, Int.natCast_inj]
  exact UInt32.toNat_inj.symm

end ScionTime.LeafTie
